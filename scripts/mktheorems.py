#!/usr/bin/env python3
"""Regenerate /verif/THEOREMS.md (index of the audited property theorems) from theorems.json."""
import json, os
V = os.path.dirname(os.path.dirname(os.path.abspath(__file__)))
reg = json.load(open(os.path.join(V, "theorems.json")))
props = {json.loads(l)["id"]: json.loads(l) for l in open(os.path.join(V, "properties.jsonl"))}
out = ["# Property theorems audited by the checks (generated from theorems.json by scripts/mkregistry.py + scripts/mktheorems.py)", "",
       "Every theorem below is re-built and its axioms printed (`#print axioms`) on every run of the corresponding check; allowed axioms: propext, Classical.choice, Quot.sound.", ""]
total = 0
for pid in sorted(reg):
    r = reg[pid]
    out += ["", "## %s — %s" % (pid, props[pid]["title"]), "",
            "Modules: %s. Assumptions: %s" % (", ".join(r.get("modules", [r["module"]])), r.get("assumptions", "")), ""]
    for t in r["theorems"]:
        says = t.get("says") or t["name"].split(".")[-1].replace("_", " ")
        out.append("- `%s` — %s" % (t["name"], says))
        total += 1
out += ["", "Total: %d theorems." % total, ""]
open(os.path.join(V, "THEOREMS.md"), "w").write("\n".join(out))
print(total)
