#!/usr/bin/env python3
"""Regenerate /verif/MANIFEST.json from the table below."""
import json
TECH = "machine-checked proof in Lean 4 (theorems over a hand-written model) + model/implementation correspondence check + implementation-side property oracle"
BBSNOTE = ("Theorems hold for every lawful environment. For the concrete, executable BLS12-381 instance (L0) it is PROVEN that the scalar layer is a field "
           "with canonical codec, the point codecs are canonical, G1 and G2 with the executable operations are the elliptic-curve groups (Mathlib's group law) and "
           "prime-order modules over the scalar field (Zk.ConcreteG1, Zk.ConcreteG2), and that every model function commutes with homomorphisms, so that a run on "
           "the executable instance is the image of a run on the lawful subtype instance (Zk.Transfer, Zk.Bridge); ASSUMED (hypotheses, never axioms): the pairing "
           "product check is bilinear and non-degenerate, cofactor clearing maps E1(Fp) into the prime-order subgroup (that hash_to_curve outputs are on the curve is proven, "
           "Zk.ConcreteH2C), SHA-256/SHAKE-256 are modelled (KAT-pinned). "
           "Model = code rests on the correspondence run of this check (generated cases + corpus). Axioms: propext, Classical.choice, Quot.sound only.")
CLNOTE = ("Theorems are about the Int-level CL03 model in ZMod N; rug/GMP integer semantics, SHA-256 and the primality oracle are modelled, not verified. "
          "Model = code rests on the correspondence run (every random draw is replayed from the recorded tape and checked against its contract). "
          "Axioms: propext, Classical.choice, Quot.sound only.")
P = {
 "C01": ("Completeness, 80-byte round trip and None = empty as Lean theorems for every key, header and message list; differential run incl. L = 0..257 (4096 thorough) and boundary lengths.", BBSNOTE),
 "C02": ("Characterisation verify <-> (sk+e)A = B, unconditional rejection of every single-component / single-bit change of the signature, statement edits reduced to explicit HashCollision / generator-relation events, DST separation of suites and interfaces by decide on regenerated constants.", BBSNOTE + " Soundness is relative to the named events (hash collisions, DL relations among generators)."),
 "C03": ("proof_complete: for every valid signature, every (unsorted, duplicated) disclosure list, header and ph, proof_gen succeeds and proof_verify accepts, also after the codec round trip; length 272 + 32 U. Differential run exhaustive over all subsets for small L with injected and recorded tapes.", BBSNOTE + " Hypotheses r1, r2 != 0, sk != 0, sk + e != 0 and totality of the challenge hash are explicit."),
 "C04": ("Identity points rejected (theorem, all inputs), acceptance characterisation, special soundness with explicit extractor, every single-field change reduced to HashCollision / FixedPoint, statement binding; forgery families and bit flips run against code and model.", BBSNOTE + " Knowledge soundness under Fiat-Shamir (rewinding) is a paper argument on top of special_soundness."),
 "C05": ("commit/blind_sign/verify_blind_sign and blind_proof_gen/verify completeness for all (L, M) and all disclosure pairs as Lean theorems; generator-list agreement between signer and verifier proven; exhaustive small (L, M) differential run.", BBSNOTE),
 "C06": ("blind_sign issues only for commitments whose proof verifies (structural theorem), commitment special soundness and tamper reductions, verify_blind_sign characterisation; bit flips, splices, truncations against code and model.", BBSNOTE + " Binding of the signer-message count L is exercised by the differential run, not proven (needs a generator-distinctness event)."),
 "C07": ("Algebraic part proven: blindings recoverable from transcripts, two-transcript extraction, proofs/commitments injective in the tape, each draw used in one role, Pedersen hiding. Production RNG observed through the recording hook: distinctness, spread and no-exposure monitors, proof = model(inputs, recorded tape).", BBSNOTE + " The quality of thread_rng itself is a runtime fact: the monitors are tests (labelled so in the evidence), partial by nature."),
 "C08": ("No model function reaches the panic outcome for any byte string, index list or count (theorems, under 'generator creation does not panic'); every length 0..1024 per decoder and hostile API arguments run against the code built with overflow checks, outcome classes equal to the model.", BBSNOTE + " Wall-time budgets are measured, not proven; the work bound is proven as a bound on generator requests."),
 "C09": ("Round trip, strictness (accepted => re-encoding equals input), rejection of wrong lengths, trailing bytes, identity and e = 0 for all six codecs as theorems; scalar canonicity proven for the concrete codec; point patterns, flips, extensions run against code and model.", BBSNOTE + " Point-level strictness (off-curve, subgroup, flags) is part of the Lawful assumption and exercised by the differential run; JSON round trips are implementation-side tests."),
 "C10": ("The model is the independent reference (written from the drafts, reproduces all fixtures in its self-test); octet/decision equality on a battery incl. exact limits 31/32, 65535/65536, 255/256, also on 16 threads; reference laws (generator prefix, i2osp, keygen guards) proven.", BBSNOTE + " That the reference reads the drafts correctly is pinned by the repository's fixture vectors."),
 "C11": ("DST separation proven on regenerated constants, generator prefix law proven for all n, k; cross-suite/interface acceptance characterised (CrossRelation); generator families checked duplicate-, identity-, P1-free and disjoint on the implementation and compared with the model.", BBSNOTE + " Distinctness of hash outputs is checked on the first N generators (N = 64 quick, 1024 thorough), it cannot be a theorem."),
 "C12": ("update_step / update_history by induction over any update list, equality with a fresh signature for the same e, out-of-range positions refused, wrong old value never verifies (unconditional); chains up to 32 updates against code and model.", BBSNOTE),
 "C13": ("CL03 sign/verify completeness incl. disclosure, e-shape, and rejection of out-of-range / shifted attributes as theorems in ZMod N; all negative families against code and model on generated keys.", CLNOTE),
 "C14": ("Issuance complete for every hidden set (after the a_i fix), issuer gated by verify_proof, sigma-protocol special soundness; all non-empty hidden subsets for n <= 3 (5 thorough), mismatch families and leaf edits against code and model.", CLNOTE),
 "C15": ("Nine-response proof of knowledge complete for every hidden set; statement binding and leaf tampering against code and model.", CLNOTE),
 "C16": ("Boudot: tolerance arithmetic and completeness under the draw contracts proven; square/decomposition link required by the verifier; transplant, other bounds/bases/modulus, field edits against code and model.", CLNOTE),
 "C17": ("Proofs carry only commitment values (structural theorem on the model); attacker recomputations of the property on serialized proofs of the implementation.", CLNOTE),
 "C18": ("Key and parameter well-formedness under the recorded primality draws, digit codecs round trip; generated keys checked predicate by predicate on the implementation and compared with the model (incl. next-prime contract).", CLNOTE),
 "C19": ("mask_margin: floor(s/c) - x = floor(r/c) >= 2^(n-257) for every response with blinding of n >= |x| + 384 bits; blinding lengths are read by the model's tape contracts; all quotient inequalities of the property evaluated on implementation output.", CLNOTE),
}
import sys, os
claimed = sys.argv[1:] if len(sys.argv) > 1 else sorted(P)
props = [json.loads(l) for l in open("/verif/properties.jsonl")]
def chk(pid):
    text, note = P[pid]
    return {"property_id": pid, "quick_cmd": "./check %s --tier quick" % pid, "thorough_cmd": "./check %s --tier thorough" % pid,
            "evidence_file": "/verif/evidence/%s.json" % pid, "replay_cmd_template": "./check %s --replay {path}" % pid,
            "engine": "lean-model", "level_claimed": {"category": "proof", "text": text, "design_ref": "DESIGN.md section 6 " + pid},
            "level_note": note, "technique": TECH}
hooks = os.popen("git -C /repo log --format=%h --grep='verif hooks'").read().split()
m = {"version": 1, "setup_cmd": "/verif/scripts/setup.sh",
     "hooks": {"guard": "cargo feature verif_hooks", "enable": "harness crates (harness/hbbs, harness/hcl) depend on the repository by path with features = [..., \"verif_hooks\"]",
               "baseline_off_cmd": "cd /repo && cargo test --workspace --no-fail-fast --offline", "source_commits": hooks, "add_only": True},
     "engines": [{"name": "lean-model", "path": "lean", "serves_properties": claimed, "kind_free_text": "Lean 4 model (L0 primitives, L1 protocol models ZkModel/L1/{Bbs,Cl}.lean), theorems (ZkProofs/Props), compiled line-protocol driver"},
                 {"name": "hbbs", "path": "harness/hbbs", "serves_properties": [c for c in claimed if c <= "C12"], "kind_free_text": "Rust harness for BBS/Blind BBS: case generation, implementation-side oracles, line protocol"},
                 {"name": "hcl", "path": "harness/hcl", "serves_properties": [c for c in claimed if c > "C12"], "kind_free_text": "Rust harness for CL03 (feature cl03 through the GMP shim): tapes, oracles, line protocol"}],
     "checks": [chk(p) for p in claimed],
     "not_applicable": [{"property_id": p["id"], "reason": "check under construction (CL03 model and harness are being built); not yet claimed"} for p in props if p["id"] not in claimed],
     "notes": "See DESIGN.md (Appendix C.7 for the latest session). known_findings.json lists the repaired defects F1-F15 (status fixed: they suppress nothing) and the known findings F16-F22 (C16, C15, C14: group elements of CL03 range / signature / issuance proofs replaced by their negatives modulo N are accepted; protocol-inherent, no small repair): the C16, C15 and C14 checks print one KNOWN-FINDING line per listed class and exit 0, and report any other accepted negation as a violation. theorems.json is the registry of the 1221 property theorems audited per check."}
json.dump(m, open("/verif/MANIFEST.json", "w"), indent=1)
print("claimed", claimed)
