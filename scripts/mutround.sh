#!/bin/bash
# generic round helper: confirm a seeded change in $MUTDIR/<Cxx> using the demo_cmd of its meta.json (exit status with /
# without the change, 98 lib tests with it), save it as seeded/<Cxx>-$SUFFIX, remove the worktree, run the named checks.
# usage: MUTDIR=/tmp/mut7 SUFFIX=g scripts/mutround.sh Cxx [checks...]
p=$1; shift
WT=$MUTDIR/$p
. /verif/scripts/clenv.sh
cd $WT || exit 2
git diff -- src > /tmp/confirm_$p.diff
[ -s /tmp/confirm_$p.diff ] || { echo "no change applied"; exit 2; }
DEMO=$(python3 -c "import json;print(json.load(open('meta.json'))['demo_cmd'].split('   (')[0].split('  #')[0])")
L=$(cargo test --offline --lib 2>&1 | grep -E "^test result" | tail -1)
bash -c "$DEMO" > /tmp/demo_with_$p.log 2>&1; W=$?
git apply -R /tmp/confirm_$p.diff
bash -c "$DEMO" > /tmp/demo_without_$p.log 2>&1; O=$?
git apply /tmp/confirm_$p.diff
echo "with change:    demo exit $W ($(grep -E '^test result' /tmp/demo_with_$p.log | tr '\n' ' ' | cut -c1-160)); lib: $L"
echo "without change: demo exit $O ($(grep -E '^test result' /tmp/demo_without_$p.log | tr '\n' ' ' | cut -c1-160))"
if [ "$W" = 0 ] || [ "$O" != 0 ]; then echo "NOT CONFIRMED"; exit 3; fi
d=/verif/seeded/$p-$SUFFIX; mkdir -p $d
cp /tmp/confirm_$p.diff $d/patch.diff
cp meta.json $d/
[ -f tests/demo_seeded.rs ] && cp tests/demo_seeded.rs $d/
for x in demo_seeded demo_runner demo_harness demo_crate demo demo_pkg runner; do [ -d $x ] && { mkdir -p $d/$x; rsync -a --exclude target --exclude Cargo.lock $x/ $d/$x/; }; done
for x in examples/demo_seeded.rs; do [ -f $x ] && cp $x $d/; done
cd /verif
git -C /repo worktree remove --force $WT
scripts/runmut.sh seeded/$p-$SUFFIX ${@:-$p}
