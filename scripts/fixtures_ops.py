#!/usr/bin/env python3
"""Turn the IETF draft fixtures shipped with the crate (/repo/fixture_data, /repo/fixture_data_blind)
into protocol lines `<id> <suite> <op> <args…> => <expected outcome per the fixture>`.

The expected outcome comes from the FIXTURE (the draft's test vector), never from the implementation
or the model: the C10 check replays these lines through the implementation (must equal the fixture)
and through the Lean model (must equal the implementation), so the reference model is tied to the
draft's own vectors, not only to the code it mirrors.

usage: fixtures_ops.py <out.txt>       (prints a JSON summary)
"""
import json, os, sys, glob

REPO = os.environ.get("ZK_REPO", "/repo")
SUITES = {"sha": "bls12-381-sha-256", "shake": "bls12-381-shake-256"}
API = {"sha": b"BBS_BLS12381G1_XMD:SHA-256_SSWU_RO_H2G_HM2S_", "shake": b"BBS_BLS12381G1_XOF:SHAKE-256_SSWU_RO_H2G_HM2S_"}


def hx(s):
    return s if s else "."


def ohx(s):
    return "-" if s is None else hx(s)


def lhx(l):
    return "L%d" % len(l) + "".join(":" + hx(x) for x in l)


def olhx(l):
    return "-" if l is None else lhx(l)


def lix(l):
    return "I%d" % len(l) + "".join(":%d" % x for x in l)


def tape(l):
    return "T%d" % len(l) + "".join(":" + x for x in l)


def load(p):
    try:
        return json.load(open(p))
    except Exception:
        return None


def main():
    out = []
    counts = {}
    nid = [900000]

    def emit(suite, op, args, expected, kind):
        nid[0] += 1
        out.append("%d %s %s %s => %s" % (nid[0], suite, op, " ".join(args), expected))
        counts[kind] = counts.get(kind, 0) + 1

    for suite, d in SUITES.items():
        base = os.path.join(REPO, "fixture_data", d)
        kp = load(os.path.join(base, "keypair.json"))
        if kp:
            emit(suite, "keygen", [hx(kp["keyMaterial"]), ohx(kp.get("keyInfo")), ohx(kp.get("keyDst"))],
                 "ok " + kp["keyPair"]["secretKey"] + kp["keyPair"]["publicKey"], "keypair")
        h = load(os.path.join(base, "h2s.json"))
        if h:
            emit(suite, "h2s", [hx(h["message"]), hx(h["dst"])], "ok " + h["scalar"], "h2s")
        m = load(os.path.join(base, "MapMessageToScalarAsHash.json"))
        if m:
            for c in m["cases"]:
                emit(suite, "mapmsg", [hx(c["message"]), API[suite].hex()], "ok " + c["scalar"], "map_message")
        g = load(os.path.join(base, "generators.json"))
        if g:
            gl = [g["Q1"]] + list(g["MsgGenerators"])
            emit(suite, "gens", [API[suite].hex(), str(len(gl))], "ok " + "".join(gl), "generators")
            # every prefix must be a prefix (create_generators is incremental by construction)
            emit(suite, "gens", [API[suite].hex(), "1"], "ok " + g["Q1"], "generators")
        for f in sorted(glob.glob(os.path.join(base, "signature", "*.json"))):
            s = load(f)
            if not s:
                continue
            sk, pk = s["signerKeyPair"]["secretKey"], s["signerKeyPair"]["publicKey"]
            hdr = s.get("header")
            msgs = s.get("messages", [])
            sig = s["signature"]
            valid = s["result"]["valid"]
            if len(sig) == 160:
                emit(suite, "verify", [pk, sig[:96], sig[96:], ohx(hdr), lhx(msgs)], "ok" if valid else "err", "signature_verify")
            if valid:
                emit(suite, "sign", [sk, pk, ohx(hdr), lhx(msgs)], "ok " + sig, "signature_sign")
        for f in sorted(glob.glob(os.path.join(base, "proof", "*.json"))):
            p = load(f)
            if not p:
                continue
            pk = p["signerPublicKey"]
            hdr, ph = p.get("header"), p.get("presentationHeader")
            msgs = p.get("messages", [])
            idx = p.get("disclosedIndexes", [])
            valid = p["result"]["valid"]
            dmsgs = [msgs[i] for i in idx if i < len(msgs)]
            if len(dmsgs) == len(idx):
                emit(suite, "proofverify", [pk, p["proof"], ohx(hdr), ohx(ph), lhx(dmsgs), lix(idx)], "ok" if valid else "err", "proof_verify")
            rs = (p.get("trace") or {}).get("random_scalars")
            if valid and rs and "signature" in p:
                t = [rs["r1"], rs["r2"], rs["e_tilde"], rs["r1_tilde"], rs["r3_tilde"]] + list(rs.get("m_tilde_scalars", []))
                emit(suite, "proofgen", [pk, p["signature"], ohx(hdr), ohx(ph), lhx(msgs), lix(idx), tape(t)], "ok " + p["proof"], "proof_gen_mocked_rng")
        # blind fixtures
        bbase = os.path.join(REPO, "fixture_data_blind", d)
        bg = load(os.path.join(bbase, "generators.json"))
        if bg:
            for key in ("generators", "blindGenerators"):
                gg = bg.get(key)
                if gg and "api_id" in gg and "Q1" in gg:
                    gl = [gg["Q1"]] + list(gg.get("MsgGenerators", []))
                    emit(suite, "gens", [gg["api_id"].encode().hex(), str(len(gl))], "ok " + "".join(gl), "blind_generators")
        for f in sorted(glob.glob(os.path.join(bbase, "commit", "*.json"))):
            c = load(f)
            if not c or not c["result"]["valid"]:
                continue
            rs = (c.get("trace") or {}).get("random_scalars")
            if rs:
                t = [c["proverBlind"], rs["s_tilde"]] + list(rs.get("m_tildes", []))
                emit(suite, "commit", [lhx(c.get("committedMessages", [])), tape(t)], "ok " + c["commitmentWithProof"] + c["proverBlind"], "blind_commit_mocked_rng")
        for f in sorted(glob.glob(os.path.join(bbase, "signature", "*.json"))):
            s = load(f)
            if not s:
                continue
            sk, pk = s["signerKeyPair"]["secretKey"], s["signerKeyPair"]["publicKey"]
            cwp = s.get("commitmentWithProof") or None
            blind = s.get("proverBlind") or None
            hdr = s.get("header")
            msgs, cmsgs = s.get("messages") or [], s.get("committedMessages")
            sig = s["signature"]
            valid = s["result"]["valid"]
            if valid:
                emit(suite, "blindsign", [sk, pk, ohx(cwp), ohx(hdr), lhx(msgs)], "ok " + sig, "blind_sign")
            if len(sig) == 160:
                emit(suite, "verifyblind", [pk, sig[:96], sig[96:], ohx(hdr), lhx(msgs), olhx(cmsgs), ohx(blind)], "ok" if valid else "err", "blind_verify")
        for f in sorted(glob.glob(os.path.join(bbase, "proof", "*.json"))):
            p = load(f)
            if not p:
                continue
            pk = p["signerPublicKey"]
            hdr, ph = p.get("header"), p.get("presentationHeader")
            rm = p.get("revealedMessages", {}) or {}
            rc = p.get("revealedCommittedMessages", {}) or {}
            idx = sorted(int(k) for k in rm)
            cidx = sorted(int(k) for k in rc)
            dm = [rm[str(i)] for i in idx]
            dc = [rc[str(i)] for i in cidx]
            valid = p["result"]["valid"]
            emit(suite, "blindproofverify", [pk, p["proof"], ohx(hdr), ohx(ph), str(p["L"]), lhx(dm), lhx(dc), lix(idx), lix(cidx)], "ok" if valid else "err", "blind_proof_verify")
    open(sys.argv[1], "w").write("\n".join(out) + "\n")
    print(json.dumps({"lines": len(out), "by_kind": counts}))


if __name__ == "__main__":
    main()
