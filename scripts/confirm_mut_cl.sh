#!/bin/bash
# confirm a seeded CL03 change: demo crate exits non-zero with it, zero without; 98 lib tests pass with it
. /verif/scripts/clenv.sh
WT=$1
cd $WT || exit 2
git diff -- src > /tmp/confirm.diff
[ -s /tmp/confirm.diff ] || { echo "no change applied"; exit 2; }
L=$(cargo test --offline --lib 2>&1 | grep -E "^test result" | tail -1)
(cd demo_seeded && cargo run --offline >/tmp/demo_with.log 2>&1); W=$?
git apply -R /tmp/confirm.diff
(cd demo_seeded && cargo run --offline >/tmp/demo_without.log 2>&1); O=$?
git apply /tmp/confirm.diff
echo "with change:    demo exit $W ; lib: $L"
echo "without change: demo exit $O"
