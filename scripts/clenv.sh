export SH=/verif/build/cl03shim
export C_INCLUDE_PATH=$SH/include LIBRARY_PATH=$SH/lib LD_LIBRARY_PATH=/opt/veriftools/pyvenv/lib/python3.11/site-packages/cvc5.libs
