#!/bin/bash
# round-3 helper: confirm a seeded change in ${MUTDIR:-/tmp/mut3}/<id>, save it as seeded/<id>-c, remove the worktree, run checks
p=$1; shift
WT=${MUTDIR:-/tmp/mut3}/$p
if [ -d $WT/demo_seeded ]; then /verif/scripts/confirm_mut_cl.sh $WT | tee ${MUTDIR:-/tmp/mut3}/$p.confirm; else /verif/scripts/confirm_mut.sh $WT | tee ${MUTDIR:-/tmp/mut3}/$p.confirm; fi
d=/verif/seeded/$p-${SUFFIX:-c}; mkdir -p $d
(cd $WT && git diff -- src > $d/patch.diff)
cp $WT/meta.json $d/ 2>/dev/null
[ -f $WT/tests/demo_seeded.rs ] && cp $WT/tests/demo_seeded.rs $d/
[ -d $WT/demo_seeded ] && { mkdir -p $d/demo_seeded; cp -r $WT/demo_seeded/src $WT/demo_seeded/Cargo.toml $d/demo_seeded/ 2>/dev/null; }
git -C /repo worktree remove --force $WT
cd /verif && scripts/runmut.sh seeded/$p-${SUFFIX:-c} ${@:-$p}
