#!/bin/bash
# regression over all seeded changes: apply each to /repo, run the quick check of its property, revert.
# usage: regress_seeded.sh [pattern]   (writes work/regress_seeded.log; evidence files are overwritten: re-run the
# checks on the clean tree afterwards)
cd /verif
pat=${1:-C}
: > work/regress_seeded.log
for d in seeded/${pat}*-[a-z]; do
  p=$(basename $d | cut -c1-3)
  if ! git -C /repo apply --check $(realpath $d)/patch.diff 2>/dev/null; then echo "[$(basename $d)] patch does not apply to the current tree" | tee -a work/regress_seeded.log; continue; fi
  git -C /repo apply $(realpath $d)/patch.diff
  out=$(./check $p --tier quick 2>/dev/null | grep -E "^(OK|VIOLATION|KNOWN|cannot)" | cut -c1-150 | head -3 | tr '\n' '|')
  git -C /repo checkout -- .
  echo "[$(basename $d)] $out" | tee -a work/regress_seeded.log
done
