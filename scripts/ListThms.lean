import Lean
open Lean Elab Command

/-- usage: set MOD via `#list_thms ZkProofs.Props.C01` -/
elab "#list_thms " m:ident : command => do
  let env ← getEnv
  let some idx := env.getModuleIdx? m.getId | throwError "module not found"
  let mut out : Array String := #[]
  for (n, ci) in env.constants.toList do
    if env.getModuleIdxFor? n == some idx then
      match ci with
      | .thmInfo _ =>
        if !n.isInternal && !(n.toString.splitOn "._").length > 1 then
          let doc := (← findDocString? env n).getD ""
          let d1 := (doc.replace "\n" " ").trimAscii.toString
          out := out.push s!"{n}\t{d1}"
      | _ => pure ()
  for l in out.qsort (· < ·) do
    logInfo l
