#!/bin/bash
# Build the GMP/MPFR/MPC header+library shim that lets `--features cl03` compile offline
# (DESIGN.md section 4.3). Idempotent. Nothing is fetched.
set -e
SHIM=/verif/build/cl03shim
CR=$(ls -d ~/.cargo/registry/src/*/gmp-mpfr-sys-1.7.1 | head -1)
LIBS=/opt/veriftools/pyvenv/lib/python3.11/site-packages/cvc5.libs
[ -f "$SHIM/.ok" ] && exit 0
rm -rf "$SHIM"; mkdir -p "$SHIM/include" "$SHIM/lib"
sed -e 's/@HAVE_HOST_CPU_FAMILY_power@/0/' -e 's/@HAVE_HOST_CPU_FAMILY_powerpc@/0/' \
    -e 's/@GMP_LIMB_BITS@/64/' -e 's/@GMP_NAIL_BITS@/0/' -e 's,@DEFN_LONG_LONG_LIMB@,/* #undef _LONG_LONG_LIMB */,' \
    -e 's/@LIBGMP_DLL@/0/' -e 's/@CC@/gcc/' -e 's/@CFLAGS@/-O2/' \
    "$CR/gmp-6.3.0-c/gmp-h.in" > "$SHIM/include/gmp.h"
cp "$CR/mpfr-4.2.2-c/src/mpfr.h" "$CR/mpfr-4.2.2-c/src/mpf2mpfr.h" "$SHIM/include/"
cp "$CR/mpc-1.4.1-c/src/mpc.h" "$SHIM/include/"
ln -s "$LIBS"/libgmp-*.so.* "$SHIM/lib/libgmp.so"
ln -s "$LIBS"/libmpfr-*.so.* "$SHIM/lib/libmpfr.so"
ln -s /usr/lib/x86_64-linux-gnu/libmpc.so.3 "$SHIM/lib/libmpc.so"
touch "$SHIM/.ok"
