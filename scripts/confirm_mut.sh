#!/bin/bash
# confirm a seeded change in its scratch worktree: demo fails with it, passes without, 98 lib tests pass with it
WT=$1
cd $WT || exit 2
git diff -- src > /tmp/confirm.diff
[ -s /tmp/confirm.diff ] || { echo "no change applied"; exit 2; }
W=$(cargo test --offline --test demo_seeded 2>&1 | grep -E "^test result" | tail -1)
L=$(cargo test --offline --lib 2>&1 | grep -E "^test result" | tail -1)
git apply -R /tmp/confirm.diff
O=$(cargo test --offline --test demo_seeded 2>&1 | grep -E "^test result" | tail -1)
git apply /tmp/confirm.diff
echo "with change:    demo: $W"
echo "with change:    lib : $L"
echo "without change: demo: $O"
