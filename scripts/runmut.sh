#!/bin/bash
# apply a seeded change to /repo, run the named checks (quick), revert. usage: runmut.sh <seeded-dir> <Cxx>...
D=$1; shift
cd /verif
git -C /repo apply $(realpath $D)/patch.diff || { echo "patch does not apply"; exit 2; }
for p in "$@"; do
  out=$(./check $p --tier quick 2>/dev/null | grep -E "^(OK|VIOLATION|KNOWN|cannot)" | cut -c1-260)
  echo "[$(basename $D) -> $p] $out"
done
git -C /repo checkout -- .
