#!/usr/bin/env python3
"""dev helper: run the Lean model on an ops.txt produced by a harness run (e.g. from sweep_clean.sh) and print disagreements.
usage: modeldiff.py <dir-with-ops.txt> [bbs|cl]"""
import sys, json, time
sys.path.insert(0, '/verif/scripts'); import vlib
d = sys.argv[1]; eng = sys.argv[2] if len(sys.argv) > 2 else 'bbs'
ops = vlib.parse_ops(d + '/ops.txt')
t = time.time()
m, errs = (vlib.run_driver(d + '/ops.txt', d + '/model.txt') if eng == 'bbs' else vlib.run_driver(d + '/ops.txt', d + '/model.txt', mode='cl'))
bad = [o for o in ops if m.get(o['id']) != o['impl']]
print('ops', len(ops), 'model_s', round(time.time() - t, 1), 'diffs', len(bad), errs[:2])
for b in bad[:8]:
    print(' DIFF', vlib.short(b['lhs'], 160), 'impl=', vlib.short(b['impl'], 50), 'model=', vlib.short(str(m.get(b['id'])), 50))
