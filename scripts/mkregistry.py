#!/usr/bin/env python3
"""Rebuild /verif/theorems.json: every theorem declared in ZkProofs/Props/<Cxx>.lean (namespace
Zk.<Cxx>), with the first sentence of its doc comment. Run after editing the Props files."""
import subprocess, json, os, re, sys
LEAN = "/verif/lean"; WORK = "/verif/work"
os.makedirs(WORK, exist_ok=True)
props = sorted(f[:-5] for f in os.listdir(LEAN + "/ZkProofs/Props") if re.fullmatch(r"C\d\d\.lean", f))
subprocess.run(["lake", "env", "lean", "ListThms.lean", "-o", WORK + "/ListThms.olean"], cwd=LEAN, check=True)
lp = subprocess.run(["lake", "env", "printenv", "LEAN_PATH"], cwd=LEAN, capture_output=True, text=True).stdout.strip()
old = json.load(open("/verif/theorems.json")) if os.path.exists("/verif/theorems.json") else {}
reg = {}
for p in props:
    mods = sorted(f[:-5] for f in os.listdir(LEAN + "/ZkProofs/Props") if re.fullmatch(p + r"\w*\.lean", f))
    # modules that are not named after a property but belong to one (module, namespace)
    EXTRA = {"C08": [("Concrete", "ConcreteFacts")],
             # the concrete BLS12-381 instance: G1 / G2 with the executable L0 operations are the elliptic-curve groups
             # (Mathlib's group law), prime-order modules over the scalar field; every model function commutes with
             # homomorphisms of its algebra (Transfer); the property theorems restated for the executable instance
             "C02": [("ConcreteG1", "ConcreteG1")],
             "C01": [("ConcreteG2", "ConcreteG2"), ("ConcreteBridge", "Bridge")],
             "C03": [("ConcreteBridge3", "Bridge3")],
             "C04": [("ConcreteBridge2", "Bridge2")],
             "C10": [("Transfer", "Transfer")],
             "C11": [("ConcreteH2C", "ConcreteH2C")]}
    EXTRA = {k: [(m, ns) for m, ns in v if os.path.exists(LEAN + "/ZkProofs/Props/%s.lean" % m)] for k, v in EXTRA.items()}
    thms = []
    nsmap = {m: m for m in mods}
    for m, ns in EXTRA.get(p, []):
        mods.append(m)
        nsmap[m] = ns
    for mod in mods:
        src = "import ZkProofs.Props.%s\nimport ListThms\n#list_thms ZkProofs.Props.%s\n" % (mod, mod)
        f = WORK + "/lt_%s.lean" % mod
        open(f, "w").write(src)
        out = subprocess.run(["lean", f], env=dict(os.environ, LEAN_PATH=WORK + ":" + lp), capture_output=True, text=True).stdout
        for l in out.split("\n"):
            m = re.match(r".*?: (Zk\.%s\.[^\t]+)\t(.*)$" % nsmap[mod], l) or re.match(r"^(Zk\.%s\.[^\t]+)\t(.*)$" % nsmap[mod], l)
            if m:
                name, doc = m.group(1), m.group(2).strip()
                if ".match_" in name or ".proof_" in name or name.endswith(".eq_1") or "._" in name:
                    continue
                says = re.split(r"(?<=[.;])\s", doc)[0][:300] if doc else name.split(".")[-1].replace("_", " ")
                thms.append({"name": name, "says": says})
    reg[p] = {"module": "ZkProofs.Props." + p, "modules": ["ZkProofs.Props." + m for m in mods],
              "assumptions": (["rug/GMP integer semantics as modelled in ZkModel/L0/IntArith.lean (powMod/invMod/isqrt specs are PROVEN: Zk.Cl.arithOK)",
                               "the model's Miller-Rabin stands in for GMP is_probably_prime/next_prime (oracle hypothesis explicit in the theorems that need primality)",
                               "SHA-256 as modelled in L0 (KAT-pinned)"] if p > "C12" else
                              ["Lawful env pair for the concrete BLS12-381 environment (L0); PROVEN for it: scalar field, canonical codecs, "
                               "G1 and G2 are the elliptic-curve groups with the executable operations and prime-order modules over the scalar "
                               "field (Zk.ConcreteG1, Zk.ConcreteG2), every model function commutes with homomorphisms (Zk.Transfer); still "
                               "ASSUMED: the pairing is bilinear and non-degenerate, cofactor clearing lands in the prime-order subgroup (hash_to_curve outputs are on the curve: proven, Zk.ConcreteH2C)"]),
              "theorems": thms}
    print(p, len(thms), "theorems", mods)
json.dump(reg, open("/verif/theorems.json", "w"), indent=1)
