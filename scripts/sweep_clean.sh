#!/bin/bash
# Oracle-only sweep on a CLEAN scratch worktree of /repo (independent of whatever is applied to /repo right now):
# copies the harness sources to /tmp/clean, builds them against /tmp/clean/repo, runs the named generators for the
# given seeds and prints the oracle failures. usage: sweep_clean.sh "C01 C13 ..." "1 2 3" [tier]
# (remove /tmp/clean afterwards: git -C /repo worktree remove --force /tmp/clean/repo; rm -rf /tmp/clean)
PROPS=$1; SEEDS=${2:-1}; TIER=${3:-quick}
. /verif/scripts/clenv.sh
mkdir -p /tmp/clean
[ -d /tmp/clean/repo ] || git -C /repo worktree add --detach /tmp/clean/repo HEAD >/dev/null 2>&1
git -C /tmp/clean/repo checkout -q --detach $(git -C /repo rev-parse HEAD)
for e in hbbs hcl; do
  mkdir -p /tmp/clean/$e
  rsync -a --delete --exclude target --exclude Cargo.toml /verif/harness/$e/ /tmp/clean/$e/
  sed "s#@REPO@#/tmp/clean/repo#" /verif/harness/$e/Cargo.toml.in > /tmp/clean/$e/Cargo.toml
  cp /tmp/clean/repo/Cargo.lock /tmp/clean/$e/Cargo.lock
done
need_b=0; need_c=0
for p in $PROPS; do n=${p#C}; n=$((10#$n)); if [ $n -le 12 ]; then need_b=1; else need_c=1; fi; done
[ $need_b = 1 ] && (cd /tmp/clean/hbbs && cargo build --offline 2>&1 | grep -E "^error" -A8)
[ $need_c = 1 ] && (cd /tmp/clean/hcl && cargo build --offline 2>&1 | grep -E "^error" -A8)
run1() {
  p=$1; s=$2; n=${p#C}; n=$((10#$n))
  if [ $n -le 12 ]; then bin=/tmp/clean/hbbs/target/debug/hbbs; else bin=/tmp/clean/hcl/target/debug/hcl; fi
  d=/tmp/clean/out/$p-$s; rm -rf $d; mkdir -p $d
  t0=$(date +%s)
  $bin $p $TIER $s $d >/dev/null 2>$d/stderr; rc=$?
  python3 - $d $p $s $rc $(( $(date +%s) - t0 )) <<'PY'
import json,sys
d,p,s,rc,t=sys.argv[1:]
try:
    o=json.load(open(d+'/oracle.json'))
    cl={}
    for f in o['failures']: cl[f['class']]=cl.get(f['class'],0)+1
    print(f"[{p} seed {s}] rc={rc} {t}s ops={o['ops']} checks={o['oracle_checks']} failures={len(o['failures'])} {cl} hist={o['stats'].get('history_pass.reexecuted')}")
    for f in o['failures'][:3]: print("    ", f['class'], f['what'][:200])
except Exception as e:
    print(f"[{p} seed {s}] rc={rc} no oracle.json ({e})", open(d+'/stderr').read()[-300:])
PY
}
export -f run1; export TIER
for p in $PROPS; do for s in $SEEDS; do echo "$p $s"; done; done | xargs -P 6 -L 1 bash -c 'run1 $0 $1'
