#!/usr/bin/env python3
"""Prepare a round of seeded-change prompts: one scratch worktree of /repo per property under
/tmp/mut<round>/<Cxx> and one prompt file work/round<round>/<Cxx>.prompt built from seeded/PROMPT.md,
the property text, the summaries of earlier seeded changes for that property (so that the new one is
of a different kind) and a flavour paragraph.  usage: mkround.py <round-number> <flavour-file> [Cxx ...]"""
import json, os, subprocess, sys, glob
rnd, flav = sys.argv[1], open(sys.argv[2]).read().strip()
want = sys.argv[3:]
props = [json.loads(l) for l in open('/verif/properties.jsonl')]
tmpl = open('/verif/seeded/PROMPT.md').read()
out = f'/verif/work/round{rnd}'; os.makedirs(out, exist_ok=True)
for p in props:
    pid = p['id']
    if want and pid not in want: continue
    wt = f'/tmp/mut{rnd}/{pid}'
    if not os.path.isdir(wt):
        os.makedirs(os.path.dirname(wt), exist_ok=True)
        subprocess.run(['git', '-C', '/repo', 'worktree', 'add', '--detach', wt, 'HEAD'], check=True,
                       stdout=subprocess.DEVNULL, stderr=subprocess.DEVNULL)
    earlier = []
    for d in sorted(glob.glob(f'/verif/seeded/{pid}-*')):
        try:
            m = json.load(open(d + '/meta.json'))
            earlier.append('- ' + ' '.join(m.get('summary', '').split())[:260])
        except Exception: pass
    text = p['title'] + '\n' + p['statement']
    pass
    pr = tmpl.replace('@PROPERTY@', text).replace('@WT@', wt).replace('"<id>"', f'"{pid}"')
    pr += '\n\n' + flav + '\n\nEarlier seeded changes for this property (do something of a DIFFERENT kind, at a different site if you can, and do not revert any commit whose message starts with "fix:"):\n' + '\n'.join(earlier) + '\n'
    open(f'{out}/{pid}.prompt', 'w').write(pr)
    print(pid, wt)
