#!/usr/bin/env python3
"""Function-level inventory of /repo/src against the Lean model.

For every `fn` in /repo/src it says whether the function is MODELLED (which Lean definition mirrors
it and is therefore covered by theorems + correspondence), EXERCISED only (called in-process by the
harnesses, outcome compared or checked by oracles, but without a model of its own: accessors,
constructors, serde glue), a unit TEST / test helper, verification HOOK code, or OUT of scope.
A function that matches no rule is reported as UNCLASSIFIED: new code the model does not know about.

usage: coverage.py [--write]   (prints a summary; --write regenerates /verif/COVERAGE.md)
"""
import os, re, sys, json

REPO = os.environ.get("ZK_REPO", "/repo")
VERIF = os.path.dirname(os.path.dirname(os.path.abspath(__file__)))
LEAN = os.path.join(VERIF, "lean", "ZkModel")

# explicit map: (file suffix, fn) -> Lean definition(s)
EXPLICIT = {
    ("bbsplus/generators.rs", "create"): "Zk.Bbs.Generators.create / createGenerators",
    ("bbsplus/generators.rs", "create_generators"): "Zk.Bbs.createGenerators (genLoop)",
    ("bbsplus/generators.rs", "serialize"): "Zk.Bbs.domainInput (generator serialisation inside)",
    ("bbsplus/generators.rs", "append"): "EXERCISED",
    ("bbsplus/keys.rs", "key_pair_gen"): "Zk.Bbs.keyGen + skToPk",
    ("bbsplus/keys.rs", "generate"): "Zk.Bbs.keyGen + skToPk",
    ("bbsplus/keys.rs", "random"): "Zk.Bbs.keyGen (random key material drawn by the harness)",
    ("bbsplus/keys.rs", "public_key"): "Zk.Bbs.skToPk",
    ("bbsplus/keys.rs", "to_bytes"): "Zk.Bbs.pkToBytes / sk encoding",
    ("bbsplus/keys.rs", "from_bytes"): "Zk.Bbs.pkFromBytes / skFromBytes",
    ("bbsplus/keys.rs", "encode"): "Zk.Bbs.pkToBytes (hex of it)",
    ("bbsplus/keys.rs", "to_coordinates"): "Zk.Bbs.pkToCoordinates",
    ("bbsplus/keys.rs", "from_coordinates"): "Zk.Bbs.pkFromCoordinates",
    ("bbsplus/keys.rs", "to_bytes_uncompressed"): "Zk.Bbs.pkToCoordinates (same octets)",
    ("bbsplus/keys.rs", "from_bytes_uncompressed"): "Zk.Bbs.pkFromCoordinates (same octets)",
    ("bbsplus/proof.rs", "proof_check"): "EXERCISED",
    ("bbsplus/proof.rs", "blind_proof_check"): "EXERCISED",
    ("bbsplus/proof.rs", "calculate_random_scalars"): "tape (verif_hooks::on_scalars)",
    ("bbsplus/commitment.rs", "random"): "EXERCISED",
    ("utils/util.rs", "calculate_random_scalars"): "tape: model reads the recorded/injected draws",
    ("utils/util.rs", "seeded_random_scalars"): "TEST",
    ("utils/util.rs", "get_random"): "tape: model reads the recorded/injected draws",
    ("utils/util.rs", "generate_random_secret"): "EXERCISED",
    ("utils/util.rs", "parse_g1_projective"): "Zk.G1 decode (env.g1Dec)",
    ("utils/util.rs", "parse_g2_projective_compressed"): "Zk.G2 decode (env.g2Dec)",
    ("utils/util.rs", "parse_g2_projective_uncompressed"): "Zk.G2 uncompressed decode",
    ("utils/util.rs", "serialize"): "Zk.Bbs.serializeScalars / challengeInput",
    ("utils/util.rs", "get_messages_vec"): "Zk.Bbs.getMessages",
    ("utils/util.rs", "to_bytes_be"): "Zk.Concrete scalar encoding (i2osp 32)",
    ("utils/util.rs", "from_bytes_be"): "Zk.Concrete scalar decoding (canonical, < r)",
    ("utils/util.rs", "encode"): "hex of to_bytes_be",
    ("utils/util.rs", "divm"): "Zk.Cl.divm",
    ("utils/message.rs", "map_message_to_scalar_as_hash"): "Zk.Bbs.mapMessageToScalarAsHash",
    ("utils/message.rs", "messages_to_scalar"): "Zk.Bbs.messagesToScalar",
    ("utils/message.rs", "messages_to_scalars"): "Zk.Bbs.messagesToScalar",
    ("utils/message.rs", "map_message_to_integer_as_hash"): "Zk.Cl.mapMessageToIntegerAsHash",
    ("utils/message.rs", "to_bytes_be"): "scalar encoding",
    ("utils/message.rs", "from_bytes_be"): "scalar decoding",
    ("utils/random.rs", "random_bits"): "Zk.Cl.randomBits (tape contract: exact bit length)",
    ("utils/random.rs", "random_number"): "Zk.Cl.randomNumber (tape contract: below bound)",
    ("utils/random.rs", "rand_int"): "Zk.Cl.randInt (tape contract: range)",
    ("utils/random.rs", "random_prime"): "Zk.Cl.randomPrime (tape contract: next probable prime)",
    ("utils/random.rs", "random_qr"): "Zk.Cl.randomQr",
    ("utils/random.rs", "gen"): "EXERCISED",
    ("cl03/bases.rs", "generate"): "Zk.Cl.basesGen",
    ("cl03/keys.rs", "generate"): "Zk.Cl.keyGen / commitmentPkGen",
    ("cl03/keys.rs", "new"): "EXERCISED",
    ("cl03/keys.rs", "encode"): "hex of to_bytes",
    ("cl03/keys.rs", "to_bytes"): "Zk.ClDriver pk/sk byte layout (ops cl.pkbytes/skbytes)",
    ("cl03/keys.rs", "from_bytes"): "Zk.ClDriver pk/sk byte layout (ops cl.pkfrombytes/skfrombytes)",
    ("cl03/commitment.rs", "commit_with_pk"): "Zk.Cl.commitWithPk",
    ("cl03/commitment.rs", "commit_with_commitment_pk"): "Zk.Cl.commitWithCpk",
    ("cl03/commitment.rs", "commit_v"): "Zk.Cl.commitV",
    ("cl03/commitment.rs", "extend_commitment_with_pk"): "Zk.Cl.extendCommitmentWithPk",
    ("cl03/commitment.rs", "extend_commitment_with_commitment_pk"): "Zk.Cl.extendCommitmentWithCpk",
    ("cl03/sigma_protocols.rs", "nisp2sec_generate_proof"): "Zk.Cl.nisp2secGen",
    ("cl03/sigma_protocols.rs", "nisp2sec_verify_proof"): "Zk.Cl.nisp2secVerify",
    ("cl03/sigma_protocols.rs", "nispMultiSecrets_generate_proof"): "Zk.Cl.nispMultiSecretsGen",
    ("cl03/sigma_protocols.rs", "nispMultiSecrets_verify_proof"): "Zk.Cl.nispMultiSecretsVerify",
    ("cl03/sigma_protocols.rs", "nisp2_generate_proof_MultiSecrets"): "Zk.Cl.nisp2Gen",
    ("cl03/sigma_protocols.rs", "nisp2_verify_proof_MultiSecrets"): "Zk.Cl.nisp2Verify",
    ("cl03/sigma_protocols.rs", "nisp5_MultiAttr_generate_proof"): "Zk.Cl.nisp5Gen",
    ("cl03/sigma_protocols.rs", "nisp5_MultiAttr_verify_proof"): "Zk.Cl.nisp5Verify",
    ("cl03/sigma_protocols.rs", "blinding_bits"): "Zk.Cl.blindLen",
    ("cl03/range_proof.rs", "proof_of_square_decomposition_range"): "Zk.Cl.rangeProve (inlined)",
    ("cl03/range_proof.rs", "verify_of_square_decomposition_range"): "Zk.Cl.rangeVerify (inlined)",
    ("cl03/range_proof.rs", "prove"): "Zk.Cl.rangeProve",
    ("cl03/range_proof.rs", "verify"): "Zk.Cl.rangeVerify",
    ("cl03/proof.rs", "proof_gen"): "Zk.Cl.proofGen",
    ("cl03/proof.rs", "proof_verify"): "Zk.Cl.proofVerify",
    ("cl03/proof.rs", "generate_proof"): "Zk.Cl.zkpokGen",
    ("cl03/proof.rs", "verify_proof"): "Zk.Cl.zkpokVerify",
    ("cl03/proof.rs", "public_part"): "Zk.Cl.publicPart",
    ("cl03/signature.rs", "sign"): "Zk.Cl.sign",
    ("cl03/signature.rs", "sign_multiattr"): "Zk.Cl.signMultiattr",
    ("cl03/signature.rs", "verify"): "Zk.Cl.verify",
    ("cl03/signature.rs", "verify_multiattr"): "Zk.Cl.verifyMultiattr",
    ("cl03/signature.rs", "disclose_selectively"): "Zk.Cl.discloseSelectively",
    ("cl03/signature.rs", "to_bytes"): "Zk.ClDriver signature byte layout (op cl.sigbytes)",
    ("cl03/signature.rs", "from_bytes"): "Zk.ClDriver signature byte layout (op cl.sigfrombytes)",
    ("cl03/blind.rs", "blind_sign"): "Zk.Cl.blindSign",
    ("cl03/blind.rs", "unblind_sign"): "Zk.Cl.unblindSign",
    ("cl03/blind.rs", "update_signature"): "Zk.Cl.updateSignature",
    ("keys/pair.rs", "write_keypair_to_file"): "OUT: file I/O helper, no property refers to it",
    ("keys/traits.rs", "encode"): "trait declaration",
}

TEST_PAT = re.compile(r"^(test_.*|.*_(sha256|shake256)(_\d)?|.*_cl(1024|2048|3072)_sha256|mocked_rng|message_generators|msg_signature|keypair|signature|spok|zkpok|h2s)$")
ACCESSOR = {"a", "e", "A", "v", "rprime", "value", "randomness", "new", "get_value", "private_key", "public_key",
            "into_parts", "bbsPlusSignature", "bbsPlusBlindSignature", "cl03Signature", "cl03Commitment",
            "cl03Commitment_mut", "to_bbsplus_proof", "to_cl03_proof", "to_cl03_zkpok"}


def camel(s):
    p = s.split("_")
    return (p[0] + "".join(x.capitalize() for x in p[1:])).lower()


def lean_defs():
    out = {}
    for root, _, files in os.walk(LEAN):
        for f in files:
            if not f.endswith(".lean") or "Test" in f:
                continue
            txt = open(os.path.join(root, f)).read()
            ns = "Zk"
            for m in re.finditer(r"^\s*(?:partial )?def ([A-Za-z0-9_.']+)", txt, re.M):
                nm = m.group(1)
                for k in (nm.split(".")[-1].lower(), nm.replace(".", "").lower()):
                    out.setdefault(k, []).append((f[:-5], f[:-5] + "." + nm))
    return out


def rust_fns():
    res = []
    for root, _, files in os.walk(os.path.join(REPO, "src")):
        for f in sorted(files):
            if not f.endswith(".rs"):
                continue
            path = os.path.join(root, f)
            rel = os.path.relpath(path, os.path.join(REPO, "src"))
            in_test = False
            for ln, line in enumerate(open(path), 1):
                if re.search(r"#\[cfg\(test\)\]", line):
                    in_test = True  # everything after the test module marker is test code in this crate's layout
                m = re.match(r"\s*(?:pub(?:\([a-z]+\))? )?(?:const )?fn ([A-Za-z_0-9]+)", line)
                if m:
                    res.append((rel, m.group(1), ln, in_test and "mod tests" in open(path).read()))
    return res


def classify(defs):
    rows = []
    for rel, fn, ln, maybe_test in rust_fns():
        key = (rel, fn)
        if rel == "verif_hooks.rs":
            st = ("HOOK", "random-draw tape (cargo feature verif_hooks)")
        elif key in EXPLICIT:
            v = EXPLICIT[key]
            if v in ("EXERCISED", "TEST"):
                st = (v, "")
            elif v.startswith("OUT"):
                st = ("OUT", v[4:].strip())
            elif v.startswith("tape") or v.startswith("trait") or v.startswith("harness") or v.startswith("hex"):
                st = ("EXERCISED", v)
            else:
                st = ("MODELLED", v)
        elif TEST_PAT.match(fn) and (maybe_test or fn.startswith("test_")):
            st = ("TEST", "unit test / test helper of the crate")
        elif fn in ACCESSOR:
            st = ("EXERCISED", "accessor / constructor")
        elif camel(fn) in defs:
            cands = defs[camel(fn)]
            pref = "Cl" if rel.startswith("cl03/") or rel == "utils/random.rs" else "Bbs"
            best = [c for c in cands if c[0] == pref] or cands
            st = ("MODELLED", "Zk." + best[0][1])
        else:
            st = ("UNCLASSIFIED", "")
        rows.append((rel, fn, ln) + st)
    return rows


def main():
    defs = lean_defs()
    rows = classify(defs)
    counts = {}
    for r in rows:
        counts[r[3]] = counts.get(r[3], 0) + 1
    uncl = [r for r in rows if r[3] == "UNCLASSIFIED"]
    print(json.dumps({"functions": len(rows), "by_status": counts, "unclassified": ["%s::%s" % (r[0], r[1]) for r in uncl]}))
    if "--write" in sys.argv:
        with open(os.path.join(VERIF, "COVERAGE.md"), "w") as f:
            f.write("# Function inventory of /repo/src against the Lean model\n\n")
            f.write("Generated by `scripts/coverage.py --write`. MODELLED = mirrored by the named Lean definition "
                    "(theorems + correspondence apply); EXERCISED = run in-process by the harnesses and checked "
                    "by oracles / through the modelled callers, no model of its own; TEST = crate unit tests and "
                    "their helpers; HOOK = guarded instrumentation; OUT = out of scope; UNCLASSIFIED = unknown to "
                    "this inventory (new code).\n\n")
            f.write("Totals: " + ", ".join("%s %d" % kv for kv in sorted(counts.items())) + "\n\n")
            cur = None
            for rel, fn, ln, st, note in rows:
                if rel != cur:
                    f.write("\n## src/%s\n\n| fn | line | status | model / note |\n|---|---|---|---|\n" % rel)
                    cur = rel
                f.write("| `%s` | %d | %s | %s |\n" % (fn, ln, st, note))
    return 0


if __name__ == "__main__":
    sys.exit(main())
