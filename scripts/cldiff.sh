#!/bin/bash
# dev helper: run the CL harness for a property and diff against the model (no proofs)
. /verif/scripts/clenv.sh
P=$1; T=${2:-quick}; S=${3:-1}
D=/verif/work/dev-$P; rm -rf $D; mkdir -p $D
/verif/harness/hcl/target/debug/hcl $P $T $S $D || exit 1
python3 - "$D" <<'PY'
import sys, json, time
sys.path.insert(0,'/verif/scripts'); import vlib
d=sys.argv[1]
ops=vlib.parse_ops(d+'/ops.txt')
t=time.time()
m,errs=vlib.run_driver(d+'/ops.txt', d+'/model.txt', 'cl')
bad=[o for o in ops if m.get(o['id'])!=o['impl']]
o=json.load(open(d+'/oracle.json'))
print('ops',len(ops),'model_s',round(time.time()-t,1),'diffs',len(bad),'oracle_checks',o['oracle_checks'],'oracle_failures',len(o['failures']),errs[:2])
for b in bad[:6]: print(' DIFF',b['id'],b['op'],'impl=',vlib.short(b['impl'],60),'model=',vlib.short(str(m.get(b['id'])),160))
for f in o['failures'][:8]: print(' ORACLE',f)
from collections import Counter
print(Counter((x['op'],x['impl'].split(' ')[0]) for x in ops))
PY
