#!/bin/bash
# One-time offline setup after a fresh restore: CL03 shim, both harness crates, the Lean model,
# the driver executable and every proof module.
set -e
cd /verif
scripts/mkshim.sh
python3 - <<'PY'
import sys; sys.path.insert(0, "/verif/scripts")
import vlib
for e in ("bbs", "cl"):
    ok, out = vlib.build_harness(e)
    print(e, "harness:", "ok" if ok else "FAILED\n" + out)
    if ok:
        print(vlib.regen_generated(e, out))
PY
cd /verif/lean && lake build ZkModel zkdriver ZkProofs 2>&1 | grep -v "^✔\|^ℹ" | tail -20
echo setup done
