"""Check driver shared by all properties (see ../check and DESIGN.md section 2.4)."""
import sys, os, json, subprocess, time, hashlib, fcntl, re, shutil, argparse

VERIF = os.path.dirname(os.path.dirname(os.path.abspath(__file__)))
REPO = os.environ.get("VERIF_REPO", "/repo")
LEAN = os.path.join(VERIF, "lean")
WORK = os.path.join(VERIF, "work")
SHIM = os.path.join(VERIF, "build", "cl03shim")
CVC5LIBS = "/opt/veriftools/pyvenv/lib/python3.11/site-packages/cvc5.libs"
ALLOWED_AXIOMS = {"propext", "Classical.choice", "Quot.sound"}
NCPU = min(16, os.cpu_count() or 4)

BBS = {"C01", "C02", "C03", "C04", "C05", "C06", "C07", "C08", "C09", "C10", "C11", "C12"}
CL = {"C13", "C14", "C15", "C16", "C17", "C18", "C19"}


def log(*a):
    print("[check]", *a, file=sys.stderr, flush=True)


def run(cmd, cwd=None, env=None, timeout=None, inp=None):
    e = dict(os.environ)
    e["CARGO_NET_OFFLINE"] = "true"
    if env:
        e.update(env)
    p = subprocess.run(cmd, cwd=cwd, env=e, timeout=timeout, input=inp,
                       stdout=subprocess.PIPE, stderr=subprocess.STDOUT, text=True)
    return p.returncode, p.stdout


class Lock:
    def __init__(self, name):
        os.makedirs(WORK, exist_ok=True)
        self.path = os.path.join(WORK, name + ".lock")

    def __enter__(self):
        self.f = open(self.path, "w")
        fcntl.flock(self.f, fcntl.LOCK_EX)

    def __exit__(self, *a):
        fcntl.flock(self.f, fcntl.LOCK_UN)
        self.f.close()


def cl_env():
    return {"C_INCLUDE_PATH": SHIM + "/include", "LIBRARY_PATH": SHIM + "/lib",
            "LD_LIBRARY_PATH": CVC5LIBS + ":" + os.environ.get("LD_LIBRARY_PATH", "")}


def harness_dir(engine):
    return os.path.join(VERIF, "harness", "hbbs" if engine == "bbs" else "hcl")


def build_harness(engine):
    """Build the harness against the CURRENT working tree of the repository (path dependency)."""
    d = harness_dir(engine)
    with Lock("cargo-" + engine):
        lock = os.path.join(REPO, "Cargo.lock")
        if os.path.exists(lock):
            shutil.copyfile(lock, os.path.join(d, "Cargo.lock"))
        # the path dependency is written from VERIF_REPO so scratch trees can be checked too
        ct = open(os.path.join(d, "Cargo.toml.in")).read().replace("@REPO@", REPO)
        cur = os.path.join(d, "Cargo.toml")
        if not os.path.exists(cur) or open(cur).read() != ct:
            open(cur, "w").write(ct)
        env = cl_env() if engine == "cl" else {}
        if engine == "cl":
            rc, out = run([os.path.join(VERIF, "scripts", "mkshim.sh")])
            if rc != 0:
                return False, "cannot build cl03 shim:\n" + out
        rc, out = run(["cargo", "build", "--offline"], cwd=d, env=env)
        if rc != 0:
            return False, out[-4000:]
    return True, os.path.join(d, "target", "debug", "hbbs" if engine == "bbs" else "hcl")


def regen_generated(engine, hbin):
    """Regenerate ZkModel/Generated/*.lean from the compiled crate (only rewritten when changed)."""
    env = cl_env() if engine == "cl" else {}
    rc, out = run([hbin, "consts"], env=env)
    if rc != 0:
        return False, out
    name = "Constants.lean" if engine == "bbs" else "ClConstants.lean"
    path = os.path.join(LEAN, "ZkModel", "Generated", name)
    changed = (not os.path.exists(path)) or open(path).read() != out
    if changed:
        open(path, "w").write(out)
    return True, changed


def lake_build(targets):
    with Lock("lake"):
        rc, out = run(["lake", "build"] + targets, cwd=LEAN, timeout=3000)
    return rc, out


def load_json(path, default):
    try:
        return json.load(open(path))
    except Exception:
        return default


def audit(prop, reg):
    """`#print axioms` on every registered theorem; returns (ok_count, problems, details)."""
    thms = reg.get("theorems", [])
    if not thms:
        return 0, ["no theorems registered"], []
    src = "".join("import %s\n" % m for m in reg.get("modules", [reg["module"]])) + "".join("#print axioms %s\n" % t["name"] for t in thms)
    os.makedirs(os.path.join(WORK, "audit"), exist_ok=True)
    f = os.path.join(WORK, "audit", prop + ".lean")
    open(f, "w").write(src)
    rc, out = run(["lake", "env", "lean", f], cwd=LEAN, timeout=1200)
    problems, details, okc = [], [], 0
    # parse "'name' depends on axioms: [a, b]" / "'name' does not depend on any axioms"
    text = out.replace("\n ", " ")
    for t in thms:
        n = t["name"]
        m = re.search(r"'" + re.escape(n) + r"' depends on axioms: \[([^\]]*)\]", text)
        m0 = re.search(r"'" + re.escape(n) + r"' does not depend on any axioms", text)
        if m:
            ax = {a.strip() for a in m.group(1).replace("\n", " ").split(",") if a.strip()}
        elif m0:
            ax = set()
        else:
            problems.append("theorem %s not found / does not check" % n)
            continue
        bad = ax - ALLOWED_AXIOMS
        if bad:
            problems.append("theorem %s depends on disallowed axioms %s" % (n, sorted(bad)))
        else:
            okc += 1
            details.append({"theorem": n, "axioms": sorted(ax), "says": t.get("says", "")})
    if rc != 0 and not problems:
        problems.append("audit file failed: " + out[-500:])
    return okc, problems, details


def import_closure(module):
    """Lean files (relative to LEAN) the module depends on inside this project."""
    seen, todo = set(), [module]
    while todo:
        m = todo.pop()
        if m in seen:
            continue
        f = os.path.join(LEAN, m.replace(".", "/") + ".lean")
        if not os.path.exists(f):
            continue
        seen.add(m)
        for line in open(f, errors="replace"):
            mm = re.match(r"\s*import\s+((?:ZkModel|ZkProofs)[\w.]*)", line)
            if mm:
                todo.append(mm.group(1))
    return sorted(seen)


def grep_forbidden(module):
    bad = []
    pat = re.compile(r"\bsorry\b|\badmit\b|^\s*axiom\s|native_decide|bv_decide|implemented_by|\bunsafe\s|maxHeartbeats 0")
    files = [m.replace(".", "/") + ".lean" for m in import_closure(module)]
    for dp, _, fs in os.walk(os.path.join(LEAN, "ZkModel")):
        for fn in fs:
            rel = os.path.relpath(os.path.join(dp, fn), LEAN)
            if fn.endswith(".lean") and rel not in files:
                files.append(rel)
    if True:
        if True:
            for rel in files:
                dp, fn = os.path.split(os.path.join(LEAN, rel))
                root = os.path.dirname(rel)
                if True:
                    pass
                incomment = False
                for i, line in enumerate(open(os.path.join(dp, fn), errors="replace")):
                    s = line
                    if "/-" in s and "-/" not in s:
                        incomment = True
                        continue
                    if "-/" in s:
                        incomment = False
                        continue
                    if incomment:
                        continue
                    s = s.split("--")[0]
                    if "/-" in s:
                        s = s.split("/-")[0]
                    if pat.search(s):
                        bad.append("%s:%d: %s" % (os.path.join(root, fn), i + 1, line.strip()[:100]))
    return bad


def run_driver(ops_path, out_path, mode=None):
    """Run the Lean driver on the op lines, sharded over the cores."""
    lines = [l for l in open(ops_path).read().split("\n") if l.strip()]
    drv = os.path.join(LEAN, ".lake", "build", "bin", "zkdriver")
    n = max(1, min(NCPU, len(lines) // 4 or 1))
    # round-robin so that expensive neighbours are spread
    shards = [[] for _ in range(n)]
    for i, l in enumerate(lines):
        shards[i % n].append(l)
    procs = []
    for s in shards:
        p = subprocess.Popen([drv] + ([mode] if mode else []), stdin=subprocess.PIPE,
                             stdout=subprocess.PIPE, stderr=subprocess.PIPE, text=True)
        procs.append((p, "\n".join(s) + "\n"))
    import threading
    outs = [None] * n

    def work(i):
        p, data = procs[i]
        o, e = p.communicate(data)
        outs[i] = (o, e, p.returncode)
    ths = [threading.Thread(target=work, args=(i,)) for i in range(n)]
    [t.start() for t in ths]
    [t.join() for t in ths]
    res = {}
    errs = []
    for o, e, rc in outs:
        if rc != 0:
            errs.append("driver exit %s: %s" % (rc, (e or "")[-300:]))
        for l in (o or "").split("\n"):
            if l.strip():
                i, _, r = l.partition(" ")
                res[i] = r
    open(out_path, "w").write("\n".join("%s %s" % kv for kv in res.items()) + "\n")
    return res, errs


def parse_ops(path):
    out = []
    for l in open(path).read().split("\n"):
        if not l.strip():
            continue
        lhs, _, rhs = l.partition(" => ")
        f = lhs.split(" ")
        out.append({"id": f[0], "suite": f[1], "op": f[2], "lhs": lhs, "impl": rhs, "line": l})
    return out


def short(s, n=160):
    return s if len(s) <= n else s[:n] + "…(%d chars)" % len(s)


def write_replay(prop, kind, what, lines, extra=None):
    d = os.path.join(VERIF, "replays")
    os.makedirs(d, exist_ok=True)
    body = {"property": prop, "kind": kind, "what": what, "lines": lines}
    if extra:
        body.update(extra)
    h = hashlib.sha256(json.dumps(body, sort_keys=True).encode()).hexdigest()[:12]
    p = os.path.join(d, "%s-%s-%s.json" % (prop, kind, h))
    json.dump(body, open(p, "w"), indent=1)
    return p


def known_findings():
    return load_json(os.path.join(VERIF, "known_findings.json"), {"findings": []}).get("findings", [])


def main(argv):
    ap = argparse.ArgumentParser()
    ap.add_argument("prop")
    ap.add_argument("--tier", default=os.environ.get("VERIF_TIER", "quick"))
    ap.add_argument("--replay")
    a = ap.parse_args(argv)
    prop = a.prop
    seed = int(os.environ.get("VERIF_SEED", "1") or "1")
    engine = "bbs" if prop in BBS else "cl"
    if a.replay:
        return replay(prop, engine, a.replay)
    t0 = time.time()
    work = os.path.join(WORK, "%s-%s" % (prop, a.tier))
    shutil.rmtree(work, ignore_errors=True)
    os.makedirs(work, exist_ok=True)
    registry = load_json(os.path.join(VERIF, "theorems.json"), {})
    reg = registry.get(prop, {"module": "ZkProofs.Props." + prop, "theorems": []})
    violations = []   # (kind, what, replay_path, found_input)
    notes = []

    # 1. harness from the current tree
    ok, hbin = build_harness(engine)
    if not ok:
        print("cannot build the harness against %s (does the tree compile with the hooks on?)\n%s" % (REPO, hbin))
        return 2
    # 2. regenerated model parts
    ok, changed = regen_generated(engine, hbin)
    if not ok:
        print("cannot regenerate constants: %s" % changed)
        return 2
    if changed:
        notes.append("Generated constants changed; every theorem that mentions them is re-checked")
    # 2b. function inventory of the current tree against the model (information, never a verdict)
    try:
        rc_cov, out_cov = run([sys.executable, os.path.join(VERIF, "scripts", "coverage.py")], timeout=120)
        cov = json.loads(out_cov.strip().splitlines()[-1])
        notes.append("function inventory of %s/src: %s" % (REPO, ", ".join("%s %d" % kv for kv in sorted(cov["by_status"].items()))))
        if cov["unclassified"]:
            notes.append("functions unknown to the model inventory (new code, not covered by any theorem): " + ", ".join(cov["unclassified"][:20]))
    except Exception as e:
        notes.append("function inventory not available: %s" % e)
    # 3. build driver + theorems
    rc_drv, out_drv = lake_build(["zkdriver"])
    if rc_drv != 0:
        rp = write_replay(prop, "model", "the Lean model/driver no longer builds (regenerated constants?)", [], {"log": out_drv[-3000:]})
        violations.append(("model", "model does not build", rp, False))
    else:
        # the L0 layer of the model against independent vectors (hashlib / RFC 9380 / zcash encodings / pairing
        # identities): a model that drifted from its references is reported before it is compared with the code
        try:
            rc_st, out_st = run([os.path.join(LEAN, ".lake", "build", "bin", "zkdriver"), "selftest"], timeout=300)
            if rc_st != 0:
                rp = write_replay(prop, "model", "the L0 self-test of the Lean model fails (hash / curve / pairing reference vectors)", [], {"log": out_st[-2000:]})
                violations.append(("model", "L0 self-test of the model fails", rp, False))
            else:
                notes.append("L0 self-test of the model: " + out_st.strip().splitlines()[-1])
        except Exception as e:
            notes.append("L0 self-test not run: %s" % e)
    if prop == "C11":
        # the generator table is regenerated from the compiled crate (N = 64 quick, 256 thorough)
        rc_t, out_t = run([hbin, "gentable", "256" if a.tier == "thorough" else "64"])
        tpath = os.path.join(LEAN, "ZkModel", "Generated", "GeneratorTable.lean")
        if rc_t == 0 and ((not os.path.exists(tpath)) or open(tpath).read() != out_t):
            open(tpath, "w").write(out_t)
            notes.append("GeneratorTable.lean regenerated")
    rc_thm, out_thm = lake_build(reg.get("modules", [reg["module"]]))
    proof_problems = []
    if rc_thm != 0:
        proof_problems.append("lake build %s failed: %s" % (reg["module"], out_thm[-1500:]))
    okc, aud_problems, details = (0, [], [])
    if rc_thm == 0:
        okc, aud_problems, details = audit(prop, reg)
    proof_problems += aud_problems
    forb = []
    for mm in reg.get("modules", [reg["module"]]):
        forb += grep_forbidden(mm)
    if forb:
        proof_problems.append("forbidden constructs: " + "; ".join(forb[:5]))
    if a.tier == "thorough" and rc_thm == 0:
        rc_lc, out_lc = run(["lake", "env", "leanchecker"] + reg.get("modules", [reg["module"]]), cwd=LEAN, timeout=3000)
        if rc_lc != 0:
            proof_problems.append("leanchecker rejected %s: %s" % (reg["module"], out_lc[-500:]))
        else:
            notes.append("leanchecker re-checked " + reg["module"])

    # 4. implementation runs: corpus first, then generated cases
    env = cl_env() if engine == "cl" else {}
    ops_all = []
    oracle = {"failures": [], "stats": {}, "oracle_checks": 0}
    corpus = os.path.join(VERIF, "corpus", prop + ".txt")
    gen_dir = os.path.join(work, "gen")
    tstart = time.time()
    try:
        rc, out = run([hbin, prop, a.tier, str(seed), gen_dir], env=env, timeout=(14400 if a.tier == "thorough" else 1500))
    except subprocess.TimeoutExpired:
        rc, out = 124, "harness timed out"
    hang = os.path.join(gen_dir, "hang.json")
    if rc == 3 and os.path.exists(hang):
        desc = open(hang).read()
        try:
            body = json.loads(desc)
            rec = body.get("hung", body)
            before = body.get("oracle_failures_before_the_hang", [])
        except Exception:
            rec, before = {"note": desc}, []
        for b in before[:5]:
            notes.append("oracle failure before the hang: " + b)
        rp = write_replay(prop, "hang", "an operation of the implementation did not terminate within the budget (%s)" % (rec.get("op") or rec.get("note")), [], {"records": [rec] if "op" in rec else [], "detail": rec if "op" not in rec else None, "oracle_failures_before_the_hang": before})
        violations.append(("hang", "an API operation did not return within its budget (unbounded work or endless loop)%s" % ("; before it: " + before[0] if before else ""), rp, True))
    elif rc != 0:
        rp = write_replay(prop, "harness", "harness crashed while exercising the implementation", [], {"log": out[-3000:]})
        violations.append(("harness", "harness crashed (abort/alloc failure inside the implementation?)", rp, False))
    else:
        oracle = json.load(open(os.path.join(gen_dir, "oracle.json")))
        ops_all = parse_ops(os.path.join(gen_dir, "ops.txt"))
    impl_s = time.time() - tstart
    records = {}
    if os.path.exists(corpus):
        cdir = os.path.join(work, "corpus")
        rc, out = run([hbin, "replay", a.tier, str(seed), cdir, corpus], env=env, timeout=3600)
        if rc == 0:
            cops = parse_ops(os.path.join(cdir, "ops.txt"))
            want = {}
            for l in open(corpus):
                if " => " in l:
                    lhs, _, rhs = l.rstrip("\n").partition(" => ")
                    want[lhs.split(" ")[0]] = rhs
            for o in cops:
                o["id"] = "c" + o["id"]
                o["lhs"] = "c" + o["lhs"]
                w = want.get(o["id"][1:])
                if w is not None and w.split(" ")[0] != o["impl"].split(" ")[0]:
                    oracle["failures"].append({"class": prop + ".corpus", "what": "corpus case regressed: expected %s, implementation now %s" % (w.split(" ")[0], o["impl"].split(" ")[0]), "lines": [o["id"]], "suite": o["suite"]})
            ops_all = cops + ops_all
    # C10: the draft's own test vectors (shipped with the crate) as operations whose expected outcome is
    # the FIXTURE's; implementation must reproduce them octet for octet, and the model the implementation
    if prop == "C10":
        fdir = os.path.join(work, "fixtures")
        os.makedirs(fdir, exist_ok=True)
        ftxt = os.path.join(fdir, "fixtures.txt")
        rcf, outf = run([sys.executable, os.path.join(VERIF, "scripts", "fixtures_ops.py"), ftxt], timeout=300)
        if rcf == 0 and os.path.exists(ftxt):
            try:
                notes.append("draft fixtures replayed: " + outf.strip().splitlines()[-1])
            except Exception:
                pass
            rc2, out2 = run([hbin, "replay", a.tier, str(seed), fdir, ftxt], env=env, timeout=3600)
            if rc2 == 0:
                fops = parse_ops(os.path.join(fdir, "ops.txt"))
                want = {}
                for l in open(ftxt):
                    if " => " in l:
                        lhs, _, rhs = l.rstrip("\n").partition(" => ")
                        want[lhs.split(" ")[0]] = rhs
                seen = set()
                for o in fops:
                    w = want.get(o["id"])
                    seen.add(o["id"])
                    o["id"] = "f" + o["id"]
                    o["lhs"] = "f" + o["lhs"]
                    oracle["oracle_checks"] = oracle.get("oracle_checks", 0) + 1
                    if w is not None and w != o["impl"]:
                        oracle["failures"].append({"class": "C10.fixture", "what": "the implementation does not reproduce a test vector of the draft (%s): expected %s, got %s" % (o["op"], short(w, 40), short(o["impl"], 40)), "lines": [o["id"]], "suite": o["suite"]})
                missing = [k for k in want if k not in seen]
                if missing:
                    oracle["failures"].append({"class": "C10.fixture_unparsed", "what": "%d fixture operations could not be run by the implementation (argument no longer decodes)" % len(missing), "lines": [], "suite": "-"})
                oracle.setdefault("stats", {})["C10.fixture_ops"] = len(fops)
                ops_all = fops + ops_all
            else:
                notes.append("fixture replay failed: " + out2[-300:])
        else:
            notes.append("no draft fixtures found under %s (fixture_data missing?)" % REPO)
    rj = os.path.join(gen_dir, "ops.jsonl")
    if os.path.exists(rj):
        for l in open(rj):
            if l.strip():
                try:
                    r = json.loads(l)
                    records[str(r["id"])] = r
                except Exception:
                    pass
    cl_corpus = os.path.join(VERIF, "corpus", prop + ".jsonl")
    if engine == "cl" and os.path.exists(cl_corpus):
        cdir = os.path.join(work, "corpus")
        rc, out = run([hbin, "replay", a.tier, str(seed), cdir, cl_corpus], env=env, timeout=3600)
        if rc == 0:
            cops = parse_ops(os.path.join(cdir, "ops.txt"))
            want = {}
            for l in open(cl_corpus):
                if l.strip():
                    r = json.loads(l)
                    want[str(r["id"])] = r.get("expect")
            for l in open(os.path.join(cdir, "ops.jsonl")):
                if l.strip():
                    r = json.loads(l)
                    records["c" + str(r["id"])] = r
            for o in cops:
                w = want.get(o["id"])
                got = o["impl"] if len(o["impl"]) < 24 else o["impl"].split(" ")[0]
                o["id"] = "c" + o["id"]
                o["lhs"] = "c" + o["lhs"]
                if w is not None and w != got:
                    oracle["failures"].append({"class": prop + ".corpus", "what": "corpus case regressed: expected %s, implementation now %s" % (w, got), "lines": [o["id"]], "suite": o["suite"]})
            ops_all = cops + ops_all
    # 5. model runs + diff
    disagreements = []
    model = {}
    if rc_drv == 0 and ops_all:
        allp = os.path.join(work, "all_ops.txt")
        open(allp, "w").write("\n".join(o["lhs"] + " => " + o["impl"] for o in ops_all) + "\n")
        tm = time.time()
        model, derrs = run_driver(allp, os.path.join(work, "model.txt"), "cl" if engine == "cl" else None)
        model_s = time.time() - tm
        for e in derrs:
            notes.append(e)
        for o in ops_all:
            m = model.get(o["id"])
            if m != o["impl"]:
                disagreements.append({"id": o["id"], "line": o["line"] if "line" in o else o["lhs"], "impl": o["impl"], "model": m})
    else:
        model_s = 0.0

    # 6. verdicts
    byid = {o["id"]: o for o in ops_all}
    kf = [k for k in known_findings() if k.get("property") == prop and k.get("status") == "known"]
    known_hit = []
    by_class = {}
    for f in oracle["failures"]:
        k = next((k for k in kf if k.get("class") == f["class"]), None)
        if k:
            if not any(x[0] is k for x in known_hit):
                known_hit.append((k, f))
            continue
        by_class.setdefault(f["class"], []).append(f)
    for cls, fs in by_class.items():
        # one VIOLATION line per failure class; the replay holds the first instances
        lines, recs = [], []
        for f in fs[:5]:
            for i in f.get("lines", []):
                if str(i) in byid:
                    lines.append(byid[str(i)]["lhs"] + " => " + byid[str(i)]["impl"])
                    if str(i) in records:
                        recs.append(records[str(i)])
        rp = write_replay(prop, "oracle", fs[0]["what"], lines, {"class": cls, "suite": fs[0].get("suite"), "instances": len(fs), "all": [f["what"] for f in fs[:20]], "records": recs})
        violations.append(("oracle", "%s [%s, %d instance(s)]" % (fs[0]["what"], cls, len(fs)), rp, True))
    if disagreements:
        # search: does any disagreeing case also fail the property oracle? (those are already
        # reported above with their input); otherwise report the broken correspondence
        rp = write_replay(prop, "correspondence",
                          "model and implementation disagree on %d of %d operations; first: impl=%s model=%s" % (
                              len(disagreements), len(ops_all), short(disagreements[0]["impl"], 60), short(str(disagreements[0]["model"]), 60)),
                          [d["line"] for d in disagreements[:20]],
                          {"broken": "correspondence ZkModel.L1 <-> implementation", "count": len(disagreements),
                           "records": [records[d["id"]] for d in disagreements[:20] if d["id"] in records]})
        # C10 IS "implementation = reference": a disagreeing operation is itself the failing input
        found = any(v[0] == "oracle" for v in violations) or prop == "C10"
        violations.append(("correspondence", "model/implementation disagreement on %d operations" % len(disagreements), rp, found))
    if proof_problems:
        rp = write_replay(prop, "proof", "; ".join(proof_problems)[:2000], [], {"broken": [p[:300] for p in proof_problems], "module": reg["module"]})
        found = any(v[0] == "oracle" for v in violations)
        violations.append(("proof", proof_problems[0][:200], rp, found))

    # 7. evidence
    distinct = set()
    for o in ops_all:
        if o["op"].startswith("dec.") and o["impl"] == "err":
            continue
        distinct.add(hashlib.sha1(o["lhs"].split(" ", 1)[1].encode()).hexdigest())
    samples = []
    seen_ops = set()
    for o in ops_all:
        if o["op"] not in seen_ops and len(samples) < 8:
            seen_ops.add(o["op"])
            samples.append(short(o["lhs"] + " => " + o["impl"], 300))
    obligations = len(reg.get("theorems", []))
    ev = {
        "property_id": prop, "tier": a.tier, "seed": seed, "level": "proof",
        "coverage": {
            "obligations": max(obligations, 1), "discharged": okc,
            "checker_cmd": "cd /verif/lean && lake build %s && lake env lean <audit file with #print axioms per theorem>%s" % (reg["module"], " && lake env leanchecker " + reg["module"] if a.tier == "thorough" else ""),
            "trusted_base": ["Lean 4.33 kernel", "axioms: propext, Classical.choice, Quot.sound (Mathlib)",
                             ("hypothesis Lawful env: group law of L0 BLS12-381 and bilinearity/non-degeneracy of the implemented pairing are assumed (pinned by the L0 self-test and the correspondence run); primality of r and p, the scalar field with its codec, and canonical G1/G2 point codecs are proven for the concrete instance"
                              if engine == "bbs" else
                              "CL03 model over Int: rug/GMP semantics, SHA-256 and the primality oracle are modelled (IntArith specs proven in Lean); every random draw replayed from the recorded tape and checked against its contract"),
                             "correspondence check (differential, this run) ties ZkModel.L1 to the Rust code",
                             "rustc, bls12_381_plus, sha2, sha3, harness hbbs/hcl, verif_hooks"],
            "theorems": details,
            "evaluations": len(ops_all),
            "distinct_nontrivial": len(distinct),
            "rule": "cases generated by harness/%s from seed; distinct by SHA-1 of (suite, op, args); non-trivial = not a decoder call that fails (those are counted in evaluations only)" % ("hbbs" if engine == "bbs" else "hcl"),
            "samples": samples or ["(no operations executed)"],
            "programs": len(ops_all), "disagreements_checked": len(ops_all) if model else 0,
            "disagreements": len(disagreements),
            "oracle_checks": oracle.get("oracle_checks", 0),
            "oracle_failures": len(oracle["failures"]),
            "input_distribution": oracle.get("stats", {}),
            "timing_s": {"implementation": round(impl_s, 1), "model": round(model_s, 1)},
            "notes": notes,
        },
        "assumptions": reg.get("assumptions", []) + ["events of DESIGN.md 2.2 (hash collisions / DL relations) are not producible"],
        "wall_s": round(time.time() - t0, 1),
        "violations": len(violations),
    }
    os.makedirs(os.path.join(VERIF, "evidence"), exist_ok=True)
    json.dump(ev, open(os.path.join(VERIF, "evidence", prop + ".json"), "w"), indent=1)

    for k, f in known_hit:
        print("KNOWN-FINDING: property=%s %s" % (prop, k.get("what", f["what"])))
    for kind, what, rp, found in violations:
        print("VIOLATION property=%s replay=%s  # %s: %s%s" % (prop, rp, kind, what, "" if found else " no-failing-input-found"))
    if violations:
        return 1
    print("OK property=%s tier=%s theorems=%d/%d ops=%d oracle_checks=%d disagreements=0 wall=%.0fs" % (
        prop, a.tier, okc, obligations, len(ops_all), oracle.get("oracle_checks", 0), time.time() - t0))
    return 0


def replay(prop, engine, path):
    body = json.load(open(path))
    print("replay of %s (%s): %s" % (prop, body.get("kind"), body.get("what")))
    lines = body.get("lines", [])
    if not lines:
        print("no input lines recorded: this violation names a broken obligation:", body.get("broken"))
        return 1
    ok, hbin = build_harness(engine)
    if not ok:
        print(hbin)
        return 2
    work = os.path.join(WORK, "replay-" + prop)
    shutil.rmtree(work, ignore_errors=True)
    os.makedirs(work)
    f = os.path.join(work, "in.txt")
    if engine == "cl":
        open(f, "w").write("\n".join(json.dumps(r) for r in body.get("records", [])) + "\n")
    else:
        open(f, "w").write("\n".join(l[1:] if l.startswith("c") else l for l in lines) + "\n")
    env = cl_env() if engine == "cl" else {}
    rc, out = run([hbin, "replay", "quick", "0", work, f], env=env)
    ops = parse_ops(os.path.join(work, "ops.txt")) if rc == 0 else []
    lake_build(["zkdriver"])
    model, _ = run_driver(os.path.join(work, "ops.txt"), os.path.join(work, "model.txt"), "cl" if engine == "cl" else None) if ops else ({}, [])
    same = True
    for o, l in zip(ops, lines):
        was = l.partition(" => ")[2]
        print("%s\n   recorded: %s\n   now:      %s\n   model:    %s" % (short(o["lhs"], 200), short(was, 80), short(o["impl"], 80), short(str(model.get(o["id"])), 80)))
        if was.split(" ")[0] != o["impl"].split(" ")[0]:
            same = False
    print("REPRODUCED" if same else "NOT REPRODUCED (implementation outcome changed)")
    return 1 if same else 0
