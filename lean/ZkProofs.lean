import ZkProofs.Lawful
import ZkProofs.Lemmas.Sig
import ZkProofs.Props.C01
