import ZkModel.Driver
import ZkModel.ClDriver
import ZkModel.L0.HashTest
import ZkModel.L0.G1Test
import ZkModel.L0.G2Test
open Zk

partial def loop (f : String → String) (h : IO.FS.Stream) (out : IO.FS.Stream) : IO Unit := do
  let line ← h.getLine
  if line.isEmpty then return ()
  let l := line.trimAscii.toString
  if l.isEmpty || l.startsWith "#" then loop f h out
  else
    out.putStrLn (f l)
    out.flush
    loop f h out

def main (args : List String) : IO UInt32 := do
  if args == ["selftest"] then
    let fails := hashSelfTest ++ g1SelfTest ++ g2SelfTest
    for f in fails do IO.println s!"FAIL {f}"
    IO.println s!"selftest failures={fails.length}"
    return (if fails.isEmpty then 0 else 1)
  if args == ["cl"] then loop ClDriver.runLine (← IO.getStdin) (← IO.getStdout)
  else loop Driver.runLine (← IO.getStdin) (← IO.getStdout)
  return 0
