import ZkProofs.Lemmas.MapToCurve
namespace Zk.MapToCurve
open Zk Zk.Primes Zk.G1Codec Zk.G2Codec Zk.ConcreteScalar

def SswuSpec (F : Nat → Nat × Nat) : Prop :=
  ∀ u, ∃ x y, F u = (x, y) ∧ x < P ∧ y < P ∧ OnIso x y
theorem sswu_spec : SswuSpec H2C.sswu := by
  delta H2C.sswu
  sorry
