import ZkProofs.Lemmas.MapToCurve
namespace Zk.MapToCurve
open Zk Zk.Primes Zk.G1Codec Zk.G2Codec Zk.ConcreteScalar

def SswuSpec (F : Nat → Nat × Nat) : Prop :=
  ∀ u, ∃ x y, F u = (x, y) ∧ x < P ∧ y < P ∧ OnIso x y
theorem spec_intro {F : Nat → Nat × Nat}
    (h : ∀ u, ∃ x y, F u = (x, y) ∧ x < P ∧ y < P ∧ OnIso x y) : SswuSpec F := h
theorem sswu_spec : SswuSpec H2C.sswu := by
  delta H2C.sswu
  generalize hf : Fp.sqrt? = f
  generalize hpw : Fp.pow = pw
  generalize hiv : Fp.inv = iv
  refine spec_intro ?_
  intro u
  sorry
