import ZkProofs.Lemmas.G1Group
import ZkModel.L0.HashToCurve
namespace T1
open Zk

def sswuG (sq : Nat → Option Nat) (pw : Nat → Nat → Nat) (iv : Nat → Nat) (u : Nat) : Nat × Nat :=
  let u := u % P
  let zu2 := Fp.mul H2C.sswuZ (Fp.sq u)
  let tv1 := iv (Fp.add (Fp.sq zu2) zu2)
  let x1 :=
    if tv1 == 0 then Fp.mul H2C.isoB (iv (Fp.mul H2C.sswuZ H2C.isoA))
    else Fp.mul (Fp.mul (Fp.neg H2C.isoB) (iv H2C.isoA)) (Fp.add 1 tv1)
  let gx1 := H2C.isoRhs x1
  let (x, y) :=
    match sq gx1 with
    | some y1 => (x1, y1)
    | none =>
      let x2 := Fp.mul zu2 x1
      (x2, pw (H2C.isoRhs x2) ((P + 1) / 4))
  let y := if Fp.sgn0 u != Fp.sgn0 y then Fp.neg y else y
  (x, y)

theorem sswuG_eq (u : Nat) : H2C.sswu u = sswuG Fp.sqrt? Fp.pow Fp.inv u := rfl
end T1
