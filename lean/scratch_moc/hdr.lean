import ZkProofs.Lemmas.MapToCurve
namespace Zk.MapToCurve
open Zk Zk.Primes Zk.G1Codec Zk.G2Codec Zk.ConcreteScalar

