import ZkProofs.Lemmas.MapToCurve
namespace Zk.MapToCurve
open Zk Zk.Primes Zk.G1Codec Zk.G2Codec Zk.ConcreteScalar

theorem t (u : Nat) : ∃ x y, H2C.sswu u = (x, y) ∧ x < P ∧ y < P ∧ OnIso x y := by
  rw [H2C.sswu.eq_1]
  sorry
end Zk.MapToCurve
