import ZkProofs.Lemmas.MapToCurve
namespace Zk.MapToCurve
open Zk Zk.Primes Zk.G1Codec Zk.G2Codec Zk.ConcreteScalar

/-- The SSWU identity `g'(t·x1) = t³·g'(x1)` for `x1 = −B/A·(1 + 1/(t² + t))`. -/
theorem sswu_key {A B t x1 : ZMod P} (hA : A ≠ 0) (ht : t ^ 2 + t ≠ 0)
    (hx1 : x1 = -B * A⁻¹ * (1 + (t ^ 2 + t)⁻¹)) :
    (t * x1) ^ 3 + A * (t * x1) + B = t ^ 3 * (x1 ^ 3 + A * x1 + B) := by
  have ht0 : t ≠ 0 := by rintro rfl; exact ht (by ring)
  have ht1 : t + 1 ≠ 0 := by intro h; exact ht (by linear_combination t * h)
  have e : t ^ 2 + t = t * (t + 1) := by ring
  rw [e] at hx1
  subst hx1
  field_simp
  ring

/-- In the branch where `g'(x1)` is not a square, `g'(x2)` is, `x2 = Z·u²·x1`. -/
theorem x2_isSquare (iv : Nat → Nat) (iv_cast : ∀ a, ((iv a : Nat) : ZMod P) = (a : ZMod P)⁻¹)
    (iv_lt : ∀ a, iv a < P) (v zu2 tv1 x1 : Nat)
    (hz : zu2 = Fp.mul H2C.sswuZ (Fp.sq v))
    (htv : tv1 = iv (Fp.add (Fp.sq zu2) zu2))
    (hx1 : x1 = if tv1 == 0 then Fp.mul H2C.isoB (iv (Fp.mul H2C.sswuZ H2C.isoA))
      else Fp.mul (Fp.mul (Fp.neg H2C.isoB) (iv H2C.isoA)) (Fp.add 1 tv1))
    (hns : ¬ IsSquare ((H2C.isoRhs x1 : Nat) : ZMod P)) :
    IsSquare ((H2C.isoRhs (Fp.mul zu2 x1) : Nat) : ZMod P) := by
  have e : ((H2C.sswuZ : Nat) : ZMod P) = 11 := by unfold H2C.sswuZ; norm_num
  by_cases h0 : tv1 = 0
  · rw [if_pos (by simp [h0])] at hx1
    exact absurd (hx1 ▸ x1exc_sq iv iv_cast) hns
  · rw [if_neg (by simpa using h0)] at hx1
    have ht : (zu2 : ZMod P) = 11 * (v : ZMod P) ^ 2 := by rw [hz, fmul_cast, sq_cast, e]
    have htv' : (tv1 : ZMod P) = ((zu2 : ZMod P) ^ 2 + zu2)⁻¹ := by
      rw [htv, iv_cast, fadd_cast, sq_cast]
    have hne : (zu2 : ZMod P) ^ 2 + zu2 ≠ 0 := by
      intro h
      have : (tv1 : ZMod P) ≠ 0 := ConcreteG1.cast_ne_zero (htv ▸ iv_lt _) h0
      rw [htv', h, inv_zero] at this
      exact this rfl
    have hx1' : (x1 : ZMod P) = -(H2C.isoB : ZMod P) * (H2C.isoA : ZMod P)⁻¹
        * (1 + ((zu2 : ZMod P) ^ 2 + zu2)⁻¹) := by
      rw [hx1, fmul_cast, fmul_cast, neg_cast, iv_cast, fadd_cast, htv']; norm_num
    have key := sswu_key isoA_ne_zero hne hx1'
    rw [isoRhs_cast] at hns
    rw [isoRhs_cast, fmul_cast, key]
    obtain ⟨s, hs⟩ := isSquare_mul_of_not z_not_sq hns
    exact ⟨11 * (v : ZMod P) ^ 3 * s, by rw [ht]; linear_combination (11 * (v : ZMod P) ^ 3) ^ 2 * hs⟩

theorem sswu_onIso (u : Nat) : ∃ x y, H2C.sswu u = (x, y) ∧ x < P ∧ y < P ∧ OnIso x y := by
  unfold H2C.sswu
  generalize hf : Fp.sqrt? = f
  generalize hpw : Fp.pow = pw
  generalize hiv : Fp.inv = iv
  have f_some : ∀ {a r : Nat}, f a = some r → r < P ∧ (r : ZMod P) ^ 2 = (a : ZMod P) := by
    subst hf; exact fun h => fp_sqrt_some h
  have f_none : ∀ {a : Nat}, f a = none → ¬ IsSquare (a : ZMod P) := by
    subst hf; exact fun h => not_sq_of_none h
  have pw_sqrt : ∀ {n : Nat}, IsSquare (n : ZMod P) →
      pw n ((P + 1) / 4) < P ∧ ((pw n ((P + 1) / 4) : Nat) : ZMod P) ^ 2 = (n : ZMod P) := by
    subst hpw; exact fun h => pow_sqrt h
  have iv_cast : ∀ a, ((iv a : Nat) : ZMod P) = (a : ZMod P)⁻¹ := by
    subst hiv; exact finv_cast
  have iv_lt : ∀ a, iv a < P := by
    subst hiv; exact finv_lt
  clear hf hpw hiv


  sorry

end Zk.MapToCurve
