/-
Line-protocol driver: runs one harness operation through the L1 model instantiated with L0
and renders the outcome exactly as the harness does (`ok <hex>` / `ok` / `err` / `panic`).
-/
import ZkModel.Concrete
namespace Zk.Driver
open Zk Zk.Concrete

def pBytes (s : String) : Option Bytes := if s == "." then some [] else Bytes.ofHex s
def pOBytes (s : String) : Option (Option Bytes) :=
  if s == "-" then some none else (pBytes s).map some
def pNat (s : String) : Option Nat := s.toNat?

def pListWith {α} (f : String → Option α) (s : String) : Option (List α) :=
  match s.splitOn ":" with
  | [] => none
  | _ :: rest => rest.mapM f
def pList (s : String) : Option (List Bytes) := pListWith pBytes s
def pOList (s : String) : Option (Option (List Bytes)) :=
  if s == "-" then some none else (pList s).map some
def pIdx (s : String) : Option (List Nat) := pListWith pNat s
def pOIdx (s : String) : Option (Option (List Nat)) :=
  if s == "-" then some none else (pIdx s).map some
def pScalar (s : String) : Option Fr := (pBytes s).bind Concrete.sDec
def pOScalar (s : String) : Option (Option Fr) :=
  if s == "-" then some none else (pScalar s).map some
def pTape (s : String) : Option (List Fr) := pListWith pScalar s
def pPk (s : String) : Option G2Pt := (pBytes s).bind G2.fromCompressed
def pG1 (s : String) : Option G1Pt := (pBytes s).bind G1.fromCompressed

def render (r : Res Bytes) : String :=
  match r with
  | .ok [] => "ok"
  | .ok b => "ok " ++ Bytes.toHex b
  | .err => "err"
  | .panic => "panic"

def unit (r : Res Unit) : Res Bytes := match r with | .ok _ => .ok [] | .err => .err | .panic => .panic
def mapR {α} (f : α → Bytes) (r : Res α) : Res Bytes :=
  match r with | .ok a => .ok (f a) | .err => .err | .panic => .panic

/-- A proof OBJECT from its octets without the decoder's identity checks (Rust objects returned by
`proof_gen` are handed to `proof_verify` as they are, e.g. with `Abar = O` when `r1 = 0`). -/
def proofObj (b : Bytes) : Option (PoKSignature Fr G1Pt) := do
  if b.length < 272 ∨ (b.length - 240) % 32 ≠ 0 then none
  let A ← G1.fromCompressed (b.take 48)
  let B ← G1.fromCompressed ((b.drop 48).take 48)
  let D ← G1.fromCompressed ((b.drop 96).take 48)
  let e ← Concrete.sDec ((b.drop 144).take 32)
  let r1 ← Concrete.sDec ((b.drop 176).take 32)
  let r3 ← Concrete.sDec ((b.drop 208).take 32)
  let rest := b.drop 240
  let ss ← (chunks32 rest.length rest).mapM Concrete.sDec
  let c ← ss.getLast?
  pure ⟨A, B, D, e, r1, r3, ss.dropLast, c⟩

/-- `some outcome`, or `none` when the line cannot be parsed (reported as `bad-line`). -/
def runOp (cs : Suite G1Pt) (op : String) (a : List String) : Option (Res Bytes) :=
  let env := Concrete.env
  match op, a with
  | "keygen", [ikm, info, dst] => do
    let ikm ← pBytes ikm; let info ← pOBytes info; let dst ← pOBytes dst
    pure <| mapR (fun sk => env.sEnc sk ++ env.g2Enc (skToPk env sk)) (keyGen env cs ikm info dst)
  | "gens", [api, n] => do
    let api ← pOBytes api; let n ← pNat n
    pure <| mapR (fun g => g.values.flatMap env.g1Enc) (Generators.create env cs n api)
  | "h2s", [msg, dst] => do
    let msg ← pBytes msg; let dst ← pBytes dst
    pure <| mapR env.sEnc (hashToScalar env cs msg dst)
  | "mapmsg", [msg, api] => do
    let msg ← pBytes msg; let api ← pBytes api
    pure <| mapR env.sEnc (mapMessageToScalarAsHash env cs msg api)
  | "sign", [sk, pk, hdr, msgs] => do
    let sk ← pScalar sk; let pk ← pPk pk; let hdr ← pOBytes hdr; let msgs ← pOList msgs
    pure <| mapR (Signature.toBytes env) (sign env cs msgs sk pk hdr)
  | "verify", [pk, A, e, hdr, msgs] => do
    let pk ← pPk pk; let A ← pG1 A; let e ← pScalar e; let hdr ← pOBytes hdr; let msgs ← pOList msgs
    pure <| unit (verify env cs ⟨A, e⟩ pk msgs hdr)
  | "dec.pk", [b] => do
    let b ← pBytes b; pure <| mapR (pkToBytes env) (pkFromBytes env b)
  | "dec.sk", [b] => do
    let b ← pBytes b; pure <| mapR env.sEnc (skFromBytes env b)
  | "dec.sig", [b] => do
    let b ← pBytes b; pure <| mapR (Signature.toBytes env) (Signature.fromBytes env b)
  | "dec.proof", [b] => do
    let b ← pBytes b; pure <| mapR (PoKSignature.toBytes env) (PoKSignature.fromBytes env b)
  | "dec.zkpok", [b] => do
    let b ← pBytes b; pure <| mapR (ZKPoK.toBytes env) (ZKPoK.fromBytes env b)
  | "dec.commit", [b] => do
    let b ← pBytes b; pure <| mapR (Commitment.toBytes env) (Commitment.fromBytes env b)
  | "dec.blind", [b] => do
    let b ← pBytes b; pure <| mapR env.sEnc (skFromBytes env b)
  | "pkcoords", [pk] => do
    let pk ← pPk pk
    let (x, y) := pkToCoordinates env pk
    pure <| .ok (x ++ y)
  | "pkfromcoords", [x, y] => do
    let x ← pBytes x; let y ← pBytes y
    pure <| mapR (pkToBytes env) (pkFromCoordinates env x y)
  | "proofgen", [pk, sig, hdr, ph, msgs, idx, tape] => do
    let pk ← pPk pk; let sig ← pBytes sig; let hdr ← pOBytes hdr; let ph ← pOBytes ph
    let msgs ← pOList msgs; let idx ← pOIdx idx; let tape ← pTape tape
    pure <| mapR (PoKSignature.toBytes env) (proofGen env cs pk sig hdr ph msgs idx tape)
  | "proofverify", [pk, proof, hdr, ph, dmsgs, idx] => do
    let pk ← pPk pk; let proof ← pBytes proof; let hdr ← pOBytes hdr; let ph ← pOBytes ph
    let dmsgs ← pOList dmsgs; let idx ← pOIdx idx
    match proofObj proof with
    | some π => pure <| unit (proofVerify env cs π pk dmsgs idx hdr ph)
    | none => none
  | "proofverifyraw", [pk, A, B, D, e, r1, r3, m, c, hdr, ph, dmsgs, idx] => do
    let pk ← pPk pk; let A ← pG1 A; let B ← pG1 B; let D ← pG1 D
    let e ← pScalar e; let r1 ← pScalar r1; let r3 ← pScalar r3; let m ← pListWith pScalar m; let c ← pScalar c
    let hdr ← pOBytes hdr; let ph ← pOBytes ph; let dmsgs ← pOList dmsgs; let idx ← pOIdx idx
    pure <| unit (proofVerify env cs ⟨A, B, D, e, r1, r3, m, c⟩ pk dmsgs idx hdr ph)
  | "blindproofverifyraw", [pk, A, B, D, e, r1, r3, m, c, hdr, ph, L, dmsgs, dcmsgs, idx, cidx] => do
    let pk ← pPk pk; let A ← pG1 A; let B ← pG1 B; let D ← pG1 D
    let e ← pScalar e; let r1 ← pScalar r1; let r3 ← pScalar r3; let m ← pListWith pScalar m; let c ← pScalar c
    let hdr ← pOBytes hdr; let ph ← pOBytes ph
    let L ← (if L == "-" then some none else (pNat L).map some)
    let dmsgs ← pOList dmsgs; let dcmsgs ← pOList dcmsgs; let idx ← pOIdx idx; let cidx ← pOIdx cidx
    pure <| unit (blindProofVerify env cs ⟨A, B, D, e, r1, r3, m, c⟩ pk hdr ph L dmsgs dcmsgs idx cidx)
  | "commit", [cmsgs, tape] => do
    let cmsgs ← pOList cmsgs; let tape ← pTape tape
    pure <| mapR (fun cb => Commitment.toBytes env cb.1 ++ env.sEnc cb.2) (commit env cs cmsgs tape)
  | "blindsign", [sk, pk, cwp, hdr, msgs] => do
    let sk ← pScalar sk; let pk ← pPk pk; let cwp ← pOBytes cwp; let hdr ← pOBytes hdr
    let msgs ← pOList msgs
    pure <| mapR (Signature.toBytes env) (blindSign env cs sk pk cwp hdr msgs)
  | "verifyblind", [pk, A, e, hdr, msgs, cmsgs, blind] => do
    let pk ← pPk pk; let A ← pG1 A; let e ← pScalar e; let hdr ← pOBytes hdr
    let msgs ← pOList msgs; let cmsgs ← pOList cmsgs; let blind ← pOScalar blind
    pure <| unit (verifyBlindSign env cs ⟨A, e⟩ pk hdr msgs cmsgs blind)
  | "blindproofgen", [pk, sig, hdr, ph, msgs, cmsgs, idx, cidx, blind, tape] => do
    let pk ← pPk pk; let sig ← pBytes sig; let hdr ← pOBytes hdr; let ph ← pOBytes ph
    let msgs ← pOList msgs; let cmsgs ← pOList cmsgs; let idx ← pOIdx idx; let cidx ← pOIdx cidx
    let blind ← pOScalar blind; let tape ← pTape tape
    pure <| mapR (PoKSignature.toBytes env)
      (blindProofGen env cs pk sig hdr ph msgs cmsgs idx cidx blind tape)
  | "blindproofverify", [pk, proof, hdr, ph, L, dmsgs, dcmsgs, idx, cidx] => do
    let pk ← pPk pk; let proof ← pBytes proof; let hdr ← pOBytes hdr; let ph ← pOBytes ph
    let L ← (if L == "-" then some none else (pNat L).map some)
    let dmsgs ← pOList dmsgs; let dcmsgs ← pOList dcmsgs; let idx ← pOIdx idx; let cidx ← pOIdx cidx
    match proofObj proof with
    | some π => pure <| unit (blindProofVerify env cs π pk hdr ph L dmsgs dcmsgs idx cidx)
    | none => none
  | "prepparams", [msgs, cmsgs, gn, bgn, blind, api] => do
    let msgs ← pOList msgs; let cmsgs ← pOList cmsgs; let gn ← pNat gn; let bgn ← pNat bgn
    let blind ← pOScalar blind; let api ← pOBytes api
    pure <| mapR (fun r => r.1.flatMap env.sEnc ++ r.2.values.flatMap env.g1Enc)
      (prepareParameters env cs msgs cmsgs gn bgn blind api)
  | "update", [A, e, sk, old, new, idx, n] => do
    let A ← pG1 A; let e ← pScalar e; let sk ← pScalar sk; let old ← pBytes old; let new ← pBytes new
    let idx ← pNat idx; let n ← pNat n
    pure <| mapR (Signature.toBytes env) (updateSignature env cs ⟨A, e⟩ sk old new idx n)
  | "devc", [cwp, n] => do
    let cwp ← pOBytes cwp; let n ← pNat n
    match Generators.create env cs n (some (Bytes.ofAscii "BLIND_" ++ cs.apiIdBlind)) with
    | .ok bg => pure <| mapR env.g1Enc (deserializeAndValidateCommit env cs cwp bg (some cs.apiIdBlind))
    | .err => pure .err
    | .panic => pure .panic
  | _, _ => none

/-- Process one protocol line; returns `"<id> <outcome>"`. -/
def runLine (line : String) : String :=
  let lhs := (line.splitOn " => ").headD ""
  match lhs.trimAscii.toString.splitOn " " with
  | id :: suite :: op :: args =>
    let cs? := if suite == "sha" then shaSuite? else if suite == "shake" then shakeSuite? else none
    match cs? with
    | none => s!"{id} bad-suite"
    | some cs =>
      match runOp cs op args with
      | some r => s!"{id} {render r}"
      | none => s!"{id} bad-line"
  | _ => "? bad-line"

end Zk.Driver
