/-
L0: the quadratic extension Fp2 = Fp[u]/(u² + 1) of the BLS12-381 base field.
Modelled (not verified): written from the curve's public parameters; the only crate-specific
definition is `lexLargest`, which mirrors `Fp2::lexicographically_largest` of
bls12_381_plus 0.8.18 (src/fp2.rs).

Convention: all functions expect coordinates already reduced modulo `P` and return reduced
coordinates.
-/
import ZkModel.L0.Fp
namespace Zk

/-- `c0 + c1·u` with `u² = −1`. -/
structure Fp2 where
  c0 : Nat
  c1 : Nat
deriving BEq, DecidableEq, Repr, Inhabited

namespace Fp2

def zero : Fp2 := ⟨0, 0⟩
def one : Fp2 := ⟨1, 0⟩
/-- Embedding Fp → Fp2. -/
def ofFp (a : Nat) : Fp2 := ⟨a % P, 0⟩

@[inline] def isZero (a : Fp2) : Bool := a.c0 == 0 && a.c1 == 0

@[inline] def add (a b : Fp2) : Fp2 := ⟨Fp.add a.c0 b.c0, Fp.add a.c1 b.c1⟩
@[inline] def sub (a b : Fp2) : Fp2 := ⟨Fp.sub a.c0 b.c0, Fp.sub a.c1 b.c1⟩
@[inline] def neg (a : Fp2) : Fp2 := ⟨Fp.neg a.c0, Fp.neg a.c1⟩
@[inline] def dbl (a : Fp2) : Fp2 := add a a

/-- `(a0 + a1 u)(b0 + b1 u) = (a0 b0 − a1 b1) + (a0 b1 + a1 b0) u`. -/
def mul (a b : Fp2) : Fp2 :=
  ⟨(a.c0 * b.c0 + (P - a.c1 % P) * b.c1) % P, (a.c0 * b.c1 + a.c1 * b.c0) % P⟩

/-- `(a0 + a1 u)² = (a0 + a1)(a0 − a1) + 2 a0 a1 u`. -/
def sq (a : Fp2) : Fp2 :=
  ⟨(a.c0 + a.c1) * (a.c0 + (P - a.c1 % P)) % P, 2 * a.c0 * a.c1 % P⟩

/-- Multiplication by an element of Fp. -/
def smul (k : Nat) (a : Fp2) : Fp2 := ⟨k * a.c0 % P, k * a.c1 % P⟩

/-- The non-trivial automorphism (= Frobenius `a ↦ a^p`). -/
def conj (a : Fp2) : Fp2 := ⟨a.c0 % P, Fp.neg a.c1⟩

/-- Norm to Fp: `a · conj a = a0² + a1²`. -/
def norm (a : Fp2) : Nat := (a.c0 * a.c0 + a.c1 * a.c1) % P

/-- Inverse `conj a / norm a` (0 ↦ 0). -/
def inv (a : Fp2) : Fp2 :=
  let n := Fp.inv (norm a)
  ⟨a.c0 * n % P, Fp.neg (a.c1 * n % P)⟩

/-- Square-and-multiply. -/
def pow (a : Fp2) (e : Nat) : Fp2 := Id.run do
  let mut acc := one
  let mut base := a
  let mut e := e
  for _ in [0:e.log2 + 1] do
    if e % 2 == 1 then acc := mul acc base
    base := sq base
    e := e / 2
  return acc

/--
Square root in Fp2 ("complex method"; p ≡ 3 mod 4 so `u² = −1` with −1 a non-residue of Fp).
Returns *a* root whenever one exists and `none` otherwise (the last line checks the candidate,
so a returned value is always a root; completeness is argued below).

* `a1 = 0`: either `a0` is a square in Fp, root `√a0`; or `−a0` is, root `√(−a0)·u`.
* `a1 ≠ 0`: if `a = (x0 + x1 u)²` then `a0 = x0² − x1²`, `a1 = 2 x0 x1`, and the norm
  `a0² + a1² = (x0² + x1²)²` is a square in Fp with root `s = ±(x0² + x1²)`; so
  `{(a0 + s)/2, (a0 − s)/2} = {x0², −x1²}`. As `x1 ≠ 0`, `−x1²` is a non-residue, hence exactly
  one of the two candidates is a square, and it is `x0²`; then `x1 = a1 / (2 x0)`.
-/
def sqrt? (a : Fp2) : Option Fp2 :=
  let cand : Option Fp2 :=
    if a.c1 == 0 then
      match Fp.sqrt? a.c0 with
      | some r => some ⟨r, 0⟩
      | none =>
        match Fp.sqrt? (Fp.neg a.c0) with
        | some r => some ⟨0, r⟩
        | none => none
    else
      match Fp.sqrt? (norm a) with
      | none => none
      | some s =>
        let half := (P + 1) / 2
        let d1 := Fp.mul (Fp.add a.c0 s) half
        let d2 := Fp.mul (Fp.sub a.c0 s) half
        let x0? := match Fp.sqrt? d1 with
          | some r => some r
          | none => Fp.sqrt? d2
        match x0? with
        | none => none
        | some x0 => some ⟨x0, Fp.mul a.c1 (Fp.inv (Fp.add x0 x0))⟩
  match cand with
  | some r => if sq r == a then some r else none
  | none => none

/--
`Fp2::lexicographically_largest` of bls12_381_plus 0.8.18 (src/fp2.rs l.182-191):
`c1.lexicographically_largest() | (c1.is_zero() & c0.lexicographically_largest())`,
where for Fp "lexicographically largest" means `> (p−1)/2`.
-/
def lexLargest (a : Fp2) : Bool :=
  Fp.lexLargest a.c1 || (a.c1 == 0 && Fp.lexLargest a.c0)

/-- RFC 9380 §4.1 `sgn0` for m = 2. -/
def sgn0 (a : Fp2) : Nat :=
  let s0 := a.c0 % 2
  let z0 := if a.c0 == 0 then 1 else 0
  let s1 := a.c1 % 2
  if s0 == 1 || (z0 == 1 && s1 == 1) then 1 else 0

end Fp2
end Zk
