/-
Self-test of the L0 G2 / pairing model (`Fp2`, `G2`, `Pairing`). `g2SelfTest` returns the list of
failed checks (empty = pass). Vectors marked "crate" were produced by a Rust oracle linked against
the repository's pinned bls12_381_plus 0.8.18 (random scalars; `to_compressed`, `to_uncompressed`,
`from_*`, and `multi_miller_loop(..).final_exponentiation() == Gt::IDENTITY`); vectors marked
"fixture" are copied from /repo/fixture_data/bls12-381-sha-256 (`g2FixtureCheck` re-reads them).

The G1 arithmetic in namespace `G2Test` is a minimal local copy used by these tests only.
-/
import ZkModel.L0.Pairing
namespace Zk
namespace G2Test

/-! ### minimal G1 (tests only) -/

def g1 : G1Pt :=
  ⟨0x17f1d3a73197d7942695638c4fa9ac0fc3688c4f9774b905a14e3a3f171bac586c55e83ff97a1aeffb3af00adb22c6bb,
   0x08b3f481e3aaa0f1a09e30ed741d8ae4fcf5e095d5d00af600db18cb2c04b3edd03cc744a2888ae40caa232946c5e7e1,
   false⟩

def g1Neg (p : G1Pt) : G1Pt := if p.inf then p else ⟨p.x, Fp.neg p.y, false⟩

def g1OnCurve (p : G1Pt) : Bool := p.inf || Fp.sq p.y == Fp.add (Fp.mul (Fp.sq p.x) p.x) 4

/-- Jacobian doubling (a = 0). -/
def g1JDbl (p : Nat × Nat × Nat) : Nat × Nat × Nat :=
  let (x, y, z) := p
  let a := Fp.sq x; let b := Fp.sq y; let c := Fp.sq b
  let d := Fp.mul 2 (Fp.sub (Fp.sub (Fp.sq (Fp.add x b)) a) c)
  let e := Fp.mul 3 a
  let x3 := Fp.sub (Fp.sq e) (Fp.mul 2 d)
  (x3, Fp.sub (Fp.mul e (Fp.sub d x3)) (Fp.mul 8 c), Fp.mul 2 (Fp.mul y z))

/-- Complete mixed addition. -/
def g1JAdd (p : Nat × Nat × Nat) (x2 y2 : Nat) : Nat × Nat × Nat :=
  let (x, y, z) := p
  if z == 0 then (x2, y2, 1)
  else
    let zz := Fp.sq z
    let u2 := Fp.mul x2 zz
    let s2 := Fp.mul y2 (Fp.mul z zz)
    if x == u2 then (if y == s2 then g1JDbl p else (1, 1, 0))
    else
      let h := Fp.sub u2 x; let r := Fp.sub s2 y
      let hh := Fp.sq h; let hhh := Fp.mul h hh; let v := Fp.mul x hh
      let x3 := Fp.sub (Fp.sub (Fp.sq r) hhh) (Fp.mul 2 v)
      (x3, Fp.sub (Fp.mul r (Fp.sub v x3)) (Fp.mul y hhh), Fp.mul z h)

def g1Mul (n : Nat) (p : G1Pt) : G1Pt :=
  if p.inf then G1Pt.zero
  else
    let (x, y, z) := (G2.bitsMSB n).foldl
      (fun acc bit => let d := g1JDbl acc; if bit then g1JAdd d p.x p.y else d) (1, 1, 0)
    if z == 0 then G1Pt.zero
    else
      let zi := Fp.inv z; let zi2 := Fp.sq zi
      ⟨Fp.mul x zi2, Fp.mul y (Fp.mul zi zi2), false⟩

def g1Add (p q : G1Pt) : G1Pt :=
  if p.inf then q else if q.inf then p
  else
    let (x, y, z) := g1JAdd (p.x, p.y, 1) q.x q.y
    if z == 0 then G1Pt.zero
    else
      let zi := Fp.inv z; let zi2 := Fp.sq zi
      ⟨Fp.mul x zi2, Fp.mul y (Fp.mul zi zi2), false⟩

/-- zcash compressed G1 encoding. -/
def g1Compress (p : G1Pt) : Bytes :=
  if p.inf then G2.setFlags (i2osp 48 0) 0xc0
  else G2.setFlags (i2osp 48 p.x) (0x80 ||| (if Fp.lexLargest p.y then 0x20 else 0))

/-- zcash compressed G1 decoding (flags, range, on-curve; no subgroup check – tests only). -/
def g1Decompress? (bs : Bytes) : Option G1Pt :=
  if bs.length != 48 then none
  else
    let (c, i, s, masked) := G2.splitFlags bs
    let x := os2ip masked
    if !c || x ≥ P then none
    else if i then (if x == 0 && !s then some G1Pt.zero else none)
    else
      match Fp.sqrt? (Fp.add (Fp.mul (Fp.sq x) x) 4) with
      | none => none
      | some y => some ⟨x, if Fp.lexLargest y != s then Fp.neg y else y, false⟩

/-! ### helpers -/

def hex! (s : String) : Bytes := (Bytes.ofHex s).getD []
def nat! (s : String) : Nat := os2ip (hex! s)

def check (name : String) (ok : Bool) : List String := if ok then [] else [name]

def optPtHex (o : Option G2Pt) (enc : G2Pt → Bytes) : String :=
  match o with
  | some p => Bytes.toHex (enc p)
  | none => "none"

/-- Replace the top three bits of the first byte. -/
def withFlags (bs : Bytes) (fl : UInt8) : Bytes :=
  match bs with
  | [] => []
  | h :: t => ((h &&& (0x1f : UInt8)) ||| (fl <<< (5 : UInt8))) :: t

/-! ### vectors -/

def genCompressedHex : String :=
  "93e02b6052719f607dacd3a088274f65596bd0d09920b61ab5da61bbdc7f5049334cf11213945d57e5ac7d055d042b7e024aa2b2f08f0a91260805272dc51051c6e47ad4fa403b02b4510b647ae3d1770bac0326a805bbefd48056c8c121bdb8"

/-- fixture: keypair.json `keyPair.secretKey` / `keyPair.publicKey`. -/
def fixSk : String := "60e55110f76883a13d030b2f6bd11883422d5abde717569fc0731f51237169fc"
def fixPk : String :=
  "a820f230f6ae38503b86c70dc50b61c58a77e45c39ab25c0652bbaa8fa136f2851bd4781c9dcde39fc9d1d52c9e60268061e7d7632171d91aa8d460acee0e96f1e7c4cfb12d3ff9ab5d5dc91c277db75c845d649ef3c4f63aebc364cd55ded0c"
/-- fixture: signature/signature001.json `signature` (A ‖ e) and `trace.B`. -/
def fixSig : String :=
  "84773160b824e194073a57493dac1a20b667af70cd2352d8af241c77658da5253aa8458317cca0eae615690d55b1f27164657dcafee1d5c1973947aa70e2cfbb4c892340be5969920d0916067b4565a0"
def fixB : String :=
  "92d264aed02bf23de022ebe778c4f929fddf829f504e451d011ed89a313b8167ac947332e1648157ceffc6e6e41ab255"

/-- crate: scalars a b c d, compressed [a]g1, compressed/uncompressed [b]g2, compressed −[c]g1,
compressed [d]g2, and the crate's decision for `e([a]g1,[b]g2)·e(−[c]g1,[d]g2) = 1`. -/
structure PairVec where
  a : String
  b : String
  c : String
  d : String
  p : String
  q : String
  qU : String
  p2 : String
  q2 : String
  res : Bool

def pairVecs : List PairVec := [
  { a := "5323459c1bf1cb631092382f6038258516f887d9086c9c1d6612b29d8fa906cc"
    b := "0f38f5aa133d85e380f8419fd932385f2e6ecf389d4c7a2ccfba518613ab359a"
    c := "20635c3d0cf520381e76299c8b3bfea3e64ed4f92811a7ba6e2f4ee88436d553"
    d := "4790962deb9e0e4ab65db194ceaa038c3ec62ce3821727ec5c37ca43b3b1ce86"
    p := "ae71ada5ad865e83b60e35ad7a910e00ce47ccc30bc9aa21a22f82a3d3a2c61c9135aa245ee8022232779d9423a31392"
    q := "a6090d75c65389943aebb05fb436b5decc1a7367d6008cd976477e3e6261ffc186ffd1fb493837e6f11e363c90d7c3900ebf998bf915122a06da13b1c67675fe61c136ff5e9acae98bcbba21049afc84ce08bc74d9e80ae787c3538b1eb35854"
    qU := "06090d75c65389943aebb05fb436b5decc1a7367d6008cd976477e3e6261ffc186ffd1fb493837e6f11e363c90d7c3900ebf998bf915122a06da13b1c67675fe61c136ff5e9acae98bcbba21049afc84ce08bc74d9e80ae787c3538b1eb3585415236aa36fd8b4b50d906d6e1b6d9b31bb00a5bd0511bd5ee8262e965e944b30f03a2fd40940283422951b666d1f6c1317b1140f297dddcded71c7f39888ff7007760a6b848a2c8471bb5d0652adf64c1d1d049741aa158b39d99ef359098960"
    p2 := "883b9b296318e5c3d677d47e30cfb72bf4c8378b39b2bbc50e64cc60cc7e7917fa7f9734e833ecadcd0441185a3195cb"
    q2 := "aeced26c43a86d5c36c2f43c89f2ee0ec4ae24319ce8a21e9c6239a407d7978aa0a80704af3d14773062b568d2c416b7171b32044f43420bc49a1cd638fa2b2dc12af4d97e7096b722d68c3ff168b51a1d214f62fa6007f46a36af49663ff2af"
    res := true },
  { a := "2ed04b6c9d7ad4e76073b07d31f9bd75a43cde2d4c08fa9dc05dc421c5d10888"
    b := "0f82648c0578cc08f13758a19b1ba579e3821dda4b65a8e697d6bf4a1e1c8d59"
    c := "6dafe86bc2d01f31ad10fdc8abd8c50772951b9988c9ac856b96657a11abec4d"
    d := "11a5e559328d6d2e7ba71fd9a419279f3ea82043e0365051ba553eb34e264d97"
    p := "a18fdcb166d5594a7e50b9a43ff9fa9457d001b9e23713daa7b1a7448b619f2369debc795bb2cf72f517737d7b52a429"
    q := "9314314fe372f0ea1a93c496b28978e6de08028f58798c211a46471489b65ae854be73b1b6b01b457935e9423a52de35118f2508dcc0a300da8a43f6cd26b02c2c0d2834d127f6e25b4d5b2f6856007ef52893806bb41a8385422eb5216c0327"
    qU := "1314314fe372f0ea1a93c496b28978e6de08028f58798c211a46471489b65ae854be73b1b6b01b457935e9423a52de35118f2508dcc0a300da8a43f6cd26b02c2c0d2834d127f6e25b4d5b2f6856007ef52893806bb41a8385422eb5216c032701fc1392ab7bc4e6c4e001e6e0bf259de5cfb587da3c7109b31979289359ef269bb16c2be23b6012d8dd282694f2ab050758e55ffab8ddfc53665c84aab156d1ebf61b9e11e43f8848a6da13610914faa6c77bbcb79af175ba1917a19bb499a1"
    p2 := "99bb08a8c5f4b5591ccac92948ec60eb01a8f4997c02cc2a7bf14018d5373b98f2c188223b7b6440cd6502826ac48193"
    q2 := "8c194d2a2c1a8367c116cf0eaafcdba9b400891305b8ebcaab44990fcd9912744aeebf8b89308707fa016d057f86687c0bfc774fcb9db31d5317d5fedd6f45d059c5eb70b68052368ee0ca20b38f54e8e80421001c1fde9d0ab85e1d6ec0fe1a"
    res := false } ]

/-- crate: `from_compressed_unchecked` on random x (on-curve points outside the subgroup, or x
without a y): input, and the uncompressed re-encoding of the result (or "none"). These exercise the
completeness of `Fp2.sqrt?` and the sign selection. `from_compressed` is `none` on all of them. -/
def uncheckedVecs : List (String × String) := [
  ("afddf63954f2e8dda77b6d15afe7614099109097f72a9ec08124118c72adfef6f0d6633721ae56eee679283398cd793f0b42bac42a4589467463823531d31e334c2398dc83ef50be2a3e652b251b8deb506c42184517a7e10da7d857489a9a93",
   "0fddf63954f2e8dda77b6d15afe7614099109097f72a9ec08124118c72adfef6f0d6633721ae56eee679283398cd793f0b42bac42a4589467463823531d31e334c2398dc83ef50be2a3e652b251b8deb506c42184517a7e10da7d857489a9a931357a381027f89624a50e4c70607c9757847b364389aef39e82c77051cd8746cd6c947e9ead583a06a8b2cd7271086850a7d8c043af6bcaa009e2e926bc937e255d260f933a48ecfa658980fac0f4fb32a7a8d40dd8b6989c88119022cd8142a"),
  ("af53d1d107b8c4df40d12f890d7c0538c56fd6d1554256d848141dbf3023f42b88ebaa87b23e0ddee453daa6221cea8a0ead7cb3e528a3ae8c7ec34d5474156971d2a270937c8e5d1e3766afe5720e2253abb7bd0b30cc28d3779ca67a517a38",
   "0f53d1d107b8c4df40d12f890d7c0538c56fd6d1554256d848141dbf3023f42b88ebaa87b23e0ddee453daa6221cea8a0ead7cb3e528a3ae8c7ec34d5474156971d2a270937c8e5d1e3766afe5720e2253abb7bd0b30cc28d3779ca67a517a381454c7015bd64bab91c6bb35cfb7809ff7e6550615df1bc04e766eaeeb5caeb9e76505e6e8f454f76f5d8d1f65bf730704f84943c47d26abd40d6c1eded37690f04474937745a55c3f3356eb91bdfdd7f6cc31ec8677a875e0f8a8eb76965a62"),
  ("8158ac0a285626debbf2adfc9df18e3dec20728e49983243c5bf24eee95b93988dc3cc31b82691560472868b64341a240d8bd55e7871026d99a2d1a9e10301c6253279a8719896e31e4b16acb66eb5b436bafd7a93d1f5e4a149ec0f12be8c4c",
   "0158ac0a285626debbf2adfc9df18e3dec20728e49983243c5bf24eee95b93988dc3cc31b82691560472868b64341a240d8bd55e7871026d99a2d1a9e10301c6253279a8719896e31e4b16acb66eb5b436bafd7a93d1f5e4a149ec0f12be8c4c0a84449edd7ffd8fdf77df0cd9bfeab28054bdadf4eff5a8cf13d58c0d0626e3129ce00cf2bee611507ee3dcd0bb5fdb06fd4a8206073d5cad71eff8530e4a8cde828cca97b1cd5c52a2ad798c66e8892491f63fd0d03c9cf294e97be18dd7a1"),
  ("8546675793d8b2663c7e7010d235cee0ee6b6b9657bee4fa7c238d0af7a5635778e242e65f2340e255c602c3b3c9569109fc81032289826cdbb67a5468c874a532ca49ed3f542b02821ff18781b47402c34b994f6f73c54149a5325371718ebf",
   "0546675793d8b2663c7e7010d235cee0ee6b6b9657bee4fa7c238d0af7a5635778e242e65f2340e255c602c3b3c9569109fc81032289826cdbb67a5468c874a532ca49ed3f542b02821ff18781b47402c34b994f6f73c54149a5325371718ebf044023480a5627532011f051cb28e3ec3018c4285eb182150839f3d87c02f03a8e5fed58bba508be0c4b2b2fafd109bf0a955fa316275cefa1846dc4700b74a6f03e8b53ac170f6a176b6c86b22f4c73431218dbc8e9ef6f95b0b1fe40588415"),
  ("a126913c1dcc602d1508a264f73bf07a54778e744621424cdf117daad1d68ec31e3e046ebeb07ecb35c04fe929a638da018da8da29b9e0ae0ce1eeaa8a4fa84727f96c3ac25a5e1a9ff59e24017adb77dbdaae8fb09ff3d63880b68203f45c85",
   "none"),
  ("8d2961f80578fd0a9b26304483953f0d5d1d9a08d855ab8a2e9a7411e3f10e4e78e40dbf1ddc39d8f15ae281f069092202764a6aea4a3f6a6784c0499ce04d9c6051dad9a0e14dbb56b57a29aba6864518424dd5a36a186514d7ddc5c9f4bd9b",
   "none") ]

/-- Check one crate vector: encodings of the model's scalar multiples, decoders, pairing decision. -/
def checkPairVec (i : Nat) (v : PairVec) : List String :=
  let tag := s!"pairVec[{i}]: "
  let p := g1Mul (nat! v.a) g1
  let q := G2.mul (nat! v.b) G2.gen
  let p2 := g1Neg (g1Mul (nat! v.c) g1)
  let q2 := G2.mul (nat! v.d) G2.gen
  check (tag ++ "[a]g1 compressed") (Bytes.toHex (g1Compress p) == v.p) ++
  check (tag ++ "[b]g2 compressed") (Bytes.toHex (G2.toCompressed q) == v.q) ++
  check (tag ++ "[b]g2 uncompressed") (Bytes.toHex (G2.toUncompressed q) == v.qU) ++
  check (tag ++ "-[c]g1 compressed") (Bytes.toHex (g1Compress p2) == v.p2) ++
  check (tag ++ "[d]g2 compressed") (Bytes.toHex (G2.toCompressed q2) == v.q2) ++
  check (tag ++ "fromCompressed q") (G2.fromCompressed (hex! v.q) == some q) ++
  check (tag ++ "fromUncompressed q") (G2.fromUncompressed (hex! v.qU) == some q) ++
  check (tag ++ "fromCompressed q2") (G2.fromCompressed (hex! v.q2) == some q2) ++
  check (tag ++ "g1Decompress p") (g1Decompress? (hex! v.p) == some p) ++
  check (tag ++ "pairing decision") (pairingProductIsOne [(p, q), (p2, q2)] == v.res)

/-- An on-curve point of E2(Fp2) outside the order-`R` subgroup: the first x = k (k = 0,1,2,…)
for which x³ + B is a square (the cofactor is huge, so such a point is essentially never in G2;
the test asserts it). -/
def offSubgroupPoint : Option G2Pt :=
  (List.range 20).findSome? fun k =>
    let x : Fp2 := ⟨k, 0⟩
    match Fp2.sqrt? (Fp2.add (Fp2.mul (Fp2.sq x) x) G2.b) with
    | some y => some (G2Pt.ofXY x y)
    | none => none

end G2Test

open G2Test in
def g2SelfTest : List String :=
  let g2 := G2.gen
  let pBytes := i2osp 48 P
  let genC := G2.toCompressed g2
  let genU := G2.toUncompressed g2
  let q7 := G2.mul 7 g2
  let negq7 := G2.neg q7
  -- Fp2
  let a : Fp2 := ⟨0x1234567, 0x89abcdef⟩
  let fp2Tests :=
    check "Fp2 inv" (Fp2.mul a (Fp2.inv a) == Fp2.one) ++
    check "Fp2 sq = mul" (Fp2.sq a == Fp2.mul a a) ++
    check "Fp2 sqrt of square" ((Fp2.sqrt? (Fp2.sq a)).any fun r => r == a || r == Fp2.neg a) ++
    check "Fp2 sqrt of square (c1 = 0, residue)" ((Fp2.sqrt? ⟨4, 0⟩).any fun r => Fp2.sq r == ⟨4, 0⟩) ++
    check "Fp2 sqrt of square (c1 = 0, non-residue)"
      ((Fp2.sqrt? (Fp2.neg ⟨4, 0⟩)).any fun r => Fp2.sq r == Fp2.neg ⟨4, 0⟩) ++
    check "Fp2 sqrt of pure imaginary square" ((Fp2.sqrt? (Fp2.sq ⟨5, 5⟩)).isSome) ++
    check "Fp2 sqrt 0" (Fp2.sqrt? Fp2.zero == some Fp2.zero) ++
    -- ξ = 1 + u is a non-square (that is why w⁶ = ξ defines a field)
    check "Fp2 sqrt of non-square" (Fp2.sqrt? ⟨1, 1⟩ == none) ++
    check "Fp2 sqrt of non-square * square" (Fp2.sqrt? (Fp2.mul ⟨1, 1⟩ (Fp2.sq a)) == none) ++
    -- completeness on pseudo-random squares / soundness on non-squares (ξ·square)
    ((List.range 16).flatMap fun i =>
      let r : Fp2 := ⟨powMod 3 (1000003 * (i + 1)) P, if i % 4 == 0 then 0 else powMod 5 (999983 * (i + 2)) P⟩
      let s := Fp2.sq r
      check s!"Fp2 sqrt complete #{i}" ((Fp2.sqrt? s).any fun t => t == r || t == Fp2.neg r) ++
      check s!"Fp2 sqrt rejects non-square #{i}" (Fp2.sqrt? (Fp2.mul ⟨1, 1⟩ s) == none)) ++
    check "Fp2 u^2 = -1" (Fp2.sq ⟨0, 1⟩ == Fp2.neg Fp2.one) ++
    check "Fp2 frobenius = conj" (Fp2.pow a P == Fp2.conj a) ++
    check "Fp2 lexLargest 0" (!Fp2.lexLargest Fp2.zero) ++
    check "Fp2 lexLargest 1" (!Fp2.lexLargest Fp2.one) ++
    check "Fp2 lexLargest -1" (Fp2.lexLargest (Fp2.neg Fp2.one)) ++
    check "Fp2 lexLargest c1 decides" (Fp2.lexLargest ⟨1, P - 1⟩ && !Fp2.lexLargest ⟨P - 1, 1⟩) ++
    check "Fp2 lexLargest exactly one of ±a" (Fp2.lexLargest a != Fp2.lexLargest (Fp2.neg a))
  -- group
  let groupTests :=
    check "gen on curve" (G2.onCurve g2) ++
    check "gen in subgroup" (G2.inSubgroup g2) ++
    check "gen finite" (!g2.inf) ++
    check "[R-1]g = -g" (G2.mul (R - 1) g2 == G2.neg g2) ++
    check "[0]g = O" (G2.mul 0 g2 == G2Pt.zero) ++
    check "[1]g = g" (G2.mul 1 g2 == g2) ++
    check "[2]g = g+g" (G2.mul 2 g2 == G2.add g2 g2) ++
    check "[3]g+[4]g = [7]g" (G2.add (G2.mul 3 g2) (G2.mul 4 g2) == q7) ++
    check "[7]g on curve" (G2.onCurve q7) ++
    check "g + (-g) = O" (G2.add g2 (G2.neg g2) == G2Pt.zero) ++
    check "g + O = g" (G2.add g2 G2Pt.zero == g2 && G2.add G2Pt.zero g2 == g2) ++
    check "[n]O = O" (G2.mul 5 G2Pt.zero == G2Pt.zero) ++
    check "[R+5]g = [5]g (mul does not need a reduced scalar)" (G2.mul (R + 5) g2 == G2.mul 5 g2) ++
    check "O in subgroup" (G2.inSubgroup G2Pt.zero)
  -- codecs
  let off := offSubgroupPoint
  let codecTests :=
    check "gen compressed hex" (Bytes.toHex genC == genCompressedHex) ++
    check "fromCompressed gen" (G2.fromCompressed genC == some g2) ++
    check "fromUncompressed gen" (G2.fromUncompressed genU == some g2) ++
    check "lengths" (genC.length == 96 && genU.length == 192) ++
    check "round trip [7]g" (G2.fromCompressed (G2.toCompressed q7) == some q7 &&
      G2.fromUncompressed (G2.toUncompressed q7) == some q7) ++
    check "round trip -[7]g" (G2.fromCompressed (G2.toCompressed negq7) == some negq7 &&
      G2.fromUncompressed (G2.toUncompressed negq7) == some negq7) ++
    check "sort flag differs for ±" (G2.toCompressed q7 != G2.toCompressed negq7 &&
      withFlags (G2.toCompressed q7) 0 == withFlags (G2.toCompressed negq7) 0) ++
    check "identity compressed" (G2.toCompressed G2Pt.zero == 0xc0 :: List.replicate 95 0) ++
    check "identity uncompressed" (G2.toUncompressed G2Pt.zero == 0x40 :: List.replicate 191 0) ++
    check "identity round trip" (G2.fromCompressed (G2.toCompressed G2Pt.zero) == some G2Pt.zero &&
      G2.fromUncompressed (G2.toUncompressed G2Pt.zero) == some G2Pt.zero) ++
    -- rejections, compressed
    check "C0 short" (G2.fromCompressed (genC.take 95) == none) ++
    check "C0 long" (G2.fromCompressed (genC ++ [0]) == none) ++
    check "C0 empty" (G2.fromCompressed [] == none) ++
    check "C5 compression flag unset" (G2.fromCompressed (withFlags genC 0) == none &&
      G2.fromCompressed (withFlags genC 1) == none) ++
    check "C4 infinity flag with x != 0" (G2.fromCompressed (withFlags genC 6) == none &&
      G2.fromCompressed (withFlags genC 7) == none) ++
    check "sort flag flips y" (G2.fromCompressed (withFlags genC 5) == some (G2.neg g2)) ++
    check "identity with sort flag" (G2.fromCompressed (0xe0 :: List.replicate 95 0) == none) ++
    check "identity without compression flag" (G2.fromCompressed (0x40 :: List.replicate 95 0) == none) ++
    check "x = 0 without infinity flag" (G2.fromCompressed (0x80 :: List.replicate 95 0) == none) ++
    check "C2 x.c0 = p" (G2.fromCompressed (genC.take 48 ++ pBytes) == none) ++
    check "C1 x.c1 = p" (G2.fromCompressed (G2.setFlags pBytes 0x80 ++ genC.drop 48) == none) ++
    check "C1 at infinity" (G2.fromCompressed (G2.setFlags pBytes 0xc0 ++ List.replicate 48 0) == none) ++
    -- crate: x = 1 has no y; x = 2 is on the curve (outside the subgroup)
    check "C3 x = 1 not on curve"
      (G2.fromCompressedUnchecked (0x80 :: (List.replicate 94 0 ++ [1])) == none) ++
    check "x = 2 on curve, unchecked decoder accepts"
      ((G2.fromCompressedUnchecked (0x80 :: (List.replicate 94 0 ++ [2]))).any G2.onCurve) ++
    check "C6 x = 2 rejected by checked decoder"
      (G2.fromCompressed (0x80 :: (List.replicate 94 0 ++ [2])) == none) ++
    (match off with
     | none => ["no off-subgroup point found"]
     | some o =>
       check "off-subgroup point on curve" (G2.onCurve o) ++
       check "off-subgroup point not in subgroup" (!G2.inSubgroup o) ++
       check "C6 off-subgroup compressed rejected" (G2.fromCompressed (G2.toCompressed o) == none) ++
       check "U9 off-subgroup uncompressed rejected" (G2.fromUncompressed (G2.toUncompressed o) == none)) ++
    -- rejections, uncompressed
    check "U0 short" (G2.fromUncompressed (genU.take 191) == none) ++
    check "U0 compressed input" (G2.fromUncompressed genC == none) ++
    check "U6 compression flag" (G2.fromUncompressed (withFlags genU 4) == none) ++
    check "U7 sort flag" (G2.fromUncompressed (withFlags genU 1) == none) ++
    check "U5 infinity flag with coordinates" (G2.fromUncompressed (withFlags genU 2) == none) ++
    check "U7 infinity + sort flag" (G2.fromUncompressed (0x60 :: List.replicate 191 0) == none) ++
    check "U8 all zero without infinity flag" (G2.fromUncompressed (List.replicate 192 0) == none) ++
    check "U8 perturbed y" (G2.fromUncompressed (genU.take 191 ++ [genU.getLastD 0 ^^^ 1]) == none) ++
    check "U1 x.c1 = p" (G2.fromUncompressed (pBytes ++ genU.drop 48) == none) ++
    check "U2 x.c0 = p" (G2.fromUncompressed (genU.take 48 ++ pBytes ++ genU.drop 96) == none) ++
    check "U3 y.c1 = p" (G2.fromUncompressed (genU.take 96 ++ pBytes ++ genU.drop 144) == none) ++
    check "U4 y.c0 = p" (G2.fromUncompressed (genU.take 144 ++ pBytes) == none)
  -- Fp12
  let f : Fp12 := #[3, 1, 4, 1, 5, 9, 2, 6, 5, 3, 5, 8]
  let w : Fp12 := #[0, 1, 0, 0, 0, 0, 0, 0, 0, 0, 0, 0]
  let uEl : Fp12 := Fp12.addFp2At Fp12.zero 0 ⟨0, 1⟩
  let fp12Tests :=
    check "zeta value" (Fp12.zeta == powMod 2 ((P - 1) / 6) P) ++
    check "zeta primitive 6th root" (powMod Fp12.zeta 3 P == P - 1 && powMod Fp12.zeta 2 P != 1) ++
    check "Fp12 u^2 = -1" (Fp12.mul uEl uEl == Fp12.addFp2At Fp12.zero 0 (Fp2.neg Fp2.one)) ++
    check "Fp12 w^6 = 1+u" (Fp12.pow w 6 == Fp12.addFp2At Fp12.zero 0 ⟨1, 1⟩) ++
    check "Fp12 sq = mul" (Fp12.sq f == Fp12.mul f f) ++
    check "Fp12 inv" (Fp12.mul f (Fp12.inv f) == Fp12.one) ++
    check "Fp12 frob2 = ^(p^2)" (Fp12.frob2 1 f == Fp12.pow f (P * P)) ++
    check "Fp12 frob2 multiplicative"
      (Fp12.frob2 1 (Fp12.mul f uEl) == Fp12.mul (Fp12.frob2 1 f) (Fp12.frob2 1 uEl)) ++
    check "Fp12 conj = frob2^3" (Fp12.conj f == Fp12.frob2 3 f) ++
    check "hard exponent exact" (Pairing.hardExp * R == P ^ 4 - P ^ 2 + 1) ++
    check "Fp12 frob = ^p" (Fp12.frob f == Fp12.pow f P) ++
    check "Fp12 frob^2 = frob2" (Fp12.frob (Fp12.frob f) == Fp12.frob2 1 f) ++
    check "hard exponent identity 3h = (x-1)^2 (x+p) (x^2+p^2-1) + 3, x = -|x|"
      (3 * Pairing.hardExp ==
        (Pairing.absX + 1) ^ 2 * (P - Pairing.absX) * (Pairing.absX ^ 2 + P ^ 2 - 1) + 3) ++
    check "(p^12-1)/r = (p^6-1)(p^2+1)h" ((P ^ 12 - 1) / R == (P ^ 6 - 1) * (P ^ 2 + 1) * Pairing.hardExp) ++
    check "easy part = ^((p^6-1)(p^2+1))"
      (Pairing.finalExpEasy f == Fp12.pow f ((P ^ 6 - 1) * (P ^ 2 + 1))) ++
    check "easy part is unitary"
      (Fp12.mul (Pairing.finalExpEasy f) (Fp12.conj (Pairing.finalExpEasy f)) == Fp12.one) ++
    check "final exponentiation = (^((p^12-1)/r))^3"
      (Pairing.finalExp f == Fp12.pow (Pairing.finalExpNaive f) 3)
  -- pairing
  let pairingTests :=
    check "e(g1,g2) != 1" (pairingProductIsOne [(g1, g2)] == false) ++
    check "e(g1,g2) e(-g1,g2) = 1" (pairingProductIsOne [(g1, g2), (g1Neg g1, g2)]) ++
    check "e(g1,g2) e(g1,-g2) = 1" (pairingProductIsOne [(g1, g2), (g1, G2.neg g2)]) ++
    check "empty product" (pairingProductIsOne []) ++
    check "identity terms" (pairingProductIsOne [(G1Pt.zero, g2), (g1, G2Pt.zero)]) ++
    check "identity terms are skipped" (pairingProductIsOne [(g1, g2), (G1Pt.zero, q7)] == false) ++
    check "identity terms are skipped (2)"
      (pairingProductIsOne [(g1Mul 7 g1, g2), (G1Pt.zero, g2), (g1Neg g1, q7), (g1, G2Pt.zero)]) ++
    check "e(g1,g2)^r = 1 via [R]" (pairingProductIsOne [(g1Mul R g1, g2)]) ++
    ([2, 3, 0xdeadbeefcafebabe, R - 1,
      0x1fedcba9876543210fedcba9876543210fedcba9876543210fedcba987654321].flatMap fun a =>
      let ag1 := g1Mul a g1
      let ag2 := G2.mul a g2
      check s!"e([a]g1,g2) e(-g1,[a]g2) = 1, a={a}" (pairingProductIsOne [(ag1, g2), (g1Neg g1, ag2)]) ++
      check s!"e([a]g1,g2) e(-g1,[a+1]g2) != 1, a={a}"
        (pairingProductIsOne [(ag1, g2), (g1Neg g1, G2.add ag2 g2)] == false)) ++
    ([(3, 5), (0x123456789abcdef, 0xfedcba987654321),
      (0x3b9aca07deadbeef3b9aca07deadbeef3b9aca07deadbeef, 0x6a09e667f3bcc908b2fb1366ea957d3e3adec17512775099da2f590b0667322a)].flatMap
      fun (a, b) =>
      let ab := a * b % R
      check s!"e([a]g1,[b]g2) e(-[ab]g1,g2) = 1, a={a}"
        (pairingProductIsOne [(g1Mul a g1, G2.mul b g2), (g1Neg (g1Mul ab g1), g2)]) ++
      check s!"e([a]g1,[b]g2) e(-[ab+1]g1,g2) != 1, a={a}"
        (pairingProductIsOne [(g1Mul a g1, G2.mul b g2), (g1Neg (g1Mul (ab + 1) g1), g2)] == false)) ++
    check "reduced pairing bilinear in G1"
      (Pairing.reduced (g1Mul 5 g1) g2 == Fp12.pow (Pairing.reduced g1 g2) 5) ++
    check "reduced pairing bilinear in G2"
      (Pairing.reduced g1 (G2.mul 5 g2) == Fp12.pow (Pairing.reduced g1 g2) 5) ++
    check "reduced pairing has order r"
      (Fp12.pow (Pairing.reduced g1 g2) R == Fp12.one)
  -- crate vectors
  let crateTests := (pairVecs.zipIdx.flatMap fun (v, i) => checkPairVec i v) ++
    (uncheckedVecs.zipIdx.flatMap fun ((inp, out), i) =>
      check s!"uncheckedVec[{i}] unchecked decode"
        (optPtHex (G2.fromCompressedUnchecked (hex! inp)) G2.toUncompressed == out) ++
      check s!"uncheckedVec[{i}] checked decode rejects" (G2.fromCompressed (hex! inp) == none) ++
      check s!"uncheckedVec[{i}] uncompressed checked decode rejects"
        (out == "none" || (G2.fromUncompressedUnchecked (hex! out)).isSome &&
          G2.fromUncompressed (hex! out) == none))
  -- fixtures
  let sk := nat! fixSk
  let w := G2.mul sk g2
  let sig := hex! fixSig
  let fixtureTests :=
    check "fixture: [sk]g2 = publicKey" (Bytes.toHex (G2.toCompressed w) == fixPk) ++
    check "fixture: fromCompressed publicKey" (G2.fromCompressed (hex! fixPk) == some w) ++
    (match g1Decompress? (sig.take 48), g1Decompress? (hex! fixB) with
     | some aPt, some bPt =>
       let e := os2ip (sig.drop 48)
       check "fixture: A, B on curve" (g1OnCurve aPt && g1OnCurve bPt) ++
       check "fixture: BBS e(A, W+[e]g2) e(B,-g2) = 1"
         (pairingProductIsOne [(aPt, G2.add w (G2.mul e g2)), (bPt, G2.neg g2)]) ++
       check "fixture: BBS e(A, W+[e]g2) e(-B,g2) = 1"
         (pairingProductIsOne [(aPt, G2.add w (G2.mul e g2)), (g1Neg bPt, g2)]) ++
       check "fixture: BBS with e+1 fails"
         (pairingProductIsOne [(aPt, G2.add w (G2.mul (e + 1) g2)), (bPt, G2.neg g2)] == false) ++
       check "fixture: A = [1/(sk+e)]B" (g1Mul (Fr.inv (Fr.add sk e)) bPt == aPt)
     | _, _ => ["fixture: cannot decode A or B"])
  fp2Tests ++ groupTests ++ codecTests ++ fp12Tests ++ pairingTests ++ crateTests ++ fixtureTests

/-- Re-read the repository fixtures and check that the literals embedded above are the ones in the
files (skipped, with a note, if /repo is not present). -/
def g2FixtureCheck : IO (List String) := do
  let kp : System.FilePath := "/repo/fixture_data/bls12-381-sha-256/keypair.json"
  let sg : System.FilePath := "/repo/fixture_data/bls12-381-sha-256/signature/signature001.json"
  if !(← kp.pathExists) || !(← sg.pathExists) then
    return []
  let kpTxt ← IO.FS.readFile kp
  let sgTxt ← IO.FS.readFile sg
  let has (txt key val : String) : Bool := (txt.splitOn s!"\"{key}\": \"{val}\"").length > 1
  return G2Test.check "keypair.json secretKey" (has kpTxt "secretKey" G2Test.fixSk) ++
    G2Test.check "keypair.json publicKey" (has kpTxt "publicKey" G2Test.fixPk) ++
    G2Test.check "signature001.json signature" (has sgTxt "signature" G2Test.fixSig) ++
    G2Test.check "signature001.json B" (has sgTxt "B" G2Test.fixB) ++
    G2Test.check "signature001.json publicKey" (has sgTxt "publicKey" G2Test.fixPk)

#eval g2SelfTest
#eval g2FixtureCheck

end Zk
