/-
L0: the BLS12-381 base field Fp and scalar field Fr as naturals reduced modulo the prime.
Modelled (not verified): written from the curve's public parameters.
-/
import ZkModel.L0.Bytes
namespace Zk

/-- BLS12-381 base field modulus. -/
def P : Nat := 0x1a0111ea397fe69a4b1ba7b6434bacd764774b84f38512bf6730d2a0f6b0f6241eabfffeb153ffffb9feffffffffaaab
/-- BLS12-381 subgroup order (scalar field modulus). -/
def R : Nat := 0x73eda753299d7d483339d80809a1d80553bda402fffe5bfeffffffff00000001

/-- Square-and-multiply `b^e mod m` on naturals (structural on the bit list of `e`). -/
def powMod (b e m : Nat) : Nat := Id.run do
  let mut acc := 1 % m
  let mut base := b % m
  let mut e := e
  for _ in [0:e.log2 + 1] do
    if e % 2 == 1 then acc := acc * base % m
    base := base * base % m
    e := e / 2
  return acc

namespace Fp
@[inline] def add (a b : Nat) : Nat := (a + b) % P
@[inline] def sub (a b : Nat) : Nat := (a + P - b % P) % P
@[inline] def neg (a : Nat) : Nat := (P - a % P) % P
@[inline] def mul (a b : Nat) : Nat := a * b % P
@[inline] def sq (a : Nat) : Nat := a * a % P
def pow (a e : Nat) : Nat := powMod a e P
/-- Inverse by Fermat (0 ↦ 0). -/
def inv (a : Nat) : Nat := powMod a (P - 2) P
/-- Square root for p ≡ 3 (mod 4): candidate `a^((p+1)/4)`; `none` if `a` is not a square. -/
def sqrt? (a : Nat) : Option Nat :=
  let r := powMod a ((P + 1) / 4) P
  if r * r % P == a % P then some r else none
/-- RFC 9380 `sgn0` for Fp. -/
def sgn0 (a : Nat) : Nat := a % 2
/-- "lexicographically largest" flag of the zcash encoding: `y > (p-1)/2`. -/
def lexLargest (y : Nat) : Bool := y > (P - 1) / 2
end Fp

namespace Fr
@[inline] def add (a b : Nat) : Nat := (a + b) % R
@[inline] def sub (a b : Nat) : Nat := (a + R - b % R) % R
@[inline] def neg (a : Nat) : Nat := (R - a % R) % R
@[inline] def mul (a b : Nat) : Nat := a * b % R
def inv (a : Nat) : Nat := powMod a (R - 2) R
end Fr

/-- Affine point of E1: y² = x³ + 4 over Fp, in normal form (`inf = true → x = y = 0`). -/
structure G1Pt where
  x : Nat
  y : Nat
  inf : Bool
deriving BEq, DecidableEq, Repr, Inhabited

/-- Affine point of E2: y² = x³ + 4(1+u) over Fp2 = Fp[u]/(u²+1); coordinates `c0 + c1·u`. -/
structure G2Pt where
  x0 : Nat
  x1 : Nat
  y0 : Nat
  y1 : Nat
  inf : Bool
deriving BEq, DecidableEq, Repr, Inhabited

def G1Pt.zero : G1Pt := ⟨0, 0, true⟩
def G2Pt.zero : G2Pt := ⟨0, 0, 0, 0, true⟩

end Zk
