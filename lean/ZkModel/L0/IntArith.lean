/-
L0 for CL03: integer arithmetic with the semantics of `rug::Integer` as the CL03 code uses it
(modelled, not verified): modular exponentiation with negative exponents, modular inverse,
`divm`, integer square root, decimal rendering, bit length, Miller–Rabin.
Import-free (core only).
-/
import ZkModel.L0.Bytes
import ZkModel.L0.Sha256
namespace Zk.IA

/-- `b^e mod n` for `e ≥ 0`, `n > 0`; result in `[0, n)`. -/
def powModNat (b e n : Nat) : Nat := Id.run do
  let mut acc := 1 % n
  let mut base := b % n
  let mut e := e
  for _ in [0:e.log2 + 1] do
    if e % 2 == 1 then acc := acc * base % n
    base := base * base % n
    e := e / 2
  return acc

/-- Extended Euclid with fuel: returns `(g, x)` with `a*x ≡ g (mod n)`. -/
def xgcdAux : Nat → Int → Int → Int → Int → Int × Int
  | 0, r0, _, s0, _ => (r0, s0)
  | fuel + 1, r0, r1, s0, s1 =>
    if r1 == 0 then (r0, s0)
    else
      let q := r0 / r1
      xgcdAux fuel r1 (r0 - q * r1) s1 (s0 - q * s1)

/-- `Integer::invert(&n)`: the inverse of `a` modulo `n > 0` in `[0, n)`, `none` if not coprime. -/
def invMod (a n : Int) : Option Int :=
  if n ≤ 0 then none
  else
    let a' := a % n   -- Lean's `%` on Int is Euclidean for positive n: result in [0, n)
    let (g, x) := xgcdAux (2 * (n.toNat.log2 + 2)) a' n 1 0
    if g == 1 then some (x % n)
    else if n == 1 then some 0
    else none

/-- `Integer::pow_mod(&e, &n)`: `none` when the exponent is negative and the base has no inverse
(the Rust code `unwrap`s the result). Result in `[0, n)`. -/
def powMod (b e n : Int) : Option Int :=
  if n ≤ 0 then none
  else if e ≥ 0 then some (Int.ofNat (powModNat (b % n).toNat e.toNat n.toNat))
  else match invMod b n with
    | none => none
    | some bi => some (Int.ofNat (powModNat bi.toNat (-e).toNat n.toNat))

def gcd (a b : Int) : Int := Int.ofNat (Int.gcd a b)

/-- Newton integer square root (floor). -/
def isqrtAux : Nat → Nat → Nat → Nat
  | 0, _, x => x
  | fuel + 1, n, x =>
    let y := (x + n / x) / 2
    if y ≥ x then x else isqrtAux fuel n y

def isqrt (n : Nat) : Nat :=
  if n < 2 then n
  else
    let x0 := 2 ^ (n.log2 / 2 + 1)
    isqrtAux (n.log2 + 8) n x0

/-- `significant_bits`. -/
def bitLen (n : Int) : Nat := if n == 0 then 0 else n.natAbs.log2 + 1

/-- `to_string()` (decimal, leading `-` for negatives) as UTF-8 bytes. -/
def decimalBytes (n : Int) : Bytes := Bytes.ofAscii (toString n)

/-- `Integer::from_digits(H(str), MsfBe)` for `H = SHA-256` over the concatenated decimal strings. -/
def hashInts (l : List Int) : Int :=
  Int.ofNat (os2ip (sha256 (l.flatMap decimalBytes)))

/-- Truncated remainder (`%` of rug/GMP and Rust): sign follows the dividend. -/
def tmod (a n : Int) : Int := Int.tmod a n

/-- One Miller–Rabin round to base `a` for odd `n > 2`, `n - 1 = 2^s * d`. -/
def mrRound (n d s a : Nat) : Bool := Id.run do
  let mut x := powModNat a d n
  if x == 1 || x == n - 1 then return true
  for _ in [0:s - 1] do
    x := x * x % n
    if x == n - 1 then return true
  return false

def twoAdic : Nat → Nat → Nat × Nat
  | 0, d => (0, d)
  | fuel + 1, d => if d % 2 == 0 && d > 0 then let (s, d') := twoAdic fuel (d / 2); (s + 1, d') else (0, d)

/-- Miller–Rabin with the first 12 prime bases (a test, used by the model to mirror
`is_probably_prime` / `next_prime`; deterministic for n < 3.3e24, probabilistic beyond). -/
def smallPrimes : List Nat :=
  [2, 3, 5, 7, 11, 13, 17, 19, 23, 29, 31, 37, 41, 43, 47, 53, 59, 61, 67, 71, 73, 79, 83, 89, 97, 101,
   103, 107, 109, 113, 127, 131, 137, 139, 149, 151, 157, 163, 167, 173, 179, 181, 191, 193, 197, 199,
   211, 223, 227, 229, 233, 239, 241, 251, 257, 263, 269, 271, 277, 281, 283, 293, 307, 311, 313, 317,
   331, 337, 347, 349, 353, 359, 367, 373, 379, 383, 389, 397, 401, 409, 419, 421, 431, 433, 439, 443,
   449, 457, 461, 463, 467, 479, 487, 491, 499, 503, 509, 521, 523, 541]

def isProbablePrime (n : Nat) : Bool :=
  if n < 2 then false
  else
    let bases := [2, 3, 5, 7, 11, 13, 17, 19, 23, 29, 31, 37]
    if smallPrimes.contains n then true
    else if smallPrimes.any (fun p => n % p == 0) then false
    else
      let (s, d) := twoAdic (n.log2 + 1) (n - 1)
      -- a composite fails the first round with overwhelming probability: test base 2 first
      mrRound n d s 2 && bases.all (fun a => mrRound n d s a)

end Zk.IA
