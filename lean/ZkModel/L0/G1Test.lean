/-
Self-test for `ZkModel.L0.G1` and `ZkModel.L0.HashToCurve`: group-law sanity, the zcash codec
(accept and reject cases), RFC 9380 App. J.9.1 vectors, and the repository's generator fixtures
(`/repo/fixture_data/bls12-381-{sha,shake}-256/generators.json`, derived as in
`/repo/src/bbsplus/generators.rs::create_generators`).
`g1SelfTest` returns the list of failed checks; empty = pass.
-/
import ZkModel.L0.G1
import ZkModel.L0.HashToCurve
import ZkModel.L0.Expand
namespace Zk
namespace G1Test

def hex! (s : String) : Bytes := (Bytes.ofHex s).getD []

def genHex : String :=
  "97f1d3a73197d7942695638c4fa9ac0fc3688c4f9774b905a14e3a3f171bac586c55e83ff97a1aeffb3af00adb22c6bb"
def infHex : String := "c0" ++ String.ofList (List.replicate 94 '0')

/-- Fixed "random" scalars. -/
def sA : Nat := 0x3b1f5c0e7a94d2688e5f1b07c3a9d4e2f6a8b1c0d5e7f9021346578a9bcdef01
def sB : Nat := 0x6d0a4c2e8b17f3955a3c9e1d7b2f4068c1e5a7d9f3b0124365870a9cbedf1357
def sC : Nat := 0x0123456789abcdef0fedcba9876543211032547698badcfe1a2b3c4d5e6f7081

/-- Smallest `x < 200` that is the abscissa of a curve point outside the prime-order subgroup
(the cofactor is ≈ 2^126, so almost every curve point qualifies). -/
def offSubgroupPt : Option G1Pt :=
  (List.range 200).findSome? fun x =>
    match Fp.sqrt? (G1.rhs x) with
    | some y => let p : G1Pt := ⟨x, y, false⟩; if G1.inSubgroup p then none else some p
    | none => none

/-- Smallest `x < 200` such that `x³ + 4` is a non-square. -/
def offCurveX : Option Nat :=
  (List.range 200).find? fun x => (Fp.sqrt? (G1.rhs x)).isNone

/-- Replace the first byte. -/
def setB0 (f : UInt8 → UInt8) : Bytes → Bytes
  | [] => []
  | b :: r => f b :: r

def groupChecks : List (String × Bool) :=
  let g := G1.gen
  let pA := G1.mul sA g
  let pB := G1.mul sB g
  let pC := G1.mul sC g
  [ ("gen on curve", G1.onCurve g),
    ("gen in subgroup", G1.inSubgroup g),
    ("[R]gen = O", G1.mul R g == G1Pt.zero),
    ("[R-1]gen = -gen", G1.mul (R - 1) g == G1.neg g),
    ("[0]gen = O", G1.mul 0 g == G1Pt.zero),
    ("[1]gen = gen", G1.mul 1 g == g),
    ("[2]gen = double gen", G1.mul 2 g == G1.double g),
    ("double = add self", G1.double pA == G1.add pA pA),
    ("[5]gen", G1.mul 5 g == G1.add (G1.double (G1.double g)) g),
    ("pA on curve", G1.onCurve pA),
    ("[a]([b]g) = [ab]g", G1.mul sA pB == G1.mul (sA * sB) g),
    ("[a]([b]g) = [ab mod R]g", G1.mul sA pB == G1.mul (sA * sB % R) g),
    ("[b]([c]g) = [c]([b]g)", G1.mul sB pC == G1.mul sC pB),
    ("[a]g + [b]g = [a+b]g", G1.add pA pB == G1.mul (sA + sB) g),
    ("add comm", G1.add pA pB == G1.add pB pA),
    ("add assoc", G1.add (G1.add pA pB) pC == G1.add pA (G1.add pB pC)),
    ("P + O", G1.add pA G1Pt.zero == pA && G1.add G1Pt.zero pA == pA),
    ("P + (-P) = O", G1.add pA (G1.neg pA) == G1Pt.zero),
    ("O + O", G1.add G1Pt.zero G1Pt.zero == G1Pt.zero),
    ("neg O = O", G1.neg G1Pt.zero == G1Pt.zero),
    ("sub", G1.sub (G1.add pA pB) pB == pA),
    ("Jac.add = add", (G1.Jac.add (G1.Jac.mul sA g) (G1.Jac.mul sB g)).toAffine == G1.add pA pB),
    ("Jac.add P P = double", (G1.Jac.add (G1.Jac.mul sA g) (G1.Jac.ofAffine pA)).toAffine == G1.double pA),
    ("Jac.add P -P = O", (G1.Jac.add (G1.Jac.mul sA g) (G1.Jac.ofAffine (G1.neg pA))).toAffine == G1Pt.zero),
    ("Jac.addAffine P P", (G1.Jac.addAffine (G1.Jac.mul sA g) pA).toAffine == G1.double pA),
    ("Jac.addAffine P -P", (G1.Jac.addAffine (G1.Jac.mul sA g) (G1.neg pA)).toAffine == G1Pt.zero),
    ("msm", G1.msm [(sA, g), (sB, pC), (0, pA), (7, G1Pt.zero)]
              == G1.add pA (G1.mul sB pC)),
    ("msm []", G1.msm [] == G1Pt.zero) ]

def codecChecks : List (String × Bool) :=
  let g := G1.gen
  let samples := [g, G1.neg g, G1.mul sA g, G1.mul sB g, G1.mul sC g, G1.neg (G1.mul sC g), G1Pt.zero]
  let genB := hex! genHex
  let pBytes := i2osp 48 P
  [ ("gen hex", (G1.toCompressed g).toHex == genHex),
    ("inf hex", (G1.toCompressed G1Pt.zero).toHex == infHex),
    ("decode gen", G1.fromCompressed genB == some g),
    ("decode inf", G1.fromCompressed (hex! infHex) == some G1Pt.zero),
    ("round trip", samples.all fun p => G1.fromCompressed (G1.toCompressed p) == some p),
    ("length 48", samples.all fun p => (G1.toCompressed p).length == 48),
    ("neg flips sort flag only",
      G1.toCompressed (G1.neg g) == setB0 (· ^^^ 0x20) (G1.toCompressed g)),
    -- rejections
    ("rej empty", G1.fromCompressed [] == none),
    ("rej len 47", G1.fromCompressed (genB.take 47) == none),
    ("rej len 49", G1.fromCompressed (genB ++ [0]) == none),
    ("rej len 96", G1.fromCompressed (genB ++ genB) == none),
    ("rej compression flag unset", G1.fromCompressed (setB0 (· &&& 0x7f) genB) == none),
    ("rej no flags, x only", G1.fromCompressed (i2osp 48 g.x) == none),
    ("rej inf flag on a finite point", G1.fromCompressed (setB0 (· ||| 0x40) genB) == none),
    ("rej inf + sort", G1.fromCompressed (setB0 (fun _ => 0xe0) (hex! infHex)) == none),
    ("rej inf without compression", G1.fromCompressed (setB0 (fun _ => 0x40) (hex! infHex)) == none),
    ("rej inf + low bit", G1.fromCompressed (hex! infHex |>.dropLast |>.append [1]) == none),
    ("rej inf + bit in byte 0", G1.fromCompressed (setB0 (fun _ => 0xc1) (hex! infHex)) == none),
    ("rej all zero", G1.fromCompressed (List.replicate 48 0) == none),
    ("rej x = p", G1.fromCompressed (setB0 (· ||| 0x80) pBytes) == none),
    ("rej x = p (sort)", G1.fromCompressed (setB0 (· ||| 0xa0) pBytes) == none),
    ("rej x = 2^381 - 1", G1.fromCompressed (0x9f :: List.replicate 47 0xff) == none),
    ("rej x = p - 1",   -- canonical, so passes (1); rejected later (rhs = 3: no root, or root outside the subgroup)
      (G1.fromCompressed (setB0 (· ||| 0x80) (i2osp 48 (P - 1)))).isNone),
    ("rej x not on curve",
      match offCurveX with
      | none => false
      | some x =>
        G1.fromCompressed (setB0 (· ||| 0x80) (i2osp 48 x)) == none &&
        G1.fromCompressed (setB0 (· ||| 0xa0) (i2osp 48 x)) == none &&
        G1.fromCompressedUnchecked 0x80 (i2osp 47 x) == none),
    ("rej on curve, not in subgroup",
      match offSubgroupPt with
      | none => false
      | some p =>
        let enc := G1.toCompressed p
        G1.onCurve p && !G1.inSubgroup p &&
        G1.fromCompressed enc == none &&
        (match enc with
         | b0 :: rest => G1.fromCompressedUnchecked b0 rest == some p
         | [] => false)) ]

/-! ### hash-to-curve -/

def quuxDst : Bytes := Bytes.ofAscii "QUUX-V01-CS02-with-BLS12381G1_XMD:SHA-256_SSWU_RO_"

/-- RFC 9380 App. J.9.1 (BLS12381G1_XMD:SHA-256_SSWU_RO_): msg, P.x, P.y. -/
def rfcVectors : List (String × Nat × Nat) :=
  [ ("",
     0x052926add2207b76ca4fa57a8734416c8dc95e24501772c814278700eed6d1e4e8cf62d9c09db0fac349612b759e79a1,
     0x08ba738453bfed09cb546dbb0783dbb3a5f1f566ed67bb6be0e8c67e2e81a4cc68ee29813bb7994998f3eae0c9c6a265),
    ("abc",
     0x03567bc5ef9c690c2ab2ecdf6a96ef1c139cc0b2f284dca0a9a7943388a49a3aee664ba5379a7655d3c68900be2f6903,
     0x0b9c15f3fe6e5cf4211f346271d7b01c8f3b28be689c8429c85b67af215533311f0b8dfaaa154fa6b88176c229f2885d),
    ("abcdef0123456789",
     0x11e0b079dea29a68f0383ee94fed1b940995272407e3bb916bbf268c263ddd57a6a27200a784cbc248e84f357ce82d98,
     0x03a87ae2caf14e8ee52e51fa2ed8eefe80f02457004ba4d486d6aa1f517c0889501dc7413753f9599b099ebcbbd2d709),
    ("q128_" ++ String.ofList (List.replicate 128 'q'),
     0x15f68eaa693b95ccb85215dc65fa81038d69629f70aeee0d0f677cf22285e7bf58d7cb86eefe8f2e9bc3f8cb84fac488,
     0x1807a1d50c29f430b8cafc4f8638dfeeadf51211e1602a5f184443076715f91bb90a48ba1e370edce6ae1062f5e6dd38),
    ("a512_" ++ String.ofList (List.replicate 512 'a'),
     0x082aabae8b7dedb0e78aeb619ad3bfd9277a2f77ba7fad20ef6aabdc6c31d19ba5a6d12283553294c1825c4b3ca2dcfe,
     0x05b84ae5a942248eea39e1d91030458c40153f3b654ab7872d779ad1e942856a20c438e8d99bc8abfbf74729ce1f7ac8) ]

/-- RFC 9380 App. J.9.1, msg = "": the intermediate values u[0], Q0 (after the isogeny). -/
def rfcU0 : Nat := 0x0ba14bd907ad64a016293ee7c2d276b8eae71f25a4b941eece7b0d89f17f75cb3ae5438a614fb61d6835ad59f29c564f
def rfcQ0x : Nat := 0x11a3cce7e1d90975990066b2f2643b9540fa40d6137780df4e753a8054d07580db3b7f1f03396333d4a359d1fe3766fe
def rfcQ0y : Nat := 0x0eeaf6d794e479e270da10fdaf768db4c96b650a74518fc67b04b03927754bac66f3ac720404f339ecdcc028afa091b7

/-- `create_generators(count, api_id)` of `/repo/src/bbsplus/generators.rs`, compressed-hex output. -/
def createGenerators (expand : Bytes → Bytes → Nat → Option Bytes) (apiId : Bytes) (count : Nat) :
    Option (List String) := do
  let seedDst := apiId ++ Bytes.ofAscii "SIG_GENERATOR_SEED_"
  let genDst := apiId ++ Bytes.ofAscii "SIG_GENERATOR_DST_"
  let genSeed := apiId ++ Bytes.ofAscii "MESSAGE_GENERATOR_SEED"
  let mut v ← expand genSeed seedDst 48
  let mut out : List String := []
  for i in [1:count + 1] do
    v ← expand (v ++ i2osp 8 i) seedDst 48
    let g ← hashToG1 expand v genDst
    out := out ++ [(G1.toCompressed g).toHex]
  return out

/-- `Q1 :: MsgGenerators` of `fixture_data/bls12-381-sha-256/generators.json`. -/
def fixtureSha : List String :=
  [ "a9ec65b70a7fbe40c874c9eb041c2cb0a7af36ccec1bea48fa2ba4c2eb67ef7f9ecb17ed27d38d27cdeddff44c8137be",
    "98cd5313283aaf5db1b3ba8611fe6070d19e605de4078c38df36019fbaad0bd28dd090fd24ed27f7f4d22d5ff5dea7d4",
    "a31fbe20c5c135bcaa8d9fc4e4ac665cc6db0226f35e737507e803044093f37697a9d452490a970eea6f9ad6c3dcaa3a",
    "b479263445f4d2108965a9086f9d1fdc8cde77d14a91c856769521ad3344754cc5ce90d9bc4c696dffbc9ef1d6ad1b62",
    "ac0401766d2128d4791d922557c7b4d1ae9a9b508ce266575244a8d6f32110d7b0b7557b77604869633bb49afbe20035",
    "b95d2898370ebc542857746a316ce32fa5151c31f9b57915e308ee9d1de7db69127d919e984ea0747f5223821b596335",
    "8f19359ae6ee508157492c06765b7df09e2e5ad591115742f2de9c08572bb2845cbf03fd7e23b7f031ed9c7564e52f39",
    "abc914abe2926324b2c848e8a411a2b6df18cbe7758db8644145fefb0bf0a2d558a8c9946bd35e00c69d167aadf304c1",
    "80755b3eb0dd4249cbefd20f177cee88e0761c066b71794825c9997b551f24051c352567ba6c01e57ac75dff763eaa17",
    "82701eb98070728e1769525e73abff1783cedc364adb20c05c897a62f2ab2927f86f118dcb7819a7b218d8f3fee4bd7f",
    "a1f229540474f4d6f1134761b92b788128c7ac8dc9b0c52d59493132679673032ac7db3fb3d79b46b13c1c41ee495bca" ]

/-- `Q1 :: MsgGenerators` of `fixture_data/bls12-381-shake-256/generators.json`. -/
def fixtureShake : List String :=
  [ "a9d40131066399fd41af51d883f4473b0dcd7d028d3d34ef17f3241d204e28507d7ecae032afa1d5490849b7678ec1f8",
    "903c7ca0b7e78a2017d0baf74103bd00ca8ff9bf429f834f071c75ffe6bfdec6d6dca15417e4ac08ca4ae1e78b7adc0e",
    "84321f5855bfb6b001f0dfcb47ac9b5cc68f1a4edd20f0ec850e0563b27d2accee6edff1a26b357762fb24e8ddbb6fcb",
    "b3060dff0d12a32819e08da00e61810676cc9185fdd750e5ef82b1a9798c7d76d63de3b6225d6c9a479d6c21a7c8bf93",
    "8f1093d1e553cdead3c70ce55b6d664e5d1912cc9edfdd37bf1dad11ca396a0a8bb062092d391ebf8790ea5722413f68",
    "990824e00b48a68c3d9a308e8c52a57b1bc84d1cf5d3c0f8c6fb6b1230e4e5b8eb752fb374da0b1ef687040024868140",
    "b86d1c6ab8ce22bc53f625d1ce9796657f18060fcb1893ce8931156ef992fe56856199f8fa6c998e5d855a354a26b0dd",
    "b4cdd98c5c1e64cb324e0c57954f719d5c5f9e8d991fd8e159b31c8d079c76a67321a30311975c706578d3a0ddc313b7",
    "8311492d43ec9182a5fc44a75419b09547e311251fe38b6864dc1e706e29446cb3ea4d501634eb13327245fd8a574f77",
    "ac00b493f92d17837a28d1f5b07991ca5ab9f370ae40d4f9b9f2711749ca200110ce6517dc28400d4ea25dddc146cacc",
    "965a6c62451d4be6cb175dec39727dc665762673ee42bf0ac13a37a74784fbd61e84e0915277a6f59863b2bb4f5f6005" ]

def apiIdSha : Bytes := Bytes.ofAscii "BBS_BLS12381G1_XMD:SHA-256_SSWU_RO_H2G_HM2S_"
def apiIdShake : Bytes := Bytes.ofAscii "BBS_BLS12381G1_XOF:SHAKE-256_SSWU_RO_H2G_HM2S_"

def h2cChecks : List (String × Bool) :=
  -- exceptional inputs of SSWU: u = 0 and u = ±√(−1/Z) (−1 and Z = 11 are both non-squares)
  let uExc := (Fp.sqrt? (Fp.neg (Fp.inv H2C.sswuZ))).getD 0
  let us : List Nat := [0, uExc, Fp.neg uExc, 1, 2, sA, sB, sC, P - 1, rfcU0]
  [ ("isogeny coefficient counts",
      H2C.xNum.length == 12 && H2C.xDen.length == 11 && H2C.yNum.length == 16 && H2C.yDen.length == 16),
    ("sswu lands on E1'", us.all fun u => let (x, y) := H2C.sswu u; H2C.onIsoCurve x y),
    ("sswu sign", us.all fun u => Fp.sgn0 (H2C.sswu u).2 == Fp.sgn0 u),
    ("sswu exceptional u = 0",
      (H2C.sswu 0).1 == Fp.mul H2C.isoB (Fp.inv (Fp.mul H2C.sswuZ H2C.isoA))),
    ("sswu exceptional u = √(−1/Z)",
      uExc != 0 && Fp.add (Fp.mul H2C.sswuZ (Fp.sq uExc)) 1 == 0 &&
      (H2C.sswu uExc).1 == (H2C.sswu 0).1 && (H2C.sswu (Fp.neg uExc)).1 == (H2C.sswu 0).1),
    ("mapToCurve lands on E1", us.all fun u =>
      let p := H2C.mapToCurve u; G1.onCurve p && !p.inf),
    ("clearCofactor lands in G1", us.all fun u => G1.inSubgroup (H2C.clearCofactor (H2C.mapToCurve u))),
    ("RFC J.9.1 Q0 for msg = \"\"", H2C.mapToCurve rfcU0 == ⟨rfcQ0x, rfcQ0y, false⟩),
    ("RFC J.9.1 u[0] for msg = \"\"",
      (H2C.hashToField2 expandXmd [] quuxDst).map (·.1) == some rfcU0),
    ("hashToG1 none on expander failure", hashToG1 (fun _ _ _ => none) [] quuxDst == none),
    ("hashToG1 none on short expander output",
      hashToG1 (fun _ _ _ => some (List.replicate 127 0)) [] quuxDst == none) ]
  ++ rfcVectors.map (fun (m, x, y) =>
      ("RFC J.9.1 msg len " ++ toString m.length,
        hashToG1 expandXmd (Bytes.ofAscii m) quuxDst == some ⟨x, y, false⟩))
  ++ [ ("generators fixture SHA-256 (Q1 + 10)", createGenerators expandXmd apiIdSha 11 == some fixtureSha),
       ("generators fixture SHAKE-256 (Q1 + 10)", createGenerators expandXof apiIdShake 11 == some fixtureShake) ]

end G1Test

/-- Names of the failed checks; `[]` = all pass. -/
def g1SelfTest : List String :=
  (G1Test.groupChecks ++ G1Test.codecChecks ++ G1Test.h2cChecks).filterMap
    fun (n, ok) => if ok then none else some n

#eval g1SelfTest

end Zk
