/-
L0: pairing-product check for BLS12-381. Only the Boolean `∏ e(Pᵢ, Qᵢ) = 1` is observable by the
protocol model, so the construction below is chosen for simplicity, not to mirror the crate's
(projective, tower-based) implementation. Modelled (not verified).

Construction
------------
* Fp12 = Fp[w]/(w¹² − 2w⁶ + 2). This is the usual tower u² = −1, v³ = ξ := 1+u, w² = v flattened:
  w⁶ = ξ, so u = w⁶ − 1 and (w⁶ − 1)² = −1 ⇔ w¹² = 2w⁶ − 2. An Fp2 element c0 + c1·u placed at wⁱ
  (i < 6) is (c0 − c1)·wⁱ + c1·wⁱ⁺⁶.
* Untwist. E' : y² = x³ + 4ξ over Fp2 (the curve of G2) maps to E : y² = x³ + 4 over Fp12 by
  ψ(x', y') = (x'/w², y'/w³):  (y'/w³)² = (x'³ + 4ξ)/w⁶ = (x'/w²)³ + 4  because w⁶ = ξ.
* Ate Miller loop f_{|x|,ψ(Q)}(P), |x| = 0xd201000000010000, by textbook double-and-add with the
  running point `T ∈ E'(Fp2)`. For a step with slope λ' ∈ Fp2 *on E'* through T = (x_T, y_T) the slope
  on E is λ'/w, and the line through ψ(T) evaluated at P = (x_P, y_P) ∈ E(Fp) is
      l = y_P − y_T/w³ − (λ'/w)(x_P − x_T/w²),      l·w³ = y_P·w³ − λ' x_P·w² + (λ' x_T − y_T).
  We multiply `f` by l·w³·(a non-zero element of Fp2) and we drop the vertical lines x_P − x_T/w²:
    - w³ satisfies (w³)² = ξ ∈ Fp2, so w³ ∈ Fp4;  x_P − x_T/w² ∈ Fp6 (w² = v ∈ Fp6);
    - the final exponent (p¹² − 1)/r is a multiple of p² − 1, p⁴ − 1 and p⁶ − 1
      (r divides Φ₁₂(p) = p⁴ − p² + 1, and p¹² − 1 = (p⁶−1)(p²+1)Φ₁₂(p) = (p⁴−1)(p⁴+p²+1)Φ₁₂(p)),
    so every factor lying in a proper subfield Fp2, Fp4 or Fp6 is sent to 1 by the final
    exponentiation.
  `T` is kept in Jacobian coordinates (X, Y, Z) ↦ (X/Z², Y/Z³), so no inversion is needed:
    - doubling: λ' = 3X²/(2YZ), Z₃ = 2YZ; scaling l·w³ by Z₃Z² ∈ Fp2 gives
        (Z₃Z²·y_P)·w³ − (3X²Z²·x_P)·w² + (3X³ − 2Y²);
    - addition of the affine base point Q = (x_Q, y_Q): with H = x_Q Z² − X, r = y_Q Z³ − Y,
      Z₃ = ZH we have λ' = r/Z₃; scaling the line through Q by Z₃ gives
        (Z₃·y_P)·w³ − (r·x_P)·w² + (r·x_Q − Z₃·y_Q).
* Final exponentiation by (p¹² − 1)/r = (p⁶ − 1)(p² + 1)·h with h = (p⁴ − p² + 1)/r. The easy part
  uses the automorphisms φ := Frobenius_{p²} and φ³ = Frobenius_{p⁶} (both are coefficientwise in the
  flat representation, see `frob2`). After it the value g is unitary (g·conj g = 1, so inversion is
  conjugation). For the hard part we use the integer identity (checked in `G2Test`)
      3h = (x − 1)²·(x + p)·(x² + p² − 1) + 3,        x = −|x|,
  and compute g^(3h) with five exponentiations by |x|. Since g^h lies in the group μ_r of r-th roots
  of unity and r is a prime ≠ 3, g^(3h) = (g^h)³ = 1 ⇔ g^h = 1. So `finalExp` returns the *cube* of
  the usual reduced pairing value – still a non-degenerate bilinear pairing, with the same `= 1`
  predicate. `finalExpNaive` is the plain square-and-multiply by (p¹²−1)/r, used as a cross-check.

Why this decides the crate's predicate. BLS12-381 has negative parameter x = −|x|. The crate computes
f_{|x|,Q}(P) (with lines scaled by Fp2 factors, which the final exponentiation kills), conjugates, and
raises to (p¹²−1)/r; after the easy part conjugation is inversion, so crate_e(P,Q)⁻³ = ours(P,Q) for
every pair, hence ∏ ours(Pᵢ,Qᵢ) = (∏ crate_e(Pᵢ,Qᵢ))⁻³ and one product is 1 iff the other is. (More
generally f_{T,Q}(P)^((p¹²−1)/r) with T ≡ p (mod r) is the ate pairing, bilinear and non-degenerate on
G1 × G2.) Pairs containing an identity are skipped, as in the crate's `multi_miller_loop`.

Precondition for meaningfulness (not for totality): finite inputs lie in G1 resp. G2. Then, since
|x| < r, the running point T = [k]Q (1 ≤ k < |x|) is never O, and T ≠ ±Q at an addition step, so the
scaling factors Z₃ above are never zero. (For other inputs the functions still terminate and return
some value.)
-/
import ZkModel.L0.G2
namespace Zk

/-- Fp[w]/(w¹² − 2w⁶ + 2): 12 coefficients `< P`, index i ↦ coefficient of wⁱ. -/
abbrev Fp12 := Array Nat

namespace Fp12

def zero : Fp12 := #[0, 0, 0, 0, 0, 0, 0, 0, 0, 0, 0, 0]
def one : Fp12 := #[1, 0, 0, 0, 0, 0, 0, 0, 0, 0, 0, 0]

@[inline] def coeff (a : Fp12) (i : Nat) : Nat := a.getD i 0

/-- Reduce a polynomial of degree ≤ 22 with arbitrary natural coefficients modulo
`w¹² − 2w⁶ + 2` and `P`: for k = 22 … 12, `c_k·wᵏ = 2c_k·wᵏ⁻⁶ − 2c_k·wᵏ⁻¹²`. -/
def reduce (c : Array Nat) : Fp12 := Id.run do
  let mut c := c
  for i in [0:11] do
    let k := 22 - i
    let h := c.getD k 0 % P
    if h != 0 then
      c := c.modify (k - 6) (· + 2 * h)
      c := c.modify (k - 12) (· + 2 * (P - h))
  let mut out : Array Nat := Array.mkEmpty 12
  for i in [0:12] do
    out := out.push (c.getD i 0 % P)
  return out

/-- Schoolbook product with lazy reduction; zero coefficients of `b` are skipped, which makes
multiplication by the sparse line values cheap. -/
def mul (a b : Fp12) : Fp12 := Id.run do
  let mut c : Array Nat := Array.replicate 23 0
  for j in [0:12] do
    let bj := b.getD j 0
    if bj != 0 then
      for i in [0:12] do
        c := c.modify (i + j) (· + a.getD i 0 * bj)
  return reduce c

/-- Squaring: `Σ aᵢ² w²ⁱ + 2 Σ_{i<j} aᵢaⱼ wⁱ⁺ʲ`. -/
def sq (a : Fp12) : Fp12 := Id.run do
  let mut c : Array Nat := Array.replicate 23 0
  for i in [0:12] do
    let ai := a.getD i 0
    if ai != 0 then
      c := c.modify (i + i) (· + ai * ai)
      let ai2 := 2 * ai
      for j in [i + 1:12] do
        c := c.modify (i + j) (· + ai2 * a.getD j 0)
  return reduce c

/-- ζ = ξ^((p²−1)/6) = N(ξ)^((p−1)/6) = 2^((p−1)/6) mod p, a primitive 6th root of unity in Fp
(value checked in `G2Test`). -/
def zeta : Nat := 0x5f19672fdf76ce51ba69c6076a0f77eaddb3a93be6f89688de17d813620a00022e01fffffffeffff

/-- `[ζ⁰, …, ζ⁵]`. -/
def zetaPows : Array Nat := Id.run do
  let mut out : Array Nat := #[1]
  let mut z := 1
  for _ in [0:5] do
    z := z * zeta % P
    out := out.push z
  return out

/-- φᵏ where φ = Frobenius_{p²}: it fixes Fp (the coefficients) and maps w ↦ w^(p²) = w·ξ^((p²−1)/6)
= ζ·w, hence `aⱼ ↦ aⱼ·ζ^(jk)`. φ has order 6 and fixed field Fp2 = {a₀ + a₆w⁶}. -/
def frob2 (k : Nat) (a : Fp12) : Fp12 := Id.run do
  let mut out : Array Nat := Array.mkEmpty 12
  for j in [0:12] do
    out := out.push (a.getD j 0 * zetaPows.getD (j * k % 6) 1 % P)
  return out

/-- Conjugation over Fp6, = φ³ = Frobenius_{p⁶}: w ↦ −w. -/
def conj (a : Fp12) : Fp12 := Id.run do
  let mut out : Array Nat := Array.mkEmpty 12
  for j in [0:12] do
    let x := a.getD j 0
    out := out.push (if j % 2 == 1 then Fp.neg x else x)
  return out

/-- Embed the Fp2 element `c` as the coefficient of wⁱ (i < 6) into accumulator `a`. -/
def addFp2At (a : Fp12) (i : Nat) (c : Fp2) : Fp12 :=
  (a.modify i (fun x => Fp.add x (Fp.sub c.c0 c.c1))).modify (i + 6) (fun x => Fp.add x c.c1)

/-- The Fp2 coefficient of wⁱ (i < 6) in the basis 1, w, …, w⁵ of Fp12 over Fp2:
`aᵢ wⁱ + aᵢ₊₆ wⁱ⁺⁶ = ((aᵢ + aᵢ₊₆) + aᵢ₊₆·u)·wⁱ`. -/
def fp2At (a : Fp12) (i : Nat) : Fp2 := ⟨Fp.add (a.coeff i) (a.coeff (i + 6)), a.coeff (i + 6)⟩

/-- `γᵢ = ξ^(i(p−1)/6) ∈ Fp2` for i < 6, so that `(wⁱ)^p = wⁱ·(w⁶)^(i(p−1)/6) = γᵢ·wⁱ`. -/
def gammas : Array Fp2 := Id.run do
  let g1 := Fp2.pow ⟨1, 1⟩ ((P - 1) / 6)
  let mut out : Array Fp2 := #[Fp2.one]
  let mut g := Fp2.one
  for _ in [0:5] do
    g := Fp2.mul g g1
    out := out.push g
  return out

/-- Frobenius `a ↦ a^p`: for `a = Σ_{i<6} cᵢ wⁱ` with cᵢ ∈ Fp2, `a^p = Σ conj(cᵢ)·γᵢ·wⁱ`. -/
def frob (a : Fp12) : Fp12 := Id.run do
  let mut out := zero
  for i in [0:6] do
    out := addFp2At out i (Fp2.mul (Fp2.conj (fp2At a i)) (gammas.getD i Fp2.one))
  return out

/--
Inverse through the norm to Fp2 along the cyclic group ⟨φ⟩ of order 6 (0 ↦ 0):
`t = g·φ³(g)`, `m = φ(t)·φ²(t)`, so `t·m = ∏_{i<6} φⁱ(g) = N ∈ Fp2` and
`g⁻¹ = φ³(g)·m·N⁻¹`. One Fp inversion, 5 multiplications.
-/
def inv (g : Fp12) : Fp12 :=
  let gc := conj g
  let t := mul g gc
  let m := mul (frob2 1 t) (frob2 2 t)
  let n := mul t m
  -- n = a₀ + a₆ w⁶ = (a₀ + a₆) + a₆ u
  let nInv := Fp2.inv (fp2At n 0)
  mul (mul gc m) (addFp2At zero 0 nInv)

/-- Square-and-multiply. -/
def pow (a : Fp12) (e : Nat) : Fp12 :=
  (G2.bitsMSB e).foldl (fun acc bit => let s := sq acc; if bit then mul s a else s) one

end Fp12

namespace Pairing

/-- |x| for BLS12-381 (x = −0xd201000000010000). -/
def absX : Nat := 0xd201000000010000

/-- Hard part exponent h = (p⁴ − p² + 1)/r. -/
def hardExp : Nat := (P ^ 4 - P ^ 2 + 1) / R

/-- State of one Miller-loop term: G1 point (x_P, y_P), affine base point Q and running point T
(Jacobian) on E'. -/
structure Term where
  xP : Nat
  yP : Nat
  xQ : Fp2
  yQ : Fp2
  T : G2.Jac

/-- The sparse element `(cy·y_P)·w³ − (cx·x_P)·w² + c0` (cy, cx, c0 ∈ Fp2). -/
def lineValue (t : Term) (cy cx c0 : Fp2) : Fp12 :=
  Fp12.addFp2At (Fp12.addFp2At (Fp12.addFp2At Fp12.zero 0 c0) 2 (Fp2.neg (Fp2.smul t.xP cx))) 3
    (Fp2.smul t.yP cy)

/-- Tangent step: the (scaled) line value and the term with T ← 2T (see the header). -/
def dblStep (t : Term) : Fp12 × Term :=
  let X := t.T.X; let Y := t.T.Y; let Z := t.T.Z
  let t2 := G2.Jac.dbl t.T                      -- Z₃ = 2YZ
  let xx := Fp2.sq X
  let zz := Fp2.sq Z
  let e := Fp2.smul 3 xx                        -- 3X²
  let c0 := Fp2.sub (Fp2.mul e X) (Fp2.dbl (Fp2.sq Y))   -- 3X³ − 2Y²
  (lineValue t (Fp2.mul t2.Z zz) (Fp2.mul e zz) c0, { t with T := t2 })

/-- Chord step: the (scaled) line value and the term with T ← T + Q (see the header). -/
def addStep (t : Term) : Fp12 × Term :=
  let X := t.T.X; let Y := t.T.Y; let Z := t.T.Z
  let zz := Fp2.sq Z
  let h := Fp2.sub (Fp2.mul t.xQ zz) X
  let r := Fp2.sub (Fp2.mul t.yQ (Fp2.mul Z zz)) Y
  let hh := Fp2.sq h
  let hhh := Fp2.mul h hh
  let v := Fp2.mul X hh
  let x3 := Fp2.sub (Fp2.sub (Fp2.sq r) hhh) (Fp2.dbl v)
  let y3 := Fp2.sub (Fp2.mul r (Fp2.sub v x3)) (Fp2.mul Y hhh)
  let z3 := Fp2.mul Z h
  let c0 := Fp2.sub (Fp2.mul r t.xQ) (Fp2.mul z3 t.yQ)
  (lineValue t z3 r c0, { t with T := ⟨x3, y3, z3⟩ })

/-- Apply one step to all terms, multiplying the line values into `f`. -/
def stepAll (step : Term → Fp12 × Term) (f : Fp12) (ts : List Term) : Fp12 × List Term :=
  ts.foldr (fun t (f, acc) => let (l, t') := step t; (Fp12.mul f l, t' :: acc)) (f, [])

/-- `∏ᵢ f_{|x|,ψ(Qᵢ)}(Pᵢ)` up to factors in proper subfields; pairs with an identity are skipped. -/
def millerLoop (pairs : List (G1Pt × G2Pt)) : Fp12 :=
  let ts : List Term := pairs.filterMap fun (p, q) =>
    if p.inf || q.inf then none else some ⟨p.x, p.y, q.x, q.y, ⟨q.x, q.y, Fp2.one⟩⟩
  let bits := (G2.bitsMSB absX).drop 1
  let (f, _) := bits.foldl (fun (f, ts) bit =>
      let (f, ts) := stepAll dblStep (Fp12.sq f) ts
      if bit then stepAll addStep f ts else (f, ts)) (Fp12.one, ts)
  f

/-- `f ↦ f^((p⁶−1)(p²+1))`. -/
def finalExpEasy (f : Fp12) : Fp12 :=
  let f1 := Fp12.mul (Fp12.conj f) (Fp12.inv f)
  Fp12.mul (Fp12.frob2 1 f1) f1

/-- `g ↦ g^|x|`. -/
def powAbsX (g : Fp12) : Fp12 := Fp12.pow g absX

/-- `g ↦ g^x` for unitary `g` (x = −|x|, inversion = conjugation). -/
def powX (g : Fp12) : Fp12 := Fp12.conj (powAbsX g)

/-- `g ↦ g^(3h)` for unitary `g`, via `3h = (x−1)²(x+p)(x²+p²−1) + 3`. -/
def finalExpHard3 (g : Fp12) : Fp12 :=
  let t0 := Fp12.conj (Fp12.mul (powAbsX g) g)      -- g^(x−1) = (g^(|x|+1))⁻¹
  let t1 := Fp12.conj (Fp12.mul (powAbsX t0) t0)    -- g^((x−1)²)
  let t2 := Fp12.mul (powX t1) (Fp12.frob t1)       -- t1^(x+p)
  let t3 := Fp12.mul (Fp12.mul (powX (powX t2)) (Fp12.frob2 1 t2)) (Fp12.conj t2)  -- t2^(x²+p²−1)
  Fp12.mul t3 (Fp12.mul (Fp12.sq g) g)

/-- `f ↦ f^(3(p¹²−1)/r)`. -/
def finalExp (f : Fp12) : Fp12 := finalExpHard3 (finalExpEasy f)

/-- `f ↦ f^((p¹²−1)/r)` by plain square-and-multiply (cross-check only). -/
def finalExpNaive (f : Fp12) : Fp12 := Fp12.pow f ((P ^ 12 - 1) / R)

/-- Reduced pairing value (`pairing(p, q)⁻³` in terms of the crate's, see the header). -/
def reduced (p : G1Pt) (q : G2Pt) : Fp12 := finalExp (millerLoop [(p, q)])

end Pairing

/-- Decide `∏ e(Pᵢ, Qᵢ) = 1` in GT (crate: `multi_miller_loop(..).final_exponentiation() ==
Gt::IDENTITY`). Pairs containing a point at infinity contribute 1. -/
def pairingProductIsOne (pairs : List (G1Pt × G2Pt)) : Bool :=
  Pairing.finalExp (Pairing.millerLoop pairs) == Fp12.one

end Zk
