/-
L0: Keccak-f[1600] and SHAKE256 (FIPS 202), written from the standard.

Executable and total: no `partial`, no `unsafe`. The state is an `Array UInt64` of 25 lanes,
lane `(x, y)` stored at index `x + 5*y` (FIPS 202 §3.1.2, with bytes of a lane little-endian,
Appendix B.1).
-/
import ZkModel.L0.Bytes

namespace Zk
namespace Keccak

/-- FIPS 202 §3.2.5 (ι): round constants for Keccak-f[1600]. -/
def RC : Array UInt64 := #[
  0x0000000000000001, 0x0000000000008082, 0x800000000000808A, 0x8000000080008000,
  0x000000000000808B, 0x0000000080000001, 0x8000000080008081, 0x8000000000008009,
  0x000000000000008A, 0x0000000000000088, 0x0000000080008009, 0x000000008000000A,
  0x000000008000808B, 0x800000000000008B, 0x8000000000008089, 0x8000000000008003,
  0x8000000000008002, 0x8000000000000080, 0x000000000000800A, 0x800000008000000A,
  0x8000000080008081, 0x8000000000008080, 0x0000000080000001, 0x8000000080008008]

/-- FIPS 202 §3.2.2 (ρ): rotation offsets mod 64, entry `x + 5*y` is the offset of lane `(x,y)`. -/
def rho : Array UInt64 := #[
   0,  1, 62, 28, 27,
  36, 44,  6, 55, 20,
   3, 10, 43, 25, 39,
  41, 45, 15, 21,  8,
  18,  2, 61, 56, 14]

/-- Rotate left by `n` bits, `0 ≤ n < 64`. -/
@[inline] def rotl (x : UInt64) (n : UInt64) : UInt64 :=
  if n = 0 then x else (x <<< n) ||| (x >>> (64 - n))

/-- One round `Rnd(A, i) = ι(χ(π(ρ(θ(A)))), i)` (FIPS 202 §3.3). -/
def round (a : Array UInt64) (rc : UInt64) : Array UInt64 := Id.run do
  -- θ
  let mut c : Array UInt64 := Array.mkEmpty 5
  for x in [0:5] do
    c := c.push (a[x]! ^^^ a[x+5]! ^^^ a[x+10]! ^^^ a[x+15]! ^^^ a[x+20]!)
  let mut d : Array UInt64 := Array.mkEmpty 5
  for x in [0:5] do
    d := d.push (c[(x+4) % 5]! ^^^ rotl c[(x+1) % 5]! 1)
  -- ρ and π: B[y, 2x+3y] = rot(A[x,y] ⊕ D[x], r[x,y])
  let mut b : Array UInt64 := Array.replicate 25 0
  for y in [0:5] do
    for x in [0:5] do
      let i := x + 5 * y
      b := b.set! (y + 5 * ((2 * x + 3 * y) % 5)) (rotl (a[i]! ^^^ d[x]!) rho[i]!)
  -- χ
  let mut r : Array UInt64 := Array.mkEmpty 25
  for y in [0:5] do
    for x in [0:5] do
      r := r.push (b[x + 5*y]! ^^^ ((~~~ b[(x+1) % 5 + 5*y]!) &&& b[(x+2) % 5 + 5*y]!))
  -- ι
  return r.set! 0 (r[0]! ^^^ rc)

/-- Keccak-f[1600] = Keccak-p[1600, 24] on a 25-lane state. -/
def f1600 (a : Array UInt64) : Array UInt64 := Id.run do
  let mut s := a
  for i in [0:24] do
    s := round s RC[i]!
  return s

/-- Little-endian 64-bit lane from the 8 bytes of `p` starting at `off`. -/
def le64 (p : Array UInt8) (off : Nat) : UInt64 := Id.run do
  let mut v : UInt64 := 0
  for j in [0:8] do
    v := v ||| (p[off + j]!.toUInt64 <<< (UInt64.ofNat (8 * j)))
  return v

/-- pad10*1 with a domain-suffix byte (FIPS 202 §5.1, byte-aligned form of Appendix B.2):
`m ‖ suffix ‖ 0* ‖ 0x80`, the last two merged when only one byte of padding is needed.
The result length is a positive multiple of `rate`. -/
def pad (rate : Nat) (suffix : UInt8) (m : Bytes) : Array UInt8 := Id.run do
  let n := m.length
  let q := rate - n % rate
  let mut a : Array UInt8 := Array.mkEmpty (n + q)
  for x in m do
    a := a.push x
  if q = 1 then
    a := a.push (suffix ||| 0x80)
  else
    a := a.push suffix
    for _ in [0:q - 2] do
      a := a.push 0
    a := a.push 0x80
  return a

/-- Sponge absorb phase (FIPS 202 §4, Algorithm 8 steps 1–6) for a byte rate that is a multiple
of 8: XOR each `rate`-byte block into the first `rate/8` lanes and permute. -/
def absorb (rate : Nat) (p : Array UInt8) : Array UInt64 := Id.run do
  let mut s : Array UInt64 := Array.replicate 25 0
  for blk in [0:p.size / rate] do
    for i in [0:rate / 8] do
      s := s.set! i (s[i]! ^^^ le64 p (rate * blk + 8 * i))
    s := f1600 s
  return s

/-- Sponge squeeze phase (Algorithm 8 steps 7–10): `outLen` bytes, permuting between
`rate`-byte output blocks. -/
def squeeze (rate : Nat) (s0 : Array UInt64) (outLen : Nat) : Bytes := Id.run do
  let nblocks := (outLen + rate - 1) / rate
  let mut s := s0
  let mut out : Array UInt8 := Array.mkEmpty (nblocks * rate)
  for blk in [0:nblocks] do
    if blk ≠ 0 then
      s := f1600 s
    for i in [0:rate / 8] do
      let lane := s[i]!
      for j in [0:8] do
        out := out.push (lane >>> (UInt64.ofNat (8 * j))).toUInt8
  return (out.extract 0 outLen).toList

end Keccak

/-- SHAKE256(m, 8·outLen) (FIPS 202 §6.2): Keccak[512] with rate 136 bytes and domain suffix
`1111` (byte `0x1F` once merged with the first padding bit). The output has exactly `outLen`
bytes. -/
def shake256 (m : Bytes) (outLen : Nat) : Bytes :=
  Keccak.squeeze 136 (Keccak.absorb 136 (Keccak.pad 136 0x1F m)) outLen

end Zk
