/-
L0: `expand_message_xmd` (SHA-256) and `expand_message_xof` (SHAKE-256), RFC 9380 §5.3,
mirroring the Rust crate `elliptic-curve 0.13.8`
(`src/hash2curve/hash2field/expand_msg.rs`, `expand_msg/xmd.rs`, `expand_msg/xof.rs`)
as instantiated by zkryptium: `ExpandMsgXmd<Sha256>` and `ExpandMsgXof<Shake256>`.

Interface difference. The crate takes `msgs: &[&[u8]]` and `dsts: &[&[u8]]` and feeds the pieces
to the hash one after the other, i.e. it hashes the concatenations; the model takes the
already-concatenated `msg` and `dst`. The crate returns an `Expander` from which the caller
reads with `fill_bytes(okm)`; the model returns the first `len` bytes, which is what
`fill_bytes` yields for a buffer of `len_in_bytes` bytes (every call site in zkryptium uses a
buffer of exactly that length). Not modelled: `ExpanderXmd::fill_bytes` on a buffer longer than
`32·ell` silently stops and leaves the tail untouched; `ExpandMsgXof::fill_bytes` on a longer
buffer just keeps squeezing.

Error conditions (model returns `none` exactly where the crate returns `Err(Error)`):

* (E1) `len_in_bytes == 0`                      — xmd.rs and xof.rs, first statement of
                                                  `expand_message`.
* (E2) `len_in_bytes > 65535`                   — xmd.rs / xof.rs: `u16::try_from(len_in_bytes)`.
* (E3) `ell = ceil(len / 32) > 255`, XMD only   — xmd.rs: `u8::try_from((len + b - 1) / b)`;
                                                  i.e. `len > 8160`. There is no such bound in
                                                  xof.rs.
* (E4) `dsts.is_empty()`                        — expand_msg.rs `Domain::xmd` / `Domain::xof`.
  This tests the *number of slices*, not the total DST length: `dsts = &[b""]` is accepted and
  yields `DST_prime = [0x00]` (although the doc comment in xof.rs says "`dst.is_empty()`" and
  RFC 9380 §3.1 recommends a non-empty DST). Every zkryptium call site passes a one-element
  `dsts`, so (E4) is unreachable there and the model, which only sees the concatenation, does
  not have it: an empty `dst` is accepted, as in the crate with `&[b""]`.

The order of the checks in the crate is E1, E2, E3, E4; since they all give the same `Error`
the order is unobservable.

Oversize DST (expand_msg.rs, `MAX_DST_LEN = 255`, `OVERSIZE_DST_SALT = "H2C-OVERSIZE-DST-"`):
if the total DST length is `> 255` the DST is replaced by
* XMD: `SHA-256(salt ‖ dst)` (32 bytes; `Domain::Hashed`, `len() = 32`);
* XOF: the first 32 bytes of `SHAKE256(salt ‖ dst)`: `Domain::<U32>::xof` in xof.rs fixes the
  length to 32 = ceil(2k/8) with k = 128 *independently of the XOF* (RFC 9380 §5.3.3; it
  coincides with the k = 128 of the BLS12381G1_XOF:SHAKE-256 suite, but not with the k = 256
  the RFC uses for its own SHAKE256 test vectors, which however have no long-DST variant).
No error is raised for an oversize DST at this layer (zkryptium's `hash_to_scalar` rejects
`dst.len() > 255` itself, before calling the expander).
-/
import ZkModel.L0.Bytes
import ZkModel.L0.Sha256
import ZkModel.L0.Keccak

namespace Zk
namespace Expand

/-- expand_msg.rs: `OVERSIZE_DST_SALT`. -/
def oversizeDstSalt : Bytes := Bytes.ofAscii "H2C-OVERSIZE-DST-"

/-- expand_msg.rs: `MAX_DST_LEN`. -/
def maxDstLen : Nat := 255

/-- `Domain::xmd::<Sha256>` followed by `update_hash` + `[len()]`: the string `DST_prime`. -/
def dstPrimeXmd (dst : Bytes) : Bytes :=
  let d := if dst.length > maxDstLen then sha256 (oversizeDstSalt ++ dst) else dst
  d ++ [UInt8.ofNat d.length]

/-- `Domain::<U32>::xof::<Shake256>` followed by `update_hash` + `[len()]`. -/
def dstPrimeXof (dst : Bytes) : Bytes :=
  let d := if dst.length > maxDstLen then shake256 (oversizeDstSalt ++ dst) 32 else dst
  d ++ [UInt8.ofNat d.length]

/-- Bytewise XOR (of equal-length strings). -/
def xor (a b : Bytes) : Bytes := List.zipWith (· ^^^ ·) a b

/-- `xmdBlocks b0 dp n i prev = b_i ‖ b_{i+1} ‖ … ‖ b_{i+n-1}` where
`b_j = H(strxor(b_0, b_{j-1}) ‖ I2OSP(j, 1) ‖ DST_prime)` and `prev = b_{i-1}`
(RFC 9380 §5.3.1 step 9; `ExpanderXmd::next`). -/
def xmdBlocks (b0 dstPrime : Bytes) : Nat → Nat → Bytes → Bytes
  | 0, _, _ => []
  | n + 1, i, prev =>
    let bi := sha256 (xor b0 prev ++ [UInt8.ofNat i] ++ dstPrime)
    bi ++ xmdBlocks b0 dstPrime n (i + 1) bi

end Expand

open Expand in
/-- `ExpandMsgXmd::<Sha256>::expand_message(&[msg], &[dst], len)` then `fill_bytes` on a
`len`-byte buffer. `none` iff the crate returns `Err` — (E1), (E2), (E3) in the file header. -/
def expandXmd (msg dst : Bytes) (len : Nat) : Option Bytes :=
  if len = 0 then none                      -- (E1)
  else if len > 65535 then none             -- (E2)
  else
    let ell := (len + 31) / 32
    if ell > 255 then none                  -- (E3)
    else
      let dp := dstPrimeXmd dst
      -- b_0 = H(Z_pad ‖ msg ‖ l_i_b_str ‖ I2OSP(0, 1) ‖ DST_prime), Z_pad = 64 zero bytes
      let b0 := sha256 (List.replicate 64 0 ++ msg ++ i2osp 2 len ++ [0] ++ dp)
      -- b_1 = H(b_0 ‖ I2OSP(1, 1) ‖ DST_prime)
      let b1 := sha256 (b0 ++ [1] ++ dp)
      some ((b1 ++ xmdBlocks b0 dp (ell - 1) 2 b1).take len)

open Expand in
/-- `ExpandMsgXof::<Shake256>::expand_message(&[msg], &[dst], len)` then `fill_bytes` on a
`len`-byte buffer. `none` iff the crate returns `Err` — (E1), (E2) in the file header. -/
def expandXof (msg dst : Bytes) (len : Nat) : Option Bytes :=
  if len = 0 then none                      -- (E1)
  else if len > 65535 then none             -- (E2)
  else
    -- msg_prime = msg ‖ I2OSP(len, 2) ‖ DST_prime
    some (shake256 (msg ++ i2osp 2 len ++ dstPrimeXof dst) len)

end Zk
