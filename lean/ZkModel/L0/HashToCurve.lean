/-
L0: RFC 9380 hash_to_curve for the suites BLS12381G1_XMD:SHA-256_SSWU_RO_ and
BLS12381G1_XOF:SHAKE-256_SSWU_RO_ (RFC 9380 §8.8.1), parameterised by `expand_message`.

Mirrors `G1Projective::hash::<X>(msg, dst)` of crate `bls12_381_plus` 0.8.18 (`src/g1.rs`):
  u = Fp::hash::<X>(msg, dst)                      -- hash_to_field, count = 2, L = 64, m = 1
  (u[0].map_to_curve() + u[1].map_to_curve())      -- each = SSWU onto E1' followed by the 11-isogeny
    .clear_cofactor()                              -- P − [z]P = [1 − z]P = [h_eff]P, z = −0xd201000000010000
The crate applies the isogeny to each point and then adds on E1 (as RFC 9380 §3 / §6.6.3 specify).
The crate's SSWU (`impl OsswuMap for Fp`, `fp.rs`) is the optimised straight-line variant of
RFC 9380 App. F.2 with `sqrt_ratio` for p ≡ 3 (mod 4); here the plain §6.6.2 description is used,
which computes the same function (the sign of `y` is fixed by `sgn0`, so the choice of root is
immaterial).

Constants: A', B', Z and the isogeny coefficients were extracted from the crate
(`fp.rs` `OsswuMapParams`, `isogeny.rs` `g1::{XNUM,XDEN,YNUM,YDEN}`), where they are stored as
little-endian u64 limbs in Montgomery form; each was multiplied by 2^-384 mod p. They coincide
with RFC 9380 §8.8.1 / App. E.2.
Modelled, not verified. Core Lean only; all functions total.
-/
import ZkModel.L0.G1
namespace Zk

namespace H2C

/-! ### The 11-isogenous curve E1' : y² = x³ + A'·x + B' and the SSWU parameter Z -/

def isoA : Nat := 0x144698a3b8e9433d693a02c96d4982b0ea985383ee66a8d8e8981aefd881ac98936f8da0e0f97f5cf428082d584c1d
def isoB : Nat := 0x12e2908d11688030018b12e8753eee3b2016c1f0f24f4070a0b9c14fcef35ef55a23215a316ceaa5d1cc48e98e172be0
def sswuZ : Nat := 11

/-- `h_eff` for G1 (RFC 9380 §8.8.1) `= 1 − z`, `z = −0xd201000000010000` the BLS parameter. -/
def hEff : Nat := 0xd201000000010001

/-- `g'(x) = x³ + A'·x + B'`. -/
def isoRhs (x : Nat) : Nat := Fp.add (Fp.add (Fp.mul (Fp.sq x) x) (Fp.mul isoA x)) isoB

/-- Is the affine pair on E1'? (used by the self-test) -/
def onIsoCurve (x y : Nat) : Bool := Fp.sq y == isoRhs x

/-! ### Simplified SWU for AB ≠ 0 (RFC 9380 §6.6.2) onto E1' -/

/-- The abscissa candidate `x1` of SSWU from `tv1 = inv0(Z²u⁴ + Zu²)`. -/
def sswuX1 (tv1 : Nat) : Nat :=
  if tv1 == 0 then Fp.mul isoB (Fp.inv (Fp.mul sswuZ isoA))
  else Fp.mul (Fp.mul (Fp.neg isoB) (Fp.inv isoA)) (Fp.add 1 tv1)

/-- The point selection of SSWU given the result `r` of `sqrt(g'(x1))`: `(x1, √g'(x1))` if it exists, else
`(x2, g'(x2)^((p+1)/4))` with `x2 = Z·u²·x1`. (A separate function of `r` so that proofs can case on `r` without
the kernel having to normalise the square-root computation on an open term.) -/
def sswuSelect (zu2 x1 : Nat) (r : Option Nat) : Nat × Nat :=
  match r with
  | some y1 => (x1, y1)
  | none =>
    let x2 := Fp.mul zu2 x1
    (x2, Fp.pow (isoRhs x2) ((P + 1) / 4))

/-- The final sign adjustment `sgn0(y) = sgn0(u)`. -/
def sswuSign (u : Nat) (xy : Nat × Nat) : Nat × Nat :=
  (xy.1, if Fp.sgn0 u != Fp.sgn0 xy.2 then Fp.neg xy.2 else xy.2)

/-- `map_to_curve_simple_swu(u)`, returning affine `(x', y')` on E1'.
Exceptional case: `Z²u⁴ + Zu² = 0` (i.e. `tv1 = inv0(..) = 0`; happens for `u = 0` and for
`Z·u² = −1`) ⇒ `x1 = B' / (Z·A')`. `Fp.inv 0 = 0` is exactly `inv0`.
If `g'(x1)` is a square then `(x1, √g'(x1))` else `(x2, √g'(x2))` with `x2 = Z·u²·x1` (then
`g'(x2)` is a square because `Z` is a non-square). Finally `sgn0(y) = sgn0(u)`. -/
def sswu (u : Nat) : Nat × Nat :=
  let u := u % P
  let zu2 := Fp.mul sswuZ (Fp.sq u)
  let x1 := sswuX1 (Fp.inv (Fp.add (Fp.sq zu2) zu2))
  sswuSign u (sswuSelect zu2 x1 (Fp.sqrt? (isoRhs x1)))

/-! ### The 11-isogeny E1' → E1 (RFC 9380 App. E.2). Coefficient lists are low degree first. -/

/-- `k_(1,i)`, `i = 0..11`: numerator of the x map (crate `isogeny::g1::XNUM`). -/
def xNum : List Nat := [
  0x11a05f2b1e833340b809101dd99815856b303e88a2d7005ff2627b56cdb4e2c85610c2d5f2e62d6eaeac1662734649b7,
  0x17294ed3e943ab2f0588bab22147a81c7c17e75b2f6a8417f565e33c70d1e86b4838f2a6f318c356e834eef1b3cb83bb,
  0x0d54005db97678ec1d1048c5d10a9a1bce032473295983e56878e501ec68e25c958c3e3d2a09729fe0179f9dac9edcb0,
  0x1778e7166fcc6db74e0609d307e55412d7f5e4656a8dbf25f1b33289f1b330835336e25ce3107193c5b388641d9b6861,
  0x0e99726a3199f4436642b4b3e4118e5499db995a1257fb3f086eeb65982fac18985a286f301e77c451154ce9ac8895d9,
  0x1630c3250d7313ff01d1201bf7a74ab5db3cb17dd952799b9ed3ab9097e68f90a0870d2dcae73d19cd13c1c66f652983,
  0x0d6ed6553fe44d296a3726c38ae652bfb11586264f0f8ce19008e218f9c86b2a8da25128c1052ecaddd7f225a139ed84,
  0x17b81e7701abdbe2e8743884d1117e53356de5ab275b4db1a682c62ef0f2753339b7c8f8c8f475af9ccb5618e3f0c88e,
  0x080d3cf1f9a78fc47b90b33563be990dc43b756ce79f5574a2c596c928c5d1de4fa295f296b74e956d71986a8497e317,
  0x169b1f8e1bcfa7c42e0c37515d138f22dd2ecb803a0c5c99676314baf4bb1b7fa3190b2edc0327797f241067be390c9e,
  0x10321da079ce07e272d8ec09d2565b0dfa7dccdde6787f96d50af36003b14866f69b771f8c285decca67df3f1605fb7b,
  0x06e08c248e260e70bd1e962381edee3d31d79d7e22c837bc23c0bf1bc24c6b68c24b1b80b64d391fa9c8ba2e8ba2d229]

/-- `k_(2,i)`, `i = 0..9`, then the monic leading coefficient 1 (crate `XDEN`). -/
def xDen : List Nat := [
  0x08ca8d548cff19ae18b2e62f4bd3fa6f01d5ef4ba35b48ba9c9588617fc8ac62b558d681be343df8993cf9fa40d21b1c,
  0x12561a5deb559c4348b4711298e536367041e8ca0cf0800c0126c2588c48bf5713daa8846cb026e9e5c8276ec82b3bff,
  0x0b2962fe57a3225e8137e629bff2991f6f89416f5a718cd1fca64e00b11aceacd6a3d0967c94fedcfcc239ba5cb83e19,
  0x03425581a58ae2fec83aafef7c40eb545b08243f16b1655154cca8abc28d6fd04976d5243eecf5c4130de8938dc62cd8,
  0x13a8e162022914a80a6f1d5f43e7a07dffdfc759a12062bb8d6b44e833b306da9bd29ba81f35781d539d395b3532a21e,
  0x0e7355f8e4e667b955390f7f0506c6e9395735e9ce9cad4d0a43bcef24b8982f7400d24bc4228f11c02df9a29f6304a5,
  0x0772caacf16936190f3e0c63e0596721570f5799af53a1894e2e073062aede9cea73b3538f0de06cec2574496ee84a3a,
  0x14a7ac2a9d64a8b230b3f5b074cf01996e7f63c21bca68a81996e1cdf9822c580fa5b9489d11e2d311f7d99bbdcc5a5e,
  0x0a10ecf6ada54f825e920b3dafc7a3cce07f8d1d7161366b74100da67f39883503826692abba43704776ec3a79a1d641,
  0x095fc13ab9e92ad4476d6e3eb3a56680f682b4ee96f7d03776df533978f31c1593174e4b4b7865002d6384d168ecdd0a,
  0x000000000000000000000000000000000000000000000000000000000000000000000000000000000000000000000001]

/-- `k_(3,i)`, `i = 0..15` (crate `YNUM`). -/
def yNum : List Nat := [
  0x090d97c81ba24ee0259d1f094980dcfa11ad138e48a869522b52af6c956543d3cd0c7aee9b3ba3c2be9845719707bb33,
  0x134996a104ee5811d51036d776fb46831223e96c254f383d0f906343eb67ad34d6c56711962fa8bfe097e75a2e41c696,
  0x00cc786baa966e66f4a384c86a3b49942552e2d658a31ce2c344be4b91400da7d26d521628b00523b8dfe240c72de1f6,
  0x01f86376e8981c217898751ad8746757d42aa7b90eeb791c09e4a3ec03251cf9de405aba9ec61deca6355c77b0e5f4cb,
  0x08cc03fdefe0ff135caf4fe2a21529c4195536fbe3ce50b879833fd221351adc2ee7f8dc099040a841b6daecf2e8fedb,
  0x16603fca40634b6a2211e11db8f0a6a074a7d0d4afadb7bd76505c3d3ad5544e203f6326c95a807299b23ab13633a5f0,
  0x04ab0b9bcfac1bbcb2c977d027796b3ce75bb8ca2be184cb5231413c4d634f3747a87ac2460f415ec961f8855fe9d6f2,
  0x0987c8d5333ab86fde9926bd2ca6c674170a05bfe3bdd81ffd038da6c26c842642f64550fedfe935a15e4ca31870fb29,
  0x09fc4018bd96684be88c9e221e4da1bb8f3abd16679dc26c1e8b6e6a1f20cabe69d65201c78607a360370e577bdba587,
  0x0e1bba7a1186bdb5223abde7ada14a23c42a0ca7915af6fe06985e7ed1e4d43b9b3f7055dd4eba6f2bafaaebca731c30,
  0x19713e47937cd1be0dfd0b8f1d43fb93cd2fcbcb6caf493fd1183e416389e61031bf3a5cce3fbafce813711ad011c132,
  0x18b46a908f36f6deb918c143fed2edcc523559b8aaf0c2462e6bfe7f911f643249d9cdf41b44d606ce07c8a4d0074d8e,
  0x0b182cac101b9399d155096004f53f447aa7b12a3426b08ec02710e807b4633f06c851c1919211f20d4c04f00b971ef8,
  0x0245a394ad1eca9b72fc00ae7be315dc757b3b080d4c158013e6632d3c40659cc6cf90ad1c232a6442d9d3f5db980133,
  0x05c129645e44cf1102a159f748c4a3fc5e673d81d7e86568d9ab0f5d396a7ce46ba1049b6579afb7866b1e715475224b,
  0x15e6be4e990f03ce4ea50b3b42df2eb5cb181d8f84965a3957add4fa95af01b2b665027efec01c7704b456be69c8b604]

/-- `k_(4,i)`, `i = 0..14`, then the monic leading coefficient 1 (crate `YDEN`). -/
def yDen : List Nat := [
  0x16112c4c3a9c98b252181140fad0eae9601a6de578980be6eec3232b5be72e7a07f3688ef60c206d01479253b03663c1,
  0x1962d75c2381201e1a0cbd6c43c348b885c84ff731c4d59ca4a10356f453e01f78a4260763529e3532f6102c2e49a03d,
  0x058df3306640da276faaae7d6e8eb15778c4855551ae7f310c35a5dd279cd2eca6757cd636f96f891e2538b53dbf67f2,
  0x16b7d288798e5395f20d23bf89edb4d1d115c5dbddbcd30e123da489e726af41727364f2c28297ada8d26d98445f5416,
  0x0be0e079545f43e4b00cc912f8228ddcc6d19c9f0f69bbb0542eda0fc9dec916a20b15dc0fd2ededda39142311a5001d,
  0x08d9e5297186db2d9fb266eaac783182b70152c65550d881c5ecd87b6f0f5a6449f38db9dfa9cce202c6477faaf9b7ac,
  0x166007c08a99db2fc3ba8734ace9824b5eecfdfa8d0cf8ef5dd365bc400a0051d5fa9c01a58b1fb93d1a1399126a775c,
  0x16a3ef08be3ea7ea03bcddfabba6ff6ee5a4375efa1f4fd7feb34fd206357132b920f5b00801dee460ee415a15812ed9,
  0x1866c8ed336c61231a1be54fd1d74cc4f9fb0ce4c6af5920abc5750c4bf39b4852cfe2f7bb9248836b233d9d55535d4a,
  0x167a55cda70a6e1cea820597d94a84903216f763e13d87bb5308592e7ea7d4fbc7385ea3d529b35e346ef48bb8913f55,
  0x04d2f259eea405bd48f010a01ad2911d9c6dd039bb61a6290e591b36e636a5c871a5c29f4f83060400f8b49cba8f6aa8,
  0x0accbb67481d033ff5852c1e48c50c477f94ff8aefce42d28c0f9a88cea7913516f968986f7ebbea9684b529e2561092,
  0x0ad6b9514c767fe3c3613144b45f1496543346d98adf02267d5ceef9a00d9b8693000763e3b90ac11e99b138573345cc,
  0x02660400eb2e4f3b628bdd0d53cd76f2bf565b94e72927c1cb748df27942480e420517bd8714cc80d1fadc1326ed06f7,
  0x0e0fa1d816ddc03e6b24255e0d7819c171c40f65e273b853324efcd6356caa205ca2f570f13497804415473a1d634b8f,
  0x000000000000000000000000000000000000000000000000000000000000000000000000000000000000000000000001]

/-- Horner evaluation of `Σ cᵢ xⁱ` (coefficients low degree first). -/
def evalPoly (cs : List Nat) (x : Nat) : Nat :=
  cs.foldr (fun c acc => Fp.add (Fp.mul acc x) c) 0

/-- `iso_map(x', y') = (x_num/x_den, y'·y_num/y_den)`.
Exceptional case (RFC 9380 §4 / App. E.2): a zero denominator means `(x', y')` is in the kernel
of the isogeny and the image is the identity of E1.
NOTE (divergence): the crate's generic `Isogeny::isogeny` (elliptic-curve 0.13.8,
`hash2curve/isogeny.rs`) calls `.invert().unwrap()` on both denominators and therefore PANICS
in this case instead of returning the identity. The kernel has only 11 points, so this is
unreachable except with negligible probability over hash outputs. -/
def isoMap (xy : Nat × Nat) : G1Pt :=
  let (x, y) := xy
  let xd := evalPoly xDen x
  let yd := evalPoly yDen x
  if xd == 0 || yd == 0 then G1Pt.zero
  else
    let xn := evalPoly xNum x
    let yn := evalPoly yNum x
    -- one inversion for both denominators
    let i := Fp.inv (Fp.mul xd yd)
    ⟨Fp.mul xn (Fp.mul i yd), Fp.mul y (Fp.mul yn (Fp.mul i xd)), false⟩

/-- `map_to_curve` of the suite: SSWU then isogeny (`Fp::map_to_curve` in the crate). -/
def mapToCurve (u : Nat) : G1Pt := isoMap (sswu u)

/-- `clear_cofactor(P) = [h_eff]P` (the crate computes `P − [z]P`, the same point). -/
def clearCofactor (p : G1Pt) : G1Pt := G1.mul hEff p

/-- `hash_to_field(msg, 2)` for Fp: `m = 1`, `L = 64`; `uniform_bytes = expand(msg, dst, 128)`,
`u_i = OS2IP(uniform_bytes[64i .. 64i+64]) mod p`. `none` if the expander fails (or returns a
string of the wrong length). -/
def hashToField2 (expand : Bytes → Bytes → Nat → Option Bytes) (msg dst : Bytes) :
    Option (Nat × Nat) :=
  match expand msg dst 128 with
  | none => none
  | some ub =>
    if ub.length != 128 then none
    else some (os2ip (ub.take 64) % P, os2ip (ub.drop 64) % P)

end H2C

/-- RFC 9380 `hash_to_curve` for BLS12-381 G1 (random-oracle variant, `_RO_`), given the suite's
`expand_message` (`expandXmd` with SHA-256, or `expandXof` with SHAKE-256). -/
def hashToG1 (expand : Bytes → Bytes → Nat → Option Bytes) (msg dst : Bytes) : Option G1Pt :=
  match H2C.hashToField2 expand msg dst with
  | none => none
  | some (u0, u1) =>
    let q0 := H2C.mapToCurve u0
    let q1 := H2C.mapToCurve u1
    some (H2C.clearCofactor (G1.add q0 q1))

/-- RFC 9380 `encode_to_curve` (`_NU_` variant; `G1Projective::encode` in the crate). -/
def encodeToG1 (expand : Bytes → Bytes → Nat → Option Bytes) (msg dst : Bytes) : Option G1Pt :=
  match expand msg dst 64 with
  | none => none
  | some ub =>
    if ub.length != 64 then none
    else some (H2C.clearCofactor (H2C.mapToCurve (os2ip ub % P)))

end Zk
