/-
L0: byte strings. `Bytes = List UInt8` everywhere in the model (one representation, so that
L2 can reason with `List` lemmas). Import-free (core only).
-/
namespace Zk

abbrev Bytes := List UInt8

namespace Bytes

def hexDigit (n : Nat) : Char :=
  if n < 10 then Char.ofNat (48 + n) else Char.ofNat (87 + n)

def toHex (b : Bytes) : String :=
  String.ofList (b.flatMap fun x => [hexDigit (x.toNat / 16), hexDigit (x.toNat % 16)])

def hexVal (c : Char) : Option Nat :=
  if '0' ≤ c ∧ c ≤ '9' then some (c.toNat - 48)
  else if 'a' ≤ c ∧ c ≤ 'f' then some (c.toNat - 87)
  else if 'A' ≤ c ∧ c ≤ 'F' then some (c.toNat - 55)
  else none

def ofHexChars : List Char → Option Bytes
  | [] => some []
  | [_] => none
  | a :: b :: rest =>
    match hexVal a, hexVal b, ofHexChars rest with
    | some x, some y, some r => some (UInt8.ofNat (16 * x + y) :: r)
    | _, _, _ => none

def ofHex (s : String) : Option Bytes := ofHexChars s.toList

/-- ASCII string to bytes (the model only uses ASCII constants). -/
def ofAscii (s : String) : Bytes := s.toList.map fun c => UInt8.ofNat c.toNat

end Bytes

/-- Big-endian natural number of a byte string (OS2IP, RFC 8017). -/
def os2ip (b : Bytes) : Nat := b.foldl (fun acc x => acc * 256 + x.toNat) 0

/-- `i2ospAux n x` = the `n` low-order base-256 digits of `x`, most significant first. -/
def i2ospAux : Nat → Nat → Bytes
  | 0, _ => []
  | n + 1, x => i2ospAux n (x / 256) ++ [UInt8.ofNat (x % 256)]

/-- I2OSP (RFC 8017): `none` when `x ≥ 256^n`. -/
def i2osp? (n x : Nat) : Option Bytes :=
  if x < 256 ^ n then some (i2ospAux n x) else none

/-- Truncating I2OSP, used where the caller has established `x < 256^n`. -/
def i2osp (n x : Nat) : Bytes := i2ospAux n x

end Zk
