/-
L0: the group G2 of BLS12-381: the order-`R` subgroup of E2: y² = x³ + 4(1+u) over Fp2, with the
zcash point encodings exactly as implemented by bls12_381_plus 0.8.18 (src/g2.rs, `G2Affine`).
Modelled (not verified). The decoding conditions are documented line by line against the crate.
-/
import ZkModel.L0.Fp2
namespace Zk

namespace G2Pt
@[inline] def x (p : G2Pt) : Fp2 := ⟨p.x0, p.x1⟩
@[inline] def y (p : G2Pt) : Fp2 := ⟨p.y0, p.y1⟩
/-- Finite affine point from its Fp2 coordinates. -/
@[inline] def ofXY (x y : Fp2) : G2Pt := ⟨x.c0, x.c1, y.c0, y.c1, false⟩
end G2Pt

namespace G2

/-- Curve constant `B = 4(1+u)` (crate: `const B`, src/g2.rs). -/
def b : Fp2 := ⟨4, 4⟩

/--
The fixed generator (crate `G2Affine::generator`, src/g2.rs l.275-315). The crate stores Montgomery
limbs; these are the plain values `limbs · (2^384)⁻¹ mod p` (checked on-curve / in subgroup and
against the well-known compressed encoding in `G2Test`).
-/
def gen : G2Pt :=
  { x0 := 0x024aa2b2f08f0a91260805272dc51051c6e47ad4fa403b02b4510b647ae3d1770bac0326a805bbefd48056c8c121bdb8
    x1 := 0x13e02b6052719f607dacd3a088274f65596bd0d09920b61ab5da61bbdc7f5049334cf11213945d57e5ac7d055d042b7e
    y0 := 0x0ce5d527727d6e118cc9cdc6da2e351aadfd9baa8cbdd3a76d429a695160d12c923ac9cc3baca289e193548608b82801
    y1 := 0x0606c4a02ea734cc32acd2b02bc28b99cb3e287e85a763af267492ab572e99ab3f370d275cec1da1aaa9075ff05f79be
    inf := false }

/-- Crate `G2Affine::is_on_curve`: `y² − x³ = B  ∨  infinity`. -/
def onCurve (p : G2Pt) : Bool :=
  p.inf || Fp2.sq p.y == Fp2.add (Fp2.mul (Fp2.sq p.x) p.x) b

def neg (p : G2Pt) : G2Pt :=
  if p.inf then G2Pt.zero else G2Pt.ofXY p.x (Fp2.neg p.y)

/-- Complete affine addition (chord / tangent / inverse / identity cases). -/
def add (p q : G2Pt) : G2Pt :=
  if p.inf then q
  else if q.inf then p
  else
    let x1 := p.x; let y1 := p.y; let x2 := q.x; let y2 := q.y
    if x1 == x2 then
      if y1 == y2 && !y1.isZero then
        -- tangent: λ = 3x² / 2y
        let l := Fp2.mul (Fp2.smul 3 (Fp2.sq x1)) (Fp2.inv (Fp2.dbl y1))
        let x3 := Fp2.sub (Fp2.sq l) (Fp2.dbl x1)
        let y3 := Fp2.sub (Fp2.mul l (Fp2.sub x1 x3)) y1
        G2Pt.ofXY x3 y3
      else G2Pt.zero   -- q = −p (including 2-torsion p = q, y = 0)
    else
      let l := Fp2.mul (Fp2.sub y2 y1) (Fp2.inv (Fp2.sub x2 x1))
      let x3 := Fp2.sub (Fp2.sub (Fp2.sq l) x1) x2
      let y3 := Fp2.sub (Fp2.mul l (Fp2.sub x1 x3)) y1
      G2Pt.ofXY x3 y3

/-- Jacobian coordinates `(X : Y : Z)` ↦ `(X/Z², Y/Z³)`; `Z = 0` is the identity. -/
structure Jac where
  X : Fp2
  Y : Fp2
  Z : Fp2

namespace Jac
def zero : Jac := ⟨Fp2.one, Fp2.one, Fp2.zero⟩

/-- Doubling for a = 0 (dbl-2009-l). `Y = 0` or `Z = 0` give `Z₃ = 0`, the identity. -/
def dbl (p : Jac) : Jac :=
  let a := Fp2.sq p.X
  let b := Fp2.sq p.Y
  let c := Fp2.sq b
  let d := Fp2.dbl (Fp2.sub (Fp2.sub (Fp2.sq (Fp2.add p.X b)) a) c)
  let e := Fp2.smul 3 a
  let f := Fp2.sq e
  let x3 := Fp2.sub f (Fp2.dbl d)
  let y3 := Fp2.sub (Fp2.mul e (Fp2.sub d x3)) (Fp2.smul 8 c)
  let z3 := Fp2.dbl (Fp2.mul p.Y p.Z)
  ⟨x3, y3, z3⟩

/-- Mixed addition with a finite affine point `(x2, y2)`; complete (handles `p = O`, `p = ±q`). -/
def addAffine (p : Jac) (x2 y2 : Fp2) : Jac :=
  if p.Z.isZero then ⟨x2, y2, Fp2.one⟩
  else
    let zz := Fp2.sq p.Z
    let u2 := Fp2.mul x2 zz
    let s2 := Fp2.mul y2 (Fp2.mul p.Z zz)
    if p.X == u2 then
      if p.Y == s2 then dbl p else zero
    else
      let h := Fp2.sub u2 p.X
      let r := Fp2.sub s2 p.Y
      let hh := Fp2.sq h
      let hhh := Fp2.mul h hh
      let v := Fp2.mul p.X hh
      let x3 := Fp2.sub (Fp2.sub (Fp2.sq r) hhh) (Fp2.dbl v)
      let y3 := Fp2.sub (Fp2.mul r (Fp2.sub v x3)) (Fp2.mul p.Y hhh)
      let z3 := Fp2.mul p.Z h
      ⟨x3, y3, z3⟩

def toAffine (p : Jac) : G2Pt :=
  if p.Z.isZero then G2Pt.zero
  else
    let zi := Fp2.inv p.Z
    let zi2 := Fp2.sq zi
    G2Pt.ofXY (Fp2.mul p.X zi2) (Fp2.mul p.Y (Fp2.mul zi zi2))
end Jac

/-- Worker of `bitsMSB`: prepends the bits of `n` (least significant first) to `acc`; `fuel ≥ log2 n + 1`. -/
def bitsAux : Nat → Nat → List Bool → List Bool
  | 0, _, acc => acc
  | fuel + 1, n, acc => if n == 0 then acc else bitsAux fuel (n / 2) ((n % 2 == 1) :: acc)

/-- Bits of `n`, most significant first (`[]` for 0). Structural recursion on fuel (no `for` loop) so
that proofs about `G2.mul` can go by induction. -/
def bitsMSB (n : Nat) : List Bool := bitsAux (n.log2 + 1) n []

/-- `[n]P` for an arbitrary natural `n` (not reduced mod `R`, so it is meaningful for points outside
the subgroup too): left-to-right double-and-add in Jacobian coordinates, one inversion at the end. -/
def mul (n : Nat) (p : G2Pt) : G2Pt :=
  if p.inf then G2Pt.zero
  else
    let px := p.x; let py := p.y
    Jac.toAffine <| (bitsMSB n).foldl
      (fun acc bit => let d := Jac.dbl acc; if bit then Jac.addAffine d px py else d) Jac.zero

/--
Membership in the prime-order subgroup: `[R]P = O`. The crate (`is_torsion_free`, src/g2.rs l.556)
uses the equivalent endomorphism test `ψ(P) = [x]P` (eprint 2021/1130, 2022/352); only the result is
mirrored. The identity is torsion free.
-/
def inSubgroup (p : G2Pt) : Bool := (mul R p).inf

/-! ### zcash encodings (crate `G2Affine::{to,from}_{un,}compressed`) -/

/-- Crate `Fp::to_bytes`: 48 bytes big endian. -/
def fpBytes (a : Nat) : Bytes := i2osp 48 a

/-- Crate `Fp::from_bytes`: 48 bytes big endian, `None` unless the value is `< p`. -/
def fpOfBytes? (b : Bytes) : Option Nat :=
  let v := os2ip b
  if v < P then some v else none

/-- OR the three flag bits into the first byte. -/
def setFlags (bs : Bytes) (flags : UInt8) : Bytes :=
  match bs with
  | [] => []
  | h :: t => (h ||| flags) :: t

/--
`G2Affine::to_compressed` (src/g2.rs l.319-345): `x.c1 ‖ x.c0` (x forced to 0 at infinity);
bit 7 (compression) always set; bit 6 set iff infinity; bit 5 set iff not infinity and
`y.lexicographically_largest()`.
-/
def toCompressed (p : G2Pt) : Bytes :=
  let x := if p.inf then Fp2.zero else p.x
  let fl : UInt8 := 0x80 ||| (if p.inf then 0x40 else 0) |||
    (if !p.inf && Fp2.lexLargest p.y then 0x20 else 0)
  setFlags (fpBytes x.c1 ++ fpBytes x.c0) fl

/--
`G2Affine::to_uncompressed` (src/g2.rs l.349-364): `x.c1 ‖ x.c0 ‖ y.c1 ‖ y.c0` (all 0 at infinity);
bit 6 set iff infinity; bits 7 and 5 never set.
-/
def toUncompressed (p : G2Pt) : Bytes :=
  let x := if p.inf then Fp2.zero else p.x
  let y := if p.inf then Fp2.zero else p.y
  setFlags (fpBytes x.c1 ++ fpBytes x.c0 ++ fpBytes y.c1 ++ fpBytes y.c0)
    (if p.inf then 0x40 else 0)

/-- The three flag bits of the first byte and the byte string with them masked away
(`tmp[0] &= 0b0001_1111`). -/
def splitFlags (bs : Bytes) : Bool × Bool × Bool × Bytes :=
  match bs with
  | [] => (false, false, false, [])
  | h :: t => ((h >>> 7) &&& 1 == 1, (h >>> 6) &&& 1 == 1, (h >>> 5) &&& 1 == 1, (h &&& 0x1f) :: t)

/--
`G2Affine::from_compressed_unchecked` (src/g2.rs l.466-529): everything except the subgroup check.
`none` exactly when the crate's `CtOption` is none:

* (C0) input is not exactly 96 bytes (the crate's argument type is `&[u8; 96]`; callers fail the
  slice-to-array conversion);
* (C1) `x.c1` (bytes 0..48 with the three flag bits masked off) is `≥ p` (`Fp::from_bytes`);
* (C2) `x.c0` (bytes 48..96) is `≥ p`;
* identity branch — accepted iff infinity flag set ∧ compression flag set ∧ sort flag unset ∧ x = 0;
* otherwise (`or_else` branch):
  * (C3) `x³ + B` has no square root in Fp2 → none;
  * `y` := the root whose `lexicographically_largest` equals the sort flag
    (`conditional_select(y, −y, y.lex_largest() ^ sort_flag)`);
  * (C4) infinity flag set → none (covers: infinity flag with x ≠ 0, or with the sort flag set);
  * (C5) compression flag unset → none.

Remark (mirrored, not "fixed"): when `x³ + B = 0` the root is `y = 0 = −y`, so the unchecked decoder
accepts either value of the sort flag; such a point has order 2 and is rejected by (C6) below.
-/
def fromCompressedUnchecked (bytes : Bytes) : Option G2Pt :=
  if bytes.length != 96 then none                                   -- (C0)
  else
    let (cFlag, iFlag, sFlag, masked) := splitFlags bytes
    match fpOfBytes? (masked.take 48), fpOfBytes? (masked.drop 48) with
    | some xc1, some xc0 =>
      let x : Fp2 := ⟨xc0, xc1⟩
      if iFlag && cFlag && !sFlag && x.isZero then some G2Pt.zero   -- identity
      else
        match Fp2.sqrt? (Fp2.add (Fp2.mul (Fp2.sq x) x) b) with
        | none => none                                               -- (C3)
        | some y0 =>
          let y := if Fp2.lexLargest y0 != sFlag then Fp2.neg y0 else y0
          if !iFlag && cFlag then some (G2Pt.ofXY x y)               -- (C4), (C5)
          else none
    | _, _ => none                                                   -- (C1), (C2)

/--
`G2Affine::from_compressed` (src/g2.rs l.455-460): `from_compressed_unchecked` followed by
* (C6) `is_torsion_free` (on-curve holds by construction; the identity is torsion free).
-/
def fromCompressed (bytes : Bytes) : Option G2Pt :=
  match fromCompressedUnchecked bytes with
  | some pt => if inSubgroup pt then some pt else none              -- (C6)
  | none => none

/--
`G2Affine::from_uncompressed_unchecked` (src/g2.rs l.377-451): no curve / subgroup check.
`none` exactly when the crate's `CtOption` is none:

* (U0) input is not exactly 192 bytes;
* (U1)-(U4) any of `x.c1` (bytes 0..48, flag bits masked), `x.c0` (48..96), `y.c1` (96..144),
  `y.c0` (144..192) is `≥ p`;
* (U5) infinity flag set but `x ≠ 0` or `y ≠ 0`;
* (U6) compression flag set;
* (U7) sort flag set;
* the result is the identity if the infinity flag is set, else `(x, y)`.
-/
def fromUncompressedUnchecked (bytes : Bytes) : Option G2Pt :=
  if bytes.length != 192 then none                                  -- (U0)
  else
    let (cFlag, iFlag, sFlag, masked) := splitFlags bytes
    match fpOfBytes? (masked.take 48), fpOfBytes? ((masked.drop 48).take 48),
          fpOfBytes? ((masked.drop 96).take 48), fpOfBytes? (masked.drop 144) with
    | some xc1, some xc0, some yc1, some yc0 =>
      let x : Fp2 := ⟨xc0, xc1⟩
      let y : Fp2 := ⟨yc0, yc1⟩
      if (!iFlag || (x.isZero && y.isZero)) && !cFlag && !sFlag then  -- (U5), (U6), (U7)
        some (if iFlag then G2Pt.zero else G2Pt.ofXY x y)
      else none
    | _, _, _, _ => none                                             -- (U1)-(U4)

/--
`G2Affine::from_uncompressed` (src/g2.rs l.368-371): `from_uncompressed_unchecked` followed by
* (U8) `is_on_curve` (true for the identity);
* (U9) `is_torsion_free`.
-/
def fromUncompressed (bytes : Bytes) : Option G2Pt :=
  match fromUncompressedUnchecked bytes with
  | some pt => if onCurve pt && inSubgroup pt then some pt else none  -- (U8), (U9)
  | none => none

end G2
end Zk
