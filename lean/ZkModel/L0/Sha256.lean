/-
L0: SHA-256 (FIPS 180-4), written from the standard.

Executable and total: no `partial`, no `unsafe`. Internally uses `Array`/`UInt32`; the public
entry point `Zk.sha256 : Bytes → Bytes` works on the model-wide `Bytes = List UInt8`.
-/
import ZkModel.L0.Bytes

namespace Zk
namespace Sha256

/-- FIPS 180-4 §4.2.2: the 64 round constants. -/
def K : Array UInt32 := #[
  0x428a2f98, 0x71374491, 0xb5c0fbcf, 0xe9b5dba5, 0x3956c25b, 0x59f111f1, 0x923f82a4, 0xab1c5ed5,
  0xd807aa98, 0x12835b01, 0x243185be, 0x550c7dc3, 0x72be5d74, 0x80deb1fe, 0x9bdc06a7, 0xc19bf174,
  0xe49b69c1, 0xefbe4786, 0x0fc19dc6, 0x240ca1cc, 0x2de92c6f, 0x4a7484aa, 0x5cb0a9dc, 0x76f988da,
  0x983e5152, 0xa831c66d, 0xb00327c8, 0xbf597fc7, 0xc6e00bf3, 0xd5a79147, 0x06ca6351, 0x14292967,
  0x27b70a85, 0x2e1b2138, 0x4d2c6dfc, 0x53380d13, 0x650a7354, 0x766a0abb, 0x81c2c92e, 0x92722c85,
  0xa2bfe8a1, 0xa81a664b, 0xc24b8b70, 0xc76c51a3, 0xd192e819, 0xd6990624, 0xf40e3585, 0x106aa070,
  0x19a4c116, 0x1e376c08, 0x2748774c, 0x34b0bcb5, 0x391c0cb3, 0x4ed8aa4a, 0x5b9cca4f, 0x682e6ff3,
  0x748f82ee, 0x78a5636f, 0x84c87814, 0x8cc70208, 0x90befffa, 0xa4506ceb, 0xbef9a3f7, 0xc67178f2]

/-- FIPS 180-4 §5.3.3: initial hash value. -/
def H0 : Array UInt32 := #[
  0x6a09e667, 0xbb67ae85, 0x3c6ef372, 0xa54ff53a, 0x510e527f, 0x9b05688c, 0x1f83d9ab, 0x5be0cd19]

/-- Rotate right by `n` bits, `0 < n < 32`. -/
@[inline] def rotr (x : UInt32) (n : UInt32) : UInt32 := (x >>> n) ||| (x <<< (32 - n))

-- FIPS 180-4 §4.1.2
@[inline] def ch (x y z : UInt32) : UInt32 := (x &&& y) ^^^ ((~~~ x) &&& z)
@[inline] def maj (x y z : UInt32) : UInt32 := (x &&& y) ^^^ (x &&& z) ^^^ (y &&& z)
@[inline] def bsig0 (x : UInt32) : UInt32 := rotr x 2 ^^^ rotr x 13 ^^^ rotr x 22
@[inline] def bsig1 (x : UInt32) : UInt32 := rotr x 6 ^^^ rotr x 11 ^^^ rotr x 25
@[inline] def ssig0 (x : UInt32) : UInt32 := rotr x 7 ^^^ rotr x 18 ^^^ (x >>> 3)
@[inline] def ssig1 (x : UInt32) : UInt32 := rotr x 17 ^^^ rotr x 19 ^^^ (x >>> 10)

/-- Big-endian 32-bit word from 4 bytes. -/
@[inline] def be32 (a b c d : UInt8) : UInt32 :=
  (a.toUInt32 <<< 24) ||| (b.toUInt32 <<< 16) ||| (c.toUInt32 <<< 8) ||| d.toUInt32

/-- Number of zero bytes in the padding of an `n`-byte message (FIPS 180-4 §5.1.1):
the least `k` with `(n + 1 + k) % 64 = 56`. -/
def padZeros (n : Nat) : Nat := (119 - n % 64) % 64

/-- FIPS 180-4 §5.1.1 padding: `m ‖ 0x80 ‖ 0^k ‖ be64(8·|m|)`; the result length is a multiple
of 64. -/
def pad (m : Bytes) : Array UInt8 := Id.run do
  let n := m.length
  let mut a : Array UInt8 := Array.mkEmpty (n + 72)
  for x in m do
    a := a.push x
  a := a.push 0x80
  for _ in [0:padZeros n] do
    a := a.push 0
  let bits : UInt64 := UInt64.ofNat (8 * n)
  for i in [0:8] do
    a := a.push (bits >>> (UInt64.ofNat (8 * (7 - i)))).toUInt8
  return a

/-- FIPS 180-4 §6.2.2 step 1: message schedule for the 64-byte block starting at `off`. -/
def schedule (blk : Array UInt8) (off : Nat) : Array UInt32 := Id.run do
  let mut w : Array UInt32 := Array.mkEmpty 64
  for t in [0:16] do
    let i := off + 4 * t
    w := w.push (be32 blk[i]! blk[i+1]! blk[i+2]! blk[i+3]!)
  for t in [16:64] do
    w := w.push (ssig1 w[t-2]! + w[t-7]! + ssig0 w[t-15]! + w[t-16]!)
  return w

/-- FIPS 180-4 §6.2.2 steps 2–4: one application of the compression function. -/
def compress (h : Array UInt32) (blk : Array UInt8) (off : Nat) : Array UInt32 := Id.run do
  let w := schedule blk off
  let mut a := h[0]!
  let mut b := h[1]!
  let mut c := h[2]!
  let mut d := h[3]!
  let mut e := h[4]!
  let mut f := h[5]!
  let mut g := h[6]!
  let mut hh := h[7]!
  for t in [0:64] do
    let t1 := hh + bsig1 e + ch e f g + K[t]! + w[t]!
    let t2 := bsig0 a + maj a b c
    hh := g
    g := f
    f := e
    e := d + t1
    d := c
    c := b
    b := a
    a := t1 + t2
  return #[h[0]! + a, h[1]! + b, h[2]! + c, h[3]! + d, h[4]! + e, h[5]! + f, h[6]! + g, h[7]! + hh]

/-- Big-endian serialisation of the final state. -/
def serialize (h : Array UInt32) : Bytes :=
  h.toList.flatMap fun (x : UInt32) =>
    [(x >>> 24).toUInt8, (x >>> 16).toUInt8, (x >>> 8).toUInt8, x.toUInt8]

end Sha256

/-- SHA-256 (FIPS 180-4); the output is always 32 bytes. -/
def sha256 (m : Bytes) : Bytes := Id.run do
  let p := Sha256.pad m
  let mut h := Sha256.H0
  for i in [0:p.size / 64] do
    h := Sha256.compress h p (64 * i)
  return Sha256.serialize h

end Zk
