/-
L0: the group G1 of BLS12-381 — E1 : y² = x³ + 4 over Fp, prime-order subgroup of order `R` —
and the zcash compressed point codec exactly as crate `bls12_381_plus` 0.8.18 implements it
(`src/g1.rs`: `G1Affine::{to_compressed, from_compressed, from_compressed_unchecked}`).

Modelled (not verified): the group law is written from the textbook formulas, the codec from the
Rust source. Points are affine in normal form (`G1Pt`, `inf = true → x = y = 0`, coordinates
reduced mod `P`). Scalar multiplication runs in Jacobian coordinates with one inversion at the end.
Core Lean only; every function is total.
-/
import ZkModel.L0.Fp
namespace Zk

namespace G1

/-- Curve constant `b` of E1 : y² = x³ + b. -/
def b : Nat := 4

/-- The standard generator of G1 (`G1Affine::generator()` in the crate). -/
def gen : G1Pt :=
  ⟨0x17f1d3a73197d7942695638c4fa9ac0fc3688c4f9774b905a14e3a3f171bac586c55e83ff97a1aeffb3af00adb22c6bb,
   0x08b3f481e3aaa0f1a09e30ed741d8ae4fcf5e095d5d00af600db18cb2c04b3edd03cc744a2888ae40caa232946c5e7e1,
   false⟩

/-- Right-hand side of the curve equation, `x³ + 4`. -/
@[inline] def rhs (x : Nat) : Nat := Fp.add (Fp.mul (Fp.sq x) x) b

/-- `y² = x³ + 4` (or the point at infinity); also demands reduced coordinates / normal form. -/
def onCurve (p : G1Pt) : Bool :=
  if p.inf then p.x == 0 && p.y == 0
  else decide (p.x < P) && decide (p.y < P) && Fp.sq p.y == rhs p.x

def neg (p : G1Pt) : G1Pt :=
  if p.inf then G1Pt.zero else ⟨p.x, Fp.neg p.y, false⟩

/-- Affine doubling (tangent rule). `y = 0` (a 2-torsion point; none exists on E1) ↦ O. -/
def double (p : G1Pt) : G1Pt :=
  if p.inf || p.y == 0 then G1Pt.zero
  else
    let l := Fp.mul (Fp.mul 3 (Fp.sq p.x)) (Fp.inv (Fp.mul 2 p.y))
    let x3 := Fp.sub (Fp.sub (Fp.sq l) p.x) p.x
    let y3 := Fp.sub (Fp.mul l (Fp.sub p.x x3)) p.y
    ⟨x3, y3, false⟩

/-- Complete affine addition (chord-and-tangent), result in normal form. -/
def add (p q : G1Pt) : G1Pt :=
  if p.inf then q
  else if q.inf then p
  else if p.x == q.x then
    if p.y == q.y then double p else G1Pt.zero      -- same x: either P = Q or P = −Q
  else
    let l := Fp.mul (Fp.sub q.y p.y) (Fp.inv (Fp.sub q.x p.x))
    let x3 := Fp.sub (Fp.sub (Fp.sq l) p.x) q.x
    let y3 := Fp.sub (Fp.mul l (Fp.sub p.x x3)) p.y
    ⟨x3, y3, false⟩

def sub (p q : G1Pt) : G1Pt := add p (neg q)

/-! ### Jacobian coordinates `(X, Y, Z)` ↦ `(X/Z², Y/Z³)`, `Z = 0` is the point at infinity. -/

structure Jac where
  X : Nat
  Y : Nat
  Z : Nat
deriving Repr, Inhabited

namespace Jac

def zero : Jac := ⟨1, 1, 0⟩

def ofAffine (p : G1Pt) : Jac := if p.inf then zero else ⟨p.x, p.y, 1⟩

/-- Back to affine normal form: the only field inversion. -/
def toAffine (j : Jac) : G1Pt :=
  if j.Z == 0 then G1Pt.zero
  else
    let zi := Fp.inv j.Z
    let zi2 := Fp.sq zi
    ⟨Fp.mul j.X zi2, Fp.mul j.Y (Fp.mul zi2 zi), false⟩

/-- Doubling for `a = 0` (dbl-2009-l). For `Z = 0` (or `Y = 0`) the result has `Z = 0`. -/
def dbl (j : Jac) : Jac :=
  let a := Fp.sq j.X
  let b := Fp.sq j.Y
  let c := Fp.sq b
  let d := Fp.mul 2 (Fp.sub (Fp.sub (Fp.sq (Fp.add j.X b)) a) c)
  let e := Fp.mul 3 a
  let f := Fp.sq e
  let x3 := Fp.sub f (Fp.mul 2 d)
  let y3 := Fp.sub (Fp.mul e (Fp.sub d x3)) (Fp.mul 8 c)
  let z3 := Fp.mul (Fp.mul 2 j.Y) j.Z
  ⟨x3, y3, z3⟩

/-- General Jacobian addition, complete (handles O, P = Q, P = −Q). -/
def add (p q : Jac) : Jac :=
  if p.Z == 0 then q
  else if q.Z == 0 then p
  else
    let z1z1 := Fp.sq p.Z
    let z2z2 := Fp.sq q.Z
    let u1 := Fp.mul p.X z2z2
    let u2 := Fp.mul q.X z1z1
    let s1 := Fp.mul p.Y (Fp.mul q.Z z2z2)
    let s2 := Fp.mul q.Y (Fp.mul p.Z z1z1)
    if u1 == u2 then
      if s1 == s2 then dbl p else zero
    else
      let h := Fp.sub u2 u1
      let r := Fp.sub s2 s1
      let hh := Fp.sq h
      let hhh := Fp.mul h hh
      let v := Fp.mul u1 hh
      let x3 := Fp.sub (Fp.sub (Fp.sq r) hhh) (Fp.mul 2 v)
      let y3 := Fp.sub (Fp.mul r (Fp.sub v x3)) (Fp.mul s1 hhh)
      let z3 := Fp.mul (Fp.mul p.Z q.Z) h
      ⟨x3, y3, z3⟩

/-- Mixed addition Jacobian + affine, complete. -/
def addAffine (p : Jac) (q : G1Pt) : Jac :=
  if q.inf then p
  else if p.Z == 0 then ⟨q.x, q.y, 1⟩
  else
    let z1z1 := Fp.sq p.Z
    let u2 := Fp.mul q.x z1z1
    let s2 := Fp.mul q.y (Fp.mul p.Z z1z1)
    if p.X == u2 then
      if p.Y == s2 then dbl p else zero
    else
      let h := Fp.sub u2 p.X
      let r := Fp.sub s2 p.Y
      let hh := Fp.sq h
      let hhh := Fp.mul h hh
      let v := Fp.mul p.X hh
      let x3 := Fp.sub (Fp.sub (Fp.sq r) hhh) (Fp.mul 2 v)
      let y3 := Fp.sub (Fp.mul r (Fp.sub v x3)) (Fp.mul p.Y hhh)
      let z3 := Fp.mul p.Z h
      ⟨x3, y3, z3⟩

/-- Double-and-add, most significant bit first: `[n]P = 2·[n/2]P + (n mod 2)·P`.
`fuel` bounds the recursion; `fuel ≥ log2 n + 1` suffices. -/
def mulAux (p : G1Pt) : Nat → Nat → Jac
  | 0, _ => zero
  | fuel + 1, n =>
    if n == 0 then zero
    else
      let d := dbl (mulAux p fuel (n / 2))
      if n % 2 == 1 then addAffine d p else d

def mul (n : Nat) (p : G1Pt) : Jac := mulAux p (n.log2 + 1) n

end Jac

/-- Scalar multiplication `[n]P` for any natural `n` (NOT reduced mod `R`: `P` may lie outside the
prime-order subgroup). -/
def mul (n : Nat) (p : G1Pt) : G1Pt := (Jac.mul n p).toAffine

/-- Membership in the prime-order subgroup: `[R]P = O`.
(The crate's `is_torsion_free` uses the equivalent endomorphism test `φ(P) = −[z²]P`
of eprint 2021/1130 §6; both decide the same predicate on points of E1.) -/
def inSubgroup (p : G1Pt) : Bool := (Jac.mul R p).Z == 0

/-- Multi-scalar multiplication `Σ [nᵢ]Pᵢ`, one inversion in total. -/
def msm (l : List (Nat × G1Pt)) : G1Pt :=
  (l.foldl (fun acc sp => Jac.add acc (Jac.mul sp.1 sp.2)) Jac.zero).toAffine

/-! ### zcash compressed encoding (48 bytes)

Byte 0 carries three flags in its top bits; the remaining 381 bits are big-endian `x`.
  bit 7 (0x80) compression flag — always set in this format
  bit 6 (0x40) infinity flag
  bit 5 (0x20) sort flag — set iff `y` is the lexicographically largest of `{y, −y}`, i.e. `y > (p−1)/2`
-/

/-- `G1Affine::to_compressed`. For infinity: `x` is replaced by 0, bits 7 and 6 set, sort flag clear,
i.e. `c0 00 … 00`. Otherwise `x` big-endian (48 bytes, top three bits free since `x < p < 2^381`)
with bit 7 set and bit 5 = `lexicographically_largest(y)`. -/
def toCompressed (p : G1Pt) : Bytes :=
  match i2osp 48 (if p.inf then 0 else p.x) with
  | [] => []   -- unreachable: `i2osp 48 _` has 48 bytes
  | b0 :: rest =>
    let f7 : UInt8 := 0x80
    let f6 : UInt8 := if p.inf then 0x40 else 0
    let f5 : UInt8 := if !p.inf && Fp.lexLargest p.y then 0x20 else 0
    (b0 ||| f7 ||| f6 ||| f5) :: rest

/-- `G1Affine::from_compressed_unchecked` on a first byte `b0` and the remaining bytes: everything
except the length and subgroup checks. Conditions, in the order the Rust evaluates them:

 1. `Fp::from_bytes` on the 48 bytes with the three flag bits masked off must succeed:
    the big-endian integer `x` must be canonical, `x < p`; otherwise `None`.
 2. First alternative (identity): returned iff infinity flag set ∧ compression flag set ∧ sort flag
    NOT set ∧ `x = 0`.
 3. Otherwise (`or_else`): `y = sqrt(x³ + 4)` must exist (`x` is the abscissa of a curve point),
    else `None`. The root computed is `(x³+4)^((p+1)/4)`; it is negated iff
    `lexicographically_largest(y) ≠ sort flag`. The point is returned iff infinity flag NOT set ∧
    compression flag set.
    Consequently: infinity flag with any non-zero `x` bit, or with the sort flag, is rejected (the
    first alternative fails and the second demands the infinity flag clear); a cleared compression
    flag is always rejected. -/
def fromCompressedUnchecked (b0 : UInt8) (rest : Bytes) : Option G1Pt :=
  let compression := b0 &&& 0x80 != 0
  let infinity := b0 &&& 0x40 != 0
  let sort := b0 &&& 0x20 != 0
  let x := os2ip ((b0 &&& 0x1f) :: rest)
  if x ≥ P then none                                                   -- (1)
  else if infinity && compression && !sort && x == 0 then some G1Pt.zero   -- (2)
  else
    match Fp.sqrt? (rhs x) with                                        -- (3)
    | none => none
    | some y =>
      let y := if Fp.lexLargest y != sort then Fp.neg y else y
      if !infinity && compression then some ⟨x, y, false⟩ else none

/-- `G1Affine::from_compressed`: `from_compressed_unchecked` followed by `is_torsion_free`
(membership in the order-`R` subgroup; the identity passes). The Rust argument type is `[u8; 48]`,
so any other length is rejected before the call (`TryFrom<&[u8]>` fails) — modelled as `none`. -/
def fromCompressed (bytes : Bytes) : Option G1Pt :=
  if bytes.length != 48 then none
  else
    match bytes with
    | [] => none
    | b0 :: rest =>
      match fromCompressedUnchecked b0 rest with
      | none => none
      | some p => if inSubgroup p then some p else none

end G1
end Zk
