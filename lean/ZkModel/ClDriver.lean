/-
Line-protocol driver for the CL03 model. Structures travel as comma-separated token lists:
integers as hex with optional leading `-`, vectors as `#<len>` followed by the elements,
`Option::None` as `N`, booleans as `T`/`F`; struct fields in the ALPHABETICAL order of their serde
names (the harness flattens `serde_json::Value`, whose maps are sorted).
Tapes: `kind:hex;kind:hex;…` (`.` = empty).
-/
import ZkModel.L1.Cl
import ZkModel.Generated.ClConstants
namespace Zk.ClDriver
open Zk Zk.Cl

abbrev Toks := List String
def P (α : Type) := Toks → Option (α × Toks)
instance : Monad P where
  pure a := fun t => some (a, t)
  bind x f := fun t => match x t with | some (a, t') => f a t' | none => none

def hexNat (s : String) : Option Nat :=
  s.toList.foldlM (fun acc c => (Bytes.hexVal c).map (fun d => acc * 16 + d)) 0

def pInt : P Int := fun t => match t with
  | [] => none
  | s :: r =>
    if s.startsWith "-" then (hexNat (s.drop 1).toString).map fun n => (-(Int.ofNat n), r)
    else (hexNat s).map fun n => (Int.ofNat n, r)

def pVec {α} (p : P α) : P (List α) := fun t => match t with
  | [] => none
  | s :: r =>
    if s.startsWith "#" then
      match (s.drop 1).toString.toNat? with
      | none => none
      | some n =>
        let rec go : Nat → Toks → List α → Option (List α × Toks)
          | 0, t, acc => some (acc.reverse, t)
          | k + 1, t, acc => match p t with
            | some (a, t') => go k t' (a :: acc)
            | none => none
        go n r []
    else none

def pOpt {α} (p : P α) : P (Option α) := fun t => match t with
  | "N" :: r => some (none, r)
  | _ => (p t).map fun (a, r) => (some a, r)

def pNatTok : P Nat := fun t => match t with
  | [] => none
  | s :: r => s.toNat?.map fun n => (n, r)

def pIdxVec : P (List Nat) := pVec pNatTok

def pPk : P PublicKey := do let N ← pInt; let b ← pInt; let c ← pInt; pure ⟨N, b, c⟩
def pSk : P SecretKey := do let p ← pInt; let q ← pInt; pure ⟨p, q⟩
def pCpk : P CommitmentPK := do let N ← pInt; let g ← pVec pInt; let h ← pInt; pure ⟨N, h, g⟩
def pSig : P Signature := do let e ← pInt; let s ← pInt; let v ← pInt; pure ⟨e, s, v⟩
def pBsig : P BlindSignature := do let e ← pInt; let r ← pInt; let v ← pInt; pure ⟨e, r, v⟩
def pCom : P Commitment := do let r ← pInt; let v ← pInt; pure ⟨v, r⟩
def pNs : P NISPSecrets := do let s1 ← pInt; let s2 ← pInt; let t ← pInt; pure ⟨t, s1, s2⟩
def pNms : P NISPMultiSecrets := do let s1 ← pVec pInt; let s2 ← pInt; let t ← pInt; pure ⟨t, s1, s2⟩
def pN2 : P NISP2Commitments := do
  let c ← pInt; let d ← pVec pInt; let d1 ← pInt; let d2 ← pInt; pure ⟨c, d, d1, d2⟩
def pPov : P ProofOfValue := do let c ← pCom; let v ← pNs; pure ⟨v, c⟩
def pSpok : P SignaturePoK := do
  let Ce ← pCom; let Cv ← pCom; let Cw ← pCom; let Cx ← pCom; let c ← pInt
  let s1 ← pInt; let s2 ← pInt; let s3 ← pInt; let s4 ← pInt; let s5 ← pVec pInt
  let s6 ← pInt; let s7 ← pInt; let s8 ← pInt; let s9 ← pInt
  pure { challenge := c, s1, s2, s3, s4, s5, s6, s7, s8, s9, Cx, Cv, Cw, Ce }
def pSs : P ProofSs := do let c ← pInt; let d ← pInt; let d1 ← pInt; let d2 ← pInt; pure ⟨c, d, d1, d2⟩
def pOfS : P ProofOfS := do let E ← pInt; let F ← pInt; let s ← pSs; pure ⟨E, F, s⟩
def pLi : P ProofLi := do let C ← pInt; let d1 ← pInt; let d2 ← pInt; pure ⟨C, d1, d2⟩
def pWt : P ProofWt := do
  let a1 ← pInt; let a2 ← pInt; let b1 ← pInt; let b2 ← pInt
  let la ← pLi; let lb ← pLi; let sa ← pOfS; let sb ← pOfS
  pure ⟨a1, a2, b1, b2, sa, sb, la, lb⟩
def pRp : P RangeProof := do let E ← pInt; let Ep ← pInt; let w ← pWt; pure ⟨w, Ep, E⟩
def pPok : P PoKSignature := do
  let ps ← pVec pPov; let re ← pRp; let rs ← pVec pRp; let sp ← pSpok
  pure ⟨sp, re, ps, rs⟩
def pZk : P ZKPoK := do
  let p2 ← pOpt pN2; let pm ← pNms; let pr ← pPov; let ps ← pVec pPov; let rr ← pRp; let rs ← pVec pRp
  pure ⟨p2, pm, ps, rs, pr, rr⟩

def runP {α} (p : P α) (s : String) : Option α :=
  match p (s.splitOn ",") with
  | some (a, []) => some a
  | _ => none

/-! rendering -/
def hexOfNat (n : Nat) : String :=
  if n == 0 then "0" else String.ofList (Nat.toDigits 16 n)
def rInt (i : Int) : Toks := [if i < 0 then "-" ++ hexOfNat i.natAbs else hexOfNat i.toNat]
def rVec {α} (f : α → Toks) (l : List α) : Toks := s!"#{l.length}" :: l.flatMap f
def rOpt {α} (f : α → Toks) : Option α → Toks | none => ["N"] | some a => f a
def rBool (b : Bool) : Toks := [if b then "T" else "F"]
def rPk (k : PublicKey) : Toks := rInt k.N ++ rInt k.b ++ rInt k.c
def rSk (k : SecretKey) : Toks := rInt k.p ++ rInt k.q
def rCpk (k : CommitmentPK) : Toks := rInt k.N ++ rVec rInt k.gBases ++ rInt k.h
def rSig (s : Signature) : Toks := rInt s.e ++ rInt s.s ++ rInt s.v
def rBsig (s : BlindSignature) : Toks := rInt s.e ++ rInt s.rprime ++ rInt s.v
def rCom (c : Commitment) : Toks := rInt c.randomness ++ rInt c.value
def rNs (p : NISPSecrets) : Toks := rInt p.s1 ++ rInt p.s2 ++ rInt p.t
def rNms (p : NISPMultiSecrets) : Toks := rVec rInt p.s1 ++ rInt p.s2 ++ rInt p.t
def rN2 (p : NISP2Commitments) : Toks := rInt p.challenge ++ rVec rInt p.d ++ rInt p.d1 ++ rInt p.d2
def rPov (p : ProofOfValue) : Toks := rCom p.commitment ++ rNs p.value
def rSpok (p : SignaturePoK) : Toks :=
  rCom p.Ce ++ rCom p.Cv ++ rCom p.Cw ++ rCom p.Cx ++ rInt p.challenge ++ rInt p.s1 ++ rInt p.s2
    ++ rInt p.s3 ++ rInt p.s4 ++ rVec rInt p.s5 ++ rInt p.s6 ++ rInt p.s7 ++ rInt p.s8 ++ rInt p.s9
def rSs (p : ProofSs) : Toks := rInt p.challenge ++ rInt p.d ++ rInt p.d1 ++ rInt p.d2
def rOfS (p : ProofOfS) : Toks := rInt p.E ++ rInt p.F ++ rSs p.proofSs
def rLi (p : ProofLi) : Toks := rInt p.C ++ rInt p.D1 ++ rInt p.D2
def rWt (p : ProofWt) : Toks :=
  rInt p.Ea1 ++ rInt p.Ea2 ++ rInt p.Eb1 ++ rInt p.Eb2 ++ rLi p.largeA ++ rLi p.largeB
    ++ rOfS p.squareA ++ rOfS p.squareB
def rRp (p : RangeProof) : Toks := rInt p.E ++ rInt p.Eprime ++ rWt p.tol
def rPok (p : PoKSignature) : Toks :=
  rVec rPov p.proofsMi ++ rRp p.rangeProofE ++ rVec rRp p.rangeProofsMi ++ rSpok p.spok
def rZk (p : ZKPoK) : Toks :=
  rOpt rN2 p.proofCCtrusted ++ rNms p.proofMsgs ++ rPov p.proofR ++ rVec rPov p.proofsMi
    ++ rRp p.rangeProofR ++ rVec rRp p.rangeProofsMi

def pTape (s : String) : Option (List Draw) :=
  if s == "." then some []
  else (s.splitOn ";").mapM fun e => match e.splitOn ":" with
    | [k, v] => (runP pInt v).map fun i => ⟨k, i⟩
    | _ => none

def render {α} (f : α → Toks) (r : CRes (α × List Draw)) : String :=
  match r with
  | .ok (a, []) => "ok " ++ ",".intercalate (f a)
  | .ok (_, rest) => s!"tape-leftover {rest.length}"
  | .panic => "panic"
  | .tape m => "bad-tape " ++ m

open Zk.Generated in
def suiteOf (name : String) : Option Suite :=
  let mk (c : ClSuiteConsts) : Suite :=
    { secparam := c.secparam, ln := c.ln, lm := c.lm, lin := c.lin, le := c.le, ls := c.ls,
      t := c.t, l := c.l, s := c.s, s1 := c.s1, s2 := c.s2 }
  if name == "cl1024" then some (mk cl1024) else if name == "cl2048" then some (mk cl2048)
  else if name == "cl3072" then some (mk cl3072) else none

/-- big-endian fixed-width digits, Rust `write_digits` into a zeroed buffer (panics when too short). -/
def toDigits (len : Nat) (x : Int) : M Bytes :=
  if x < 0 ∨ x.toNat ≥ 256 ^ len then Cl.panic else pure (i2osp len x.toNat)
def ofDigits (b : Bytes) : Int := Int.ofNat (os2ip b)
def minimalDigits (x : Int) : Bytes := i2osp ((IA.bitLen x + 7) / 8) x.natAbs
def rBytes (b : Bytes) : Toks := [if b.isEmpty then "." else Bytes.toHex b]
def pBytes (s : String) : Option Bytes := if s == "." then some [] else Bytes.ofHex s

def runOp (cs : Suite) (op : String) (a : List String) : Option String :=
  match op, a with
  | "cl.keygen", [tape] => do
    let t ← pTape tape
    pure <| render (fun (k : PublicKey × SecretKey) => rPk k.1 ++ rSk k.2) (keyGen cs t)
  | "cl.bases", [pk, n, tape] => do
    let pk ← runP pPk pk; let n ← n.toNat?; let t ← pTape tape
    pure <| render (rVec rInt) (basesGen pk n t)
  | "cl.cpk", [N, n, tape] => do
    let N ← runP (pOpt pInt) N; let n ← (if n == "N" then some none else n.toNat?.map some); let t ← pTape tape
    pure <| render rCpk (commitmentPkGen cs N n t)
  | "cl.sign", [pk, sk, bases, msg, tape] => do
    let pk ← runP pPk pk; let sk ← runP pSk sk; let bases ← runP (pVec pInt) bases
    let msg ← runP pInt msg; let t ← pTape tape
    pure <| render rSig (sign cs pk sk bases msg t)
  | "cl.signm", [pk, sk, bases, msgs, tape] => do
    let pk ← runP pPk pk; let sk ← runP pSk sk; let bases ← runP (pVec pInt) bases
    let msgs ← runP (pVec pInt) msgs; let t ← pTape tape
    pure <| render rSig (signMultiattr cs pk sk bases msgs t)
  | "cl.verify", [pk, bases, sig, msg] => do
    let pk ← runP pPk pk; let bases ← runP (pVec pInt) bases; let sig ← runP pSig sig; let msg ← runP pInt msg
    pure <| render rBool (verify cs sig pk bases msg [])
  | "cl.verifym", [pk, bases, sig, msgs] => do
    let pk ← runP pPk pk; let bases ← runP (pVec pInt) bases; let sig ← runP pSig sig
    let msgs ← runP (pVec pInt) msgs
    pure <| render rBool (verifyMultiattr cs sig pk bases msgs [])
  | "cl.disclose", [pk, bases, msgs, unrev] => do
    let pk ← runP pPk pk; let bases ← runP (pVec pInt) bases; let msgs ← runP (pVec pInt) msgs
    let u ← runP pIdxVec unrev
    pure <| render (fun (r : List Int × List Int) => rVec rInt r.1 ++ rVec rInt r.2)
      (discloseSelectively msgs bases pk u [])
  | "cl.commitpk", [pk, bases, msgs, unrev, tape] => do
    let pk ← runP pPk pk; let bases ← runP (pVec pInt) bases; let msgs ← runP (pVec pInt) msgs
    let u ← runP (pOpt pIdxVec) unrev; let t ← pTape tape
    pure <| render rCom (commitWithPk cs msgs pk bases u t)
  | "cl.commitcpk", [cpk, msgs, unrev, tape] => do
    let cpk ← runP pCpk cpk; let msgs ← runP (pVec pInt) msgs
    let u ← runP (pOpt pIdxVec) unrev; let t ← pTape tape
    pure <| render rCom (commitWithCpk cs msgs cpk u t)
  | "cl.extend", [c, revealed, pk, bases, ridx] => do
    let c ← runP pCom c; let rv ← runP (pVec pInt) revealed; let pk ← runP pPk pk
    let bases ← runP (pVec pInt) bases; let ri ← runP (pOpt pIdxVec) ridx
    pure <| render rCom (extendCommitmentWithPk c rv pk bases ri [])
  | "cl.extendcpk", [c, msgs, cpk, ridx] => do
    let c ← runP pCom c; let ms ← runP (pVec pInt) msgs; let cpk ← runP pCpk cpk
    let ri ← runP (pOpt pIdxVec) ridx
    pure <| render rCom (extendCommitmentWithCpk c ms cpk ri [])
  | "cl.maphash", [b] => do
    let b ← pBytes b
    pure <| "ok " ++ ",".intercalate (rInt (mapMessageToIntegerAsHash b))
  | "cl.zkgen", [msgs, C, Ct, pk, bases, cpk, unrev, tape] => do
    let msgs ← runP (pVec pInt) msgs; let C ← runP pCom C; let Ct ← runP (pOpt pCom) Ct
    let pk ← runP pPk pk; let bases ← runP (pVec pInt) bases; let cpk ← runP (pOpt pCpk) cpk
    let u ← runP pIdxVec unrev; let t ← pTape tape
    pure <| render rZk (zkpokGen cs msgs C Ct pk bases cpk u t)
  | "cl.zkverify", [zk, Cv, Ctv, pk, bases, cpk, unrev] => do
    let zk ← runP pZk zk; let Cv ← runP pInt Cv; let Ctv ← runP (pOpt pInt) Ctv
    let pk ← runP pPk pk; let bases ← runP (pVec pInt) bases; let cpk ← runP (pOpt pCpk) cpk
    let u ← runP pIdxVec unrev
    pure <| render rBool (zkpokVerify cs zk Cv Ctv pk bases cpk u [])
  | "cl.blindsign", [pk, sk, bases, zk, revealed, C, Ctv, cpk, unrev, ridx, tape] => do
    let pk ← runP pPk pk; let sk ← runP pSk sk; let bases ← runP (pVec pInt) bases; let zk ← runP pZk zk
    let rv ← runP (pOpt (pVec pInt)) revealed; let C ← runP pCom C; let Ctv ← runP (pOpt pInt) Ctv
    let cpk ← runP (pOpt pCpk) cpk; let u ← runP pIdxVec unrev; let ri ← runP (pOpt pIdxVec) ridx
    let t ← pTape tape
    pure <| render rBsig (blindSign cs pk sk bases zk rv C Ctv cpk u ri t)
  | "cl.unblind", [bs, C] => do
    let bs ← runP pBsig bs; let C ← runP pCom C
    pure <| "ok " ++ ",".intercalate (rSig (unblindSign bs C))
  | "cl.update", [bs, revealed, C, sk, pk, bases, ridx] => do
    let bs ← runP pBsig bs; let rv ← runP (pOpt (pVec pInt)) revealed; let C ← runP pCom C
    let sk ← runP pSk sk; let pk ← runP pPk pk; let bases ← runP (pVec pInt) bases
    let ri ← runP (pOpt pIdxVec) ridx
    pure <| render rBsig (updateSignature bs rv C sk pk bases ri [])
  | "cl.pokgen", [sig, cpk, pk, bases, msgs, unrev, tape] => do
    let sig ← runP pSig sig; let cpk ← runP pCpk cpk; let pk ← runP pPk pk
    let bases ← runP (pVec pInt) bases; let msgs ← runP (pVec pInt) msgs; let u ← runP pIdxVec unrev
    let t ← pTape tape
    pure <| render rPok (proofGen cs sig cpk pk bases msgs u t)
  | "cl.pokverify", [pok, cpk, pk, bases, revealed, unrev, n] => do
    let pok ← runP pPok pok; let cpk ← runP pCpk cpk; let pk ← runP pPk pk
    let bases ← runP (pVec pInt) bases; let rv ← runP (pVec pInt) revealed; let u ← runP pIdxVec unrev
    let n ← n.toNat?
    pure <| render rBool (proofVerify cs pok cpk pk bases rv u n [])
  | "cl.rprove", [value, C, g, h, n, rmin, rmax, tape] => do
    let value ← runP pInt value; let C ← runP pCom C; let g ← runP pInt g; let h ← runP pInt h
    let n ← runP pInt n; let rmin ← runP pInt rmin; let rmax ← runP pInt rmax; let t ← pTape tape
    pure <| render rRp (rangeProve cs value C g h n rmin rmax t)
  | "cl.rverify", [rp, g, h, n, rmin, rmax] => do
    let rp ← runP pRp rp; let g ← runP pInt g; let h ← runP pInt h
    let n ← runP pInt n; let rmin ← runP pInt rmin; let rmax ← runP pInt rmax
    pure <| render rBool (rangeVerify cs rp g h n rmin rmax [])
  | "cl.pkbytes", [pk] => do
    let pk ← runP pPk pk
    let m : M Bytes := do
      let a ← toDigits cs.ln pk.N; let b ← toDigits cs.ln pk.b; let c ← toDigits cs.ln pk.c
      pure (a ++ b ++ c)
    pure <| render rBytes (m [])
  | "cl.pkfrombytes", [b] => do
    let b ← pBytes b
    let n := cs.ln
    if b.length < 3 * n ∨ (b.length - 3 * n) % n ≠ 0 then pure "panic"
    else pure <| "ok " ++ ",".intercalate (rPk ⟨ofDigits (b.take n), ofDigits ((b.drop n).take n), ofDigits ((b.drop (2 * n)).take n)⟩)
  | "cl.skbytes", [sk] => do
    let sk ← runP pSk sk
    let d := cs.secparam / 8 + 1
    let m : M Bytes := do let a ← toDigits d sk.p; let b ← toDigits d sk.q; pure (a ++ b)
    pure <| render rBytes (m [])
  | "cl.skfrombytes", [b] => do
    let b ← pBytes b
    let d := cs.secparam / 8 + 1
    if b.length < 2 * d then pure "panic"
    else pure <| "ok " ++ ",".intercalate (rSk ⟨ofDigits (b.take d), ofDigits ((b.drop d).take d)⟩)
  | "cl.sigbytes", [sig] => do
    let sig ← runP pSig sig
    let m : M Bytes := do
      let a ← toDigits cs.le sig.e; let b ← toDigits cs.ls sig.s
      pure (a ++ b ++ minimalDigits sig.v)
    pure <| render rBytes (m [])
  | "cl.sigfrombytes", [b] => do
    let b ← pBytes b
    if b.length < cs.le + cs.ls then pure "panic"
    else
      let σ : Signature := ⟨ofDigits (b.take cs.le), ofDigits ((b.drop cs.le).take cs.ls), ofDigits (b.drop (cs.le + cs.ls))⟩
      pure ("ok " ++ ",".intercalate (rSig σ))
  | _, _ => none

def runLine (line : String) : String :=
  let lhs := (line.splitOn " => ").headD ""
  match lhs.trimAscii.toString.splitOn " " with
  | id :: suite :: op :: args =>
    match suiteOf suite with
    | none => s!"{id} bad-suite"
    | some cs =>
      match runOp cs op args with
      | some r => s!"{id} {r}"
      | none => s!"{id} bad-line"
  | _ => "? bad-line"

end Zk.ClDriver
