/-
The executable instance of the L1 model: BLS12-381 from L0.
`Fr` wraps `Nat` (reduced mod `R`) so that the scalar-field instances do not clash with `Nat`'s.
-/
import ZkModel.L0.Fp
import ZkModel.L0.Expand
import ZkModel.L0.G1
import ZkModel.L0.HashToCurve
import ZkModel.L0.G2
import ZkModel.L0.Pairing
import ZkModel.L1.Bbs
import ZkModel.Generated.Constants
namespace Zk

structure Fr where
  v : Nat
deriving DecidableEq, Repr, Inhabited

instance : Zero Fr := ⟨⟨0⟩⟩
instance : One Fr := ⟨⟨1⟩⟩
instance : Add Fr := ⟨fun a b => ⟨Fr.add a.v b.v⟩⟩
instance : Sub Fr := ⟨fun a b => ⟨Fr.sub a.v b.v⟩⟩
instance : Neg Fr := ⟨fun a => ⟨Fr.neg a.v⟩⟩
instance : Mul Fr := ⟨fun a b => ⟨Fr.mul a.v b.v⟩⟩

instance : Zero G1Pt := ⟨G1Pt.zero⟩
instance : Add G1Pt := ⟨G1.add⟩
instance : Sub G1Pt := ⟨G1.sub⟩
instance : Neg G1Pt := ⟨G1.neg⟩
instance : SMul Fr G1Pt := ⟨fun s p => G1.mul s.v p⟩

instance : Zero G2Pt := ⟨G2Pt.zero⟩
instance : Add G2Pt := ⟨G2.add⟩
instance : Neg G2Pt := ⟨G2.neg⟩
instance : SMul Fr G2Pt := ⟨fun s p => G2.mul s.v p⟩

namespace Concrete

def sDec (b : Bytes) : Option Fr :=
  if b.length ≠ 32 then none
  else let n := os2ip b; if n < R then some ⟨n⟩ else none

def expand (xof : Bool) (msg dst : Bytes) (len : Nat) : Option Bytes :=
  if xof then expandXof msg dst len else expandXmd msg dst len

def env : Env Fr G1Pt G2Pt where
  sInv := fun s => if s.v = 0 then none else some ⟨Fr.inv s.v⟩
  sEnc := fun s => i2osp 32 s.v
  sDec := sDec
  okm := fun b => ⟨os2ip b % R⟩
  g1Enc := G1.toCompressed
  g1Dec := G1.fromCompressed
  g2Enc := G2.toCompressed
  g2Dec := G2.fromCompressed
  g2EncU := G2.toUncompressed
  g2DecU := G2.fromUncompressed
  bp2 := G2.gen
  pairingCheck := pairingProductIsOne
  expand := expand
  hashToG1 := fun xof msg dst => hashToG1 (expand xof) msg dst

open Generated in
def shaSuite? : Option (Suite G1Pt) :=
  (G1.fromCompressed Sha.p1).map fun p1 =>
    { xof := Sha.xof, apiId := Sha.apiId, apiIdBlind := Sha.apiIdBlind, keygenDst := Sha.keygenDst,
      generatorSeed := Sha.generatorSeed, generatorSeedDst := Sha.generatorSeedDst,
      generatorDst := Sha.generatorDst, mapMsgScalar := Sha.mapMsgScalar, h2s := Sha.h2s,
      expandLen := Sha.expandLen, ikmLen := Sha.ikmLen, p1 := p1 }

open Generated in
def shakeSuite? : Option (Suite G1Pt) :=
  (G1.fromCompressed Shake.p1).map fun p1 =>
    { xof := Shake.xof, apiId := Shake.apiId, apiIdBlind := Shake.apiIdBlind, keygenDst := Shake.keygenDst,
      generatorSeed := Shake.generatorSeed, generatorSeedDst := Shake.generatorSeedDst,
      generatorDst := Shake.generatorDst, mapMsgScalar := Shake.mapMsgScalar, h2s := Shake.h2s,
      expandLen := Shake.expandLen, ikmLen := Shake.ikmLen, p1 := p1 }

end Concrete
end Zk
