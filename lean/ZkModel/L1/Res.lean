/-
L1: outcome type of every modelled Rust function.
`ok a`  = `Ok(a)`; `err` = `Err(_)` (error kinds are deliberately not modelled);
`panic` = the Rust code would panic (slice out of range, `unwrap` on `None`, arithmetic
overflow in a build with overflow checks).
-/
import ZkModel.L0.Bytes
namespace Zk

inductive Res (α : Type) where
  | ok (a : α)
  | err
  | panic
deriving Repr, DecidableEq, Inhabited

namespace Res
@[inline] def bind {α β} (x : Res α) (f : α → Res β) : Res β :=
  match x with
  | ok a => f a
  | err => err
  | panic => panic

instance : Monad Res where
  pure := ok
  bind := bind

/-- `Option` → `Res`, `none ↦ Err`. -/
@[inline] def ofOptErr {α} : Option α → Res α
  | some a => ok a
  | none => err
/-- `Option` → `Res`, `none ↦ panic` (`unwrap`). -/
@[inline] def ofOptPanic {α} : Option α → Res α
  | some a => ok a
  | none => panic

def isOk {α} : Res α → Bool
  | ok _ => true
  | _ => false

@[simp] theorem bind_ok {α β} (a : α) (f : α → Res β) : (ok a >>= f) = f a := rfl
@[simp] theorem bind_err {α β} (f : α → Res β) : ((err : Res α) >>= f) = err := rfl
@[simp] theorem bind_panic {α β} (f : α → Res β) : ((panic : Res α) >>= f) = panic := rfl
@[simp] theorem pure_eq {α} (a : α) : (pure a : Res α) = ok a := rfl
end Res

/-- `usize` addition with overflow check (64-bit target). -/
def uAdd? (a b : Nat) : Option Nat := if a + b < 2 ^ 64 then some (a + b) else none
/-- `usize` subtraction with underflow check. -/
def uSub? (a b : Nat) : Option Nat := if b ≤ a then some (a - b) else none

/-- `Res` version of `List.mapM` written structurally (easier to reason about). -/
def mapRes {α β} (f : α → Res β) : List α → Res (List β)
  | [] => .ok []
  | a :: as =>
    match f a with
    | .ok b => (match mapRes f as with
        | .ok bs => .ok (b :: bs)
        | .err => .err
        | .panic => .panic)
    | .err => .err
    | .panic => .panic

end Zk
