/-
L1: the BBS / Blind-BBS protocol model.

One Lean function per Rust function of `src/bbsplus` and `src/utils/{util,message}.rs`
(same name in camelCase, same argument order, same `Option` defaulting, same order of checks).
The model never mentions BLS12-381: the algebra comes in through core type classes
(`Add`, `Neg`, `SMul`, …) and everything else (codecs, hashing, pairing) through `Env`.
It is instantiated with the L0 implementation for running (`ZkModel/Concrete.lean`) and with
arbitrary Mathlib fields/modules for proving (`ZkProofs`).

Import-free (core only).
-/
import ZkModel.L0.Bytes
import ZkModel.L1.Res
namespace Zk

/-- Per-ciphersuite constants (`trait BbsCiphersuite`). Regenerated from the Rust on every
run into `ZkModel/Generated/Constants.lean`. -/
structure Suite (G1 : Type) where
  xof : Bool
  apiId : Bytes
  apiIdBlind : Bytes
  keygenDst : Bytes
  generatorSeed : Bytes
  generatorSeedDst : Bytes
  generatorDst : Bytes
  mapMsgScalar : Bytes
  h2s : Bytes
  expandLen : Nat
  ikmLen : Nat
  p1 : G1

/-- Everything that is not group/field algebra. -/
structure Env (S G1 G2 : Type) where
  sInv : S → Option S
  sEnc : S → Bytes
  sDec : Bytes → Option S
  /-- `Scalar::from_okm` (48 bytes, big-endian, reduced mod r). -/
  okm : Bytes → S
  g1Enc : G1 → Bytes
  g1Dec : Bytes → Option G1
  g2Enc : G2 → Bytes
  g2Dec : Bytes → Option G2
  g2EncU : G2 → Bytes
  g2DecU : Bytes → Option G2
  bp2 : G2
  /-- `multi_miller_loop(..).final_exponentiation() == identity`. -/
  pairingCheck : List (G1 × G2) → Bool
  /-- `expand_message_{xmd,xof}`; the `Bool` is `Suite.xof`. -/
  expand : Bool → Bytes → Bytes → Nat → Option Bytes
  /-- `G1Projective::hash::<Expander>(msg, dst)`. -/
  hashToG1 : Bool → Bytes → Bytes → Option G1

structure Generators (G1 : Type) where
  base : G1
  values : List G1

structure Signature (S G1 : Type) where
  A : G1
  e : S

structure PoKSignature (S G1 : Type) where
  Abar : G1
  Bbar : G1
  D : G1
  eCap : S
  r1Cap : S
  r3Cap : S
  mCap : List S
  challenge : S

structure ZKPoK (S : Type) where
  sCap : S
  mCap : List S
  challenge : S

structure Commitment (S G1 : Type) where
  commitment : G1
  proof : ZKPoK S

structure ProofInitResult (S G1 : Type) where
  Abar : G1
  Bbar : G1
  D : G1
  T1 : G1
  T2 : G1
  domain : S

instance {S G1} [DecidableEq S] [DecidableEq G1] : DecidableEq (Signature S G1) := fun a b => by
  cases a; cases b; simp only [Signature.mk.injEq]; exact inferInstance
instance {S} [DecidableEq S] : DecidableEq (ZKPoK S) := fun a b => by
  cases a; cases b; simp only [ZKPoK.mk.injEq]; exact inferInstance
instance {S G1} [DecidableEq S] [DecidableEq G1] : DecidableEq (PoKSignature S G1) := fun a b => by
  cases a; cases b; simp only [PoKSignature.mk.injEq]; exact inferInstance
instance {S G1} [DecidableEq S] [DecidableEq G1] : DecidableEq (Commitment S G1) := fun a b => by
  cases a; cases b; simp only [Commitment.mk.injEq]; exact inferInstance

/-! ### index helpers (`src/utils/util.rs`) -/

/-- `get_remaining_indexes(length, indexes)`: ascending list of `i < length` not in `indexes`. -/
def getRemainingIndexes (length : Nat) (indexes : List Nat) : List Nat :=
  (List.range length).filter fun i => !indexes.contains i

/-- `Vec::dedup` (removes consecutive repeats). -/
def dedupAdj : List Nat → List Nat
  | [] => []
  | [a] => [a]
  | a :: b :: rest => if a = b then dedupAdj (b :: rest) else a :: dedupAdj (b :: rest)

/-- `v.sort(); v.dedup()`. -/
def sortDedup (l : List Nat) : List Nat := dedupAdj (l.mergeSort (· ≤ ·))

/-- `v[i]` with Rust's bounds-check panic. -/
def idx {α} (l : List α) (i : Nat) : Res α := Res.ofOptPanic l[i]?

/-- `get_messages(messages, indexes)` (panics on a bad index). -/
def getMessages {α} (messages : List α) (indexes : List Nat) : Res (List α) :=
  mapRes (idx messages) indexes

section
variable {S G1 G2 : Type}
variable [Zero S] [One S] [Add S] [Sub S] [Neg S] [Mul S] [DecidableEq S]
variable [Zero G1] [Add G1] [Sub G1] [Neg G1] [SMul S G1] [DecidableEq G1]
variable [Zero G2] [Add G2] [Neg G2] [SMul S G2] [DecidableEq G2]

/-! ### `src/utils/util.rs` -/

/-- `hash_to_scalar::<CS>(msg, dst)`. -/
def hashToScalar (env : Env S G1 G2) (cs : Suite G1) (msg dst : Bytes) : Res S :=
  if dst.length > 255 then .err
  else match env.expand cs.xof msg dst cs.expandLen with
    | none => .err
    | some u => if u.length ≠ 48 then .err else .ok (env.okm u)

/-- The octet string hashed by `calculate_domain`. -/
def domainInput (env : Env S G1 G2) (pk : G2) (Q1 : G1) (Hs : List G1) (header apiId : Bytes) :
    Bytes :=
  env.g2Enc pk ++ (i2osp 8 Hs.length ++ env.g1Enc Q1 ++ Hs.flatMap env.g1Enc ++ apiId)
    ++ i2osp 8 header.length ++ header

/-- `calculate_domain::<CS>(pk, Q1, H_points, header, api_id)`. -/
def calculateDomain (env : Env S G1 G2) (cs : Suite G1) (pk : G2) (Q1 : G1) (Hs : List G1)
    (header : Option Bytes) (apiId : Option Bytes) : Res S :=
  let header := header.getD []
  let apiId := apiId.getD []
  hashToScalar env cs (domainInput env pk Q1 Hs header apiId) (apiId ++ cs.h2s)

/-- `serialize(&[Scalar])`. -/
def serializeScalars (env : Env S G1 G2) (l : List S) : Bytes := l.flatMap env.sEnc

/-- The octet string hashed by `calculate_blind_challenge`. -/
def blindChallengeInput (env : Env S G1 G2) (C Cbar : G1) (gens : List G1) : Bytes :=
  i2osp 8 (gens.length - 1) ++ gens.flatMap env.g1Enc ++ env.g1Enc C ++ env.g1Enc Cbar

/-- `calculate_blind_challenge::<CS>(C, Cbar, generators, api_id)`. -/
def calculateBlindChallenge (env : Env S G1 G2) (cs : Suite G1) (C Cbar : G1) (gens : List G1)
    (apiId : Option Bytes) : Res S :=
  if gens.length = 0 then .err
  else
    let apiId := apiId.getD []
    hashToScalar env cs (blindChallengeInput env C Cbar gens) (apiId ++ cs.h2s)

/-! ### `src/utils/message.rs` -/

/-- `BBSplusMessage::map_message_to_scalar_as_hash::<CS>(data, api_id)`. -/
def mapMessageToScalarAsHash (env : Env S G1 G2) (cs : Suite G1) (data apiId : Bytes) : Res S :=
  hashToScalar env cs data (apiId ++ cs.mapMsgScalar)

/-- `BBSplusMessage::messages_to_scalar::<CS>(messages, api_id)`. -/
def messagesToScalar (env : Env S G1 G2) (cs : Suite G1) (messages : List Bytes) (apiId : Bytes) :
    Res (List S) :=
  mapRes (fun m => hashToScalar env cs m (apiId ++ cs.mapMsgScalar)) messages

/-! ### `src/bbsplus/generators.rs` -/

/-- The loop of `create_generators`: `n` more generators, next counter `i`, chaining value `v`. -/
def genLoop (env : Env S G1 G2) (cs : Suite G1) (seedDst genDst : Bytes) :
    Nat → Nat → Bytes → Res (List G1)
  | 0, _, _ => .ok []
  | n + 1, i, v =>
    match env.expand cs.xof (v ++ i2osp 8 i) seedDst cs.expandLen with
    | none => .panic
    | some v' =>
      match env.hashToG1 cs.xof v' genDst with
      | none => .panic
      | some g =>
        match genLoop env cs seedDst genDst n (i + 1) v' with
        | .ok gs => .ok (g :: gs)
        | .err => .err
        | .panic => .panic

/-- `create_generators::<CS>(count, api_id)`. -/
def createGenerators (env : Env S G1 G2) (cs : Suite G1) (count : Nat) (apiId : Option Bytes) :
    Res (List G1) :=
  let apiId := apiId.getD []
  let seedDst := apiId ++ cs.generatorSeedDst
  let genDst := apiId ++ cs.generatorDst
  let genSeed := apiId ++ cs.generatorSeed
  match env.expand cs.xof genSeed seedDst cs.expandLen with
  | none => .panic
  | some v => genLoop env cs seedDst genDst count 1 v

/-- `Generators::create::<CS>(count, api_id)`. -/
def Generators.create (env : Env S G1 G2) (cs : Suite G1) (count : Nat) (apiId : Option Bytes) :
    Res (Generators G1) :=
  match createGenerators env cs count apiId with
  | .ok vs => .ok { base := cs.p1, values := vs }
  | .err => .err
  | .panic => .panic

/-! ### `src/bbsplus/keys.rs` -/

/-- The octet string hashed by `key_gen`. -/
def keygenInput (keyMaterial keyInfo : Bytes) : Bytes :=
  keyMaterial ++ i2osp 2 keyInfo.length ++ keyInfo

/-- `key_gen::<CS>(key_material, key_info, key_dst)`. -/
def keyGen (env : Env S G1 G2) (cs : Suite G1) (keyMaterial : Bytes) (keyInfo keyDst : Option Bytes) :
    Res S :=
  if keyMaterial.length < cs.ikmLen then .err
  else
    let keyInfo := keyInfo.getD []
    if keyInfo.length > 65535 then .err
    else
      let keyDst := keyDst.getD (cs.apiId ++ cs.keygenDst)
      hashToScalar env cs (keygenInput keyMaterial keyInfo) keyDst

/-- `sk_to_pk(sk)`. -/
def skToPk (env : Env S G1 G2) (sk : S) : G2 := sk • env.bp2

/-- `BBSplusPublicKey::from_bytes`. -/
def pkFromBytes (env : Env S G1 G2) (b : Bytes) : Res G2 :=
  if b.length ≠ 96 then .err
  else match env.g2Dec b with
    | none => .err
    | some g => if g = 0 then .err else .ok g

def pkToBytes (env : Env S G1 G2) (pk : G2) : Bytes := env.g2Enc pk

/-- `BBSplusPublicKey::to_coordinates`. -/
def pkToCoordinates (env : Env S G1 G2) (pk : G2) : Bytes × Bytes :=
  let u := env.g2EncU pk
  (u.take 96, u.drop 96)

/-- `BBSplusPublicKey::from_coordinates` (both arguments are `[u8; 96]`). -/
def pkFromCoordinates (env : Env S G1 G2) (x y : Bytes) : Res G2 :=
  if x.length ≠ 96 ∨ y.length ≠ 96 then .err
  else match env.g2DecU (x ++ y) with
    | none => .err
    | some g => if g = 0 then .err else .ok g

/-- `BBSplusSecretKey::from_bytes`. -/
def skFromBytes (env : Env S G1 G2) (b : Bytes) : Res S :=
  if b.length ≠ 32 then .err else Res.ofOptErr (env.sDec b)

/-! ### `src/bbsplus/signature.rs` -/

/-- `BBSplusSignature::to_bytes`. -/
def Signature.toBytes (env : Env S G1 G2) (σ : Signature S G1) : Bytes :=
  env.g1Enc σ.A ++ env.sEnc σ.e

/-- `BBSplusSignature::from_bytes` preceded by the caller's `try_into::<[u8; 80]>`. -/
def Signature.fromBytes (env : Env S G1 G2) (b : Bytes) : Res (Signature S G1) :=
  if b.length ≠ 80 then .err
  else match env.g1Dec (b.take 48) with
    | none => .err
    | some A => match env.sDec (b.drop 48) with
      | none => .err
      | some e => if A = 0 ∨ e = 0 then .err else .ok ⟨A, e⟩

/-- `B = P1 + Q1 * domain + Σ H_i * msg_i` (the loop `for i in 0..L`). -/
def calcB (base Q1 : G1) (domain : S) (Hs : List G1) (msgs : List S) : G1 :=
  (Hs.zip msgs).foldl (fun B hm => B + hm.2 • hm.1) (base + domain • Q1)

/-- `core_sign::<CS>(sk, pk, generators, header, messages, api_id)`. -/
def coreSign (env : Env S G1 G2) (cs : Suite G1) (sk : S) (pk : G2) (gens : Generators G1)
    (header : Option Bytes) (msgs : List S) (apiId : Option Bytes) : Res (Signature S G1) :=
  if gens.values.length ≠ msgs.length + 1 then .err
  else match gens.values with
    | [] => .panic
    | Q1 :: Hs =>
      let apiId := apiId.getD []
      match calculateDomain env cs pk Q1 Hs header (some apiId) with
      | .err => .err
      | .panic => .panic
      | .ok domain =>
        match hashToScalar env cs (serializeScalars env (sk :: msgs ++ [domain])) (apiId ++ cs.h2s) with
        | .err => .err
        | .panic => .panic
        | .ok e =>
          let B := calcB gens.base Q1 domain Hs msgs
          match env.sInv (sk + e) with
          | none => .panic
          | some inv =>
            let A := inv • B
            if A = 0 then .err else .ok ⟨A, e⟩

/-- `core_verify::<CS>(pk, signature, messages, generators, header, api_id)`. -/
def coreVerify (env : Env S G1 G2) (cs : Suite G1) (pk : G2) (σ : Signature S G1) (msgs : List S)
    (gens : Generators G1) (header : Option Bytes) (apiId : Option Bytes) : Res Unit :=
  if gens.values.length ≠ msgs.length + 1 then .err
  else match gens.values with
    | [] => .panic
    | Q1 :: Hs =>
      match calculateDomain env cs pk Q1 Hs header apiId with
      | .err => .err
      | .panic => .panic
      | .ok domain =>
        let B := calcB gens.base Q1 domain Hs msgs
        if env.pairingCheck [(σ.A, pk + σ.e • env.bp2), (B, -env.bp2)] then .ok () else .err

/-- `Signature::<BBSplus<CS>>::sign(messages, sk, pk, header)`. -/
def sign (env : Env S G1 G2) (cs : Suite G1) (messages : Option (List Bytes)) (sk : S) (pk : G2)
    (header : Option Bytes) : Res (Signature S G1) :=
  let messages := messages.getD []
  match messagesToScalar env cs messages cs.apiId with
  | .err => .err
  | .panic => .panic
  | .ok ms =>
    match Generators.create env cs (messages.length + 1) (some cs.apiId) with
    | .err => .err
    | .panic => .panic
    | .ok gens => coreSign env cs sk pk gens header ms (some cs.apiId)

/-- `Signature::<BBSplus<CS>>::verify(&self, pk, messages, header)`. -/
def verify (env : Env S G1 G2) (cs : Suite G1) (σ : Signature S G1) (pk : G2)
    (messages : Option (List Bytes)) (header : Option Bytes) : Res Unit :=
  let messages := messages.getD []
  match messagesToScalar env cs messages cs.apiId with
  | .err => .err
  | .panic => .panic
  | .ok ms =>
    match Generators.create env cs (messages.length + 1) (some cs.apiId) with
    | .err => .err
    | .panic => .panic
    | .ok gens => coreVerify env cs pk σ ms gens header (some cs.apiId)

/-- `Signature::<BBSplus<CS>>::update_signature(&self, sk, old_message, new_message, update_index, n)`. -/
def updateSignature (env : Env S G1 G2) (cs : Suite G1) (σ : Signature S G1) (sk : S)
    (oldMessage newMessage : Bytes) (updateIndex n : Nat) : Res (Signature S G1) :=
  if n = 2 ^ 64 - 1 ∨ updateIndex ≥ n then .err
  else
    match Generators.create env cs (n + 1) (some cs.apiId) with
    | .err => .err
    | .panic => .panic
    | .ok gens =>
      if gens.values.length ≤ updateIndex + 1 then .err
      else
        match mapMessageToScalarAsHash env cs oldMessage cs.apiId with
        | .err => .err
        | .panic => .panic
        | .ok oldS =>
          match mapMessageToScalarAsHash env cs newMessage cs.apiId with
          | .err => .err
          | .panic => .panic
          | .ok newS =>
            match gens.values.tail[updateIndex]? with
            | none => .err
            | some Hi =>
              let skE := sk + σ.e
              let B := skE • σ.A
              let B := B + oldS • (-Hi)
              let B := B + newS • Hi
              match env.sInv skE with
              | none => .err
              | some inv =>
                let A := inv • B
                if A = 0 then .err else .ok ⟨A, σ.e⟩

/-! ### `src/bbsplus/proof.rs` -/

/-- `BBSplusPoKSignature::to_bytes`. -/
def PoKSignature.toBytes (env : Env S G1 G2) (π : PoKSignature S G1) : Bytes :=
  env.g1Enc π.Abar ++ env.g1Enc π.Bbar ++ env.g1Enc π.D ++ env.sEnc π.eCap ++ env.sEnc π.r1Cap
    ++ env.sEnc π.r3Cap ++ π.mCap.flatMap env.sEnc ++ env.sEnc π.challenge

/-- Split into 32-byte chunks (`chunks_exact(32)`; the caller has checked divisibility). -/
def chunks32 : Nat → Bytes → List Bytes
  | 0, _ => []
  | n + 1, b => if b.length < 32 then [] else b.take 32 :: chunks32 n (b.drop 32)

/-- Decode every chunk as a scalar (`Err` on the first failure). -/
def decodeScalars (env : Env S G1 G2) (cs : List Bytes) : Res (List S) :=
  mapRes (fun c => Res.ofOptErr (env.sDec c)) cs

/-- `BBSplusPoKSignature::from_bytes`. -/
def PoKSignature.fromBytes (env : Env S G1 G2) (b : Bytes) : Res (PoKSignature S G1) :=
  if b.length < 272 ∨ (b.length - 240) % 32 ≠ 0 then .err
  else match env.g1Dec (b.take 48) with
    | none => .err
    | some Abar => match env.g1Dec ((b.drop 48).take 48) with
      | none => .err
      | some Bbar => match env.g1Dec ((b.drop 96).take 48) with
        | none => .err
        | some D =>
          if Abar = 0 ∨ Bbar = 0 ∨ D = 0 then .err
          else match env.sDec ((b.drop 144).take 32) with
            | none => .err
            | some eCap => match env.sDec ((b.drop 176).take 32) with
              | none => .err
              | some r1Cap => match env.sDec ((b.drop 208).take 32) with
                | none => .err
                | some r3Cap =>
                  let rest := b.drop 240
                  match decodeScalars env (chunks32 rest.length rest) with
                  | .err => .err
                  | .panic => .panic
                  | .ok ss =>
                    match ss.getLast? with
                    | none => .err
                    | some c => .ok ⟨Abar, Bbar, D, eCap, r1Cap, r3Cap, ss.dropLast, c⟩

/-- `BBSplusZKPoK::to_bytes`. -/
def ZKPoK.toBytes (env : Env S G1 G2) (z : ZKPoK S) : Bytes :=
  env.sEnc z.sCap ++ z.mCap.flatMap env.sEnc ++ env.sEnc z.challenge

/-- `BBSplusZKPoK::from_bytes`. -/
def ZKPoK.fromBytes (env : Env S G1 G2) (b : Bytes) : Res (ZKPoK S) :=
  if b.length < 64 ∨ b.length % 32 ≠ 0 then .err
  else match env.sDec (b.take 32) with
    | none => .err
    | some sCap =>
      let rest := b.drop 32
      match decodeScalars env (chunks32 rest.length rest) with
      | .err => .err
      | .panic => .panic
      | .ok ss =>
        match ss.getLast? with
        | none => .err
        | some c => .ok ⟨sCap, ss.dropLast, c⟩

/-- The octet string hashed by `proof_challenge_calculate`. -/
def challengeInput (env : Env S G1 G2) (init : ProofInitResult S G1) (di : List Nat) (dm : List S)
    (ph : Bytes) : Bytes :=
  i2osp 8 di.length ++ (di.zip dm).flatMap (fun im => i2osp 8 im.1 ++ env.sEnc im.2)
    ++ env.g1Enc init.Abar ++ env.g1Enc init.Bbar ++ env.g1Enc init.D ++ env.g1Enc init.T1
    ++ env.g1Enc init.T2 ++ env.sEnc init.domain ++ i2osp 8 ph.length ++ ph

/-- `proof_challenge_calculate::<CS>(init_res, disclosed_indexes, disclosed_messages, ph, api_id)`. -/
def proofChallengeCalculate (env : Env S G1 G2) (cs : Suite G1) (init : ProofInitResult S G1)
    (di : List Nat) (dm : List S) (ph : Option Bytes) (apiId : Option Bytes) : Res S :=
  if dm.length ≠ di.length then .err
  else
    let apiId := apiId.getD []
    let ph := ph.getD []
    hashToScalar env cs (challengeInput env init di dm ph) (apiId ++ cs.h2s)

/-- `Σ_j scal[j] * H_points[idxs[j]]` added to `acc`, for `j` in `0..scal.len()`; panics when
`idxs` is shorter than `scal` or an index is out of range. -/
def sumIndexed (Hs : List G1) (acc : G1) : List Nat → List S → Res G1
  | _, [] => .ok acc
  | [], _ :: _ => .panic
  | i :: is, s :: ss =>
    match Hs[i]? with
    | none => .panic
    | some h => sumIndexed Hs (acc + s • h) is ss

/-- `proof_init::<CS>(pk, signature, generators, random_scalars, header, messages, undisclosed_indexes, api_id)`. -/
def proofInit (env : Env S G1 G2) (cs : Suite G1) (pk : G2) (σ : Signature S G1)
    (gens : Generators G1) (rs : List S) (header : Option Bytes) (msgs : List S)
    (undisclosed : List Nat) (apiId : Option Bytes) : Res (ProofInitResult S G1) :=
  let U := undisclosed.length
  if rs.length ≠ 5 + U then .err
  else if gens.values.length ≠ msgs.length + 1 then .err
  else match gens.values, rs with
    | Q1 :: Hs, r1 :: r2 :: eT :: r1T :: r3T :: mT =>
      match calculateDomain env cs pk Q1 Hs header apiId with
      | .err => .err
      | .panic => .panic
      | .ok domain =>
        let B := calcB gens.base Q1 domain Hs msgs
        let D := r2 • B
        let Abar := (r1 * r2) • σ.A
        let Bbar := r1 • D - σ.e • Abar
        let T1 := eT • Abar + r1T • D
        match sumIndexed Hs (r3T • D) undisclosed mT with
        | .err => .err
        | .panic => .panic
        | .ok T2 => .ok ⟨Abar, Bbar, D, T1, T2, domain⟩
    | _, _ => .panic

/-- `proof_finalize(init_res, challenge, e, random_scalars, undisclosed_messages)`. -/
def proofFinalize (env : Env S G1 G2) (init : ProofInitResult S G1) (c e : S) (rs : List S)
    (undisclosedMsgs : List S) : Res (PoKSignature S G1) :=
  match rs with
  | r1 :: r2 :: eT :: r1T :: r3T :: mT =>
    if mT.length < undisclosedMsgs.length then .panic
    else match env.sInv r2 with
      | none => .err
      | some r3 =>
        let eCap := eT + e * c
        let r1Cap := r1T - r1 * c
        let r3Cap := r3T - r3 * c
        let mCap := (mT.zip undisclosedMsgs).map fun tm => tm.1 + tm.2 * c
        .ok ⟨init.Abar, init.Bbar, init.D, eCap, r1Cap, r3Cap, mCap, c⟩
  | _ => .panic

/-- `core_proof_gen::<CS>(…)`; `tape` = the output of `calculate_random_scalars(5 + U)`. -/
def coreProofGen (env : Env S G1 G2) (cs : Suite G1) (pk : G2) (σ : Signature S G1)
    (gens : Generators G1) (msgs : List S) (disclosedIndexes : List Nat)
    (header ph : Option Bytes) (apiId : Option Bytes) (tape : List S) : Res (PoKSignature S G1) :=
  let L := msgs.length
  if gens.values.length = 0 then .panic
  else if L > gens.values.length - 1 then .err
  else
    let di := sortDedup disclosedIndexes
    let R := di.length
    if R > L then .err
    else
      let U := L - R
      if di.any (fun i => i > L - 1) then .err
      else
        let undisclosed := getRemainingIndexes L di
        match getMessages msgs di with
        | .err => .err
        | .panic => .panic
        | .ok dms =>
          match getMessages msgs undisclosed with
          | .err => .err
          | .panic => .panic
          | .ok ums =>
            let rs := tape.take (5 + U)
            match proofInit env cs pk σ gens rs header msgs undisclosed apiId with
            | .err => .err
            | .panic => .panic
            | .ok init =>
              match proofChallengeCalculate env cs init di dms ph apiId with
              | .err => .err
              | .panic => .panic
              | .ok c => proofFinalize env init c σ.e rs ums

/-- `proof_verify_init::<CS>(pk, proof, generators, header, disclosed_messages, disclosed_indexes, api_id)`. -/
def proofVerifyInit (env : Env S G1 G2) (cs : Suite G1) (pk : G2) (π : PoKSignature S G1)
    (gens : Generators G1) (header : Option Bytes) (dm : List S) (di : List Nat)
    (apiId : Option Bytes) : Res (ProofInitResult S G1) :=
  let U := π.mCap.length
  let R := di.length
  let L := U + R
  if π.Abar = 0 ∨ π.Bbar = 0 ∨ π.D = 0 then .err
  else if di.any (fun i => i > L - 1) then .err
  else if dm.length ≠ R then .err
  else if gens.values.length ≠ L + 1 then .err
  else match gens.values with
    | [] => .panic
    | Q1 :: Hs =>
      let undisclosed := getRemainingIndexes L di
      match calculateDomain env cs pk Q1 Hs header apiId with
      | .err => .err
      | .panic => .panic
      | .ok domain =>
        let T1 := π.challenge • π.Bbar + π.eCap • π.Abar + π.r1Cap • π.D
        match sumIndexed Hs (gens.base + domain • Q1) di dm with
        | .err => .err
        | .panic => .panic
        | .ok Bv =>
          match sumIndexed Hs (π.challenge • Bv + π.r3Cap • π.D) undisclosed π.mCap with
          | .err => .err
          | .panic => .panic
          | .ok T2 => .ok ⟨π.Abar, π.Bbar, π.D, T1, T2, domain⟩

/-- `core_proof_verify::<CS>(pk, proof, generators, header, ph, disclosed_messages, disclosed_indexes, api_id)`. -/
def coreProofVerify (env : Env S G1 G2) (cs : Suite G1) (pk : G2) (π : PoKSignature S G1)
    (gens : Generators G1) (header ph : Option Bytes) (dm : List S) (di : List Nat)
    (apiId : Option Bytes) : Res Unit :=
  match proofVerifyInit env cs pk π gens header dm di apiId with
  | .err => .err
  | .panic => .panic
  | .ok init =>
    match proofChallengeCalculate env cs init di dm ph apiId with
    | .err => .err
    | .panic => .panic
    | .ok c =>
      if π.challenge ≠ c then .err
      else if env.pairingCheck [(π.Abar, pk), (π.Bbar, -env.bp2)] then .ok () else .err

/-- `PoKSignature::<BBSplus<CS>>::proof_gen(pk, signature, header, ph, messages, disclosed_indexes)`. -/
def proofGen (env : Env S G1 G2) (cs : Suite G1) (pk : G2) (signature : Bytes)
    (header ph : Option Bytes) (messages : Option (List Bytes)) (disclosedIndexes : Option (List Nat))
    (tape : List S) : Res (PoKSignature S G1) :=
  match Signature.fromBytes env signature with
  | .err => .err
  | .panic => .panic
  | .ok σ =>
    let messages := messages.getD []
    let di := disclosedIndexes.getD []
    match messagesToScalar env cs messages cs.apiId with
    | .err => .err
    | .panic => .panic
    | .ok ms =>
      match Generators.create env cs (messages.length + 1) (some cs.apiId) with
      | .err => .err
      | .panic => .panic
      | .ok gens => coreProofGen env cs pk σ gens ms di header ph (some cs.apiId) tape

/-- `PoKSignature::<BBSplus<CS>>::proof_verify(&self, pk, disclosed_messages, disclosed_indexes, header, ph)`. -/
def proofVerify (env : Env S G1 G2) (cs : Suite G1) (π : PoKSignature S G1) (pk : G2)
    (disclosedMessages : Option (List Bytes)) (disclosedIndexes : Option (List Nat))
    (header ph : Option Bytes) : Res Unit :=
  let dmsgs := disclosedMessages.getD []
  let di := sortDedup (disclosedIndexes.getD [])
  let U := π.mCap.length
  let R := di.length
  match messagesToScalar env cs dmsgs cs.apiId with
  | .err => .err
  | .panic => .panic
  | .ok dm =>
    match Generators.create env cs (U + R + 1) (some cs.apiId) with
    | .err => .err
    | .panic => .panic
    | .ok gens => coreProofVerify env cs pk π gens header ph dm di (some cs.apiId)

/-! ### `src/bbsplus/commitment.rs` -/

/-- `BBSplusCommitment::to_bytes`. -/
def Commitment.toBytes (env : Env S G1 G2) (c : Commitment S G1) : Bytes :=
  env.g1Enc c.commitment ++ c.proof.toBytes env

/-- `BBSplusCommitment::from_bytes`. -/
def Commitment.fromBytes (env : Env S G1 G2) (b : Bytes) : Res (Commitment S G1) :=
  if b.length < 48 then .err
  else match env.g1Dec (b.take 48) with
    | none => .err
    | some C => match ZKPoK.fromBytes env (b.drop 48) with
      | .err => .err
      | .panic => .panic
      | .ok z => .ok ⟨C, z⟩

/-- `Σ_i scal[i] * Js[i]` added to `acc` over the common prefix (`for i in 0..M` with both of
length `M`). -/
def sumZip (acc : G1) (Js : List G1) (scal : List S) : G1 :=
  (Js.zip scal).foldl (fun a js => a + js.2 • js.1) acc

/-- `core_commit::<CS>(blind_generators, committed_messages_scalars, api_id)`; `tape` = the output
of `calculate_random_scalars(M + 2)`. Returns the commitment and `secret_prover_blind`. -/
def coreCommit (env : Env S G1 G2) (cs : Suite G1) (blindGens : List G1) (cms : Option (List S))
    (apiId : Option Bytes) (tape : List S) : Res (Commitment S G1 × S) :=
  let cms := cms.getD []
  let apiId := apiId.getD []
  let M := cms.length
  if blindGens.length ≠ M + 1 then .err
  else match blindGens, tape.take (M + 2) with
    | Q2 :: Js, blind :: sT :: mT =>
      if mT.length < M then .panic
      else
        let C := sumZip (blind • Q2) Js cms
        let Cbar := sumZip (sT • Q2) Js mT
        match calculateBlindChallenge env cs C Cbar blindGens (some apiId) with
        | .err => .err
        | .panic => .panic
        | .ok c =>
          let sCap := sT + blind * c
          let mCap := (mT.zip cms).map fun tm => tm.1 + tm.2 * c
          .ok (⟨C, ⟨sCap, mCap, c⟩⟩, blind)
    | _, _ => .panic

/-- `commit::<CS>(committed_messages, api_id)`. -/
def commitWith (env : Env S G1 G2) (cs : Suite G1) (committedMessages : Option (List Bytes))
    (apiId : Option Bytes) (tape : List S) : Res (Commitment S G1 × S) :=
  let cmsgs := committedMessages.getD []
  let apiId := apiId.getD []
  match messagesToScalar env cs cmsgs apiId with
  | .err => .err
  | .panic => .panic
  | .ok cms =>
    match Generators.create env cs (cms.length + 1) (some (Bytes.ofAscii "BLIND_" ++ apiId)) with
    | .err => .err
    | .panic => .panic
    | .ok bg => coreCommit env cs bg.values (some cms) (some apiId) tape

/-- `Commitment::<BBSplus<CS>>::commit(committed_messages)`. -/
def commit (env : Env S G1 G2) (cs : Suite G1) (committedMessages : Option (List Bytes))
    (tape : List S) : Res (Commitment S G1 × S) :=
  commitWith env cs committedMessages (some cs.apiIdBlind) tape

/-- `core_commit_verify::<CS>(commitment, commitment_proof, blind_generators, api_id)`. -/
def coreCommitVerify (env : Env S G1 G2) (cs : Suite G1) (C : G1) (z : ZKPoK S)
    (blindGens : List G1) (apiId : Option Bytes) : Res Unit :=
  let apiId := apiId.getD []
  let M := z.mCap.length
  if blindGens.length < M + 1 then .err
  else
    let bg := blindGens.take (M + 1)
    match bg with
    | [] => .panic
    | G2' :: Js =>
      let Cbar := sumZip (z.sCap • G2') Js z.mCap
      let Cbar := Cbar + (-z.challenge) • C
      match calculateBlindChallenge env cs C Cbar bg (some apiId) with
      | .err => .err
      | .panic => .panic
      | .ok cv => if cv ≠ z.challenge then .err else .ok ()

/-- `Commitment::<BBSplus<CS>>::deserialize_and_validate_commit(commitment_with_proof, blind_generators, api_id)`. -/
def deserializeAndValidateCommit (env : Env S G1 G2) (cs : Suite G1) (cwp : Option Bytes)
    (blindGens : Generators G1) (apiId : Option Bytes) : Res G1 :=
  let cwp := cwp.getD []
  if cwp.length = 0 then .ok 0
  else
    let apiId := apiId.getD []
    match Commitment.fromBytes env cwp with
    | .err => .err
    | .panic => .panic
    | .ok c =>
      let M := c.proof.mCap.length + 1
      if blindGens.values.length < M then .err
      else match coreCommitVerify env cs c.commitment c.proof blindGens.values (some apiId) with
        | .ok _ => .ok c.commitment
        | .err => .err
        | .panic => .panic

/-! ### `src/bbsplus/blind.rs` -/

/-- `prepare_parameters::<CS>(messages, committed_messages, generators_number, blind_generators_number, secret_prover_blind, api_id)`. -/
def prepareParameters (env : Env S G1 G2) (cs : Suite G1) (messages committed : Option (List Bytes))
    (generatorsNumber blindGeneratorsNumber : Nat) (secretProverBlind : Option S)
    (apiId : Option Bytes) : Res (List S × Generators G1) :=
  let messages := messages.getD []
  let committed := committed.getD []
  let apiId := apiId.getD []
  match messagesToScalar env cs messages apiId with
  | .err => .err
  | .panic => .panic
  | .ok ms =>
    match messagesToScalar env cs committed apiId with
    | .err => .err
    | .panic => .panic
    | .ok cms =>
      let cms := (match secretProverBlind with | some b => [b] | none => []) ++ cms
      match Generators.create env cs generatorsNumber (some apiId) with
      | .err => .err
      | .panic => .panic
      | .ok gens =>
        match Generators.create env cs blindGeneratorsNumber (some (Bytes.ofAscii "BLIND_" ++ apiId)) with
        | .err => .err
        | .panic => .panic
        | .ok bgens => .ok (ms ++ cms, ⟨gens.base, gens.values ++ bgens.values⟩)

/-- `calculate_b(generators, commitment, message_scalars)` (the single returned element). -/
def calculateB (gens : Generators G1) (commitment : Option G1) (ms : List S) : Res G1 :=
  let C := commitment.getD 0
  if gens.values.length ≠ ms.length + 1 then .err
  else match gens.values with
    | [] => .panic
    | _Q1 :: Hs =>
      let B := sumZip gens.base Hs ms
      let B := B + C
      if B = 0 then .err else .ok B

/-- `finalize_blind_sign::<CS>(sk, pk, B, generators, blind_generators, header, api_id)`. -/
def finalizeBlindSign (env : Env S G1 G2) (cs : Suite G1) (sk : S) (pk : G2) (B : G1)
    (gens blindGens : Generators G1) (header : Option Bytes) (apiId : Option Bytes) :
    Res (Signature S G1) :=
  match gens.values, blindGens.values with
  | Q1 :: Hs, Q2 :: bgTail =>
    let apiId := apiId.getD []
    -- `blind_generators.values.get(1..len - 1).unwrap_or_default()`
    let Js := bgTail.dropLast
    let tmp := Hs ++ [Q2] ++ Js
    match calculateDomain env cs pk Q1 tmp header (some apiId) with
    | .err => .err
    | .panic => .panic
    | .ok domain =>
      let B := B + domain • Q1
      match hashToScalar env cs (env.sEnc sk ++ env.g1Enc B) (apiId ++ cs.h2s) with
      | .err => .err
      | .panic => .panic
      | .ok e =>
        match env.sInv (sk + e) with
        | none => .err
        | some inv => .ok ⟨inv • B, e⟩
  | _, _ => .panic

/-- The signer's count of blind generators minus one, from the commitment length. -/
def blindSignM (len : Nat) : Option Nat :=
  if len = 0 then some 0
  else match uSub? len 48 with
    | none => none
    | some a => match uSub? a 32 with
      | none => none
      | some b => some (b / 32)

/-- `BlindSignature::<BBSplus<CS>>::blind_sign(sk, pk, commitment_with_proof, header, messages)`. -/
def blindSign (env : Env S G1 G2) (cs : Suite G1) (sk : S) (pk : G2) (cwp : Option Bytes)
    (header : Option Bytes) (messages : Option (List Bytes)) : Res (Signature S G1) :=
  let messages := messages.getD []
  let L := messages.length
  let cwp := cwp.getD []
  match blindSignM cwp.length with
  | none => .err
  | some M =>
    match Generators.create env cs (L + 1) (some cs.apiIdBlind) with
    | .err => .err
    | .panic => .panic
    | .ok gens =>
      match Generators.create env cs (M + 1) (some (Bytes.ofAscii "BLIND_" ++ cs.apiIdBlind)) with
      | .err => .err
      | .panic => .panic
      | .ok bgens =>
        match deserializeAndValidateCommit env cs (some cwp) bgens (some cs.apiIdBlind) with
        | .err => .err
        | .panic => .panic
        | .ok C =>
          match messagesToScalar env cs messages cs.apiIdBlind with
          | .err => .err
          | .panic => .panic
          | .ok ms =>
            match calculateB gens (some C) ms with
            | .err => .err
            | .panic => .panic
            | .ok B => finalizeBlindSign env cs sk pk B gens bgens header (some cs.apiIdBlind)

/-- `BlindSignature::<BBSplus<CS>>::verify_blind_sign(&self, pk, header, messages, committed_messages, secret_prover_blind)`. -/
def verifyBlindSign (env : Env S G1 G2) (cs : Suite G1) (σ : Signature S G1) (pk : G2)
    (header : Option Bytes) (messages committed : Option (List Bytes))
    (secretProverBlind : Option S) : Res Unit :=
  let messages := messages.getD []
  let committed := committed.getD []
  let blind := secretProverBlind.getD 0
  match prepareParameters env cs (some messages) (some committed) (messages.length + 1)
      (committed.length + 1) (some blind) (some cs.apiIdBlind) with
  | .err => .err
  | .panic => .panic
  | .ok (ms, gens) => coreVerify env cs pk σ ms gens header (some cs.apiIdBlind)

/-- `PoKSignature::<BBSplus<CS>>::blind_proof_gen(…)`. -/
def blindProofGen (env : Env S G1 G2) (cs : Suite G1) (pk : G2) (signature : Bytes)
    (header ph : Option Bytes) (messages committed : Option (List Bytes))
    (disclosedIndexes disclosedCommitmentIndexes : Option (List Nat))
    (secretProverBlind : Option S) (tape : List S) : Res (PoKSignature S G1) :=
  match Signature.fromBytes env signature with
  | .err => .err
  | .panic => .panic
  | .ok σ =>
    let messages := messages.getD []
    let committed := committed.getD []
    let blind := secretProverBlind.getD 0
    let L := messages.length
    let M := committed.length
    let di := disclosedIndexes.getD []
    let dci := disclosedCommitmentIndexes.getD []
    if di.length > L then .err
    else if di.any (fun i => i ≥ L) then .err
    else if dci.length > M then .err
    else if dci.any (fun i => i ≥ M) then .err
    else
      match prepareParameters env cs (some messages) (some committed) (L + 1) (M + 1)
          (some blind) (some cs.apiIdBlind) with
      | .err => .err
      | .panic => .panic
      | .ok (ms, gens) =>
        let indexes := di ++ dci.map (fun j => j + L + 1)
        coreProofGen env cs pk σ gens ms indexes header ph (some cs.apiIdBlind) tape

/-- `PoKSignature::<BBSplus<CS>>::blind_proof_verify(…)`. -/
def blindProofVerify (env : Env S G1 G2) (cs : Suite G1) (π : PoKSignature S G1) (pk : G2)
    (header ph : Option Bytes) (L : Option Nat) (disclosedMessages disclosedCommitted : Option (List Bytes))
    (disclosedIndexes disclosedCommitmentIndexes : Option (List Nat)) : Res Unit :=
  let L := L.getD 0
  let dmsgs := disclosedMessages.getD []
  let dcmsgs := disclosedCommitted.getD []
  let di := sortDedup (disclosedIndexes.getD [])
  let dci := sortDedup (disclosedCommitmentIndexes.getD [])
  let U := π.mCap.length
  match uAdd? L 1 with
  | none => .err
  | some L1 =>
    match uSub? (di.length + dci.length + U) L1 with
    | none => .err
    | some M =>
      if dci.any (fun j => (uAdd? j L1).isNone) then .err
      else
        match prepareParameters env cs (some dmsgs) (some dcmsgs) (L + 1) (M + 1) none
            (some cs.apiIdBlind) with
        | .err => .err
        | .panic => .panic
        | .ok (ms, gens) =>
          let indexes := di ++ dci.map (fun j => j + L + 1)
          coreProofVerify env cs pk π gens header ph ms indexes (some cs.apiIdBlind)

end
end Zk
