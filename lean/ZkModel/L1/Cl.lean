/-
L1: the CL03 protocol model (src/cl03/*.rs, src/utils/random.rs, src/utils/util.rs::cl03_utils).

Concrete over `Int` (the Rust uses `rug::Integer`). Every random draw is read from an explicit
TAPE (the sequence of draws recorded or injected through the `verif_hooks` feature); each read
checks the draw's CONTRACT (kind, bit length, range), so a change in the order, number or size of
the random draws of the implementation is a disagreement with the model.

Outcomes: `ok a` | `panic` (Rust `panic!`/`unwrap`/`expect`/index out of range) |
`tape msg` (the tape does not satisfy the contract the model expects at this point).
Import-free (core only).
-/
import ZkModel.L0.IntArith
namespace Zk.Cl
open Zk.IA

inductive CRes (α : Type) where
  | ok (a : α)
  | panic
  | tape (msg : String)
deriving Repr, Inhabited

structure Draw where
  kind : String
  v : Int
deriving Repr, Inhabited, DecidableEq

/-- State monad over the remaining tape. -/
def M (α : Type) := List Draw → CRes (α × List Draw)

instance : Monad M where
  pure a := fun t => .ok (a, t)
  bind x f := fun t => match x t with
    | .ok (a, t') => f a t'
    | .panic => .panic
    | .tape m => .tape m

def panic {α} : M α := fun _ => .panic
def tapeErr {α} (m : String) : M α := fun _ => .tape m
def ofOpt {α} (o : Option α) : M α := match o with | some a => pure a | none => panic
def remaining : M Nat := fun t => .ok (t.length, t)

/-- Suite parameters (`trait CLCiphersuite`), regenerated into `Generated/ClConstants.lean`. -/
structure Suite where
  secparam : Nat
  ln : Nat
  lm : Nat
  lin : Nat
  le : Nat
  ls : Nat
  /-- Boudot parameters (`impl Boudot2000RangeProof` associated constants) -/
  t : Nat
  l : Nat
  s : Nat
  s1 : Nat
  s2 : Nat

/-! ### `src/utils/random.rs` -/

/-- `random_bits(n)`: exactly `n` bits (bit `n-1` set). -/
def randomBits (n : Nat) : M Int := fun t => match t with
  | [] => .tape "tape exhausted (bits)"
  | d :: rest =>
    if d.kind ≠ "bits" then .tape s!"expected bits({n}), tape has {d.kind}"
    else if d.v < 0 ∨ bitLen d.v ≠ n then .tape s!"bits({n}) contract: value has {bitLen d.v} bits"
    else .ok (d.v, rest)

/-- `random_number(n)`: uniform below `n`. -/
def randomNumber (n : Int) : M Int := fun t => match t with
  | [] => .tape "tape exhausted (below)"
  | d :: rest =>
    if d.kind ≠ "below" then .tape s!"expected below, tape has {d.kind}"
    else if d.v < 0 ∨ d.v ≥ n then .tape "below contract violated"
    else .ok (d.v, rest)

/-- `rand_int(a, b)`: uniform in `[a, b]`. -/
def randInt (a b : Int) : M Int := fun t => match t with
  | [] => .tape "tape exhausted (rand_int)"
  | d :: rest =>
    if d.kind ≠ "rand_int" then .tape s!"expected rand_int, tape has {d.kind}"
    else if d.v < a ∨ d.v > b then .tape "rand_int contract violated"
    else .ok (d.v, rest)

/-- Is `p` the next (probable) prime after `r`? (`r < p`, `p` prime, nothing prime in between). -/
def isNextPrime (r p : Int) : Bool :=
  r < p && isProbablePrime p.toNat &&
    (List.range (p - r - 1).toNat).all fun k => !isProbablePrime (r + 1 + k).toNat

/-- `random_prime(n)` = `random_bits(n).next_prime()`; the prime itself is read from the tape and
checked against the preceding `bits` draw. -/
def randomPrime (n : Nat) : M Int := do
  let r ← randomBits n
  fun t => match t with
  | [] => .tape "tape exhausted (prime)"
  | d :: rest =>
    if d.kind ≠ "prime" then .tape s!"expected prime, tape has {d.kind}"
    else if !isNextPrime r d.v then .tape "prime contract: not the next prime after the bits draw"
    else .ok (d.v, rest)

/-- `random_qr(n)`; the loop consumes one `below` draw per iteration (fuel = tape length). -/
def randomQrLoop (n : Int) : Nat → M Int
  | 0 => tapeErr "tape exhausted (random_qr)"
  | fuel + 1 => do
    let r ← randomNumber n
    let qr := (r * r) % n
    if qr > 1 ∧ gcd qr n = 1 then pure qr else randomQrLoop n fuel

def randomQr (n : Int) : M Int := do
  let k ← remaining
  randomQrLoop n (k + 1)

/-! ### `src/utils/util.rs::cl03_utils::divm` -/

/-- `divm(a, b, m)`: x with `b·x ≡ a (mod m)`; panics with "No solution". -/
def divm (a b m : Int) : M Int :=
  match invMod b m with
  | some r => pure (tmod (r * a) m)
  | none =>
    let g := gcd (gcd a b) m
    if g == 0 then panic
    else
      let num := a / g
      let den := b / g
      let md := m / g
      match invMod den md with
      | some r => pure (tmod (r * num) md)
      | none => panic

def pw (b e n : Int) : M Int := ofOpt (powMod b e n)

/-! ### keys, bases -/

structure PublicKey where
  N : Int
  b : Int
  c : Int
deriving Repr, DecidableEq, Inhabited

structure SecretKey where
  p : Int
  q : Int
deriving Repr, DecidableEq, Inhabited

structure CommitmentPK where
  N : Int
  h : Int
  gBases : List Int
deriving Repr, DecidableEq, Inhabited

/-- One safe-prime search loop of `KeyPair::generate` (`other` = the prime it must differ from). -/
def safePrimeLoop (n : Nat) (other : Option Int) : Nat → M Int
  | 0 => tapeErr "tape exhausted (safe prime)"
  | fuel + 1 => do
    let pp ← randomPrime n
    let p := 2 * pp + 1
    if (match other with | some o => p != o | none => true) && isProbablePrime p.toNat then pure p
    else safePrimeLoop n other fuel

/-- `KeyPair::<CL03<CS>>::generate()`. -/
def keyGen (cs : Suite) : M (PublicKey × SecretKey) := do
  let k ← remaining
  let p ← safePrimeLoop cs.secparam none (k + 1)
  let q ← safePrimeLoop cs.secparam (some p) (k + 1)
  let N := p * q
  let b ← randomQr N
  let c ← randomQr N
  pure (⟨N, b, c⟩, ⟨p, q⟩)

/-- `Bases::generate(pk, n)`. -/
def basesGen (pk : PublicKey) : Nat → M (List Int)
  | 0 => pure []
  | n + 1 => do
    let a ← randomQr pk.N
    let rest ← basesGen pk n
    pure (a :: rest)

/-- the `g_i = h^f` loop of `CL03CommitmentPublicKey::generate`. -/
def gBaseLoop (N h : Int) : Nat → M Int
  | 0 => tapeErr "tape exhausted (g base)"
  | fuel + 1 => do
    let f ← randomNumber N
    let g ← pw h f N
    if g > 1 ∧ gcd g N = 1 then pure g else gBaseLoop N h fuel

def gBases (N h : Int) : Nat → M (List Int)
  | 0 => pure []
  | n + 1 => do
    let k ← remaining
    let g ← gBaseLoop N h (k + 1)
    let rest ← gBases N h n
    pure (g :: rest)

/-- `CL03CommitmentPublicKey::generate::<CS>(N, n_attributes)`. -/
def commitmentPkGen (cs : Suite) (N : Option Int) (nAttr : Option Nat) : M CommitmentPK := do
  let n := nAttr.getD 1
  let N ← (match N with
    | some N => pure N
    | none => do
      let k ← remaining
      let p ← safePrimeLoop cs.secparam none (k + 1)
      let q ← safePrimeLoop cs.secparam (some p) (k + 1)
      pure (p * q))
  let h ← randomQr N
  let gs ← gBases N h n
  pure ⟨N, h, gs⟩

/-! ### `src/cl03/signature.rs` -/

structure Signature where
  e : Int
  s : Int
  v : Int
deriving Repr, DecidableEq, Inhabited

/-- the `e` loop shared by `sign`, `sign_multiattr`, `blind_sign`. -/
def drawE (cs : Suite) (phi : Int) : Nat → M Int
  | 0 => tapeErr "tape exhausted (e)"
  | fuel + 1 => do
    let e ← randomPrime cs.le
    if e > 2 ^ (cs.le - 1) ∧ e < 2 ^ cs.le ∧ gcd e phi = 1 then pure e else drawE cs phi fuel

/-- `l[i]` with Rust's bounds-check panic. -/
def idx {α} (l : List α) (i : Nat) : M α := ofOpt l[i]?

/-- `Π_i bases[i]^{msgs[i]}` over all messages (index panics when bases are too few). -/
def prodPow (N : Int) (bases : List Int) : Nat → List Int → Int → M Int
  | _, [], acc => pure acc
  | i, m :: ms, acc => do
    let a ← idx bases i
    let x ← pw a m N
    prodPow N bases (i + 1) ms (acc * x)

/-- `Signature::sign_multiattr(pk, sk, a_bases, messages)`. -/
def signMultiattr (cs : Suite) (pk : PublicKey) (sk : SecretKey) (bases : List Int)
    (msgs : List Int) : M Signature := do
  let phi := (sk.p - 1) * (sk.q - 1)
  let k ← remaining
  let e ← drawE cs phi (k + 1)
  let s ← randomBits cs.ls
  let e2n ← ofOpt (invMod e phi)
  let v ← prodPow pk.N bases 0 msgs 1
  let bs ← pw pk.b s pk.N
  let v ← pw (v * bs * pk.c) e2n pk.N
  pure ⟨e, s, v⟩

/-- `Signature::sign(pk, sk, a_bases, message)` (single attribute, base `a_0`). -/
def sign (cs : Suite) (pk : PublicKey) (sk : SecretKey) (bases : List Int) (msg : Int) :
    M Signature := do
  let phi := (sk.p - 1) * (sk.q - 1)
  let k ← remaining
  let e ← drawE cs phi (k + 1)
  let s ← randomBits cs.ls
  let e2n ← ofOpt (invMod e phi)
  let a0 ← idx bases 0
  let am ← pw a0 msg pk.N
  let bs ← pw pk.b s pk.N
  let v ← pw (am * bs * pk.c) e2n pk.N
  pure ⟨e, s, v⟩

/-- `Signature::verify(&self, pk, a_bases, message)`. -/
def verify (cs : Suite) (σ : Signature) (pk : PublicKey) (bases : List Int) (msg : Int) : M Bool := do
  let lhs ← pw σ.v σ.e pk.N
  let a0 ← idx bases 0
  let am ← pw a0 msg pk.N
  let bs ← pw pk.b σ.s pk.N
  let rhs := tmod (am * bs * pk.c) pk.N
  if msg < 0 ∨ msg ≥ 2 ^ cs.lm then pure false
  else if σ.e ≤ 2 ^ (cs.le - 1) ∨ σ.e ≥ 2 ^ cs.le then pure false
  else if σ.v ≤ 0 ∨ σ.v ≥ pk.N then pure false
  else pure (lhs == rhs)

/-- `Signature::verify_multiattr(&self, pk, a_bases, messages)`. -/
def verifyMultiattr (cs : Suite) (σ : Signature) (pk : PublicKey) (bases : List Int)
    (msgs : List Int) : M Bool := do
  if msgs.length > bases.length then panic
  else
    let lhs ← pw σ.v σ.e pk.N
    let rhs ← prodPow pk.N bases 0 msgs 1
    let bs ← pw pk.b σ.s pk.N
    let rhs := tmod (rhs * bs * pk.c) pk.N
    if msgs.any (fun m => m < 0 ∨ m ≥ 2 ^ cs.lm) then pure false
    else if σ.e ≤ 2 ^ (cs.le - 1) ∨ σ.e ≥ 2 ^ cs.le then pure false
    else if σ.v ≤ 0 ∨ σ.v ≥ pk.N then pure false
    else pure (lhs == rhs)

/-- `disclose_selectively`: hidden positions get base `a_i^{m_i}` and message `1`. -/
def discloseLoop (N : Int) (msgs bases : List Int) : List Nat → List Int → List Int → M (List Int × List Int)
  | [], sm, sb => pure (sm, sb)
  | i :: is, sm, sb => do
    let a ← idx bases i
    let m ← idx msgs i
    let x ← pw a m N
    if i ≥ sb.length ∨ i ≥ sm.length then panic
    else discloseLoop N msgs bases is (sm.set i 1) (sb.set i x)

def discloseSelectively (msgs bases : List Int) (pk : PublicKey) (unrevealed : List Nat) :
    M (List Int × List Int) :=
  if msgs.length ≠ bases.length then panic
  else if unrevealed.length = 0 then pure (msgs, bases)
  else discloseLoop pk.N msgs bases unrevealed msgs bases

/-! ### `src/cl03/commitment.rs` -/

structure Commitment where
  value : Int
  randomness : Int
deriving Repr, DecidableEq, Inhabited

/-- `Π_{i ∈ idxs} bases[i]^{msgs[i]}` (both lookups panic when out of range). -/
def prodPowIdx (N : Int) (bases msgs : List Int) : List Nat → Int → M Int
  | [], acc => pure acc
  | i :: is, acc => do
    let a ← idx bases i
    let m ← idx msgs i
    let x ← pw a m N
    prodPowIdx N bases msgs is (acc * x)

/-- `commit_with_pk(messages, pk, a_bases, unrevealed_message_indexes)`. -/
def commitWithPk (cs : Suite) (msgs : List Int) (pk : PublicKey) (bases : List Int)
    (unrevealed : Option (List Nat)) : M Commitment := do
  let ix := unrevealed.getD (List.range msgs.length)
  let r ← randomBits cs.ln
  let cx ← prodPowIdx pk.N bases msgs ix 1
  let br ← pw pk.b r pk.N
  pure ⟨tmod (cx * br) pk.N, r⟩

/-- `commit_with_commitment_pk(messages, commitment_pk, unrevealed_message_indexes)`. -/
def commitWithCpk (cs : Suite) (msgs : List Int) (cpk : CommitmentPK) (unrevealed : Option (List Nat)) :
    M Commitment := do
  let ix := unrevealed.getD (List.range msgs.length)
  let r ← randomBits cs.ln
  let cx ← prodPowIdx cpk.N cpk.gBases msgs ix 1
  let hr ← pw cpk.h r cpk.N
  pure ⟨tmod (cx * hr) cpk.N, r⟩

/-- `commit_v(v, commitment_pk)`. -/
def commitV (cs : Suite) (v : Int) (cpk : CommitmentPK) : M Commitment := do
  let w ← randomBits cs.ln
  let g0 ← idx cpk.gBases 0
  let gw ← pw g0 w cpk.N
  pure ⟨tmod (v * gw) cpk.N, w⟩

/-- the loop of `extend_commitment_with_pk`. -/
def extendLoop (N : Int) (bases revealed : List Int) : List Nat → Nat → Int → M Int
  | [], _, acc => pure acc
  | i :: is, k, acc => do
    let a ← idx bases i
    let m ← idx revealed k
    let x ← pw a m N
    extendLoop N bases revealed is (k + 1) (tmod (acc * x) N)

/-- `extend_commitment_with_pk(&mut self, revealed_messages, pk, a_bases, revealed_message_indexes)`. -/
def extendCommitmentWithPk (c : Commitment) (revealed : List Int) (pk : PublicKey) (bases : List Int)
    (revIdx : Option (List Nat)) : M Commitment := do
  let ix := revIdx.getD (List.range revealed.length)
  if ix.length ≠ revealed.length then panic
  else
    let v ← extendLoop pk.N bases revealed ix 0 c.value
    pure ⟨v, c.randomness⟩

/-- the loop of `extend_commitment_with_commitment_pk`: unlike `extend_commitment_with_pk` the message
list is indexed by ATTRIBUTE POSITION (`messages[i]`), not by a running counter. -/
def extendCpkLoop (N : Int) (gBases msgs : List Int) : List Nat → Int → M Int
  | [], acc => pure acc
  | i :: is, acc => do
    let a ← idx gBases i
    let m ← idx msgs i
    let x ← pw a m N
    extendCpkLoop N gBases msgs is (tmod (acc * x) N)

/-- `extend_commitment_with_commitment_pk(&mut self, messages, commitment_pk, revealed_message_indexes)`. -/
def extendCommitmentWithCpk (c : Commitment) (msgs : List Int) (cpk : CommitmentPK)
    (revIdx : Option (List Nat)) : M Commitment := do
  let ix := revIdx.getD (List.range msgs.length)
  let v ← extendCpkLoop cpk.N cpk.gBases msgs ix c.value
  pure ⟨v, c.randomness⟩

/-- `CL03Message::map_message_to_integer_as_hash`: the digest of the bytes as a big-endian integer. -/
def mapMessageToIntegerAsHash (data : Bytes) : Int := Int.ofNat (os2ip (sha256 data))

/-! ### `src/cl03/sigma_protocols.rs` -/

structure NISPSecrets where
  t : Int
  s1 : Int
  s2 : Int
deriving Repr, DecidableEq, Inhabited

/-- `nisp2sec_generate_proof(message, commitment, g1, h1, n1)`. -/
def nisp2secGen (cs : Suite) (msg : Int) (c : Commitment) (g1 h1 n1 : Int) : M NISPSecrets := do
  let r1 ← randomBits (cs.ln + cs.lin + cs.lin / 2)
  let r2 ← randomBits (cs.ln + cs.lin + cs.lin / 2)
  let a ← pw g1 r1 n1
  let b ← pw h1 r2 n1
  let t := tmod (a * b) n1
  let ch := hashInts [g1, h1, c.value, t]
  pure ⟨t, r1 + ch * msg, r2 + ch * c.randomness⟩

/-- `nisp2sec_verify_proof(&self, commitment, g1, h1, n1)` (only `commitment.value` is read). -/
def nisp2secVerify (π : NISPSecrets) (cv : Int) (g1 h1 n1 : Int) : M Bool := do
  let a ← pw g1 π.s1 n1
  let b ← pw h1 π.s2 n1
  let lhs := tmod (a * b) n1
  let ch := hashInts [g1, h1, cv, π.t]
  let cc ← pw cv ch n1
  let rhs := tmod (π.t * cc) n1
  pure (lhs == rhs)

structure NISPMultiSecrets where
  t : Int
  s1 : List Int
  s2 : Int
deriving Repr, DecidableEq, Inhabited

def drawBitsList (n : Nat) : Nat → M (List Int)
  | 0 => pure []
  | k + 1 => do
    let x ← randomBits n
    let xs ← drawBitsList n k
    pure (x :: xs)

/-- `Π_j bases[idxs[j]]^{exps[j]}`; `exps[j]` is a Rust index (`r1[idx]`). -/
def prodPowZip (N : Int) (bases : List Int) : List Nat → List Int → Int → M Int
  | [], _, acc => pure acc
  | i :: is, es, acc => do
    let a ← idx bases i
    let e ← idx es 0
    let x ← pw a e N
    prodPowZip N bases is es.tail (acc * x)

/-- `r[j] + c * msgs[idxs[j]]` for each j. -/
def responses (c : Int) (msgs : List Int) : List Nat → List Int → M (List Int)
  | [], _ => pure []
  | i :: is, rs => do
    let r ← idx rs 0
    let m ← idx msgs i
    let rest ← responses c msgs is rs.tail
    pure ((r + c * m) :: rest)

/-- `nispMultiSecrets_generate_proof(messages, commitment, signer_pk, a_bases, unrevealed)`. -/
def nispMultiSecretsGen (cs : Suite) (msgs : List Int) (c : Commitment) (pk : PublicKey)
    (bases : List Int) (unrevealed : Option (List Nat)) : M NISPMultiSecrets := do
  let ix := if msgs.length = 1 then [0] else unrevealed.getD [0]
  let r1 ← drawBitsList (cs.lm + cs.lin + cs.lin / 2) ix.length
  let r2 ← randomBits (cs.ln + cs.lin + cs.lin / 2)
  let t ← prodPowZip pk.N bases ix r1 1
  let as ← ix.mapM (idx bases)
  let hr ← pw pk.b r2 pk.N
  let t := tmod (t * hr) pk.N
  let ch := hashInts (as ++ [pk.b, c.value, t])
  let s1 ← responses ch msgs ix r1
  pure ⟨t, s1, r2 + ch * c.randomness⟩

/-- `nispMultiSecrets_verify_proof(&self, commitment, signer_pk, a_bases, unrevealed)`. -/
def nispMultiSecretsVerify (π : NISPMultiSecrets) (cv : Int) (pk : PublicKey) (bases : List Int)
    (unrevealed : Option (List Nat)) : M Bool := do
  let ix := unrevealed.getD [0]
  if ix.length ≠ π.s1.length then panic
  else
    let lhs ← prodPowZip pk.N bases ix π.s1 1
    let as ← ix.mapM (idx bases)
    let hs ← pw pk.b π.s2 pk.N
    let lhs := tmod (lhs * hs) pk.N
    let ch := hashInts (as ++ [pk.b, cv, π.t])
    let cc ← pw cv ch pk.N
    let rhs := tmod (π.t * cc) pk.N
    pure (lhs == rhs)

structure NISP2Commitments where
  challenge : Int
  d : List Int
  d1 : Int
  d2 : Int
deriving Repr, DecidableEq, Inhabited

/-- `nisp2_generate_proof_MultiSecrets(messages, c1, c2, signer_pk, a_bases, commitment_pk, unrevealed)`. -/
def nisp2Gen (cs : Suite) (msgs : List Int) (c1 c2 : Commitment) (pk : PublicKey) (bases : List Int)
    (cpk : CommitmentPK) (unrevealed : List Nat) : M NISP2Commitments := do
  if bases.length < msgs.length ∧ msgs.length < cpk.gBases.length then panic
  else
    let omega ← drawBitsList (cs.lm + cs.lin + cs.lin / 2) unrevealed.length
    let mu1 ← randomBits (cs.ln + cs.lin + cs.lin / 2)
    let mu2 ← randomBits (cs.ln + cs.lin + cs.lin / 2)
    -- the Rust loop looks up a_bases[i] then g_bases[i] for each i, interleaved
    let w1 ← prodPowZip pk.N bases unrevealed omega 1
    let w2 ← prodPowZip cpk.N cpk.gBases unrevealed omega 1
    let h1 ← pw pk.b mu1 pk.N
    let h2 ← pw cpk.h mu2 cpk.N
    let w1 := tmod (w1 * h1) pk.N
    let w2 := tmod (w2 * h2) cpk.N
    let ch := hashInts [w1, w2]
    let d ← responses ch msgs unrevealed omega
    pure ⟨ch, d, mu1 + ch * c1.randomness, mu2 + ch * c2.randomness⟩

/-- `nisp2_verify_proof_MultiSecrets(&self, c1, c2, signer_pk, a_bases, commitment_pk, unrevealed)`. -/
def nisp2Verify (π : NISP2Commitments) (c1v c2v : Int) (pk : PublicKey) (bases : List Int)
    (cpk : CommitmentPK) (unrevealed : List Nat) : M Bool := do
  let inv1 ← pw c1v (-π.challenge) pk.N
  let inv2 ← pw c2v (-π.challenge) cpk.N
  let lhs ← prodPowZip pk.N bases unrevealed π.d 1
  let rhs ← prodPowZip cpk.N cpk.gBases unrevealed π.d 1
  let h1 ← pw pk.b π.d1 pk.N
  let h2 ← pw cpk.h π.d2 cpk.N
  let lhs := tmod (lhs * h1 * inv1) pk.N
  let rhs := tmod (rhs * h2 * inv2) cpk.N
  pure (π.challenge == hashInts [lhs, rhs])

structure SignaturePoK where
  challenge : Int
  s1 : Int
  s2 : Int
  s3 : Int
  s4 : Int
  s5 : List Int
  s6 : Int
  s7 : Int
  s8 : Int
  s9 : Int
  Cx : Commitment
  Cv : Commitment
  Cw : Commitment
  Ce : Commitment
deriving Repr, DecidableEq, Inhabited

/-- `r_5`: a fresh blinding for hidden positions, the message itself for revealed ones. -/
def drawR5 (n : Nat) (msgs : List Int) (unrevealed : List Nat) : Nat → Nat → M (List Int)
  | 0, _ => pure []
  | k + 1, i => do
    let x ← (if unrevealed.contains i then randomBits n else idx msgs i)
    let xs ← drawR5 n msgs unrevealed k (i + 1)
    pure (x :: xs)

/-- `Π_{i<n} bases[i]^{exps[i]}`. -/
def prodPowFirst (N : Int) (bases exps : List Int) : Nat → Nat → Int → M Int
  | 0, _, acc => pure acc
  | k + 1, i, acc => do
    let a ← idx bases i
    let e ← idx exps i
    let x ← pw a e N
    prodPowFirst N bases exps k (i + 1) (acc * x)

/-- blinding length for a secret of `k` bits: `k + 256 (challenge) + 128 (statistical margin)`. -/
def blindLen (cs : Suite) (k : Nat) : Nat := k + cs.lin + cs.lin / 2

/-- `nisp5_MultiAttr_generate_proof(signature, commitment_pk, signer_pk, a_bases, messages, unrevealed)`. -/
def nisp5Gen (cs : Suite) (σ : Signature) (cpk : CommitmentPK) (pk : PublicKey) (bases : List Int)
    (msgs : List Int) (unrevealed : List Nat) : M SignaturePoK := do
  let n := msgs.length
  if bases.length < n ∧ cpk.gBases.length < n then panic
  else
    let Cx ← commitWithCpk cs msgs cpk none
    let Cv ← commitV cs σ.v cpk
    let Cw ← commitWithCpk cs [Cv.randomness] cpk none
    let Ce ← commitWithCpk cs [σ.e] cpk none
    let w := Cv.randomness
    let rw := Cw.randomness
    let r1 ← randomBits (blindLen cs cs.ln)
    let r2 ← randomBits (blindLen cs (cs.ln + cs.le))
    let r3 ← randomBits (blindLen cs cs.ln)
    let r4 ← randomBits cs.ln
    let r6 ← randomBits (blindLen cs (cs.ls + 1))
    let r7 ← randomBits (blindLen cs cs.ln)
    let r8 ← randomBits (blindLen cs (cs.ln + cs.le))
    let r9 ← randomBits (blindLen cs cs.ln)
    let r5 ← drawR5 cs.ln msgs unrevealed n 0
    let N := pk.N
    let tCx ← prodPowFirst N bases r5 n 0 1
    let tCx := tmod tCx N
    let g0 ← idx cpk.gBases 0
    let a ← pw Cv.value r4 N
    let itCx ← divm 1 tCx N
    let ib ← divm 1 pk.b N
    let ib6 ← pw ib r6 N
    let ig ← divm 1 g0 N
    let ig8 ← pw ig r8 N
    let t1 := tmod (a * itCx * ib6 * ig8) N
    let g7 ← pw g0 r7 N
    let h1 ← pw cpk.h r1 N
    let t2 := tmod (g7 * h1) N
    let cw4 ← pw Cw.value r4 N
    let ig ← divm 1 g0 N
    let ig8 ← pw ig r8 N
    let ih ← divm 1 cpk.h N
    let ih2 ← pw ih r2 N
    let t3 := tmod (cw4 * ig8 * ih2) N
    let t4 ← prodPowFirst N cpk.gBases r5 n 0 1
    let h3 ← pw cpk.h r3 N
    let t4 := tmod (t4 * h3) N
    let g4 ← pw g0 r4 N
    let h9 ← pw cpk.h r9 N
    let t5 := tmod (g4 * h9) N
    let c := hashInts [t1, t2, t3, t4, t5]
    let s5 ← unrevealed.mapM (fun i => do
      let r ← idx r5 i
      let m ← idx msgs i
      pure (r + m * c))
    pure {
      challenge := c, s1 := r1 + rw * c, s2 := r2 + rw * σ.e * c, s3 := r3 + Cx.randomness * c,
      s4 := r4 + σ.e * c, s5 := s5, s6 := r6 + σ.s * c, s7 := r7 + w * c, s8 := r8 + w * σ.e * c,
      s9 := r9 + Ce.randomness * c, Cx := Cx, Cv := Cv, Cw := Cw, Ce := Ce }

/-- the loop over `0..n_signed_messages` of `nisp5_MultiAttr_verify_proof`. -/
def mixLoop (N : Int) (bases : List Int) (s5 revealed : List Int) (unrevealed : List Nat) (c : Int) :
    Nat → Nat → Nat → Nat → Int → M Int
  | 0, _, _, _, acc => pure acc
  | k + 1, i, ih, ir, acc => do
    if unrevealed.contains i then
      let a ← idx bases i
      let s ← idx s5 ih
      let x ← pw a s N
      mixLoop N bases s5 revealed unrevealed c k (i + 1) (ih + 1) ir (acc * x)
    else
      let m ← idx revealed ir
      let a ← idx bases i
      let x ← pw a (m + m * c) N
      mixLoop N bases s5 revealed unrevealed c k (i + 1) ih (ir + 1) (acc * x)

/-- `nisp5_MultiAttr_verify_proof(&self, commitment_pk, signer_pk, a_bases, messages, unrevealed, n_signed)`. -/
def nisp5Verify (π : SignaturePoK) (cpk : CommitmentPK) (pk : PublicKey) (bases : List Int)
    (revealed : List Int) (unrevealed : List Nat) (nSigned : Nat) : M Bool := do
  if bases.length < nSigned ∧ cpk.gBases.length < nSigned then panic
  else
    let N := pk.N
    let c := π.challenge
    let tCx ← mixLoop N bases π.s5 revealed unrevealed c nSigned 0 0 0 1
    let tCx := tmod tCx N
    let g0 ← idx cpk.gBases 0
    let a ← pw π.Cv.value π.s4 N
    let itCx ← divm 1 tCx N
    let ib ← divm 1 pk.b N
    let ib6 ← pw ib π.s6 N
    let ig ← divm 1 g0 N
    let ig8 ← pw ig π.s8 N
    let cc ← pw pk.c (-c) N
    let in1 := tmod (a * itCx * ib6 * ig8 * cc) N
    let g7 ← pw g0 π.s7 N
    let h1 ← pw cpk.h π.s1 N
    let cw ← pw π.Cw.value (-c) N
    let in2 := tmod (g7 * h1 * cw) N
    let cw4 ← pw π.Cw.value π.s4 N
    let ig ← divm 1 g0 N
    let ig8 ← pw ig π.s8 N
    let ih ← divm 1 cpk.h N
    let ih2 ← pw ih π.s2 N
    let in3 := tmod (cw4 * ig8 * ih2) N
    let in4 ← mixLoop N cpk.gBases π.s5 revealed unrevealed c nSigned 0 0 0 1
    let h3 ← pw cpk.h π.s3 N
    let cx ← pw π.Cx.value (-c) N
    let in4 := tmod (in4 * h3 * cx) N
    let g4 ← pw g0 π.s4 N
    let h9 ← pw cpk.h π.s9 N
    let ce ← pw π.Ce.value (-c) N
    let in5 := tmod (g4 * h9 * ce) N
    -- the four commitments are elements of `Z_N`: only their reduced representatives are accepted
    let reduced := fun (x : Int) => decide (0 ≤ x) && decide (x < N)
    pure (hashInts [in1, in2, in3, in4, in5] == c && reduced π.Cx.value && reduced π.Cv.value
      && reduced π.Cw.value && reduced π.Ce.value)

/-! ### `src/cl03/range_proof.rs` (Boudot 2000) -/

structure ProofSs where
  challenge : Int
  d : Int
  d1 : Int
  d2 : Int
deriving Repr, DecidableEq, Inhabited

structure ProofOfS where
  E : Int
  F : Int
  proofSs : ProofSs
deriving Repr, DecidableEq, Inhabited

structure ProofLi where
  C : Int
  D1 : Int
  D2 : Int
deriving Repr, DecidableEq, Inhabited

structure ProofWt where
  Ea1 : Int
  Ea2 : Int
  Eb1 : Int
  Eb2 : Int
  squareA : ProofOfS
  squareB : ProofOfS
  largeA : ProofLi
  largeB : ProofLi
deriving Repr, DecidableEq, Inhabited

structure RangeProof where
  tol : ProofWt
  Eprime : Int
  E : Int
deriving Repr, DecidableEq, Inhabited

/-- Algorithm 1, `proof_same_secret`. -/
def proofSameSecret (x r1 r2 g1 h1 g2 h2 : Int) (l t : Nat) (b : Int) (s1 s2 : Nat) (n : Int) :
    M ProofSs := do
  let omega ← randInt 1 (2 ^ (l + 2 * t) * b - 1)
  let mu1 ← randInt 1 (2 ^ (l + 2 * t + s1) * n - 1)
  let mu2 ← randInt 1 (2 ^ (l + 2 * t + s2) * n - 1)
  let a ← pw g1 omega n
  let b1 ← pw h1 mu1 n
  let w1 := tmod (a * b1) n
  let a2 ← pw g2 omega n
  let b2 ← pw h2 mu2 n
  let w2 := tmod (a2 * b2) n
  let c := hashInts [w1, w2]
  pure ⟨c, omega + c * x, mu1 + c * r1, mu2 + c * r2⟩

/-- Algorithm 2, `verify_same_secret`. -/
def verifySameSecret (E F g1 h1 g2 h2 n : Int) (π : ProofSs) : M Bool := do
  let invE ← pw E (-π.challenge) n
  let invF ← pw F (-π.challenge) n
  let a ← pw g1 π.d n
  let b ← pw h1 π.d1 n
  let lhs := tmod (a * b * invE) n
  let a2 ← pw g2 π.d n
  let b2 ← pw h2 π.d2 n
  let rhs := tmod (a2 * b2 * invF) n
  pure (π.challenge == hashInts [lhs, rhs])

/-- Algorithm 3, `proof_of_square`. -/
def proofOfSquare (x r1 g h E : Int) (l t : Nat) (b : Int) (s s1 s2 : Nat) (n : Int) : M ProofOfS := do
  let r2 ← randInt (-(2 ^ s) * n + 1) (2 ^ s * n - 1)
  let a ← pw g x n
  let b' ← pw h r2 n
  let F := tmod (a * b') n
  let r3 := r1 - r2 * x
  let pss ← proofSameSecret x r2 r3 g h F h l t b s1 s2 n
  pure ⟨E, F, pss⟩

/-- Algorithm 4, `verify_of_square`. -/
def verifyOfSquare (π : ProofOfS) (g h n : Int) : M Bool :=
  -- `F` is an element of `Z_n`: only its reduced representative is accepted
  if π.F < 0 ∨ n ≤ π.F then pure false
  else verifySameSecret π.F π.E g h π.F h n π.proofSs

/-- Algorithm 5, `proof_large_interval_specific` (rejection loop, two draws per iteration). -/
def proofLargeLoop (x r g h : Int) (t l : Nat) (b : Int) (s : Nat) (n : Int) (T : Nat) : Nat → M ProofLi
  | 0 => tapeErr "tape exhausted (large interval)"
  | fuel + 1 => do
    let w ← randInt 0 (2 ^ (t + l) * b - 1)
    let nu ← randInt (-(2 ^ T * 2 ^ (t + l + s)) * n + 1) (2 ^ T * 2 ^ (t + l + s) * n - 1)
    let a ← pw g w n
    let b' ← pw h nu n
    let omega := tmod (a * b') n
    let C := hashInts [omega]
    let c := tmod C (2 ^ t)
    let D1 := w + x * c
    let D2 := nu + r * c
    if c * b ≤ D1 ∧ D1 ≤ 2 ^ (t + l) * b - 1 then pure ⟨C, D1, D2⟩
    else proofLargeLoop x r g h t l b s n T fuel

def proofLargeIntervalSpecific (x r g h : Int) (t l : Nat) (b : Int) (s : Nat) (n : Int) (T : Nat) :
    M ProofLi := do
  let k ← remaining
  proofLargeLoop x r g h t l b s n T (k + 1)

/-- Algorithm 6, `verify_large_interval_specific`. -/
def verifyLargeIntervalSpecific (π : ProofLi) (E g h n : Int) (t l : Nat) (b : Int) : M Bool := do
  let c := tmod π.C (2 ^ t)
  let invE ← pw E (-c) n
  let a ← pw g π.D1 n
  let b' ← pw h π.D2 n
  let commit := tmod (a * b' * invE) n
  let out := hashInts [commit]
  pure (decide (c * b ≤ π.D1) && decide (π.D1 ≤ 2 ^ (t + l) * b - 1) && π.C == out)

/-- `Integer::sqrt` panics on negative input. -/
def sqrtM (x : Int) : M Int := if x < 0 then panic else pure (Int.ofNat (isqrt x.toNat))

/-- the `r = r_1 + r_2` splitting loops of Algorithm 7. -/
def splitLoop (target : Int) (lo hi : Int) : Nat → M (Int × Int)
  | 0 => tapeErr "tape exhausted (split)"
  | fuel + 1 => do
    let r1 ← randInt lo hi
    let r2 := target - r1
    if lo ≤ r2 ∧ r2 ≤ hi then pure (r1, r2) else splitLoop target lo hi fuel

/-- the decomposition points `2^T·a`, `2^T·b` and the bound `b₂ = 2·⌊√(2^T·(b−a))⌋` of the remainders
(`Integer::sqrt` panics on a negative argument). -/
def tolBounds (a b : Int) (T : Nat) : M (Int × Int × Int) := do
  let sq ← sqrtM (2 ^ T * (b - a))
  pure (2 ^ T * a, 2 ^ T * b, 2 * sq)

/-- Algorithm 7, `proof_of_tolerance_specific`. -/
def proofOfToleranceSpecific (x r g h n a b : Int) (t l s s1 s2 T : Nat) : M ProofWt := do
  let (aa, bb, b2) ← tolBounds a b T
  let xa := x - aa
  let xb := bb - x
  let xa1 ← sqrtM xa
  let xa2 := xa - xa1 ^ 2
  let xb1 ← sqrtM xb
  let xb2 := xb - xb1 ^ 2
  let lo := -(2 ^ s) * 2 ^ T * n + 1
  let hi := 2 ^ s * 2 ^ T * n - 1
  let k ← remaining
  let (ra1, ra2) ← splitLoop r lo hi (k + 1)
  let (rb1, rb2) ← splitLoop (-r) lo hi (k + 1)
  let e1 ← pw g (xa1 ^ 2) n
  let e2 ← pw h ra1 n
  let Ea1 := tmod (e1 * e2) n
  let e1 ← pw g xa2 n
  let e2 ← pw h ra2 n
  let Ea2 := tmod (e1 * e2) n
  let e1 ← pw g (xb1 ^ 2) n
  let e2 ← pw h rb1 n
  let Eb1 := tmod (e1 * e2) n
  let e1 ← pw g xb2 n
  let e2 ← pw h rb2 n
  let Eb2 := tmod (e1 * e2) n
  -- bound of the roots `xa1`, `xb1` (Rust recomputes the square root)
  let sq1 ← sqrtM (2 ^ T * (b - a))
  let b1 := sq1 + 1
  let sqA ← proofOfSquare xa1 ra1 g h Ea1 l t b1 s s1 s2 n
  let sqB ← proofOfSquare xb1 rb1 g h Eb1 l t b1 s s1 s2 n
  let liA ← proofLargeIntervalSpecific xa2 ra2 g h t l b2 s n T
  let liB ← proofLargeIntervalSpecific xb2 rb2 g h t l b2 s n T
  pure ⟨Ea1, Ea2, Eb1, Eb2, sqA, sqB, liA, liB⟩

/-- Algorithm 8, `verify_of_tolerance_specific`. -/
def verifyOfToleranceSpecific (π : ProofWt) (g h E n a b : Int) (t l T : Nat) : M Bool := do
  let (aa, bb, b2) ← tolBounds a b T
  let gaa ← pw g aa n
  let Ea ← divm E gaa n
  let gbb ← pw g bb n
  let Eb ← divm gbb E n
  let divA ← divm Ea π.Ea1 n
  let divB ← divm Eb π.Eb1 n
  if π.Ea2 == divA ∧ π.Eb2 == divB ∧ π.squareA.E == π.Ea1 ∧ π.squareB.E == π.Eb1 then
    -- `&&` short-circuits in Rust: later verifications only run when earlier ones returned true
    let s1 ← verifyOfSquare π.squareA g h n
    let bs ← (if s1 then verifyOfSquare π.squareB g h n else pure false)
    let l1 ← verifyLargeIntervalSpecific π.largeA π.Ea2 g h n t l b2
    let bl ← (if l1 then verifyLargeIntervalSpecific π.largeB π.Eb2 g h n t l b2 else pure false)
    pure (bs && bl)
  else pure false

def rangeT (cs : Suite) (rmin rmax : Int) : Nat := 2 * (cs.t + cs.l + 1) + bitLen (rmax - rmin)

/-- `Boudot2000RangeProof::prove(value, commitment, base1, base2, module, rmin, rmax)`. -/
def rangeProve (cs : Suite) (value : Int) (c : Commitment) (g h n rmin rmax : Int) : M RangeProof := do
  if rmax ≤ rmin then panic
  else
    let T := rangeT cs rmin rmax
    let x' := 2 ^ T * value
    let r' := 2 ^ T * c.randomness
    let E' ← pw c.value (2 ^ T) n
    let tol ← proofOfToleranceSpecific x' r' g h n rmin rmax cs.t cs.l cs.s cs.s1 cs.s2 T
    pure ⟨tol, E', c.value⟩

/-- `Boudot2000RangeProof::verify(&self, base1, base2, module, rmin, rmax)`. -/
def rangeVerify (cs : Suite) (π : RangeProof) (g h n rmin rmax : Int) : M Bool := do
  if rmax ≤ rmin then panic
  else if π.E < 0 ∨ n ≤ π.E then pure false
  else
    let T := rangeT cs rmin rmax
    let E' ← pw π.E (2 ^ T) n
    if π.Eprime == E' then verifyOfToleranceSpecific π.tol g h π.Eprime n rmin rmax cs.t cs.l T
    else pure false

/-! ### `src/cl03/proof.rs` -/

structure ProofOfValue where
  value : NISPSecrets
  commitment : Commitment
deriving Repr, DecidableEq, Inhabited

/-- what a proof may carry of a commitment -/
def publicPart (c : Commitment) : Commitment := ⟨c.value, 0⟩

structure PoKSignature where
  spok : SignaturePoK
  rangeProofE : RangeProof
  proofsMi : List ProofOfValue
  rangeProofsMi : List RangeProof
deriving Repr, DecidableEq, Inhabited

/-- per hidden attribute: commitment, proof of knowledge, range proof (signature proof side). -/
def pokMiLoop (cs : Suite) (cpk : CommitmentPK) (msgs : List Int) :
    List Nat → M (List ProofOfValue × List RangeProof)
  | [] => pure ([], [])
  | i :: is => do
    let mi ← idx msgs i
    let gi ← idx cpk.gBases i
    let cmi ← commitWithCpk cs msgs cpk (some [i])
    let pv ← nisp2secGen cs mi cmi gi cpk.h cpk.N
    let rp ← rangeProve cs mi cmi gi cpk.h cpk.N 0 (2 ^ cs.lm - 1)
    let (ps, rs) ← pokMiLoop cs cpk msgs is
    pure (⟨pv, publicPart cmi⟩ :: ps, rp :: rs)

/-- `PoKSignature::proof_gen(signature, commitment_pk, signer_pk, a_bases, messages, unrevealed)`. -/
def proofGen (cs : Suite) (σ : Signature) (cpk : CommitmentPK) (pk : PublicKey) (bases : List Int)
    (msgs : List Int) (unrevealed : List Nat) : M PoKSignature := do
  let spok ← nisp5Gen cs σ cpk pk bases msgs unrevealed
  let g0 ← idx cpk.gBases 0
  let rpe ← rangeProve cs σ.e spok.Ce g0 cpk.h cpk.N (2 ^ (cs.le - 1) + 1) (2 ^ cs.le - 1)
  let (ps, rs) ← pokMiLoop cs cpk msgs unrevealed
  let spok := { spok with Cx := publicPart spok.Cx, Cv := publicPart spok.Cv,
                          Cw := publicPart spok.Cw, Ce := publicPart spok.Ce }
  pure ⟨spok, rpe, ps, rs⟩

def pokMiVerifyLoop (cs : Suite) (cpk : CommitmentPK) (π : PoKSignature) : List Nat → Nat → M Bool
  | [], _ => pure true
  | i :: is, k => do
    let gi ← idx cpk.gBases i
    let pv ← idx π.proofsMi k
    let ok ← nisp2secVerify pv.value pv.commitment.value gi cpk.h cpk.N
    if !ok then pure false
    else
      let rp ← idx π.rangeProofsMi k
      let ok ← rangeVerify cs rp gi cpk.h cpk.N 0 (2 ^ cs.lm - 1)
      if !ok then pure false else pokMiVerifyLoop cs cpk π is (k + 1)

/-- `PoKSignature::proof_verify(&self, commitment_pk, signer_pk, a_bases, messages, unrevealed, n_signed)`. -/
def proofVerify (cs : Suite) (π : PoKSignature) (cpk : CommitmentPK) (pk : PublicKey) (bases : List Int)
    (revealed : List Int) (unrevealed : List Nat) (nSigned : Nat) : M Bool := do
  let ok ← nisp5Verify π.spok cpk pk bases revealed unrevealed nSigned
  if !ok then pure false
  else if π.spok.Ce.value == π.rangeProofE.E then
    let g0 ← idx cpk.gBases 0
    let ok ← rangeVerify cs π.rangeProofE g0 cpk.h cpk.N (2 ^ (cs.le - 1) + 1) (2 ^ cs.le - 1)
    if ok then pokMiVerifyLoop cs cpk π unrevealed 0 else pure false
  else pure false

structure ZKPoK where
  proofCCtrusted : Option NISP2Commitments
  proofMsgs : NISPMultiSecrets
  proofsMi : List ProofOfValue
  rangeProofsMi : List RangeProof
  proofR : ProofOfValue
  rangeProofR : RangeProof
deriving Repr, DecidableEq, Inhabited

def zkMiLoop (cs : Suite) (pk : PublicKey) (bases msgs : List Int) :
    List Nat → M (List ProofOfValue × List RangeProof)
  | [] => pure ([], [])
  | i :: is => do
    let mi ← idx msgs i
    let ai ← idx bases i
    let cmi ← commitWithPk cs msgs pk bases (some [i])
    let pv ← nisp2secGen cs mi cmi ai pk.b pk.N
    let rp ← rangeProve cs mi cmi ai pk.b pk.N 0 (2 ^ cs.lm - 1)
    let (ps, rs) ← zkMiLoop cs pk bases msgs is
    pure (⟨pv, publicPart cmi⟩ :: ps, rp :: rs)

/-- `ZKPoK::generate_proof(messages, C, C_trusted, signer_pk, a_bases, commitment_pk, unrevealed)`. -/
def zkpokGen (cs : Suite) (msgs : List Int) (C : Commitment) (Ct : Option Commitment) (pk : PublicKey)
    (bases : List Int) (cpk : Option CommitmentPK) (unrevealed : List Nat) : M ZKPoK := do
  let p2 ← (match Ct, cpk with
    | some ct, some cpk => do
      let p ← nisp2Gen cs msgs C ct pk bases cpk unrevealed
      pure (some p)
    | _, _ => pure none)
  let pm ← nispMultiSecretsGen cs msgs C pk bases (some unrevealed)
  let (ps, rs) ← zkMiLoop cs pk bases msgs unrevealed
  let r := C.randomness
  let cr ← commitWithPk cs [r] pk bases none
  let a0 ← idx bases 0
  let pr ← nisp2secGen cs r cr a0 pk.b pk.N
  let rpr ← rangeProve cs r cr a0 pk.b pk.N 0 (2 ^ cs.ln - 1)
  pure ⟨p2, pm, ps, rs, ⟨pr, publicPart cr⟩, rpr⟩

def zkMiVerifyLoop (cs : Suite) (pk : PublicKey) (bases : List Int) (π : ZKPoK) : List Nat → Nat → M Bool
  | [], _ => pure true
  | i :: is, k => do
    let ai ← idx bases i
    let pv ← idx π.proofsMi k
    let ok ← nisp2secVerify pv.value pv.commitment.value ai pk.b pk.N
    if !ok then pure false
    else
      let rp ← idx π.rangeProofsMi k
      let ok ← rangeVerify cs rp ai pk.b pk.N 0 (2 ^ cs.lm - 1)
      if !ok then pure false else zkMiVerifyLoop cs pk bases π is (k + 1)

/-- `ZKPoK::verify_proof(&self, C, C_trusted, signer_pk, a_bases, commitment_pk, unrevealed)`. -/
def zkpokVerify (cs : Suite) (π : ZKPoK) (Cv : Int) (Ctv : Option Int) (pk : PublicKey) (bases : List Int)
    (cpk : Option CommitmentPK) (unrevealed : List Nat) : M Bool := do
  let okT ← (match Ctv, cpk with
    | some ct, some cpk => do
      let p ← ofOpt π.proofCCtrusted
      nisp2Verify p Cv ct pk bases cpk unrevealed
    | _, _ => pure true)
  if !okT then pure false
  else
    let ok ← nispMultiSecretsVerify π.proofMsgs Cv pk bases (some unrevealed)
    if !ok then pure false
    else
      let ok ← zkMiVerifyLoop cs pk bases π unrevealed 0
      if !ok then pure false
      else
        let a0 ← idx bases 0
        let ok ← nisp2secVerify π.proofR.value π.proofR.commitment.value a0 pk.b pk.N
        if !ok then pure false
        else rangeVerify cs π.rangeProofR a0 pk.b pk.N 0 (2 ^ cs.ln - 1)

/-! ### `src/cl03/blind.rs` -/

structure BlindSignature where
  e : Int
  rprime : Int
  v : Int
deriving Repr, DecidableEq, Inhabited

/-- `BlindSignature::blind_sign(pk, sk, a_bases, zkpok, revealed_messages, C, C_trusted, commitment_pk, unrevealed, revealed_indexes)`. -/
def blindSign (cs : Suite) (pk : PublicKey) (sk : SecretKey) (bases : List Int) (π : ZKPoK)
    (revealed : Option (List Int)) (C : Commitment) (Ctv : Option Int) (cpk : Option CommitmentPK)
    (unrevealed : List Nat) (revIdx : Option (List Nat)) : M BlindSignature := do
  let ok ← zkpokVerify cs π C.value Ctv pk bases cpk unrevealed
  if !ok then panic
  else
    let ext ← (match revealed, revIdx with
      | some rm, some ri => extendCommitmentWithPk C rm pk bases (some ri)
      | _, _ => pure C)
    let phi := (sk.p - 1) * (sk.q - 1)
    let k ← remaining
    let e ← drawE cs phi (k + 1)
    let rprime ← randomBits cs.ls
    let e2n ← ofOpt (invMod e phi)
    let bs ← pw pk.b rprime pk.N
    let v ← pw (ext.value * bs * pk.c) e2n pk.N
    pure ⟨e, rprime, v⟩

/-- `unblind_sign(&self, commitment)`. -/
def unblindSign (β : BlindSignature) (C : Commitment) : Signature := ⟨β.e, C.randomness + β.rprime, β.v⟩

/-- `update_signature(&self, revealed_messages, C, sk, pk, a_bases, revealed_indexes)`. -/
def updateSignature (β : BlindSignature) (revealed : Option (List Int)) (C : Commitment) (sk : SecretKey)
    (pk : PublicKey) (bases : List Int) (revIdx : Option (List Nat)) : M BlindSignature := do
  let ext ← (match revealed, revIdx with
    | some rm, some ri => extendCommitmentWithPk C rm pk bases (some ri)
    | _, _ => pure C)
  let phi := (sk.p - 1) * (sk.q - 1)
  let e2n ← ofOpt (invMod β.e phi)
  let bs ← pw pk.b β.rprime pk.N
  let v ← pw (ext.value * bs * pk.c) e2n pk.N
  pure ⟨β.e, β.rprime, v⟩

end Zk.Cl
