/-
The named events of DESIGN.md section 2.2.  Soundness theorems conclude "rejected, or one of
these events happened"; the events are exactly what the paper proofs of BBS assume infeasible
(collision resistance / random-oracle behaviour of hash_to_scalar, no known discrete-log
relation among the hash-derived generators).
-/
import ZkProofs.Lawful
namespace Zk

section
variable {S G1 G2 : Type}

/-- Two different octet strings hash to the same scalar under one DST. -/
def HashCollision (env : Env S G1 G2) (cs : Suite G1) : Prop :=
  ∃ (x y dst : Bytes) (s : S), x ≠ y ∧
    hashToScalar env cs x dst = .ok s ∧ hashToScalar env cs y dst = .ok s

/-- An octet string that contains (an encoding of) the scalar it hashes to: what it takes to
alter the challenge field of a Fiat–Shamir proof and still pass. `f c` is the hash input
rebuilt from the altered challenge `c`. -/
def FixedPoint (env : Env S G1 G2) (cs : Suite G1) (f : S → Bytes) (dst : Bytes) (c₀ : S) : Prop :=
  ∃ c, c ≠ c₀ ∧ hashToScalar env cs (f c) dst = .ok c

variable [Field S] [AddCommGroup G1] [Module S G1]

/-- Two different (domain, message-vector) pairs with the same `B` over the same generators:
a non-trivial discrete-log relation among `P1, Q1, H_1, …`. -/
def BCollision (base Q1 : G1) (Hs : List G1) (d d' : S) (ms ms' : List S) : Prop :=
  (d, ms) ≠ (d', ms') ∧ calcB base Q1 d Hs ms = calcB base Q1 d' Hs ms'

end
end Zk
