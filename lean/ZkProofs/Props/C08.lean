/-
C08  Untrusted input never crashes a BBS verifier, signer or holder.

The model (`ZkModel/L1/Bbs.lean`) has an explicit outcome `Res.panic` for every place where
the Rust would panic (slice index out of range, `unwrap`/`expect` on `None`, `usize`
under/overflow; `usize` is modelled by `Nat` with explicit `uAdd?`/`uSub?` checks).  The
theorems below say that the public entry points never produce it, for EVERY input: arbitrary
byte strings of any length, arbitrary index lists (over all of `Nat`), arbitrary message counts,
and both ciphersuites (`cs` arbitrary).

No algebra and no `Lawful` assumption is used: the statements hold for every environment
`env` (arbitrary codecs, hashes, pairing), in particular for the concrete BLS12-381 one.
The only hypothesis is `NoHashPanic env cs`: generator creation does not panic, i.e. the
expander / hash-to-curve never return `None` where the Rust `expect`s them
(`noHashPanic_of_some`; the concrete driver checks this on every run).  Contrapositive reading:
if one of these entry points panics, then some `Generators.create env cs n api` panicked
(`panic_imp_generator_panic`).

`sign` is NOT total: `core_sign` unwraps the inverse of `sk + e` (see `sign_panic`).
-/
import ZkProofs.Lemmas.Total
import ZkProofs.Lawful
set_option linter.unusedSectionVars false
set_option linter.unusedSimpArgs false
set_option linter.unusedVariables false
namespace Zk.C08
open Zk Res Zk.Total

section
variable {S G1 G2 : Type}
variable [Zero S] [One S] [Add S] [Sub S] [Neg S] [Mul S] [DecidableEq S]
variable [Zero G1] [Add G1] [Sub G1] [Neg G1] [SMul S G1] [DecidableEq G1]
variable [Zero G2] [Add G2] [Neg G2] [SMul S G2] [DecidableEq G2]
variable {env : Env S G1 G2} {cs : Suite G1}

/-- `NoHashPanic` is the negation of "some generator creation panics". -/
theorem panic_imp_generator_panic (P : Prop) (h : NoHashPanic env cs → ¬ P) (hP : P) :
    ∃ n api, Generators.create env cs n api = .panic := by
  by_contra hne
  exact h (fun n api hp => hne ⟨n, api, hp⟩) hP

/-! ### Decoders (unconditional, every environment) -/

/-- **Decoding is total.** Every `from_bytes` of the API returns `Ok` or `Err` on every byte
string (`BlindFactor::from_bytes` has the shape of `skFromBytes`). -/
theorem decode_total (env : Env S G1 G2) (b : Bytes) :
    pkFromBytes env b ≠ .panic ∧ skFromBytes env b ≠ .panic ∧
    Signature.fromBytes env b ≠ .panic ∧ PoKSignature.fromBytes env b ≠ .panic ∧
    ZKPoK.fromBytes env b ≠ .panic ∧ Commitment.fromBytes env b ≠ .panic :=
  ⟨pkFromBytes_ne_panic env b, skFromBytes_ne_panic env b, Signature.fromBytes_ne_panic env b,
    PoKSignature.fromBytes_ne_panic env b, ZKPoK.fromBytes_ne_panic env b,
    Commitment.fromBytes_ne_panic env b⟩

theorem pkFromCoordinates_total (env : Env S G1 G2) (x y : Bytes) :
    pkFromCoordinates env x y ≠ .panic := pkFromCoordinates_ne_panic env x y

/-- `key_gen` returns `Ok`/`Err` for every key material, key info and DST. -/
theorem keyGen_total (env : Env S G1 G2) (cs : Suite G1) (km : Bytes) (ki kd : Option Bytes) :
    keyGen env cs km ki kd ≠ .panic := by
  unfold keyGen
  split
  · simp
  · dsimp only
    split
    · simp
    · exact hashToScalar_ne_panic env cs _ _

/-! ### Verifiers -/

theorem verify_total (hp : NoHashPanic env cs) (σ : Signature S G1) (pk : G2)
    (messages : Option (List Bytes)) (header : Option Bytes) :
    verify env cs σ pk messages header ≠ .panic := by
  unfold verify
  dsimp only
  cases hm : messagesToScalar env cs (messages.getD []) cs.apiId with
  | err => simp
  | panic => exact absurd hm (by apply messagesToScalar_ne_panic)
  | ok ms =>
    simp only
    cases hg : Generators.create env cs ((messages.getD []).length + 1) (some cs.apiId) with
    | err => simp
    | panic => exact absurd hg (hp _ _)
    | ok gens => exact coreVerify_ne_panic env cs _ _ _ _ _ _

/-- `core_proof_verify` is total for arbitrary generators, proof, messages and indexes. -/
theorem coreProofVerify_total (env : Env S G1 G2) (cs : Suite G1) (pk : G2)
    (π : PoKSignature S G1) (gens : Generators G1) (header ph : Option Bytes) (dm : List S)
    (di : List Nat) (apiId : Option Bytes) :
    coreProofVerify env cs pk π gens header ph dm di apiId ≠ .panic :=
  coreProofVerify_ne_panic env cs _ _ _ _ _ _ _ _

theorem proofVerify_total (hp : NoHashPanic env cs) (π : PoKSignature S G1) (pk : G2)
    (disclosedMessages : Option (List Bytes)) (disclosedIndexes : Option (List Nat))
    (header ph : Option Bytes) :
    proofVerify env cs π pk disclosedMessages disclosedIndexes header ph ≠ .panic := by
  unfold proofVerify
  dsimp only
  cases hm : messagesToScalar env cs (disclosedMessages.getD []) cs.apiId with
  | err => simp
  | panic => exact absurd hm (by apply messagesToScalar_ne_panic)
  | ok dm =>
    simp only
    cases hg : Generators.create env cs
        (π.mCap.length + (sortDedup (disclosedIndexes.getD [])).length + 1) (some cs.apiId) with
    | err => simp
    | panic => exact absurd hg (hp _ _)
    | ok gens => exact coreProofVerify_ne_panic env cs _ _ _ _ _ _ _ _

theorem blindProofVerify_total (hp : NoHashPanic env cs) (π : PoKSignature S G1) (pk : G2)
    (header ph : Option Bytes) (L : Option Nat)
    (disclosedMessages disclosedCommitted : Option (List Bytes))
    (disclosedIndexes disclosedCommitmentIndexes : Option (List Nat)) :
    blindProofVerify env cs π pk header ph L disclosedMessages disclosedCommitted
      disclosedIndexes disclosedCommitmentIndexes ≠ .panic := by
  unfold blindProofVerify
  dsimp only
  cases hL : uAdd? (L.getD 0) 1 with
  | none => simp
  | some L1 =>
    simp only
    cases hM : uSub? ((sortDedup (disclosedIndexes.getD [])).length
        + (sortDedup (disclosedCommitmentIndexes.getD [])).length + π.mCap.length) L1 with
    | none => simp
    | some M =>
      simp only
      split
      · simp
      · cases hpp : prepareParameters env cs (some (disclosedMessages.getD []))
            (some (disclosedCommitted.getD [])) (L.getD 0 + 1) (M + 1) none
            (some cs.apiIdBlind) with
        | err => simp
        | panic => exact absurd hpp (prepareParameters_ne_panic env cs hp _ _ _ _ _ _)
        | ok p =>
          obtain ⟨ms, gens⟩ := p
          exact coreProofVerify_ne_panic env cs _ _ _ _ _ _ _ _

theorem verifyBlindSign_total (hp : NoHashPanic env cs) (σ : Signature S G1) (pk : G2)
    (header : Option Bytes) (messages committed : Option (List Bytes))
    (secretProverBlind : Option S) :
    verifyBlindSign env cs σ pk header messages committed secretProverBlind ≠ .panic := by
  unfold verifyBlindSign
  dsimp only
  cases hpp : prepareParameters env cs (some (messages.getD [])) (some (committed.getD []))
      ((messages.getD []).length + 1) ((committed.getD []).length + 1)
      (some (secretProverBlind.getD 0)) (some cs.apiIdBlind) with
  | err => simp
  | panic => exact absurd hpp (prepareParameters_ne_panic env cs hp _ _ _ _ _ _)
  | ok p =>
    obtain ⟨ms, gens⟩ := p
    exact coreVerify_ne_panic env cs _ _ _ _ _ _

/-- `core_commit_verify` is total for an arbitrary commitment, proof and generator list. -/
theorem coreCommitVerify_total (env : Env S G1 G2) (cs : Suite G1) (C : G1) (z : ZKPoK S)
    (blindGens : List G1) (apiId : Option Bytes) :
    coreCommitVerify env cs C z blindGens apiId ≠ .panic :=
  coreCommitVerify_ne_panic env cs C z blindGens apiId

/-- `deserialize_and_validate_commit` is total for arbitrary bytes and generators. -/
theorem deserializeAndValidateCommit_total (env : Env S G1 G2) (cs : Suite G1)
    (cwp : Option Bytes) (blindGens : Generators G1) (apiId : Option Bytes) :
    deserializeAndValidateCommit env cs cwp blindGens apiId ≠ .panic :=
  deserializeAndValidateCommit_ne_panic env cs cwp blindGens apiId

/-! ### Signer side -/

theorem blindSign_total (hp : NoHashPanic env cs) (sk : S) (pk : G2) (cwp : Option Bytes)
    (header : Option Bytes) (messages : Option (List Bytes)) :
    blindSign env cs sk pk cwp header messages ≠ .panic := by
  unfold blindSign
  dsimp only
  cases hM : blindSignM (cwp.getD []).length with
  | none => simp
  | some M =>
    simp only
    cases hg : Generators.create env cs ((messages.getD []).length + 1) (some cs.apiIdBlind) with
    | err => simp
    | panic => exact absurd hg (hp _ _)
    | ok gens =>
      simp only
      cases hb : Generators.create env cs (M + 1)
          (some (Bytes.ofAscii "BLIND_" ++ cs.apiIdBlind)) with
      | err => simp
      | panic => exact absurd hb (hp _ _)
      | ok bgens =>
        simp only
        cases hd : deserializeAndValidateCommit env cs (some (cwp.getD [])) bgens
            (some cs.apiIdBlind) with
        | err => simp
        | panic => exact absurd hd (by apply deserializeAndValidateCommit_ne_panic)
        | ok C =>
          simp only
          cases hm : messagesToScalar env cs (messages.getD []) cs.apiIdBlind with
          | err => simp
          | panic => exact absurd hm (by apply messagesToScalar_ne_panic)
          | ok ms =>
            simp only
            cases hB : calculateB gens (some C) ms with
            | err => simp
            | panic => exact absurd hB (by apply calculateB_ne_panic)
            | ok B =>
              simp only
              have l1 := create_ok_length env cs _ _ _ hg
              have l2 := create_ok_length env cs _ _ _ hb
              exact finalizeBlindSign_ne_panic env cs _ _ _ _ _ _ _ (by omega) (by omega)

theorem updateSignature_total (hp : NoHashPanic env cs) (σ : Signature S G1) (sk : S)
    (oldMessage newMessage : Bytes) (updateIndex n : Nat) :
    updateSignature env cs σ sk oldMessage newMessage updateIndex n ≠ .panic := by
  unfold updateSignature
  split
  · simp
  · cases hg : Generators.create env cs (n + 1) (some cs.apiId) with
    | err => simp
    | panic => exact absurd hg (hp _ _)
    | ok gens =>
      simp only
      split
      · simp
      · cases ho : mapMessageToScalarAsHash env cs oldMessage cs.apiId with
        | err => simp
        | panic => exact absurd ho (by apply mapMessageToScalarAsHash_ne_panic)
        | ok oldS =>
          simp only
          cases hn : mapMessageToScalarAsHash env cs newMessage cs.apiId with
          | err => simp
          | panic => exact absurd hn (by apply mapMessageToScalarAsHash_ne_panic)
          | ok newS =>
            simp only
            split
            · simp
            · split
              · simp
              · split <;> simp

/-- `sign` is **not** total. It panics only if generator creation panics or the inverse of
`sk + e` does not exist for the `e` it derived (the Rust `unwrap`s `invert()`): the witnesses
are the message scalars, generators, domain and `e` computed on the way. -/
theorem sign_panic (hp : NoHashPanic env cs) (messages : Option (List Bytes)) (sk : S) (pk : G2)
    (header : Option Bytes) (h : sign env cs messages sk pk header = .panic) :
    ∃ ms Q1 Hs domain e,
      messagesToScalar env cs (messages.getD []) cs.apiId = .ok ms ∧
      Generators.create env cs ((messages.getD []).length + 1) (some cs.apiId)
        = .ok ⟨cs.p1, Q1 :: Hs⟩ ∧
      calculateDomain env cs pk Q1 Hs header (some cs.apiId) = .ok domain ∧
      hashToScalar env cs (serializeScalars env (sk :: ms ++ [domain])) (cs.apiId ++ cs.h2s)
        = .ok e ∧
      env.sInv (sk + e) = none := by
  unfold sign at h
  dsimp only at h
  cases hm : messagesToScalar env cs (messages.getD []) cs.apiId with
  | err => rw [hm] at h; cases h
  | panic => exact absurd hm (by apply messagesToScalar_ne_panic)
  | ok ms =>
    rw [hm] at h; simp only at h
    cases hg : Generators.create env cs ((messages.getD []).length + 1) (some cs.apiId) with
    | err => rw [hg] at h; cases h
    | panic => exact absurd hg (hp _ _)
    | ok gens =>
      rw [hg] at h; simp only at h
      obtain ⟨Q1, Hs, domain, e, hv, hd, he, hi⟩ := coreSign_panic env cs _ _ _ _ _ _ h
      refine ⟨ms, Q1, Hs, domain, e, rfl, ?_, hd, he, hi⟩
      have hbase : gens.base = cs.p1 := by
        unfold Generators.create at hg
        cases hc : createGenerators env cs ((messages.getD []).length + 1) (some cs.apiId) with
        | ok vs => rw [hc] at hg; cases hg; rfl
        | err => rw [hc] at hg; cases hg
        | panic => rw [hc] at hg; cases hg
      cases gens; simp only at hv hbase; rw [hv, hbase]

/-! ### Holder side -/

/-- `proof_gen` is total for every signature byte string, message list, index list — and every
random tape (a tape shorter than `5 + U` yields `Err` in the model; the Rust always draws
exactly `5 + U` scalars). -/
theorem proofGen_total (hp : NoHashPanic env cs) (pk : G2) (signature : Bytes)
    (header ph : Option Bytes) (messages : Option (List Bytes))
    (disclosedIndexes : Option (List Nat)) (tape : List S) :
    proofGen env cs pk signature header ph messages disclosedIndexes tape ≠ .panic := by
  unfold proofGen
  cases hs : Signature.fromBytes env signature with
  | err => simp
  | panic => exact absurd hs (by apply Signature.fromBytes_ne_panic)
  | ok σ =>
    dsimp only
    cases hm : messagesToScalar env cs (messages.getD []) cs.apiId with
    | err => simp
    | panic => exact absurd hm (by apply messagesToScalar_ne_panic)
    | ok ms =>
      simp only
      cases hg : Generators.create env cs ((messages.getD []).length + 1) (some cs.apiId) with
      | err => simp
      | panic => exact absurd hg (hp _ _)
      | ok gens =>
        simp only
        have l1 := create_ok_length env cs _ _ _ hg
        exact coreProofGen_ne_panic env cs _ _ _ _ _ _ _ _ _ (by omega)

theorem blindProofGen_total (hp : NoHashPanic env cs) (pk : G2) (signature : Bytes)
    (header ph : Option Bytes) (messages committed : Option (List Bytes))
    (disclosedIndexes disclosedCommitmentIndexes : Option (List Nat))
    (secretProverBlind : Option S) (tape : List S) :
    blindProofGen env cs pk signature header ph messages committed disclosedIndexes
      disclosedCommitmentIndexes secretProverBlind tape ≠ .panic := by
  unfold blindProofGen
  cases hs : Signature.fromBytes env signature with
  | err => simp
  | panic => exact absurd hs (by apply Signature.fromBytes_ne_panic)
  | ok σ =>
    dsimp only
    split
    · simp
    · split
      · simp
      · split
        · simp
        · split
          · simp
          · cases hpp : prepareParameters env cs (some (messages.getD []))
                (some (committed.getD [])) ((messages.getD []).length + 1)
                ((committed.getD []).length + 1) (some (secretProverBlind.getD 0))
                (some cs.apiIdBlind) with
            | err => simp
            | panic => exact absurd hpp (prepareParameters_ne_panic env cs hp _ _ _ _ _ _)
            | ok p =>
              obtain ⟨ms, gens⟩ := p
              simp only
              have l1 := (prepareParameters_ok env cs _ _ _ _ _ _ _ _ hpp).1
              exact coreProofGen_ne_panic env cs _ _ _ _ _ _ _ _ _ (by omega)

/-- `commit` is total when the random tape holds the `M + 2` scalars that
`calculate_random_scalars(M + 2)` returns (`M` = number of committed messages). -/
theorem commit_total (hp : NoHashPanic env cs) (committedMessages : Option (List Bytes))
    (tape : List S) (ht : (committedMessages.getD []).length + 2 ≤ tape.length) :
    commit env cs committedMessages tape ≠ .panic := by
  unfold commit commitWith
  dsimp only
  cases hm : messagesToScalar env cs (committedMessages.getD []) ((some cs.apiIdBlind).getD []) with
  | err => simp
  | panic => exact absurd hm (by apply messagesToScalar_ne_panic)
  | ok cms =>
    simp only
    cases hg : Generators.create env cs (cms.length + 1)
        (some (Bytes.ofAscii "BLIND_" ++ (some cs.apiIdBlind).getD [])) with
    | err => simp
    | panic => exact absurd hg (hp _ _)
    | ok bg =>
      simp only
      have l := messagesToScalar_ok_length env cs _ _ _ hm
      exact coreCommit_ne_panic env cs _ _ _ _ (by simp; omega)

/-! ### Work is bounded by the size of the input -/

/-- The variable-length decoders (`PoKSignature`, `ZKPoK`, `Commitment`) cut their input
into at most `len / 32` chunks and decode each once (`decodeScalars` is a single `mapRes`
pass): allocation is linear in the input. -/
theorem decode_chunks_bound (n : Nat) (b : Bytes) : (chunks32 n b).length ≤ b.length / 32 :=
  chunks32_length_le n b

/-- The signer's blind-generator count is bounded by the length of the commitment. -/
theorem blindSignM_le (len M : Nat) (h : blindSignM len = some M) : M ≤ len / 32 := by
  unfold blindSignM uSub? at h
  by_cases h0 : len = 0
  · simp [h0] at h; omega
  · by_cases h1 : 48 ≤ len
    · by_cases h2 : 32 ≤ len - 48
      · simp [h0, h1, h2] at h; omega
      · simp [h0, h1, h2] at h
    · simp [h0, h1] at h

/-- **Work bound for `blind_proof_verify`.** Either it returns `Err` without creating any
generator, or the two generator requests `L + 1` and `M + 1` it makes satisfy
`L + 1 + M = R1 + R2 + U` with `R1 ≤ |disclosed_indexes|`, `R2 ≤ |disclosed_commitment_indexes|`
(lengths after sort+dedup) and `U = |m_cap|`: the caller-supplied `L` cannot make the verifier
do more work than the size of the proof and index lists it was handed. -/
theorem blindProofVerify_work_bound (π : PoKSignature S G1) (pk : G2)
    (header ph : Option Bytes) (L : Option Nat)
    (disclosedMessages disclosedCommitted : Option (List Bytes))
    (disclosedIndexes disclosedCommitmentIndexes : Option (List Nat)) :
    blindProofVerify env cs π pk header ph L disclosedMessages disclosedCommitted
      disclosedIndexes disclosedCommitmentIndexes = .err ∨
    ∃ M, L.getD 0 + 1 + M = (sortDedup (disclosedIndexes.getD [])).length
          + (sortDedup (disclosedCommitmentIndexes.getD [])).length + π.mCap.length ∧
      L.getD 0 + 1 + M ≤ (disclosedIndexes.getD []).length
          + (disclosedCommitmentIndexes.getD []).length + π.mCap.length ∧
      blindProofVerify env cs π pk header ph L disclosedMessages disclosedCommitted
        disclosedIndexes disclosedCommitmentIndexes =
      match prepareParameters env cs (some (disclosedMessages.getD []))
          (some (disclosedCommitted.getD [])) (L.getD 0 + 1) (M + 1) none
          (some cs.apiIdBlind) with
      | .err => .err
      | .panic => .panic
      | .ok (ms, gens) =>
        coreProofVerify env cs pk π gens header ph ms
          (sortDedup (disclosedIndexes.getD []) ++
            (sortDedup (disclosedCommitmentIndexes.getD [])).map (fun j => j + L.getD 0 + 1))
          (some cs.apiIdBlind) := by
  unfold blindProofVerify
  dsimp only
  cases hL : uAdd? (L.getD 0) 1 with
  | none => left; rfl
  | some L1 =>
    simp only
    cases hM : uSub? ((sortDedup (disclosedIndexes.getD [])).length
        + (sortDedup (disclosedCommitmentIndexes.getD [])).length + π.mCap.length) L1 with
    | none => left; rfl
    | some M =>
      simp only
      split
      · left; rfl
      · right
        have h1 : L1 = L.getD 0 + 1 := by
          unfold uAdd? at hL; split at hL
          · cases hL; rfl
          · cases hL
        have h2 : L1 + M = (sortDedup (disclosedIndexes.getD [])).length
            + (sortDedup (disclosedCommitmentIndexes.getD [])).length + π.mCap.length := by
          unfold uSub? at hM; split at hM
          · cases hM; omega
          · cases hM
        have h3 := sortDedup_length_le (disclosedIndexes.getD [])
        have h4 := sortDedup_length_le (disclosedCommitmentIndexes.getD [])
        exact ⟨M, by omega, by omega, rfl⟩

end

/-! ### `NoHashPanic` is satisfiable; `sign` in the lawful setting -/

/-- A toy environment over `Int` whose expander and hash-to-curve always answer. -/
example : ∃ (env : Env Int Int Int) (cs : Suite Int), NoHashPanic env cs := by
  refine ⟨{ sInv := fun _ => none, sEnc := fun _ => [], sDec := fun _ => none, okm := fun _ => 0,
            g1Enc := fun _ => [], g1Dec := fun _ => none, g2Enc := fun _ => [],
            g2Dec := fun _ => none, g2EncU := fun _ => [], g2DecU := fun _ => none, bp2 := 1,
            pairingCheck := fun _ => false, expand := fun _ _ _ _ => some [],
            hashToG1 := fun _ _ _ => some 1 },
          { xof := false, apiId := [], apiIdBlind := [], keygenDst := [], generatorSeed := [],
            generatorSeedDst := [], generatorDst := [], mapMsgScalar := [], h2s := [],
            expandLen := 48, ikmLen := 32, p1 := 1 }, ?_⟩
  exact noHashPanic_of_some _ _ (by intro _ _ h; cases h) (by intro _ _ h; cases h)

section
variable {S G1 G2 GT : Type} [Field S] [DecidableEq S]
variable [AddCommGroup G1] [Module S G1] [DecidableEq G1]
variable [AddCommGroup G2] [Module S G2] [DecidableEq G2]
variable [AddCommGroup GT] [Module S GT]
variable {env : Env S G1 G2} {pair : G1 →ₗ[S] G2 →ₗ[S] GT}

/-- In a lawful environment `sign` panics only when the derived `e` equals `-sk`
(probability `1/r` for a random-oracle hash) — unlike `blind_sign`, which uses `ok_or` and
returns `Err` in that case (`blindSign_total`). -/
theorem sign_panic_lawful (hl : Lawful env pair) (cs : Suite G1) (hp : NoHashPanic env cs)
    (messages : Option (List Bytes)) (sk : S) (pk : G2) (header : Option Bytes)
    (h : sign env cs messages sk pk header = .panic) :
    ∃ ms Q1 Hs domain e,
      messagesToScalar env cs (messages.getD []) cs.apiId = .ok ms ∧
      Generators.create env cs ((messages.getD []).length + 1) (some cs.apiId)
        = .ok ⟨cs.p1, Q1 :: Hs⟩ ∧
      calculateDomain env cs pk Q1 Hs header (some cs.apiId) = .ok domain ∧
      hashToScalar env cs (serializeScalars env (sk :: ms ++ [domain])) (cs.apiId ++ cs.h2s)
        = .ok e ∧
      sk + e = 0 := by
  obtain ⟨ms, Q1, Hs, domain, e, h1, h2, h3, h4, h5⟩ := sign_panic hp messages sk pk header h
  refine ⟨ms, Q1, Hs, domain, e, h1, h2, h3, h4, ?_⟩
  by_contra hne
  rw [hl.sInv_ne _ hne] at h5
  cases h5

/-- The bare-model theorems apply verbatim in the lawful (field/module) setting. -/
example (hl : Lawful env pair) (cs : Suite G1) (hp : NoHashPanic env cs) (π : PoKSignature S G1)
    (pk : G2) (dm : Option (List Bytes)) (di : Option (List Nat)) (header ph : Option Bytes) :
    proofVerify env cs π pk dm di header ph ≠ .panic := proofVerify_total hp π pk dm di header ph

/-- Contrapositive form: a panicking `verify` exhibits a panicking generator creation. -/
example (cs : Suite G1) (σ : Signature S G1) (pk : G2) (m : Option (List Bytes))
    (header : Option Bytes) (h : verify env cs σ pk m header = .panic) :
    ∃ n api, Generators.create env cs n api = .panic :=
  panic_imp_generator_panic _ (fun hp => verify_total hp σ pk m header) h

end
end Zk.C08
