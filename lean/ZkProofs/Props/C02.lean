/-
C02  BBS signature binding: a signature verifies only for exactly what was signed.

No deterministic theorem can say "a forger fails".  What is proved is
* a CHARACTERISATION of acceptance (`verify_iff`, `verify_iff'`);
* UNCONDITIONAL rejection whenever exactly one component of the signature is altered
  (`sig_component_tamper`), hence of every single-bit / single-byte flip of the 80-byte encoding
  (`sig_bitflip`, `sig_byteflip`, `sig_half_tamper`; a decoding error counts as rejection);
* for everything else: acceptance implies an explicit EVENT with explicit witnesses —
  `HashCollision`, `GeneratorRelation` (a `BCollision` over full-length vectors, i.e. a
  non-trivial linear relation among the generators, `generator_relation_linear`),
  `SecondSignature`, an explicit relation `(sk' − sk) • A = (d' − d) • Q1`
  (`sig_bytes_tamper`, `stmt_edit_collision`, `other_pk`);
* domain separation between the two ciphersuites and the plain/blind interfaces
  (`apiIds_pairwise_distinct`, `xof_distinct`, `dst_separation`, `dst_disjoint`), and what
  acceptance in two hash domains means (`cross_suite`, `cross_interface`: `CrossRelation`).

All theorems are about the L1 model with an arbitrary field of scalars, arbitrary modules, an
arbitrary lawful environment and arbitrary hash functions; `cs` is arbitrary (both suites)
except in the `dst_separation` section, which is about the two concrete constant sets.
-/
import ZkProofs.Lemmas.Sig
import ZkProofs.Lemmas.Encoding
import ZkProofs.Events
import ZkProofs.Props.C01
import ZkModel.Generated.Constants
set_option linter.unusedSectionVars false
set_option linter.unusedVariables false
set_option linter.unusedSimpArgs false
namespace Zk.C02
open Zk Res

variable {S G1 G2 GT : Type} [Field S] [DecidableEq S]
variable [AddCommGroup G1] [Module S G1] [DecidableEq G1]
variable [AddCommGroup G2] [Module S G2] [DecidableEq G2]
variable [AddCommGroup GT] [Module S GT]
variable {env : Env S G1 G2} {pair : G1 →ₗ[S] G2 →ₗ[S] GT}

/-! ### Structural facts about the model used below -/

theorem mapRes_cons_ok {α β} {f : α → Res β} {a : α} {t : List α} {r : List β}
    (h : mapRes f (a :: t) = .ok r) : ∃ b bs, f a = .ok b ∧ mapRes f t = .ok bs ∧ r = b :: bs := by
  unfold mapRes at h
  cases hf : f a with
  | err => rw [hf] at h; cases h
  | panic => rw [hf] at h; cases h
  | ok b =>
    rw [hf] at h; simp only at h
    cases ht : mapRes f t with
    | err => rw [ht] at h; cases h
    | panic => rw [ht] at h; cases h
    | ok bs => rw [ht] at h; cases h; exact ⟨b, bs, rfl, rfl, rfl⟩

theorem mapRes_length {α β} {f : α → Res β} :
    ∀ {l : List α} {r : List β}, mapRes f l = .ok r → r.length = l.length
  | [], r, h => by unfold mapRes at h; cases h; rfl
  | a :: t, r, h => by
    obtain ⟨b, bs, _, ht, rfl⟩ := mapRes_cons_ok h
    simp [mapRes_length ht]

/-- Two different input lists with the same `mapRes` output contain two different elements with
the same image. -/
theorem mapRes_collision {α β} {f : α → Res β} :
    ∀ {l l' : List α} {r : List β}, mapRes f l = .ok r → mapRes f l' = .ok r → l ≠ l' →
      ∃ x y s, x ≠ y ∧ f x = .ok s ∧ f y = .ok s
  | [], [], _, _, _, hne => absurd rfl hne
  | [], _ :: _, r, h, h', _ => by
    have := mapRes_length h; have := mapRes_length h'; simp_all
  | _ :: _, [], r, h, h', _ => by
    have := mapRes_length h; have := mapRes_length h'; simp_all
  | a :: t, a' :: t', r, h, h', hne => by
    obtain ⟨b, bs, hb, ht, rfl⟩ := mapRes_cons_ok h
    obtain ⟨b', bs', hb', ht', e⟩ := mapRes_cons_ok h'
    obtain ⟨rfl, rfl⟩ := List.cons.inj e
    by_cases haa : a = a'
    · subst haa
      exact mapRes_collision ht ht' (fun e => hne (by rw [e]))
    · exact ⟨a, a', b, haa, hb, hb'⟩

theorem genLoop_length {cs : Suite G1} {sd gd : Bytes} :
    ∀ {n i : Nat} {v : Bytes} {gs : List G1}, genLoop env cs sd gd n i v = .ok gs → gs.length = n
  | 0, _, _, gs, h => by unfold genLoop at h; cases h; rfl
  | n + 1, i, v, gs, h => by
    unfold genLoop at h
    cases hx : env.expand cs.xof (v ++ i2osp 8 i) sd cs.expandLen with
    | none => rw [hx] at h; cases h
    | some v' =>
      rw [hx] at h; simp only at h
      cases hg : env.hashToG1 cs.xof v' gd with
      | none => rw [hg] at h; cases h
      | some g =>
        rw [hg] at h; simp only at h
        cases hr : genLoop env cs sd gd n (i + 1) v' with
        | err => rw [hr] at h; cases h
        | panic => rw [hr] at h; cases h
        | ok gs' => rw [hr] at h; cases h; simp [genLoop_length hr]

/-- The generators for a smaller count are a prefix of those for a larger count. -/
theorem genLoop_prefix {cs : Suite G1} {sd gd : Bytes} :
    ∀ {n k i : Nat} {v : Bytes} {gs gs' : List G1},
      genLoop env cs sd gd n i v = .ok gs → genLoop env cs sd gd (n + k) i v = .ok gs' →
      ∃ t, gs' = gs ++ t
  | 0, _, _, _, gs, gs', h, _ => by unfold genLoop at h; cases h; exact ⟨gs', rfl⟩
  | n + 1, k, i, v, gs, gs', h, h' => by
    rw [show n + 1 + k = (n + k) + 1 by omega] at h'
    unfold genLoop at h h'
    cases hx : env.expand cs.xof (v ++ i2osp 8 i) sd cs.expandLen with
    | none => rw [hx] at h; cases h
    | some v' =>
      rw [hx] at h h'; simp only at h h'
      cases hg : env.hashToG1 cs.xof v' gd with
      | none => rw [hg] at h; cases h
      | some g =>
        rw [hg] at h h'; simp only at h h'
        cases hr : genLoop env cs sd gd n (i + 1) v' with
        | err => rw [hr] at h; cases h
        | panic => rw [hr] at h; cases h
        | ok r =>
          cases hr' : genLoop env cs sd gd (n + k) (i + 1) v' with
          | err => rw [hr'] at h'; cases h'
          | panic => rw [hr'] at h'; cases h'
          | ok r' =>
            rw [hr] at h; rw [hr'] at h'; cases h; cases h'
            obtain ⟨t, rfl⟩ := genLoop_prefix hr hr'
            exact ⟨t, rfl⟩

theorem createGenerators_length {cs : Suite G1} {n : Nat} {a : Option Bytes} {gs : List G1}
    (h : createGenerators env cs n a = .ok gs) : gs.length = n := by
  unfold createGenerators at h
  dsimp only at h
  cases hx : env.expand cs.xof (a.getD [] ++ cs.generatorSeed) (a.getD [] ++ cs.generatorSeedDst)
      cs.expandLen with
  | none => rw [hx] at h; cases h
  | some v => rw [hx] at h; exact genLoop_length h

theorem createGenerators_prefix {cs : Suite G1} {n k : Nat} {a : Option Bytes} {gs gs' : List G1}
    (h : createGenerators env cs n a = .ok gs) (h' : createGenerators env cs (n + k) a = .ok gs') :
    ∃ t, gs' = gs ++ t := by
  unfold createGenerators at h h'
  dsimp only at h h'
  cases hx : env.expand cs.xof (a.getD [] ++ cs.generatorSeed) (a.getD [] ++ cs.generatorSeedDst)
      cs.expandLen with
  | none => rw [hx] at h; cases h
  | some v => rw [hx] at h h'; exact genLoop_prefix h h'

theorem create_ok {cs : Suite G1} {n : Nat} {a : Option Bytes} {gens : Generators G1}
    (h : Generators.create env cs n a = .ok gens) :
    gens.base = cs.p1 ∧ createGenerators env cs n a = .ok gens.values ∧ gens.values.length = n := by
  unfold Generators.create at h
  cases hc : createGenerators env cs n a with
  | err => rw [hc] at h; cases h
  | panic => rw [hc] at h; cases h
  | ok vs => rw [hc] at h; cases h; exact ⟨rfl, rfl, createGenerators_length hc⟩

theorem create_of {cs : Suite G1} {n : Nat} {a : Option Bytes} {vs : List G1}
    (h : createGenerators env cs n a = .ok vs) :
    Generators.create env cs n a = .ok ⟨cs.p1, vs⟩ := by
  unfold Generators.create; rw [h]

/-- Messages beyond the generator list, and zero messages, do not contribute to `B`. -/
theorem calcB_append_zeros (base Q1 : G1) (d : S) (H1 H2 : List G1) (ms : List S) (k : Nat)
    (hlen : H1.length = ms.length) :
    calcB base Q1 d (H1 ++ H2) (ms ++ List.replicate k 0) = calcB base Q1 d H1 ms := by
  unfold calcB
  rw [List.zip_append hlen, List.foldl_append]
  generalize List.foldl (fun B hm => B + hm.2 • hm.1) (base + d • Q1) (H1.zip ms) = acc
  induction H2 generalizing k acc with
  | nil => simp
  | cons h t ih =>
    cases k with
    | zero => simp
    | succ k => simp only [List.replicate_succ, List.zip_cons_cons, List.foldl_cons, zero_smul,
        add_zero]; exact ih k acc

/-! ### Characterisation of acceptance -/

/-- **What `verify` decides** for a public key `pk = sk • BP2`. -/
theorem verify_iff (hl : Lawful env pair) (cs : Suite G1) (sk : S) (σ : Signature S G1)
    (msgs : Option (List Bytes)) (header : Option Bytes) :
    verify env cs σ (sk • env.bp2) msgs header = .ok () ↔
      ∃ ms gens Q1 Hs d,
        messagesToScalar env cs (msgs.getD []) cs.apiId = .ok ms ∧
        Generators.create env cs ((msgs.getD []).length + 1) (some cs.apiId) = .ok gens ∧
        gens.values = Q1 :: Hs ∧
        calculateDomain env cs (sk • env.bp2) Q1 Hs header (some cs.apiId) = .ok d ∧
        (sk + σ.e) • σ.A = calcB gens.base Q1 d Hs ms := by
  unfold verify
  dsimp only
  cases hm : messagesToScalar env cs (msgs.getD []) cs.apiId with
  | err => simp
  | panic => simp
  | ok ms =>
    dsimp only
    cases hg : Generators.create env cs ((msgs.getD []).length + 1) (some cs.apiId) with
    | err => simp
    | panic => simp
    | ok gens =>
      dsimp only
      rw [coreVerify_ok_iff hl]
      constructor
      · rintro ⟨Q1, Hs, d, hv, _, hd, he⟩
        exact ⟨ms, gens, Q1, Hs, d, rfl, rfl, hv, hd, he⟩
      · rintro ⟨ms', gens', Q1, Hs, d, h1, h2, hv, hd, he⟩
        cases h1; cases h2
        refine ⟨Q1, Hs, d, hv, ?_, hd, he⟩
        have l1 := mapRes_length hm
        have l2 := (create_ok hg).2.2
        rw [hv] at l2; simp at l2; omega

/-- The same, with the generator record unpacked: `L + 1` hash-derived generators `Q1 :: Hs`,
base point `P1` of the suite. `Hs.length = ms.length = L` holds automatically. -/
theorem verify_iff' (hl : Lawful env pair) (cs : Suite G1) (sk : S) (σ : Signature S G1)
    (msgs : Option (List Bytes)) (header : Option Bytes) :
    verify env cs σ (sk • env.bp2) msgs header = .ok () ↔
      ∃ ms Q1 Hs d,
        messagesToScalar env cs (msgs.getD []) cs.apiId = .ok ms ∧
        createGenerators env cs ((msgs.getD []).length + 1) (some cs.apiId) = .ok (Q1 :: Hs) ∧
        calculateDomain env cs (sk • env.bp2) Q1 Hs header (some cs.apiId) = .ok d ∧
        (sk + σ.e) • σ.A = calcB cs.p1 Q1 d Hs ms := by
  rw [verify_iff hl]
  constructor
  · rintro ⟨ms, gens, Q1, Hs, d, hm, hg, hv, hd, he⟩
    obtain ⟨hb, hc, _⟩ := create_ok hg
    exact ⟨ms, Q1, Hs, d, hm, by rw [← hv]; exact hc, hd, by rw [← hb]; exact he⟩
  · rintro ⟨ms, Q1, Hs, d, hm, hc, hd, he⟩
    exact ⟨ms, ⟨cs.p1, Q1 :: Hs⟩, Q1, Hs, d, hm, create_of hc, rfl, hd, he⟩

/-- Lengths in the characterisation. -/
theorem verify_lengths {cs : Suite G1} {M : List Bytes} {apiId : Bytes} {ms : List S} {Q1 : G1}
    {Hs : List G1} (hm : messagesToScalar env cs M apiId = .ok ms)
    (hc : createGenerators env cs (M.length + 1) (some apiId) = .ok (Q1 :: Hs)) :
    ms.length = M.length ∧ Hs.length = M.length := by
  have l1 := mapRes_length hm
  have l2 := createGenerators_length hc
  simp at l2; exact ⟨l1, l2⟩

/-- Two signatures accepted for the same statement and key have the same `B = (sk + e) • A`. -/
theorem verify_same_B (hl : Lawful env pair) (cs : Suite G1) (sk : S) (σ σ' : Signature S G1)
    (msgs : Option (List Bytes)) (header : Option Bytes)
    (hv : verify env cs σ (sk • env.bp2) msgs header = .ok ())
    (hv' : verify env cs σ' (sk • env.bp2) msgs header = .ok ()) :
    (sk + σ'.e) • σ'.A = (sk + σ.e) • σ.A := by
  obtain ⟨ms, Q1, Hs, d, hm, hc, hd, he⟩ := (verify_iff' hl cs sk σ msgs header).mp hv
  obtain ⟨ms', Q1', Hs', d', hm', hc', hd', he'⟩ := (verify_iff' hl cs sk σ' msgs header).mp hv'
  rw [hm] at hm'; cases hm'
  rw [hc] at hc'; cases hc'
  rw [hd] at hd'; cases hd'
  rw [he, he']

/-! ### Tampering with the signature -/

/-- **One altered component is always rejected.** If `σ` is accepted, `A ≠ 0` and `sk + e ≠ 0`
(both hold for every signature produced by `sign`, `C01.sign_A_ne_zero`; `A ≠ 0` holds for every
decoded signature), then no `σ'` that differs from `σ` in exactly one of the two components is
accepted for the same statement. Unconditional: no event needed. -/
theorem sig_component_tamper (hl : Lawful env pair) (cs : Suite G1) (sk : S)
    (σ σ' : Signature S G1) (msgs : Option (List Bytes)) (header : Option Bytes)
    (hv : verify env cs σ (sk • env.bp2) msgs header = .ok ())
    (hA : σ.A ≠ 0) (hz : sk + σ.e ≠ 0)
    (hdiff : (σ'.A ≠ σ.A ∧ σ'.e = σ.e) ∨ (σ'.A = σ.A ∧ σ'.e ≠ σ.e)) :
    verify env cs σ' (sk • env.bp2) msgs header ≠ .ok () := by
  intro hv'
  have hB := verify_same_B hl cs sk σ σ' msgs header hv hv'
  rcases hdiff with ⟨hA', he'⟩ | ⟨hA', he'⟩
  · rw [he'] at hB
    have h0 : (sk + σ.e) • (σ'.A - σ.A) = 0 := by rw [smul_sub, hB, sub_self]
    rcases smul_eq_zero_field h0 with h | h
    · exact hz h
    · exact hA' (sub_eq_zero.mp h)
  · rw [hA'] at hB
    have h0 : (σ'.e - σ.e) • σ.A = 0 := by
      have : (σ'.e - σ.e) • σ.A = (sk + σ'.e) • σ.A - (sk + σ.e) • σ.A := by module
      rw [this, hB, sub_self]
    rcases smul_eq_zero_field h0 with h | h
    · exact he' (sub_eq_zero.mp h)
    · exact hA h

/-- The residual event when BOTH components of an accepted signature are replaced: `σ'` is a
second valid signature `(A', e')`, `A' ≠ A`, `e' ≠ e`, on the same `B`. Producing one from `σ`
without `sk` means computing `A' = (sk + e')⁻¹ • B` for a fresh `e'`: the q-SDH-type assumption
under which BBS signatures are unforgeable. -/
def SecondSignature (sk : S) (σ σ' : Signature S G1) : Prop :=
  σ'.A ≠ σ.A ∧ σ'.e ≠ σ.e ∧ (sk + σ'.e) • σ'.A = (sk + σ.e) • σ.A

/-- Whatever decodes from bytes other than the encoding of `σ` is a different signature. -/
theorem fromBytes_ne (hl : Lawful env pair) (σ σ' : Signature S G1) (b' : Bytes)
    (hb : b' ≠ σ.toBytes env) (hdec : Signature.fromBytes env b' = .ok σ') :
    σ'.A ≠ σ.A ∨ σ'.e ≠ σ.e := by
  by_contra hcon
  have h1 : σ'.A = σ.A := by by_contra h; exact hcon (Or.inl h)
  have h2 : σ'.e = σ.e := by by_contra h; exact hcon (Or.inr h)
  have := (C01.sig_decode_strict hl b' σ' hdec).1
  apply hb; rw [← this]; simp [Signature.toBytes, h1, h2]

/-- `fromBytes` never panics. -/
theorem fromBytes_ne_panic (b : Bytes) : Signature.fromBytes env b ≠ .panic := by
  unfold Signature.fromBytes
  split
  · simp
  · cases env.g1Dec (b.take 48) with
    | none => simp
    | some A =>
      cases env.sDec (b.drop 48) with
      | none => simp
      | some e => dsimp only; split <;> simp

/-- **Any change of the 80 bytes.** Let `σ` be accepted (`A ≠ 0`, `sk + e ≠ 0`). For every octet
string `b'` other than the encoding of `σ` (any length): decoding fails, or the decoded signature
is rejected, or it is a `SecondSignature` (both components changed and still valid). -/
theorem sig_bytes_tamper (hl : Lawful env pair) (cs : Suite G1) (sk : S) (σ : Signature S G1)
    (msgs : Option (List Bytes)) (header : Option Bytes)
    (hv : verify env cs σ (sk • env.bp2) msgs header = .ok ())
    (hA : σ.A ≠ 0) (hz : sk + σ.e ≠ 0) (b' : Bytes) (hb : b' ≠ σ.toBytes env) :
    Signature.fromBytes env b' = .err ∨
    ∃ σ', Signature.fromBytes env b' = .ok σ' ∧
      (verify env cs σ' (sk • env.bp2) msgs header ≠ .ok () ∨ SecondSignature sk σ σ') := by
  cases hdec : Signature.fromBytes env b' with
  | err => exact Or.inl rfl
  | panic => exact absurd hdec (fromBytes_ne_panic b')
  | ok σ' =>
    refine Or.inr ⟨σ', rfl, ?_⟩
    by_cases hv' : verify env cs σ' (sk • env.bp2) msgs header = .ok ()
    · right
      have hB := verify_same_B hl cs sk σ σ' msgs header hv hv'
      by_cases h1 : σ'.A = σ.A
      · by_cases h2 : σ'.e = σ.e
        · rcases fromBytes_ne hl σ σ' b' hb hdec with h | h
          · exact absurd h1 h
          · exact absurd h2 h
        · exact absurd hv' (sig_component_tamper hl cs sk σ σ' msgs header hv hA hz
            (Or.inr ⟨h1, h2⟩))
      · by_cases h2 : σ'.e = σ.e
        · exact absurd hv' (sig_component_tamper hl cs sk σ σ' msgs header hv hA hz
            (Or.inl ⟨h1, h2⟩))
        · exact ⟨h1, h2, hB⟩
    · exact Or.inl hv'

/-- **A change confined to one half of the encoding is always rejected.** If `b'` agrees with
the encoding of `σ` on the first 48 bytes (the point) or on the last 32 bytes (the scalar) but is
not equal to it, then it fails to decode or decodes to a rejected signature. Unconditional. -/
theorem sig_half_tamper (hl : Lawful env pair) (cs : Suite G1) (sk : S) (σ : Signature S G1)
    (msgs : Option (List Bytes)) (header : Option Bytes)
    (hv : verify env cs σ (sk • env.bp2) msgs header = .ok ())
    (hA : σ.A ≠ 0) (hz : sk + σ.e ≠ 0) (b' : Bytes) (hb : b' ≠ σ.toBytes env)
    (hhalf : b'.take 48 = (σ.toBytes env).take 48 ∨ b'.drop 48 = (σ.toBytes env).drop 48) :
    Signature.fromBytes env b' = .err ∨
    ∃ σ', Signature.fromBytes env b' = .ok σ' ∧
      verify env cs σ' (sk • env.bp2) msgs header ≠ .ok () := by
  cases hdec : Signature.fromBytes env b' with
  | err => exact Or.inl rfl
  | panic => exact absurd hdec (fromBytes_ne_panic b')
  | ok σ' =>
    refine Or.inr ⟨σ', rfl, ?_⟩
    have hne := fromBytes_ne hl σ σ' b' hb hdec
    obtain ⟨hstrict, _⟩ := C01.sig_decode_strict hl b' σ' hdec
    have l1 := hl.g1Codec.enc_len σ.A
    have l1' := hl.g1Codec.enc_len σ'.A
    have ht : ∀ τ : Signature S G1, (τ.toBytes env).take 48 = env.g1Enc τ.A := fun τ => by
      have := hl.g1Codec.enc_len τ.A
      unfold Signature.toBytes
      rw [List.take_append_of_le_length (by omega), List.take_of_length_le (by omega)]
    have hd : ∀ τ : Signature S G1, (τ.toBytes env).drop 48 = env.sEnc τ.e := fun τ => by
      have := hl.g1Codec.enc_len τ.A
      unfold Signature.toBytes
      rw [List.drop_append_of_le_length (by omega), List.drop_of_length_le (by omega),
        List.nil_append]
    apply sig_component_tamper hl cs sk σ σ' msgs header hv hA hz
    rcases hhalf with h | h
    · rw [← hstrict, ht, ht] at h
      have hAA := hl.g1Codec.enc_injective h
      rcases hne with h' | h'
      · exact absurd hAA h'
      · exact Or.inr ⟨hAA, h'⟩
    · rw [← hstrict, hd, hd] at h
      have hee := hl.sCodec.enc_injective h
      rcases hne with h' | h'
      · exact Or.inl ⟨h', hee⟩
      · exact absurd hee h'

/-- **Single-byte change** (position `i`, new value `x ≠` old value): always rejected. -/
theorem sig_byteflip (hl : Lawful env pair) (cs : Suite G1) (sk : S) (σ : Signature S G1)
    (msgs : Option (List Bytes)) (header : Option Bytes)
    (hv : verify env cs σ (sk • env.bp2) msgs header = .ok ())
    (hA : σ.A ≠ 0) (hz : sk + σ.e ≠ 0) (i : Nat) (hi : i < 80) (x : UInt8)
    (hx : (σ.toBytes env)[i]? ≠ some x) :
    let b' := (σ.toBytes env).set i x
    Signature.fromBytes env b' = .err ∨
    ∃ σ', Signature.fromBytes env b' = .ok σ' ∧
      verify env cs σ' (sk • env.bp2) msgs header ≠ .ok () := by
  intro b'
  have hlen : (σ.toBytes env).length = 80 := by
    simp [Signature.toBytes, hl.g1Codec.enc_len, hl.sCodec.enc_len]
  apply sig_half_tamper hl cs sk σ msgs header hv hA hz b'
  · intro h
    have : b'[i]? = some x := by simp [b', List.getElem?_set, hlen, hi]
    rw [h] at this; exact hx this
  · by_cases h48 : i < 48
    · right; simp only [b']; rw [List.drop_set]; simp [h48]
    · left; simp only [b']; rw [List.take_set, List.set_eq_of_length_le]
      rw [List.length_take]; omega

/-- Flipping bit `k` of a byte changes the byte. -/
theorem flip_ne (y : UInt8) (k : Nat) (hk : k < 8) : y ^^^ ((1 : UInt8) <<< k.toUInt8) ≠ y := by
  intro h
  have h0 : (1 : UInt8) <<< k.toUInt8 = 0 := by
    have : y ^^^ ((1 : UInt8) <<< k.toUInt8) = y ^^^ 0 := by rw [h, UInt8.xor_zero]
    exact (UInt8.xor_right_inj y).mp this
  have : ∀ k : Fin 8, (1 : UInt8) <<< k.val.toUInt8 ≠ 0 := by decide
  exact this ⟨k, hk⟩ h0

/-- **Single-bit flip.** Flipping bit `k` of byte `i` of the 80-byte encoding of an accepted
signature yields bytes that fail to decode or decode to a rejected signature, for every one of
the 640 positions. Unconditional (no event). -/
theorem sig_bitflip (hl : Lawful env pair) (cs : Suite G1) (sk : S) (σ : Signature S G1)
    (msgs : Option (List Bytes)) (header : Option Bytes)
    (hv : verify env cs σ (sk • env.bp2) msgs header = .ok ())
    (hA : σ.A ≠ 0) (hz : sk + σ.e ≠ 0) (i : Nat) (hi : i < 80) (k : Nat) (hk : k < 8)
    (y : UInt8) (hy : (σ.toBytes env)[i]? = some y) :
    let b' := (σ.toBytes env).set i (y ^^^ ((1 : UInt8) <<< k.toUInt8))
    Signature.fromBytes env b' = .err ∨
    ∃ σ', Signature.fromBytes env b' = .ok σ' ∧
      verify env cs σ' (sk • env.bp2) msgs header ≠ .ok () := by
  apply sig_byteflip hl cs sk σ msgs header hv hA hz i hi
  rw [hy]; intro h; exact flip_ne y k hk (Option.some.inj h).symm


/-! ### Tampering with the statement (messages, header) -/

theorem calculateDomain_eq (cs : Suite G1) (pk : G2) (Q1 : G1) (Hs : List G1)
    (header : Option Bytes) (a : Bytes) :
    calculateDomain env cs pk Q1 Hs header (some a)
      = hashToScalar env cs (domainInput env pk Q1 Hs (header.getD []) a) (a ++ cs.h2s) := rfl

/-- **Event**: a non-trivial discrete-log relation among `P1` and the `n + 1` hash-derived
generators `Q1, H_1, …, H_n` of the suite: two DIFFERENT pairs (domain, message vector), both
vectors of full length `n`, with the same `B`. (`generator_relation_linear` below spells out the
linear relation.) -/
def GeneratorRelation (env : Env S G1 G2) (cs : Suite G1) (apiId : Bytes) (n : Nat) : Prop :=
  ∃ (Q1 : G1) (Hs : List G1) (d d' : S) (ms ms' : List S),
    createGenerators env cs (n + 1) (some apiId) = .ok (Q1 :: Hs) ∧
    ms.length = n ∧ ms'.length = n ∧ BCollision cs.p1 Q1 Hs d d' ms ms'

theorem msm_sub : ∀ (Hs : List G1) (ms ms' : List S), ms.length = ms'.length →
    ((Hs.zip ms).map fun hm => hm.2 • hm.1).sum - ((Hs.zip ms').map fun hm => hm.2 • hm.1).sum
      = ((Hs.zip (List.zipWith (· - ·) ms ms')).map fun hm => hm.2 • hm.1).sum
  | [], _, _, _ => by simp
  | _ :: _, [], [], _ => by simp
  | _ :: _, [], _ :: _, h => by simp at h
  | _ :: _, _ :: _, [], h => by simp at h
  | h :: t, m :: ms, m' :: ms', hl => by
    have ih := msm_sub t ms ms' (by simpa using hl)
    simp only [List.zip_cons_cons, List.map_cons, List.sum_cons, List.zipWith_cons_cons]
    rw [← ih]; module

/-- A `BCollision` between full-length vectors is a linear relation
`(d − d') • Q1 + Σ (mᵢ − m'ᵢ) • Hᵢ = 0` whose coefficient vector is not zero. -/
theorem bcollision_linear (base Q1 : G1) (Hs : List G1) (d d' : S) (ms ms' : List S)
    (hlen : ms.length = ms'.length) (h : BCollision base Q1 Hs d d' ms ms') :
    (d - d') • Q1 + ((Hs.zip (List.zipWith (· - ·) ms ms')).map fun hm => hm.2 • hm.1).sum = 0 ∧
    (d - d' ≠ 0 ∨ ∃ c ∈ List.zipWith (· - ·) ms ms', c ≠ 0) := by
  obtain ⟨hne, hB⟩ := h
  rw [calcB_eq, calcB_eq] at hB
  refine ⟨?_, ?_⟩
  · rw [← msm_sub Hs ms ms' hlen]
    have : (d - d') • Q1 + (((Hs.zip ms).map fun hm => hm.2 • hm.1).sum -
        ((Hs.zip ms').map fun hm => hm.2 • hm.1).sum)
        = (base + d • Q1 + ((Hs.zip ms).map fun hm => hm.2 • hm.1).sum)
          - (base + d' • Q1 + ((Hs.zip ms').map fun hm => hm.2 • hm.1).sum) := by module
    rw [this, hB, sub_self]
  · by_contra hcon
    rw [not_or, not_not] at hcon
    obtain ⟨hd, hms⟩ := hcon
    apply hne
    have hdd : d = d' := sub_eq_zero.mp hd
    have : ∀ (a b : List S), a.length = b.length →
        (∀ c ∈ List.zipWith (· - ·) a b, c = 0) → a = b := by
      intro a
      induction a with
      | nil => intro b hb _; cases b with | nil => rfl | cons _ _ => simp at hb
      | cons x a ih =>
        intro b hb hz
        cases b with
        | nil => simp at hb
        | cons y b =>
          have hxy : x = y := sub_eq_zero.mp (hz (x - y) (by simp))
          rw [hxy, ih b (by simpa using hb) (fun c hc => hz c (by simp [hc]))]
    rw [hdd, this ms ms' hlen (fun c hc => by by_contra h'; exact hms ⟨c, hc, h'⟩)]

theorem generator_relation_linear {cs : Suite G1} {apiId : Bytes} {n : Nat}
    (h : GeneratorRelation env cs apiId n) :
    ∃ (Q1 : G1) (Hs : List G1) (c0 : S) (c : List S),
      createGenerators env cs (n + 1) (some apiId) = .ok (Q1 :: Hs) ∧ c.length = n ∧
      c0 • Q1 + ((Hs.zip c).map fun hm => hm.2 • hm.1).sum = 0 ∧ (c0 ≠ 0 ∨ ∃ x ∈ c, x ≠ 0) := by
  obtain ⟨Q1, Hs, d, d', ms, ms', hc, l1, l2, hB⟩ := h
  obtain ⟨h1, h2⟩ := bcollision_linear cs.p1 Q1 Hs d d' ms ms' (by omega) hB
  exact ⟨Q1, Hs, d - d', List.zipWith (· - ·) ms ms', hc, by simp [l1, l2], h1, h2⟩

/-- Core of `stmt_edit_collision` with the shorter message list first. -/
theorem stmt_edit_core (hl : Lawful env pair) (cs : Suite G1) (sk : S) (σ : Signature S G1)
    (M M' : List Bytes) (header header' : Option Bytes)
    (hle : M.length ≤ M'.length) (hL' : M'.length < 2 ^ 64)
    (hv : verify env cs σ (sk • env.bp2) (some M) header = .ok ())
    (hv' : verify env cs σ (sk • env.bp2) (some M') header' = .ok ())
    (hdiff : M ≠ M' ∨ header.getD [] ≠ header'.getD []) :
    HashCollision env cs ∨ GeneratorRelation env cs cs.apiId M'.length := by
  obtain ⟨ms, Q1, Hs, d, hm, hc, hd, he⟩ := (verify_iff' hl cs sk σ _ header).mp hv
  obtain ⟨ms', Q1', Hs', d', hm', hc', hd', he'⟩ := (verify_iff' hl cs sk σ _ header').mp hv'
  simp only [Option.getD_some] at hm hc hm' hc'
  obtain ⟨lms, lHs⟩ := verify_lengths hm hc
  obtain ⟨lms', lHs'⟩ := verify_lengths hm' hc'
  obtain ⟨k, hk⟩ : ∃ k, M'.length = M.length + k := ⟨M'.length - M.length, by omega⟩
  have hc'' := hc'
  rw [show M'.length + 1 = M.length + 1 + k by omega] at hc''
  obtain ⟨t, ht⟩ := createGenerators_prefix hc hc''
  rw [List.cons_append] at ht
  obtain ⟨rfl, rfl⟩ := List.cons.inj ht
  have hBz : calcB cs.p1 Q1' d (Hs ++ t) (ms ++ List.replicate k 0) = calcB cs.p1 Q1' d Hs ms :=
    calcB_append_zeros cs.p1 Q1' d Hs t ms k (by omega)
  rw [calculateDomain_eq] at hd hd'
  by_cases hEq : (d, ms ++ List.replicate k 0) = (d', ms')
  · left
    obtain ⟨hdd, hmm⟩ := Prod.mk.inj hEq
    subst hdd
    by_cases hk0 : k = 0
    · subst hk0
      simp only [List.replicate_zero, List.append_nil] at hmm
      subst hmm
      rcases hdiff with hM | hH
      · obtain ⟨x, y, s, hne, hx, hy⟩ := mapRes_collision hm hm' hM
        exact ⟨x, y, cs.apiId ++ cs.mapMsgScalar, s, hne, hx, hy⟩
      · refine ⟨_, _, _, d, ?_, hd, hd'⟩
        intro hin
        have := domainInput_injective hl (by omega) (by omega) hin
        exact hH this.2.2.2
    · refine ⟨_, _, _, d, ?_, hd, hd'⟩
      intro hin
      have := (domainInput_injective hl (by omega) (by omega) hin).2.2.1
      have := congrArg List.length this
      rw [List.length_append] at this lHs'
      omega
  · right
    refine ⟨Q1', Hs ++ t, d, d', ms ++ List.replicate k 0, ms', hc', ?_, lms', hEq, ?_⟩
    · simp; omega
    · rw [hBz, ← he, he']

/-- **Altered, removed, added or moved messages; altered header.** If one signature is accepted
for two statements under the same key (and suite) whose octet-level contents differ — the
message lists differ as lists of octet strings, or the headers differ as octet strings (absent =
empty) — then a hash collision has been found (two messages with the same scalar, or two
different domain inputs with the same domain) or a non-trivial relation among the generators for
`max L L'` messages is known. Message counts are `usize` values. -/
theorem stmt_edit_collision (hl : Lawful env pair) (cs : Suite G1) (sk : S) (σ : Signature S G1)
    (msgs msgs' : Option (List Bytes)) (header header' : Option Bytes)
    (hL : (msgs.getD []).length < 2 ^ 64) (hL' : (msgs'.getD []).length < 2 ^ 64)
    (hv : verify env cs σ (sk • env.bp2) msgs header = .ok ())
    (hv' : verify env cs σ (sk • env.bp2) msgs' header' = .ok ())
    (hdiff : msgs.getD [] ≠ msgs'.getD [] ∨ header.getD [] ≠ header'.getD []) :
    HashCollision env cs ∨
      GeneratorRelation env cs cs.apiId (max (msgs.getD []).length (msgs'.getD []).length) := by
  have e1 : verify env cs σ (sk • env.bp2) msgs header
      = verify env cs σ (sk • env.bp2) (some (msgs.getD [])) header := by cases msgs <;> rfl
  have e2 : verify env cs σ (sk • env.bp2) msgs' header'
      = verify env cs σ (sk • env.bp2) (some (msgs'.getD [])) header' := by cases msgs' <;> rfl
  rw [e1] at hv; rw [e2] at hv'
  rcases Nat.le_total (msgs.getD []).length (msgs'.getD []).length with hle | hle
  · rw [Nat.max_eq_right hle]
    exact stmt_edit_core hl cs sk σ _ _ header header' hle hL' hv hv' hdiff
  · rw [Nat.max_eq_left hle]
    exact stmt_edit_core hl cs sk σ _ _ header' header hle hL hv' hv
      (hdiff.imp Ne.symm Ne.symm)

/-! ### Another public key -/

/-- **Another public key.** If a signature is accepted for the same statement under two
different keys `sk • BP2`, `sk' • BP2`, then either the two (different) domain inputs collide
under `hash_to_scalar`, or the domains `d ≠ d'` satisfy `(sk' − sk) • A = (d' − d) • Q1`: the
signature point is a known multiple of the generator `Q1`. -/
theorem other_pk (hl : Lawful env pair) (cs : Suite G1) (sk sk' : S) (σ : Signature S G1)
    (msgs : Option (List Bytes)) (header : Option Bytes) (hne : sk ≠ sk') (hA : σ.A ≠ 0)
    (hL : (msgs.getD []).length < 2 ^ 64)
    (hv : verify env cs σ (sk • env.bp2) msgs header = .ok ())
    (hv' : verify env cs σ (sk' • env.bp2) msgs header = .ok ()) :
    HashCollision env cs ∨
    ∃ Q1 Hs d d',
      createGenerators env cs ((msgs.getD []).length + 1) (some cs.apiId) = .ok (Q1 :: Hs) ∧
      calculateDomain env cs (sk • env.bp2) Q1 Hs header (some cs.apiId) = .ok d ∧
      calculateDomain env cs (sk' • env.bp2) Q1 Hs header (some cs.apiId) = .ok d' ∧
      d ≠ d' ∧ (sk' - sk) • σ.A = (d' - d) • Q1 := by
  obtain ⟨ms, Q1, Hs, d, hm, hc, hd, he⟩ := (verify_iff' hl cs sk σ msgs header).mp hv
  obtain ⟨ms', Q1', Hs', d', hm', hc', hd', he'⟩ := (verify_iff' hl cs sk' σ msgs header).mp hv'
  rw [hm] at hm'; cases hm'
  rw [hc] at hc'; cases hc'
  obtain ⟨_, lHs⟩ := verify_lengths hm hc
  have hpk : sk • env.bp2 ≠ sk' • env.bp2 := by
    intro h
    have h0 : (sk - sk') • env.bp2 = 0 := by rw [sub_smul, h, sub_self]
    rcases smul_eq_zero_field h0 with h1 | h1
    · exact hne (sub_eq_zero.mp h1)
    · exact hA (hl.nondeg σ.A (by rw [h1, map_zero]))
  by_cases hdd : d = d'
  · left
    subst hdd
    rw [calculateDomain_eq] at hd hd'
    refine ⟨_, _, _, d, ?_, hd, hd'⟩
    intro hin
    exact hpk (domainInput_injective hl (by omega) (by omega) hin).1
  · right
    refine ⟨Q1, Hs, d, d', hc, hd, hd', hdd, ?_⟩
    rw [calcB_eq] at he he'
    have : (sk' - sk) • σ.A = (sk' + σ.e) • σ.A - (sk + σ.e) • σ.A := by module
    rw [this, he, he']; module

/-! ### Domain separation: the two suites, the plain and the blind interface -/

/-- The DSTs of every hash call (`expand_message`, `hash_to_curve`, `hash_to_scalar`) the model
makes on the PLAIN interface of a suite (`sign`, `verify`, `proofGen`, `proofVerify`, `keyGen`
with the default DST): `api_id ++ ` one of `H2S_`, `MAP_MSG_TO_SCALAR_AS_HASH_`,
`SIG_GENERATOR_SEED_`, `SIG_GENERATOR_DST_`, `KEYGEN_DST_`. -/
def plainDsts (cs : Suite G1) : List Bytes :=
  [cs.apiId ++ cs.h2s, cs.apiId ++ cs.mapMsgScalar, cs.apiId ++ cs.generatorSeedDst,
   cs.apiId ++ cs.generatorDst, cs.apiId ++ cs.keygenDst]

/-- The DSTs of every hash call on the BLIND interface (`commit`, `blindSign`, `verifyBlindSign`,
`blindProofGen`, `blindProofVerify`): as above with `api_id_blind`, plus the two generator DSTs
of the blind generators, built from `"BLIND_" ++ api_id_blind`. -/
def blindDsts (cs : Suite G1) : List Bytes :=
  [cs.apiIdBlind ++ cs.h2s, cs.apiIdBlind ++ cs.mapMsgScalar,
   cs.apiIdBlind ++ cs.generatorSeedDst, cs.apiIdBlind ++ cs.generatorDst,
   Bytes.ofAscii "BLIND_" ++ cs.apiIdBlind ++ cs.generatorSeedDst,
   Bytes.ofAscii "BLIND_" ++ cs.apiIdBlind ++ cs.generatorDst]

open Generated in
/-- `cs` carries the byte constants of `BLS12381-SHA-256` (as regenerated from the crate). -/
def IsSha (cs : Suite G1) : Prop :=
  cs.xof = Sha.xof ∧ cs.apiId = Sha.apiId ∧ cs.apiIdBlind = Sha.apiIdBlind ∧ cs.h2s = Sha.h2s ∧
  cs.mapMsgScalar = Sha.mapMsgScalar ∧ cs.generatorSeedDst = Sha.generatorSeedDst ∧
  cs.generatorDst = Sha.generatorDst ∧ cs.keygenDst = Sha.keygenDst

open Generated in
/-- `cs` carries the byte constants of `BLS12381-SHAKE-256`. -/
def IsShake (cs : Suite G1) : Prop :=
  cs.xof = Shake.xof ∧ cs.apiId = Shake.apiId ∧ cs.apiIdBlind = Shake.apiIdBlind ∧
  cs.h2s = Shake.h2s ∧ cs.mapMsgScalar = Shake.mapMsgScalar ∧
  cs.generatorSeedDst = Shake.generatorSeedDst ∧ cs.generatorDst = Shake.generatorDst ∧
  cs.keygenDst = Shake.keygenDst

open Generated in
/-- The four api ids (2 suites × plain/blind) are pairwise distinct. -/
theorem apiIds_pairwise_distinct :
    [Sha.apiId, Sha.apiIdBlind, Shake.apiId, Shake.apiIdBlind].Nodup := by decide

open Generated in
/-- The two suites use different hash functions (`xof` flag of `expand`/`hashToG1`). -/
theorem xof_distinct : Sha.xof ≠ Shake.xof := by decide

open Generated in
theorem dst_separation_consts :
    ([Sha.apiId ++ Sha.h2s, Sha.apiId ++ Sha.mapMsgScalar, Sha.apiId ++ Sha.generatorSeedDst,
      Sha.apiId ++ Sha.generatorDst, Sha.apiId ++ Sha.keygenDst] ++
     [Sha.apiIdBlind ++ Sha.h2s, Sha.apiIdBlind ++ Sha.mapMsgScalar,
      Sha.apiIdBlind ++ Sha.generatorSeedDst, Sha.apiIdBlind ++ Sha.generatorDst,
      Bytes.ofAscii "BLIND_" ++ Sha.apiIdBlind ++ Sha.generatorSeedDst,
      Bytes.ofAscii "BLIND_" ++ Sha.apiIdBlind ++ Sha.generatorDst] ++
     [Shake.apiId ++ Shake.h2s, Shake.apiId ++ Shake.mapMsgScalar,
      Shake.apiId ++ Shake.generatorSeedDst, Shake.apiId ++ Shake.generatorDst,
      Shake.apiId ++ Shake.keygenDst] ++
     [Shake.apiIdBlind ++ Shake.h2s, Shake.apiIdBlind ++ Shake.mapMsgScalar,
      Shake.apiIdBlind ++ Shake.generatorSeedDst, Shake.apiIdBlind ++ Shake.generatorDst,
      Bytes.ofAscii "BLIND_" ++ Shake.apiIdBlind ++ Shake.generatorSeedDst,
      Bytes.ofAscii "BLIND_" ++ Shake.apiIdBlind ++ Shake.generatorDst]).Nodup := by
  decide

/-- **DST separation.** All 22 DSTs used by the model — 5 on the plain and 6 on the blind
interface of each of the two suites — are pairwise distinct. In particular every hash call made
for one (suite, interface) pair uses a DST that no call for another pair uses (and the calls of
different suites moreover go to different hash functions, `xof_distinct`). -/
theorem dst_separation (cs cs' : Suite G1) (h : IsSha cs) (h' : IsShake cs') :
    (plainDsts cs ++ blindDsts cs ++ plainDsts cs' ++ blindDsts cs').Nodup := by
  obtain ⟨_, a1, a2, a3, a4, a5, a6, a7⟩ := h
  obtain ⟨_, b1, b2, b3, b4, b5, b6, b7⟩ := h'
  simp only [plainDsts, blindDsts, a1, a2, a3, a4, a5, a6, a7, b1, b2, b3, b4, b5, b6, b7]
  exact dst_separation_consts

/-- Consequence in the form used: a DST of one (suite, interface) pair is never a DST of
another pair. -/
theorem dst_disjoint (cs cs' : Suite G1) (h : IsSha cs) (h' : IsShake cs') :
    (∀ x ∈ plainDsts cs, x ∉ blindDsts cs ∧ x ∉ plainDsts cs' ∧ x ∉ blindDsts cs') ∧
    (∀ x ∈ blindDsts cs, x ∉ plainDsts cs' ∧ x ∉ blindDsts cs') ∧
    (∀ x ∈ plainDsts cs', x ∉ blindDsts cs') := by
  have hn := dst_separation cs cs' h h'
  rw [List.nodup_append] at hn
  obtain ⟨hn1, _, d3⟩ := hn
  rw [List.nodup_append] at hn1
  obtain ⟨hn2, _, d2⟩ := hn1
  rw [List.nodup_append] at hn2
  obtain ⟨_, _, d1⟩ := hn2
  refine ⟨fun x hx => ⟨?_, ?_, ?_⟩, fun x hx => ⟨?_, ?_⟩, fun x hx => ?_⟩
  · exact fun hy => d1 x hx x hy rfl
  · exact fun hy => d2 x (by simp [hx]) x hy rfl
  · exact fun hy => d3 x (by simp [hx]) x hy rfl
  · exact fun hy => d2 x (by simp [hx]) x hy rfl
  · exact fun hy => d3 x (by simp [hx]) x hy rfl
  · exact fun hy => d3 x (by simp [hx]) x hy rfl


/-! ### Cross-suite and cross-interface acceptance -/

/-- **What `verifyBlindSign` decides** (key `sk • BP2`): `B` is computed over the generators
derived from `api_id_blind` followed by the blind generators derived from
`"BLIND_" ++ api_id_blind`, with messages `msgs ++ [blind] ++ committed`, all hashed with
`api_id_blind` DSTs. -/
theorem verifyBlindSign_iff (hl : Lawful env pair) (cs : Suite G1) (sk : S) (σ : Signature S G1)
    (header : Option Bytes) (msgs committed : Option (List Bytes)) (blind : Option S) :
    verifyBlindSign env cs σ (sk • env.bp2) header msgs committed blind = .ok () ↔
      ∃ ms cms Q1 Hs Js d,
        messagesToScalar env cs (msgs.getD []) cs.apiIdBlind = .ok ms ∧
        messagesToScalar env cs (committed.getD []) cs.apiIdBlind = .ok cms ∧
        createGenerators env cs ((msgs.getD []).length + 1) (some cs.apiIdBlind)
          = .ok (Q1 :: Hs) ∧
        createGenerators env cs ((committed.getD []).length + 1)
          (some (Bytes.ofAscii "BLIND_" ++ cs.apiIdBlind)) = .ok Js ∧
        calculateDomain env cs (sk • env.bp2) Q1 (Hs ++ Js) header (some cs.apiIdBlind) = .ok d ∧
        (sk + σ.e) • σ.A = calcB cs.p1 Q1 d (Hs ++ Js) (ms ++ blind.getD 0 :: cms) := by
  unfold verifyBlindSign prepareParameters
  dsimp only [Option.getD_some]
  cases hm : messagesToScalar env cs (msgs.getD []) cs.apiIdBlind with
  | err => simp
  | panic => simp
  | ok ms =>
    dsimp only
    cases hcm : messagesToScalar env cs (committed.getD []) cs.apiIdBlind with
    | err => simp
    | panic => simp
    | ok cms =>
      dsimp only
      cases hg : Generators.create env cs ((msgs.getD []).length + 1) (some cs.apiIdBlind) with
      | err =>
        simp only [false_iff, not_exists, reduceCtorEq]
        rintro _ _ Q1 Hs _ _ ⟨_, _, hc, _⟩
        rw [create_of hc] at hg; cases hg
      | panic =>
        simp only [false_iff, not_exists, reduceCtorEq]
        rintro _ _ Q1 Hs _ _ ⟨_, _, hc, _⟩
        rw [create_of hc] at hg; cases hg
      | ok gens =>
        dsimp only
        cases hbg : Generators.create env cs ((committed.getD []).length + 1)
            (some (Bytes.ofAscii "BLIND_" ++ cs.apiIdBlind)) with
        | err =>
          simp only [false_iff, not_exists, reduceCtorEq]
          rintro _ _ _ _ Js _ ⟨_, _, _, hc, _⟩
          rw [create_of hc] at hbg; cases hbg
        | panic =>
          simp only [false_iff, not_exists, reduceCtorEq]
          rintro _ _ _ _ Js _ ⟨_, _, _, hc, _⟩
          rw [create_of hc] at hbg; cases hbg
        | ok bgens =>
          dsimp only
          obtain ⟨gb, gc, gl⟩ := create_ok hg
          obtain ⟨_, bc, bl⟩ := create_ok hbg
          have l1 := mapRes_length hm
          have l2 := mapRes_length hcm
          rw [coreVerify_ok_iff hl]
          dsimp only
          constructor
          · rintro ⟨Q1, T, d, hv, _, hd, he⟩
            cases hgv : gens.values with
            | nil => rw [hgv] at gl; simp at gl
            | cons Q1' Hs =>
              rw [hgv, List.cons_append] at hv
              obtain ⟨rfl, rfl⟩ := List.cons.inj hv
              refine ⟨ms, cms, Q1', Hs, bgens.values, d, rfl, rfl, by rw [← hgv]; exact gc, bc, hd,
                ?_⟩
              rw [← gb]; simpa using he
          · rintro ⟨ms', cms', Q1, Hs, Js, d, h1, h2, hc, hc', hd, he⟩
            cases h1; cases h2
            rw [gc] at hc
            have hgv : gens.values = Q1 :: Hs := Res.ok.inj hc
            rw [bc] at hc'
            have hbv : bgens.values = Js := Res.ok.inj hc'
            subst hbv
            refine ⟨Q1, Hs ++ bgens.values, d, by rw [hgv]; rfl, ?_, hd, ?_⟩
            · rw [hgv] at gl; simp at gl ⊢; omega
            · rw [gb]; simpa using he

/-- **Event**: a signature point/exponent pair is valid for two `B` values computed in two
different hash domains (different suite, or plain vs blind interface). `B` and `B'` are
`P1 + d•Q1 + Σ mᵢ•Hᵢ` over two generator families derived with different DSTs
(`dst_separation`), from scalars hashed with different DSTs: a relation between independently
derived generator sets. -/
def CrossRelation (B B' : G1) : Prop := B = B'

/-- **Cross-suite.** If one signature is accepted by `verify` under two suites `cs`, `cs'`
(for any two statements), then the two `B` values — one computed entirely with the hash calls of
`cs`, the other entirely with those of `cs'`, which by `dst_separation`/`xof_distinct` share no
(hash function, DST) pair when `cs`, `cs'` are the two suites of the crate — coincide. -/
theorem cross_suite (hl : Lawful env pair) (cs cs' : Suite G1) (sk : S) (σ : Signature S G1)
    (msgs msgs' : Option (List Bytes)) (header header' : Option Bytes)
    (hv : verify env cs σ (sk • env.bp2) msgs header = .ok ())
    (hv' : verify env cs' σ (sk • env.bp2) msgs' header' = .ok ()) :
    ∃ ms Q1 Hs d ms' Q1' Hs' d',
      messagesToScalar env cs (msgs.getD []) cs.apiId = .ok ms ∧
      createGenerators env cs ((msgs.getD []).length + 1) (some cs.apiId) = .ok (Q1 :: Hs) ∧
      calculateDomain env cs (sk • env.bp2) Q1 Hs header (some cs.apiId) = .ok d ∧
      messagesToScalar env cs' (msgs'.getD []) cs'.apiId = .ok ms' ∧
      createGenerators env cs' ((msgs'.getD []).length + 1) (some cs'.apiId) = .ok (Q1' :: Hs') ∧
      calculateDomain env cs' (sk • env.bp2) Q1' Hs' header' (some cs'.apiId) = .ok d' ∧
      CrossRelation (calcB cs.p1 Q1 d Hs ms) (calcB cs'.p1 Q1' d' Hs' ms') := by
  obtain ⟨ms, Q1, Hs, d, hm, hc, hd, he⟩ := (verify_iff' hl cs sk σ msgs header).mp hv
  obtain ⟨ms', Q1', Hs', d', hm', hc', hd', he'⟩ := (verify_iff' hl cs' sk σ msgs' header').mp hv'
  exact ⟨ms, Q1, Hs, d, ms', Q1', Hs', d', hm, hc, hd, hm', hc', hd', by
    unfold CrossRelation; rw [← he, ← he']⟩

/-- **Cross-interface.** If one signature is accepted both by the plain `verify` and by
`verifyBlindSign` (same suite or not, any statements), then the plain `B` (hash calls with
`api_id` DSTs only) equals the blind `B` (hash calls with `api_id_blind` and
`"BLIND_" ++ api_id_blind` DSTs only). -/
theorem cross_interface (hl : Lawful env pair) (cs cs' : Suite G1) (sk : S) (σ : Signature S G1)
    (msgs msgs' committed : Option (List Bytes)) (header header' : Option Bytes)
    (blind : Option S)
    (hv : verify env cs σ (sk • env.bp2) msgs header = .ok ())
    (hv' : verifyBlindSign env cs' σ (sk • env.bp2) header' msgs' committed blind = .ok ()) :
    ∃ ms Q1 Hs d ms' cms Q1' Hs' Js d',
      messagesToScalar env cs (msgs.getD []) cs.apiId = .ok ms ∧
      createGenerators env cs ((msgs.getD []).length + 1) (some cs.apiId) = .ok (Q1 :: Hs) ∧
      calculateDomain env cs (sk • env.bp2) Q1 Hs header (some cs.apiId) = .ok d ∧
      messagesToScalar env cs' (msgs'.getD []) cs'.apiIdBlind = .ok ms' ∧
      messagesToScalar env cs' (committed.getD []) cs'.apiIdBlind = .ok cms ∧
      createGenerators env cs' ((msgs'.getD []).length + 1) (some cs'.apiIdBlind)
        = .ok (Q1' :: Hs') ∧
      createGenerators env cs' ((committed.getD []).length + 1)
        (some (Bytes.ofAscii "BLIND_" ++ cs'.apiIdBlind)) = .ok Js ∧
      calculateDomain env cs' (sk • env.bp2) Q1' (Hs' ++ Js) header' (some cs'.apiIdBlind)
        = .ok d' ∧
      CrossRelation (calcB cs.p1 Q1 d Hs ms)
        (calcB cs'.p1 Q1' d' (Hs' ++ Js) (ms' ++ blind.getD 0 :: cms)) := by
  obtain ⟨ms, Q1, Hs, d, hm, hc, hd, he⟩ := (verify_iff' hl cs sk σ msgs header).mp hv
  obtain ⟨ms', cms, Q1', Hs', Js, d', hm', hcm, hc', hbc, hd', he'⟩ :=
    (verifyBlindSign_iff hl cs' sk σ header' msgs' committed blind).mp hv'
  exact ⟨ms, Q1, Hs, d, ms', cms, Q1', Hs', Js, d', hm, hc, hd, hm', hcm, hc', hbc, hd', by
    unfold CrossRelation; rw [← he, ← he']⟩

/-! ### The hypotheses are those of real executions -/

/-- Everything above applies to every signature returned by `sign`: it is accepted, `A ≠ 0`,
`sk + e ≠ 0`. Instance: every single-bit flip of a freshly made signature is rejected. -/
theorem signed_bitflip_rejected (hl : Lawful env pair) (cs : Suite G1) (sk : S)
    (msgs : Option (List Bytes)) (header : Option Bytes) (σ : Signature S G1)
    (hs : sign env cs msgs sk (skToPk env sk) header = .ok σ)
    (i : Nat) (hi : i < 80) (k : Nat) (hk : k < 8) (y : UInt8)
    (hy : (σ.toBytes env)[i]? = some y) :
    let b' := (σ.toBytes env).set i (y ^^^ ((1 : UInt8) <<< k.toUInt8))
    Signature.fromBytes env b' = .err ∨
    ∃ σ', Signature.fromBytes env b' = .ok σ' ∧
      verify env cs σ' (skToPk env sk) msgs header ≠ .ok () := by
  obtain ⟨hA, hz⟩ := C01.sign_A_ne_zero hl cs sk _ msgs header σ hs
  exact sig_bitflip hl cs sk σ msgs header (C01.sign_verify hl cs sk msgs header σ hs) hA hz
    i hi k hk y hy

end Zk.C02
