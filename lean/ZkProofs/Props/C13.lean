/-
C13  CL03 signatures: issued ones verify, nothing else does.

All theorems are about the L1 model `ZkModel/L1/Cl.lean` (concrete over `Int`, random draws read
from a tape). Arithmetic facts about the L0 primitives enter only through `(hA : ArithOK)`.
`cs : Suite` is arbitrary; the hypotheses on the suite constants that a theorem needs are explicit
and are discharged for the three generated suites at the end of the file.
-/
import ZkProofs.Lemmas.ClAlgebra
import ZkModel.Generated.ClConstants
import ZkModel.ClDriver
namespace Zk.C13
open Zk.Cl Zk.IA

/-- the range test of `verify` / `verify_multiattr` on one attribute. -/
def OutOfRange (cs : Suite) (m : Int) : Prop := m < 0 ∨ m ≥ 2 ^ cs.lm

instance (cs : Suite) (m : Int) : Decidable (OutOfRange cs m) := by unfold OutOfRange; infer_instance

/-- the range test on `e`. -/
def EOutOfRange (cs : Suite) (e : Int) : Prop := e ≤ 2 ^ (cs.le - 1) ∨ e ≥ 2 ^ cs.le

instance (cs : Suite) (e : Int) : Decidable (EOutOfRange cs e) := by unfold EOutOfRange; infer_instance

/-- the range test on `v`: only the reduced, non-zero representative `0 < v < N` is a signature component. -/
def VOutOfRange (pk : PublicKey) (v : Int) : Prop := v ≤ 0 ∨ v ≥ pk.N

instance (pk : PublicKey) (v : Int) : Decidable (VOutOfRange pk v) := by unfold VOutOfRange; infer_instance

/-! ### what the verification functions compute (no hypotheses) -/

/-- `verify_multiattr` returns `b` exactly when there are enough bases, the three modular
exponentiations are defined, and `b` is the conjunction of the range checks and the equation. -/
theorem verifyMultiattr_ok_iff {cs : Suite} {σ : Signature} {pk : PublicKey} {bases msgs : List Int}
    {b : Bool} {t t' : List Draw} :
    verifyMultiattr cs σ pk bases msgs t = .ok (b, t') ↔
      t' = t ∧ msgs.length ≤ bases.length ∧ ∃ lhs P bs, powMod σ.v σ.e pk.N = some lhs ∧
        prodPow pk.N bases 0 msgs 1 t = .ok (P, t) ∧ powMod pk.b σ.s pk.N = some bs ∧
        b = (if msgs.any (fun m => OutOfRange cs m) then false
             else if EOutOfRange cs σ.e then false
             else if VOutOfRange pk σ.v then false else lhs == tmod (P * bs * pk.c) pk.N) := by
  unfold verifyMultiattr
  constructor
  · intro h
    rw [ite_apply_tape] at h
    split at h
    · cases h
    · next hlen =>
      obtain ⟨lhs, t1, h1, hr1⟩ := bind_ok_inv h
      obtain ⟨P, t2, h2, hr2⟩ := bind_ok_inv hr1
      obtain ⟨bs, t3, h3, hr3⟩ := bind_ok_inv hr2
      obtain ⟨hl, rfl⟩ := pw_ok_iff.mp h1
      obtain rfl := (prodPow_tapeFree _ _ _ _ _).tape_eq h2
      obtain ⟨hb, rfl⟩ := pw_ok_iff.mp h3
      dsimp only at hr3
      rw [ite_apply_tape, ite_apply_tape, ite_apply_tape, pure_apply, pure_apply, ite_ok, ite_ok,
        ite_ok] at hr3
      simp only [CRes.ok.injEq, Prod.mk.injEq] at hr3
      exact ⟨hr3.2.symm, by omega, lhs, P, bs, hl, h2, hb, hr3.1.symm⟩
  · rintro ⟨rfl, hlen, lhs, P, bs, hl, hP, hb, rfl⟩
    rw [ite_apply_tape, if_neg (by omega), bind_of_ok (pw_apply hl _), bind_of_ok hP,
      bind_of_ok (pw_apply hb _)]
    rw [ite_apply_tape, ite_apply_tape, ite_apply_tape, pure_apply, pure_apply, ite_ok, ite_ok, ite_ok]
    rfl

/-- the same for the single-attribute `verify` (base `a_0`). -/
theorem verify_ok_iff {cs : Suite} {σ : Signature} {pk : PublicKey} {bases : List Int} {msg : Int}
    {b : Bool} {t t' : List Draw} :
    verify cs σ pk bases msg t = .ok (b, t') ↔
      t' = t ∧ ∃ lhs a0 am bs, powMod σ.v σ.e pk.N = some lhs ∧ bases[0]? = some a0 ∧
        powMod a0 msg pk.N = some am ∧ powMod pk.b σ.s pk.N = some bs ∧
        b = (if OutOfRange cs msg then false
             else if EOutOfRange cs σ.e then false
             else if VOutOfRange pk σ.v then false else lhs == tmod (am * bs * pk.c) pk.N) := by
  unfold verify
  constructor
  · intro h
    obtain ⟨lhs, t1, h1, hr1⟩ := bind_ok_inv h
    obtain ⟨a0, t2, h2, hr2⟩ := bind_ok_inv hr1
    obtain ⟨am, t3, h3, hr3⟩ := bind_ok_inv hr2
    obtain ⟨bs, t4, h4, hr4⟩ := bind_ok_inv hr3
    obtain ⟨hl, rfl⟩ := pw_ok_iff.mp h1
    obtain ⟨ha, rfl⟩ := idx_ok_iff.mp h2
    obtain ⟨hm, rfl⟩ := pw_ok_iff.mp h3
    obtain ⟨hb, rfl⟩ := pw_ok_iff.mp h4
    dsimp only at hr4
    rw [ite_apply_tape, ite_apply_tape, ite_apply_tape, pure_apply, pure_apply, ite_ok, ite_ok,
      ite_ok] at hr4
    simp only [CRes.ok.injEq, Prod.mk.injEq] at hr4
    exact ⟨hr4.2.symm, lhs, a0, am, bs, hl, ha, hm, hb, hr4.1.symm⟩
  · rintro ⟨rfl, lhs, a0, am, bs, hl, ha, hm, hb, rfl⟩
    rw [bind_of_ok (pw_apply hl _), bind_of_ok (idx_ok_iff.mpr ⟨ha, rfl⟩),
      bind_of_ok (pw_apply hm _), bind_of_ok (pw_apply hb _)]
    rw [ite_apply_tape, ite_apply_tape, ite_apply_tape, pure_apply, pure_apply, ite_ok, ite_ok, ite_ok]
    rfl

/-- "the verifier accepts": `verify_multiattr` returns `true` (it never touches the tape). -/
def Accepts (cs : Suite) (σ : Signature) (pk : PublicKey) (bases msgs : List Int) : Prop :=
  verifyMultiattr cs σ pk bases msgs [] = .ok (true, [])

theorem accepts_iff_any_tape {cs : Suite} {σ : Signature} {pk : PublicKey} {bases msgs : List Int}
    (t : List Draw) : Accepts cs σ pk bases msgs ↔ verifyMultiattr cs σ pk bases msgs t = .ok (true, t) :=
  ⟨fun h => (verifyMultiattr_tapeFree ..).indep h t, fun h => (verifyMultiattr_tapeFree ..).indep h []⟩

theorem any_outOfRange_eq_false {cs : Suite} {msgs : List Int} :
    msgs.any (fun m => decide (OutOfRange cs m)) = false ↔ ∀ m ∈ msgs, 0 ≤ m ∧ m < 2 ^ cs.lm := by
  simp only [List.any_eq_false, decide_eq_true_eq, OutOfRange, not_or, not_lt, ge_iff_le, not_le]

/-- What acceptance means, in modular arithmetic (`ArithOK`, `N > 0`): enough bases, every
attribute in `[0, 2^lm)`, `e` in `(2^(le-1), 2^le)`, `v` the reduced non-zero representative
(`0 < v < N`), `b^s` defined, and `v^e mod N = (Π (aᵢ^{mᵢ} mod N) · b^s · c) rem N`. -/
theorem accepts_iff (hA : ArithOK) {cs : Suite} {σ : Signature} {pk : PublicKey} {bases msgs : List Int}
    (hN : 0 < pk.N) :
    Accepts cs σ pk bases msgs ↔
      msgs.length ≤ bases.length ∧ (∀ m ∈ msgs, 0 ≤ m ∧ m < 2 ^ cs.lm) ∧
      2 ^ (cs.le - 1) < σ.e ∧ σ.e < 2 ^ cs.le ∧ 0 < σ.v ∧ σ.v < pk.N ∧
      ∃ bs, powMod pk.b σ.s pk.N = some bs ∧
        σ.v ^ σ.e.toNat % pk.N = tmod ((powList pk.N bases msgs).prod * bs * pk.c) pk.N := by
  unfold Accepts
  rw [verifyMultiattr_ok_iff]
  constructor
  · rintro ⟨-, hlen, lhs, P, bs, hl, hP, hb, hdec⟩
    by_cases hany : msgs.any (fun m => decide (OutOfRange cs m)) = true
    · rw [if_pos hany] at hdec; cases hdec
    · rw [if_neg hany] at hdec
      by_cases he : EOutOfRange cs σ.e
      · rw [if_pos he] at hdec; cases hdec
      · rw [if_neg he] at hdec
        by_cases hvr : VOutOfRange pk σ.v
        · rw [if_pos hvr] at hdec; cases hdec
        rw [if_neg hvr] at hdec
        have hvr' : 0 < σ.v ∧ σ.v < pk.N := by unfold VOutOfRange at hvr; omega
        have hm := any_outOfRange_eq_false.mp (by simpa using hany)
        have he' : 2 ^ (cs.le - 1) < σ.e ∧ σ.e < 2 ^ cs.le := by
          unfold EOutOfRange at he; omega
        have hepos : 0 ≤ σ.e := by
          have : (0 : Int) < 2 ^ (cs.le - 1) := by positivity
          omega
        rw [prodPow_spec hA hN bases 0 msgs 1 (fun m h => (hm m h).1) (by omega)] at hP
        simp only [CRes.ok.injEq, Prod.mk.injEq, and_true, one_mul, List.drop_zero] at hP
        subst hP
        rw [hA.powMod_nonneg _ _ _ hN hepos] at hl
        obtain rfl := Option.some.inj hl
        exact ⟨hlen, hm, he'.1, he'.2, hvr'.1, hvr'.2, bs, hb, by simpa using hdec.symm⟩
  · rintro ⟨hlen, hm, he1, he2, hv1, hv2, bs, hb, heq⟩
    have hepos : 0 ≤ σ.e := by
      have : (0 : Int) < 2 ^ (cs.le - 1) := by positivity
      omega
    refine ⟨rfl, hlen, _, _, bs, hA.powMod_nonneg _ _ _ hN hepos,
      prodPow_spec hA hN bases 0 msgs 1 (fun m h => (hm m h).1) (by omega) [], hb, ?_⟩
    have hany : ¬ msgs.any (fun m => decide (OutOfRange cs m)) = true := by
      rw [Bool.not_eq_true]; exact any_outOfRange_eq_false.mpr hm
    have he : ¬ EOutOfRange cs σ.e := by unfold EOutOfRange; omega
    have hvr : ¬ VOutOfRange pk σ.v := by unfold VOutOfRange; omega
    rw [if_neg hany, if_neg he, if_neg hvr, one_mul, List.drop_zero, heq]
    simp

/-! ### what the signing functions do (no hypotheses) -/

/-- The steps of a successful `sign_multiattr`: the `e` loop, the `ls`-bit draw `s`,
`d = e⁻¹ mod φ`, the product `P`, `b^s`, and `v = (P·b^s·c)^d`. -/
theorem signMultiattr_ok_inv {cs : Suite} {pk : PublicKey} {sk : SecretKey} {bases msgs : List Int}
    {σ : Signature} {t t' : List Draw} (h : signMultiattr cs pk sk bases msgs t = .ok (σ, t')) :
    ∃ t1 d P bs, drawE cs (phi sk) (t.length + 1) t = .ok (σ.e, t1) ∧
      randomBits cs.ls t1 = .ok (σ.s, t') ∧ invMod σ.e (phi sk) = some d ∧
      prodPow pk.N bases 0 msgs 1 t' = .ok (P, t') ∧ powMod pk.b σ.s pk.N = some bs ∧
      powMod (P * bs * pk.c) d pk.N = some σ.v := by
  unfold signMultiattr at h
  obtain ⟨k, t0, h0, hr0⟩ := bind_ok_inv h
  obtain ⟨e, t1, h1, hr1⟩ := bind_ok_inv hr0
  obtain ⟨s, t2, h2, hr2⟩ := bind_ok_inv hr1
  obtain ⟨d, t3, h3, hr3⟩ := bind_ok_inv hr2
  obtain ⟨P, t4, h4, hr4⟩ := bind_ok_inv hr3
  obtain ⟨bs, t5, h5, hr5⟩ := bind_ok_inv hr4
  obtain ⟨v, t6, h6, hr6⟩ := bind_ok_inv hr5
  rw [remaining_apply] at h0
  simp only [CRes.ok.injEq, Prod.mk.injEq] at h0
  obtain ⟨rfl, rfl⟩ := h0
  obtain ⟨hd, rfl⟩ := ofOpt_ok_iff.mp h3
  obtain rfl := (prodPow_tapeFree _ _ _ _ _).tape_eq h4
  obtain ⟨hb, rfl⟩ := pw_ok_iff.mp h5
  obtain ⟨hv, rfl⟩ := pw_ok_iff.mp h6
  obtain ⟨rfl, rfl⟩ := pure_ok_iff.mp hr6
  exact ⟨t1, d, P, bs, h1, h2, hd, h4, hb, hv⟩

/-- the same for the single-attribute `sign`. -/
theorem sign_ok_inv {cs : Suite} {pk : PublicKey} {sk : SecretKey} {bases : List Int} {msg : Int}
    {σ : Signature} {t t' : List Draw} (h : sign cs pk sk bases msg t = .ok (σ, t')) :
    ∃ t1 d a0 am bs, drawE cs (phi sk) (t.length + 1) t = .ok (σ.e, t1) ∧
      randomBits cs.ls t1 = .ok (σ.s, t') ∧ invMod σ.e (phi sk) = some d ∧
      bases[0]? = some a0 ∧ powMod a0 msg pk.N = some am ∧ powMod pk.b σ.s pk.N = some bs ∧
      powMod (am * bs * pk.c) d pk.N = some σ.v := by
  unfold sign at h
  obtain ⟨k, t0, h0, hr0⟩ := bind_ok_inv h
  obtain ⟨e, t1, h1, hr1⟩ := bind_ok_inv hr0
  obtain ⟨s, t2, h2, hr2⟩ := bind_ok_inv hr1
  obtain ⟨d, t3, h3, hr3⟩ := bind_ok_inv hr2
  obtain ⟨a0, t4, h4, hr4⟩ := bind_ok_inv hr3
  obtain ⟨am, t5, h5, hr5⟩ := bind_ok_inv hr4
  obtain ⟨bs, t6, h6, hr6⟩ := bind_ok_inv hr5
  obtain ⟨v, t7, h7, hr7⟩ := bind_ok_inv hr6
  rw [remaining_apply] at h0
  simp only [CRes.ok.injEq, Prod.mk.injEq] at h0
  obtain ⟨rfl, rfl⟩ := h0
  obtain ⟨hd, rfl⟩ := ofOpt_ok_iff.mp h3
  obtain ⟨ha, rfl⟩ := idx_ok_iff.mp h4
  obtain ⟨hm, rfl⟩ := pw_ok_iff.mp h5
  obtain ⟨hb, rfl⟩ := pw_ok_iff.mp h6
  obtain ⟨hv, rfl⟩ := pw_ok_iff.mp h7
  obtain ⟨rfl, rfl⟩ := pure_ok_iff.mp hr7
  exact ⟨t1, d, a0, am, bs, h1, h2, hd, ha, hm, hb, hv⟩

/-! ### units; issued signatures are reduced -/

theorem gcd_eq_one_of_mul_emod {a x N : Int} (hN : 1 < N) (h : a * x % N = 1) : Int.gcd x N = 1 := by
  have h1 : a * x ≡ 1 [ZMOD N] := by
    show a * x % N = 1 % N
    rw [h, Int.emod_eq_of_lt (by omega) hN]
  have h2 : Int.gcd (a * x) N = 1 := gcd_eq_one_of_modEq h1.symm (by simp)
  exact Int.isCoprime_iff_gcd_eq_one.mp (Int.isCoprime_iff_gcd_eq_one.mpr h2).of_mul_left_right

/-- whatever `powMod` returns for a unit base is a unit. -/
theorem powMod_unit (hA : ArithOK) {b e N x : Int} (hN : 1 < N) (hb : Int.gcd b N = 1)
    (h : powMod b e N = some x) : Int.gcd x N = 1 := by
  by_cases he : 0 ≤ e
  · rw [hA.powMod_nonneg b e N (by omega) he] at h
    rw [← Option.some.inj h]
    exact gcd_emod_eq_one (gcd_pow_eq_one hb _)
  · rw [hA.powMod_neg b e N (by omega) (by omega)] at h
    cases hi : invMod b N with
    | none => rw [hi] at h; cases h
    | some bi =>
      rw [hi] at h
      rw [← Option.some.inj h]
      obtain ⟨-, -, hmul⟩ := hA.invMod_some b N bi hN hi
      exact gcd_emod_eq_one (gcd_pow_eq_one (gcd_eq_one_of_mul_emod hN hmul) _)

/-- `powMod` of a unit base modulo `N > 1` returns the reduced, non-zero representative of the power. -/
theorem powMod_unit_reduced (hA : ArithOK) {b e N x : Int} (hN : 1 < N) (hb : Int.gcd b N = 1)
    (h : powMod b e N = some x) : 0 < x ∧ x < N :=
  ⟨pos_of_gcd_eq_one hN (powMod_unit hA hN hb h) (powMod_range hA (by omega) h).1,
    (powMod_range hA (by omega) h).2⟩

/-- the product loop over unit bases returns a unit (exponents of either sign, any number of them). -/
theorem prodPow_unit (hA : ArithOK) {N : Int} (hN : 1 < N) {bases : List Int}
    (hbases : ∀ a ∈ bases, Int.gcd a N = 1) (msgs : List Int) (i : Nat) (acc P : Int) (t t' : List Draw)
    (hacc : Int.gcd acc N = 1) (h : prodPow N bases i msgs acc t = .ok (P, t')) : Int.gcd P N = 1 := by
  induction msgs generalizing i acc t with
  | nil =>
    unfold prodPow at h
    obtain ⟨rfl, -⟩ := pure_ok_iff.mp h
    exact hacc
  | cons m ms ih =>
    unfold prodPow at h
    obtain ⟨a, t1, h1, hr1⟩ := bind_ok_inv h
    obtain ⟨x, t2, h2, hr2⟩ := bind_ok_inv hr1
    obtain ⟨ha, rfl⟩ := idx_ok_iff.mp h1
    obtain ⟨hx, rfl⟩ := pw_ok_iff.mp h2
    exact ih (i + 1) _ _
      (gcd_mul_eq_one hacc (powMod_unit hA hN (hbases a (List.mem_of_getElem? ha)) hx)) hr2

/-- **Issued signatures carry the reduced representative (multi-attribute).** The `v` returned by
`sign_multiattr` under a key with `N = p·q` and unit public values is a `pow_mod` result of a unit:
`0 < v < N`. No hypothesis on the attributes. -/
theorem signMultiattr_v_reduced (hA : ArithOK) {cs : Suite} {pk : PublicKey} {sk : SecretKey}
    (hk : KeyOK pk sk) {bases msgs : List Int}
    (hbases : ∀ a ∈ bases, Int.gcd a pk.N = 1) (hb : Int.gcd pk.b pk.N = 1)
    (hc : Int.gcd pk.c pk.N = 1) {σ : Signature} {tape rest : List Draw}
    (h : signMultiattr cs pk sk bases msgs tape = .ok (σ, rest)) : 0 < σ.v ∧ σ.v < pk.N := by
  obtain ⟨t1, d, P, bs, -, -, -, hP, hbs, hv⟩ := signMultiattr_ok_inv h
  have hN := hk.one_lt_N
  exact powMod_unit_reduced hA hN (gcd_mul_eq_one (gcd_mul_eq_one
    (prodPow_unit hA hN hbases msgs 0 1 P _ _ (by simp) hP) (powMod_unit hA hN hb hbs)) hc) hv

/-- **Issued signatures carry the reduced representative (single attribute).** -/
theorem sign_v_reduced (hA : ArithOK) {cs : Suite} {pk : PublicKey} {sk : SecretKey}
    (hk : KeyOK pk sk) {bases : List Int} {msg : Int}
    (hbases : ∀ a ∈ bases, Int.gcd a pk.N = 1) (hb : Int.gcd pk.b pk.N = 1)
    (hc : Int.gcd pk.c pk.N = 1) {σ : Signature} {tape rest : List Draw}
    (h : sign cs pk sk bases msg tape = .ok (σ, rest)) : 0 < σ.v ∧ σ.v < pk.N := by
  obtain ⟨t1, d, a0, am, bs, -, -, -, ha, ham, hbs, hv⟩ := sign_ok_inv h
  have hN := hk.one_lt_N
  exact powMod_unit_reduced hA hN (gcd_mul_eq_one (gcd_mul_eq_one
    (powMod_unit hA hN (hbases a0 (List.mem_of_getElem? ha)) ham) (powMod_unit hA hN hb hbs)) hc) hv

/-! ### completeness -/

theorem two_pow_pos' (k : Nat) : (0 : Int) < 2 ^ k := by positivity

/-- the algebraic core: `((X^d mod N)^e) mod N = X rem N` for a non-negative unit `X`. -/
theorem root_pow_eq (hA : ArithOK) {pk : PublicKey} {sk : SecretKey} (hk : KeyOK pk sk) {X e d : Int}
    (hX : Int.gcd X pk.N = 1) (hX0 : 0 ≤ X) (he : 0 ≤ e) (hd : invMod e (phi sk) = some d) :
    (X ^ d.toNat % pk.N) ^ e.toNat % pk.N = tmod X pk.N := by
  obtain ⟨-, hpow⟩ := pow_invMod_phi hA hk hX he hd
  rw [tmod_eq_emod hX0]
  exact ((Int.mod_modEq _ _).pow _).trans hpow

/-- **Completeness (multi-attribute).** A signature returned by `sign_multiattr` under a key with
`N = p·q` on in-range attributes is accepted by `verify_multiattr` for the same bases and
attributes (on every tape, which it leaves untouched). -/
theorem cl_sign_verify (hA : ArithOK) {cs : Suite} {pk : PublicKey} {sk : SecretKey}
    (hk : KeyOK pk sk) {bases msgs : List Int}
    (hbases : ∀ a ∈ bases, Int.gcd a pk.N = 1) (hb : Int.gcd pk.b pk.N = 1)
    (hc : Int.gcd pk.c pk.N = 1) (hc0 : 0 ≤ pk.c)
    (hm : ∀ m ∈ msgs, 0 ≤ m ∧ m < 2 ^ cs.lm) (hlen : msgs.length ≤ bases.length)
    {σ : Signature} {tape rest : List Draw}
    (h : signMultiattr cs pk sk bases msgs tape = .ok (σ, rest)) :
    verifyMultiattr cs σ pk bases msgs [] = .ok (true, []) := by
  have hvr := signMultiattr_v_reduced hA hk hbases hb hc h
  obtain ⟨t1, d, P, bs, hE, hS, hd, hP, hbs, hv⟩ := signMultiattr_ok_inv h
  obtain ⟨he1, he2, -, -⟩ := drawE_ok_inv hE
  obtain ⟨_, -, -, -, hs0, -⟩ := randomBits_ok_inv hS
  have hN := hk.N_pos
  have he0 : 0 ≤ σ.e := by have := two_pow_pos' (cs.le - 1); omega
  obtain ⟨hd0, -, -⟩ := hA.invMod_some σ.e (phi sk) d hk.one_lt_phi hd
  rw [prodPow_spec hA hN bases 0 msgs 1 (fun m h => (hm m h).1) (by omega)] at hP
  simp only [CRes.ok.injEq, Prod.mk.injEq, and_true, one_mul, List.drop_zero] at hP
  subst hP
  rw [hA.powMod_nonneg _ _ _ hN hs0] at hbs
  obtain rfl := Option.some.inj hbs
  rw [hA.powMod_nonneg _ _ _ hN hd0] at hv
  refine (accepts_iff hA hN).mpr ⟨hlen, hm, he1, he2, hvr.1, hvr.2, _, hA.powMod_nonneg _ _ _ hN hs0, ?_⟩
  rw [← Option.some.inj hv]
  refine root_pow_eq hA hk ?_ ?_ he0 hd
  · exact gcd_mul_eq_one (gcd_mul_eq_one (powList_gcd hbases msgs)
      (gcd_emod_eq_one (gcd_pow_eq_one hb _))) hc
  · exact Int.mul_nonneg (Int.mul_nonneg (powList_prod_nonneg hN _ _)
      (Int.emod_nonneg _ (Int.ne_of_gt hN))) hc0

/-- **Completeness (single attribute).** `sign` then `verify` (both use base `a_0`). -/
theorem cl_sign_verify_single (hA : ArithOK) {cs : Suite} {pk : PublicKey} {sk : SecretKey}
    (hk : KeyOK pk sk) {bases : List Int} {msg : Int}
    (hbases : ∀ a ∈ bases, Int.gcd a pk.N = 1) (hb : Int.gcd pk.b pk.N = 1)
    (hc : Int.gcd pk.c pk.N = 1) (hc0 : 0 ≤ pk.c) (hm : 0 ≤ msg ∧ msg < 2 ^ cs.lm)
    {σ : Signature} {tape rest : List Draw}
    (h : sign cs pk sk bases msg tape = .ok (σ, rest)) :
    verify cs σ pk bases msg [] = .ok (true, []) := by
  have hvr := sign_v_reduced hA hk hbases hb hc h
  obtain ⟨t1, d, a0, am, bs, hE, hS, hd, ha, ham, hbs, hv⟩ := sign_ok_inv h
  obtain ⟨he1, he2, -, -⟩ := drawE_ok_inv hE
  obtain ⟨_, -, -, -, hs0, -⟩ := randomBits_ok_inv hS
  have hN := hk.N_pos
  have he0 : 0 ≤ σ.e := by have := two_pow_pos' (cs.le - 1); omega
  obtain ⟨hd0, -, -⟩ := hA.invMod_some σ.e (phi sk) d hk.one_lt_phi hd
  have ha0 : Int.gcd a0 pk.N = 1 := hbases a0 (List.mem_of_getElem? ha)
  rw [hA.powMod_nonneg _ _ _ hN hm.1] at ham
  obtain rfl := Option.some.inj ham
  rw [hA.powMod_nonneg _ _ _ hN hs0] at hbs
  obtain rfl := Option.some.inj hbs
  rw [hA.powMod_nonneg _ _ _ hN hd0] at hv
  refine verify_ok_iff.mpr ⟨rfl, _, a0, _, _, hA.powMod_nonneg _ _ _ hN he0, ha,
    hA.powMod_nonneg _ _ _ hN hm.1, hA.powMod_nonneg _ _ _ hN hs0, ?_⟩
  have h1 : ¬ OutOfRange cs msg := by unfold OutOfRange; omega
  have h2 : ¬ EOutOfRange cs σ.e := by unfold EOutOfRange; omega
  have h3 : ¬ VOutOfRange pk σ.v := by unfold VOutOfRange; omega
  rw [if_neg h1, if_neg h2, if_neg h3, ← Option.some.inj hv, root_pow_eq hA hk ?_ ?_ he0 hd]
  · simp
  · exact gcd_mul_eq_one (gcd_mul_eq_one (gcd_emod_eq_one (gcd_pow_eq_one ha0 _))
      (gcd_emod_eq_one (gcd_pow_eq_one hb _))) hc
  · exact Int.mul_nonneg (Int.mul_nonneg (Int.emod_nonneg _ (Int.ne_of_gt hN))
      (Int.emod_nonneg _ (Int.ne_of_gt hN))) hc0

/-! ### the shape of `e` and `s` -/

/-- an integer in `[2^(k-1), 2^k)` with `k ≥ 1` has exactly `k` significant bits. -/
theorem bitLen_eq_of_range {e : Int} {k : Nat} (hk : 1 ≤ k) (h1 : 2 ^ (k - 1) ≤ e) (h2 : e < 2 ^ k) :
    bitLen e = k := by
  have hpos : (0 : Int) < 2 ^ (k - 1) := two_pow_pos' _
  obtain ⟨n, rfl⟩ := Int.eq_ofNat_of_zero_le (show 0 ≤ e by omega)
  have h1' : 2 ^ (k - 1) ≤ n := by exact_mod_cast h1
  have h2' : n < 2 ^ (k - 1 + 1) := by
    rw [Nat.sub_add_cancel hk]; exact_mod_cast h2
  have hn : n ≠ 0 := by
    have : 0 < 2 ^ (k - 1) := Nat.two_pow_pos _
    omega
  unfold bitLen
  have hne : ((n : Int) == 0) = false := by
    rw [beq_eq_false_iff_ne]; exact_mod_cast hn
  rw [hne]
  simp only [Bool.false_eq_true, if_false, Int.natAbs_natCast]
  rw [(Nat.log2_eq_iff hn).mpr ⟨h1', h2'⟩]
  omega

theorem isNextPrime_probablePrime {r p : Int} (h : isNextPrime r p = true) :
    r < p ∧ isProbablePrime p.toNat = true := by
  unfold isNextPrime at h
  simp only [Bool.and_eq_true, decide_eq_true_eq] at h
  exact ⟨h.1.1, h.1.2⟩

/-- the facts about `e` and `s` that the exit condition of the loop and the draw contracts give. -/
structure ESShape (cs : Suite) (sk : SecretKey) (σ : Signature) (tape rest : List Draw) : Prop where
  e_gt : 2 ^ (cs.le - 1) < σ.e
  e_lt : σ.e < 2 ^ cs.le
  e_coprime : IA.gcd σ.e (phi sk) = 1
  /-- exactly the configured bit length -/
  e_bits : bitLen σ.e = cs.le
  /-- `e = next_prime(r)` for an `le`-bit draw `r`; in particular `e` passes the primality test -/
  e_next : ∃ pre r, tape = pre ++ ⟨"bits", r⟩ :: ⟨"prime", σ.e⟩ :: ⟨"bits", σ.s⟩ :: rest ∧
    0 ≤ r ∧ bitLen r = cs.le ∧ isNextPrime r σ.e = true
  e_probablePrime : isProbablePrime σ.e.toNat = true
  s_nonneg : 0 ≤ σ.s
  s_bits : bitLen σ.s = cs.ls

theorem esShape_of {cs : Suite} {sk : SecretKey} {σ : Signature} {t t1 t' : List Draw} {fuel : Nat}
    (hE : drawE cs (phi sk) fuel t = .ok (σ.e, t1)) (hS : randomBits cs.ls t1 = .ok (σ.s, t')) :
    ESShape cs sk σ t t' := by
  obtain ⟨he1, he2, hg, pre, r, rfl, hr0, hrb, hnp⟩ := drawE_ok_inv hE
  obtain ⟨d, rfl, hk, hv, hs0, hsb⟩ := randomBits_ok_inv hS
  have hle : 1 ≤ cs.le := by
    by_contra hc
    have h0 : cs.le = 0 := by omega
    rw [h0] at he1 he2
    simp only [Nat.zero_sub, pow_zero] at he1 he2
    omega
  refine ⟨he1, he2, hg, bitLen_eq_of_range hle (by omega) he2, ⟨pre, r, ?_, hr0, hrb, hnp⟩,
    (isNextPrime_probablePrime hnp).2, hs0, hsb⟩
  obtain ⟨k, v⟩ := d
  simp only at hk hv
  subst hk; subst hv; rfl

/-- **Shape of `e` and `s` (multi-attribute signing).** `2^(le-1) < e < 2^le`, `gcd(e, φ) = 1`,
`e` has exactly `le` bits and is the next (probable) prime after an `le`-bit draw; `s` is an
`ls`-bit draw; the tape read is `pre ++ [bits r, prime e, bits s]`. No hypotheses. -/
theorem e_shape {cs : Suite} {pk : PublicKey} {sk : SecretKey} {bases msgs : List Int}
    {σ : Signature} {tape rest : List Draw}
    (h : signMultiattr cs pk sk bases msgs tape = .ok (σ, rest)) : ESShape cs sk σ tape rest := by
  obtain ⟨t1, d, P, bs, hE, hS, -⟩ := signMultiattr_ok_inv h
  exact esShape_of hE hS

theorem e_shape_single {cs : Suite} {pk : PublicKey} {sk : SecretKey} {bases : List Int} {msg : Int}
    {σ : Signature} {tape rest : List Draw}
    (h : sign cs pk sk bases msg tape = .ok (σ, rest)) : ESShape cs sk σ tape rest := by
  obtain ⟨t1, d, a0, am, bs, hE, hS, -⟩ := sign_ok_inv h
  exact esShape_of hE hS

theorem s_shape {cs : Suite} {pk : PublicKey} {sk : SecretKey} {bases msgs : List Int}
    {σ : Signature} {tape rest : List Draw}
    (h : signMultiattr cs pk sk bases msgs tape = .ok (σ, rest)) : 0 ≤ σ.s ∧ bitLen σ.s = cs.ls :=
  ⟨(e_shape h).s_nonneg, (e_shape h).s_bits⟩

/-- under the hypothesis that the primality test is exact on the value at hand, `e` is prime and
(being coprime to `φ = |Z_N^*|`) invertible modulo the group order. -/
theorem e_prime {cs : Suite} {pk : PublicKey} {sk : SecretKey} {bases msgs : List Int}
    {σ : Signature} {tape rest : List Draw}
    (hO : ∀ n, isProbablePrime n = true → Nat.Prime n)
    (h : signMultiattr cs pk sk bases msgs tape = .ok (σ, rest)) : Nat.Prime σ.e.toNat :=
  hO _ (e_shape h).e_probablePrime

/-- `e` is coprime to the order `φ(N)` of the group of units (Mathlib's totient). -/
theorem e_coprime_group_order {cs : Suite} {pk : PublicKey} {sk : SecretKey} (hk : KeyOK pk sk)
    {bases msgs : List Int} {σ : Signature} {tape rest : List Draw}
    (h : signMultiattr cs pk sk bases msgs tape = .ok (σ, rest)) :
    Nat.Coprime σ.e.toNat (Nat.totient pk.N.toNat) := by
  have hs := e_shape h
  have : (0 : Int) < 2 ^ (cs.le - 1) := two_pow_pos' _
  exact coprime_totient_of_gcd hk (by have := hs.e_gt; omega) hs.e_coprime

/-! ### the range checks reject -/

/-- **Out-of-range attributes are never accepted** (multi-attribute): the outcome is `false` or
a panic, whatever the signature, key and bases. -/
theorem range_rejects {cs : Suite} {σ : Signature} {pk : PublicKey} {bases msgs : List Int}
    (h : ∃ m ∈ msgs, m < 0 ∨ m ≥ 2 ^ cs.lm) (t : List Draw) :
    verifyMultiattr cs σ pk bases msgs t = .ok (false, t) ∨
      verifyMultiattr cs σ pk bases msgs t = .panic := by
  rcases (verifyMultiattr_tapeFree cs σ pk bases msgs).cases t with ⟨b, hb⟩ | hp
  · left
    obtain ⟨-, -, lhs, P, bs, -, -, -, hdec⟩ := verifyMultiattr_ok_iff.mp hb
    have hany : msgs.any (fun m => decide (OutOfRange cs m)) = true := by
      obtain ⟨m, hm, hr⟩ := h
      exact List.any_eq_true.mpr ⟨m, hm, by simpa [OutOfRange] using hr⟩
    rw [if_pos hany] at hdec
    rw [hb, hdec]
  · exact Or.inr hp

theorem range_never_accepted {cs : Suite} {σ : Signature} {pk : PublicKey} {bases msgs : List Int}
    (h : ∃ m ∈ msgs, m < 0 ∨ m ≥ 2 ^ cs.lm) (t t' : List Draw) :
    verifyMultiattr cs σ pk bases msgs t ≠ .ok (true, t') := by
  intro hacc
  obtain rfl := verifyMultiattr_tape hacc
  rcases range_rejects (σ := σ) (pk := pk) (bases := bases) h t' with h1 | h1 <;>
    rw [h1] at hacc <;> cases hacc

/-- the same for the single-attribute `verify`. -/
theorem range_rejects_single {cs : Suite} {σ : Signature} {pk : PublicKey} {bases : List Int} {msg : Int}
    (h : msg < 0 ∨ msg ≥ 2 ^ cs.lm) (t : List Draw) :
    verify cs σ pk bases msg t = .ok (false, t) ∨ verify cs σ pk bases msg t = .panic := by
  rcases (verify_tapeFree cs σ pk bases msg).cases t with ⟨b, hb⟩ | hp
  · left
    obtain ⟨-, lhs, a0, am, bs, -, -, -, -, hdec⟩ := verify_ok_iff.mp hb
    have h' : OutOfRange cs msg := h
    rw [if_pos h'] at hdec
    rw [hb, hdec]
  · exact Or.inr hp

/-- **An `e` outside `(2^(le-1), 2^le)` is never accepted.** -/
theorem e_out_of_range_rejects {cs : Suite} {σ : Signature} {pk : PublicKey} {bases msgs : List Int}
    (h : σ.e ≤ 2 ^ (cs.le - 1) ∨ σ.e ≥ 2 ^ cs.le) (t : List Draw) :
    verifyMultiattr cs σ pk bases msgs t = .ok (false, t) ∨
      verifyMultiattr cs σ pk bases msgs t = .panic := by
  rcases (verifyMultiattr_tapeFree cs σ pk bases msgs).cases t with ⟨b, hb⟩ | hp
  · left
    obtain ⟨-, -, lhs, P, bs, -, -, -, hdec⟩ := verifyMultiattr_ok_iff.mp hb
    have he : EOutOfRange cs σ.e := h
    rw [if_pos he] at hdec
    simp only [ite_self] at hdec
    rw [hb, hdec]
  · exact Or.inr hp

theorem e_out_of_range_rejects_single {cs : Suite} {σ : Signature} {pk : PublicKey} {bases : List Int}
    {msg : Int} (h : σ.e ≤ 2 ^ (cs.le - 1) ∨ σ.e ≥ 2 ^ cs.le) (t : List Draw) :
    verify cs σ pk bases msg t = .ok (false, t) ∨ verify cs σ pk bases msg t = .panic := by
  rcases (verify_tapeFree cs σ pk bases msg).cases t with ⟨b, hb⟩ | hp
  · left
    obtain ⟨-, lhs, a0, am, bs, -, -, -, -, hdec⟩ := verify_ok_iff.mp hb
    have he : EOutOfRange cs σ.e := h
    rw [if_pos he] at hdec
    simp only [ite_self] at hdec
    rw [hb, hdec]
  · exact Or.inr hp

/-! ### canonical representatives: only the reduced `v` is a signature component -/

/-- **A `v` outside `(0, N)` is never accepted** (multi-attribute): `false` or a panic, whatever the rest. -/
theorem v_out_of_range_rejects {cs : Suite} {σ : Signature} {pk : PublicKey} {bases msgs : List Int}
    (h : σ.v ≤ 0 ∨ σ.v ≥ pk.N) (t : List Draw) :
    verifyMultiattr cs σ pk bases msgs t = .ok (false, t) ∨
      verifyMultiattr cs σ pk bases msgs t = .panic := by
  rcases (verifyMultiattr_tapeFree cs σ pk bases msgs).cases t with ⟨b, hb⟩ | hp
  · left
    obtain ⟨-, -, lhs, P, bs, -, -, -, hdec⟩ := verifyMultiattr_ok_iff.mp hb
    have hv : VOutOfRange pk σ.v := h
    rw [if_pos hv] at hdec
    simp only [ite_self] at hdec
    rw [hb, hdec]
  · exact Or.inr hp

theorem v_out_of_range_rejects_single {cs : Suite} {σ : Signature} {pk : PublicKey} {bases : List Int}
    {msg : Int} (h : σ.v ≤ 0 ∨ σ.v ≥ pk.N) (t : List Draw) :
    verify cs σ pk bases msg t = .ok (false, t) ∨ verify cs σ pk bases msg t = .panic := by
  rcases (verify_tapeFree cs σ pk bases msg).cases t with ⟨b, hb⟩ | hp
  · left
    obtain ⟨-, lhs, a0, am, bs, -, -, -, -, hdec⟩ := verify_ok_iff.mp hb
    have hv : VOutOfRange pk σ.v := h
    rw [if_pos hv] at hdec
    simp only [ite_self] at hdec
    rw [hb, hdec]
  · exact Or.inr hp

/-- **An accepted `v` is the reduced, non-zero representative of its residue** (`verify_multiattr`):
`0 < v < N`. No hypotheses (not even `ArithOK`). -/
theorem verifyMultiattr_v_reduced {cs : Suite} {σ : Signature} {pk : PublicKey} {bases msgs : List Int}
    {t t' : List Draw} (h : verifyMultiattr cs σ pk bases msgs t = .ok (true, t')) :
    0 < σ.v ∧ σ.v < pk.N := by
  by_contra hcon
  obtain rfl := verifyMultiattr_tape h
  rcases v_out_of_range_rejects (cs := cs) (σ := σ) (pk := pk) (bases := bases) (msgs := msgs)
    (by omega) t' with h1 | h1 <;> rw [h1] at h <;> cases h

/-- the same for the single-attribute `verify`. -/
theorem verify_v_reduced {cs : Suite} {σ : Signature} {pk : PublicKey} {bases : List Int} {msg : Int}
    {t t' : List Draw} (h : verify cs σ pk bases msg t = .ok (true, t')) :
    0 < σ.v ∧ σ.v < pk.N := by
  by_contra hcon
  obtain rfl := verify_tape h
  rcases v_out_of_range_rejects_single (cs := cs) (σ := σ) (pk := pk) (bases := bases) (msg := msg)
    (by omega) t' with h1 | h1 <;> rw [h1] at h <;> cases h

/-- **At most one representative of the residue of `v` is accepted.** If `(e, s, v)` is accepted then
`(e, s, v + k·N)` is not, for every `k ≠ 0` — on any tape, for the same key, bases and attributes (before
the check `0 < v < N` was added, `v ± N` verified next to `v`). The hypothesis `0 < N` of the informal
statement is not needed: it follows from the acceptance of `v`. -/
theorem verifyMultiattr_rejects_shifted_v {cs : Suite} {σ : Signature} {pk : PublicKey}
    {bases msgs : List Int} {k : Int} (hk : k ≠ 0) {t t' : List Draw}
    (h : verifyMultiattr cs σ pk bases msgs t = .ok (true, t')) (s s' : List Draw) :
    verifyMultiattr cs { σ with v := σ.v + k * pk.N } pk bases msgs s ≠ .ok (true, s') := by
  intro h'
  have h1 := verifyMultiattr_v_reduced h
  have h2 := verifyMultiattr_v_reduced h'
  have := shift_not_reduced (N := pk.N) hk (le_of_lt h1.1) h1.2
  simp only at h2
  omega

/-- the same for the single-attribute `verify`. -/
theorem verify_rejects_shifted_v {cs : Suite} {σ : Signature} {pk : PublicKey}
    {bases : List Int} {msg : Int} {k : Int} (hk : k ≠ 0) {t t' : List Draw}
    (h : verify cs σ pk bases msg t = .ok (true, t')) (s s' : List Draw) :
    verify cs { σ with v := σ.v + k * pk.N } pk bases msg s ≠ .ok (true, s') := by
  intro h'
  have h1 := verify_v_reduced h
  have h2 := verify_v_reduced h'
  have := shift_not_reduced (N := pk.N) hk (le_of_lt h1.1) h1.2
  simp only at h2
  omega

/-- … and the shifted signature is rejected outright (`false` or a panic, never a tape error). -/
theorem shifted_v_rejects {cs : Suite} {σ : Signature} {pk : PublicKey}
    {bases msgs : List Int} {k : Int} (hk : k ≠ 0) {t t' : List Draw}
    (h : verifyMultiattr cs σ pk bases msgs t = .ok (true, t')) (s : List Draw) :
    verifyMultiattr cs { σ with v := σ.v + k * pk.N } pk bases msgs s = .ok (false, s) ∨
      verifyMultiattr cs { σ with v := σ.v + k * pk.N } pk bases msgs s = .panic := by
  have h1 := verifyMultiattr_v_reduced h
  have := shift_not_reduced (N := pk.N) hk (le_of_lt h1.1) h1.2
  exact v_out_of_range_rejects (by simp only; omega) s

/-! ### the shift-by-`e` forgery (DESIGN F7) -/

/-- shifting an in-range attribute by a non-zero multiple of an in-range `e` leaves the range;
needs only `lm < le` (the suites have `le = lm + 2`). -/
theorem shift_out_of_range {cs : Suite} (hle : cs.lm + 1 ≤ cs.le) {m e k : Int}
    (hm : 0 ≤ m ∧ m < 2 ^ cs.lm) (he : 2 ^ (cs.le - 1) < e) (hk : k ≠ 0) :
    m + k * e < 0 ∨ m + k * e ≥ 2 ^ cs.lm := by
  have hpow : (2 : Int) ^ cs.lm ≤ 2 ^ (cs.le - 1) :=
    pow_le_pow_right₀ (by norm_num) (by omega)
  have hpos : (0 : Int) < 2 ^ cs.lm := two_pow_pos' _
  rcases Int.lt_or_lt_of_ne hk with hneg | hpos'
  · left
    have : k * e ≤ -1 * e := Int.mul_le_mul_of_nonneg_right (by omega) (by omega)
    omega
  · right
    have : 1 * e ≤ k * e := Int.mul_le_mul_of_nonneg_right (by omega) (by omega)
    omega

/-- **The shift forgery is rejected.** For in-range attributes, ANY signature `σ'` (in particular
`(e, s, v·a_i^k mod N)` derived from a valid `(e, s, v)` without the secret key) is rejected on the
vector whose `i`-th attribute is shifted by a non-zero multiple `k·σ'.e`. -/
theorem shift_forgery_excluded {cs : Suite} (hle : cs.lm + 1 ≤ cs.le) {σ' : Signature} {pk : PublicKey}
    {bases msgs : List Int} (hm : ∀ m ∈ msgs, 0 ≤ m ∧ m < 2 ^ cs.lm) {i : Nat} (hi : i < msgs.length)
    {k : Int} (hk : k ≠ 0) (t : List Draw) :
    verifyMultiattr cs σ' pk bases (msgs.set i (msgs[i] + k * σ'.e)) t = .ok (false, t) ∨
      verifyMultiattr cs σ' pk bases (msgs.set i (msgs[i] + k * σ'.e)) t = .panic := by
  by_cases he : σ'.e ≤ 2 ^ (cs.le - 1) ∨ σ'.e ≥ 2 ^ cs.le
  · exact e_out_of_range_rejects he t
  · refine range_rejects ⟨msgs[i] + k * σ'.e, ?_, ?_⟩ t
    · exact List.mem_iff_getElem.mpr ⟨i, by simpa using hi, by simp⟩
    · exact shift_out_of_range hle (hm _ (List.getElem_mem hi)) (by omega) hk

theorem shift_forgery_excluded_single {cs : Suite} (hle : cs.lm + 1 ≤ cs.le) {σ' : Signature}
    {pk : PublicKey} {bases : List Int} {msg : Int} (hm : 0 ≤ msg ∧ msg < 2 ^ cs.lm)
    {k : Int} (hk : k ≠ 0) (t : List Draw) :
    verify cs σ' pk bases (msg + k * σ'.e) t = .ok (false, t) ∨
      verify cs σ' pk bases (msg + k * σ'.e) t = .panic := by
  by_cases he : σ'.e ≤ 2 ^ (cs.le - 1) ∨ σ'.e ≥ 2 ^ cs.le
  · exact e_out_of_range_rejects_single he t
  · exact range_rejects_single (shift_out_of_range hle hm (by omega) hk) t

/-- changing one exponent of the product by `+x` multiplies it by `a_i^x`. -/
theorem rawList_set_prod (bases msgs : List Int) (i : Nat) (hi : i < msgs.length)
    (hib : i < bases.length) (x : Int) (hm : 0 ≤ msgs[i]) (hx : 0 ≤ x) :
    (rawList bases (msgs.set i (msgs[i] + x))).prod = (rawList bases msgs).prod * bases[i] ^ x.toNat := by
  induction bases generalizing msgs i with
  | nil => simp at hib
  | cons a bases ih =>
    cases msgs with
    | nil => simp at hi
    | cons m msgs =>
      cases i with
      | zero =>
        simp only [List.getElem_cons_zero, List.set_cons_zero, rawList_cons, List.prod_cons] at hm ⊢
        rw [Int.toNat_add hm hx, pow_add]; ring
      | succ i =>
        simp only [List.getElem_cons_succ, List.set_cons_succ, rawList_cons, List.prod_cons] at hm ⊢
        rw [ih msgs i (by simpa using hi) (by simpa using hib) hm, mul_assoc]

/-- **Why the range check is necessary**: WITHOUT it the derived signature would satisfy the
verification equation. If `v^e ≡ Π aⱼ^{mⱼ} · B (mod N)` then, for `k ≥ 0`,
`(v·a_i^k)^e ≡ Π aⱼ^{m'ⱼ} · B` with `m'_i = m_i + k·e` (this was a real forgery in the unfixed code). -/
theorem shift_equation {N v e B : Int} {bases msgs : List Int} {i : Nat} (hi : i < msgs.length)
    (hib : i < bases.length) {k : Int} (hm : 0 ≤ msgs[i]) (hk : 0 ≤ k) (he : 0 ≤ e)
    (h : v ^ e.toNat ≡ (rawList bases msgs).prod * B [ZMOD N]) :
    (v * bases[i] ^ k.toNat) ^ e.toNat ≡
      (rawList bases (msgs.set i (msgs[i] + k * e))).prod * B [ZMOD N] := by
  rw [rawList_set_prod bases msgs i hi hib (k * e) hm (Int.mul_nonneg hk he), mul_pow, ← pow_mul,
    Int.toNat_mul hk he]
  have := h.mul_right (bases[i] ^ (k.toNat * e.toNat))
  calc v ^ e.toNat * bases[i] ^ (k.toNat * e.toNat)
      ≡ (rawList bases msgs).prod * B * bases[i] ^ (k.toNat * e.toNat) [ZMOD N] := this
    _ = (rawList bases msgs).prod * bases[i] ^ (k.toNat * e.toNat) * B := by ring

/-! ### selective disclosure of bases -/

/-- the disclosed attribute vector: `1` at the hidden positions. -/
def discMsgs (msgs : List Int) (U : List Nat) : List Int :=
  msgs.mapIdx fun j m => if j ∈ U then 1 else m

/-- the disclosed bases: `a_j^{m_j} mod N` at the hidden positions. -/
def discBases (N : Int) (msgs bases : List Int) (U : List Nat) : List Int :=
  bases.mapIdx fun j a => if j ∈ U then a ^ (msgs.getD j 0).toNat % N else a

@[simp] theorem discMsgs_length (msgs : List Int) (U : List Nat) :
    (discMsgs msgs U).length = msgs.length := by unfold discMsgs; simp
@[simp] theorem discBases_length (N : Int) (msgs bases : List Int) (U : List Nat) :
    (discBases N msgs bases U).length = bases.length := by unfold discBases; simp

theorem discMsgs_getElem (msgs : List Int) (U : List Nat) (j : Nat) (h : j < msgs.length) :
    (discMsgs msgs U)[j]'(by simpa using h) = if j ∈ U then 1 else msgs[j] := by
  unfold discMsgs; simp

theorem discBases_getElem (N : Int) (msgs bases : List Int) (U : List Nat) (j : Nat)
    (h : j < bases.length) (hm : j < msgs.length) :
    (discBases N msgs bases U)[j]'(by simpa using h) =
      if j ∈ U then bases[j] ^ msgs[j].toNat % N else bases[j] := by
  unfold discBases; simp [List.getElem?_eq_getElem hm]

theorem discMsgs_nil (msgs : List Int) : discMsgs msgs [] = msgs := by
  apply List.ext_getElem (by simp)
  intro j h1 h2
  rw [discMsgs_getElem _ _ _ h2]; simp

theorem discBases_nil (N : Int) (msgs bases : List Int) : discBases N msgs bases [] = bases := by
  unfold discBases
  apply List.ext_getElem (by simp)
  intro j h1 h2
  simp

/-- loop invariant of `disclose_selectively`. -/
theorem discloseLoop_spec (hA : ArithOK) {N : Int} (hN : 0 < N) (msgs bases : List Int)
    (hlen : msgs.length = bases.length) (U : List Nat) (hU : ∀ i ∈ U, i < msgs.length)
    (hnn : ∀ i ∈ U, ∀ h : i < msgs.length, 0 ≤ msgs[i]) (sm sb : List Int)
    (hsm : sm.length = msgs.length) (hsb : sb.length = msgs.length) (t : List Draw) :
    discloseLoop N msgs bases U sm sb t =
      .ok ((sm.mapIdx (fun j m => if j ∈ U then 1 else m),
            sb.mapIdx (fun j a => if j ∈ U then bases.getD j 0 ^ (msgs.getD j 0).toNat % N else a)), t) := by
  induction U generalizing sm sb with
  | nil =>
    unfold discloseLoop
    rw [pure_apply]
    congr 3
    · apply List.ext_getElem (by simp); intro j h1 h2; simp
    · apply List.ext_getElem (by simp); intro j h1 h2; simp
  | cons i is ih =>
    have hi : i < msgs.length := hU i (List.mem_cons_self ..)
    have hib : i < bases.length := by omega
    unfold discloseLoop
    rw [bind_of_ok (idx_lt hib t), bind_of_ok (idx_lt hi t),
      bind_of_ok (pw_nonneg hA hN (hnn i (List.mem_cons_self ..) hi) t), ite_apply_tape,
      if_neg (by omega),
      ih (fun j hj => hU j (List.mem_cons_of_mem _ hj)) (fun j hj => hnn j (List.mem_cons_of_mem _ hj))
        _ _ (by simpa using hsm) (by simpa using hsb)]
    congr 3
    · apply List.ext_getElem (by simp)
      intro j h1 h2
      simp only [List.getElem_mapIdx, List.getElem_set, List.mem_cons]
      by_cases hji : i = j
      · subst hji; simp
      · have : ¬ j = i := fun h => hji h.symm
        simp [hji, this]
    · apply List.ext_getElem (by simp)
      intro j h1 h2
      simp only [List.getElem_mapIdx, List.getElem_set, List.mem_cons]
      by_cases hji : i = j
      · subst hji
        simp [List.getElem?_eq_getElem hi, List.getElem?_eq_getElem hib]
      · have : ¬ j = i := fun h => hji h.symm
        simp [hji, this]

/-- **What `disclose_selectively` returns**: for hidden positions `U` (all `< n`, non-negative
hidden attributes) the attribute vector with `1` at `U` and the bases with `a_i^{m_i} mod N` at `U`
(see `discMsgs_getElem`, `discBases_getElem`); the tape is untouched. -/
theorem disclose_spec (hA : ArithOK) {pk : PublicKey} (hN : 0 < pk.N) (msgs bases : List Int)
    (hlen : msgs.length = bases.length) (U : List Nat) (hU : ∀ i ∈ U, i < msgs.length)
    (hnn : ∀ i ∈ U, ∀ h : i < msgs.length, 0 ≤ msgs[i]) (t : List Draw) :
    discloseSelectively msgs bases pk U t =
      .ok ((discMsgs msgs U, discBases pk.N msgs bases U), t) := by
  unfold discloseSelectively
  rw [ite_apply_tape, if_neg (by simpa using hlen), ite_apply_tape]
  split
  · next h0 =>
    obtain rfl := List.eq_nil_of_length_eq_zero h0
    rw [discMsgs_nil, discBases_nil]; rfl
  · rw [discloseLoop_spec hA hN msgs bases hlen U hU hnn msgs bases rfl hlen.symm]
    congr 3
    unfold discBases
    apply List.ext_getElem (by simp)
    intro j h1 h2
    have hj : j < bases.length := by simpa using h2
    simp [List.getElem?_eq_getElem hj]

/-- length mismatch: `panic!("Mismatch between messages and bases length!")`. -/
theorem disclose_panic_len {pk : PublicKey} {msgs bases : List Int} (h : msgs.length ≠ bases.length)
    (U : List Nat) (t : List Draw) : discloseSelectively msgs bases pk U t = .panic := by
  unfold discloseSelectively
  rw [ite_apply_tape, if_pos h]; rfl

theorem prodPow_nil (N : Int) (bases : List Int) (i : Nat) (acc : Int) :
    prodPow N bases i [] acc = pure acc := by unfold prodPow; rfl

theorem prodPow_cons (N : Int) (bases : List Int) (i : Nat) (m : Int) (ms : List Int) (acc : Int) :
    prodPow N bases i (m :: ms) acc =
      (idx bases i >>= fun a => pw a m N >>= fun x => prodPow N bases (i + 1) ms (acc * x)) := by
  rw [prodPow]

theorem idx_eq_pure {α} {l : List α} {i : Nat} (h : i < l.length) : idx l i = pure l[i] := by
  unfold idx; rw [List.getElem?_eq_getElem h]; rfl

/-- the product loop cannot tell the disclosed vectors from the original ones. -/
theorem prodPow_disc (hA : ArithOK) {N : Int} (hN : 0 < N) (msgs bases : List Int)
    (hlen : msgs.length = bases.length) (U : List Nat)
    (hnn : ∀ i ∈ U, ∀ h : i < msgs.length, 0 ≤ msgs[i]) (k i : Nat) (hk : msgs.length - i = k)
    (acc : Int) :
    prodPow N (discBases N msgs bases U) i ((discMsgs msgs U).drop i) acc =
      prodPow N bases i (msgs.drop i) acc := by
  induction k generalizing i acc with
  | zero =>
    rw [List.drop_eq_nil_of_le (by simp; omega), List.drop_eq_nil_of_le (by omega),
      prodPow_nil, prodPow_nil]
  | succ k ih =>
    have hi : i < msgs.length := by omega
    have hib : i < bases.length := by omega
    rw [List.drop_eq_getElem_cons (by simpa using hi), List.drop_eq_getElem_cons hi, prodPow_cons,
      prodPow_cons, idx_eq_pure (by simpa using hib), idx_eq_pure hib, pure_bind, pure_bind,
      discMsgs_getElem _ _ _ hi, discBases_getElem _ _ _ _ _ hib hi]
    have hstep : ∀ x : Int, prodPow N (discBases N msgs bases U) (i + 1)
        ((discMsgs msgs U).drop (i + 1)) (acc * x) = prodPow N bases (i + 1) (msgs.drop (i + 1)) (acc * x) :=
      fun x => ih (i + 1) (by omega) _
    simp only [hstep]
    by_cases hiU : i ∈ U
    · rw [if_pos hiU, if_pos hiU]
      have hm0 := hnn i hiU hi
      have h1 : pw (bases[i] ^ msgs[i].toNat % N) 1 N = pw bases[i] msgs[i] N := by
        funext t
        rw [pw_one hA (Int.emod_nonneg _ (Int.ne_of_gt hN)) (Int.emod_lt_of_pos _ hN),
          pw_nonneg hA hN hm0]
      rw [h1]
    · rw [if_neg hiU, if_neg hiU]

theorem any_disc {cs : Suite} (hlm : 1 ≤ cs.lm) (msgs : List Int) (U : List Nat)
    (hhid : ∀ i ∈ U, ∀ h : i < msgs.length, 0 ≤ msgs[i] ∧ msgs[i] < 2 ^ cs.lm) :
    (discMsgs msgs U).any (fun m => decide (m < 0 ∨ m ≥ 2 ^ cs.lm)) =
      msgs.any (fun m => decide (m < 0 ∨ m ≥ 2 ^ cs.lm)) := by
  have h1 : (1 : Int) < 2 ^ cs.lm := by
    calc (1 : Int) < 2 ^ 1 := by norm_num
      _ ≤ 2 ^ cs.lm := pow_le_pow_right₀ (by norm_num) hlm
  rw [Bool.eq_iff_iff, List.any_eq_true, List.any_eq_true]
  constructor
  · rintro ⟨m, hm, hr⟩
    obtain ⟨j, hj, rfl⟩ := List.mem_iff_getElem.mp hm
    have hj' : j < msgs.length := by simpa using hj
    rw [discMsgs_getElem _ _ _ hj'] at hr
    by_cases hjU : j ∈ U
    · rw [if_pos hjU] at hr; simp only [decide_eq_true_eq] at hr; omega
    · rw [if_neg hjU] at hr; exact ⟨_, List.getElem_mem hj', hr⟩
  · rintro ⟨m, hm, hr⟩
    obtain ⟨j, hj, rfl⟩ := List.mem_iff_getElem.mp hm
    refine ⟨(discMsgs msgs U)[j]'(by simpa using hj), List.getElem_mem _, ?_⟩
    rw [discMsgs_getElem _ _ _ hj]
    by_cases hjU : j ∈ U
    · have := hhid j hjU hj; simp only [decide_eq_true_eq] at hr; omega
    · rw [if_neg hjU]; exact hr

/-- **Verification does not change under disclosure**: when the hidden attributes are in range
(and `lm ≥ 1`, so that the placeholder `1` is), `verify_multiattr` on the disclosed vectors is the
same computation as on the original ones, for every signature. -/
theorem disclose_verify (hA : ArithOK) {cs : Suite} (σ : Signature) {pk : PublicKey} (hN : 0 < pk.N)
    (hlm : 1 ≤ cs.lm) (msgs bases : List Int) (hlen : msgs.length = bases.length) (U : List Nat)
    (hhid : ∀ i ∈ U, ∀ h : i < msgs.length, 0 ≤ msgs[i] ∧ msgs[i] < 2 ^ cs.lm) :
    verifyMultiattr cs σ pk (discBases pk.N msgs bases U) (discMsgs msgs U) =
      verifyMultiattr cs σ pk bases msgs := by
  unfold verifyMultiattr
  have hp := prodPow_disc hA hN msgs bases hlen U (fun i hi h => (hhid i hi h).1) _ 0 rfl 1
  rw [List.drop_zero, List.drop_zero] at hp
  rw [hp, any_disc hlm msgs U hhid, discMsgs_length, discBases_length]

/-- **A valid signature still verifies after selective disclosure.** -/
theorem disclose_sign_verify (hA : ArithOK) {cs : Suite} {pk : PublicKey} {sk : SecretKey}
    (hk : KeyOK pk sk) (hlm : 1 ≤ cs.lm) {bases msgs : List Int}
    (hbases : ∀ a ∈ bases, Int.gcd a pk.N = 1) (hb : Int.gcd pk.b pk.N = 1)
    (hc : Int.gcd pk.c pk.N = 1) (hc0 : 0 ≤ pk.c)
    (hm : ∀ m ∈ msgs, 0 ≤ m ∧ m < 2 ^ cs.lm) (hlen : msgs.length = bases.length)
    (U : List Nat) (hU : ∀ i ∈ U, i < msgs.length)
    {σ : Signature} {tape rest : List Draw}
    (h : signMultiattr cs pk sk bases msgs tape = .ok (σ, rest)) :
    ∃ msgs' bases', discloseSelectively msgs bases pk U [] = .ok ((msgs', bases'), []) ∧
      verifyMultiattr cs σ pk bases' msgs' [] = .ok (true, []) := by
  refine ⟨_, _, disclose_spec hA hk.N_pos msgs bases hlen U hU
    (fun i _ hi => (hm _ (List.getElem_mem hi)).1) [], ?_⟩
  rw [disclose_verify hA σ hk.N_pos hlm msgs bases hlen U
    (fun i _ hi => hm _ (List.getElem_mem hi))]
  exact cl_sign_verify hA hk hbases hb hc hc0 hm (by omega) h

/-! ### nothing else verifies: binding and tampering -/

/-- the congruence an accepted signature satisfies. -/
theorem accepts_equation (hA : ArithOK) {cs : Suite} {σ : Signature} {pk : PublicKey}
    {bases msgs : List Int} (hN : 0 < pk.N) (h : Accepts cs σ pk bases msgs) :
    0 < σ.e ∧ ∃ bs, powMod pk.b σ.s pk.N = some bs ∧
      σ.v ^ σ.e.toNat ≡ (powList pk.N bases msgs).prod * bs * pk.c [ZMOD pk.N] := by
  obtain ⟨-, -, he1, -, -, -, bs, hbs, heq⟩ := (accepts_iff hA hN).mp h
  have : (0 : Int) < 2 ^ (cs.le - 1) := two_pow_pos' _
  refine ⟨by omega, bs, hbs, ?_⟩
  exact (Int.mod_modEq _ _).symm.trans (heq ▸ tmod_modEq' _ _)

/-- the right-hand side of the equation is a unit when the public values are. -/
theorem rhs_unit (hA : ArithOK) {pk : PublicKey} {bases msgs : List Int} {s bs : Int} (hN : 1 < pk.N)
    (hbases : ∀ a ∈ bases, Int.gcd a pk.N = 1) (hb : Int.gcd pk.b pk.N = 1)
    (hc : Int.gcd pk.c pk.N = 1) (hbs : powMod pk.b s pk.N = some bs) :
    Int.gcd ((powList pk.N bases msgs).prod * bs * pk.c) pk.N = 1 :=
  gcd_mul_eq_one (gcd_mul_eq_one (powList_gcd hbases msgs) (powMod_unit hA hN hb hbs)) hc

/-- **Binding.** Two attribute vectors accepted under one `(e, s, v)` have congruent products:
`Π aᵢ^{mᵢ} ≡ Π aᵢ^{m'ᵢ} (mod N)` — a multiplicative relation among the bases. -/
theorem cl_binding (hA : ArithOK) {cs : Suite} {σ : Signature} {pk : PublicKey}
    {bases msgs msgs' : List Int} (hN : 1 < pk.N) (hb : Int.gcd pk.b pk.N = 1)
    (hc : Int.gcd pk.c pk.N = 1) (h1 : Accepts cs σ pk bases msgs) (h2 : Accepts cs σ pk bases msgs') :
    (rawList bases msgs).prod ≡ (rawList bases msgs').prod [ZMOD pk.N] := by
  obtain ⟨-, bs, hbs, e1⟩ := accepts_equation hA (by omega) h1
  obtain ⟨-, bs', hbs', e2⟩ := accepts_equation hA (by omega) h2
  rw [hbs] at hbs'
  obtain rfl := Option.some.inj hbs'
  have h3 := modEq_cancel_right hc (e1.symm.trans e2)
  have h4 := modEq_cancel_right (powMod_unit hA hN hb hbs) h3
  exact (powList_prod_modEq _ _ _).symm.trans (h4.trans (powList_prod_modEq _ _ _))

/-- **Other bases.** The same `(e, s, v)` and attributes accepted under two base lists: the two
products are congruent. -/
theorem bases_tamper (hA : ArithOK) {cs : Suite} {σ : Signature} {pk : PublicKey}
    {bases bases' msgs : List Int} (hN : 1 < pk.N) (hb : Int.gcd pk.b pk.N = 1)
    (hc : Int.gcd pk.c pk.N = 1) (h1 : Accepts cs σ pk bases msgs) (h2 : Accepts cs σ pk bases' msgs) :
    (rawList bases msgs).prod ≡ (rawList bases' msgs).prod [ZMOD pk.N] := by
  obtain ⟨-, bs, hbs, e1⟩ := accepts_equation hA (by omega) h1
  obtain ⟨-, bs', hbs', e2⟩ := accepts_equation hA (by omega) h2
  rw [hbs] at hbs'
  obtain rfl := Option.some.inj hbs'
  have h3 := modEq_cancel_right hc (e1.symm.trans e2)
  have h4 := modEq_cancel_right (powMod_unit hA hN hb hbs) h3
  exact (powList_prod_modEq _ _ _).symm.trans (h4.trans (powList_prod_modEq _ _ _))

/-- **Other keys (same modulus).** The same signature, bases and attributes accepted under two
public keys with the same `N`: `b^s·c ≡ b'^s·c' (mod N)`. -/
theorem key_tamper (hA : ArithOK) {cs : Suite} {σ : Signature} {pk pk' : PublicKey}
    {bases msgs : List Int} (hN : 1 < pk.N) (hN' : pk'.N = pk.N)
    (hbases : ∀ a ∈ bases, Int.gcd a pk.N = 1)
    (h1 : Accepts cs σ pk bases msgs) (h2 : Accepts cs σ pk' bases msgs) :
    ∃ bs bs', powMod pk.b σ.s pk.N = some bs ∧ powMod pk'.b σ.s pk.N = some bs' ∧
      bs * pk.c ≡ bs' * pk'.c [ZMOD pk.N] := by
  obtain ⟨-, bs, hbs, e1⟩ := accepts_equation hA (by omega) h1
  obtain ⟨-, bs', hbs', e2⟩ := accepts_equation hA (by omega) h2
  rw [hN'] at hbs' e2
  refine ⟨bs, bs', hbs, hbs', ?_⟩
  have h3 := e1.symm.trans e2
  rw [mul_assoc, mul_assoc] at h3
  exact modEq_cancel_left (powList_gcd hbases msgs) h3

/-- an accepted `v` is a unit (when the public values are). -/
theorem accepted_v_unit (hA : ArithOK) {cs : Suite} {σ : Signature} {pk : PublicKey}
    {bases msgs : List Int} (hN : 1 < pk.N) (hbases : ∀ a ∈ bases, Int.gcd a pk.N = 1)
    (hb : Int.gcd pk.b pk.N = 1) (hc : Int.gcd pk.c pk.N = 1) (h : Accepts cs σ pk bases msgs) :
    Int.gcd σ.v pk.N = 1 := by
  obtain ⟨he, bs, hbs, e1⟩ := accepts_equation hA (by omega) h
  have hu := gcd_eq_one_of_modEq e1.symm (rhs_unit hA hN hbases hb hc hbs)
  exact gcd_eq_one_of_pow (by omega) hu

/-- tampering with `v` only (no hypotheses on the key): the `e`-th powers agree. -/
theorem v_tamper_equation (hA : ArithOK) {cs : Suite} {σ σ' : Signature} {pk : PublicKey}
    {bases msgs : List Int} (hN : 0 < pk.N) (he : σ'.e = σ.e) (hs : σ'.s = σ.s)
    (h1 : Accepts cs σ pk bases msgs) (h2 : Accepts cs σ' pk bases msgs) :
    σ'.v ^ σ.e.toNat ≡ σ.v ^ σ.e.toNat [ZMOD pk.N] := by
  obtain ⟨-, bs, hbs, e1⟩ := accepts_equation hA hN h1
  obtain ⟨-, bs', hbs', e2⟩ := accepts_equation hA hN h2
  rw [hs, hbs] at hbs'
  obtain rfl := Option.some.inj hbs'
  rw [he] at e2
  exact e2.trans e1.symm

/-- **Tampering with `v`.** Under a real key (`N = p·q`) and `gcd(e, φ) = 1` (as for every issued
signature), a second `v'` accepted with the same `(e, s)` and attributes is congruent to `v`:
otherwise `v'·v⁻¹` would be a non-trivial element of order dividing `e` in a group of order `φ`
coprime to `e` (Euler). -/
theorem v_tamper (hA : ArithOK) {cs : Suite} {σ σ' : Signature} {pk : PublicKey} {sk : SecretKey}
    (hk : KeyOK pk sk) {bases msgs : List Int} (hbases : ∀ a ∈ bases, Int.gcd a pk.N = 1)
    (hb : Int.gcd pk.b pk.N = 1) (hc : Int.gcd pk.c pk.N = 1)
    (hg : IA.gcd σ.e (phi sk) = 1) (he : σ'.e = σ.e) (hs : σ'.s = σ.s)
    (h1 : Accepts cs σ pk bases msgs) (h2 : Accepts cs σ' pk bases msgs) :
    σ'.v ≡ σ.v [ZMOD pk.N] := by
  have hN := hk.one_lt_N
  have hpos := (accepts_equation hA hk.N_pos h1).1
  exact pow_left_cancel_phi hk (accepted_v_unit hA hN hbases hb hc h2)
    (accepted_v_unit hA hN hbases hb hc h1) (by omega) hg
    (v_tamper_equation hA hk.N_pos he hs h1 h2)

/-- reduced representatives: the tampered `v'` IS `v` (both are accepted, hence both lie in `(0, N)`; the
former hypotheses `0 ≤ v < N`, `0 ≤ v' < N` are now consequences of acceptance). -/
theorem v_tamper_eq (hA : ArithOK) {cs : Suite} {σ σ' : Signature} {pk : PublicKey} {sk : SecretKey}
    (hk : KeyOK pk sk) {bases msgs : List Int} (hbases : ∀ a ∈ bases, Int.gcd a pk.N = 1)
    (hb : Int.gcd pk.b pk.N = 1) (hc : Int.gcd pk.c pk.N = 1)
    (hg : IA.gcd σ.e (phi sk) = 1) (he : σ'.e = σ.e) (hs : σ'.s = σ.s)
    (h1 : Accepts cs σ pk bases msgs) (h2 : Accepts cs σ' pk bases msgs) : σ' = σ := by
  have hv := verifyMultiattr_v_reduced h1
  have hv' := verifyMultiattr_v_reduced h2
  have := eq_of_modEq_of_range (v_tamper hA hk hbases hb hc hg he hs h1 h2) (le_of_lt hv'.1) hv'.2
    (le_of_lt hv.1) hv.2
  cases σ; cases σ'; simp_all

/-- two different exponents with congruent powers of a unit: a multiple of its order. -/
theorem orderRelation_of_pow_modEq {x N : Int} (hx : Int.gcd x N = 1) {a b : Nat} (hab : a ≠ b)
    (h : x ^ a ≡ x ^ b [ZMOD N]) : OrderRelation N x := by
  wlog hlt : a < b generalizing a b
  · exact this hab.symm h.symm (by omega)
  refine ⟨b - a, by omega, ?_⟩
  have hb : b = a + (b - a) := by omega
  rw [hb, pow_add] at h
  have h' : x ^ a * 1 ≡ x ^ a * x ^ (b - a) [ZMOD N] := by simpa using h
  exact (modEq_cancel_left (gcd_pow_eq_one hx a) h').symm

/-- **Tampering with `e`.** The same `(s, v)` and attributes accepted with two different `e`:
a known multiple `|e - e'|` of the order of `v`. -/
theorem e_tamper (hA : ArithOK) {cs : Suite} {σ σ' : Signature} {pk : PublicKey}
    {bases msgs : List Int} (hN : 1 < pk.N) (hbases : ∀ a ∈ bases, Int.gcd a pk.N = 1)
    (hb : Int.gcd pk.b pk.N = 1) (hc : Int.gcd pk.c pk.N = 1)
    (hv : σ'.v = σ.v) (hs : σ'.s = σ.s) (he : σ'.e ≠ σ.e)
    (h1 : Accepts cs σ pk bases msgs) (h2 : Accepts cs σ' pk bases msgs) :
    OrderRelation pk.N σ.v := by
  obtain ⟨hp1, bs, hbs, e1⟩ := accepts_equation hA (by omega) h1
  obtain ⟨hp2, bs', hbs', e2⟩ := accepts_equation hA (by omega) h2
  rw [hs, hbs] at hbs'
  obtain rfl := Option.some.inj hbs'
  rw [hv] at e2
  refine orderRelation_of_pow_modEq (accepted_v_unit hA hN hbases hb hc h1) ?_ (e1.trans e2.symm)
  intro h; apply he; omega

/-- **Tampering with `s`.** The same `(e, v)` and attributes accepted with two different `s`
(of either sign): `b^{|s - s'|} ≡ 1`, a known multiple of the order of `b`. -/
theorem s_tamper (hA : ArithOK) {cs : Suite} {σ σ' : Signature} {pk : PublicKey}
    {bases msgs : List Int} (hN : 1 < pk.N) (hbases : ∀ a ∈ bases, Int.gcd a pk.N = 1)
    (hb : Int.gcd pk.b pk.N = 1) (hc : Int.gcd pk.c pk.N = 1)
    (hv : σ'.v = σ.v) (he : σ'.e = σ.e) (hs : σ'.s ≠ σ.s)
    (h1 : Accepts cs σ pk bases msgs) (h2 : Accepts cs σ' pk bases msgs) :
    OrderRelation pk.N pk.b := by
  obtain ⟨-, bs, hbs, e1⟩ := accepts_equation hA (by omega) h1
  obtain ⟨-, bs', hbs', e2⟩ := accepts_equation hA (by omega) h2
  rw [hv, he] at e2
  have h3 := modEq_cancel_right hc (e1.symm.trans e2)
  have h4 : bs ≡ bs' [ZMOD pk.N] := modEq_cancel_left (powList_gcd hbases msgs) h3
  -- move to the unit group of `ZMod N`
  obtain ⟨n, hn⟩ := Int.eq_ofNat_of_zero_le (show 0 ≤ pk.N by omega)
  rw [hn] at hbs hbs' h4 hb
  have hn1 : 1 < n := by omega
  have hcop : IsCoprime pk.b (n : Int) := Int.isCoprime_iff_gcd_eq_one.mpr hb
  have z1 := powMod_zpow hA hn1 hcop hbs
  have z2 := powMod_zpow hA hn1 hcop hbs'
  have h5 : (bs : ZMod n) = (bs' : ZMod n) := (ZMod.intCast_eq_intCast_iff _ _ _).mpr h4
  set u := ZMod.unitOfIsCoprime pk.b hcop with hu
  have h6 : u ^ σ.s = u ^ σ'.s := Units.ext (by rw [← z1, ← z2, h5])
  have h7 : u ^ (σ.s - σ'.s) = 1 := by rw [zpow_sub, h6, mul_inv_cancel]
  have h8 : u ^ (σ.s - σ'.s).natAbs = 1 := by
    rcases Int.natAbs_eq (σ.s - σ'.s) with h | h
    · rw [← zpow_natCast, ← h]; exact h7
    · rw [← zpow_natCast, ← inv_inj, ← zpow_neg, ← h, inv_one]; exact h7
  refine ⟨(σ.s - σ'.s).natAbs, by omega, ?_⟩
  have h9 : ((pk.b ^ (σ.s - σ'.s).natAbs : Int) : ZMod n) = ((1 : Int) : ZMod n) := by
    have := congrArg Units.val h8
    rw [Units.val_pow_eq_pow_val] at this
    push_cast
    exact this
  rw [hn]
  exact (ZMod.intCast_eq_intCast_iff _ _ _).mp h9

/-! ### binding as an explicit representation collision -/

/-- pad an exponent vector with zeros up to the number of bases. -/
def padTo (n : Nat) (l : List Int) : List Int := l ++ List.replicate (n - l.length) 0

theorem padTo_length {n : Nat} {l : List Int} (h : l.length ≤ n) : (padTo n l).length = n := by
  unfold padTo; simp; omega

theorem padTo_cons (n : Nat) (m : Int) (l : List Int) : padTo (n + 1) (m :: l) = m :: padTo n l := by
  unfold padTo; simp

theorem padTo_nil_succ (n : Nat) : padTo (n + 1) [] = 0 :: padTo n [] := by
  unfold padTo; simp [List.replicate_succ]

theorem padTo_nonneg {n : Nat} {l : List Int} (h : ∀ m ∈ l, 0 ≤ m) : ∀ m ∈ padTo n l, 0 ≤ m := by
  intro m hm
  unfold padTo at hm
  rcases List.mem_append.mp hm with h1 | h1
  · exact h m h1
  · rw [(List.mem_replicate.mp h1).2]

theorem rawList_pad (bases msgs : List Int) :
    (rawList bases (padTo bases.length msgs)).prod = (rawList bases msgs).prod := by
  induction bases generalizing msgs with
  | nil => unfold rawList; simp
  | cons a bases ih =>
    cases msgs with
    | nil =>
      rw [List.length_cons, padTo_nil_succ, rawList_cons, List.prod_cons, ih []]
      simp
    | cons m msgs =>
      rw [List.length_cons, padTo_cons, rawList_cons, rawList_cons, List.prod_cons, List.prod_cons, ih]

/-- the values `a_i^{d_i} mod N` (inverse powers for negative `d_i`). -/
def repXs (N : Int) (bases ds : List Int) : List Int :=
  List.zipWith (fun a d => (powMod a d N).getD 1) bases ds

theorem powMod_sub_spec (hA : ArithOK) {N a m m' : Int} (hN : 1 < N) (ha : Int.gcd a N = 1)
    (hm : 0 ≤ m) (hm' : 0 ≤ m') :
    a ^ m'.toNat * (powMod a (m - m') N).getD 1 ≡ a ^ m.toNat [ZMOD N] := by
  by_cases hd : 0 ≤ m - m'
  · rw [hA.powMod_nonneg a _ N (by omega) hd, Option.getD_some]
    have : m.toNat = m'.toNat + (m - m').toNat := by omega
    rw [this, pow_add]
    exact (Int.ModEq.refl _).mul (Int.mod_modEq _ _)
  · rw [hA.powMod_neg a _ N (by omega) (by omega)]
    cases hi : invMod a N with
    | none => exact absurd ha (hA.invMod_none a N hN hi)
    | some bi =>
      obtain ⟨-, -, hmul⟩ := hA.invMod_some a N bi hN hi
      have h1 : a * bi ≡ 1 [ZMOD N] := by
        show a * bi % N = 1 % N
        rw [hmul, Int.emod_eq_of_lt (by omega) hN]
      simp only [Option.map_some, Option.getD_some]
      have hk : m'.toNat = m.toNat + (-(m - m')).toNat := by omega
      rw [hk, pow_add]
      calc a ^ m.toNat * a ^ (-(m - m')).toNat * (bi ^ (-(m - m')).toNat % N)
          ≡ a ^ m.toNat * a ^ (-(m - m')).toNat * bi ^ (-(m - m')).toNat [ZMOD N] :=
            (Int.ModEq.refl _).mul (Int.mod_modEq _ _)
        _ = a ^ m.toNat * (a * bi) ^ (-(m - m')).toNat := by rw [mul_pow]; ring
        _ ≡ a ^ m.toNat * 1 ^ (-(m - m')).toNat [ZMOD N] := (Int.ModEq.refl _).mul (h1.pow _)
        _ = a ^ m.toNat := by simp

theorem rep_core (hA : ArithOK) {N : Int} (hN : 1 < N) (bases M M' : List Int)
    (hM : M.length = bases.length) (hM' : M'.length = bases.length)
    (hbases : ∀ a ∈ bases, Int.gcd a N = 1) (h0 : ∀ m ∈ M, 0 ≤ m) (h0' : ∀ m ∈ M', 0 ≤ m) :
    (rawList bases M').prod * (repXs N bases (List.zipWith (· - ·) M M')).prod ≡
      (rawList bases M).prod [ZMOD N] := by
  induction bases generalizing M M' with
  | nil => unfold rawList repXs; simp
  | cons a bases ih =>
    cases M with
    | nil => simp at hM
    | cons m M =>
      cases M' with
      | nil => simp at hM'
      | cons m' M' =>
        have ih' := ih M M' (by simpa using hM) (by simpa using hM')
          (fun x hx => hbases x (List.mem_cons_of_mem _ hx))
          (fun x hx => h0 x (List.mem_cons_of_mem _ hx)) (fun x hx => h0' x (List.mem_cons_of_mem _ hx))
        have hp := powMod_sub_spec hA hN (hbases a (List.mem_cons_self ..))
          (h0 m (List.mem_cons_self ..)) (h0' m' (List.mem_cons_self ..))
        simp only [rawList_cons, List.zipWith_cons_cons, repXs, List.prod_cons] at ih' ⊢
        have := hp.mul ih'
        refine Int.ModEq.trans ?_ this
        rw [show ∀ x y z w : Int, x * y * (z * w) = x * z * (y * w) from fun x y z w => by ring]

theorem repXs_length (N : Int) (bases ds : List Int) (hl : ds.length = bases.length) :
    (repXs N bases ds).length = bases.length := by
  unfold repXs; rw [List.length_zipWith, hl]; simp

theorem repXs_getElem (hA : ArithOK) {N : Int} (hN : 1 < N) (bases ds : List Int)
    (hl : ds.length = bases.length) (hbases : ∀ a ∈ bases, Int.gcd a N = 1) (i : Nat)
    (hi : i < bases.length) :
    powMod bases[i] (ds[i]?.getD 0) N = some ((repXs N bases ds)[i]?.getD 1) := by
  have hid : i < ds.length := by omega
  have hix : i < (repXs N bases ds).length := by rw [repXs_length N bases ds hl]; exact hi
  rw [List.getElem?_eq_getElem hid, List.getElem?_eq_getElem hix, Option.getD_some, Option.getD_some]
  obtain ⟨x, hx⟩ := powMod_isSome_of_unit hA hN (hbases _ (List.getElem_mem hi)) ds[i]
  have : (repXs N bases ds)[i] = (powMod bases[i] ds[i] N).getD 1 := by
    simp only [repXs, List.getElem_zipWith]
  rw [this, hx, Option.getD_some]

/-- **Binding, as an event.** Two DIFFERENT attribute vectors of the same length accepted under one
`(e, s, v)` yield an explicit non-trivial relation `Π aᵢ^{mᵢ - m'ᵢ} ≡ 1 (mod N)` among the bases:
`RepCollision pk.N bases` with witness exponents `mᵢ - m'ᵢ` (zero beyond the vectors). -/
theorem cl_binding_rep (hA : ArithOK) {cs : Suite} {σ : Signature} {pk : PublicKey}
    {bases msgs msgs' : List Int} (hN : 1 < pk.N) (hbases : ∀ a ∈ bases, Int.gcd a pk.N = 1)
    (hb : Int.gcd pk.b pk.N = 1) (hc : Int.gcd pk.c pk.N = 1) (hlen : msgs.length = msgs'.length)
    (hne : msgs ≠ msgs') (h1 : Accepts cs σ pk bases msgs) (h2 : Accepts cs σ pk bases msgs') :
    RepCollision pk.N bases := by
  have hbind := cl_binding hA hN hb hc h1 h2
  obtain ⟨hl1, hr1, -⟩ := (accepts_iff hA (by omega)).mp h1
  obtain ⟨hl2, hr2, -⟩ := (accepts_iff hA (by omega)).mp h2
  have hM := padTo_length hl1
  have hM' := padTo_length hl2
  have h0 : ∀ m ∈ padTo bases.length msgs, 0 ≤ m := padTo_nonneg fun m h => (hr1 m h).1
  have h0' : ∀ m ∈ padTo bases.length msgs', 0 ≤ m := padTo_nonneg fun m h => (hr2 m h).1
  have hcore := rep_core hA hN bases _ _ hM hM' hbases h0 h0'
  rw [rawList_pad, rawList_pad] at hcore
  have hX : (repXs pk.N bases (List.zipWith (· - ·) (padTo bases.length msgs)
      (padTo bases.length msgs'))).prod ≡ 1 [ZMOD pk.N] := by
    refine modEq_cancel_left (rawList_gcd hbases msgs') ?_
    rw [mul_one]
    exact hcore.trans hbind
  have hdl : (List.zipWith (· - ·) (padTo bases.length msgs) (padTo bases.length msgs')).length =
      bases.length := by rw [List.length_zipWith, hM, hM']; simp
  refine ⟨_, hdl, ?_, _, repXs_length _ _ _ hdl, repXs_getElem hA hN bases _ hdl hbases, ?_⟩
  · -- some exponent is non-zero
    have : ∃ i, ∃ h : i < msgs.length, msgs[i] ≠ msgs'[i]'(by omega) := by
      by_contra hcon
      push Not at hcon
      exact hne (List.ext_getElem hlen fun i h1 h2 => hcon i h1)
    obtain ⟨i, hi, hd⟩ := this
    have hi' : i < msgs'.length := by omega
    refine ⟨(List.zipWith (· - ·) (padTo bases.length msgs) (padTo bases.length msgs'))[i]'(by
      rw [hdl]; omega), List.getElem_mem _, ?_⟩
    rw [List.getElem_zipWith]
    unfold padTo
    rw [List.getElem_append_left hi, List.getElem_append_left hi']
    omega
  · rw [foldl_mul_eq_prod, one_mul]
    exact hX

/-! ### the range check is the ONLY thing that stops the shift forgery -/

/-- Every check of `verify_multiattr` other than the attribute range passes for the derived
signature `(e, s, v·a_i^k mod N)` on the vector shifted by `k·e` at position `i` (`k ≥ 0`): enough
bases, `e` in range, `b^s` defined and the equation holds; the derived `v·a_i^k mod N` also passes the check
`0 < v < N` when `v` and `a_i` are units (`shift_passes_v_range` below). (Before the range check was added
this was an accepted forgery, DESIGN F7.) -/
theorem shift_passes_equation (hA : ArithOK) {cs : Suite} {σ : Signature} {pk : PublicKey}
    {bases msgs : List Int} (hN : 0 < pk.N) (hc0 : 0 ≤ pk.c) {i : Nat} (hi : i < msgs.length)
    (hib : i < bases.length) {k : Int} (hk : 0 ≤ k) (h : Accepts cs σ pk bases msgs) :
    (msgs.set i (msgs[i] + k * σ.e)).length ≤ bases.length ∧
    2 ^ (cs.le - 1) < σ.e ∧ σ.e < 2 ^ cs.le ∧
    ∃ bs, powMod pk.b σ.s pk.N = some bs ∧
      (σ.v * bases[i] ^ k.toNat % pk.N) ^ σ.e.toNat % pk.N =
        tmod ((powList pk.N bases (msgs.set i (msgs[i] + k * σ.e))).prod * bs * pk.c) pk.N := by
  obtain ⟨hlen, hr, he1, he2, -⟩ := (accepts_iff hA hN).mp h
  obtain ⟨hepos, bs, hbs, heq⟩ := accepts_equation hA hN h
  refine ⟨by simpa using hlen, he1, he2, bs, hbs, ?_⟩
  have hbs0 := (powMod_range hA hN hbs).1
  rw [tmod_eq_emod (Int.mul_nonneg (Int.mul_nonneg (powList_prod_nonneg hN _ _) hbs0) hc0)]
  have h1 : σ.v ^ σ.e.toNat ≡ (rawList bases msgs).prod * (bs * pk.c) [ZMOD pk.N] := by
    rw [← mul_assoc]
    exact heq.trans (((powList_prod_modEq _ _ _).mul_right _).mul_right _)
  have h2 := shift_equation (N := pk.N) hi hib (hr _ (List.getElem_mem hi)).1 hk (by omega) h1
  show _ ≡ _ [ZMOD pk.N]
  refine ((Int.mod_modEq _ _).pow _).trans (h2.trans ?_)
  rw [← mul_assoc]
  exact (((powList_prod_modEq _ _ _).symm.mul_right _).mul_right _)

/-- the derived `v·a_i^k mod N` of the shift forgery is again a reduced non-zero representative (for unit
public values): the check `0 < v < N` does not stop it either — only the attribute range does. -/
theorem shift_passes_v_range (hA : ArithOK) {cs : Suite} {σ : Signature} {pk : PublicKey}
    {bases msgs : List Int} (hN : 1 < pk.N) (hbases : ∀ a ∈ bases, Int.gcd a pk.N = 1)
    (hb : Int.gcd pk.b pk.N = 1) (hc : Int.gcd pk.c pk.N = 1) {i : Nat} (hib : i < bases.length)
    (k : Int) (h : Accepts cs σ pk bases msgs) :
    0 < σ.v * bases[i] ^ k.toNat % pk.N ∧ σ.v * bases[i] ^ k.toNat % pk.N < pk.N :=
  emod_unit_reduced hN (gcd_mul_eq_one (accepted_v_unit hA hN hbases hb hc h)
    (gcd_pow_eq_one (hbases _ (List.getElem_mem hib)) _))

/-! ### a weakness of `disclose_selectively` (reported)

`disclose_selectively` hands the verifier bases for the hidden positions that only the holder
knows (`a_j^{m_j}`). `verify_multiattr` cannot check them, so it gives NO assurance about the
REVEALED attributes either: the holder of one valid signature can open a revealed position to a
different value by compensating in a hidden base. -/

/-- acceptance depends on the bases and attributes only through the product modulo `N`. -/
theorem accepts_congr (hA : ArithOK) {cs : Suite} {σ : Signature} {pk : PublicKey}
    {bases msgs bases' msgs' : List Int} (hN : 0 < pk.N) (hc0 : 0 ≤ pk.c)
    (hlen : msgs'.length ≤ bases'.length) (hr : ∀ m ∈ msgs', 0 ≤ m ∧ m < 2 ^ cs.lm)
    (hp : (powList pk.N bases' msgs').prod ≡ (powList pk.N bases msgs).prod [ZMOD pk.N])
    (h : Accepts cs σ pk bases msgs) : Accepts cs σ pk bases' msgs' := by
  obtain ⟨-, -, he1, he2, hv1, hv2, bs, hbs, heq⟩ := (accepts_iff hA hN).mp h
  refine (accepts_iff hA hN).mpr ⟨hlen, hr, he1, he2, hv1, hv2, bs, hbs, ?_⟩
  have hbs0 := (powMod_range hA hN hbs).1
  rw [heq, tmod_eq_emod (Int.mul_nonneg (Int.mul_nonneg (powList_prod_nonneg hN _ _) hbs0) hc0),
    tmod_eq_emod (Int.mul_nonneg (Int.mul_nonneg (powList_prod_nonneg hN _ _) hbs0) hc0)]
  exact ((hp.symm.mul_right _).mul_right _)

/-- **Revealed attributes are forgeable after disclosure.** From a signature accepted on
`(m0, m1, ms…)` under the public bases `(a0, a1, as…)`, with position 1 hidden, the holder can show
ANY smaller value `0 ≤ m0' ≤ m0` at the revealed position 0: present the hidden base
`a0^{m0-m0'}·a1^{m1} mod N` (and the placeholder attribute `1`). All other bases are the genuine
public ones; `verify_multiattr` accepts. -/
theorem disclose_revealed_forgeable (hA : ArithOK) {cs : Suite} {σ : Signature} {pk : PublicKey}
    {a0 a1 m0 m1 m0' : Int} {as ms : List Int} (hN : 0 < pk.N) (hc0 : 0 ≤ pk.c) (hlm : 1 ≤ cs.lm)
    (hm0' : 0 ≤ m0' ∧ m0' ≤ m0)
    (h : Accepts cs σ pk (a0 :: a1 :: as) (m0 :: m1 :: ms)) :
    Accepts cs σ pk (a0 :: (a0 ^ (m0 - m0').toNat * a1 ^ m1.toNat % pk.N) :: as) (m0' :: 1 :: ms) := by
  obtain ⟨hlen, hr, -⟩ := (accepts_iff hA hN).mp h
  have h1 : (1 : Int) < 2 ^ cs.lm := by
    calc (1 : Int) < 2 ^ 1 := by norm_num
      _ ≤ 2 ^ cs.lm := pow_le_pow_right₀ (by norm_num) hlm
  have hr0 := hr m0 (by simp)
  refine accepts_congr hA hN hc0 (by simpa using hlen) ?_ ?_ h
  · intro m hm
    simp only [List.mem_cons] at hm
    rcases hm with rfl | rfl | hm
    · omega
    · omega
    · exact hr m (by simp [hm])
  · simp only [powList_cons, List.prod_cons, Int.toNat_one, pow_one]
    rw [← mul_assoc, ← mul_assoc]
    refine Int.ModEq.mul_right _ ?_
    have e1 : m0.toNat = m0'.toNat + (m0 - m0').toNat := by omega
    calc a0 ^ m0'.toNat % pk.N * (a0 ^ (m0 - m0').toNat * a1 ^ m1.toNat % pk.N % pk.N)
        ≡ a0 ^ m0'.toNat * (a0 ^ (m0 - m0').toNat * a1 ^ m1.toNat) [ZMOD pk.N] :=
          (Int.mod_modEq _ _).mul ((Int.mod_modEq _ _).trans (Int.mod_modEq _ _))
      _ = a0 ^ m0.toNat * a1 ^ m1.toNat := by rw [e1, pow_add]; ring
      _ ≡ a0 ^ m0.toNat % pk.N * (a1 ^ m1.toNat % pk.N) [ZMOD pk.N] :=
          ((Int.mod_modEq _ _).mul (Int.mod_modEq _ _)).symm

/-! ### byte encoding (`to_bytes` / `from_bytes`) -/

open Zk.ClDriver in
/-- `Signature::to_bytes`: `e` in `le` bytes, `s` in `ls` bytes (sic: the Rust sizes the buffers
with the BIT lengths), then `v` in minimal big-endian form. Transcribed from the driver
(`cl.sigbytes`), which inlines it. -/
def sigToBytes (cs : Suite) (σ : Signature) : M Bytes := do
  let a ← toDigits cs.le σ.e
  let b ← toDigits cs.ls σ.s
  pure (a ++ b ++ minimalDigits σ.v)

open Zk.ClDriver in
/-- `Signature::from_bytes` (slice indexing panics on short input); driver op `cl.sigfrombytes`. -/
def sigFromBytes (cs : Suite) (b : Bytes) : M Signature :=
  if b.length < cs.le + cs.ls then Cl.panic
  else pure ⟨ofDigits (b.take cs.le), ofDigits ((b.drop cs.le).take cs.ls), ofDigits (b.drop (cs.le + cs.ls))⟩

/- `os2ip ∘ i2osp` (the BBS half has these in `Lemmas/Encoding.lean`, whose namespace clashes with
`Zk.Cl.Suite`; re-proved here). -/
theorem os2ip_append_singleton (b : Bytes) (a : UInt8) :
    os2ip (b ++ [a]) = os2ip b * 256 + a.toNat := by
  simp [os2ip, List.foldl_append]

theorem os2ip_i2ospAux (n x : Nat) : os2ip (i2ospAux n x) = x % 256 ^ n := by
  induction n generalizing x with
  | zero => simp [i2ospAux, os2ip, Nat.mod_one]
  | succ n ih =>
    rw [i2ospAux, os2ip_append_singleton, ih, UInt8.toNat_ofNat']
    have h : (256 : Nat) ^ (n + 1) = 256 * 256 ^ n := by rw [Nat.pow_succ, Nat.mul_comm]
    rw [h, Nat.mod_mul]
    have : x % 256 % 2 ^ 8 = x % 256 := by
      apply Nat.mod_eq_of_lt; exact Nat.mod_lt _ (by decide)
    rw [this]; ring

theorem os2ip_i2osp {n x : Nat} (h : x < 256 ^ n) : os2ip (i2osp n x) = x := by
  rw [i2osp, os2ip_i2ospAux, Nat.mod_eq_of_lt h]

theorem i2osp_length (n x : Nat) : (i2osp n x).length = n := by
  unfold i2osp
  induction n generalizing x with
  | zero => rfl
  | succ n ih => simp [i2ospAux, ih]

theorem toDigits_ok {len : Nat} {x : Int} (h0 : 0 ≤ x) (hx : x < 256 ^ len) (t : List Draw) :
    ClDriver.toDigits len x t = .ok (i2osp len x.toNat, t) := by
  unfold ClDriver.toDigits
  have : ¬ (x < 0 ∨ x.toNat ≥ 256 ^ len) := by
    have : x.toNat < 256 ^ len := by
      have h : (x.toNat : Int) < ((256 ^ len : Nat) : Int) := by
        rw [Int.toNat_of_nonneg h0]; push_cast; exact hx
      exact_mod_cast h
    omega
  rw [if_neg this]; rfl

theorem ofDigits_i2osp {len : Nat} {x : Int} (h0 : 0 ≤ x) (hx : x < 256 ^ len) :
    ClDriver.ofDigits (i2osp len x.toNat) = x := by
  unfold ClDriver.ofDigits
  have : x.toNat < 256 ^ len := by
    have h : (x.toNat : Int) < ((256 ^ len : Nat) : Int) := by
      rw [Int.toNat_of_nonneg h0]; push_cast; exact hx
    exact_mod_cast h
  rw [os2ip_i2osp this]
  exact Int.toNat_of_nonneg h0

theorem ofDigits_minimalDigits {v : Int} (h0 : 0 ≤ v) :
    ClDriver.ofDigits (ClDriver.minimalDigits v) = v := by
  unfold ClDriver.ofDigits ClDriver.minimalDigits
  obtain ⟨n, rfl⟩ := Int.eq_ofNat_of_zero_le h0
  have hlt : n < 256 ^ ((bitLen (n : Int) + 7) / 8) := by
    have h256 : (256 : Nat) ^ ((bitLen (n : Int) + 7) / 8) = 2 ^ (8 * ((bitLen (n : Int) + 7) / 8)) := by
      rw [Nat.pow_mul]
    rw [h256]
    by_cases hn : n = 0
    · subst hn; exact Nat.two_pow_pos _
    · have hb : bitLen (n : Int) = n.log2 + 1 := by
        unfold bitLen
        have hne : ((n : Int) == 0) = false := by rw [beq_eq_false_iff_ne]; exact_mod_cast hn
        rw [hne]; simp
      calc n < 2 ^ (n.log2 + 1) := Nat.lt_log2_self
        _ ≤ 2 ^ (8 * ((bitLen (n : Int) + 7) / 8)) := Nat.pow_le_pow_right (by norm_num) (by omega)
  rw [Int.natAbs_natCast, os2ip_i2osp hlt]; rfl

/-- **Byte round trip.** A signature with `0 ≤ e < 256^le`, `0 ≤ s < 256^ls`, `0 ≤ v` encodes
without panic and decodes to itself. -/
theorem cl_codec_roundtrip {cs : Suite} {σ : Signature} (he : 0 ≤ σ.e ∧ σ.e < 256 ^ cs.le)
    (hs : 0 ≤ σ.s ∧ σ.s < 256 ^ cs.ls) (hv : 0 ≤ σ.v) (t : List Draw) :
    ∃ b, sigToBytes cs σ t = .ok (b, t) ∧ sigFromBytes cs b t = .ok (σ, t) := by
  refine ⟨i2osp cs.le σ.e.toNat ++ i2osp cs.ls σ.s.toNat ++ ClDriver.minimalDigits σ.v, ?_, ?_⟩
  · unfold sigToBytes
    rw [bind_of_ok (toDigits_ok he.1 he.2 t), bind_of_ok (toDigits_ok hs.1 hs.2 t)]; rfl
  · unfold sigFromBytes
    rw [ite_apply_tape, if_neg (by simp [i2osp_length]), pure_apply]
    have t1 : (i2osp cs.le σ.e.toNat ++ i2osp cs.ls σ.s.toNat ++ ClDriver.minimalDigits σ.v).take cs.le =
        i2osp cs.le σ.e.toNat := by
      rw [List.append_assoc, List.take_left' (i2osp_length _ _)]
    have t2 : (i2osp cs.le σ.e.toNat ++ i2osp cs.ls σ.s.toNat ++ ClDriver.minimalDigits σ.v).drop cs.le =
        i2osp cs.ls σ.s.toNat ++ ClDriver.minimalDigits σ.v := by
      rw [List.append_assoc, List.drop_left' (i2osp_length _ _)]
    have t3 : (i2osp cs.le σ.e.toNat ++ i2osp cs.ls σ.s.toNat ++ ClDriver.minimalDigits σ.v).drop
        (cs.le + cs.ls) = ClDriver.minimalDigits σ.v := by
      rw [List.drop_left' (by simp [i2osp_length])]
    rw [t1, t2, t3, List.take_left' (i2osp_length _ _), ofDigits_i2osp he.1 he.2, ofDigits_i2osp hs.1 hs.2,
      ofDigits_minimalDigits hv]

theorem two_pow_le_256_pow (k : Nat) : (2 : Int) ^ k ≤ 256 ^ k :=
  pow_le_pow_left₀ (by norm_num) (by norm_num) k

theorem lt_two_pow_bitLen {x : Int} (h0 : 0 ≤ x) : x < 2 ^ bitLen x := by
  obtain ⟨n, rfl⟩ := Int.eq_ofNat_of_zero_le h0
  by_cases hn : n = 0
  · subst hn; exact two_pow_pos' _
  · have hb : bitLen (n : Int) = n.log2 + 1 := by
      unfold bitLen
      have hne : ((n : Int) == 0) = false := by rw [beq_eq_false_iff_ne]; exact_mod_cast hn
      rw [hne]; simp
    rw [hb]
    exact_mod_cast (Nat.lt_log2_self : n < 2 ^ (n.log2 + 1))

/-- **An issued signature survives its byte encoding.** -/
theorem issued_codec_roundtrip (hA : ArithOK) {cs : Suite} {pk : PublicKey} {sk : SecretKey}
    {bases msgs : List Int} (hN : 0 < pk.N) {σ : Signature} {tape rest : List Draw}
    (h : signMultiattr cs pk sk bases msgs tape = .ok (σ, rest)) (t : List Draw) :
    ∃ b, sigToBytes cs σ t = .ok (b, t) ∧ sigFromBytes cs b t = .ok (σ, t) := by
  have hs := e_shape h
  obtain ⟨t1, d, P, bs, -, -, -, -, -, hv⟩ := signMultiattr_ok_inv h
  have hp : (0 : Int) < 2 ^ (cs.le - 1) := two_pow_pos' _
  refine cl_codec_roundtrip ⟨by have := hs.e_gt; omega, lt_of_lt_of_le hs.e_lt (two_pow_le_256_pow _)⟩
    ⟨hs.s_nonneg, ?_⟩ (powMod_range hA hN hv).1 t
  have := lt_two_pow_bitLen hs.s_nonneg
  rw [hs.s_bits] at this
  exact lt_of_lt_of_le this (two_pow_le_256_pow _)

/-! ### the generated suites -/

/-- the model's `Suite` for a generated constant record (as `ClDriver.suiteOf` builds it). -/
def suiteOfConsts (c : Zk.Generated.ClSuiteConsts) : Suite :=
  { secparam := c.secparam, ln := c.ln, lm := c.lm, lin := c.lin, le := c.le, ls := c.ls,
    t := c.t, l := c.l, s := c.s, s1 := c.s1, s2 := c.s2 }

def cl1024 : Suite := suiteOfConsts Zk.Generated.cl1024
def cl2048 : Suite := suiteOfConsts Zk.Generated.cl2048
def cl3072 : Suite := suiteOfConsts Zk.Generated.cl3072

theorem suiteOf_eq : ClDriver.suiteOf "cl1024" = some cl1024 ∧ ClDriver.suiteOf "cl2048" = some cl2048 ∧
    ClDriver.suiteOf "cl3072" = some cl3072 := ⟨by rfl, by rfl, by rfl⟩

theorem cl1024_le : cl1024.le = cl1024.lm + 2 := by decide
theorem cl2048_le : cl2048.le = cl2048.lm + 2 := by decide
theorem cl3072_le : cl3072.le = cl3072.lm + 2 := by decide
theorem cl1024_lm : 1 ≤ cl1024.lm := by decide
theorem cl2048_lm : 1 ≤ cl2048.lm := by decide
theorem cl3072_lm : 1 ≤ cl3072.lm := by decide

/-- `le = lm + 2` gives the hypothesis of `shift_forgery_excluded`. -/
theorem shift_forgery_excluded' {cs : Suite} (hle : cs.le = cs.lm + 2) {σ' : Signature} {pk : PublicKey}
    {bases msgs : List Int} (hm : ∀ m ∈ msgs, 0 ≤ m ∧ m < 2 ^ cs.lm) {i : Nat} (hi : i < msgs.length)
    {k : Int} (hk : k ≠ 0) (t : List Draw) :
    verifyMultiattr cs σ' pk bases (msgs.set i (msgs[i] + k * σ'.e)) t = .ok (false, t) ∨
      verifyMultiattr cs σ' pk bases (msgs.set i (msgs[i] + k * σ'.e)) t = .panic :=
  shift_forgery_excluded (by omega) hm hi hk t

theorem shift_forgery_excluded_cl1024 {σ' : Signature} {pk : PublicKey} {bases msgs : List Int}
    (hm : ∀ m ∈ msgs, 0 ≤ m ∧ m < 2 ^ cl1024.lm) {i : Nat} (hi : i < msgs.length) {k : Int}
    (hk : k ≠ 0) (t : List Draw) :
    verifyMultiattr cl1024 σ' pk bases (msgs.set i (msgs[i] + k * σ'.e)) t = .ok (false, t) ∨
      verifyMultiattr cl1024 σ' pk bases (msgs.set i (msgs[i] + k * σ'.e)) t = .panic :=
  shift_forgery_excluded' cl1024_le hm hi hk t

theorem shift_forgery_excluded_cl2048 {σ' : Signature} {pk : PublicKey} {bases msgs : List Int}
    (hm : ∀ m ∈ msgs, 0 ≤ m ∧ m < 2 ^ cl2048.lm) {i : Nat} (hi : i < msgs.length) {k : Int}
    (hk : k ≠ 0) (t : List Draw) :
    verifyMultiattr cl2048 σ' pk bases (msgs.set i (msgs[i] + k * σ'.e)) t = .ok (false, t) ∨
      verifyMultiattr cl2048 σ' pk bases (msgs.set i (msgs[i] + k * σ'.e)) t = .panic :=
  shift_forgery_excluded' cl2048_le hm hi hk t

theorem shift_forgery_excluded_cl3072 {σ' : Signature} {pk : PublicKey} {bases msgs : List Int}
    (hm : ∀ m ∈ msgs, 0 ≤ m ∧ m < 2 ^ cl3072.lm) {i : Nat} (hi : i < msgs.length) {k : Int}
    (hk : k ≠ 0) (t : List Draw) :
    verifyMultiattr cl3072 σ' pk bases (msgs.set i (msgs[i] + k * σ'.e)) t = .ok (false, t) ∨
      verifyMultiattr cl3072 σ' pk bases (msgs.set i (msgs[i] + k * σ'.e)) t = .panic :=
  shift_forgery_excluded' cl3072_le hm hi hk t

/-! ### the hypotheses are satisfiable -/

/-- a toy key: `N = 7·11`, `b = 4`, `c = 9` (squares, units). -/
example : KeyOK ⟨77, 4, 9⟩ ⟨7, 11⟩ :=
  ⟨by show Nat.Prime 7; decide, by show Nat.Prime 11; decide, by decide, by decide⟩

example : Int.gcd 4 77 = 1 ∧ Int.gcd 9 77 = 1 ∧ (0 : Int) ≤ 9 ∧ Int.gcd 16 77 = 1 := by decide

/-- a toy suite (`le = lm + 2`) small enough to run the model inside the kernel. -/
def toy : Suite :=
  { secparam := 3, ln := 7, lm := 2, lin := 2, le := 4, ls := 3, t := 1, l := 1, s := 1, s1 := 1, s2 := 1 }

/-- a complete run: the tape `bits 10, prime 11, bits 5` makes `sign_multiattr` return
`(e, s, v) = (11, 5, 58)` on the attribute `3` under the toy key, with all the hypotheses of
`cl_sign_verify` true (so the theorems are not vacuous) … -/
example : signMultiattr toy ⟨77, 4, 9⟩ ⟨7, 11⟩ [16] [3]
    [⟨"bits", 10⟩, ⟨"prime", 11⟩, ⟨"bits", 5⟩] = .ok (⟨11, 5, 58⟩, []) := by
  have hE : drawE toy ((7 - 1) * (11 - 1)) (3 + 1) [⟨"bits", 10⟩, ⟨"prime", 11⟩, ⟨"bits", 5⟩] =
      .ok (11, [⟨"bits", 5⟩]) := by
    unfold drawE
    refine (bind_of_ok (randomPrime_cons 4 10 11 _ (by decide) (by decide) (by decide))).trans ?_
    rw [ite_apply_tape, if_pos (by decide +kernel)]
    rfl
  unfold signMultiattr
  refine (bind_of_ok (remaining_apply _)).trans ?_
  refine (bind_of_ok hE).trans ?_
  refine (bind_of_ok (randomBits_cons 3 5 [] (by decide) (by decide))).trans ?_
  refine (bind_of_ok (ofOpt_ok_iff.mpr
    ⟨(by decide +kernel : invMod 11 ((7 - 1) * (11 - 1)) = some 11), rfl⟩)).trans ?_
  have hP : prodPow 77 [16] 0 [3] 1 [] = .ok (1 * 15, []) := by
    unfold prodPow
    refine (bind_of_ok (idx_lt (by decide) _)).trans ?_
    refine (bind_of_ok (pw_apply (by decide +kernel : powMod 16 3 77 = some 15) _)).trans ?_
    rfl
  refine (bind_of_ok hP).trans ?_
  refine (bind_of_ok (pw_apply (by decide +kernel : powMod 4 5 77 = some 23) _)).trans ?_
  refine (bind_of_ok (pw_apply (by decide +kernel : powMod (1 * 15 * 23 * 9) 11 77 = some 58) _)).trans ?_
  rfl

/-- … and `verify_multiattr` accepts it, computed directly (no `ArithOK`). -/
example : verifyMultiattr toy ⟨11, 5, 58⟩ ⟨77, 4, 9⟩ [16] [3] [] = .ok (true, []) := by
  refine verifyMultiattr_ok_iff.mpr ⟨rfl, by decide, 25, 1 * 15, 23, by decide +kernel, ?_,
    by decide +kernel, by decide +kernel⟩
  unfold prodPow
  refine (bind_of_ok (idx_lt (by decide) _)).trans ?_
  refine (bind_of_ok (pw_apply (by decide +kernel : powMod 16 3 77 = some 15) _)).trans ?_
  rfl

end Zk.C13
