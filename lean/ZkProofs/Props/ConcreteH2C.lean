/-
`hash_to_curve` of the executable instance lands on E1: `Bridge.MapOnCurve` PROVED.

* `isoMap_onCurve` — `H2C.isoMap` maps every point of `E1' : y² = x³ + A'x + B'` to a point of
  `E1 : y² = x³ + 4` in normal form (or to `O` when a denominator vanishes). The rational-function identity
  `yNum²·g'·xDen³ = yDen²·(xNum³ + 4·xDen³)` (64 coefficients of 381 bits) is checked by reflection
  (`MapToCurve.iso_identity`, kernel arithmetic on coefficient lists).
* `sswu_onIso` — `H2C.sswu u` is a reduced point of `E1'` for EVERY `u` (`Z = 11` is a non-square,
  `g'(B'/(Z·A'))` is a square so the exceptional case never takes the `x2` branch, the product of two
  non-squares is a square, `a^((p+1)/4)` is a root of every square `a`, sign adjustment).
  `sswu_branch_some / sswu_branch_none` state the two branches on the values the model computes.
* `mapToCurve_onCurve`, `mapToCurve_reduced`, `mapOnCurve : Bridge.MapOnCurve`,
  `hashInSub_of_cofactor : Bridge.CofactorClears → Bridge.HashInSub`,
  `hashToG1_onCurve`, `encodeToG1_onCurve`, `env_hashToG1_onCurve` — unconditional.
Still assumed elsewhere: `Bridge.CofactorClears` (needs `#E1(Fp)`).
-/
import ZkProofs.Lemmas.MapToCurve
import ZkProofs.Lemmas.Bridge
namespace Zk.ConcreteH2C
open Zk Zk.MapToCurve

/-- `(x, y)` is a point of `E1' : y² = x³ + A'x + B'` (in `ZMod P`). -/
abbrev OnIso (x y : Nat) : Prop := MapToCurve.OnIso x y

/-- **The 11-isogeny lands on E1**: for every pair on `E1'` (reduced or not). -/
theorem isoMap_onCurve (p : Nat × Nat) (h : OnIso p.1 p.2) : G1.onCurve (H2C.isoMap p) = true :=
  MapToCurve.isoMap_onCurve' p h

/-- SSWU, branch "`g'(x1)` is a square": `(x1, ±√g'(x1))` is a reduced point of `E1'`. -/
theorem sswu_branch_some {x1 y1 : Nat} (s : Bool) (hx : x1 < P)
    (h : Fp.sqrt? (H2C.isoRhs x1) = some y1) :
    x1 < P ∧ (if s then Fp.neg y1 else y1) < P ∧ OnIso x1 (if s then Fp.neg y1 else y1) :=
  MapToCurve.sswu_some s hx h

/-- SSWU, branch "`g'(x1)` is not a square": then `g'(x2)` is, `x2 = Z·v²·x1`, and
`(x2, ±g'(x2)^((p+1)/4))` is a reduced point of `E1'` — including the exceptional case `tv1 = 0`, where
this branch is unreachable because `g'(B'/(Z·A'))` is a square. -/
theorem sswu_branch_none (v : Nat) (s : Bool) :
    let zu2 := Fp.mul H2C.sswuZ (Fp.sq v)
    let tv1 := Fp.inv (Fp.add (Fp.sq zu2) zu2)
    let x1 := if tv1 == 0 then Fp.mul H2C.isoB (Fp.inv (Fp.mul H2C.sswuZ H2C.isoA))
      else Fp.mul (Fp.mul (Fp.neg H2C.isoB) (Fp.inv H2C.isoA)) (Fp.add 1 tv1)
    let x2 := Fp.mul zu2 x1
    let y2 := Fp.pow (H2C.isoRhs x2) ((P + 1) / 4)
    Fp.sqrt? (H2C.isoRhs x1) = none →
      x2 < P ∧ (if s then Fp.neg y2 else y2) < P ∧ OnIso x2 (if s then Fp.neg y2 else y2) :=
  MapToCurve.sswu_none v s

/-- **Simplified SWU lands on E1'**, reduced, for every `u` (no `u < P` needed). -/
theorem sswu_onIso (u : Nat) : ∃ x y, H2C.sswu u = (x, y) ∧ x < P ∧ y < P ∧ OnIso x y :=
  MapToCurve.sswu_onIso u

/-- **`map_to_curve` lands on E1** (normal form: reduced coordinates, or `O`), for every `u`. -/
theorem mapToCurve_onCurve (u : Nat) : G1.onCurve (H2C.mapToCurve u) = true :=
  MapToCurve.mapToCurve_onCurve u

/-- Normal form of the image: `O = ⟨0, 0, true⟩`, or reduced affine coordinates. -/
theorem mapToCurve_reduced (u : Nat) :
    H2C.mapToCurve u = G1Pt.zero ∨
      ((H2C.mapToCurve u).inf = false ∧ (H2C.mapToCurve u).x < P ∧ (H2C.mapToCurve u).y < P) := by
  have hc := mapToCurve_onCurve u
  cases hi : (H2C.mapToCurve u).inf with
  | true => exact Or.inl (ConcreteG1.onCurve_inf hc hi)
  | false =>
    have h := ConcreteG1.onCurve_lt hc hi
    exact Or.inr ⟨rfl, h.1, h.2.1⟩

/-- **`Bridge.MapOnCurve`, proved.** -/
theorem mapOnCurve : Bridge.MapOnCurve := fun u _ => mapToCurve_onCurve u

/-- `HashInSub` now rests on the cofactor fact alone. -/
theorem hashInSub_of_cofactor (h : Bridge.CofactorClears) : Bridge.HashInSub :=
  Bridge.hashInSub_of mapOnCurve h

/-- The output of `hash_to_curve` is on the curve, for any `expand_message`. -/
theorem hashToG1_onCurve (expand : Bytes → Bytes → Nat → Option Bytes)
    (msg dst : Bytes) (p : G1Pt) (hp : hashToG1 expand msg dst = some p) : G1.onCurve p = true := by
  unfold hashToG1 at hp
  cases hf : H2C.hashToField2 expand msg dst with
  | none => rw [hf] at hp; cases hp
  | some u =>
    obtain ⟨u0, u1⟩ := u
    rw [hf] at hp
    simp only [Option.some.injEq] at hp
    subst hp
    exact ConcreteG1.onCurve_mul
      (ConcreteG1.onCurve_add (mapToCurve_onCurve u0) (mapToCurve_onCurve u1)) _

/-- The output of `encode_to_curve` is on the curve. -/
theorem encodeToG1_onCurve (expand : Bytes → Bytes → Nat → Option Bytes)
    (msg dst : Bytes) (p : G1Pt) (hp : encodeToG1 expand msg dst = some p) : G1.onCurve p = true := by
  unfold encodeToG1 at hp
  cases he : expand msg dst 64 with
  | none => rw [he] at hp; cases hp
  | some ub =>
    rw [he] at hp
    simp only [] at hp
    split at hp
    · cases hp
    · simp only [Option.some.injEq] at hp
      subst hp
      exact ConcreteG1.onCurve_mul (mapToCurve_onCurve _) _

/-- The executable environment's `hashToG1` (both suites) produces on-curve points. -/
theorem env_hashToG1_onCurve (xof : Bool) (msg dst : Bytes) (p : G1Pt)
    (hp : Concrete.env.hashToG1 xof msg dst = some p) : G1.onCurve p = true :=
  hashToG1_onCurve (Concrete.expand xof) msg dst p hp

end Zk.ConcreteH2C

section
open Zk.ConcreteH2C
#print axioms isoMap_onCurve
#print axioms sswu_onIso
#print axioms mapToCurve_reduced
#print axioms mapOnCurve
#print axioms hashInSub_of_cofactor
#print axioms hashToG1_onCurve
#print axioms encodeToG1_onCurve
#print axioms env_hashToG1_onCurve
end
