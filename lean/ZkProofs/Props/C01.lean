/-
C01  BBS signature completeness: whatever is signed verifies.

All theorems are about the L1 model (`ZkModel/L1/Bbs.lean`) instantiated with an arbitrary
field `S`, arbitrary `S`-modules and an arbitrary lawful environment; hash functions are
arbitrary. They hold for every key, header, message list (any length `L ≥ 0`, any message
sizes) and both ciphersuites (`cs` is arbitrary).
-/
import ZkProofs.Lemmas.Sig
set_option linter.unusedSectionVars false
namespace Zk.C01
open Zk Res

variable {S G1 G2 GT : Type} [Field S] [DecidableEq S]
variable [AddCommGroup G1] [Module S G1] [DecidableEq G1]
variable [AddCommGroup G2] [Module S G2] [DecidableEq G2]
variable [AddCommGroup GT] [Module S GT]
variable {env : Env S G1 G2} {pair : G1 →ₗ[S] G2 →ₗ[S] GT}

/-- **Completeness.** If `sign` returns a signature under the key pair `(sk, sk • BP2)`, then
`verify` accepts it for the same header and messages. -/
theorem sign_verify (hl : Lawful env pair) (cs : Suite G1) (sk : S)
    (messages : Option (List Bytes)) (header : Option Bytes) (σ : Signature S G1)
    (h : sign env cs messages sk (skToPk env sk) header = .ok σ) :
    verify env cs σ (skToPk env sk) messages header = .ok () := by
  unfold sign at h
  unfold verify
  simp only [skToPk] at *
  cases hm : messagesToScalar env cs (messages.getD []) cs.apiId with
  | err => rw [hm] at h; cases h
  | panic => rw [hm] at h; cases h
  | ok ms =>
    rw [hm] at h; simp only at h ⊢
    cases hg : Generators.create env cs ((messages.getD []).length + 1) (some cs.apiId) with
    | err => rw [hg] at h; cases h
    | panic => rw [hg] at h; cases h
    | ok gens =>
      rw [hg] at h; simp only at h ⊢
      obtain ⟨Q1, Hs, domain, hv, hlen, hd, _, _, hA⟩ := coreSign_ok hl cs sk _ gens header ms _ σ h
      exact (coreVerify_ok_iff hl cs sk σ ms gens header (some cs.apiId)).mpr
        ⟨Q1, Hs, domain, hv, hlen, by simpa using hd, hA⟩

/-- A signature returned by `sign` has `A ≠ 0` (the code checks it) and was computed with an
invertible `sk + e`. -/
theorem sign_A_ne_zero (hl : Lawful env pair) (cs : Suite G1) (sk : S) (pk : G2)
    (messages : Option (List Bytes)) (header : Option Bytes) (σ : Signature S G1)
    (h : sign env cs messages sk pk header = .ok σ) : σ.A ≠ 0 ∧ sk + σ.e ≠ 0 := by
  unfold sign at h
  dsimp only at h
  cases hm : messagesToScalar env cs (messages.getD []) cs.apiId with
  | err => rw [hm] at h; cases h
  | panic => rw [hm] at h; cases h
  | ok ms =>
    rw [hm] at h; simp only at h
    cases hg : Generators.create env cs ((messages.getD []).length + 1) (some cs.apiId) with
    | err => rw [hg] at h; cases h
    | panic => rw [hg] at h; cases h
    | ok gens =>
      rw [hg] at h; simp only at h
      obtain ⟨_, _, _, _, _, _, hz, hA, _⟩ := coreSign_ok hl cs sk pk gens header ms _ σ h
      exact ⟨hA, hz⟩

/-- **80-byte round trip.** Every signature with `A ≠ 0`, `e ≠ 0` (what the decoder admits,
and what `sign` produces unless the hash output `e` is zero) survives its encoding, which is
exactly 80 bytes long. -/
theorem sig_roundtrip (hl : Lawful env pair) (σ : Signature S G1) (hA : σ.A ≠ 0) (he : σ.e ≠ 0) :
    (σ.toBytes env).length = 80 ∧ Signature.fromBytes env (σ.toBytes env) = .ok σ := by
  have l1 := hl.g1Codec.enc_len σ.A
  have l2 := hl.sCodec.enc_len σ.e
  refine ⟨by simp [Signature.toBytes, l1, l2], ?_⟩
  unfold Signature.fromBytes Signature.toBytes
  have ht : (env.g1Enc σ.A ++ env.sEnc σ.e).take 48 = env.g1Enc σ.A := by
    rw [List.take_append_of_le_length (by omega), List.take_of_length_le (by omega)]
  have hd : (env.g1Enc σ.A ++ env.sEnc σ.e).drop 48 = env.sEnc σ.e := by
    rw [List.drop_append_of_le_length (by omega), List.drop_of_length_le (by omega), List.nil_append]
  simp [l1, l2, ht, hd, hl.g1Codec.dec_enc, hl.sCodec.dec_enc, hA, he]

/-- Decoding is strict: whatever `fromBytes` accepts re-encodes to the same 80 bytes. -/
theorem sig_decode_strict (hl : Lawful env pair) (b : Bytes) (σ : Signature S G1)
    (h : Signature.fromBytes env b = .ok σ) : σ.toBytes env = b ∧ b.length = 80 := by
  unfold Signature.fromBytes at h
  split at h
  · cases h
  · rename_i hlen
    cases hA : env.g1Dec (b.take 48) with
    | none => rw [hA] at h; cases h
    | some A =>
      rw [hA] at h; simp only at h
      cases he : env.sDec (b.drop 48) with
      | none => rw [he] at h; cases h
      | some e =>
        rw [he] at h; simp only at h
        split at h
        · cases h
        · cases h
          refine ⟨?_, by simpa using hlen⟩
          simp only [Signature.toBytes]
          rw [hl.g1Codec.strict _ _ hA, hl.sCodec.strict _ _ he, List.take_append_drop]

/-- **Absent = empty.** `None` and `Some([])`/`Some(b"")` are indistinguishable to `sign` and
`verify`. -/
theorem sign_none_eq_empty (cs : Suite G1) (sk : S) (pk : G2) (header : Option Bytes) :
    sign env cs none sk pk header = sign env cs (some []) sk pk header := rfl

theorem verify_none_eq_empty (cs : Suite G1) (σ : Signature S G1) (pk : G2) (header : Option Bytes) :
    verify env cs σ pk none header = verify env cs σ pk (some []) header := rfl

theorem calculateDomain_header_none (cs : Suite G1) (pk : G2) (Q1 : G1) (Hs : List G1)
    (apiId : Option Bytes) :
    calculateDomain env cs pk Q1 Hs none apiId = calculateDomain env cs pk Q1 Hs (some []) apiId := rfl

theorem sign_header_none_eq_empty (cs : Suite G1) (sk : S) (pk : G2) (messages : Option (List Bytes)) :
    sign env cs messages sk pk none = sign env cs messages sk pk (some []) := by
  unfold sign coreSign
  simp only [calculateDomain_header_none]

theorem verify_header_none_eq_empty (cs : Suite G1) (σ : Signature S G1) (pk : G2)
    (messages : Option (List Bytes)) :
    verify env cs σ pk messages none = verify env cs σ pk messages (some []) := by
  unfold verify coreVerify
  simp only [calculateDomain_header_none]

end Zk.C01
