/-
ConcreteG2: the EXECUTABLE G2 arithmetic of the model (`ZkModel/L0/Fp2.lean`, `ZkModel/L0/G2.lean`:
`G2.neg`, `G2.add`, Jacobian `G2.mul`, `G2.inSubgroup`, installed as `Add/Neg/Zero/SMul Fr` on `G2Pt` by
`ZkModel/Concrete.lean`) IS the elliptic-curve group `E2(Fp2)`, `E2 : y² = x³ + 4(1+u)`, with Mathlib's
proven group law (`WeierstrassCurve.Affine.Point`), and its `R`-torsion part is a vector space over
`ZMod R`. Until now this was a hypothesis (`[AddCommGroup G2] [Module S G2]` in `ZkProofs/Lawful.lean`).

Everything is proved for ALL inputs satisfying the stated hypotheses; nothing is partial. The
hypotheses are the ones real executions satisfy: a `G2Pt` is on the curve (`G2.onCurve`) and in normal
form (`G2Codec.Reduced`: coordinates `< P`, identity `= G2Pt.zero`; `G2.onCurve` does not check this).
Every decoded point is of this kind and in the subgroup (`fromCompressed_mem`, `fromUncompressed_mem`).

* 0. `G2Group.F2 = QuadraticAlgebra (ZMod P) (-1) 0` is a `Field`, `G2Group.cast : Fp2 → F2` commutes with
  every `Fp2` operation (`G2Group.cast_add … cast_inv`), is injective on reduced pairs and surjective.
* 1. `toPoint_injective`, `toPoint_surjective`: points of the curve in normal form ≃ `E2(Fp2)`.
* 2. `neg_closed`, `toPoint_neg`, `add_closed`, `toPoint_add`.
* 3. `mul_closed`, `toPoint_mul : toPoint (G2.mul n p) = n • toPoint p` for every `n : Nat` (Jacobian
  double-and-add; `G2Group.bitsMSB_val`: `G2.bitsMSB n` are the binary digits of `n`).
* 4. `inSubgroup_iff : G2.inSubgroup p = true ↔ R • toPoint p = 0`.
* 5. `E2Pt` (all points) is an `AddCommGroup`; `G2Sub` (the `R`-torsion points) is an `AddCommGroup` and a
  `Module (ZMod R)` with `s • p = G2.mul s.val p`, without zero divisors (`smul_eq_zero`), non-trivial
  (`gen_ne_zero`, `smul_gen_injective`: at least `R` points); the equations for the executable functions
  (`add_assoc`, `add_comm`, `add_zero`, `zero_add`, `add_neg`, `neg_neg`, `mul_add`, `mul_mul`,
  `mul_distrib`, `mul_neg`, `mul_zero`, `mul_one`, `mul_mod`, `mul_R`); the model's `Fr` action
  (`fr_smul_eq`).

NOT proved: that `G2Sub` has exactly `R` elements (true, but it needs the group order `#E2(Fp2) = h₂·R`
with `R ∤ h₂`, i.e. point counting). What IS proved is what `Lawful` uses: a commutative group of exponent
`R`, a `ZMod R`-module without zero divisors, with at least `R` elements.
-/
import ZkProofs.Lemmas.G2Group
import ZkProofs.Props.C09G2
import Mathlib.GroupTheory.OrderOfElement
namespace Zk.ConcreteG2
open Zk Zk.Primes Zk.ConcreteScalar Zk.G2Codec Zk.G2Group
open WeierstrassCurve WeierstrassCurve.Affine

/-! ## 0. the field `Fp2` -/

/-- `Fp2` of the model as a Mathlib field (`ZMod P [ω]/(ω² = −1)`), with decidable equality. -/
example : Field F2 := inferInstance
example : DecidableEq F2 := inferInstance
/-- The scalars `ZMod R` are a field. -/
example : Field (ZMod R) := inferInstance

/-- **Every `Fp2` operation of the model is the field operation on classes** (for ALL pairs of
naturals, reduced or not; `Fp2.inv 0 = 0` like `0⁻¹ = 0`). -/
theorem cast_hom (a b : Fp2) (k : Nat) :
    cast (Fp2.add a b) = cast a + cast b ∧ cast (Fp2.sub a b) = cast a - cast b ∧
    cast (Fp2.neg a) = -cast a ∧ cast (Fp2.mul a b) = cast a * cast b ∧
    cast (Fp2.sq a) = cast a ^ 2 ∧ cast (Fp2.dbl a) = 2 * cast a ∧
    cast (Fp2.smul k a) = (k : F2) * cast a ∧ cast (Fp2.inv a) = (cast a)⁻¹ ∧
    cast Fp2.zero = 0 ∧ cast Fp2.one = 1 :=
  ⟨cast_add a b, cast_sub a b, cast_neg a, cast_mul a b, cast_sq a, cast_dbl a, cast_smul k a,
    cast_inv a, cast_zero, cast_one⟩

/-- Every `Fp2` operation returns a reduced pair. -/
theorem ops_reduced (a b : Fp2) (k : Nat) :
    Red (Fp2.add a b) ∧ Red (Fp2.sub a b) ∧ Red (Fp2.neg a) ∧ Red (Fp2.mul a b) ∧ Red (Fp2.sq a) ∧
    Red (Fp2.dbl a) ∧ Red (Fp2.smul k a) ∧ Red (Fp2.inv a) :=
  ⟨add_red a b, sub_red a b, neg_red a, mul_red a b, sq_red a, dbl_red a, smul_red k a, inv_red a⟩

/-- Reduced pairs are determined by their class; every class has a reduced representative; the
executable tests `==` and `isZero` decide equality of classes on reduced pairs. -/
theorem cast_injective {a b : Fp2} (ha : Red a) (hb : Red b) : cast a = cast b ↔ a = b :=
  cast_inj ha hb
theorem cast_surjective (z : F2) : ∃ a : Fp2, Red a ∧ cast a = z := cast_surj z
theorem beq_iff_cast_eq {a b : Fp2} (ha : Red a) (hb : Red b) : (a == b) = true ↔ cast a = cast b :=
  beq_iff_cast ha hb
theorem isZero_iff_cast_eq {a : Fp2} (ha : Red a) : a.isZero = true ↔ cast a = 0 := isZero_iff ha

/-- The curve: `G2.onCurve` on a finite point is the Weierstrass equation of `E2` over `F2`,
`y² = x³ + 4(1+u)`; E2 has no point with `y = 0` (no 2-torsion). -/
theorem onCurve_iff_equation {p : G2Pt} (hinf : p.inf = false) :
    G2.onCurve p = true ↔ cast p.y ^ 2 = cast p.x ^ 3 + bF := by
  rw [onCurve_finite hinf, equation_iff']

/-! ## 1. points of the curve in normal form ≃ `E2(Fp2)` -/

/-- `toPoint` is injective on the points of the curve in normal form. -/
theorem toPoint_injective {p q : G2Pt} (hp : G2.onCurve p = true) (rp : Reduced p)
    (hq : G2.onCurve q = true) (rq : Reduced q) (h : toPoint p = toPoint q) : p = q :=
  toPoint_inj hp hq rp rq h

/-- Every point of `E2(Fp2)` is `toPoint` of a point of the curve in normal form. -/
theorem toPoint_surjective (Q : E2.toAffine.Point) :
    ∃ p : G2Pt, G2.onCurve p = true ∧ Reduced p ∧ toPoint p = Q := toPoint_surj Q

/-! ## 2. negation and addition -/

theorem neg_closed {p : G2Pt} (hp : G2.onCurve p = true) (rp : Reduced p) :
    G2.onCurve (G2.neg p) = true ∧ Reduced (G2.neg p) :=
  ⟨(neg_spec hp rp).1, (neg_spec hp rp).2.1⟩

/-- **`G2.neg` is the negation of `E2(Fp2)`.** -/
theorem toPoint_neg {p : G2Pt} (hp : G2.onCurve p = true) (rp : Reduced p) :
    toPoint (G2.neg p) = -toPoint p := (neg_spec hp rp).2.2

theorem add_closed {p q : G2Pt} (hp : G2.onCurve p = true) (rp : Reduced p)
    (hq : G2.onCurve q = true) (rq : Reduced q) :
    G2.onCurve (G2.add p q) = true ∧ Reduced (G2.add p q) :=
  ⟨(add_spec hp hq rp rq).1, (add_spec hp hq rp rq).2.1⟩

/-- **`G2.add` is the addition of `E2(Fp2)`** (all cases: identity, chord, tangent, inverse). -/
theorem toPoint_add {p q : G2Pt} (hp : G2.onCurve p = true) (rp : Reduced p)
    (hq : G2.onCurve q = true) (rq : Reduced q) :
    toPoint (G2.add p q) = toPoint p + toPoint q := (add_spec hp hq rp rq).2.2

/-! ## 3. scalar multiplication -/

theorem mul_closed (n : Nat) {p : G2Pt} (hp : G2.onCurve p = true) (rp : Reduced p) :
    G2.onCurve (G2.mul n p) = true ∧ Reduced (G2.mul n p) :=
  ⟨(mul_spec n hp rp).1, (mul_spec n hp rp).2.1⟩

/-- **`G2.mul n p = n • p`** in `E2(Fp2)`, for every natural `n` (no reduction modulo `R`). -/
theorem toPoint_mul (n : Nat) {p : G2Pt} (hp : G2.onCurve p = true) (rp : Reduced p) :
    toPoint (G2.mul n p) = n • toPoint p := (mul_spec n hp rp).2.2

/-- `G2.bitsMSB n` are the binary digits of `n`, most significant first. -/
theorem bitsMSB_digits (n : Nat) : (G2.bitsMSB n).foldl (fun a b => 2 * a + b.toNat) 0 = n :=
  bitsMSB_val n

/-- Jacobian doubling is affine doubling, through `Jac.toAffine` (`JRep j Q`: `j` has reduced
coordinates and represents the point `Q` of the curve; `Jac.zero` represents `O`). -/
theorem jac_dbl {j : G2.Jac} {Q : E2.toAffine.Point} (h : JRep j Q) :
    JRep (G2.Jac.dbl j) (Q + Q) ∧
      G2.Jac.toAffine (G2.Jac.dbl j) = G2.add (G2.Jac.toAffine j) (G2.Jac.toAffine j) :=
  ⟨dbl_rep h, toAffine_dbl h⟩

/-- Jacobian mixed addition is affine addition, through `Jac.toAffine` (all branches: accumulator at
infinity, equal points → doubling, opposite points → identity, generic). -/
theorem jac_addAffine {j : G2.Jac} {Q : E2.toAffine.Point} (h : JRep j Q) {p : G2Pt}
    (hp : G2.onCurve p = true) (rp : Reduced p) (hpi : p.inf = false) :
    JRep (G2.Jac.addAffine j p.x p.y) (Q + toPoint p) ∧
      G2.Jac.toAffine (G2.Jac.addAffine j p.x p.y) = G2.add (G2.Jac.toAffine j) p := by
  refine ⟨?_, toAffine_addAffine h hp rp hpi⟩
  rw [toPoint_finite hpi hp]
  exact addAffine_rep h (red_x rp) (red_y rp) _

theorem jac_toAffine {j : G2.Jac} {Q : E2.toAffine.Point} (h : JRep j Q) :
    G2.onCurve (G2.Jac.toAffine j) = true ∧ Reduced (G2.Jac.toAffine j) ∧
      toPoint (G2.Jac.toAffine j) = Q := toAffine_rep h

/-! ## 4. the subgroup test -/

/-- **`G2.inSubgroup p = true ↔ R • p = O`.** -/
theorem inSubgroup_iff {p : G2Pt} (hp : G2.onCurve p = true) (rp : Reduced p) :
    G2.inSubgroup p = true ↔ R • toPoint p = 0 := G2Group.inSubgroup_iff hp rp

/-! ## 5a. all points: `E2Pt` is a commutative group under the executable operations -/

/-- The points of the curve in normal form. -/
abbrev E2Pt := { p : G2Pt // G2.onCurve p = true ∧ Reduced p }

namespace E2Pt

instance : Zero E2Pt := ⟨⟨G2Pt.zero, rfl, reduced_zero⟩⟩
instance : Add E2Pt := ⟨fun p q => ⟨G2.add p.1 q.1, add_closed p.2.1 p.2.2 q.2.1 q.2.2⟩⟩
instance : Neg E2Pt := ⟨fun p => ⟨G2.neg p.1, neg_closed p.2.1 p.2.2⟩⟩
instance : Sub E2Pt := ⟨fun p q => p + -q⟩
instance : SMul Nat E2Pt := ⟨fun n p => ⟨G2.mul n p.1, mul_closed n p.2.1 p.2.2⟩⟩
instance : SMul Int E2Pt := ⟨fun z p => match z with
  | Int.ofNat n => n • p
  | Int.negSucc n => -((n + 1) • p)⟩

@[simp] theorem val_zero : (0 : E2Pt).1 = G2Pt.zero := rfl
@[simp] theorem val_add (p q : E2Pt) : (p + q).1 = G2.add p.1 q.1 := rfl
@[simp] theorem val_neg (p : E2Pt) : (-p).1 = G2.neg p.1 := rfl
@[simp] theorem val_sub (p q : E2Pt) : (p - q).1 = G2.add p.1 (G2.neg q.1) := rfl
@[simp] theorem val_nsmul (n : Nat) (p : E2Pt) : (n • p).1 = G2.mul n p.1 := rfl

/-- The point of `E2(Fp2)`. -/
def toPt (p : E2Pt) : E2.toAffine.Point := toPoint p.1

theorem toPt_injective : Function.Injective toPt :=
  fun p q h => Subtype.ext (toPoint_inj p.2.1 q.2.1 p.2.2 q.2.2 h)

theorem toPt_surjective : Function.Surjective toPt := fun Q => by
  obtain ⟨p, hp, rp, h⟩ := toPoint_surj Q
  exact ⟨⟨p, hp, rp⟩, h⟩

theorem toPt_zero : toPt 0 = 0 := toPoint_zero
theorem toPt_add (p q : E2Pt) : toPt (p + q) = toPt p + toPt q :=
  toPoint_add p.2.1 p.2.2 q.2.1 q.2.2
theorem toPt_neg (p : E2Pt) : toPt (-p) = -toPt p := toPoint_neg p.2.1 p.2.2
theorem toPt_sub (p q : E2Pt) : toPt (p - q) = toPt p - toPt q := by
  show toPt (p + -q) = _
  rw [toPt_add, toPt_neg, sub_eq_add_neg]
theorem toPt_nsmul (p : E2Pt) (n : Nat) : toPt (n • p) = n • toPt p :=
  toPoint_mul n p.2.1 p.2.2
theorem toPt_zsmul (p : E2Pt) (z : Int) : toPt (z • p) = z • toPt p := by
  cases z with
  | ofNat n =>
    show toPt (n • p) = _
    rw [toPt_nsmul, Int.ofNat_eq_natCast, natCast_zsmul]
  | negSucc n =>
    show toPt (-((n + 1) • p)) = _
    rw [toPt_neg, toPt_nsmul, negSucc_zsmul]

/-- **The points of E2 in normal form, with the executable `G2.add`, `G2.neg`, `G2Pt.zero`, `G2.mul`, are
a commutative group** (isomorphic to Mathlib's `E2(Fp2)` by `toPt`). -/
instance : AddCommGroup E2Pt :=
  toPt_injective.addCommGroup toPt toPt_zero toPt_add toPt_neg toPt_sub toPt_nsmul toPt_zsmul

/-- `toPt` as an isomorphism of groups `E2Pt ≃+ E2(Fp2)`. -/
noncomputable def equiv : E2Pt ≃+ E2.toAffine.Point :=
  AddEquiv.ofBijective (AddMonoidHom.mk' toPt toPt_add) ⟨toPt_injective, toPt_surjective⟩

end E2Pt

/-! ## 5b. the equations, for the executable functions themselves -/

section equations
variable {p q r : G2Pt}

theorem add_assoc (hp : G2.onCurve p = true) (rp : Reduced p) (hq : G2.onCurve q = true)
    (rq : Reduced q) (hr : G2.onCurve r = true) (rr : Reduced r) :
    G2.add (G2.add p q) r = G2.add p (G2.add q r) :=
  congrArg Subtype.val (_root_.add_assoc (⟨p, hp, rp⟩ : E2Pt) ⟨q, hq, rq⟩ ⟨r, hr, rr⟩)

theorem add_comm (hp : G2.onCurve p = true) (rp : Reduced p) (hq : G2.onCurve q = true)
    (rq : Reduced q) : G2.add p q = G2.add q p :=
  congrArg Subtype.val (_root_.add_comm (⟨p, hp, rp⟩ : E2Pt) ⟨q, hq, rq⟩)

theorem add_zero (hp : G2.onCurve p = true) (rp : Reduced p) : G2.add p G2Pt.zero = p :=
  congrArg Subtype.val (_root_.add_zero (⟨p, hp, rp⟩ : E2Pt))

theorem zero_add (hp : G2.onCurve p = true) (rp : Reduced p) : G2.add G2Pt.zero p = p :=
  congrArg Subtype.val (_root_.zero_add (⟨p, hp, rp⟩ : E2Pt))

theorem add_neg (hp : G2.onCurve p = true) (rp : Reduced p) :
    G2.add p (G2.neg p) = G2Pt.zero :=
  congrArg Subtype.val (_root_.add_neg_cancel (⟨p, hp, rp⟩ : E2Pt))

theorem neg_add (hp : G2.onCurve p = true) (rp : Reduced p) :
    G2.add (G2.neg p) p = G2Pt.zero :=
  congrArg Subtype.val (_root_.neg_add_cancel (⟨p, hp, rp⟩ : E2Pt))

theorem neg_neg (hp : G2.onCurve p = true) (rp : Reduced p) : G2.neg (G2.neg p) = p :=
  congrArg Subtype.val (_root_.neg_neg (⟨p, hp, rp⟩ : E2Pt))

theorem neg_add_distrib (hp : G2.onCurve p = true) (rp : Reduced p) (hq : G2.onCurve q = true)
    (rq : Reduced q) : G2.neg (G2.add p q) = G2.add (G2.neg p) (G2.neg q) :=
  congrArg Subtype.val (_root_.neg_add (⟨p, hp, rp⟩ : E2Pt) ⟨q, hq, rq⟩)

theorem mul_zero (hp : G2.onCurve p = true) (rp : Reduced p) : G2.mul 0 p = G2Pt.zero :=
  congrArg Subtype.val (_root_.zero_nsmul (⟨p, hp, rp⟩ : E2Pt))

theorem mul_one (hp : G2.onCurve p = true) (rp : Reduced p) : G2.mul 1 p = p :=
  congrArg Subtype.val (_root_.one_nsmul (⟨p, hp, rp⟩ : E2Pt))

/-- `[m + n]P = [m]P + [n]P`. -/
theorem mul_add (m n : Nat) (hp : G2.onCurve p = true) (rp : Reduced p) :
    G2.mul (m + n) p = G2.add (G2.mul m p) (G2.mul n p) :=
  congrArg Subtype.val (_root_.add_nsmul (⟨p, hp, rp⟩ : E2Pt) m n)

/-- `[m · n]P = [m]([n]P)`. -/
theorem mul_mul (m n : Nat) (hp : G2.onCurve p = true) (rp : Reduced p) :
    G2.mul (m * n) p = G2.mul m (G2.mul n p) :=
  congrArg Subtype.val (_root_.mul_nsmul' (⟨p, hp, rp⟩ : E2Pt) m n)

/-- `[n](P + Q) = [n]P + [n]Q`. -/
theorem mul_distrib (n : Nat) (hp : G2.onCurve p = true) (rp : Reduced p)
    (hq : G2.onCurve q = true) (rq : Reduced q) :
    G2.mul n (G2.add p q) = G2.add (G2.mul n p) (G2.mul n q) :=
  congrArg Subtype.val (_root_.nsmul_add (⟨p, hp, rp⟩ : E2Pt) ⟨q, hq, rq⟩ n)

/-- `[n](−P) = −[n]P`. -/
theorem mul_neg (n : Nat) (hp : G2.onCurve p = true) (rp : Reduced p) :
    G2.mul n (G2.neg p) = G2.neg (G2.mul n p) :=
  congrArg Subtype.val (_root_.neg_nsmul (⟨p, hp, rp⟩ : E2Pt) n)

/-- `[n]O = O` (for every `n`; no hypothesis). -/
theorem mul_inf (n : Nat) : G2.mul n G2Pt.zero = G2Pt.zero := rfl

/-- In the subgroup `[R]P = O`, literally. -/
theorem mul_R (hp : G2.onCurve p = true) (rp : Reduced p) (sp : G2.inSubgroup p = true) :
    G2.mul R p = G2Pt.zero :=
  (mul_closed R hp rp).2.2 sp

/-- In the subgroup the scalar only matters modulo `R`. -/
theorem mul_mod (n : Nat) (hp : G2.onCurve p = true) (rp : Reduced p)
    (sp : G2.inSubgroup p = true) : G2.mul (n % R) p = G2.mul n p := by
  have h : G2.mul n p = G2.mul (R * (n / R) + n % R) p := by rw [Nat.div_add_mod]
  rw [h, mul_add _ _ hp rp, Nat.mul_comm, mul_mul _ _ hp rp, mul_R hp rp sp, mul_inf,
    zero_add (mul_closed _ hp rp).1 (mul_closed _ hp rp).2]

end equations

/-! ### closure of the subgroup test -/

theorem inSubgroup_zero : G2.inSubgroup G2Pt.zero = true := rfl

theorem inSubgroup_add {p q : G2Pt} (hp : G2.onCurve p = true) (rp : Reduced p)
    (sp : G2.inSubgroup p = true) (hq : G2.onCurve q = true) (rq : Reduced q)
    (sq : G2.inSubgroup q = true) : G2.inSubgroup (G2.add p q) = true := by
  have hc := add_closed hp rp hq rq
  rw [inSubgroup_iff hc.1 hc.2, toPoint_add hp rp hq rq, nsmul_add,
    (inSubgroup_iff hp rp).mp sp, (inSubgroup_iff hq rq).mp sq, _root_.add_zero]

theorem inSubgroup_neg {p : G2Pt} (hp : G2.onCurve p = true) (rp : Reduced p)
    (sp : G2.inSubgroup p = true) : G2.inSubgroup (G2.neg p) = true := by
  have hc := neg_closed hp rp
  rw [inSubgroup_iff hc.1 hc.2, toPoint_neg hp rp, neg_nsmul, (inSubgroup_iff hp rp).mp sp,
    _root_.neg_zero]

theorem inSubgroup_mul (n : Nat) {p : G2Pt} (hp : G2.onCurve p = true) (rp : Reduced p)
    (sp : G2.inSubgroup p = true) : G2.inSubgroup (G2.mul n p) = true := by
  have hc := mul_closed n hp rp
  rw [inSubgroup_iff hc.1 hc.2, toPoint_mul n hp rp, nsmul_left_comm,
    (inSubgroup_iff hp rp).mp sp, nsmul_zero]

/-! ## 5c. the subgroup: `G2Sub` is a `ZMod R`-module under the executable operations -/

/-- The group G2 of the model: points of E2 in normal form with `[R]P = O`. -/
abbrev G2Sub := { p : G2Pt // G2.onCurve p = true ∧ Reduced p ∧ G2.inSubgroup p = true }

namespace G2Sub

instance : Zero G2Sub := ⟨⟨G2Pt.zero, rfl, reduced_zero, rfl⟩⟩
instance : Add G2Sub := ⟨fun p q => ⟨G2.add p.1 q.1,
  (add_closed p.2.1 p.2.2.1 q.2.1 q.2.2.1).1, (add_closed p.2.1 p.2.2.1 q.2.1 q.2.2.1).2,
  inSubgroup_add p.2.1 p.2.2.1 p.2.2.2 q.2.1 q.2.2.1 q.2.2.2⟩⟩
instance : Neg G2Sub := ⟨fun p => ⟨G2.neg p.1, (neg_closed p.2.1 p.2.2.1).1,
  (neg_closed p.2.1 p.2.2.1).2, inSubgroup_neg p.2.1 p.2.2.1 p.2.2.2⟩⟩
instance : Sub G2Sub := ⟨fun p q => p + -q⟩
instance : SMul Nat G2Sub := ⟨fun n p => ⟨G2.mul n p.1, (mul_closed n p.2.1 p.2.2.1).1,
  (mul_closed n p.2.1 p.2.2.1).2, inSubgroup_mul n p.2.1 p.2.2.1 p.2.2.2⟩⟩
instance : SMul Int G2Sub := ⟨fun z p => match z with
  | Int.ofNat n => n • p
  | Int.negSucc n => -((n + 1) • p)⟩
/-- The scalar action of the model: `s • p = G2.mul s.val p`. -/
instance : SMul (ZMod R) G2Sub := ⟨fun s p => s.val • p⟩

@[simp] theorem val_zero : (0 : G2Sub).1 = G2Pt.zero := rfl
@[simp] theorem val_add (p q : G2Sub) : (p + q).1 = G2.add p.1 q.1 := rfl
@[simp] theorem val_neg (p : G2Sub) : (-p).1 = G2.neg p.1 := rfl
@[simp] theorem val_sub (p q : G2Sub) : (p - q).1 = G2.add p.1 (G2.neg q.1) := rfl
@[simp] theorem val_nsmul (n : Nat) (p : G2Sub) : (n • p).1 = G2.mul n p.1 := rfl
@[simp] theorem val_smul (s : ZMod R) (p : G2Sub) : (s • p).1 = G2.mul s.val p.1 := rfl

/-- The point of `E2(Fp2)`. -/
def toPt (p : G2Sub) : E2.toAffine.Point := toPoint p.1

theorem toPt_injective : Function.Injective toPt :=
  fun p q h => Subtype.ext (toPoint_inj p.2.1 q.2.1 p.2.2.1 q.2.2.1 h)

theorem toPt_zero : toPt 0 = 0 := toPoint_zero
theorem toPt_add (p q : G2Sub) : toPt (p + q) = toPt p + toPt q :=
  toPoint_add p.2.1 p.2.2.1 q.2.1 q.2.2.1
theorem toPt_neg (p : G2Sub) : toPt (-p) = -toPt p := toPoint_neg p.2.1 p.2.2.1
theorem toPt_sub (p q : G2Sub) : toPt (p - q) = toPt p - toPt q := by
  show toPt (p + -q) = _
  rw [toPt_add, toPt_neg, sub_eq_add_neg]
theorem toPt_nsmul (p : G2Sub) (n : Nat) : toPt (n • p) = n • toPt p :=
  toPoint_mul n p.2.1 p.2.2.1
theorem toPt_zsmul (p : G2Sub) (z : Int) : toPt (z • p) = z • toPt p := by
  cases z with
  | ofNat n =>
    show toPt (n • p) = _
    rw [toPt_nsmul, Int.ofNat_eq_natCast, natCast_zsmul]
  | negSucc n =>
    show toPt (-((n + 1) • p)) = _
    rw [toPt_neg, toPt_nsmul, negSucc_zsmul]
theorem toPt_smul (s : ZMod R) (p : G2Sub) : toPt (s • p) = s.val • toPt p := toPt_nsmul p s.val

/-- The image of `G2Sub` is exactly the `R`-torsion of `E2(Fp2)`. -/
theorem R_nsmul_toPt (p : G2Sub) : R • toPt p = 0 := (inSubgroup_iff p.2.1 p.2.2.1).mp p.2.2.2

theorem exists_of_torsion {Q : E2.toAffine.Point} (h : R • Q = 0) : ∃ p : G2Sub, toPt p = Q := by
  obtain ⟨p, hp, rp, rfl⟩ := toPoint_surj Q
  exact ⟨⟨p, hp, rp, (inSubgroup_iff hp rp).mpr h⟩, rfl⟩

/-- **G2 of the model (executable `G2.add`, `G2.neg`, `G2Pt.zero`, `G2.mul`) is a commutative group.** -/
instance : AddCommGroup G2Sub :=
  toPt_injective.addCommGroup toPt toPt_zero toPt_add toPt_neg toPt_sub toPt_nsmul toPt_zsmul

theorem R_nsmul (p : G2Sub) : R • p = 0 := toPt_injective (by rw [toPt_nsmul, R_nsmul_toPt, toPt_zero])

theorem mod_nsmul (n : Nat) (p : G2Sub) : (n % R) • p = n • p := by
  conv_rhs => rw [← Nat.div_add_mod n R, add_nsmul, Nat.mul_comm, mul_nsmul', R_nsmul, nsmul_zero,
    _root_.zero_add]

theorem smul_def (s : ZMod R) (p : G2Sub) : s • p = s.val • p := rfl

/-- **G2 of the model is a module over the scalar field `ZMod R`, with the model's action
`s • p = G2.mul s.val p`.** -/
instance : Module (ZMod R) G2Sub where
  one_smul p := by
    have : Fact (1 < R) := ⟨R_prime.one_lt⟩
    rw [smul_def, ZMod.val_one, one_nsmul]
  mul_smul s t p := by
    rw [smul_def, smul_def, smul_def, ZMod.val_mul, mod_nsmul, mul_nsmul']
  smul_zero s := by rw [smul_def, nsmul_zero]
  smul_add s p q := by rw [smul_def, smul_def, smul_def, nsmul_add]
  add_smul s t p := by
    rw [smul_def, smul_def, smul_def, ZMod.val_add, mod_nsmul, add_nsmul]
  zero_smul p := by rw [smul_def, ZMod.val_zero, zero_nsmul]

/-- **No zero divisors**: `s • p = 0 → s = 0 ∨ p = 0` (`R` is prime). -/
theorem smul_eq_zero {s : ZMod R} {p : G2Sub} (h : s • p = 0) : s = 0 ∨ p = 0 := by
  by_cases hs : s = 0
  · exact Or.inl hs
  · right
    rw [smul_def] at h
    have h1 : addOrderOf p ∣ s.val := addOrderOf_dvd_of_nsmul_eq_zero h
    have h2 : addOrderOf p ∣ R := addOrderOf_dvd_of_nsmul_eq_zero (R_nsmul p)
    have hcop : Nat.Coprime s.val R := by
      apply Nat.Coprime.symm
      rw [Nat.Prime.coprime_iff_not_dvd R_prime]
      intro hd
      have hpos : 0 < s.val := Nat.pos_of_ne_zero (fun h0 => hs ((ZMod.val_eq_zero s).mp h0))
      exact absurd (Nat.le_of_dvd hpos hd) (not_le.mpr (ZMod.val_lt s))
    have h3 : addOrderOf p = 1 := Nat.eq_one_of_dvd_coprimes hcop h1 h2
    exact AddMonoid.addOrderOf_eq_one_iff.mp h3

theorem smul_eq_zero_iff {s : ZMod R} {p : G2Sub} : s • p = 0 ↔ s = 0 ∨ p = 0 :=
  ⟨smul_eq_zero, fun h => by rcases h with rfl | rfl <;> simp⟩

/-- The fixed generator `G2.gen` (crate `G2Affine::generator`) as an element of `G2Sub`. -/
def gen : G2Sub := ⟨G2.gen, C09G2.onCurve_gen, C09G2.reduced_gen, C09G2.inSubgroup_gen⟩

theorem gen_ne_zero : gen ≠ 0 := by
  intro h
  have := congrArg (fun p : G2Sub => p.1.inf) h
  simp [gen, G2.gen, G2Pt.zero] at this

/-- The subgroup has at least `R` elements: `s ↦ s • gen` is injective on `ZMod R`. -/
theorem smul_gen_injective : Function.Injective (fun s : ZMod R => s • gen) := by
  intro s t h
  have h' : (s - t) • gen = 0 := by rw [sub_smul, sub_eq_zero]; exact h
  rcases smul_eq_zero h' with h0 | h0
  · exact sub_eq_zero.mp h0
  · exact absurd h0 gen_ne_zero

end G2Sub

/-! ### the instances installed by `ZkModel/Concrete.lean` on raw `G2Pt` -/

/-- The model's `Fr` action on a subgroup point is the `ZMod R`-module action by the class of the
representative (reduced or not). -/
theorem fr_smul_eq (s : Fr) (p : G2Sub) : (s • p.1 : G2Pt) = (((s.v : ZMod R)) • p).1 := by
  show G2.mul s.v p.1 = G2.mul ((s.v : ZMod R)).val p.1
  rw [ZMod.val_natCast, mul_mod s.v p.2.1 p.2.2.1 p.2.2.2]

theorem concrete_add_eq (p q : G2Sub) : (p.1 + q.1 : G2Pt) = (p + q).1 := rfl
theorem concrete_neg_eq (p : G2Sub) : (-p.1 : G2Pt) = (-p).1 := rfl
theorem concrete_zero_eq : (0 : G2Pt) = (0 : G2Sub).1 := rfl

/-! ### decoded points lie in `G2Sub` -/

/-- Every point accepted by `G2Affine::from_compressed` is a point of G2. -/
theorem fromCompressed_mem {b : Bytes} {p : G2Pt} (h : G2.fromCompressed b = some p) :
    G2.onCurve p = true ∧ Reduced p ∧ G2.inSubgroup p = true :=
  ⟨C09G2.g2_decode_onCurve h, C09G2.g2_decode_reduced h, C09Concrete.g2_decode_inSubgroup h⟩

/-- Every point accepted by `G2Affine::from_uncompressed` is a point of G2. -/
theorem fromUncompressed_mem {b : Bytes} {p : G2Pt} (h : G2.fromUncompressed b = some p) :
    G2.onCurve p = true ∧ Reduced p ∧ G2.inSubgroup p = true :=
  ⟨(C09Concrete.g2_decode_uncompressed_checked h).1, C09G2.g2u_decode_reduced h,
    (C09Concrete.g2_decode_uncompressed_checked h).2⟩

/-- `G2.fromCompressed` as a decoder into `G2Sub`. -/
def decSub (b : Bytes) : Option G2Sub :=
  match h : G2.fromCompressed b with
  | none => none
  | some p => some ⟨p, fromCompressed_mem h⟩

theorem decSub_val (b : Bytes) : (decSub b).map Subtype.val = G2.fromCompressed b := by
  unfold decSub
  split <;> simp_all

/-- `G2.fromUncompressed` as a decoder into `G2Sub`. -/
def decUSub (b : Bytes) : Option G2Sub :=
  match h : G2.fromUncompressed b with
  | none => none
  | some p => some ⟨p, fromUncompressed_mem h⟩

theorem decUSub_val (b : Bytes) : (decUSub b).map Subtype.val = G2.fromUncompressed b := by
  unfold decUSub
  split <;> simp_all

/-- The subtype of `C09G2` (same three facts, other order) is this one. -/
def ofC09 (p : C09G2.G2Sub) : G2Sub := ⟨p.1, p.2.1, p.2.2.2, p.2.2.1⟩

/-! ### the normal form is a necessary hypothesis -/

/-- `G2.onCurve` / `G2.inSubgroup` accept unreduced representatives, but `G2.add` compares
representations (`==`): adding `gen` and `gen` written with `x0 + P` takes the chord branch with
`Fp2.inv 0 = 0` and leaves the curve. So `Reduced` cannot be dropped from `add_closed` / `toPoint_add`
(every decoded point is `Reduced`: `fromCompressed_mem`, `fromUncompressed_mem`). -/
theorem reduced_is_needed : ∃ p q : G2Pt, G2.onCurve p = true ∧ Reduced p ∧ G2.onCurve q = true ∧
    G2.inSubgroup q = true ∧ G2.onCurve (G2.add p q) = false :=
  ⟨G2.gen, { G2.gen with x0 := G2.gen.x0 + P }, C09G2.onCurve_gen, C09G2.reduced_gen,
    by decide +kernel, by decide +kernel, by decide +kernel⟩

/-! ### the hypotheses are satisfiable -/

example : G2.add G2.gen (G2.neg G2.gen) = G2Pt.zero := add_neg C09G2.onCurve_gen C09G2.reduced_gen
example : G2.mul R G2.gen = G2Pt.zero :=
  mul_R C09G2.onCurve_gen C09G2.reduced_gen C09G2.inSubgroup_gen

end Zk.ConcreteG2
