/-
C05  Blind BBS issuance and presentation completeness.

"For every list of prover-committed messages (including none), every list of signer messages
(including none) and every header, commit, blind signing over the serialized commitment, and
blind-signature verification with the committed messages and the returned blinding factor all
succeed; a blind signature issued without any commitment also verifies. For every pair of
disclosure choices (over signer messages and over committed messages) blind proof generation
succeeds and the proof verifies with the disclosed messages, their positions and the
signer-message count."

All theorems are about the L1 model (`ZkModel/L1/Bbs.lean`) instantiated with an arbitrary
field `S`, arbitrary `S`-modules and an arbitrary lawful environment; hash functions are
arbitrary. They hold for every key, header, list of signer messages, list of prover-committed
messages (any lengths, `None` included) and both ciphersuites (`cs` is arbitrary).

"Succeeds" is stated as follows, because `env.expand` / `env.hashToG1` are arbitrary partial
functions and a few negligible-probability algebraic events make the Rust return `Err`:
* `commit`: closed form on a tape of `≥ M + 2` scalars (`commit_succeeds`, `commit_api_succeeds`):
  it fails only if a hash fails.
* `blind_sign`: the length check and the commitment-proof check always pass on an honest
  commitment (`commit_accepted`, `blind_sign_honest_eq`); what is left can return `Err` only from
  a failing hash, from `B = 0` (`calculate_b`) or from `sk + e = 0`. Whenever it returns a
  signature, that signature verifies (`blind_sign_verify`, `blind_sign_verify_no_commitment`).
* `blind_proof_gen` / `blind_proof_verify` (`blind_proof_complete`): the hypotheses beyond the
  informal statement are those of `C03.core_proof_complete` (`HashTotal` for the tag
  `api_id_blind ‖ "H2S_"`, `r1 ≠ 0`, `r2 ≠ 0` on the tape, `sk ≠ 0`, `sk + e ≠ 0`), plus
  `σ.A ≠ 0`, `σ.e ≠ 0` (what the 80-byte signature decoder accepts; see the remark at the end),
  `|di| ≤ L`, `|dci| ≤ M` (the Rust rejects longer lists before deduplicating; automatic for
  duplicate-free lists) and `L + 1 + M < 2^64` (the verifier's checked `usize` additions).
-/
import ZkProofs.Lemmas.Blind
import ZkProofs.Props.C03
set_option linter.unusedSectionVars false
set_option linter.unusedVariables false
namespace Zk.C05
open Zk Res Zk.Blind

variable {S G1 G2 GT : Type} [Field S] [DecidableEq S]
variable [AddCommGroup G1] [Module S G1] [DecidableEq G1]
variable [AddCommGroup G2] [Module S G2] [DecidableEq G2]
variable [AddCommGroup GT] [Module S GT]
variable {env : Env S G1 G2} {pair : G1 →ₗ[S] G2 →ₗ[S] GT}

/-! ### 1. the commitment and its proof of knowledge -/

/-- **Commitment completeness (core).** Whatever `core_commit` returns — for any blind
generators, committed scalars, api id and tape — is accepted by `core_commit_verify` with the
same blind generators and api id. (`core_commit` itself checks `|blind_generators| = M + 1`.) -/
theorem commit_verify (cs : Suite G1) (bg : List G1) (cms : List S) (apiId : Option Bytes)
    (tape : List S) (c : Commitment S G1) (blind : S)
    (h : coreCommit env cs bg (some cms) apiId tape = .ok (c, blind)) :
    coreCommitVerify env cs c.commitment c.proof bg apiId = .ok () :=
  coreCommit_verify cs bg cms apiId tape c blind h

/-- **`core_commit` succeeds** on `M + 1` blind generators `Q2 :: Js`, `M` scalars and a tape of
at least `M + 2` scalars, unless `hash_to_scalar` fails: it never panics, and returns
`C = blind•Q2 + Σ mᵢ•Jᵢ` with the responses `ŝ = s̃ + blind·c`, `m̂ᵢ = m̃ᵢ + mᵢ·c`. -/
theorem commit_succeeds (cs : Suite G1) (Q2 : G1) (Js : List G1) (cms : List S)
    (apiId : Option Bytes) (tape : List S)
    (hJ : Js.length = cms.length) (htape : cms.length + 2 ≤ tape.length) :
    ∃ blind sT rest, tape = blind :: sT :: rest ∧
      coreCommit env cs (Q2 :: Js) (some cms) apiId tape =
        (hashToScalar env cs
          (blindChallengeInput env (sumZip (blind • Q2) Js cms)
            (sumZip (sT • Q2) Js (rest.take cms.length)) (Q2 :: Js))
          (apiId.getD [] ++ cs.h2s) >>= fun ch =>
          .ok (⟨sumZip (blind • Q2) Js cms, ⟨sT + blind * ch,
            ((rest.take cms.length).zip cms).map fun tm => tm.1 + tm.2 * ch, ch⟩⟩, blind)) := by
  rcases tape with _ | ⟨blind, _ | ⟨sT, rest⟩⟩ <;>
    simp only [List.length_cons, List.length_nil] at htape <;> try omega
  exact ⟨blind, sT, rest, rfl, coreCommit_eq cs Q2 Js cms apiId blind sT rest hJ (by omega)⟩

/-- Combined: on well-shaped inputs, if the challenge hash does not fail, `core_commit` returns a
commitment and `core_commit_verify` accepts it. -/
theorem commit_succeeds_and_verifies (cs : Suite G1) (Q2 : G1) (Js : List G1) (cms : List S)
    (apiId : Option Bytes) (tape : List S)
    (hJ : Js.length = cms.length) (htape : cms.length + 2 ≤ tape.length)
    (hH : ∀ msg, ∃ s, hashToScalar env cs msg (apiId.getD [] ++ cs.h2s) = .ok s) :
    ∃ c blind, coreCommit env cs (Q2 :: Js) (some cms) apiId tape = .ok (c, blind) ∧
      coreCommitVerify env cs c.commitment c.proof (Q2 :: Js) apiId = .ok () := by
  obtain ⟨blind, sT, rest, rfl, heq⟩ := commit_succeeds (env := env) cs Q2 Js cms apiId tape hJ htape
  obtain ⟨s, hs⟩ := hH (blindChallengeInput env (sumZip (blind • Q2) Js cms)
    (sumZip (sT • Q2) Js (rest.take cms.length)) (Q2 :: Js))
  rw [hs, Res.bind_ok] at heq
  exact ⟨_, _, heq, commit_verify cs _ cms apiId _ _ _ heq⟩

/-- API level: `commit` with a tape of at least `M + 2` scalars returns `Ok` as soon as its
three hash-dependent steps do (message hashing, generator creation, the challenge hash). -/
theorem commit_api_succeeds (cs : Suite G1) (cmsgs : Option (List Bytes)) (tape : List S)
    (cms : List S) (bg : Generators G1)
    (hm : messagesToScalar env cs (cmsgs.getD []) cs.apiIdBlind = .ok cms)
    (hg : Generators.create env cs (cms.length + 1)
      (some (Bytes.ofAscii "BLIND_" ++ cs.apiIdBlind)) = .ok bg)
    (htape : (cmsgs.getD []).length + 2 ≤ tape.length)
    (hH : ∀ msg, ∃ s, hashToScalar env cs msg (cs.apiIdBlind ++ cs.h2s) = .ok s) :
    ∃ c blind, commit env cs cmsgs tape = .ok (c, blind) := by
  have hlen := messagesToScalar_length cs _ _ cms hm
  have hbl := (create_shape cs _ _ bg hg).2
  cases hv : bg.values with
  | nil => rw [hv] at hbl; simp at hbl
  | cons Q2 Js =>
    rw [hv] at hbl
    obtain ⟨blind, sT, rest, rfl, heq⟩ := commit_succeeds (env := env) cs Q2 Js cms
      (some cs.apiIdBlind) tape (by simpa using hbl) (by omega)
    unfold commit commitWith
    simp only [Option.getD_some, hm, hg, hv]
    rw [heq]
    obtain ⟨s, hs⟩ := hH (blindChallengeInput env (sumZip (blind • Q2) Js cms)
      (sumZip (sT • Q2) Js (rest.take cms.length)) (Q2 :: Js))
    simp only [Option.getD_some, hs, Res.bind_ok]
    exact ⟨_, _, rfl⟩

/-! ### 2. the commitment codec -/

/-- **Commitment round trip.** Every commitment (any point, the identity included; any number
`M` of responses) survives its encoding, which is `48 + 32 (M + 2)` octets long. -/
theorem commitment_roundtrip (hl : Lawful env pair) (c : Commitment S G1) :
    Commitment.fromBytes env (c.toBytes env) = .ok c ∧
      (c.toBytes env).length = 48 + 32 * (c.proof.mCap.length + 2) :=
  ⟨Blind.commitment_roundtrip hl c, commitment_toBytes_length hl c⟩

/-- The commitment returned by `commit` for `M` committed messages has `M` responses, hence
`48 + 32 (M + 2)` octets. -/
theorem commit_len (hl : Lawful env pair) (cs : Suite G1) (cmsgs : Option (List Bytes))
    (tape : List S) (c : Commitment S G1) (blind : S)
    (h : commit env cs cmsgs tape = .ok (c, blind)) :
    (c.toBytes env).length = 48 + 32 * ((cmsgs.getD []).length + 2) := by
  obtain ⟨cms, _, _, _, _, _, _, _, hlen, hmc, _, _⟩ := commit_ok_inv cs cmsgs tape c blind h
  rw [commitment_toBytes_length hl, hmc, hlen]

/-! ### 3. the signer's length arithmetic and the generator lists -/

/-- **Length arithmetic of `blind_sign`.** From a commitment of `48 + 32 (M + 2)` octets the
signer derives `M + 1` and creates `M + 2` blind generators; from the empty string, `0` and one
blind generator; exactly the non-empty strings shorter than 80 octets are rejected on length. -/
theorem blind_length_arith :
    (∀ M, blindSignM (48 + 32 * (M + 2)) = some (M + 1)) ∧ blindSignM 0 = some 0 ∧
      (∀ n, blindSignM n = none ↔ 0 < n ∧ n < 80) ∧
      (∀ n, 80 ≤ n → blindSignM n = some ((n - 80) / 32)) :=
  ⟨blindSignM_commit, blindSignM_zero, blindSignM_none_iff, blindSignM_ge⟩

/-- **Generator prefix.** The first `k` of `n` generators are the `k` generators created with
the same api id. -/
theorem generators_prefix (cs : Suite G1) (n : Nat) (apiId : Option Bytes) (g : Generators G1)
    (h : Generators.create env cs n apiId = .ok g) (k : Nat) (hk : k ≤ n) :
    Generators.create env cs k apiId = .ok ⟨g.base, g.values.take k⟩ :=
  create_prefix cs n apiId g h k hk

/-- **The signer's and the verifier's generator lists coincide.** The signer creates `M + 2`
blind generators `Q2 :: tail` and puts `Hs ++ [Q2] ++ tail.dropLast` into the domain
(`finalize_blind_sign`); the prover and the verifier create `M + 1` blind generators, and these
are exactly `Q2 :: tail.dropLast`, so `prepare_parameters` yields `Q1 :: Hs ++ Q2 :: J_1..J_M`,
the same list. -/
theorem blind_generators_agree (cs : Suite G1) (M : Nat) (apiId : Option Bytes)
    (bgens bg : Generators G1)
    (hs : Generators.create env cs (M + 2) apiId = .ok bgens)
    (hv : Generators.create env cs (M + 1) apiId = .ok bg) :
    ∃ Q2 tail, bgens.values = Q2 :: tail ∧ tail.length = M + 1 ∧
      bg.values = Q2 :: tail.dropLast ∧ bg.base = bgens.base := by
  have hp := create_prefix cs _ _ bgens hs (M + 1) (by omega)
  rw [hv] at hp
  simp only [Res.ok.injEq] at hp
  have hbl := (create_shape cs _ _ bgens hs).2
  cases hvals : bgens.values with
  | nil => rw [hvals] at hbl; simp at hbl
  | cons Q2 tail =>
    rw [hvals] at hbl
    simp only [List.length_cons] at hbl
    refine ⟨Q2, tail, rfl, by omega, ?_, by rw [hp]⟩
    rw [hp]; simp only [hvals]
    rw [List.take_succ_cons, List.dropLast_eq_take]
    congr 2; omega

/-! ### 4. blind signing -/

/-- **The signer accepts an honest commitment.** With the blind generators `blind_sign` creates,
`deserialize_and_validate_commit` returns the commitment point of an honest commitment. -/
theorem commit_accepted (hl : Lawful env pair) (cs : Suite G1) (cmsgs : Option (List Bytes))
    (tape : List S) (c : Commitment S G1) (blind : S)
    (h : commit env cs cmsgs tape = .ok (c, blind)) (bgens : Generators G1)
    (hb : Generators.create env cs ((cmsgs.getD []).length + 2)
      (some (Bytes.ofAscii "BLIND_" ++ cs.apiIdBlind)) = .ok bgens) :
    deserializeAndValidateCommit env cs (some (c.toBytes env)) bgens (some cs.apiIdBlind)
      = .ok c.commitment :=
  deserialize_honest hl cs cmsgs tape c blind h bgens hb

/-- **`blind_sign` never rejects an honest commitment**: on the serialization of a commitment
returned by `commit` it is the rest of the computation with `C = c.commitment` (generator
creation, message hashing, `calculate_b`, `finalize_blind_sign`); the length check and the
commitment proof check always pass. -/
theorem blind_sign_honest_eq (hl : Lawful env pair) (cs : Suite G1) (sk : S) (pk : G2)
    (msgs cmsgs : Option (List Bytes)) (header : Option Bytes) (tape : List S)
    (c : Commitment S G1) (blind : S)
    (hc : commit env cs cmsgs tape = .ok (c, blind)) :
    blindSign env cs sk pk (some (c.toBytes env)) header msgs =
      (Generators.create env cs ((msgs.getD []).length + 1) (some cs.apiIdBlind) >>= fun gens =>
       Generators.create env cs ((cmsgs.getD []).length + 2)
          (some (Bytes.ofAscii "BLIND_" ++ cs.apiIdBlind)) >>= fun bgens =>
       messagesToScalar env cs (msgs.getD []) cs.apiIdBlind >>= fun ms =>
       calculateB gens (some c.commitment) ms >>= fun B =>
       finalizeBlindSign env cs sk pk B gens bgens header (some cs.apiIdBlind)) := by
  unfold blindSign
  simp only [Option.getD_some]
  rw [commit_len hl cs cmsgs tape c blind hc, blindSignM_commit]
  simp only
  cases hgens : Generators.create env cs ((msgs.getD []).length + 1) (some cs.apiIdBlind) with
  | err => rfl
  | panic => rfl
  | ok gens =>
    simp only [Res.bind_ok]
    cases hb : Generators.create env cs ((cmsgs.getD []).length + 1 + 1)
        (some (Bytes.ofAscii "BLIND_" ++ cs.apiIdBlind)) with
    | err => rfl
    | panic => rfl
    | ok bgens =>
      simp only [Res.bind_ok]
      rw [deserialize_honest hl cs cmsgs tape c blind hc bgens hb]
      simp only
      cases messagesToScalar env cs (msgs.getD []) cs.apiIdBlind with
      | err => rfl
      | panic => rfl
      | ok ms =>
        simp only [Res.bind_ok]
        cases calculateB gens (some c.commitment) ms <;> rfl

/-- **Blind issuance completeness.** If `commit` returns `(c, blind)` for the committed messages
and `blind_sign` returns a signature over the serialized commitment `c`, then
`verify_blind_sign` accepts it with the signer messages, the committed messages and `blind`. -/
theorem blind_sign_verify (hl : Lawful env pair) (cs : Suite G1) (sk : S)
    (msgs cmsgs : Option (List Bytes)) (header : Option Bytes) (tape : List S)
    (c : Commitment S G1) (blind : S) (σ : Signature S G1)
    (hc : commit env cs cmsgs tape = .ok (c, blind))
    (hs : blindSign env cs sk (skToPk env sk) (some (c.toBytes env)) header msgs = .ok σ) :
    verifyBlindSign env cs σ (skToPk env sk) header msgs cmsgs (some blind) = .ok () := by
  obtain ⟨cms, bg, Q2, Js, hm, hg, hbg, hJ, hlen, hmc, hC, hv⟩ := commit_ok_inv cs cmsgs tape c blind hc
  unfold blindSign at hs
  simp only [Option.getD_some, skToPk] at hs ⊢
  rw [commitment_toBytes_length hl, blindSignM_commit] at hs
  simp only at hs
  cases hgens : Generators.create env cs ((msgs.getD []).length + 1) (some cs.apiIdBlind) with
  | err => rw [hgens] at hs; cases hs
  | panic => rw [hgens] at hs; cases hs
  | ok gens =>
    rw [hgens] at hs; simp only at hs
    cases hb : Generators.create env cs (c.proof.mCap.length + 1 + 1)
        (some (Bytes.ofAscii "BLIND_" ++ cs.apiIdBlind)) with
    | err => rw [hb] at hs; cases hs
    | panic => rw [hb] at hs; cases hs
    | ok bgens =>
      rw [hb] at hs; simp only at hs
      have hb' : Generators.create env cs ((cmsgs.getD []).length + 2)
          (some (Bytes.ofAscii "BLIND_" ++ cs.apiIdBlind)) = .ok bgens := by
        rw [← hlen, ← hmc]; exact hb
      rw [deserialize_honest hl cs cmsgs tape c blind hc bgens hb'] at hs
      simp only at hs
      cases hms : messagesToScalar env cs (msgs.getD []) cs.apiIdBlind with
      | err => rw [hms] at hs; cases hs
      | panic => rw [hms] at hs; cases hs
      | ok ms =>
        rw [hms] at hs; simp only at hs
        cases hB : calculateB gens (some c.commitment) ms with
        | err => rw [hB] at hs; cases hs
        | panic => rw [hB] at hs; cases hs
        | ok B =>
          rw [hB] at hs; simp only at hs
          obtain ⟨Q1, Hs, hgv, hHs, rfl⟩ := calculateB_ok gens _ ms B hB
          obtain ⟨Q1', Hs', Q2', bgTail, domain, hgv', hbv, hd, hz, hA⟩ :=
            finalizeBlindSign_ok hl cs sk _ _ gens bgens header _ σ hs
          rw [hgv] at hgv'
          obtain ⟨rfl, rfl⟩ := List.cons.inj hgv'
          -- the commit's blind generators are a prefix of the signer's
          have hp := create_prefix cs _ _ bgens hb' ((cmsgs.getD []).length + 1) (by omega)
          rw [hg] at hp
          simp only [Res.ok.injEq] at hp
          have hbl := (create_shape cs _ _ bgens hb').2
          have hbgv : Q2 :: Js = Q2' :: bgTail.dropLast := by
            rw [← hbg, hp]; simp only
            rw [hbv] at hbl ⊢
            simp only [List.length_cons] at hbl
            rw [List.take_succ_cons, List.dropLast_eq_take]
            congr 2; omega
          obtain ⟨rfl, rfl⟩ := List.cons.inj hbgv
          unfold verifyBlindSign
          simp only [Option.getD_some]
          rw [prepareParameters_eq cs _ _ _ _ _ _ ms cms gens bg hms hm hgens hg]
          simp only
          rw [coreVerify_ok_iff hl]
          refine ⟨Q1, Hs ++ Q2 :: bgTail.dropLast, domain, by simp [hgv, hbg], ?_, by simpa using hd, ?_⟩
          · simp [hHs, hJ]
          · rw [hA, calcB_eq_msm, msm_append _ _ _ _ hHs, hC, (create_shape cs _ _ gens hgens).1]
            simp only [List.singleton_append, msm_cons]
            module

/-- **Blind issuance without a commitment.** A blind signature issued with no commitment
(`commitment_with_proof = None`) verifies with no committed messages and no blinding factor. -/
theorem blind_sign_verify_no_commitment (hl : Lawful env pair) (cs : Suite G1) (sk : S)
    (msgs : Option (List Bytes)) (header : Option Bytes) (σ : Signature S G1)
    (hs : blindSign env cs sk (skToPk env sk) none header msgs = .ok σ) :
    verifyBlindSign env cs σ (skToPk env sk) header msgs none none = .ok () := by
  unfold blindSign at hs
  simp only [Option.getD_none, List.length_nil, blindSignM_zero, skToPk] at hs ⊢
  cases hgens : Generators.create env cs ((msgs.getD []).length + 1) (some cs.apiIdBlind) with
  | err => rw [hgens] at hs; cases hs
  | panic => rw [hgens] at hs; cases hs
  | ok gens =>
    rw [hgens] at hs; simp only at hs
    cases hb : Generators.create env cs (0 + 1)
        (some (Bytes.ofAscii "BLIND_" ++ cs.apiIdBlind)) with
    | err => rw [hb] at hs; cases hs
    | panic => rw [hb] at hs; cases hs
    | ok bgens =>
      rw [hb] at hs; simp only at hs
      have hdes : deserializeAndValidateCommit env cs (some []) bgens (some cs.apiIdBlind)
          = .ok 0 := by simp [deserializeAndValidateCommit]
      rw [hdes] at hs; simp only at hs
      cases hms : messagesToScalar env cs (msgs.getD []) cs.apiIdBlind with
      | err => rw [hms] at hs; cases hs
      | panic => rw [hms] at hs; cases hs
      | ok ms =>
        rw [hms] at hs; simp only at hs
        cases hB : calculateB gens (some 0) ms with
        | err => rw [hB] at hs; cases hs
        | panic => rw [hB] at hs; cases hs
        | ok B =>
          rw [hB] at hs; simp only at hs
          obtain ⟨Q1, Hs, hgv, hHs, rfl⟩ := calculateB_ok gens _ ms B hB
          obtain ⟨Q1', Hs', Q2, bgTail, domain, hgv', hbv, hd, hz, hA⟩ :=
            finalizeBlindSign_ok hl cs sk _ _ gens bgens header _ σ hs
          rw [hgv] at hgv'
          obtain ⟨rfl, rfl⟩ := List.cons.inj hgv'
          have hbl := (create_shape cs _ _ bgens hb).2
          have hnil : bgTail = [] := by
            rw [hbv] at hbl; simpa using hbl
          subst hnil
          unfold verifyBlindSign
          simp only [Option.getD_none, List.length_nil]
          have hm0 : messagesToScalar env cs [] cs.apiIdBlind = .ok ([] : List S) := rfl
          rw [prepareParameters_eq cs _ _ _ _ _ _ ms [] gens bgens hms hm0 hgens hb]
          simp only
          rw [coreVerify_ok_iff hl]
          refine ⟨Q1, Hs ++ [Q2], domain, by simp [hgv, hbv], ?_, by simpa using hd, ?_⟩
          · simp [hHs]
          · rw [hA, calcB_eq_msm, msm_append _ _ _ _ hHs, (create_shape cs _ _ gens hgens).1]
            simp only [List.append_nil, msm_cons, msm_nil_left]
            module

/-- `None` and the explicit defaults are indistinguishable to `verify_blind_sign`. -/
theorem verifyBlindSign_none_eq_default (cs : Suite G1) (σ : Signature S G1) (pk : G2)
    (header : Option Bytes) (msgs : Option (List Bytes)) :
    verifyBlindSign env cs σ pk header msgs none none
      = verifyBlindSign env cs σ pk header msgs (some []) (some 0) := rfl

/-! ### 5. blind proof generation and verification -/

/-- **Blind proof completeness.** Let `σ` be a blind signature that `verify_blind_sign` accepts
for signer messages `msgs` (`L` of them), committed messages `cmsgs` (`M` of them) and blinding
factor `blind`, under the key pair `(sk, sk • BP2)`. For every pair of disclosure choices
`di ⊆ [0, L)`, `dci ⊆ [0, M)` (any order; at most `L` resp. `M` entries, which the Rust checks
before deduplicating) and every good tape, `blind_proof_gen` (fed the 80-byte encoding of `σ`)
returns a proof `π` that `blind_proof_verify` accepts when given `L`, the signer messages at the
positions `sortDedup di`, the committed messages at the positions `sortDedup dci`, and the two
index lists (sorted or as originally given), the same header and presentation header.
`π` carries `U = L + 1 + M − R1 − R2` responses (the blinding factor is never disclosed), is
`272 + 32 U` octets long and survives its encoding. -/
theorem blind_proof_complete (hl : Lawful env pair) (cs : Suite G1) (sk : S) (σ : Signature S G1)
    (msgs cmsgs : List Bytes) (blind : Option S) (di dci : List Nat)
    (header ph : Option Bytes) (tape : List S)
    (hver : verifyBlindSign env cs σ (sk • env.bp2) header (some msgs) (some cmsgs) blind = .ok ())
    (hdi : ∀ i ∈ di, i < msgs.length) (hdci : ∀ j ∈ dci, j < cmsgs.length)
    (hdiL : di.length ≤ msgs.length) (hdciL : dci.length ≤ cmsgs.length)
    (h64 : msgs.length + 1 + cmsgs.length < 2 ^ 64)
    (hsk : sk ≠ 0) (hA : σ.A ≠ 0) (he : σ.e ≠ 0) (hske : sk + σ.e ≠ 0)
    (htape : 5 + (msgs.length + 1 + cmsgs.length
      - ((sortDedup di).length + (sortDedup dci).length)) ≤ tape.length)
    (hr1 : tape[0]? ≠ some 0) (hr2 : tape[1]? ≠ some 0)
    (hH : HashTotal env cs (cs.apiIdBlind ++ cs.h2s)) :
    ∃ π, blindProofGen env cs (sk • env.bp2) (σ.toBytes env) header ph (some msgs) (some cmsgs)
          (some di) (some dci) blind tape = .ok π ∧
      blindProofVerify env cs π (sk • env.bp2) header ph (some msgs.length)
          (some ((sortDedup di).map fun i => msgs.getD i []))
          (some ((sortDedup dci).map fun j => cmsgs.getD j []))
          (some (sortDedup di)) (some (sortDedup dci)) = .ok () ∧
      blindProofVerify env cs π (sk • env.bp2) header ph (some msgs.length)
          (some ((sortDedup di).map fun i => msgs.getD i []))
          (some ((sortDedup dci).map fun j => cmsgs.getD j []))
          (some di) (some dci) = .ok () ∧
      π.mCap.length
        = msgs.length + 1 + cmsgs.length - ((sortDedup di).length + (sortDedup dci).length) ∧
      PoKSignature.fromBytes env (π.toBytes env) = .ok π ∧
      (π.toBytes env).length = 272 + 32 * (msgs.length + 1 + cmsgs.length
        - ((sortDedup di).length + (sortDedup dci).length)) := by
  have hσ := (C01.sig_roundtrip hl σ hA he).2
  have hsd := sortDedup_blind_indexes msgs.length di dci (fun i hi => by have := hdi i hi; omega)
  have hcore : ∀ (gens : Generators G1) (allms : List S),
      coreVerify env cs (sk • env.bp2) σ allms gens header (some cs.apiIdBlind) = .ok () →
      allms.length = msgs.length + 1 + cmsgs.length →
      ∃ π, coreProofGen env cs (sk • env.bp2) σ gens allms
            (di ++ dci.map fun j => j + msgs.length + 1) header ph (some cs.apiIdBlind) tape
            = .ok π ∧
        coreProofVerify env cs (sk • env.bp2) π gens header ph
          ((sortDedup (di ++ dci.map fun j => j + msgs.length + 1)).map fun i => allms.getD i 0)
          (sortDedup (di ++ dci.map fun j => j + msgs.length + 1)) (some cs.apiIdBlind) = .ok () ∧
        π.mCap.length
          = allms.length - (sortDedup (di ++ dci.map fun j => j + msgs.length + 1)).length ∧
        (π.Abar ≠ 0 ∧ π.Bbar ≠ 0 ∧ π.D ≠ 0) := by
    intro gens allms hv hlen
    exact C03.core_proof_complete hl cs sk σ gens allms _ header ph (some cs.apiIdBlind) tape hv
      (by rw [hlen]; exact blind_indexes_lt _ _ hdi hdci) hsk hA hske
      (by rw [hlen, hsd]; simpa using htape) hr1 hr2 (by simpa using hH)
  obtain ⟨π, hgen, hv1, hU, hne⟩ := blind_proof_complete_of_core cs (sk • env.bp2) σ msgs cmsgs
    blind di dci (sortDedup di) (sortDedup dci) header ph tape
    (fun π => π.Abar ≠ 0 ∧ π.Bbar ≠ 0 ∧ π.D ≠ 0) hver hσ hdi hdci hdiL hdciL
    (sortDedup_idem di) (sortDedup_idem dci) h64 hcore
  obtain ⟨π', hgen', hv2, _, _⟩ := blind_proof_complete_of_core cs (sk • env.bp2) σ msgs cmsgs
    blind di dci di dci header ph tape
    (fun π => π.Abar ≠ 0 ∧ π.Bbar ≠ 0 ∧ π.D ≠ 0) hver hσ hdi hdci hdiL hdciL rfl rfl h64 hcore
  rw [hgen] at hgen'
  obtain rfl := Res.ok.inj hgen'
  exact ⟨π, hgen, hv1, hv2, hU, C03.proof_roundtrip hl π hne.1 hne.2.1 hne.2.2,
    by rw [C03.proof_len hl π, hU]⟩

/-- A signature returned by `blind_sign` (any input) was computed with an invertible `sk + e`.
(Unlike `sign`, `blind_sign` does not check `A ≠ 0`: see the remark at the end of the file.) -/
theorem blind_sign_ske_ne_zero (hl : Lawful env pair) (cs : Suite G1) (sk : S) (pk : G2)
    (cwp header : Option Bytes) (msgs : Option (List Bytes)) (σ : Signature S G1)
    (hs : blindSign env cs sk pk cwp header msgs = .ok σ) : sk + σ.e ≠ 0 := by
  unfold blindSign at hs
  simp only at hs
  cases hM : blindSignM (cwp.getD []).length with
  | none => rw [hM] at hs; cases hs
  | some M =>
    rw [hM] at hs; simp only at hs
    cases hgens : Generators.create env cs ((msgs.getD []).length + 1) (some cs.apiIdBlind) with
    | err => rw [hgens] at hs; cases hs
    | panic => rw [hgens] at hs; cases hs
    | ok gens =>
      rw [hgens] at hs; simp only at hs
      cases hb : Generators.create env cs (M + 1)
          (some (Bytes.ofAscii "BLIND_" ++ cs.apiIdBlind)) with
      | err => rw [hb] at hs; cases hs
      | panic => rw [hb] at hs; cases hs
      | ok bgens =>
        rw [hb] at hs; simp only at hs
        cases hd : deserializeAndValidateCommit env cs (some (cwp.getD [])) bgens
            (some cs.apiIdBlind) with
        | err => rw [hd] at hs; cases hs
        | panic => rw [hd] at hs; cases hs
        | ok C =>
          rw [hd] at hs; simp only at hs
          cases hms : messagesToScalar env cs (msgs.getD []) cs.apiIdBlind with
          | err => rw [hms] at hs; cases hs
          | panic => rw [hms] at hs; cases hs
          | ok ms =>
            rw [hms] at hs; simp only at hs
            cases hB : calculateB gens (some C) ms with
            | err => rw [hB] at hs; cases hs
            | panic => rw [hB] at hs; cases hs
            | ok B =>
              rw [hB] at hs; simp only at hs
              obtain ⟨_, _, _, _, _, _, _, _, hz, _⟩ :=
                finalizeBlindSign_ok hl cs sk _ _ gens bgens header _ σ hs
              exact hz

/-- **The whole blind flow.** Commit, blind-sign the serialized commitment, verify the blind
signature, then disclose any `di ⊆ [0, L)`, `dci ⊆ [0, M)`: the proof is generated and verifies.
Beyond the successful returns of `commit` and `blind_sign` the hypotheses are those of
`blind_proof_complete`. -/
theorem blind_flow_complete (hl : Lawful env pair) (cs : Suite G1) (sk : S)
    (msgs cmsgs : List Bytes) (header ph : Option Bytes) (ctape tape : List S)
    (c : Commitment S G1) (blind : S) (σ : Signature S G1) (di dci : List Nat)
    (hc : commit env cs (some cmsgs) ctape = .ok (c, blind))
    (hs : blindSign env cs sk (sk • env.bp2) (some (c.toBytes env)) header (some msgs) = .ok σ)
    (hdi : ∀ i ∈ di, i < msgs.length) (hdci : ∀ j ∈ dci, j < cmsgs.length)
    (hdiL : di.length ≤ msgs.length) (hdciL : dci.length ≤ cmsgs.length)
    (h64 : msgs.length + 1 + cmsgs.length < 2 ^ 64)
    (hsk : sk ≠ 0) (hA : σ.A ≠ 0) (he : σ.e ≠ 0)
    (htape : 5 + (msgs.length + 1 + cmsgs.length
      - ((sortDedup di).length + (sortDedup dci).length)) ≤ tape.length)
    (hr1 : tape[0]? ≠ some 0) (hr2 : tape[1]? ≠ some 0)
    (hH : HashTotal env cs (cs.apiIdBlind ++ cs.h2s)) :
    verifyBlindSign env cs σ (sk • env.bp2) header (some msgs) (some cmsgs) (some blind) = .ok () ∧
    ∃ π, blindProofGen env cs (sk • env.bp2) (σ.toBytes env) header ph (some msgs) (some cmsgs)
          (some di) (some dci) (some blind) tape = .ok π ∧
      blindProofVerify env cs π (sk • env.bp2) header ph (some msgs.length)
          (some ((sortDedup di).map fun i => msgs.getD i []))
          (some ((sortDedup dci).map fun j => cmsgs.getD j []))
          (some di) (some dci) = .ok () := by
  have hv := blind_sign_verify hl cs sk (some msgs) (some cmsgs) header ctape c blind σ hc hs
  simp only [skToPk] at hv
  refine ⟨hv, ?_⟩
  obtain ⟨π, h1, _, h3, _⟩ := blind_proof_complete hl cs sk σ msgs cmsgs (some blind) di dci
    header ph tape hv hdi hdci hdiL hdciL h64 hsk hA he
    (blind_sign_ske_ne_zero hl cs sk _ _ header _ σ hs) htape hr1 hr2 hH
  exact ⟨π, h1, h3⟩

/-- The hypotheses of `blind_proof_complete` are satisfiable whenever a verifying blind signature
with `A ≠ 0`, `e ≠ 0` exists: e.g. disclose nothing, with a constant non-zero tape. -/
example (hl : Lawful env pair) (cs : Suite G1) (sk : S) (σ : Signature S G1)
    (msgs cmsgs : List Bytes) (blind : Option S) (header ph : Option Bytes)
    (hver : verifyBlindSign env cs σ (sk • env.bp2) header (some msgs) (some cmsgs) blind = .ok ())
    (h64 : msgs.length + 1 + cmsgs.length < 2 ^ 64)
    (hsk : sk ≠ 0) (hA : σ.A ≠ 0) (he : σ.e ≠ 0) (hske : sk + σ.e ≠ 0)
    (hH : HashTotal env cs (cs.apiIdBlind ++ cs.h2s)) :
    ∃ π, blindProofGen env cs (sk • env.bp2) (σ.toBytes env) header ph (some msgs) (some cmsgs)
        (some []) (some []) blind (List.replicate (5 + (msgs.length + 1 + cmsgs.length)) 1)
        = .ok π :=
  (blind_proof_complete hl cs sk σ msgs cmsgs blind [] [] header ph _ hver (by simp) (by simp)
    (by simp) (by simp) h64 hsk hA he hske (by simp)
    (by rw [List.getElem?_replicate]; split <;> simp)
    (by rw [List.getElem?_replicate]; split <;> simp) hH).imp fun _ h => h.1

/-! ### absent = empty -/

/-- `None` and the explicit defaults are indistinguishable to `blind_proof_gen` and
`blind_proof_verify` (messages, committed messages, index lists, blinding factor, `L`). -/
theorem blindProofGen_none_eq_default (cs : Suite G1) (pk : G2) (signature : Bytes)
    (header ph : Option Bytes) (tape : List S) :
    blindProofGen env cs pk signature header ph none none none none none tape
      = blindProofGen env cs pk signature header ph (some []) (some []) (some []) (some [])
          (some 0) tape := rfl

theorem blindProofVerify_none_eq_default (cs : Suite G1) (π : PoKSignature S G1) (pk : G2)
    (header ph : Option Bytes) :
    blindProofVerify env cs π pk header ph none none none none none
      = blindProofVerify env cs π pk header ph (some 0) (some []) (some []) (some []) (some [])
      := rfl

theorem commit_none_eq_empty (cs : Suite G1) (tape : List S) :
    commit env cs none tape = commit env cs (some []) tape := rfl

theorem blindSign_none_eq_empty (cs : Suite G1) (sk : S) (pk : G2) (header : Option Bytes) :
    blindSign env cs sk pk none header none = blindSign env cs sk pk (some []) header (some [])
      := rfl

/-! ### Remark on `finalize_blind_sign`

`calculate_b` rejects `B = P1 + Σ mᵢ•Hᵢ + C = 0`, but `finalize_blind_sign` then adds
`domain • Q1` and neither the new `B` nor `A = (sk+e)⁻¹ • B` is compared with the identity
(`core_sign` does check `A`). A blind signature with `A = 0` is accepted by `verify_blind_sign`
(consistently with `blind_sign_verify`) but its 80-byte encoding is rejected by
`BBSplusSignature::from_bytes`, hence by `blind_proof_gen`; the same for `e = 0`. This needs
`P1 + Σ mᵢ•Hᵢ + C + domain•Q1 = 0` resp. a zero hash output, so it is a negligible-probability
event; it is why `blind_proof_complete` assumes `σ.A ≠ 0` and `σ.e ≠ 0`. -/

end Zk.C05
