/-
C14 (addendum): `extend_commitment_with_commitment_pk` and `CL03Message::map_message_to_integer_as_hash`.

Model: `Zk.Cl.extendCpkLoop`, `Zk.Cl.extendCommitmentWithCpk`, `Zk.Cl.mapMessageToIntegerAsHash`
(/repo/src/cl03/commitment.rs, /repo/src/utils/message.rs).

The product is stated with `ClSigma.rep gBases msgs ix = Π_{i ∈ ix} gBases[i]^{msgs[i]}` (which is
`ClSigma.repZip gBases ix (ix.map (msgs.getD · 0))`, see `rep_eq_repZip`).

Nonnegativity of the messages is only required at the positions that are actually read
(`∀ i ∈ ix, 0 ≤ msgs.getD i 0`); `∀ m ∈ msgs, 0 ≤ m` implies it (`nonneg_at_of_all`).
-/
import ZkProofs.Lemmas.ClSigma
import ZkProofs.Lemmas.ClRange

set_option linter.unusedVariables false

namespace Zk.C14Extend
open Zk.IA Zk.Cl

/-! ### helpers -/

/-- `∀ m ∈ msgs, 0 ≤ m` implies the positional hypothesis used below (out-of-range positions read the
default `0`). -/
theorem nonneg_at_of_all {msgs : List Int} (h : ∀ m ∈ msgs, 0 ≤ m) (ix : List Nat) :
    ∀ i ∈ ix, 0 ≤ msgs.getD i 0 := by
  intro i _
  rw [List.getD_eq_getElem?_getD]
  cases hi : msgs[i]? with
  | none => simp
  | some m => exact h m (List.mem_of_getElem? hi)

/-- The product over positions is the zipped product with the selected messages. -/
theorem rep_eq_repZip (gBases msgs : List Int) (ix : List Nat) :
    ClSigma.rep gBases msgs ix = ClSigma.repZip gBases ix (ix.map fun i => msgs.getD i 0) :=
  (ClSigma.repZip_pick gBases msgs ix).symm

private theorem idx_none_panic {α} {l : List α} {i : Nat} (h : l[i]? = none) (t : List Draw) :
    idx l i t = .panic := by
  unfold idx; rw [h]; rfl

private theorem idx_ok_or_panic {α} (l : List α) (i : Nat) (t : List Draw) :
    (∃ a, l[i]? = some a ∧ idx l i t = .ok (a, t)) ∨ (l[i]? = none ∧ idx l i t = .panic) := by
  cases h : l[i]? with
  | none => exact Or.inr ⟨rfl, idx_none_panic h t⟩
  | some a => exact Or.inl ⟨a, rfl, ClSigma.idx_run h t⟩

private theorem pw_ok_or_panic (b e n : Int) (t : List Draw) :
    (∃ x, pw b e n t = .ok (x, t)) ∨ pw b e n t = .panic := by
  unfold pw
  cases powMod b e n with
  | none => exact Or.inr rfl
  | some x => exact Or.inl ⟨x, rfl⟩

private theorem bind_of_panic {α β} {x : M α} {f : α → M β} {t : List Draw}
    (h : x t = .panic) : (x >>= f) t = .panic := by
  rw [ClSigma.bind_run, h]

/-! ### 1./2. the loop -/

/-- **Loop, elimination.** A successful run of the loop of `extend_commitment_with_commitment_pk` consumes
no randomness, every index it visited is in range of BOTH the bases and the message list (messages are read
by attribute position `i`), and the result is `acc · Π_{i ∈ ix} gBases[i]^{msgs[i]}` modulo `N`. -/
theorem extendCpkLoop_elim (hA : ArithOK) {N : Int} {gBases msgs : List Int} :
    ∀ (ix : List Nat) (acc x : Int) (t t' : List Draw),
      (∀ i ∈ ix, 0 ≤ msgs.getD i 0) →
      extendCpkLoop N gBases msgs ix acc t = .ok (x, t') →
      t' = t ∧ (∀ i ∈ ix, i < gBases.length ∧ i < msgs.length) ∧
        x ≡ acc * ClSigma.rep gBases msgs ix [ZMOD N] := by
  intro ix
  induction ix with
  | nil =>
    intro acc x t t' _ h
    simp only [extendCpkLoop, ClSigma.pure_ok_iff] at h
    obtain ⟨rfl, rfl⟩ := h
    simp [Int.ModEq]
  | cons i is ih =>
    intro acc x t t' hm h
    simp only [extendCpkLoop, ClSigma.bind_ok_iff, ClSigma.idx_ok_iff] at h
    obtain ⟨a, t1, ⟨ha, rfl⟩, m, t2, ⟨hmi, rfl⟩, y, t3, hy, hrest⟩ := h
    obtain ⟨ha1, ha2⟩ := ClSigma.getElem?_getD ha 1
    obtain ⟨hm1, hm2⟩ := ClSigma.getElem?_getD hmi 0
    have hm0 : 0 ≤ m := by rw [← hm1]; exact hm i List.mem_cons_self
    obtain ⟨rfl, hN, rfl⟩ := ClSigma.pw_elim_nonneg hA hm0 hy
    obtain ⟨rfl, hr, hx⟩ := ih _ _ _ _ (fun j hj => hm j (List.mem_cons_of_mem _ hj)) hrest
    refine ⟨rfl, ?_, ?_⟩
    · intro j hj
      rcases List.mem_cons.1 hj with rfl | hj
      · exact ⟨ha2, hm2⟩
      · exact hr j hj
    · rw [ClSigma.rep_cons, ha1, hm1]
      refine hx.trans ?_
      rw [← mul_assoc]
      exact ((ClSigma.tmod_modEq _ _).trans ((Int.mod_modEq _ _).mul_left acc)).mul_right _

/-- The same with the product written as `repZip gBases ix (ix.map (msgs.getD · 0))` and the blanket
hypothesis "all messages are nonnegative". -/
theorem extendCpkLoop_elim' (hA : ArithOK) {N : Int} {gBases msgs : List Int}
    (hm : ∀ m ∈ msgs, 0 ≤ m) {ix : List Nat} {acc x : Int} {t t' : List Draw}
    (h : extendCpkLoop N gBases msgs ix acc t = .ok (x, t')) :
    t' = t ∧ (∀ i ∈ ix, i < gBases.length ∧ i < msgs.length) ∧
      x ≡ acc * ClSigma.repZip gBases ix (ix.map fun i => msgs.getD i 0) [ZMOD N] := by
  rw [← rep_eq_repZip]
  exact extendCpkLoop_elim hA ix acc x t t' (nonneg_at_of_all hm ix) h

/-- The range part of `extendCpkLoop_elim` needs no hypothesis at all (no `ArithOK`, no sign condition):
a successful run only visited positions that exist in both lists. -/
theorem extendCpkLoop_ok_range {N : Int} {gBases msgs : List Int} :
    ∀ (ix : List Nat) (acc x : Int) (t t' : List Draw),
      extendCpkLoop N gBases msgs ix acc t = .ok (x, t') →
      ∀ i ∈ ix, i < gBases.length ∧ i < msgs.length := by
  intro ix
  induction ix with
  | nil => intro acc x t t' _ i hi; cases hi
  | cons i is ih =>
    intro acc x t t' h
    simp only [extendCpkLoop, ClSigma.bind_ok_iff, ClSigma.idx_ok_iff] at h
    obtain ⟨a, t1, ⟨ha, rfl⟩, m, t2, ⟨hmi, rfl⟩, y, t3, hy, hrest⟩ := h
    intro j hj
    rcases List.mem_cons.1 hj with rfl | hj
    · exact ⟨(ClSigma.getElem?_getD ha 1).2, (ClSigma.getElem?_getD hmi 0).2⟩
    · exact ih _ _ _ _ hrest j hj

/-- The loop never reports a tape error: it draws no randomness, so its outcome is `ok` on the unchanged
tape or `panic`. -/
theorem extendCpkLoop_ok_or_panic {N : Int} {gBases msgs : List Int} :
    ∀ (ix : List Nat) (acc : Int) (t : List Draw),
      (∃ x, extendCpkLoop N gBases msgs ix acc t = .ok (x, t)) ∨
        extendCpkLoop N gBases msgs ix acc t = .panic := by
  intro ix
  induction ix with
  | nil => intro acc t; exact Or.inl ⟨acc, rfl⟩
  | cons i is ih =>
    intro acc t
    simp only [extendCpkLoop]
    rcases idx_ok_or_panic gBases i t with ⟨a, -, ha⟩ | ⟨-, ha⟩
    · rw [ClSigma.bind_of_ok ha]
      rcases idx_ok_or_panic msgs i t with ⟨m, -, hm⟩ | ⟨-, hm⟩
      · rw [ClSigma.bind_of_ok hm]
        rcases pw_ok_or_panic a m N t with ⟨y, hy⟩ | hy
        · rw [ClSigma.bind_of_ok hy]; exact ih _ t
        · exact Or.inr (bind_of_panic hy)
      · exact Or.inr (bind_of_panic hm)
    · exact Or.inr (bind_of_panic ha)

/-- **Loop, totality.** For a positive modulus, nonnegative messages (at the visited positions) and
indexes in range of both lists, the loop returns a value and leaves the tape unchanged. -/
theorem extendCpkLoop_run (hA : ArithOK) {N : Int} {gBases msgs : List Int} (hN : 0 < N) :
    ∀ (ix : List Nat) (acc : Int) (t : List Draw),
      (∀ i ∈ ix, 0 ≤ msgs.getD i 0) →
      (∀ i ∈ ix, i < gBases.length ∧ i < msgs.length) →
      ∃ x, extendCpkLoop N gBases msgs ix acc t = .ok (x, t) := by
  intro ix
  induction ix with
  | nil => intro acc t _ _; exact ⟨acc, rfl⟩
  | cons i is ih =>
    intro acc t hm hix
    obtain ⟨hi, hk⟩ := hix i List.mem_cons_self
    have hm0 : 0 ≤ msgs.getD i 0 := hm i List.mem_cons_self
    obtain ⟨x, hx⟩ := ih (tmod (acc * (gBases.getD i 1 ^ (msgs.getD i 0).toNat % N)) N) t
      (fun j hj => hm j (List.mem_cons_of_mem _ hj)) (fun j hj => hix j (List.mem_cons_of_mem _ hj))
    refine ⟨x, ?_⟩
    simp only [extendCpkLoop]
    rw [ClSigma.bind_of_ok (ClSigma.idx_run_lt hi 1 t), ClSigma.bind_of_ok (ClSigma.idx_run_lt hk 0 t),
      ClSigma.bind_of_ok (ClSigma.pw_run_nonneg hA hN hm0 t)]
    exact hx

/-- The hypotheses of `extendCpkLoop_run` are satisfiable. -/
example (hA : ArithOK) (t : List Draw) :
    ∃ x, extendCpkLoop 35 [2, 3, 4] [5, 0, 7] [2, 0] 1 t = .ok (x, t) :=
  extendCpkLoop_run hA (by norm_num) _ _ _ (by decide) (by decide)

/-! ### 3. `extend_commitment_with_commitment_pk` -/

/-- **Elimination.** A successful `extend_commitment_with_commitment_pk(messages, cpk, Some(R))` consumes no
randomness, all positions of `R` exist in `cpk.g_bases` and in `messages`, the randomness of the commitment
is untouched and the value is multiplied by `Π_{i ∈ R} g_i^{m_i}` modulo `cpk.N`. -/
theorem extendCpk_elim (hA : ArithOK) {c : Commitment} {msgs : List Int} {cpk : CommitmentPK}
    {R : List Nat} {ext : Commitment} {t t' : List Draw}
    (hm : ∀ i ∈ R, 0 ≤ msgs.getD i 0)
    (h : extendCommitmentWithCpk c msgs cpk (some R) t = .ok (ext, t')) :
    t' = t ∧ (∀ i ∈ R, i < cpk.gBases.length ∧ i < msgs.length) ∧
      ext.randomness = c.randomness ∧
      ext.value ≡ c.value * ClSigma.rep cpk.gBases msgs R [ZMOD cpk.N] := by
  unfold extendCommitmentWithCpk at h
  simp only [Option.getD_some, ClSigma.bind_ok_iff, ClSigma.pure_ok_iff] at h
  obtain ⟨v, t1, hv, rfl, rfl⟩ := h
  obtain ⟨rfl, hin, hve⟩ := extendCpkLoop_elim hA _ _ _ _ _ hm hv
  exact ⟨rfl, hin, rfl, hve⟩

/-- `extendCpk_elim` with the `repZip` form of the product and all messages nonnegative. -/
theorem extendCpk_elim' (hA : ArithOK) {c : Commitment} {msgs : List Int} {cpk : CommitmentPK}
    {R : List Nat} {ext : Commitment} {t t' : List Draw}
    (hm : ∀ m ∈ msgs, 0 ≤ m)
    (h : extendCommitmentWithCpk c msgs cpk (some R) t = .ok (ext, t')) :
    t' = t ∧ (∀ i ∈ R, i < cpk.gBases.length ∧ i < msgs.length) ∧
      ext.randomness = c.randomness ∧
      ext.value ≡ c.value * ClSigma.repZip cpk.gBases R (R.map fun i => msgs.getD i 0)
        [ZMOD cpk.N] := by
  rw [← rep_eq_repZip]
  exact extendCpk_elim hA (nonneg_at_of_all hm R) h

/-- **Totality.** With `0 < cpk.N`, nonnegative messages and all positions of `R` in range of both
`cpk.g_bases` and `messages`, the extension succeeds on the unchanged tape and keeps the randomness. -/
theorem extendCpk_run (hA : ArithOK) (c : Commitment) {msgs : List Int} {cpk : CommitmentPK}
    {R : List Nat} (hN : 0 < cpk.N) (hm : ∀ i ∈ R, 0 ≤ msgs.getD i 0)
    (hin : ∀ i ∈ R, i < cpk.gBases.length ∧ i < msgs.length) (t : List Draw) :
    ∃ ext, extendCommitmentWithCpk c msgs cpk (some R) t = .ok (ext, t) ∧
      ext.randomness = c.randomness ∧
      ext.value ≡ c.value * ClSigma.rep cpk.gBases msgs R [ZMOD cpk.N] := by
  obtain ⟨x, hx⟩ := extendCpkLoop_run hA hN R c.value t hm hin
  have hrun : extendCommitmentWithCpk c msgs cpk (some R) t = .ok (⟨x, c.randomness⟩, t) := by
    unfold extendCommitmentWithCpk
    simp only [Option.getD_some]
    rw [ClSigma.bind_of_ok hx]
    rfl
  obtain ⟨-, -, h1, h2⟩ := extendCpk_elim hA hm hrun
  exact ⟨_, hrun, h1, h2⟩

/-- `revealed_message_indexes = None` means "all positions `0 .. messages.len()`". -/
theorem extendCpk_none (c : Commitment) (msgs : List Int) (cpk : CommitmentPK) :
    extendCommitmentWithCpk c msgs cpk none =
      extendCommitmentWithCpk c msgs cpk (some (List.range msgs.length)) := rfl

/-- With `None` the only range condition left is `messages.len() ≤ g_bases.len()`. -/
theorem extendCpk_none_run (hA : ArithOK) (c : Commitment) {msgs : List Int} {cpk : CommitmentPK}
    (hN : 0 < cpk.N) (hm : ∀ m ∈ msgs, 0 ≤ m) (hlen : msgs.length ≤ cpk.gBases.length)
    (t : List Draw) :
    ∃ ext, extendCommitmentWithCpk c msgs cpk none t = .ok (ext, t) ∧
      ext.randomness = c.randomness ∧
      ext.value ≡ c.value * ClSigma.rep cpk.gBases msgs (List.range msgs.length) [ZMOD cpk.N] := by
  rw [extendCpk_none]
  refine extendCpk_run hA c hN (nonneg_at_of_all hm _) ?_ t
  intro i hi
  have := List.mem_range.1 hi
  omega

/-! ### 4. panics -/

/-- **Panic on a bad first index.** If the first revealed position does not exist in `cpk.g_bases`
(`.expect("Invalid revealed message index!")`) or in `messages` (slice index `messages[i]`), the call
panics — whatever the modulus, the other values and the tape. -/
theorem extendCpk_panics_out_of_range (c : Commitment) (msgs : List Int) (cpk : CommitmentPK)
    (i : Nat) (rest : List Nat) (t : List Draw)
    (hbad : cpk.gBases.length ≤ i ∨ msgs.length ≤ i) :
    extendCommitmentWithCpk c msgs cpk (some (i :: rest)) t = .panic := by
  unfold extendCommitmentWithCpk
  simp only [Option.getD_some]
  apply bind_of_panic
  simp only [extendCpkLoop]
  rcases idx_ok_or_panic cpk.gBases i t with ⟨a, -, ha⟩ | ⟨-, ha⟩
  · rw [ClSigma.bind_of_ok ha]
    rcases hbad with hb | hb
    · have := (ClSigma.idx_ok_iff _ _ _ _ _).1 ha
      have := (List.getElem?_eq_some_iff.1 this.1).1
      omega
    · exact bind_of_panic (idx_none_panic (List.getElem?_eq_none hb) t)
  · exact bind_of_panic ha

/-- **Panic on any bad index.** If ANY revealed position is out of range of `cpk.g_bases` or `messages`
the call panics (possibly earlier, at a `pow_mod(...).unwrap()`); it never succeeds and never reports a
tape error. No hypothesis on the modulus, the messages or the tape. -/
theorem extendCpk_panics_any_out_of_range (c : Commitment) (msgs : List Int) (cpk : CommitmentPK)
    (R : List Nat) (t : List Draw)
    (hbad : ∃ i ∈ R, cpk.gBases.length ≤ i ∨ msgs.length ≤ i) :
    extendCommitmentWithCpk c msgs cpk (some R) t = .panic := by
  unfold extendCommitmentWithCpk
  simp only [Option.getD_some]
  rcases extendCpkLoop_ok_or_panic (N := cpk.N) (gBases := cpk.gBases) (msgs := msgs) R c.value t with
    ⟨x, hx⟩ | hp
  · obtain ⟨i, hi, hb⟩ := hbad
    have := extendCpkLoop_ok_range _ _ _ _ _ hx i hi
    omega
  · exact bind_of_panic hp

/-- The outcome of the extension is never a tape error. -/
theorem extendCpk_ok_or_panic (c : Commitment) (msgs : List Int) (cpk : CommitmentPK)
    (ro : Option (List Nat)) (t : List Draw) :
    (∃ ext, extendCommitmentWithCpk c msgs cpk ro t = .ok (ext, t)) ∨
      extendCommitmentWithCpk c msgs cpk ro t = .panic := by
  unfold extendCommitmentWithCpk
  rcases extendCpkLoop_ok_or_panic (N := cpk.N) (gBases := cpk.gBases) (msgs := msgs)
    (ro.getD (List.range msgs.length)) c.value t with ⟨x, hx⟩ | hp
  · exact Or.inl ⟨⟨x, c.randomness⟩, by rw [ClSigma.bind_of_ok hx]; rfl⟩
  · exact Or.inr (bind_of_panic hp)

/-! ### 5. the two helpers index their message argument differently -/

/-- **Indexing difference.** `extend_commitment_with_pk` reads `revealed_messages[k]` with a running counter
`k`, `extend_commitment_with_commitment_pk` reads `messages[i]` by attribute position. They agree exactly
when the first is given the SELECTED messages `revealed = R.map (messages[·])`: then, for the same bases and
modulus, both results are `c.value · Π_{i ∈ R} g_i^{m_i}` modulo `N` (and keep the randomness). -/
theorem extend_pk_vs_cpk_indexing (hA : ArithOK) {c : Commitment} {msgs revealed : List Int}
    {pk : PublicKey} {bases : List Int} {cpk : CommitmentPK} {R : List Nat}
    {e1 e2 : Commitment} {t1 t1' t2 t2' : List Draw}
    (hm : ∀ i ∈ R, 0 ≤ msgs.getD i 0)
    (hrev : revealed = R.map (fun i => msgs.getD i 0))
    (hb : bases = cpk.gBases) (hN : pk.N = cpk.N)
    (h1 : extendCommitmentWithPk c revealed pk bases (some R) t1 = .ok (e1, t1'))
    (h2 : extendCommitmentWithCpk c msgs cpk (some R) t2 = .ok (e2, t2')) :
    e1.value ≡ e2.value [ZMOD cpk.N] ∧ e1.randomness = e2.randomness ∧
      e1.value ≡ c.value * ClSigma.repZip cpk.gBases R revealed [ZMOD cpk.N] ∧
      e2.value ≡ c.value * ClSigma.repZip cpk.gBases R revealed [ZMOD cpk.N] := by
  have hrev0 : ∀ m ∈ revealed, 0 ≤ m := by
    intro m hmem
    rw [hrev] at hmem
    obtain ⟨i, hi, rfl⟩ := List.mem_map.1 hmem
    exact hm i hi
  obtain ⟨-, -, -, hr1, hv1⟩ := ClSigma.extend_elim hA hrev0 h1
  obtain ⟨-, -, hr2, hv2⟩ := extendCpk_elim hA hm h2
  rw [rep_eq_repZip, ← hrev] at hv2
  rw [hb, hN] at hv1
  exact ⟨hv1.trans hv2.symm, hr1.trans hr2.symm, hv1, hv2⟩

/-- Both helpers also succeed together: under the hypotheses of `extendCpk_run`, the `pk` variant run on the
selected messages succeeds as well and the two values are congruent. -/
theorem extend_pk_vs_cpk_run (hA : ArithOK) (c : Commitment) {msgs : List Int}
    {pk : PublicKey} {cpk : CommitmentPK} {R : List Nat} (hNeq : pk.N = cpk.N) (hN : 0 < cpk.N)
    (hm : ∀ i ∈ R, 0 ≤ msgs.getD i 0)
    (hin : ∀ i ∈ R, i < cpk.gBases.length ∧ i < msgs.length) (t : List Draw) :
    ∃ e1 e2, extendCommitmentWithPk c (R.map fun i => msgs.getD i 0) pk cpk.gBases (some R) t
        = .ok (e1, t) ∧
      extendCommitmentWithCpk c msgs cpk (some R) t = .ok (e2, t) ∧
      e1.value ≡ e2.value [ZMOD cpk.N] ∧ e1.randomness = e2.randomness := by
  have hrev0 : ∀ m ∈ (R.map fun i => msgs.getD i 0), 0 ≤ m := by
    intro m hmem
    obtain ⟨i, hi, rfl⟩ := List.mem_map.1 hmem
    exact hm i hi
  obtain ⟨e1, he1⟩ := ClSigma.extend_run hA c (pk := pk) (bases := cpk.gBases) (R := R)
    (by rw [hNeq]; exact hN) hrev0 (by simp) (fun i hi => (hin i hi).1) t
  obtain ⟨e2, he2, -, -⟩ := extendCpk_run hA c hN hm hin t
  obtain ⟨h, h', -, -⟩ := extend_pk_vs_cpk_indexing hA hm rfl rfl hNeq he1 he2
  exact ⟨e1, e2, he1, he2, h, h'⟩

/-- The difference is real: with the FULL message list passed to both helpers and `R = [1]`, the `pk`
variant refuses (length check) while the `cpk` variant reads `messages[1]`. -/
example (hA : ArithOK) (t : List Draw) :
    extendCommitmentWithPk ⟨1, 0⟩ [5, 7] ⟨35, 2, 3⟩ [2, 3] (some [1]) t = .panic ∧
    ∃ e, extendCommitmentWithCpk ⟨1, 0⟩ [5, 7] ⟨35, 2, [2, 3]⟩ (some [1]) t = .ok (e, t) ∧
      e.value ≡ 3 ^ 7 [ZMOD 35] := by
  refine ⟨rfl, ?_⟩
  obtain ⟨e, he, -, hv⟩ := extendCpk_run hA ⟨1, 0⟩ (msgs := [5, 7]) (cpk := ⟨35, 2, [2, 3]⟩)
    (R := [1]) (by norm_num) (by decide) (by decide) t
  exact ⟨e, he, by simpa [ClSigma.rep] using hv⟩

/-! ### 6. `map_message_to_integer_as_hash` -/

/-- **Range of hashed messages.** `CL03Message::map_message_to_integer_as_hash` (SHA-256 digest read as a
big-endian integer) is a nonnegative integer below `2^256`. -/
theorem mapMessageToIntegerAsHash_range (data : Bytes) :
    0 ≤ mapMessageToIntegerAsHash data ∧ mapMessageToIntegerAsHash data < 2 ^ 256 := by
  unfold mapMessageToIntegerAsHash
  refine ⟨Int.natCast_nonneg _, ?_⟩
  have h := ClRange.os2ip_lt' (sha256 data)
  rw [ClRange.sha256_length] at h
  have : (256 : Nat) ^ 32 = 2 ^ 256 := by norm_num
  rw [this] at h
  show ((os2ip (sha256 data) : Nat) : Int) < 2 ^ 256
  exact_mod_cast h

/-- Hashed messages fit the message length `lm = 256` of the generated suites, in particular they satisfy
the nonnegativity hypotheses above. -/
theorem mapMessageToIntegerAsHash_nonneg_list (ds : List Bytes) :
    ∀ m ∈ ds.map mapMessageToIntegerAsHash, 0 ≤ m := by
  intro m hm
  obtain ⟨d, -, rfl⟩ := List.mem_map.1 hm
  exact (mapMessageToIntegerAsHash_range d).1

end Zk.C14Extend
