/-
Transfer ("naturality") theorems for the BBS / Blind-BBS model.

`Zk.Transfer.Hom env env' fS f1 f2` (`ZkProofs/Lemmas/Naturality.lean`) says that the triple of
injective maps `fS : S → S'`, `f1 : G1 → G1'`, `f2 : G2 → G2'` commutes with every operation of the
model's signature (core classes and the record `Env`).  The theorems below say that then EVERY
public entry point of `ZkModel/L1/Bbs.lean` commutes with it: the run on `env'` of the mapped
inputs is the mapped run on `env` (octet strings, indexes and Booleans are left alone).

Intended use: `env'` = the executable instance `Zk.Concrete.env : Env Fr G1Pt G2Pt` (raw records),
`env` = the same operations restricted to the subtypes of reduced scalars / subgroup points (which
ARE a field and modules over it), `f* = Subtype.val`.  Every property proved for the abstract
`Lawful` setting then holds of the executable model on inputs in the subtypes: see
`sign_verify_target` at the end for the pattern.

No algebraic law is assumed on either side; nothing here is about elliptic curves.
The per-function lemmas `…_nat` for ALL functions of `Bbs.lean` (also the internal ones) are in
`ZkProofs/Lemmas/Naturality{,2,3}.lean`.
-/
import ZkProofs.Lemmas.Naturality3
import ZkProofs.Props.C01
set_option linter.unusedSectionVars false
set_option linter.unusedVariables false

namespace Zk.Transfer
open Zk

/-! ### moving `ok` outcomes along a `Res.map` equation -/

theorem ok_of_map {α α'} {φ : α → α'} {x : Res α} {x' : Res α'} (h : x' = x.map φ) {a : α}
    (ha : x = .ok a) : x' = .ok (φ a) := by rw [h, ha]; rfl

theorem exists_of_map_ok {α α'} {φ : α → α'} {x : Res α} {x' : Res α'} (h : x' = x.map φ)
    {a' : α'} (ha : x' = .ok a') : ∃ a, x = .ok a ∧ φ a = a' := by
  rw [h] at ha; exact (Res.map_eq_ok_iff φ x a').mp ha

theorem ok_iff_of_map {α α'} {φ : α → α'} (hφ : Function.Injective φ) {x : Res α} {x' : Res α'}
    (h : x' = x.map φ) (a : α) : x' = .ok (φ a) ↔ x = .ok a := by
  rw [h, Res.map_eq_ok_iff]
  constructor
  · rintro ⟨b, hb, hab⟩; rw [hb, hφ hab]
  · intro hx; exact ⟨a, hx, rfl⟩

theorem err_iff_of_map {α α'} {φ : α → α'} {x : Res α} {x' : Res α'} (h : x' = x.map φ) :
    x' = .err ↔ x = .err := by rw [h, Res.map_eq_err_iff]

theorem panic_iff_of_map {α α'} {φ : α → α'} {x : Res α} {x' : Res α'} (h : x' = x.map φ) :
    x' = .panic ↔ x = .panic := by rw [h, Res.map_eq_panic_iff]

section
variable {S G1 G2 : Type}
variable [Zero S] [One S] [Add S] [Sub S] [Neg S] [Mul S] [DecidableEq S]
variable [Zero G1] [Add G1] [Sub G1] [Neg G1] [SMul S G1] [DecidableEq G1]
variable [Zero G2] [Add G2] [Neg G2] [SMul S G2] [DecidableEq G2]
variable {S' G1' G2' : Type}
variable [Zero S'] [One S'] [Add S'] [Sub S'] [Neg S'] [Mul S'] [DecidableEq S']
variable [Zero G1'] [Add G1'] [Sub G1'] [Neg G1'] [SMul S' G1'] [DecidableEq G1']
variable [Zero G2'] [Add G2'] [Neg G2'] [SMul S' G2'] [DecidableEq G2']

/-! ### `Hom` is inhabited and closed under composition -/

/-- The identity is a homomorphism (sanity check: the structure is inhabited). -/
theorem Hom.id (env : Env S G1 G2) : Hom env env id id id where
  fS_inj := Function.injective_id
  f1_inj := Function.injective_id
  f2_inj := Function.injective_id
  S_zero := rfl
  S_one := rfl
  S_add _ _ := rfl
  S_sub _ _ := rfl
  S_neg _ := rfl
  S_mul _ _ := rfl
  G1_zero := rfl
  G1_add _ _ := rfl
  G1_sub _ _ := rfl
  G1_neg _ := rfl
  G1_smul _ _ := rfl
  G2_zero := rfl
  G2_add _ _ := rfl
  G2_neg _ := rfl
  G2_smul _ _ := rfl
  sInv _ := Option.map_id'.symm
  sEnc _ := rfl
  sDec _ := Option.map_id'.symm
  okm _ := rfl
  g1Enc _ := rfl
  g1Dec _ := Option.map_id'.symm
  g2Enc _ := rfl
  g2Dec _ := Option.map_id'.symm
  g2EncU _ := rfl
  g2DecU _ := Option.map_id'.symm
  bp2 := rfl
  pairingCheck l := by rw [Prod.map_id, List.map_id]
  expand _ _ _ _ := rfl
  hashToG1 _ _ _ := Option.map_id'.symm

example (env : Env S G1 G2) : Hom env env id id id := Hom.id env

variable {S'' G1'' G2'' : Type}
variable [Zero S''] [One S''] [Add S''] [Sub S''] [Neg S''] [Mul S''] [DecidableEq S'']
variable [Zero G1''] [Add G1''] [Sub G1''] [Neg G1''] [SMul S'' G1''] [DecidableEq G1'']
variable [Zero G2''] [Add G2''] [Neg G2''] [SMul S'' G2''] [DecidableEq G2'']

/-- Homomorphisms compose. -/
theorem Hom.comp {env : Env S G1 G2} {env' : Env S' G1' G2'} {env'' : Env S'' G1'' G2''}
    {fS : S → S'} {f1 : G1 → G1'} {f2 : G2 → G2'} {gS : S' → S''} {g1 : G1' → G1''}
    {g2 : G2' → G2''} (K : Hom env' env'' gS g1 g2) (H : Hom env env' fS f1 f2) :
    Hom env env'' (gS ∘ fS) (g1 ∘ f1) (g2 ∘ f2) where
  fS_inj := K.fS_inj.comp H.fS_inj
  f1_inj := K.f1_inj.comp H.f1_inj
  f2_inj := K.f2_inj.comp H.f2_inj
  S_zero := by simp only [Function.comp_apply, H.S_zero, K.S_zero]
  S_one := by simp only [Function.comp_apply, H.S_one, K.S_one]
  S_add _ _ := by simp only [Function.comp_apply, H.S_add, K.S_add]
  S_sub _ _ := by simp only [Function.comp_apply, H.S_sub, K.S_sub]
  S_neg _ := by simp only [Function.comp_apply, H.S_neg, K.S_neg]
  S_mul _ _ := by simp only [Function.comp_apply, H.S_mul, K.S_mul]
  G1_zero := by simp only [Function.comp_apply, H.G1_zero, K.G1_zero]
  G1_add _ _ := by simp only [Function.comp_apply, H.G1_add, K.G1_add]
  G1_sub _ _ := by simp only [Function.comp_apply, H.G1_sub, K.G1_sub]
  G1_neg _ := by simp only [Function.comp_apply, H.G1_neg, K.G1_neg]
  G1_smul _ _ := by simp only [Function.comp_apply, H.G1_smul, K.G1_smul]
  G2_zero := by simp only [Function.comp_apply, H.G2_zero, K.G2_zero]
  G2_add _ _ := by simp only [Function.comp_apply, H.G2_add, K.G2_add]
  G2_neg _ := by simp only [Function.comp_apply, H.G2_neg, K.G2_neg]
  G2_smul _ _ := by simp only [Function.comp_apply, H.G2_smul, K.G2_smul]
  sInv _ := by simp only [Function.comp_apply, K.sInv, H.sInv, Option.map_map]
  sEnc _ := by simp only [Function.comp_apply, K.sEnc, H.sEnc]
  sDec _ := by simp only [K.sDec, H.sDec, Option.map_map]
  okm _ := by simp only [Function.comp_apply, K.okm, H.okm]
  g1Enc _ := by simp only [Function.comp_apply, K.g1Enc, H.g1Enc]
  g1Dec _ := by simp only [K.g1Dec, H.g1Dec, Option.map_map]
  g2Enc _ := by simp only [Function.comp_apply, K.g2Enc, H.g2Enc]
  g2Dec _ := by simp only [K.g2Dec, H.g2Dec, Option.map_map]
  g2EncU _ := by simp only [Function.comp_apply, K.g2EncU, H.g2EncU]
  g2DecU _ := by simp only [K.g2DecU, H.g2DecU, Option.map_map]
  bp2 := by simp only [Function.comp_apply, K.bp2, H.bp2]
  pairingCheck l := by
    rw [← H.pairingCheck, ← K.pairingCheck, List.map_map, Prod.map_comp_map]
  expand _ _ _ _ := by rw [K.expand, H.expand]
  hashToG1 _ _ _ := by simp only [K.hashToG1, H.hashToG1, Option.map_map]

variable {env : Env S G1 G2} {env' : Env S' G1' G2'} {fS : S → S'} {f1 : G1 → G1'} {f2 : G2 → G2'}
variable (H : Hom env env' fS f1 f2) (cs : Suite G1)
include H

/-! ### headline theorems: the public entry points

Shape: `f env' (cs.map f1) (mapped arguments) = (f env cs arguments).map (mapped result)`;
when the result type contains no scalar or point (`Res Unit`, `Bytes`) the two runs are EQUAL. -/

/-! #### hashing to scalars, generators -/

theorem hashToScalar_transfer (msg dst : Bytes) :
    hashToScalar env' (cs.map f1) msg dst = (hashToScalar env cs msg dst).map fS :=
  hashToScalar_nat H cs msg dst

theorem mapMessageToScalarAsHash_transfer (data apiId : Bytes) :
    mapMessageToScalarAsHash env' (cs.map f1) data apiId
      = (mapMessageToScalarAsHash env cs data apiId).map fS :=
  mapMessageToScalarAsHash_nat H cs data apiId

theorem messagesToScalar_transfer (messages : List Bytes) (apiId : Bytes) :
    messagesToScalar env' (cs.map f1) messages apiId
      = (messagesToScalar env cs messages apiId).map (List.map fS) :=
  messagesToScalar_nat H cs messages apiId

theorem createGenerators_transfer (count : Nat) (apiId : Option Bytes) :
    createGenerators env' (cs.map f1) count apiId
      = (createGenerators env cs count apiId).map (List.map f1) :=
  createGenerators_nat H cs count apiId

theorem Generators.create_transfer (count : Nat) (apiId : Option Bytes) :
    Generators.create env' (cs.map f1) count apiId
      = (Generators.create env cs count apiId).map (Generators.map f1) :=
  Generators.create_nat H cs count apiId

/-! #### keys -/

theorem keyGen_transfer (keyMaterial : Bytes) (keyInfo keyDst : Option Bytes) :
    keyGen env' (cs.map f1) keyMaterial keyInfo keyDst
      = (keyGen env cs keyMaterial keyInfo keyDst).map fS :=
  keyGen_nat H cs keyMaterial keyInfo keyDst

omit cs in
theorem skToPk_transfer (sk : S) : skToPk env' (fS sk) = f2 (skToPk env sk) := skToPk_nat H sk

omit cs in
theorem pkFromBytes_transfer (b : Bytes) : pkFromBytes env' b = (pkFromBytes env b).map f2 :=
  pkFromBytes_nat H b

omit cs in
theorem pkToBytes_transfer (pk : G2) : pkToBytes env' (f2 pk) = pkToBytes env pk :=
  pkToBytes_nat H pk

omit cs in
theorem pkToCoordinates_transfer (pk : G2) :
    pkToCoordinates env' (f2 pk) = pkToCoordinates env pk := pkToCoordinates_nat H pk

omit cs in
theorem pkFromCoordinates_transfer (x y : Bytes) :
    pkFromCoordinates env' x y = (pkFromCoordinates env x y).map f2 := pkFromCoordinates_nat H x y

omit cs in
theorem skFromBytes_transfer (b : Bytes) : skFromBytes env' b = (skFromBytes env b).map fS :=
  skFromBytes_nat H b

/-! #### signatures -/

omit cs in
theorem Signature.toBytes_transfer (σ : Signature S G1) :
    (σ.map fS f1).toBytes env' = σ.toBytes env := Signature.toBytes_nat H σ

omit cs in
theorem Signature.fromBytes_transfer (b : Bytes) :
    Signature.fromBytes env' b = (Signature.fromBytes env b).map (Signature.map fS f1) :=
  Signature.fromBytes_nat H b

theorem sign_transfer (messages : Option (List Bytes)) (sk : S) (pk : G2) (header : Option Bytes) :
    sign env' (cs.map f1) messages (fS sk) (f2 pk) header
      = (sign env cs messages sk pk header).map (Signature.map fS f1) :=
  sign_nat H cs messages sk pk header

/-- `verify` gives the same outcome on both sides. -/
theorem verify_transfer (σ : Signature S G1) (pk : G2) (messages : Option (List Bytes))
    (header : Option Bytes) :
    verify env' (cs.map f1) (σ.map fS f1) (f2 pk) messages header
      = verify env cs σ pk messages header :=
  verify_nat H cs σ pk messages header

theorem updateSignature_transfer (σ : Signature S G1) (sk : S) (oldMessage newMessage : Bytes)
    (updateIndex n : Nat) :
    updateSignature env' (cs.map f1) (σ.map fS f1) (fS sk) oldMessage newMessage updateIndex n
      = (updateSignature env cs σ sk oldMessage newMessage updateIndex n).map
          (Signature.map fS f1) :=
  updateSignature_nat H cs σ sk oldMessage newMessage updateIndex n

/-! #### proofs of knowledge -/

omit cs in
theorem PoKSignature.toBytes_transfer (π : PoKSignature S G1) :
    (π.map fS f1).toBytes env' = π.toBytes env := PoKSignature.toBytes_nat H π

omit cs in
theorem PoKSignature.fromBytes_transfer (b : Bytes) :
    PoKSignature.fromBytes env' b = (PoKSignature.fromBytes env b).map (PoKSignature.map fS f1) :=
  PoKSignature.fromBytes_nat H b

theorem proofGen_transfer (pk : G2) (signature : Bytes) (header ph : Option Bytes)
    (messages : Option (List Bytes)) (disclosedIndexes : Option (List Nat)) (tape : List S) :
    proofGen env' (cs.map f1) (f2 pk) signature header ph messages disclosedIndexes (tape.map fS)
      = (proofGen env cs pk signature header ph messages disclosedIndexes tape).map
          (PoKSignature.map fS f1) :=
  proofGen_nat H cs pk signature header ph messages disclosedIndexes tape

theorem proofVerify_transfer (π : PoKSignature S G1) (pk : G2)
    (disclosedMessages : Option (List Bytes)) (disclosedIndexes : Option (List Nat))
    (header ph : Option Bytes) :
    proofVerify env' (cs.map f1) (π.map fS f1) (f2 pk) disclosedMessages disclosedIndexes header ph
      = proofVerify env cs π pk disclosedMessages disclosedIndexes header ph :=
  proofVerify_nat H cs π pk disclosedMessages disclosedIndexes header ph

/-! #### commitments -/

omit cs in
theorem ZKPoK.toBytes_transfer (z : ZKPoK S) : (z.map fS).toBytes env' = z.toBytes env :=
  ZKPoK.toBytes_nat H z

omit cs in
theorem ZKPoK.fromBytes_transfer (b : Bytes) :
    ZKPoK.fromBytes env' b = (ZKPoK.fromBytes env b).map (ZKPoK.map fS) := ZKPoK.fromBytes_nat H b

omit cs in
theorem Commitment.toBytes_transfer (c : Commitment S G1) :
    (c.map fS f1).toBytes env' = c.toBytes env := Commitment.toBytes_nat H c

omit cs in
theorem Commitment.fromBytes_transfer (b : Bytes) :
    Commitment.fromBytes env' b = (Commitment.fromBytes env b).map (Commitment.map fS f1) :=
  Commitment.fromBytes_nat H b

theorem commitWith_transfer (committedMessages : Option (List Bytes)) (apiId : Option Bytes)
    (tape : List S) :
    commitWith env' (cs.map f1) committedMessages apiId (tape.map fS)
      = (commitWith env cs committedMessages apiId tape).map
          (Prod.map (Commitment.map fS f1) fS) :=
  commitWith_nat H cs committedMessages apiId tape

theorem commit_transfer (committedMessages : Option (List Bytes)) (tape : List S) :
    commit env' (cs.map f1) committedMessages (tape.map fS)
      = (commit env cs committedMessages tape).map (Prod.map (Commitment.map fS f1) fS) :=
  commit_nat H cs committedMessages tape

theorem deserializeAndValidateCommit_transfer (cwp : Option Bytes) (blindGens : Generators G1)
    (apiId : Option Bytes) :
    deserializeAndValidateCommit env' (cs.map f1) cwp (blindGens.map f1) apiId
      = (deserializeAndValidateCommit env cs cwp blindGens apiId).map f1 :=
  deserializeAndValidateCommit_nat H cs cwp blindGens apiId

/-! #### blind signatures -/

theorem blindSign_transfer (sk : S) (pk : G2) (cwp header : Option Bytes)
    (messages : Option (List Bytes)) :
    blindSign env' (cs.map f1) (fS sk) (f2 pk) cwp header messages
      = (blindSign env cs sk pk cwp header messages).map (Signature.map fS f1) :=
  blindSign_nat H cs sk pk cwp header messages

theorem verifyBlindSign_transfer (σ : Signature S G1) (pk : G2) (header : Option Bytes)
    (messages committed : Option (List Bytes)) (secretProverBlind : Option S) :
    verifyBlindSign env' (cs.map f1) (σ.map fS f1) (f2 pk) header messages committed
        (secretProverBlind.map fS)
      = verifyBlindSign env cs σ pk header messages committed secretProverBlind :=
  verifyBlindSign_nat H cs σ pk header messages committed secretProverBlind

theorem blindProofGen_transfer (pk : G2) (signature : Bytes) (header ph : Option Bytes)
    (messages committed : Option (List Bytes))
    (disclosedIndexes disclosedCommitmentIndexes : Option (List Nat))
    (secretProverBlind : Option S) (tape : List S) :
    blindProofGen env' (cs.map f1) (f2 pk) signature header ph messages committed
        disclosedIndexes disclosedCommitmentIndexes (secretProverBlind.map fS) (tape.map fS)
      = (blindProofGen env cs pk signature header ph messages committed disclosedIndexes
          disclosedCommitmentIndexes secretProverBlind tape).map (PoKSignature.map fS f1) :=
  blindProofGen_nat H cs pk signature header ph messages committed disclosedIndexes
    disclosedCommitmentIndexes secretProverBlind tape

theorem blindProofVerify_transfer (π : PoKSignature S G1) (pk : G2) (header ph : Option Bytes)
    (L : Option Nat) (disclosedMessages disclosedCommitted : Option (List Bytes))
    (disclosedIndexes disclosedCommitmentIndexes : Option (List Nat)) :
    blindProofVerify env' (cs.map f1) (π.map fS f1) (f2 pk) header ph L disclosedMessages
        disclosedCommitted disclosedIndexes disclosedCommitmentIndexes
      = blindProofVerify env cs π pk header ph L disclosedMessages disclosedCommitted
          disclosedIndexes disclosedCommitmentIndexes :=
  blindProofVerify_nat H cs π pk header ph L disclosedMessages disclosedCommitted
    disclosedIndexes disclosedCommitmentIndexes

/-! ### corollaries of the intended use: properties move between the two sides -/

/-- A signature is accepted on the target side iff it is accepted on the source side. -/
theorem verify_ok_iff (σ : Signature S G1) (pk : G2) (messages : Option (List Bytes))
    (header : Option Bytes) :
    verify env' (cs.map f1) (σ.map fS f1) (f2 pk) messages header = .ok ()
      ↔ verify env cs σ pk messages header = .ok () := by
  rw [verify_transfer H]

theorem proofVerify_ok_iff (π : PoKSignature S G1) (pk : G2)
    (disclosedMessages : Option (List Bytes)) (disclosedIndexes : Option (List Nat))
    (header ph : Option Bytes) :
    proofVerify env' (cs.map f1) (π.map fS f1) (f2 pk) disclosedMessages disclosedIndexes header
        ph = .ok ()
      ↔ proofVerify env cs π pk disclosedMessages disclosedIndexes header ph = .ok () := by
  rw [proofVerify_transfer H]

theorem verifyBlindSign_ok_iff (σ : Signature S G1) (pk : G2) (header : Option Bytes)
    (messages committed : Option (List Bytes)) (secretProverBlind : Option S) :
    verifyBlindSign env' (cs.map f1) (σ.map fS f1) (f2 pk) header messages committed
        (secretProverBlind.map fS) = .ok ()
      ↔ verifyBlindSign env cs σ pk header messages committed secretProverBlind = .ok () := by
  rw [verifyBlindSign_transfer H]

theorem blindProofVerify_ok_iff (π : PoKSignature S G1) (pk : G2) (header ph : Option Bytes)
    (L : Option Nat) (disclosedMessages disclosedCommitted : Option (List Bytes))
    (disclosedIndexes disclosedCommitmentIndexes : Option (List Nat)) :
    blindProofVerify env' (cs.map f1) (π.map fS f1) (f2 pk) header ph L disclosedMessages
        disclosedCommitted disclosedIndexes disclosedCommitmentIndexes = .ok ()
      ↔ blindProofVerify env cs π pk header ph L disclosedMessages disclosedCommitted
          disclosedIndexes disclosedCommitmentIndexes = .ok () := by
  rw [blindProofVerify_transfer H]

/-- `sign` succeeds on the target side exactly with the images of the source-side signatures. -/
theorem sign_ok_iff (messages : Option (List Bytes)) (sk : S) (pk : G2) (header : Option Bytes)
    (σ : Signature S G1) :
    sign env' (cs.map f1) messages (fS sk) (f2 pk) header = .ok (σ.map fS f1)
      ↔ sign env cs messages sk pk header = .ok σ :=
  ok_iff_of_map (Signature.map_injective fS f1 H.fS_inj H.f1_inj) (sign_transfer H cs _ _ _ _) σ

/-- Every target-side signature on mapped inputs IS the image of a source-side signature. -/
theorem sign_ok_exists (messages : Option (List Bytes)) (sk : S) (pk : G2)
    (header : Option Bytes) (σ' : Signature S' G1')
    (h : sign env' (cs.map f1) messages (fS sk) (f2 pk) header = .ok σ') :
    ∃ σ, sign env cs messages sk pk header = .ok σ ∧ σ.map fS f1 = σ' :=
  exists_of_map_ok (sign_transfer H cs _ _ _ _) h

theorem proofGen_ok_exists (pk : G2) (signature : Bytes) (header ph : Option Bytes)
    (messages : Option (List Bytes)) (disclosedIndexes : Option (List Nat)) (tape : List S)
    (π' : PoKSignature S' G1')
    (h : proofGen env' (cs.map f1) (f2 pk) signature header ph messages disclosedIndexes
      (tape.map fS) = .ok π') :
    ∃ π, proofGen env cs pk signature header ph messages disclosedIndexes tape = .ok π
      ∧ π.map fS f1 = π' :=
  exists_of_map_ok (proofGen_transfer H cs _ _ _ _ _ _ _) h

theorem blindSign_ok_exists (sk : S) (pk : G2) (cwp header : Option Bytes)
    (messages : Option (List Bytes)) (σ' : Signature S' G1')
    (h : blindSign env' (cs.map f1) (fS sk) (f2 pk) cwp header messages = .ok σ') :
    ∃ σ, blindSign env cs sk pk cwp header messages = .ok σ ∧ σ.map fS f1 = σ' :=
  exists_of_map_ok (blindSign_transfer H cs _ _ _ _ _) h

/-- **Abstract transfer of completeness.** If on the source side whatever `sign` returns is
accepted by `verify`, the same holds on the target side for all mapped keys. -/
theorem completeness_transfer
    (hsrc : ∀ sk messages header σ, sign env cs messages sk (skToPk env sk) header = .ok σ →
      verify env cs σ (skToPk env sk) messages header = .ok ())
    (sk : S) (messages : Option (List Bytes)) (header : Option Bytes) (σ' : Signature S' G1')
    (h : sign env' (cs.map f1) messages (fS sk) (skToPk env' (fS sk)) header = .ok σ') :
    verify env' (cs.map f1) σ' (skToPk env' (fS sk)) messages header = .ok () := by
  rw [skToPk_transfer H] at h ⊢
  obtain ⟨σ, hσ, rfl⟩ := sign_ok_exists H cs _ _ _ _ _ h
  rw [verify_transfer H]
  exact hsrc sk messages header σ hσ

end

/-! ### constructing a `Hom`: the environment pulled back along retractions

When the source carriers embed in the target carriers (`fS, f1, f2` injective, with retractions
`rS, r1, r2`, e.g. `Subtype.val` and "attach the proof") and commute with the algebraic operations,
the target environment `env'` induces a source environment `Env.pullback …`, and the embedding is a
`Hom` as soon as every value PRODUCED by `env'` (decoders, `sInv`, `okm`, `bp2`, `hashToG1`) lies in
the image.  This reduces "the executable instance restricted to the good subtypes is related to the
executable instance by a `Hom`" to closure facts about the L0 operations. -/

/-- The algebraic half of `Hom`: injective maps commuting with the core-class operations. -/
structure AlgHom {S G1 G2 S' G1' G2' : Type}
    [Zero S] [One S] [Add S] [Sub S] [Neg S] [Mul S]
    [Zero G1] [Add G1] [Sub G1] [Neg G1] [SMul S G1]
    [Zero G2] [Add G2] [Neg G2] [SMul S G2]
    [Zero S'] [One S'] [Add S'] [Sub S'] [Neg S'] [Mul S']
    [Zero G1'] [Add G1'] [Sub G1'] [Neg G1'] [SMul S' G1']
    [Zero G2'] [Add G2'] [Neg G2'] [SMul S' G2']
    (fS : S → S') (f1 : G1 → G1') (f2 : G2 → G2') : Prop where
  fS_inj : Function.Injective fS
  f1_inj : Function.Injective f1
  f2_inj : Function.Injective f2
  S_zero : fS 0 = 0
  S_one : fS 1 = 1
  S_add : ∀ a b, fS (a + b) = fS a + fS b
  S_sub : ∀ a b, fS (a - b) = fS a - fS b
  S_neg : ∀ a, fS (-a) = -fS a
  S_mul : ∀ a b, fS (a * b) = fS a * fS b
  G1_zero : f1 0 = 0
  G1_add : ∀ p q, f1 (p + q) = f1 p + f1 q
  G1_sub : ∀ p q, f1 (p - q) = f1 p - f1 q
  G1_neg : ∀ p, f1 (-p) = -f1 p
  G1_smul : ∀ (s : S) p, f1 (s • p) = fS s • f1 p
  G2_zero : f2 0 = 0
  G2_add : ∀ p q, f2 (p + q) = f2 p + f2 q
  G2_neg : ∀ p, f2 (-p) = -f2 p
  G2_smul : ∀ (s : S) p, f2 (s • p) = fS s • f2 p

/-- The environment induced on the source carriers by `env'`, embeddings and retractions. -/
def Env.pullback {S G1 G2 S' G1' G2' : Type} (env' : Env S' G1' G2')
    (fS : S → S') (f1 : G1 → G1') (f2 : G2 → G2') (rS : S' → S) (r1 : G1' → G1) (r2 : G2' → G2) :
    Env S G1 G2 where
  sInv s := (env'.sInv (fS s)).map rS
  sEnc s := env'.sEnc (fS s)
  sDec b := (env'.sDec b).map rS
  okm b := rS (env'.okm b)
  g1Enc p := env'.g1Enc (f1 p)
  g1Dec b := (env'.g1Dec b).map r1
  g2Enc p := env'.g2Enc (f2 p)
  g2Dec b := (env'.g2Dec b).map r2
  g2EncU p := env'.g2EncU (f2 p)
  g2DecU b := (env'.g2DecU b).map r2
  bp2 := r2 env'.bp2
  pairingCheck l := env'.pairingCheck (l.map (Prod.map f1 f2))
  expand := env'.expand
  hashToG1 x m d := (env'.hashToG1 x m d).map r1

theorem Option.map_map_retract {α β} (f : α → β) (r : β → α) (o : Option β)
    (h : ∀ t, o = some t → f (r t) = t) : o = (o.map r).map f := by
  cases o with
  | none => rfl
  | some t => simp only [Option.map_some, h t rfl]

section
variable {S G1 G2 : Type}
variable [Zero S] [One S] [Add S] [Sub S] [Neg S] [Mul S] [DecidableEq S]
variable [Zero G1] [Add G1] [Sub G1] [Neg G1] [SMul S G1] [DecidableEq G1]
variable [Zero G2] [Add G2] [Neg G2] [SMul S G2] [DecidableEq G2]
variable {S' G1' G2' : Type}
variable [Zero S'] [One S'] [Add S'] [Sub S'] [Neg S'] [Mul S'] [DecidableEq S']
variable [Zero G1'] [Add G1'] [Sub G1'] [Neg G1'] [SMul S' G1'] [DecidableEq G1']
variable [Zero G2'] [Add G2'] [Neg G2'] [SMul S' G2'] [DecidableEq G2']

/-- The algebraic half of a `Hom`. -/
theorem Hom.toAlgHom {env : Env S G1 G2} {env' : Env S' G1' G2'} {fS : S → S'} {f1 : G1 → G1'}
    {f2 : G2 → G2'} (H : Hom env env' fS f1 f2) : AlgHom fS f1 f2 :=
  { fS_inj := H.fS_inj, f1_inj := H.f1_inj, f2_inj := H.f2_inj, S_zero := H.S_zero,
    S_one := H.S_one, S_add := H.S_add, S_sub := H.S_sub, S_neg := H.S_neg, S_mul := H.S_mul,
    G1_zero := H.G1_zero, G1_add := H.G1_add, G1_sub := H.G1_sub, G1_neg := H.G1_neg,
    G1_smul := H.G1_smul, G2_zero := H.G2_zero, G2_add := H.G2_add, G2_neg := H.G2_neg,
    G2_smul := H.G2_smul }

/-- **Pullback.** Embeddings that commute with the algebra, with retractions, form a `Hom` from
the pulled-back environment to `env'` provided everything `env'` produces lies in the image
(stated as `f (r t) = t` for each produced value `t`). -/
theorem Hom.pullback (env' : Env S' G1' G2') {fS : S → S'} {f1 : G1 → G1'} {f2 : G2 → G2'}
    (A : AlgHom fS f1 f2) (rS : S' → S) (r1 : G1' → G1) (r2 : G2' → G2)
    (h_sInv : ∀ s t, env'.sInv (fS s) = some t → fS (rS t) = t)
    (h_sDec : ∀ b t, env'.sDec b = some t → fS (rS t) = t)
    (h_okm : ∀ b, fS (rS (env'.okm b)) = env'.okm b)
    (h_g1Dec : ∀ b t, env'.g1Dec b = some t → f1 (r1 t) = t)
    (h_g2Dec : ∀ b t, env'.g2Dec b = some t → f2 (r2 t) = t)
    (h_g2DecU : ∀ b t, env'.g2DecU b = some t → f2 (r2 t) = t)
    (h_bp2 : f2 (r2 env'.bp2) = env'.bp2)
    (h_hash : ∀ x m d t, env'.hashToG1 x m d = some t → f1 (r1 t) = t) :
    Hom (Env.pullback env' fS f1 f2 rS r1 r2) env' fS f1 f2 :=
  { fS_inj := A.fS_inj, f1_inj := A.f1_inj, f2_inj := A.f2_inj, S_zero := A.S_zero,
    S_one := A.S_one, S_add := A.S_add, S_sub := A.S_sub, S_neg := A.S_neg, S_mul := A.S_mul,
    G1_zero := A.G1_zero, G1_add := A.G1_add, G1_sub := A.G1_sub, G1_neg := A.G1_neg,
    G1_smul := A.G1_smul, G2_zero := A.G2_zero, G2_add := A.G2_add, G2_neg := A.G2_neg,
    G2_smul := A.G2_smul
    sInv := fun s => Option.map_map_retract fS rS _ (h_sInv s)
    sEnc := fun _ => rfl
    sDec := fun b => Option.map_map_retract fS rS _ (h_sDec b)
    okm := fun b => (h_okm b).symm
    g1Enc := fun _ => rfl
    g1Dec := fun b => Option.map_map_retract f1 r1 _ (h_g1Dec b)
    g2Enc := fun _ => rfl
    g2Dec := fun b => Option.map_map_retract f2 r2 _ (h_g2Dec b)
    g2EncU := fun _ => rfl
    g2DecU := fun b => Option.map_map_retract f2 r2 _ (h_g2DecU b)
    bp2 := h_bp2.symm
    pairingCheck := fun _ => rfl
    expand := fun _ _ _ _ => rfl
    hashToG1 := fun x m d => Option.map_map_retract f1 r1 _ (h_hash x m d) }

end

/-- A target-side suite whose `p1` lies in the image is the image of its retraction, so the
transfer theorems apply to it (`cs := cs'.map r1`). -/
theorem Suite.map_map_retract {G1 G1' : Type} (f1 : G1 → G1') (r1 : G1' → G1) (cs' : Suite G1')
    (h : f1 (r1 cs'.p1) = cs'.p1) : (cs'.map r1).map f1 = cs' := by
  cases cs'
  simp only [Suite.map, Suite.mk.injEq, true_and] at h ⊢
  exact h

/-! ### the pattern of use with the `Lawful` setting

The source side is an abstract lawful instance (a field, modules, a bilinear pairing); the target
side is ANY instance receiving a homomorphism from it (no laws required there).  Completeness
(`Zk.C01.sign_verify`) then holds on the target side, for keys and outputs in the image. -/

section
variable {S G1 G2 GT : Type} [Field S] [DecidableEq S]
variable [AddCommGroup G1] [Module S G1] [DecidableEq G1]
variable [AddCommGroup G2] [Module S G2] [DecidableEq G2]
variable [AddCommGroup GT] [Module S GT]
variable {S' G1' G2' : Type}
variable [Zero S'] [One S'] [Add S'] [Sub S'] [Neg S'] [Mul S'] [DecidableEq S']
variable [Zero G1'] [Add G1'] [Sub G1'] [Neg G1'] [SMul S' G1'] [DecidableEq G1']
variable [Zero G2'] [Add G2'] [Neg G2'] [SMul S' G2'] [DecidableEq G2']
variable {env : Env S G1 G2} {pair : G1 →ₗ[S] G2 →ₗ[S] GT}
variable {env' : Env S' G1' G2'} {fS : S → S'} {f1 : G1 → G1'} {f2 : G2 → G2'}

theorem sign_verify_target (hl : Lawful env pair) (H : Hom env env' fS f1 f2) (cs : Suite G1)
    (sk : S) (messages : Option (List Bytes)) (header : Option Bytes) (σ' : Signature S' G1')
    (h : sign env' (cs.map f1) messages (fS sk) (skToPk env' (fS sk)) header = .ok σ') :
    verify env' (cs.map f1) σ' (skToPk env' (fS sk)) messages header = .ok () :=
  completeness_transfer H cs
    (fun sk messages header σ hσ => C01.sign_verify hl cs sk messages header σ hσ)
    sk messages header σ' h

end

end Zk.Transfer
