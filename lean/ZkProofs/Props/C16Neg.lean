/-
C16 (finding F16)  The Boudot range-proof verifier accepts `n − E` in place of `E`.

`Boudot2000RangeProof::verify` (src/cl03/range_proof.rs; model `Zk.Cl.rangeVerify`) reads the proof's
commitment field `E` in exactly two places: the check `0 ≤ E < n` and `E' = E^(2^T) mod n`. Everything
else (`verify_of_tolerance_specific`) is run on the field `Eprime`, compared with `E'`. The exponent
`2^T` is even (`T = 2(t+l+1) + bitLen(rmax − rmin) ≥ 2`), so `E' ` is the same for `E` and for `n − E`,
and `n − E` is reduced whenever `0 < E < n`. Hence the verifier's whole run is literally the same on
`π` and on `{ π with E := n − π.E }`: what is proven is a statement about `±E`, not about `E`.

These are theorems about the MODEL (no `ArithOK` hypothesis: the specification of the L0 `powMod`
is used in its proved form, `Zk.Cl.ArithSpec.powMod_nonneg`).

* `powMod_neg_base_even`  `powMod (n − E) k n = powMod E k n` for `0 < n`, `0 ≤ k`, `k` even.
* `pw_neg_base_even`      the same for the monadic `pw` (as functions of the tape).
* `rangeT_pos`, `two_pow_rangeT_even`   `2^T` is even for every suite and every bounds.
* `rangeVerify_neg_E_eq`  for `0 < E < n` the verifier's run on `{π with E := n − E}` EQUALS its run
                          on `π` (any outcome: accept, reject, panic; any tape).
* `rangeVerify_neg_E_accepted`   headline: accepted ⇒ accepted with `n − E`; `n` odd ⇒ `E ≠ n − E`.
* `rangeVerify_neg_E_accepted'`  the same without the hypothesis `E < n` (it follows from acceptance).
* `rangeVerify_neg_E_iff`        acceptance of `π` ⇔ acceptance of the negated proof.

Non-vacuity. No concrete instance is built here: the implementation-side witness is recorded in
/verif/known_findings.json as F16, and on the Rust side the witness is **any honest proof** (an honest
`Boudot2000RangeProof`, any interval width, any value, with `E` replaced by `n − E` is accepted; an
honest `E` is a unit modulo `n`, so `0 < E < n`, and the CL03 modulus `n = p·q` is odd). In the model
the hypotheses are met by every proof accepted with `E ≠ 0` (`rangeVerify_E_reduced`), and accepted
proofs exist (`Zk.C16.range_complete`).
-/
import ZkProofs.Lemmas.ClRange
import ZkProofs.Lemmas.IntArithSpec
import Mathlib.Algebra.Group.Even
import Mathlib.Algebra.Ring.Parity
set_option linter.unusedVariables false
namespace Zk.C16Neg
open Zk.IA Zk.Cl

/-! ### 1. the arithmetic fact -/

/-- `(n − E)^k ≡ E^k (mod n)` for an even natural exponent. -/
theorem neg_base_pow_even_emod (n E : Int) {k : Nat} (hk : Even k) :
    (n - E) ^ k % n = E ^ k % n := by
  have h1 : n - E ≡ -E [ZMOD n] := by
    have : (n - E) % n = (-E) % n := by
      rw [show n - E = -E + n by ring, Int.add_emod_right]
    exact this
  have h2 : (n - E) ^ k ≡ (-E) ^ k [ZMOD n] := h1.pow k
  rw [hk.neg_pow] at h2
  exact h2

/-- **The model's modular exponentiation does not see the sign of the base under an even exponent.**
For a positive modulus and an even exponent `k ≥ 0`: `powMod (n − E) k n = powMod E k n`
(both are `some (E^k mod n)`). Holds for every `E` (in particular for `0 < E < n`, `1 < n`). -/
theorem powMod_neg_base_even {n E k : Int} (hn : 0 < n) (hk0 : 0 ≤ k) (hk : Even k) :
    powMod (n - E) k n = powMod E k n := by
  rw [ArithSpec.powMod_nonneg _ _ _ hn hk0, ArithSpec.powMod_nonneg _ _ _ hn hk0]
  have hk' : Even k.toNat := by
    obtain ⟨m, hm⟩ := hk
    exact ⟨m.toNat, by omega⟩
  rw [neg_base_pow_even_emod n E hk']

/-- The form asked for in F16: `1 < n`, `0 < E < n`, even positive exponent. -/
theorem powMod_neg_base_even' {n E k : Int} (hn : 1 < n) (hE0 : 0 < E) (hEn : E < n) (hk0 : 0 < k)
    (hk : Even k) : powMod (n - E) k n = powMod E k n :=
  powMod_neg_base_even (by omega) hk0.le hk

/-- … and for the model's `pw` (`pow_mod(..).unwrap()`), as computations. -/
theorem pw_neg_base_even {n E k : Int} (hn : 0 < n) (hk0 : 0 ≤ k) (hk : Even k) :
    pw (n - E) k n = pw E k n := by
  unfold pw
  rw [powMod_neg_base_even hn hk0 hk]

/-! ### 2. the exponent `2^T` of the verifier is even -/

theorem rangeT_pos (cs : Suite) (a b : Int) : 0 < rangeT cs a b := by
  unfold rangeT; omega

theorem two_pow_rangeT_even (cs : Suite) (a b : Int) : Even ((2 : Int) ^ rangeT cs a b) := by
  obtain ⟨m, hm⟩ := Nat.exists_eq_succ_of_ne_zero (rangeT_pos cs a b).ne'
  rw [hm, pow_succ]
  exact even_two.mul_left _

/-! ### 3. the verifier -/

/-- **The verifier's run does not depend on the sign of `E`.** For `0 < E < n` the computation
`rangeVerify` on the proof with `E` replaced by `n − E` is EQUAL to the computation on the proof
itself: same outcome (accept / reject / panic) on every tape, for every suite, bases and bounds.
(The only sub-computations that read `E` are the range check and `E' = E^(2^T)`.) -/
theorem rangeVerify_neg_E_eq (cs : Suite) (π : RangeProof) (g h n a b : Int)
    (hE0 : 0 < π.E) (hEn : π.E < n) :
    rangeVerify cs { π with E := n - π.E } g h n a b = rangeVerify cs π g h n a b := by
  have hn : 0 < n := by omega
  have hT : (0 : Int) ≤ 2 ^ rangeT cs a b := by positivity
  unfold rangeVerify
  by_cases hab : b ≤ a
  · simp only [if_pos hab]
  · simp only [if_neg hab]
    rw [if_neg (by omega), if_neg (by omega)]
    simp only [pw_neg_base_even hn hT (two_pow_rangeT_even cs a b)]

/-- For an odd modulus `E` and `n − E` are different integers. -/
theorem neg_E_ne {n E : Int} (hodd : n % 2 = 1) : E ≠ n - E := by
  omega

/-- **F16 in the model.** For every proof `π`, bases `g h`, modulus `n > 1`, bounds `a b`, suite and
tapes: if `0 < π.E < n` and the verifier accepts `π`, it accepts `{ π with E := n − π.E }` (with the
same remaining tape); and for odd `n` this is a different proof (`π.E ≠ n − π.E`), whose field `E` is
again reduced (`0 < n − π.E < n`), so the check `0 ≤ E < n` does not exclude it.
Rust witness: any honest proof (known_findings.json, F16). -/
theorem rangeVerify_neg_E_accepted {cs : Suite} {π : RangeProof} {g h n a b : Int} (hn : 1 < n)
    (hE0 : 0 < π.E) (hEn : π.E < n) {tq tq' : List Draw}
    (hv : rangeVerify cs π g h n a b tq = .ok (true, tq')) :
    rangeVerify cs { π with E := n - π.E } g h n a b tq = .ok (true, tq') ∧
    (0 < n - π.E ∧ n - π.E < n) ∧
    (n % 2 = 1 → π.E ≠ n - π.E ∧ ({ π with E := n - π.E } : RangeProof) ≠ π) := by
  refine ⟨by rw [rangeVerify_neg_E_eq cs π g h n a b hE0 hEn]; exact hv, by omega, fun hodd => ?_⟩
  have hne : π.E ≠ n - π.E := neg_E_ne hodd
  refine ⟨hne, fun heq => hne ?_⟩
  have := congrArg RangeProof.E heq
  simpa using this.symm

/-- The same with the hypothesis `π.E < n` discharged from the acceptance itself
(`C16.rangeVerify_E_reduced`): an accepted proof with `E ≠ 0` is accepted with `n − E`. -/
theorem rangeVerify_neg_E_accepted' {cs : Suite} {π : RangeProof} {g h n a b : Int}
    (hE : π.E ≠ 0) {tq tq' : List Draw}
    (hv : rangeVerify cs π g h n a b tq = .ok (true, tq')) :
    rangeVerify cs { π with E := n - π.E } g h n a b tq = .ok (true, tq') := by
  have hred : 0 ≤ π.E ∧ π.E < n := by
    have hv' := hv
    unfold rangeVerify at hv'
    split at hv'
    · cases hv'
    split at hv'
    · cases (Zk.Cl.pure_ok_iff.mp hv').1
    · omega
  rw [rangeVerify_neg_E_eq cs π g h n a b (by omega) hred.2]; exact hv

/-- Acceptance of `π` and of its negated twin are equivalent (`0 < E < n`). -/
theorem rangeVerify_neg_E_iff {cs : Suite} {π : RangeProof} {g h n a b : Int}
    (hE0 : 0 < π.E) (hEn : π.E < n) {tq tq' : List Draw} :
    rangeVerify cs { π with E := n - π.E } g h n a b tq = .ok (true, tq') ↔
      rangeVerify cs π g h n a b tq = .ok (true, tq') := by
  rw [rangeVerify_neg_E_eq cs π g h n a b hE0 hEn]

/-- The hypotheses are satisfiable (shape only; an accepting run is provided by `C16.range_complete`
in the model and by any honest proof in Rust). -/
example : (1 : Int) < 15 ∧ (0 : Int) < 4 ∧ (4 : Int) < 15 ∧ (15 : Int) % 2 = 1 := by decide

end Zk.C16Neg

#print axioms Zk.C16Neg.powMod_neg_base_even
#print axioms Zk.C16Neg.powMod_neg_base_even'
#print axioms Zk.C16Neg.pw_neg_base_even
#print axioms Zk.C16Neg.rangeVerify_neg_E_eq
#print axioms Zk.C16Neg.rangeVerify_neg_E_accepted
#print axioms Zk.C16Neg.rangeVerify_neg_E_accepted'
#print axioms Zk.C16Neg.rangeVerify_neg_E_iff
