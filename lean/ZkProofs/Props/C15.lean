/-
C15  CL03 proof of knowledge of a signature (`nisp5Gen`/`nisp5Verify`, `proofGen`/`proofVerify`).

All statements are about the L1 model `ZkModel/L1/Cl.lean`, for an arbitrary suite `cs`, arbitrary
tapes, any number of attributes. Arithmetic facts about `pow_mod`/`invert` enter through `ArithOK`.
Algebra is done in `(ℤ/N)ˣ` written additively (`ZkProofs/Lemmas/ClSpok.lean`).

Completeness
* `spok_complete`  : nine-response proof; the five recomputed inputs equal `t_1 … t_5`.
  Needs `U` STRICTLY ASCENDING (see the remark there); nothing else about `U`.
* `proof_complete` : `proof_gen`/`proof_verify`, given the range-proof completeness `RangeComplete cs`
  (C16) as a named hypothesis; `nisp2sec` completeness is proved here (`nisp2sec_complete'`).

"Does not verify with …" (characterisations with explicit events; a panic is not an acceptance)
* `spok_statement_binding` : one proof accepted for two statements (any keys, bases, revealed
  messages, hidden sets, counts) ⇒ the same five hash inputs ∨ `ConcatAmbiguity` ∨ `ClHashCollision`.
* `spok_revealed_binding`  : … differing in one revealed attribute ⇒ `OrderRelation` on `g_{j0}` ∨ ….
* `spok_field_tamper_s1 … _s9`, `spok_field_tamper_s5` : one response altered ⇒ `OrderRelation` on the
  corresponding base ∨ `ConcatAmbiguity` ∨ `ClHashCollision` (`s_6` needs `C_v`, `s_2`/`s_8` need `C_w`
  invertible modulo `N`).
* `spok_surplus_ignored`   : OBSERVATION — surplus entries of `s_5` and surplus revealed messages are
  never read: the claim "does not verify with different revealed attributes" fails for appended ones.
-/
import ZkProofs.Lemmas.ClSpok
set_option linter.unusedSectionVars false
set_option linter.unusedVariables false
namespace Zk.C15
open Zk.IA Zk.Cl Zk.ClSpok

/-- the revealed messages: the messages at the positions outside `U`, in increasing order. -/
def revealedOf (msgs : List Int) (U : List Nat) : List Int :=
  ((List.range' 0 msgs.length).filter (fun i => !U.contains i)).map (fun i => msgs.getD i 0)

/-- Core of the completeness of the nine-response proof, stated in the unit group `(ℤ/N)ˣ`
(`rp N x` = the class of `x`): the five values `in_1 … in_5` the verifier recomputes are the prover's
`t_1 … t_5`. Also returns the opening of `C_e` (needed for the range proof on `e`). -/
theorem spok_complete_core (hA : ArithOK) (cs : Suite) (σ : Signature) (cpk : CommitmentPK)
    (pk : PublicKey) (bases msgs : List Int) (U : List Nat)
    (hNeq : cpk.N = pk.N) (hN : 1 < pk.N)
    (hg : ∀ g ∈ cpk.gBases, IsU pk.N g) (hh : IsU pk.N cpk.h)
    (ha : ∀ a ∈ bases, IsU pk.N a) (hb : IsU pk.N pk.b) (hc : IsU pk.N pk.c)
    (hv : IsU pk.N σ.v) (hv0 : 0 ≤ σ.v)
    (hsig : σ.e • rp pk.N σ.v =
      (∑ j ∈ Finset.range msgs.length, (msgs.getD j 0) • rp pk.N (bases.getD j 1))
        + σ.s • rp pk.N pk.b + rp pk.N pk.c)
    (hn1 : msgs.length ≤ bases.length) (hn2 : msgs.length ≤ cpk.gBases.length)
    (hn0 : 0 < cpk.gBases.length) (hU : U.Pairwise (· < ·))
    (π : SignaturePoK) (t t' : List Draw)
    (hgen : nisp5Gen cs σ cpk pk bases msgs U t = .ok (π, t')) :
    (∀ tv, nisp5Verify π cpk pk bases (revealedOf msgs U) U msgs.length tv = .ok (true, tv)) ∧
      0 ≤ π.Ce.randomness ∧
      π.Ce.value = can pk.N (σ.e • rp pk.N (cpk.gBases.getD 0 1) + π.Ce.randomness • rp pk.N cpk.h) := by
  obtain ⟨Nc, h, gs⟩ := cpk
  simp only at hNeq hg hh hn2 hn0
  subst hNeq
  obtain ⟨N, b, c⟩ := pk
  simp only at hN hg hh ha hb hc hv hsig
  unfold nisp5Gen at hgen
  simp only [] at hgen
  rw [if_neg (by omega)] at hgen
  bstep hgen with Cx t1 hCx
  bstep hgen with Cv t2 hCv
  bstep hgen with Cw t3 hCw
  bstep hgen with Ce t4 hCe
  bstep hgen with r1 t5 hr1
  bstep hgen with r2 t6 hr2
  bstep hgen with r3 t7 hr3
  bstep hgen with r4 t8 hr4
  bstep hgen with r6 t9 hr6
  bstep hgen with r7 t10 hr7
  bstep hgen with r8 t11 hr8
  bstep hgen with r9 t12 hr9
  bstep hgen with r5 t13 hr5
  clear hr1 hr2 hr3 hr4 hr6 hr7 hr8 hr9
  -- the commitments
  have hg0 : IsU N (gs.getD 0 1) := hg _ (getD_mem hn0 1)
  obtain ⟨hrx0, hCxv⟩ := commitWithCpk_inv hA (cpk := ⟨N, h, gs⟩) hN hg hh none
    (by intro i hi; simp only [Option.getD_none, List.mem_range] at hi ⊢; omega) hCx
  obtain ⟨hw0, hCvv⟩ := commitV_inv hA (cpk := ⟨N, h, gs⟩) hN hg hn0 hCv
  obtain ⟨hrw0, hCwv⟩ := commitWithCpk_inv hA (cpk := ⟨N, h, gs⟩) hN hg hh none
    (by intro i hi; simp only [Option.getD_none, List.mem_range, List.length_singleton] at hi ⊢
        omega) hCw
  obtain ⟨hre0, hCev⟩ := commitWithCpk_inv hA (cpk := ⟨N, h, gs⟩) hN hg hh none
    (by intro i hi; simp only [Option.getD_none, List.mem_range, List.length_singleton] at hi ⊢
        omega) hCe
  simp only [Option.getD_none, List.length_singleton, List.range_one, List.map_cons, List.map_nil,
    List.sum_cons, List.sum_nil, add_zero, List.getD_cons_zero, sum_map_range] at hCxv hCwv hCev
  have hCvU : IsU N Cv.value := by
    rw [hCvv, isU_tmod (by omega)]; exact isU_mul hv (isU_can hN _)
  have hCvr : rp N Cv.value = rp N σ.v + Cv.randomness • rp N (gs.getD 0 1) := by
    rw [hCvv, rp_tmod (by omega), rp_mul hv (isU_can hN _), rp_can hN]
  have hCvR : 0 ≤ Cv.value ∧ Cv.value < N := by
    rw [hCvv, tmod_good hN (good_mul ⟨hv0, hv⟩ (good_can hN _))]
    exact ⟨can_nonneg _, can_lt hN _⟩
  clear hCx hCv hCw hCe hCvv
  -- r5
  obtain ⟨hr5l, hr5m⟩ := drawR5_inv _ _ hr5
  clear hr5
  obtain ⟨P1, hP1, hP10, hP1u, hP1r⟩ := prodPowFirst_spec hA hN bases r5 ha msgs.length 0 1
    (by omega) (by omega) (by omega) (isU_one _)
  obtain ⟨P4, hP4, hP40, hP4u, hP4r⟩ := prodPowFirst_spec hA hN gs r5 hg msgs.length 0 1
    (by omega) (by omega) (by omega) (isU_one _)
  have hP1g : Good N P1 := ⟨hP10, hP1u⟩
  have hP4g : Good N P4 := ⟨hP40, hP4u⟩
  rw [hP1, hP4] at hgen
  rw [idx_eq_pure hn0 1] at hgen
  simp only [pure_bind, pw_unit hA hN hCvU, pw_unit hA hN hg0, pw_unit hA hN hh,
    hCwv, pw_can hA hN, divm_one_unit hA hN hg0, divm_one_unit hA hN hh, divm_one_unit hA hN hb,
    tmod_good hN hP1g, divm_one_can hA hN] at hgen
  simp (maxDischargeDepth := 8) only [tmod_good hN, good_mul, good_can hN, hP4g, rp_mul_good,
    rp_can hN] at hgen
  generalize hcdef : hashInts _ = ch at hgen
  bstep hgen with s5 t14 hs5
  obtain ⟨rfl, -, hUlt⟩ := s5_inv U hs5
  clear hs5
  obtain ⟨rfl, -⟩ := ok_inj hgen
  clear hgen
  -- the verifier's loops
  have hfil : (List.range' 0 msgs.length).filter (fun j => U.contains j) = U :=
    filter_contains_eq hU (fun i hi => (hUlt i hi).2)
  obtain ⟨Q1, hQ1, hQ10, hQ1u, hQ1r⟩ := mixLoop_spec hA hN bases
    (U.map (fun i => r5.getD i 0 + msgs.getD i 0 * ch)) (revealedOf msgs U) U ch ha
    (fun i => r5.getD i 0 + msgs.getD i 0 * ch) (fun i => msgs.getD i 0) msgs.length 0 0 0 1
    (by omega) (by rw [List.drop_zero, hfil]) (by rw [List.drop_zero]; rfl) (by omega) (isU_one _)
  obtain ⟨Q4, hQ4, hQ40, hQ4u, hQ4r⟩ := mixLoop_spec hA hN gs
    (U.map (fun i => r5.getD i 0 + msgs.getD i 0 * ch)) (revealedOf msgs U) U ch hg
    (fun i => r5.getD i 0 + msgs.getD i 0 * ch) (fun i => msgs.getD i 0) msgs.length 0 0 0 1
    (by omega) (by rw [List.drop_zero, hfil]) (by rw [List.drop_zero]; rfl) (by omega) (isU_one _)
  have hQ1g : Good N Q1 := ⟨hQ10, hQ1u⟩
  have hQ4g : Good N Q4 := ⟨hQ40, hQ4u⟩
  have hsum : ∀ a : Nat → Grp N, ∑ j ∈ Finset.Ico 0 (0 + msgs.length),
      (if U.contains j = true then r5.getD j 0 + msgs.getD j 0 * ch
        else msgs.getD j 0 + msgs.getD j 0 * ch) • a j =
      ∑ j ∈ Finset.Ico 0 (0 + msgs.length), r5.getD j 0 • a j +
        ch • ∑ j ∈ Finset.range msgs.length, msgs.getD j 0 • a j := by
    intro a
    simp only [zero_add, ← Finset.range_eq_Ico]
    rw [Finset.smul_sum, ← Finset.sum_add_distrib]
    apply Finset.sum_congr rfl
    intro j hj
    split_ifs with hcj
    · module
    · have := (hr5m j (Finset.mem_range.mp hj) (by simpa using hcj)).1
      have e : r5.getD j 0 = msgs.getD j 0 := by
        rw [List.getD_eq_getElem?_getD, List.getD_eq_getElem?_getD, this, Nat.zero_add]
      rw [e]; module
  rw [hsum] at hQ1r hQ4r
  refine ⟨fun tv => ?_, hre0, hCev⟩
  unfold nisp5Verify
  simp only []
  rw [if_neg (by omega), hQ1, hQ4, idx_eq_pure hn0 1]
  simp (maxDischargeDepth := 8) only [pure_bind, pw_unit hA hN hCvU, pw_unit hA hN hg0,
    pw_unit hA hN hh, pw_unit hA hN hc, hCwv, hCxv, hCev, pw_can hA hN, divm_one_unit hA hN hg0,
    divm_one_unit hA hN hh, divm_one_unit hA hN hb, tmod_good hN hQ1g, divm_one_can hA hN,
    tmod_good hN, good_mul, good_can hN, hQ4g, rp_mul_good, rp_can hN, pure_apply]
  refine congrArg (fun z => CRes.ok (z, tv)) ?_
  -- the four commitments are `tmod … N` results of non-negative numbers: reduced
  simp only [Bool.and_eq_true, decide_eq_true_eq]
  refine ⟨⟨⟨⟨?_, can_nonneg _, can_lt hN _⟩, hCvR⟩, can_nonneg _, can_lt hN _⟩, can_nonneg _, can_lt hN _⟩
  rw [beq_iff_eq]
  refine Eq.trans (congrArg hashInts ?_) hcdef
  simp only [List.cons.injEq, and_true]
  rw [hCvr, hQ1r, hP1r, hQ4r, hP4r, rp_one]
  generalize (∑ j ∈ Finset.range msgs.length, msgs.getD j 0 • rp N (bases.getD j 1)) = A at *
  obtain rfl : A = σ.e • rp N σ.v - σ.s • rp N b - rp N c := by rw [hsig]; abel
  refine ⟨?_, ?_, ?_, ?_, ?_⟩ <;> congr 1
  · module
  · module
  · module
  · module
  · module

/-- the hypotheses on the public parameters shared by the C15 theorems: a commitment key over the
issuer's modulus, all public bases invertible modulo `N` (they are quadratic residues coprime to `N`
in every honestly generated key), enough bases. -/
structure Params (cpk : CommitmentPK) (pk : PublicKey) (bases : List Int) (n : Nat) : Prop where
  hNeq : cpk.N = pk.N
  hN : 1 < pk.N
  hg : ∀ g ∈ cpk.gBases, Int.gcd g pk.N = 1
  hh : Int.gcd cpk.h pk.N = 1
  ha : ∀ a ∈ bases, Int.gcd a pk.N = 1
  hb : Int.gcd pk.b pk.N = 1
  hc : Int.gcd pk.c pk.N = 1
  hn2 : n ≤ cpk.gBases.length
  hn0 : 0 < cpk.gBases.length

/-- the hypotheses are satisfiable (toy modulus `N = 35`, all bases `4 = 2²`). -/
example : Params ⟨35, 4, [4, 4]⟩ ⟨35, 4, 4⟩ [4, 4] 2 := by
  constructor <;> simp <;> decide

/-- **C15 (completeness of the nine-response proof).** For every signature accepted by
`verify_multiattr`, every hidden list `U` that is STRICTLY ASCENDING (the only condition on `U`;
members `≥ n` make the generator panic, so they are excluded by `hgen`), every tape on which
`nisp5_MultiAttr_generate_proof` returns, the proof verifies against the revealed messages (those at
the positions outside `U`, in increasing order), the same keys, bases, `U` and attribute count.

Observation about the API: `U` must be sorted. The prover lists `s_5` in the order of `U`, the
verifier consumes `s_5` in increasing order of the position `i`; for an unsorted `U` (e.g. `[1, 0]`)
position `0` is checked against the response of position `1` and the proof is rejected (except with
the probability of a hash coincidence). Duplicates in `U` shift the responses in the same way. -/
theorem spok_complete (hA : ArithOK) (cs : Suite) (σ : Signature) (cpk : CommitmentPK)
    (pk : PublicKey) (bases msgs : List Int) (U : List Nat)
    (hp : Params cpk pk bases msgs.length) (hU : U.Pairwise (· < ·))
    (tσ tσ' : List Draw) (hσ : verifyMultiattr cs σ pk bases msgs tσ = .ok (true, tσ'))
    (π : SignaturePoK) (t t' : List Draw)
    (hgen : nisp5Gen cs σ cpk pk bases msgs U t = .ok (π, t')) (tv : List Draw) :
    nisp5Verify π cpk pk bases (revealedOf msgs U) U msgs.length tv = .ok (true, tv) := by
  have hN0 : 0 ≤ pk.N := by have := hp.hN; omega
  have ha : ∀ a ∈ bases, IsU pk.N a := fun a h => isU_of_gcd hN0 (hp.ha a h)
  have hb := isU_of_gcd hN0 hp.hb
  have hc := isU_of_gcd hN0 hp.hc
  obtain ⟨hn1, -, -, -, hv, hvr, hsig⟩ := verifyMultiattr_true_inv hA hp.hN ha hb hc hσ
  exact (spok_complete_core hA cs σ cpk pk bases msgs U hp.hNeq hp.hN
    (fun g h => isU_of_gcd hN0 (hp.hg g h)) (isU_of_gcd hN0 hp.hh) ha hb hc hv (le_of_lt hvr.1) hsig hn1
    hp.hn2 hp.hn0
    hU π t t' hgen).1 tv

/-! ### `proofGen` / `proofVerify` -/

/-- Completeness of the Boudot range proof in the form used here (the range proofs are C16's):
a range proof generated for a value `x ∈ [lo, hi]` and a commitment `c = g^x h^r mod n` with
non-negative randomness, over invertible bases, verifies. -/
def RangeComplete (cs : Suite) : Prop :=
  ∀ (x : Int) (c : Commitment) (g h n lo hi : Int) (π : RangeProof) (t t' : List Draw),
    1 < n → Int.gcd g n = 1 → Int.gcd h n = 1 → lo ≤ x → x ≤ hi → 0 ≤ c.randomness →
    0 ≤ c.value → c.value < n →
    (∃ a b, powMod g x n = some a ∧ powMod h c.randomness n = some b ∧ c.value = tmod (a * b) n) →
    rangeProve cs x c g h n lo hi t = .ok (π, t') →
    ∀ tv, rangeVerify cs π g h n lo hi tv = .ok (true, tv)

/-- the range proof carries the commitment value it is about. -/
theorem rangeProve_E {cs : Suite} {x : Int} {c : Commitment} {g h n lo hi : Int} {π : RangeProof}
    {t t' : List Draw} (hgen : rangeProve cs x c g h n lo hi t = .ok (π, t')) : π.E = c.value := by
  unfold rangeProve at hgen
  split at hgen
  · cases hgen
  simp only [] at hgen
  bstep hgen with E' t1 h1
  bstep hgen with tol t2 h2
  obtain ⟨rfl, -⟩ := ok_inj hgen
  rfl

/-- the verifier reads only the values of the four commitments. -/
theorem nisp5Verify_strip (π : SignaturePoK) (cpk : CommitmentPK) (pk : PublicKey) (bases rev : List Int)
    (U : List Nat) (n : Nat) :
    nisp5Verify { π with Cx := publicPart π.Cx, Cv := publicPart π.Cv, Cw := publicPart π.Cw,
                         Ce := publicPart π.Ce } cpk pk bases rev U n =
      nisp5Verify π cpk pk bases rev U n := rfl

/-- what `RangeComplete` needs of a commitment with value `can N (x • [g] + r • [h])`. -/
theorem opening_of_can (hA : ArithOK) {N g h : Int} (hN : 1 < N) (hg : IsU N g) (hh : IsU N h)
    (x r : Int) :
    ∃ a b, powMod g x N = some a ∧ powMod h r N = some b ∧
      can N (x • rp N g + r • rp N h) = tmod (a * b) N := by
  refine ⟨_, _, powMod_unit hA hN hg x, powMod_unit hA hN hh r, ?_⟩
  rw [tmod_good hN (good_mul (good_can hN _) (good_can hN _)),
    rp_mul_good (good_can hN _) (good_can hN _), rp_can hN, rp_can hN]

/-- completeness of `nisp2sec` for a commitment `g^m h^r` over invertible bases (any `m`). -/
theorem nisp2sec_complete' (hA : ArithOK) {cs : Suite} {m : Int} {c : Commitment} {g h N : Int}
    (hN : 1 < N) (hg : IsU N g) (hh : IsU N h)
    (hc : c.value = can N (m • rp N g + c.randomness • rp N h))
    {π : NISPSecrets} {t t' : List Draw} (hgen : nisp2secGen cs m c g h N t = .ok (π, t'))
    (tv : List Draw) : nisp2secVerify π c.value g h N tv = .ok (true, tv) := by
  unfold nisp2secGen at hgen
  bstep hgen with r1 t1 h1
  bstep hgen with r2 t2 h2
  simp (maxDischargeDepth := 8) only [pure_bind, pw_unit hA hN hg, pw_unit hA hN hh, tmod_good hN,
    good_mul, good_can hN, rp_mul_good, rp_can hN] at hgen
  obtain ⟨rfl, -⟩ := ok_inj hgen
  unfold nisp2secVerify
  simp (maxDischargeDepth := 8) only [pure_bind, pw_unit hA hN hg, pw_unit hA hN hh, hc,
    pw_can hA hN, tmod_good hN, good_mul, good_can hN, rp_mul_good, rp_can hN, pure_apply]
  refine congrArg (fun z => CRes.ok (z, tv)) ?_
  rw [beq_iff_eq]
  congr 1
  module

/-- the per-attribute proofs generated for the hidden positions verify, in the order of `U`. -/
theorem pokMi_complete (hA : ArithOK) (cs : Suite) (hRange : RangeComplete cs) (cpk : CommitmentPK)
    (msgs : List Int) (hN : 1 < cpk.N) (hg : ∀ g ∈ cpk.gBases, IsU cpk.N g) (hh : IsU cpk.N cpk.h)
    (hm : ∀ m ∈ msgs, 0 ≤ m ∧ m < 2 ^ cs.lm) (π : PoKSignature)
    (U : List Nat) (k : Nat) (ps : List ProofOfValue) (rs : List RangeProof) (t t' : List Draw)
    (hgen : pokMiLoop cs cpk msgs U t = .ok ((ps, rs), t'))
    (hps : π.proofsMi.drop k = ps) (hrs : π.rangeProofsMi.drop k = rs) (tv : List Draw) :
    pokMiVerifyLoop cs cpk π U k tv = .ok (true, tv) := by
  induction U generalizing k ps rs t t' with
  | nil => rfl
  | cons i is ih =>
    unfold pokMiLoop at hgen
    bstep hgen with mi t1 h1
    bstep hgen with gi t2 h2
    bstep hgen with cmi t3 h3
    bstep hgen with pv t4 h4
    bstep hgen with rp' t5 h5
    bstep hgen with pr t6 h6
    obtain ⟨ps', rs'⟩ := pr
    obtain ⟨hgen, -⟩ := ok_inj hgen
    obtain ⟨rfl, rfl⟩ := Prod.mk.inj hgen
    obtain ⟨hmi, -⟩ := idx_ok_iff.mp h1
    obtain ⟨hgi, -⟩ := idx_ok_iff.mp h2
    have hil : i < msgs.length := by
      by_contra hlt; rw [List.getElem?_eq_none (by omega)] at hmi; cases hmi
    have hig : i < cpk.gBases.length := by
      by_contra hlt; rw [List.getElem?_eq_none (by omega)] at hgi; cases hgi
    have hmi' : msgs.getD i 0 = mi := by rw [List.getD_eq_getElem?_getD, hmi]; rfl
    have hgi' : cpk.gBases.getD i 1 = gi := by rw [List.getD_eq_getElem?_getD, hgi]; rfl
    have hgiU : IsU cpk.N gi := hgi' ▸ hg _ (getD_mem hig 1)
    have hmiR := hm mi (List.mem_of_getElem? hmi)
    obtain ⟨hr0, hcv⟩ := commitWithCpk_inv hA hN hg hh (some [i])
      (by intro j hj; simp only [Option.getD_some, List.mem_singleton] at hj; subst hj
          exact ⟨hig, hil⟩) h3
    simp only [Option.getD_some, List.map_cons, List.map_nil, List.sum_cons, List.sum_nil, add_zero,
      hmi', hgi'] at hcv
    obtain ⟨hp1, hp2⟩ := drop_cons_inv hps
    obtain ⟨hr1, hr2⟩ := drop_cons_inv hrs
    unfold pokMiVerifyLoop
    rw [idx_of_getElem? hgi, idx_of_getElem? hp1, idx_of_getElem? hr1]
    simp only [pure_bind]
    show (nisp2secVerify pv cmi.value gi cpk.h cpk.N >>= _) tv = _
    rw [bind_of_ok (nisp2sec_complete' hA hN hgiU hh hcv h4 tv)]
    simp only [Bool.not_true, Bool.false_eq_true, if_false]
    have hrange := hRange mi cmi gi cpk.h cpk.N 0 (2 ^ cs.lm - 1) rp' _ _ hN
      (gcd_of_isU (by omega) hgiU) (gcd_of_isU (by omega) hh) hmiR.1 (by omega) hr0
      (by rw [hcv]; exact can_nonneg _) (by rw [hcv]; exact can_lt hN _)
      (by rw [hcv]; exact opening_of_can hA hN hgiU hh _ _) h5 tv
    rw [bind_of_ok hrange]
    simp only [Bool.not_true, Bool.false_eq_true, if_false]
    exact ih (k + 1) ps' rs' _ _ h6 hp2 hr2

/-- **C15 (completeness of `proof_gen` / `proof_verify`).** Given the completeness of the range
proofs (`hRange`, C16), for every accepted signature and strictly ascending hidden list `U`, the full
proof — nine-response proof, range proof on `e ∈ [2^(le-1)+1, 2^le − 1]` linked through
`C_e.value == rangeProofE.E`, and per hidden attribute a commitment, a `nisp2sec` proof and a range
proof in `[0, 2^lm − 1]` — verifies. -/
theorem proof_complete (hA : ArithOK) (cs : Suite) (hRange : RangeComplete cs) (σ : Signature)
    (cpk : CommitmentPK) (pk : PublicKey) (bases msgs : List Int) (U : List Nat)
    (hp : Params cpk pk bases msgs.length) (hU : U.Pairwise (· < ·))
    (tσ tσ' : List Draw) (hσ : verifyMultiattr cs σ pk bases msgs tσ = .ok (true, tσ'))
    (π : PoKSignature) (t t' : List Draw)
    (hgen : proofGen cs σ cpk pk bases msgs U t = .ok (π, t')) (tv : List Draw) :
    proofVerify cs π cpk pk bases (revealedOf msgs U) U msgs.length tv = .ok (true, tv) := by
  have hN0 : 0 ≤ pk.N := by have := hp.hN; omega
  have ha : ∀ a ∈ bases, IsU pk.N a := fun a h => isU_of_gcd hN0 (hp.ha a h)
  have hb := isU_of_gcd hN0 hp.hb
  have hc := isU_of_gcd hN0 hp.hc
  have hg : ∀ g ∈ cpk.gBases, IsU pk.N g := fun g h => isU_of_gcd hN0 (hp.hg g h)
  have hh := isU_of_gcd hN0 hp.hh
  obtain ⟨hn1, he1, he2, hm, hv, hvr, hsig⟩ := verifyMultiattr_true_inv hA hp.hN ha hb hc hσ
  unfold proofGen at hgen
  bstep hgen with spok t1 h1
  bstep hgen with g0 t2 h2
  bstep hgen with rpe t3 h3
  bstep hgen with pr t4 h4
  obtain ⟨ps, rs⟩ := pr
  obtain ⟨rfl, -⟩ := ok_inj hgen
  obtain ⟨hver, hre0, hCe⟩ := spok_complete_core hA cs σ cpk pk bases msgs U hp.hNeq hp.hN
    hg hh ha hb hc hv (le_of_lt hvr.1) hsig hn1 hp.hn2 hp.hn0 hU spok t _ h1
  obtain ⟨hg0, -⟩ := idx_ok_iff.mp h2
  have hg0' : cpk.gBases.getD 0 1 = g0 := by rw [List.getD_eq_getElem?_getD, hg0]; rfl
  have hg0U : IsU pk.N g0 := hg0' ▸ hg _ (getD_mem hp.hn0 1)
  rw [hg0'] at hCe
  have hE := rangeProve_E h3
  have hNeq := hp.hNeq
  unfold proofVerify
  simp only [nisp5Verify_strip]
  rw [bind_of_ok (hver tv)]
  simp only [Bool.not_true, Bool.false_eq_true, if_false, publicPart, hE, beq_self_eq_true, if_true]
  rw [idx_of_getElem? hg0]
  simp only [pure_bind]
  rw [hNeq] at h3 ⊢
  have hrange := hRange σ.e spok.Ce g0 cpk.h pk.N (2 ^ (cs.le - 1) + 1) (2 ^ cs.le - 1) rpe _ _ hp.hN
    (gcd_of_isU hN0 hg0U) hp.hh (by omega) (by omega) hre0
    (by rw [hCe]; exact can_nonneg _) (by rw [hCe]; exact can_lt hp.hN _)
    (by rw [hCe]; exact opening_of_can hA hp.hN hg0U hh _ _) h3 tv
  rw [bind_of_ok hrange]
  simp only [if_true]
  rw [← hNeq] at hg hh
  exact pokMi_complete hA cs hRange cpk msgs (hNeq ▸ hp.hN) hg hh hm _ U 0 ps rs _ _ h4 rfl rfl tv

/-! ### what acceptance means; altered fields -/

/-- An accepting run recomputes five values whose hash is the challenge. -/
theorem accept_hash {π : SignaturePoK} {cpk : CommitmentPK} {pk : PublicKey} {bases rev : List Int}
    {U : List Nat} {n : Nat} {tv tv' : List Draw}
    (h : nisp5Verify π cpk pk bases rev U n tv = .ok (true, tv')) :
    ∃ v : View π cpk pk bases rev U n, hashInts v.inputs = π.challenge := by
  obtain ⟨v, hv⟩ := nisp5Verify_view h
  exact ⟨v, by rw [eq_comm, Bool.and_eq_true, beq_iff_eq] at hv; exact hv.1⟩

/-- **Canonical representatives.** An accepting run of the nine-response verifier has checked that the
values of the four commitments `C_x`, `C_v`, `C_w`, `C_e` are reduced modulo the signer's `N`: each lies
in `[0, N)`. (Before this check a proof stayed accepted with `N` added to or subtracted from `C_x`, `C_v`
or `C_w`.) No hypotheses. -/
theorem nisp5Verify_commitments_reduced {π : SignaturePoK} {cpk : CommitmentPK} {pk : PublicKey}
    {bases rev : List Int} {U : List Nat} {n : Nat} {tv tv' : List Draw}
    (h : nisp5Verify π cpk pk bases rev U n tv = .ok (true, tv')) :
    (0 ≤ π.Cx.value ∧ π.Cx.value < pk.N) ∧ (0 ≤ π.Cv.value ∧ π.Cv.value < pk.N) ∧
      (0 ≤ π.Cw.value ∧ π.Cw.value < pk.N) ∧ (0 ≤ π.Ce.value ∧ π.Ce.value < pk.N) := by
  obtain ⟨v, hv⟩ := nisp5Verify_view h
  rw [eq_comm, Bool.and_eq_true] at hv
  exact commitmentsReduced_iff.mp hv.2

/-- **At most one representative of each commitment is accepted.** If a proof is accepted, the proof with
a non-zero multiple of `N` added to the value of `C_x` (resp. `C_v`, `C_w`, `C_e`) is not — for any statement
with the same signer key, on any tape. -/
theorem nisp5Verify_rejects_shifted_commitment {π : SignaturePoK} {cpk cpk' : CommitmentPK}
    {pk pk' : PublicKey} (hpk : pk'.N = pk.N) {bases bases' rev rev' : List Int} {U U' : List Nat}
    {n n' : Nat} {tv tv' tw tw' : List Draw} {k : Int} (hk : k ≠ 0)
    (h : nisp5Verify π cpk pk bases rev U n tv = .ok (true, tv')) :
    nisp5Verify { π with Cx := ⟨π.Cx.value + k * pk.N, π.Cx.randomness⟩ } cpk' pk' bases' rev' U' n' tw
        ≠ .ok (true, tw') ∧
    nisp5Verify { π with Cv := ⟨π.Cv.value + k * pk.N, π.Cv.randomness⟩ } cpk' pk' bases' rev' U' n' tw
        ≠ .ok (true, tw') ∧
    nisp5Verify { π with Cw := ⟨π.Cw.value + k * pk.N, π.Cw.randomness⟩ } cpk' pk' bases' rev' U' n' tw
        ≠ .ok (true, tw') ∧
    nisp5Verify { π with Ce := ⟨π.Ce.value + k * pk.N, π.Ce.randomness⟩ } cpk' pk' bases' rev' U' n' tw
        ≠ .ok (true, tw') := by
  obtain ⟨hx, hv, hw, he⟩ := nisp5Verify_commitments_reduced h
  have sx := shift_not_reduced (N := pk.N) hk hx.1 hx.2
  have sv := shift_not_reduced (N := pk.N) hk hv.1 hv.2
  have sw := shift_not_reduced (N := pk.N) hk hw.1 hw.2
  have se := shift_not_reduced (N := pk.N) hk he.1 he.2
  refine ⟨fun h' => ?_, fun h' => ?_, fun h' => ?_, fun h' => ?_⟩ <;>
    obtain ⟨hx', hv', hw', he'⟩ := nisp5Verify_commitments_reduced h' <;>
    simp only [hpk] at hx' hv' hw' he' <;> omega

theorem idx_mem {α} {l : List α} {i : Nat} {x : α} (h : Cl.idx l i = pure x) : x ∈ l := by
  have := congrFun h []
  exact List.mem_of_getElem? (idx_ok_iff.mp this).1

/-- **C15 (statement binding, the hash step).** If the same proof `π` is accepted for two statements
(any two commitment keys, signer keys, base lists, revealed-message lists, hidden sets and attribute
counts), then both runs recompute the same five hash inputs — or the two input tuples have the same
decimal concatenation, or SHA-256 collides. (A refusal by panic is not an acceptance.) -/
theorem spok_statement_binding {π : SignaturePoK} {cpk cpk' : CommitmentPK} {pk pk' : PublicKey}
    {bases bases' rev rev' : List Int} {U U' : List Nat} {n n' : Nat} {tv tv' tw tw' : List Draw}
    (h : nisp5Verify π cpk pk bases rev U n tv = .ok (true, tv'))
    (h' : nisp5Verify π cpk' pk' bases' rev' U' n' tw = .ok (true, tw')) :
    ∃ (v : View π cpk pk bases rev U n) (v' : View π cpk' pk' bases' rev' U' n'),
      (v.in1 = v'.in1 ∧ v.in2 = v'.in2 ∧ v.in3 = v'.in3 ∧ v.in4 = v'.in4 ∧ v.in5 = v'.in5) ∨
        ConcatAmbiguity ∨ ClHashCollision := by
  obtain ⟨v, hv⟩ := accept_hash h
  obtain ⟨v', hv'⟩ := accept_hash h'
  refine ⟨v, v', ?_⟩
  rcases hashInts_inj (hv.trans hv'.symm) with hl | he | he
  · left
    simp only [View.inputs, List.cons.injEq, and_true] at hl
    exact hl
  · exact Or.inr (Or.inl he)
  · exact Or.inr (Or.inr he)

/-- the hash step for a proof with one field altered (same challenge, same statement). -/
theorem tamper_hash {π π' : SignaturePoK} {cpk : CommitmentPK}
    {pk : PublicKey} {bases rev : List Int} {U : List Nat} {n : Nat} {tv tv' tw tw' : List Draw}
    (h : nisp5Verify π cpk pk bases rev U n tv = .ok (true, tv'))
    (h' : nisp5Verify π' cpk pk bases rev U n tw = .ok (true, tw'))
    (hc : π'.challenge = π.challenge) :
    ∃ (v : View π cpk pk bases rev U n) (v' : View π' cpk pk bases rev U n),
      0 ≤ π.challenge ∧
      ((v.in1 = v'.in1 ∧ v.in2 = v'.in2 ∧ v.in3 = v'.in3 ∧ v.in4 = v'.in4 ∧ v.in5 = v'.in5) ∨
        ConcatAmbiguity ∨ ClHashCollision) := by
  obtain ⟨v, hv⟩ := accept_hash h
  obtain ⟨v', hv'⟩ := accept_hash h'
  refine ⟨v, v', hv ▸ hashInts_nonneg' _, ?_⟩
  rcases hashInts_inj (hv.trans (hc ▸ hv'.symm)) with hl | he | he
  · left
    simp only [View.inputs, List.cons.injEq, and_true] at hl
    exact hl
  · exact Or.inr (Or.inl he)
  · exact Or.inr (Or.inr he)

section tamper
variable {π : SignaturePoK} {cpk : CommitmentPK} {pk : PublicKey}
  {bases rev : List Int} {U : List Nat} {n : Nat} {tv tv' tw tw' : List Draw}

/-- **C15 (altered `s_1`).** If an accepted proof is still accepted after `s_1` is replaced by a
different value, then `h^k ≡ 1 (mod N)` for `k = |s_1 − s_1'| ≠ 0`, or the hash inputs collide. -/
theorem spok_field_tamper_s1 (hA : ArithOK) (hN : 1 < pk.N) (hg : ∀ g ∈ cpk.gBases, Int.gcd g pk.N = 1)
    (hh : Int.gcd cpk.h pk.N = 1) (s1' : Int) (hne : s1' ≠ π.s1)
    (h : nisp5Verify π cpk pk bases rev U n tv = .ok (true, tv'))
    (h' : nisp5Verify { π with s1 := s1' } cpk pk bases rev U n tw = .ok (true, tw')) :
    OrderRelation pk.N cpk.h ∨ ConcatAmbiguity ∨ ClHashCollision := by
  obtain ⟨v, v', hc0, hl | he⟩ := tamper_hash h h' rfl
  · left
    have hhU := isU_of_gcd (by omega) hh
    have eg0 : v'.g0 = v.g0 := pure_inj (v'.e_g0.symm.trans v.e_g0)
    have hg0U : IsU pk.N v.g0 := isU_of_gcd (by omega) (hg _ (idx_mem v.e_g0))
    have eg7 : v'.g7 = v.g7 := by
      have := v'.e_g7; rw [eg0] at this; exact pure_inj (this.symm.trans v.e_g7)
    have ecw : v'.cw = v.cw := pure_inj (v'.e_cw.symm.trans v.e_cw)
    have h2 := hl.2.1
    unfold View.in2 at h2
    rw [eg7, ecw] at h2
    exact orderRelation_of_tamper hN hhU hne.symm
      (tamper_core hA hN hhU v.e_h1 v'.e_h1 (co := v.g7 * v.cw)
        (isU_mul (good_of_pw hA hN hg0U v.e_g7).2 (good_of_pw_nonpos hA hN (by omega) v.e_cw).2)
        (by ring) (by ring) h2)
  · exact Or.inr he

/-- **C15 (altered `s_7`)**: `OrderRelation` on `g_0`. -/
theorem spok_field_tamper_s7 (hA : ArithOK) (hN : 1 < pk.N) (hg : ∀ g ∈ cpk.gBases, Int.gcd g pk.N = 1)
    (hh : Int.gcd cpk.h pk.N = 1) (s7' : Int) (hne : s7' ≠ π.s7)
    (h : nisp5Verify π cpk pk bases rev U n tv = .ok (true, tv'))
    (h' : nisp5Verify { π with s7 := s7' } cpk pk bases rev U n tw = .ok (true, tw')) :
    (∃ g0, cpk.gBases[0]? = some g0 ∧ OrderRelation pk.N g0) ∨ ConcatAmbiguity ∨ ClHashCollision := by
  obtain ⟨v, v', hc0, hl | he⟩ := tamper_hash h h' rfl
  · left
    have hhU := isU_of_gcd (by omega) hh
    have eg0 : v'.g0 = v.g0 := pure_inj (v'.e_g0.symm.trans v.e_g0)
    have hg0U : IsU pk.N v.g0 := isU_of_gcd (by omega) (hg _ (idx_mem v.e_g0))
    have eh1 : v'.h1 = v.h1 := pure_inj (v'.e_h1.symm.trans v.e_h1)
    have ecw : v'.cw = v.cw := pure_inj (v'.e_cw.symm.trans v.e_cw)
    have h2 := hl.2.1
    unfold View.in2 at h2
    rw [eh1, ecw] at h2
    have e7 := v'.e_g7
    rw [eg0] at e7
    refine ⟨v.g0, (idx_ok_iff.mp (congrFun v.e_g0 [])).1, ?_⟩
    exact orderRelation_of_tamper hN hg0U hne.symm
      (tamper_core hA hN hg0U v.e_g7 e7 (co := v.h1 * v.cw)
        (isU_mul (good_of_pw hA hN hhU v.e_h1).2 (good_of_pw_nonpos hA hN (by omega) v.e_cw).2)
        (by ring) (by ring) h2)
  · exact Or.inr he

/-- **C15 (altered `s_9`)**: `OrderRelation` on `h`. -/
theorem spok_field_tamper_s9 (hA : ArithOK) (hN : 1 < pk.N) (hg : ∀ g ∈ cpk.gBases, Int.gcd g pk.N = 1)
    (hh : Int.gcd cpk.h pk.N = 1) (s9' : Int) (hne : s9' ≠ π.s9)
    (h : nisp5Verify π cpk pk bases rev U n tv = .ok (true, tv'))
    (h' : nisp5Verify { π with s9 := s9' } cpk pk bases rev U n tw = .ok (true, tw')) :
    OrderRelation pk.N cpk.h ∨ ConcatAmbiguity ∨ ClHashCollision := by
  obtain ⟨v, v', hc0, hl | he⟩ := tamper_hash h h' rfl
  · left
    have hhU := isU_of_gcd (by omega) hh
    have eg0 : v'.g0 = v.g0 := pure_inj (v'.e_g0.symm.trans v.e_g0)
    have hg0U : IsU pk.N v.g0 := isU_of_gcd (by omega) (hg _ (idx_mem v.e_g0))
    have eg4 : v'.g4 = v.g4 := by
      have := v'.e_g4; rw [eg0] at this; exact pure_inj (this.symm.trans v.e_g4)
    have ece : v'.ce = v.ce := pure_inj (v'.e_ce.symm.trans v.e_ce)
    have h5 := hl.2.2.2.2
    unfold View.in5 at h5
    rw [eg4, ece] at h5
    exact orderRelation_of_tamper hN hhU hne.symm
      (tamper_core hA hN hhU v.e_h9 v'.e_h9 (co := v.g4 * v.ce)
        (isU_mul (good_of_pw hA hN hg0U v.e_g4).2 (good_of_pw_nonpos hA hN (by omega) v.e_ce).2)
        (by ring) (by ring) h5)
  · exact Or.inr he

/-- **C15 (altered `s_4`)**: through `in_5 = g_0^{s_4} h^{s_9} C_e^{-c}`, `OrderRelation` on `g_0`. -/
theorem spok_field_tamper_s4 (hA : ArithOK) (hN : 1 < pk.N) (hg : ∀ g ∈ cpk.gBases, Int.gcd g pk.N = 1)
    (hh : Int.gcd cpk.h pk.N = 1) (s4' : Int) (hne : s4' ≠ π.s4)
    (h : nisp5Verify π cpk pk bases rev U n tv = .ok (true, tv'))
    (h' : nisp5Verify { π with s4 := s4' } cpk pk bases rev U n tw = .ok (true, tw')) :
    (∃ g0, cpk.gBases[0]? = some g0 ∧ OrderRelation pk.N g0) ∨ ConcatAmbiguity ∨ ClHashCollision := by
  obtain ⟨v, v', hc0, hl | he⟩ := tamper_hash h h' rfl
  · left
    have hhU := isU_of_gcd (by omega) hh
    have eg0 : v'.g0 = v.g0 := pure_inj (v'.e_g0.symm.trans v.e_g0)
    have hg0U : IsU pk.N v.g0 := isU_of_gcd (by omega) (hg _ (idx_mem v.e_g0))
    have eh9 : v'.h9 = v.h9 := pure_inj (v'.e_h9.symm.trans v.e_h9)
    have ece : v'.ce = v.ce := pure_inj (v'.e_ce.symm.trans v.e_ce)
    have h5 := hl.2.2.2.2
    unfold View.in5 at h5
    rw [eh9, ece] at h5
    have e4 := v'.e_g4
    rw [eg0] at e4
    refine ⟨v.g0, (idx_ok_iff.mp (congrFun v.e_g0 [])).1, ?_⟩
    exact orderRelation_of_tamper hN hg0U hne.symm
      (tamper_core hA hN hg0U v.e_g4 e4 (co := v.h9 * v.ce)
        (isU_mul (good_of_pw hA hN hhU v.e_h9).2 (good_of_pw_nonpos hA hN (by omega) v.e_ce).2)
        (by ring) (by ring) h5)
  · exact Or.inr he

/-- **C15 (altered `s_3`)**: through `in_4`, `OrderRelation` on `h`. -/
theorem spok_field_tamper_s3 (hA : ArithOK) (hN : 1 < pk.N) (hg : ∀ g ∈ cpk.gBases, Int.gcd g pk.N = 1)
    (hh : Int.gcd cpk.h pk.N = 1) (s3' : Int) (hne : s3' ≠ π.s3)
    (h : nisp5Verify π cpk pk bases rev U n tv = .ok (true, tv'))
    (h' : nisp5Verify { π with s3 := s3' } cpk pk bases rev U n tw = .ok (true, tw')) :
    OrderRelation pk.N cpk.h ∨ ConcatAmbiguity ∨ ClHashCollision := by
  obtain ⟨v, v', hc0, hl | he⟩ := tamper_hash h h' rfl
  · left
    have hhU := isU_of_gcd (by omega) hh
    have em4 : v'.m4 = v.m4 := pure_inj (v'.e_m4.symm.trans v.e_m4)
    have ecx : v'.cx = v.cx := pure_inj (v'.e_cx.symm.trans v.e_cx)
    have hm4 : Good pk.N v.m4 := mixLoop_good hA hN _ _ _ _ _
      (fun g hgm => isU_of_gcd (by omega) (hg g hgm)) _ _ _ _ _ _ good_one v.e_m4
    have h4 := hl.2.2.2.1
    unfold View.in4 at h4
    rw [em4, ecx] at h4
    exact orderRelation_of_tamper hN hhU hne.symm
      (tamper_core hA hN hhU v.e_h3 v'.e_h3 (co := v.m4 * v.cx)
        (isU_mul hm4.2 (good_of_pw_nonpos hA hN (by omega) v.e_cx).2)
        (by ring) (by ring) h4)
  · exact Or.inr he

/-- **C15 (altered `s_6`)**: through `in_1`; needs `C_v` invertible modulo `N` (a non-invertible
non-zero `C_v` exhibits a factor of `N`). `OrderRelation` on `b`. -/
theorem spok_field_tamper_s6 (hA : ArithOK) (hN : 1 < pk.N) (hg : ∀ g ∈ cpk.gBases, Int.gcd g pk.N = 1)
    (ha : ∀ a ∈ bases, Int.gcd a pk.N = 1) (hb : Int.gcd pk.b pk.N = 1)
    (hCv : Int.gcd π.Cv.value pk.N = 1) (s6' : Int) (hne : s6' ≠ π.s6)
    (h : nisp5Verify π cpk pk bases rev U n tv = .ok (true, tv'))
    (h' : nisp5Verify { π with s6 := s6' } cpk pk bases rev U n tw = .ok (true, tw')) :
    OrderRelation pk.N pk.b ∨ ConcatAmbiguity ∨ ClHashCollision := by
  obtain ⟨v, v', hc0, hl | he⟩ := tamper_hash h h' rfl
  · left
    have hbU := isU_of_gcd (by omega) hb
    have hCvU := isU_of_gcd (by omega) hCv
    have eg0 : v'.g0 = v.g0 := pure_inj (v'.e_g0.symm.trans v.e_g0)
    have hg0U : IsU pk.N v.g0 := isU_of_gcd (by omega) (hg _ (idx_mem v.e_g0))
    have ea : v'.a = v.a := pure_inj (v'.e_a.symm.trans v.e_a)
    have etCx : v'.tCx = v.tCx := pure_inj (v'.e_tCx.symm.trans v.e_tCx)
    have eitCx : v'.itCx = v.itCx := by
      have := v'.e_itCx; rw [etCx] at this; exact pure_inj (this.symm.trans v.e_itCx)
    have eib : v'.ib = v.ib := pure_inj (v'.e_ib.symm.trans v.e_ib)
    have eig : v'.ig = v.ig := by
      have := v'.e_ig; rw [eg0] at this; exact pure_inj (this.symm.trans v.e_ig)
    have eig8 : v'.ig8 = v.ig8 := by
      have := v'.e_ig8; rw [eig] at this; exact pure_inj (this.symm.trans v.e_ig8)
    have ecc : v'.cc = v.cc := pure_inj (v'.e_cc.symm.trans v.e_cc)
    have htCx : Good pk.N v.tCx := mixLoop_good hA hN _ _ _ _ _
      (fun a ham => isU_of_gcd (by omega) (ha a ham)) _ _ _ _ _ _ good_one v.e_tCx
    have hitCx : IsU pk.N v.itCx := by
      rw [eq_can_of_divm hA hN (good_tmod hN htCx).2 v.e_itCx]; exact isU_can hN _
    have hib : v.ib = can pk.N (-(rp pk.N pk.b)) := eq_can_of_divm hA hN hbU v.e_ib
    have hibU : IsU pk.N v.ib := by rw [hib]; exact isU_can hN _
    have hig : IsU pk.N v.ig := by rw [eq_can_of_divm hA hN hg0U v.e_ig]; exact isU_can hN _
    have h1 := hl.1
    unfold View.in1 at h1
    rw [ea, eitCx, eig8, ecc] at h1
    have e6 := v'.e_ib6
    rw [eib] at e6
    have hz := tamper_core hA hN hibU v.e_ib6 e6 (co := v.a * v.itCx * v.ig8 * v.cc)
        (isU_mul (isU_mul (isU_mul (good_of_pw hA hN hCvU v.e_a).2 hitCx)
          (good_of_pw hA hN hig v.e_ig8).2) (good_of_pw_nonpos hA hN (by omega) v.e_cc).2)
        (by ring) (by ring) h1
    rw [hib, rp_can hN] at hz
    refine orderRelation_of_tamper hN hbU hne ?_
    have : (s6' - π.s6) • rp pk.N pk.b = (π.s6 - s6') • -(rp pk.N pk.b) := by module
    rw [this]; exact hz
  · exact Or.inr he

/-- **C15 (altered `s_2`)**: through `in_3`; needs `C_w` invertible modulo `N`. `OrderRelation` on `h`. -/
theorem spok_field_tamper_s2 (hA : ArithOK) (hN : 1 < pk.N) (hg : ∀ g ∈ cpk.gBases, Int.gcd g pk.N = 1)
    (hh : Int.gcd cpk.h pk.N = 1) (hCw : Int.gcd π.Cw.value pk.N = 1) (s2' : Int) (hne : s2' ≠ π.s2)
    (h : nisp5Verify π cpk pk bases rev U n tv = .ok (true, tv'))
    (h' : nisp5Verify { π with s2 := s2' } cpk pk bases rev U n tw = .ok (true, tw')) :
    OrderRelation pk.N cpk.h ∨ ConcatAmbiguity ∨ ClHashCollision := by
  obtain ⟨v, v', hc0, hl | he⟩ := tamper_hash h h' rfl
  · left
    have hhU := isU_of_gcd (by omega) hh
    have hCwU := isU_of_gcd (by omega) hCw
    have eg0 : v'.g0 = v.g0 := pure_inj (v'.e_g0.symm.trans v.e_g0)
    have hg0U : IsU pk.N v.g0 := isU_of_gcd (by omega) (hg _ (idx_mem v.e_g0))
    have ecw4 : v'.cw4 = v.cw4 := pure_inj (v'.e_cw4.symm.trans v.e_cw4)
    have eig : v'.ig = v.ig := by
      have := v'.e_ig; rw [eg0] at this; exact pure_inj (this.symm.trans v.e_ig)
    have eig8 : v'.ig8 = v.ig8 := by
      have := v'.e_ig8; rw [eig] at this; exact pure_inj (this.symm.trans v.e_ig8)
    have eih : v'.ih = v.ih := pure_inj (v'.e_ih.symm.trans v.e_ih)
    have hig : IsU pk.N v.ig := by rw [eq_can_of_divm hA hN hg0U v.e_ig]; exact isU_can hN _
    have hih : v.ih = can pk.N (-(rp pk.N cpk.h)) := eq_can_of_divm hA hN hhU v.e_ih
    have hihU : IsU pk.N v.ih := by rw [hih]; exact isU_can hN _
    have h3 := hl.2.2.1
    unfold View.in3 at h3
    rw [ecw4, eig8] at h3
    have e2 := v'.e_ih2
    rw [eih] at e2
    have hz := tamper_core hA hN hihU v.e_ih2 e2 (co := v.cw4 * v.ig8)
        (isU_mul (good_of_pw hA hN hCwU v.e_cw4).2 (good_of_pw hA hN hig v.e_ig8).2)
        (by ring) (by ring) h3
    rw [hih, rp_can hN] at hz
    refine orderRelation_of_tamper hN hhU hne ?_
    have : (s2' - π.s2) • rp pk.N cpk.h = (π.s2 - s2') • -(rp pk.N cpk.h) := by module
    rw [this]; exact hz
  · exact Or.inr he

/-- **C15 (altered `s_8`)**: through `in_3`; needs `C_w` invertible modulo `N`. `OrderRelation` on `g_0`. -/
theorem spok_field_tamper_s8 (hA : ArithOK) (hN : 1 < pk.N) (hg : ∀ g ∈ cpk.gBases, Int.gcd g pk.N = 1)
    (hh : Int.gcd cpk.h pk.N = 1) (hCw : Int.gcd π.Cw.value pk.N = 1) (s8' : Int) (hne : s8' ≠ π.s8)
    (h : nisp5Verify π cpk pk bases rev U n tv = .ok (true, tv'))
    (h' : nisp5Verify { π with s8 := s8' } cpk pk bases rev U n tw = .ok (true, tw')) :
    (∃ g0, cpk.gBases[0]? = some g0 ∧ OrderRelation pk.N g0) ∨ ConcatAmbiguity ∨ ClHashCollision := by
  obtain ⟨v, v', hc0, hl | he⟩ := tamper_hash h h' rfl
  · left
    have hhU := isU_of_gcd (by omega) hh
    have hCwU := isU_of_gcd (by omega) hCw
    have eg0 : v'.g0 = v.g0 := pure_inj (v'.e_g0.symm.trans v.e_g0)
    have hg0U : IsU pk.N v.g0 := isU_of_gcd (by omega) (hg _ (idx_mem v.e_g0))
    have ecw4 : v'.cw4 = v.cw4 := pure_inj (v'.e_cw4.symm.trans v.e_cw4)
    have eig : v'.ig = v.ig := by
      have := v'.e_ig; rw [eg0] at this; exact pure_inj (this.symm.trans v.e_ig)
    have eih : v'.ih = v.ih := pure_inj (v'.e_ih.symm.trans v.e_ih)
    have eih2 : v'.ih2 = v.ih2 := by
      have := v'.e_ih2; rw [eih] at this; exact pure_inj (this.symm.trans v.e_ih2)
    have hig : v.ig = can pk.N (-(rp pk.N v.g0)) := eq_can_of_divm hA hN hg0U v.e_ig
    have higU : IsU pk.N v.ig := by rw [hig]; exact isU_can hN _
    have hihU : IsU pk.N v.ih := by rw [eq_can_of_divm hA hN hhU v.e_ih]; exact isU_can hN _
    have h3 := hl.2.2.1
    unfold View.in3 at h3
    rw [ecw4, eih2] at h3
    have e8 := v'.e_ig8
    rw [eig] at e8
    have hz := tamper_core hA hN higU v.e_ig8 e8 (co := v.cw4 * v.ih2)
        (isU_mul (good_of_pw hA hN hCwU v.e_cw4).2 (good_of_pw hA hN hihU v.e_ih2).2)
        (by ring) (by ring) h3
    rw [hig, rp_can hN] at hz
    refine ⟨v.g0, (idx_ok_iff.mp (congrFun v.e_g0 [])).1, orderRelation_of_tamper hN hg0U hne ?_⟩
    have : (s8' - π.s8) • rp pk.N v.g0 = (π.s8 - s8') • -(rp pk.N v.g0) := by module
    rw [this]; exact hz
  · exact Or.inr he

end tamper

/-! ### a different revealed attribute -/

/-- **C15 (different revealed attribute).** If the same proof is accepted for two message vectors that
differ in exactly one revealed position `j0` (same keys, bases, hidden set, attribute count), then
`g_{j0}^k ≡ 1 (mod N)` for `k = |m_{j0} − m'_{j0}|·(1 + c) ≠ 0` — an `OrderRelation` on the commitment
base of that position (read off `in_4`, whose other factors `h^{s_3}` and `C_x^{-c}` are invertible
whatever the prover sent) — or the hash inputs collide. -/
theorem spok_revealed_binding (hA : ArithOK) {π : SignaturePoK} {cpk : CommitmentPK} {pk : PublicKey}
    {bases : List Int} {U : List Nat} {tv tv' tw tw' : List Draw}
    (hN : 1 < pk.N) (hg : ∀ g ∈ cpk.gBases, Int.gcd g pk.N = 1) (hh : Int.gcd cpk.h pk.N = 1)
    (msgs msgs' : List Int) (hlen : msgs'.length = msgs.length)
    (hn : msgs.length ≤ cpk.gBases.length) (j0 : Nat)
    (hjU : U.contains j0 = false) (hdiff : msgs.getD j0 0 ≠ msgs'.getD j0 0)
    (hsame : ∀ j, j ≠ j0 → msgs.getD j 0 = msgs'.getD j 0)
    (h : nisp5Verify π cpk pk bases (revealedOf msgs U) U msgs.length tv = .ok (true, tv'))
    (h' : nisp5Verify π cpk pk bases (revealedOf msgs' U) U msgs.length tw = .ok (true, tw')) :
    (OrderRelation pk.N (cpk.gBases.getD j0 1) ∧ j0 < msgs.length) ∨ ConcatAmbiguity ∨ ClHashCollision := by
  obtain ⟨v, hv⟩ := accept_hash h
  obtain ⟨v', hv'⟩ := accept_hash h'
  have hc0 : 0 ≤ π.challenge := hv ▸ hashInts_nonneg' _
  rcases hashInts_inj (hv.trans hv'.symm) with hl | he | he
  · left
    simp only [View.inputs, List.cons.injEq, and_true] at hl
    have h4 := hl.2.2.2.1
    have hgU : ∀ g ∈ cpk.gBases, IsU pk.N g := fun g hgm => isU_of_gcd (by omega) (hg g hgm)
    have hhU := isU_of_gcd (by omega) hh
    have eh3 : v'.h3 = v.h3 := pure_inj (v'.e_h3.symm.trans v.e_h3)
    have ecx : v'.cx = v.cx := pure_inj (v'.e_cx.symm.trans v.e_cx)
    have hm4 : Good pk.N v.m4 := mixLoop_good hA hN _ _ _ _ _ hgU _ _ _ _ _ _ good_one v.e_m4
    have hm4' : Good pk.N v'.m4 := mixLoop_good hA hN _ _ _ _ _ hgU _ _ _ _ _ _ good_one v'.e_m4
    have hh3 := good_of_pw hA hN hhU v.e_h3
    have hcx := good_of_pw_nonpos hA hN (by omega) v.e_cx
    unfold View.in4 at h4
    rw [eh3, ecx, tmod_good hN (good_mul (good_mul hm4 hh3) hcx),
      tmod_good hN (good_mul (good_mul hm4' hh3) hcx)] at h4
    have h4 := can_inj hN h4
    rw [rp_mul_good (good_mul hm4 hh3) hcx, rp_mul_good hm4 hh3,
      rp_mul_good (good_mul hm4' hh3) hcx, rp_mul_good hm4' hh3] at h4
    have hmm : rp pk.N v.m4 = rp pk.N v'.m4 := add_right_cancel (add_right_cancel h4)
    have hd := mixLoop_diff_rev hA hN cpk.gBases π.s5 (revealedOf msgs U) (revealedOf msgs' U) U
      π.challenge hgU (fun i => msgs.getD i 0) (fun i => msgs'.getD i 0) msgs.length 0 0 0 1 1
      v.m4 v'.m4 good_one good_one (by rw [List.drop_zero]; rfl)
      (by rw [List.drop_zero]; unfold revealedOf; rw [hlen]) v.e_m4 v'.e_m4
    rw [hmm, sub_self, sub_self, zero_add] at hd
    by_cases hj : j0 < msgs.length
    · rw [Finset.sum_eq_single j0] at hd
      · rw [hjU] at hd
        simp only [Bool.false_eq_true, if_false] at hd
        refine ⟨orderRelation_of_zsmul hN (hgU _ (getD_mem (by omega) 1)) (k := (msgs.getD j0 0 - msgs'.getD j0 0) * (1 + π.challenge)) ?_ hd.symm, hj⟩
        exact mul_ne_zero (sub_ne_zero.mpr hdiff) (by omega)
      · intro j _ hjne
        rw [hsame j hjne, sub_self, zero_mul, ite_self, zero_smul]
      · intro hnot
        exact absurd (Finset.mem_Ico.mpr ⟨by omega, by omega⟩) hnot
    · exfalso
      apply hdiff
      rw [List.getD_eq_getElem?_getD, List.getD_eq_getElem?_getD,
        List.getElem?_eq_none (by omega), List.getElem?_eq_none (by omega)]
  · exact Or.inr (Or.inl he)
  · exact Or.inr (Or.inr he)

/-! ### an altered hidden response `s_5[j0]` -/

/-- a list as long as a duplicate-free index list `U` is `U.map` of "look up by rank in `U`". -/
theorem eq_map_idxOf {U : List Nat} (hU : U.Nodup) (l : List Int) (hl : l.length = U.length) :
    l = U.map (fun j => l.getD (U.idxOf j) 0) := by
  apply List.ext_getElem (by simp [hl])
  intro k h1 h2
  simp only [List.getElem_map]
  rw [hU.idxOf_getElem k (by omega), List.getD_eq_getElem?_getD, List.getElem?_eq_getElem h1]
  rfl

/-- **C15 (altered `s_5[j0]`).** For a statement of the honest shape (strictly ascending `U` with
members `< n`, `s_5` as long as `U`, revealed messages `revealedOf msgs U`): if the proof is still
accepted after the `j0`-th hidden response is replaced by a different value, then there is an
`OrderRelation` on the commitment base `g_p` of the hidden position `p = U[j0]` (read off `in_4`),
or the hash inputs collide. -/
theorem spok_field_tamper_s5 (hA : ArithOK) {π : SignaturePoK} {cpk : CommitmentPK} {pk : PublicKey}
    {bases : List Int} {U : List Nat} {tv tv' tw tw' : List Draw}
    (hN : 1 < pk.N) (hg : ∀ g ∈ cpk.gBases, Int.gcd g pk.N = 1) (hh : Int.gcd cpk.h pk.N = 1)
    (msgs : List Int) (hn : msgs.length ≤ cpk.gBases.length)
    (hU : U.Pairwise (· < ·)) (hUn : ∀ i ∈ U, i < msgs.length) (hs5 : π.s5.length = U.length)
    (j0 : Nat) (hj0 : j0 < U.length) (x' : Int) (hne : x' ≠ π.s5.getD j0 0)
    (h : nisp5Verify π cpk pk bases (revealedOf msgs U) U msgs.length tv = .ok (true, tv'))
    (h' : nisp5Verify { π with s5 := π.s5.set j0 x' } cpk pk bases (revealedOf msgs U) U msgs.length tw
      = .ok (true, tw')) :
    OrderRelation pk.N (cpk.gBases.getD (U.getD j0 0) 1) ∨ ConcatAmbiguity ∨ ClHashCollision := by
  obtain ⟨v, v', hc0, hl | he⟩ := tamper_hash h h' rfl
  · left
    have h4 := hl.2.2.2.1
    have hgU : ∀ g ∈ cpk.gBases, IsU pk.N g := fun g hgm => isU_of_gcd (by omega) (hg g hgm)
    have hhU := isU_of_gcd (by omega) hh
    have hnd : U.Nodup := hU.imp (fun hab => Nat.ne_of_lt hab)
    have eh3 : v'.h3 = v.h3 := pure_inj (v'.e_h3.symm.trans v.e_h3)
    have ecx : v'.cx = v.cx := pure_inj (v'.e_cx.symm.trans v.e_cx)
    have hm4 : Good pk.N v.m4 := mixLoop_good hA hN _ _ _ _ _ hgU _ _ _ _ _ _ good_one v.e_m4
    have hm4' : Good pk.N v'.m4 := mixLoop_good hA hN _ _ _ _ _ hgU _ _ _ _ _ _ good_one v'.e_m4
    have hh3 := good_of_pw hA hN hhU v.e_h3
    have hcx := good_of_pw_nonpos hA hN (by omega) v.e_cx
    unfold View.in4 at h4
    rw [eh3, ecx, tmod_good hN (good_mul (good_mul hm4 hh3) hcx),
      tmod_good hN (good_mul (good_mul hm4' hh3) hcx)] at h4
    have h4 := can_inj hN h4
    rw [rp_mul_good (good_mul hm4 hh3) hcx, rp_mul_good hm4 hh3,
      rp_mul_good (good_mul hm4' hh3) hcx, rp_mul_good hm4' hh3] at h4
    have hmm : rp pk.N v.m4 = rp pk.N v'.m4 := add_right_cancel (add_right_cancel h4)
    -- forward specification of both loops
    have hfil := filter_contains_eq hU hUn
    have hs := eq_map_idxOf hnd π.s5 hs5
    have hs' := eq_map_idxOf hnd (π.s5.set j0 x') (by simp [hs5])
    obtain ⟨Q, hQ, -, -, hQr⟩ := mixLoop_spec hA hN cpk.gBases π.s5 (revealedOf msgs U) U π.challenge
      hgU (fun j => π.s5.getD (U.idxOf j) 0) (fun i => msgs.getD i 0) msgs.length 0 0 0 1 (by omega)
      (by rw [List.drop_zero, hfil]; exact hs) (by rw [List.drop_zero]; rfl) (by omega) (isU_one _)
    obtain ⟨Q', hQ', -, -, hQr'⟩ := mixLoop_spec hA hN cpk.gBases (π.s5.set j0 x')
      (revealedOf msgs U) U π.challenge
      hgU (fun j => (π.s5.set j0 x').getD (U.idxOf j) 0) (fun i => msgs.getD i 0) msgs.length 0 0 0 1
      (by omega) (by rw [List.drop_zero, hfil]; exact hs') (by rw [List.drop_zero]; rfl) (by omega)
      (isU_one _)
    obtain rfl : Q = v.m4 := pure_inj (hQ.symm.trans v.e_m4)
    obtain rfl : Q' = v'.m4 := pure_inj (hQ'.symm.trans v'.e_m4)
    rw [hQr, hQr'] at hmm
    have hmm := sub_eq_zero.mpr (add_left_cancel hmm)
    rw [← Finset.sum_sub_distrib] at hmm
    have hp : U.getD j0 0 = U[j0] := by
      rw [List.getD_eq_getElem?_getD, List.getElem?_eq_getElem hj0]; rfl
    have hpU : U[j0] ∈ U := List.getElem_mem hj0
    rw [Finset.sum_eq_single U[j0]] at hmm
    · rw [if_pos (by simp [hpU]), if_pos (by simp [hpU]), ← sub_smul] at hmm
      simp only [hnd.idxOf_getElem j0 hj0] at hmm
      rw [List.getD_eq_getElem?_getD (l := π.s5.set j0 x'), List.getElem?_set_self (by omega)] at hmm
      rw [hp]
      exact orderRelation_of_zsmul hN (hgU _ (getD_mem (by have := hUn _ hpU; omega) 1))
        (k := π.s5.getD j0 0 - x') (sub_ne_zero.mpr hne.symm) hmm
    · intro j _ hjne
      by_cases hc : U.contains j = true
      · rw [if_pos hc, if_pos hc]
        have hjU : j ∈ U := by simpa using hc
        have hk : U.idxOf j ≠ j0 := by
          intro hk
          apply hjne
          have := List.getElem_idxOf (List.idxOf_lt_length_of_mem hjU)
          simp only [hk] at this
          exact this.symm
        rw [List.getD_eq_getElem?_getD (l := π.s5.set j0 x'), List.getElem?_set_ne (Ne.symm hk),
          ← List.getD_eq_getElem?_getD, sub_self]
      · rw [if_neg hc, if_neg hc, sub_self]
    · intro hnot
      exact absurd (Finset.mem_Ico.mpr ⟨by omega, by have := hUn _ hpU; omega⟩) hnot
  · exact Or.inr he

/-! ### an observation: surplus list entries are never read -/

/-- **Observation (the claim "does not verify with different revealed attributes" is not literally
true).** `nisp5_MultiAttr_verify_proof` never compares `s_5.len()` with the number of hidden positions
nor `messages.len()` with the number of revealed positions: an accepted proof is still accepted with
arbitrary values appended to `s_5`, and against a revealed-message list with arbitrary messages
appended. (The proof encoding is malleable in `s_5`; a verifier that is shown surplus "revealed"
attributes learns nothing about them from an accepting run.) -/
theorem spok_surplus_ignored {π : SignaturePoK} {cpk : CommitmentPK} {pk : PublicKey}
    {bases rev : List Int} {U : List Nat} {n : Nat} {tv tv' : List Draw}
    (h : nisp5Verify π cpk pk bases rev U n tv = .ok (true, tv')) (e1 e2 : List Int) (tw : List Draw) :
    nisp5Verify { π with s5 := π.s5 ++ e1 } cpk pk bases (rev ++ e2) U n tw = .ok (true, tw) := by
  obtain ⟨v, hv⟩ := accept_hash h
  obtain ⟨hrx, hrv, hrw, hre⟩ := nisp5Verify_commitments_reduced h
  have hcond : ¬ (bases.length < n ∧ cpk.gBases.length < n) := by
    intro hc
    unfold nisp5Verify at h
    rw [if_pos hc] at h
    cases h
  unfold nisp5Verify
  simp only []
  rw [if_neg hcond]
  simp only [pure_bind, mixLoop_append _ _ _ _ e1 e2 _ _ _ _ _ _ _ _ v.e_tCx,
    mixLoop_append _ _ _ _ e1 e2 _ _ _ _ _ _ _ _ v.e_m4, v.e_g0, v.e_a, v.e_itCx, v.e_ib, v.e_ib6,
    v.e_ig, v.e_ig8, v.e_cc, v.e_g7, v.e_h1, v.e_cw, v.e_cw4, v.e_ih, v.e_ih2, v.e_h3, v.e_cx,
    v.e_g4, v.e_h9, v.e_ce, pure_apply]
  refine congrArg (fun z => CRes.ok (z, tw)) ?_
  simp only [Bool.and_eq_true, decide_eq_true_eq]
  refine ⟨⟨⟨⟨?_, hrx⟩, hrv⟩, hrw⟩, hre⟩
  rw [beq_iff_eq]
  exact hv

end Zk.C15
