/-
C15  CL03 proof of knowledge of a signature (`nisp5Gen`/`nisp5Verify`, `proofGen`/`proofVerify`).
-/
import ZkProofs.Lemmas.ClSpok
set_option linter.unusedSectionVars false
set_option linter.unusedVariables false
namespace Zk.C15
open Zk.IA Zk.Cl Zk.ClSpok

/-- one ok-inversion step through a bind, replacing the hypothesis. -/
macro "bstep " h:ident " with " a:ident t:ident ha:ident : tactic =>
  `(tactic| (obtain ⟨$a, $t, $ha, hnew__⟩ := bind_ok_inv $h; clear $h; rename' hnew__ => $h))

/-- the revealed messages: the messages at the positions outside `U`, in increasing order. -/
def revealedOf (msgs : List Int) (U : List Nat) : List Int :=
  ((List.range' 0 msgs.length).filter (fun i => !U.contains i)).map (fun i => msgs.getD i 0)

theorem spok_complete_core (hA : ArithOK) (cs : Suite) (σ : Signature) (cpk : CommitmentPK)
    (pk : PublicKey) (bases msgs : List Int) (U : List Nat)
    (hNeq : cpk.N = pk.N) (hN : 1 < pk.N)
    (hg : ∀ g ∈ cpk.gBases, IsU pk.N g) (hh : IsU pk.N cpk.h)
    (ha : ∀ a ∈ bases, IsU pk.N a) (hb : IsU pk.N pk.b) (hc : IsU pk.N pk.c)
    (hv : IsU pk.N σ.v)
    (hsig : σ.e • rp pk.N σ.v =
      (∑ j ∈ Finset.range msgs.length, (msgs.getD j 0) • rp pk.N (bases.getD j 1))
        + σ.s • rp pk.N pk.b + rp pk.N pk.c)
    (hn1 : msgs.length ≤ bases.length) (hn2 : msgs.length ≤ cpk.gBases.length)
    (hn0 : 0 < cpk.gBases.length) (hU : U.Pairwise (· < ·))
    (π : SignaturePoK) (t t' : List Draw)
    (hgen : nisp5Gen cs σ cpk pk bases msgs U t = .ok (π, t')) (tv : List Draw) :
    nisp5Verify π cpk pk bases (revealedOf msgs U) U msgs.length tv = .ok (true, tv) := by
  obtain ⟨Nc, h, gs⟩ := cpk
  simp only at hNeq hg hh hn2 hn0
  subst hNeq
  obtain ⟨N, b, c⟩ := pk
  simp only at hN hg hh ha hb hc hv hsig
  unfold nisp5Gen at hgen
  simp only [] at hgen
  rw [if_neg (by omega)] at hgen
  bstep hgen with Cx t1 hCx
  bstep hgen with Cv t2 hCv
  bstep hgen with Cw t3 hCw
  bstep hgen with Ce t4 hCe
  bstep hgen with r1 t5 hr1
  bstep hgen with r2 t6 hr2
  bstep hgen with r3 t7 hr3
  bstep hgen with r4 t8 hr4
  bstep hgen with r6 t9 hr6
  bstep hgen with r7 t10 hr7
  bstep hgen with r8 t11 hr8
  bstep hgen with r9 t12 hr9
  bstep hgen with r5 t13 hr5
  clear hr1 hr2 hr3 hr4 hr6 hr7 hr8 hr9
  -- the commitments
  have hg0 : IsU N (gs.getD 0 1) := hg _ (getD_mem hn0 1)
  obtain ⟨hrx0, hCxv⟩ := commitWithCpk_inv hA (cpk := ⟨N, h, gs⟩) hN hg hh none
    (by intro i hi; simp only [Option.getD_none, List.mem_range] at hi ⊢; omega) hCx
  obtain ⟨hw0, hCvv⟩ := commitV_inv hA (cpk := ⟨N, h, gs⟩) hN hg hn0 hCv
  obtain ⟨hrw0, hCwv⟩ := commitWithCpk_inv hA (cpk := ⟨N, h, gs⟩) hN hg hh none
    (by intro i hi; simp only [Option.getD_none, List.mem_range, List.length_singleton] at hi ⊢
        omega) hCw
  obtain ⟨hre0, hCev⟩ := commitWithCpk_inv hA (cpk := ⟨N, h, gs⟩) hN hg hh none
    (by intro i hi; simp only [Option.getD_none, List.mem_range, List.length_singleton] at hi ⊢
        omega) hCe
  simp only [Option.getD_none, List.length_singleton, List.range_one, List.map_cons, List.map_nil,
    List.sum_cons, List.sum_nil, add_zero, List.getD_cons_zero, sum_map_range] at hCxv hCwv hCev
  have hCvU : IsU N Cv.value := by
    rw [hCvv, isU_tmod (by omega)]; exact isU_mul hv (isU_can hN _)
  have hCvr : rp N Cv.value = rp N σ.v + Cv.randomness • rp N (gs.getD 0 1) := by
    rw [hCvv, rp_tmod (by omega), rp_mul hv (isU_can hN _), rp_can hN]
  clear hCx hCv hCw hCe hCvv
  -- r5
  obtain ⟨hr5l, hr5m⟩ := drawR5_inv _ _ hr5
  clear hr5
  obtain ⟨P1, hP1, hP10, hP1u, hP1r⟩ := prodPowFirst_spec hA hN bases r5 ha msgs.length 0 1
    (by omega) (by omega) (by omega) (isU_one _)
  obtain ⟨P4, hP4, hP40, hP4u, hP4r⟩ := prodPowFirst_spec hA hN gs r5 hg msgs.length 0 1
    (by omega) (by omega) (by omega) (isU_one _)
  have hP1g : Good N P1 := ⟨hP10, hP1u⟩
  have hP4g : Good N P4 := ⟨hP40, hP4u⟩
  rw [hP1, hP4] at hgen
  rw [idx_eq_pure hn0 1] at hgen
  simp only [pure_bind, pw_unit hA hN hCvU, pw_unit hA hN hg0, pw_unit hA hN hh, pw_unit hA hN hb,
    hCwv, pw_can hA hN, divm_one_unit hA hN hg0, divm_one_unit hA hN hh, divm_one_unit hA hN hb,
    tmod_good hN hP1g, divm_one_can hA hN] at hgen
  simp (maxDischargeDepth := 8) only [tmod_good hN, good_mul, good_can hN, hP4g, rp_mul_good,
    rp_can hN] at hgen
  generalize hcdef : hashInts _ = ch at hgen
  bstep hgen with s5 t14 hs5
  obtain ⟨rfl, -, hUlt⟩ := s5_inv U hs5
  clear hs5
  obtain ⟨rfl, -⟩ := ok_inj hgen
  clear hgen
  -- the verifier's loops
  have hfil : (List.range' 0 msgs.length).filter (fun j => U.contains j) = U :=
    filter_contains_eq hU (fun i hi => (hUlt i hi).2)
  obtain ⟨Q1, hQ1, hQ10, hQ1u, hQ1r⟩ := mixLoop_spec hA hN bases
    (U.map (fun i => r5.getD i 0 + msgs.getD i 0 * ch)) (revealedOf msgs U) U ch ha
    (fun i => r5.getD i 0 + msgs.getD i 0 * ch) (fun i => msgs.getD i 0) msgs.length 0 0 0 1
    (by omega) (by rw [List.drop_zero, hfil]) (by rw [List.drop_zero]; rfl) (by omega) (isU_one _)
  obtain ⟨Q4, hQ4, hQ40, hQ4u, hQ4r⟩ := mixLoop_spec hA hN gs
    (U.map (fun i => r5.getD i 0 + msgs.getD i 0 * ch)) (revealedOf msgs U) U ch hg
    (fun i => r5.getD i 0 + msgs.getD i 0 * ch) (fun i => msgs.getD i 0) msgs.length 0 0 0 1
    (by omega) (by rw [List.drop_zero, hfil]) (by rw [List.drop_zero]; rfl) (by omega) (isU_one _)
  have hQ1g : Good N Q1 := ⟨hQ10, hQ1u⟩
  have hQ4g : Good N Q4 := ⟨hQ40, hQ4u⟩
  have hsum : ∀ a : Nat → Grp N, ∑ j ∈ Finset.Ico 0 (0 + msgs.length),
      (if U.contains j = true then r5.getD j 0 + msgs.getD j 0 * ch
        else msgs.getD j 0 + msgs.getD j 0 * ch) • a j =
      ∑ j ∈ Finset.Ico 0 (0 + msgs.length), r5.getD j 0 • a j +
        ch • ∑ j ∈ Finset.range msgs.length, msgs.getD j 0 • a j := by
    intro a
    simp only [zero_add, ← Finset.range_eq_Ico]
    rw [Finset.smul_sum, ← Finset.sum_add_distrib]
    apply Finset.sum_congr rfl
    intro j hj
    split_ifs with hcj
    · module
    · have := (hr5m j (Finset.mem_range.mp hj) (by simpa using hcj)).1
      have e : r5.getD j 0 = msgs.getD j 0 := by
        rw [List.getD_eq_getElem?_getD, List.getD_eq_getElem?_getD, this, Nat.zero_add]
      rw [e]; module
  rw [hsum] at hQ1r hQ4r
  unfold nisp5Verify
  simp only []
  rw [if_neg (by omega), hQ1, hQ4, idx_eq_pure hn0 1]
  simp (maxDischargeDepth := 8) only [pure_bind, pw_unit hA hN hCvU, pw_unit hA hN hg0,
    pw_unit hA hN hh, pw_unit hA hN hc, hCwv, hCxv, hCev, pw_can hA hN, divm_one_unit hA hN hg0,
    divm_one_unit hA hN hh, divm_one_unit hA hN hb, tmod_good hN hQ1g, divm_one_can hA hN,
    tmod_good hN, good_mul, good_can hN, hQ4g, rp_mul_good, rp_can hN, pure_apply]
  refine congrArg (fun z => CRes.ok (z, tv)) ?_
  rw [beq_iff_eq]
  refine Eq.trans (congrArg hashInts ?_) hcdef
  simp only [List.cons.injEq, and_true]
  rw [hCvr, hQ1r, hP1r, hQ4r, hP4r, rp_one]
  generalize (∑ j ∈ Finset.range msgs.length, msgs.getD j 0 • rp N (bases.getD j 1)) = A at *
  obtain rfl : A = σ.e • rp N σ.v - σ.s • rp N b - rp N c := by rw [hsig]; abel
  refine ⟨?_, ?_, ?_, ?_, ?_⟩ <;> congr 1
  · module
  · module
  · module
  · module
  · module

end Zk.C15
