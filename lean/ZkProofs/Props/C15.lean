/-
C15  CL03 proof of knowledge of a signature (`nisp5Gen`/`nisp5Verify`, `proofGen`/`proofVerify`).
-/
import ZkProofs.Lemmas.ClSpok
set_option linter.unusedSectionVars false
set_option linter.unusedVariables false
namespace Zk.C15
open Zk.IA Zk.Cl Zk.ClSpok

/-- one ok-inversion step through a bind, replacing the hypothesis. -/
macro "bstep " h:ident " with " a:ident t:ident ha:ident : tactic =>
  `(tactic| (obtain ⟨$a, $t, $ha, hnew__⟩ := bind_ok_inv $h; clear $h; rename' hnew__ => $h))

/-- the revealed messages: the messages at the positions outside `U`, in increasing order. -/
def revealedOf (msgs : List Int) (U : List Nat) : List Int :=
  ((List.range' 0 msgs.length).filter (fun i => !U.contains i)).map (fun i => msgs.getD i 0)

/-- Core of the completeness of the nine-response proof, stated in the unit group `(ℤ/N)ˣ`
(`rp N x` = the class of `x`): the five values `in_1 … in_5` the verifier recomputes are the prover's
`t_1 … t_5`. Also returns the opening of `C_e` (needed for the range proof on `e`). -/
theorem spok_complete_core (hA : ArithOK) (cs : Suite) (σ : Signature) (cpk : CommitmentPK)
    (pk : PublicKey) (bases msgs : List Int) (U : List Nat)
    (hNeq : cpk.N = pk.N) (hN : 1 < pk.N)
    (hg : ∀ g ∈ cpk.gBases, IsU pk.N g) (hh : IsU pk.N cpk.h)
    (ha : ∀ a ∈ bases, IsU pk.N a) (hb : IsU pk.N pk.b) (hc : IsU pk.N pk.c)
    (hv : IsU pk.N σ.v)
    (hsig : σ.e • rp pk.N σ.v =
      (∑ j ∈ Finset.range msgs.length, (msgs.getD j 0) • rp pk.N (bases.getD j 1))
        + σ.s • rp pk.N pk.b + rp pk.N pk.c)
    (hn1 : msgs.length ≤ bases.length) (hn2 : msgs.length ≤ cpk.gBases.length)
    (hn0 : 0 < cpk.gBases.length) (hU : U.Pairwise (· < ·))
    (π : SignaturePoK) (t t' : List Draw)
    (hgen : nisp5Gen cs σ cpk pk bases msgs U t = .ok (π, t')) :
    (∀ tv, nisp5Verify π cpk pk bases (revealedOf msgs U) U msgs.length tv = .ok (true, tv)) ∧
      0 ≤ π.Ce.randomness ∧
      π.Ce.value = can pk.N (σ.e • rp pk.N (cpk.gBases.getD 0 1) + π.Ce.randomness • rp pk.N cpk.h) := by
  obtain ⟨Nc, h, gs⟩ := cpk
  simp only at hNeq hg hh hn2 hn0
  subst hNeq
  obtain ⟨N, b, c⟩ := pk
  simp only at hN hg hh ha hb hc hv hsig
  unfold nisp5Gen at hgen
  simp only [] at hgen
  rw [if_neg (by omega)] at hgen
  bstep hgen with Cx t1 hCx
  bstep hgen with Cv t2 hCv
  bstep hgen with Cw t3 hCw
  bstep hgen with Ce t4 hCe
  bstep hgen with r1 t5 hr1
  bstep hgen with r2 t6 hr2
  bstep hgen with r3 t7 hr3
  bstep hgen with r4 t8 hr4
  bstep hgen with r6 t9 hr6
  bstep hgen with r7 t10 hr7
  bstep hgen with r8 t11 hr8
  bstep hgen with r9 t12 hr9
  bstep hgen with r5 t13 hr5
  clear hr1 hr2 hr3 hr4 hr6 hr7 hr8 hr9
  -- the commitments
  have hg0 : IsU N (gs.getD 0 1) := hg _ (getD_mem hn0 1)
  obtain ⟨hrx0, hCxv⟩ := commitWithCpk_inv hA (cpk := ⟨N, h, gs⟩) hN hg hh none
    (by intro i hi; simp only [Option.getD_none, List.mem_range] at hi ⊢; omega) hCx
  obtain ⟨hw0, hCvv⟩ := commitV_inv hA (cpk := ⟨N, h, gs⟩) hN hg hn0 hCv
  obtain ⟨hrw0, hCwv⟩ := commitWithCpk_inv hA (cpk := ⟨N, h, gs⟩) hN hg hh none
    (by intro i hi; simp only [Option.getD_none, List.mem_range, List.length_singleton] at hi ⊢
        omega) hCw
  obtain ⟨hre0, hCev⟩ := commitWithCpk_inv hA (cpk := ⟨N, h, gs⟩) hN hg hh none
    (by intro i hi; simp only [Option.getD_none, List.mem_range, List.length_singleton] at hi ⊢
        omega) hCe
  simp only [Option.getD_none, List.length_singleton, List.range_one, List.map_cons, List.map_nil,
    List.sum_cons, List.sum_nil, add_zero, List.getD_cons_zero, sum_map_range] at hCxv hCwv hCev
  have hCvU : IsU N Cv.value := by
    rw [hCvv, isU_tmod (by omega)]; exact isU_mul hv (isU_can hN _)
  have hCvr : rp N Cv.value = rp N σ.v + Cv.randomness • rp N (gs.getD 0 1) := by
    rw [hCvv, rp_tmod (by omega), rp_mul hv (isU_can hN _), rp_can hN]
  clear hCx hCv hCw hCe hCvv
  -- r5
  obtain ⟨hr5l, hr5m⟩ := drawR5_inv _ _ hr5
  clear hr5
  obtain ⟨P1, hP1, hP10, hP1u, hP1r⟩ := prodPowFirst_spec hA hN bases r5 ha msgs.length 0 1
    (by omega) (by omega) (by omega) (isU_one _)
  obtain ⟨P4, hP4, hP40, hP4u, hP4r⟩ := prodPowFirst_spec hA hN gs r5 hg msgs.length 0 1
    (by omega) (by omega) (by omega) (isU_one _)
  have hP1g : Good N P1 := ⟨hP10, hP1u⟩
  have hP4g : Good N P4 := ⟨hP40, hP4u⟩
  rw [hP1, hP4] at hgen
  rw [idx_eq_pure hn0 1] at hgen
  simp only [pure_bind, pw_unit hA hN hCvU, pw_unit hA hN hg0, pw_unit hA hN hh, pw_unit hA hN hb,
    hCwv, pw_can hA hN, divm_one_unit hA hN hg0, divm_one_unit hA hN hh, divm_one_unit hA hN hb,
    tmod_good hN hP1g, divm_one_can hA hN] at hgen
  simp (maxDischargeDepth := 8) only [tmod_good hN, good_mul, good_can hN, hP4g, rp_mul_good,
    rp_can hN] at hgen
  generalize hcdef : hashInts _ = ch at hgen
  bstep hgen with s5 t14 hs5
  obtain ⟨rfl, -, hUlt⟩ := s5_inv U hs5
  clear hs5
  obtain ⟨rfl, -⟩ := ok_inj hgen
  clear hgen
  -- the verifier's loops
  have hfil : (List.range' 0 msgs.length).filter (fun j => U.contains j) = U :=
    filter_contains_eq hU (fun i hi => (hUlt i hi).2)
  obtain ⟨Q1, hQ1, hQ10, hQ1u, hQ1r⟩ := mixLoop_spec hA hN bases
    (U.map (fun i => r5.getD i 0 + msgs.getD i 0 * ch)) (revealedOf msgs U) U ch ha
    (fun i => r5.getD i 0 + msgs.getD i 0 * ch) (fun i => msgs.getD i 0) msgs.length 0 0 0 1
    (by omega) (by rw [List.drop_zero, hfil]) (by rw [List.drop_zero]; rfl) (by omega) (isU_one _)
  obtain ⟨Q4, hQ4, hQ40, hQ4u, hQ4r⟩ := mixLoop_spec hA hN gs
    (U.map (fun i => r5.getD i 0 + msgs.getD i 0 * ch)) (revealedOf msgs U) U ch hg
    (fun i => r5.getD i 0 + msgs.getD i 0 * ch) (fun i => msgs.getD i 0) msgs.length 0 0 0 1
    (by omega) (by rw [List.drop_zero, hfil]) (by rw [List.drop_zero]; rfl) (by omega) (isU_one _)
  have hQ1g : Good N Q1 := ⟨hQ10, hQ1u⟩
  have hQ4g : Good N Q4 := ⟨hQ40, hQ4u⟩
  have hsum : ∀ a : Nat → Grp N, ∑ j ∈ Finset.Ico 0 (0 + msgs.length),
      (if U.contains j = true then r5.getD j 0 + msgs.getD j 0 * ch
        else msgs.getD j 0 + msgs.getD j 0 * ch) • a j =
      ∑ j ∈ Finset.Ico 0 (0 + msgs.length), r5.getD j 0 • a j +
        ch • ∑ j ∈ Finset.range msgs.length, msgs.getD j 0 • a j := by
    intro a
    simp only [zero_add, ← Finset.range_eq_Ico]
    rw [Finset.smul_sum, ← Finset.sum_add_distrib]
    apply Finset.sum_congr rfl
    intro j hj
    split_ifs with hcj
    · module
    · have := (hr5m j (Finset.mem_range.mp hj) (by simpa using hcj)).1
      have e : r5.getD j 0 = msgs.getD j 0 := by
        rw [List.getD_eq_getElem?_getD, List.getD_eq_getElem?_getD, this, Nat.zero_add]
      rw [e]; module
  rw [hsum] at hQ1r hQ4r
  refine ⟨fun tv => ?_, hre0, hCev⟩
  unfold nisp5Verify
  simp only []
  rw [if_neg (by omega), hQ1, hQ4, idx_eq_pure hn0 1]
  simp (maxDischargeDepth := 8) only [pure_bind, pw_unit hA hN hCvU, pw_unit hA hN hg0,
    pw_unit hA hN hh, pw_unit hA hN hc, hCwv, hCxv, hCev, pw_can hA hN, divm_one_unit hA hN hg0,
    divm_one_unit hA hN hh, divm_one_unit hA hN hb, tmod_good hN hQ1g, divm_one_can hA hN,
    tmod_good hN, good_mul, good_can hN, hQ4g, rp_mul_good, rp_can hN, pure_apply]
  refine congrArg (fun z => CRes.ok (z, tv)) ?_
  rw [beq_iff_eq]
  refine Eq.trans (congrArg hashInts ?_) hcdef
  simp only [List.cons.injEq, and_true]
  rw [hCvr, hQ1r, hP1r, hQ4r, hP4r, rp_one]
  generalize (∑ j ∈ Finset.range msgs.length, msgs.getD j 0 • rp N (bases.getD j 1)) = A at *
  obtain rfl : A = σ.e • rp N σ.v - σ.s • rp N b - rp N c := by rw [hsig]; abel
  refine ⟨?_, ?_, ?_, ?_, ?_⟩ <;> congr 1
  · module
  · module
  · module
  · module
  · module

/-- the hypotheses on the public parameters shared by the C15 theorems: a commitment key over the
issuer's modulus, all public bases invertible modulo `N` (they are quadratic residues coprime to `N`
in every honestly generated key), enough bases. -/
structure Params (cpk : CommitmentPK) (pk : PublicKey) (bases : List Int) (n : Nat) : Prop where
  hNeq : cpk.N = pk.N
  hN : 1 < pk.N
  hg : ∀ g ∈ cpk.gBases, Int.gcd g pk.N = 1
  hh : Int.gcd cpk.h pk.N = 1
  ha : ∀ a ∈ bases, Int.gcd a pk.N = 1
  hb : Int.gcd pk.b pk.N = 1
  hc : Int.gcd pk.c pk.N = 1
  hn2 : n ≤ cpk.gBases.length
  hn0 : 0 < cpk.gBases.length

/-- the hypotheses are satisfiable (toy modulus `N = 35`, all bases `4 = 2²`). -/
example : Params ⟨35, 4, [4, 4]⟩ ⟨35, 4, 4⟩ [4, 4] 2 := by
  constructor <;> simp <;> decide

/-- **C15 (completeness of the nine-response proof).** For every signature accepted by
`verify_multiattr`, every hidden list `U` that is STRICTLY ASCENDING (the only condition on `U`;
members `≥ n` make the generator panic, so they are excluded by `hgen`), every tape on which
`nisp5_MultiAttr_generate_proof` returns, the proof verifies against the revealed messages (those at
the positions outside `U`, in increasing order), the same keys, bases, `U` and attribute count.

Observation about the API: `U` must be sorted. The prover lists `s_5` in the order of `U`, the
verifier consumes `s_5` in increasing order of the position `i`; for an unsorted `U` (e.g. `[1, 0]`)
position `0` is checked against the response of position `1` and the proof is rejected (except with
the probability of a hash coincidence). Duplicates in `U` shift the responses in the same way. -/
theorem spok_complete (hA : ArithOK) (cs : Suite) (σ : Signature) (cpk : CommitmentPK)
    (pk : PublicKey) (bases msgs : List Int) (U : List Nat)
    (hp : Params cpk pk bases msgs.length) (hU : U.Pairwise (· < ·))
    (tσ tσ' : List Draw) (hσ : verifyMultiattr cs σ pk bases msgs tσ = .ok (true, tσ'))
    (π : SignaturePoK) (t t' : List Draw)
    (hgen : nisp5Gen cs σ cpk pk bases msgs U t = .ok (π, t')) (tv : List Draw) :
    nisp5Verify π cpk pk bases (revealedOf msgs U) U msgs.length tv = .ok (true, tv) := by
  have hN0 : 0 ≤ pk.N := by have := hp.hN; omega
  have ha : ∀ a ∈ bases, IsU pk.N a := fun a h => isU_of_gcd hN0 (hp.ha a h)
  have hb := isU_of_gcd hN0 hp.hb
  have hc := isU_of_gcd hN0 hp.hc
  obtain ⟨hn1, -, -, -, hv, hsig⟩ := verifyMultiattr_true_inv hA hp.hN ha hb hc hσ
  exact (spok_complete_core hA cs σ cpk pk bases msgs U hp.hNeq hp.hN
    (fun g h => isU_of_gcd hN0 (hp.hg g h)) (isU_of_gcd hN0 hp.hh) ha hb hc hv hsig hn1 hp.hn2 hp.hn0
    hU π t t' hgen).1 tv

/-! ### `proofGen` / `proofVerify` -/

/-- Completeness of the Boudot range proof in the form used here (the range proofs are C16's):
a range proof generated for a value `x ∈ [lo, hi]` and a commitment `c = g^x h^r mod n` with
non-negative randomness, over invertible bases, verifies. -/
def RangeComplete (cs : Suite) : Prop :=
  ∀ (x : Int) (c : Commitment) (g h n lo hi : Int) (π : RangeProof) (t t' : List Draw),
    1 < n → Int.gcd g n = 1 → Int.gcd h n = 1 → lo ≤ x → x ≤ hi → 0 ≤ c.randomness →
    0 ≤ c.value → c.value < n →
    (∃ a b, powMod g x n = some a ∧ powMod h c.randomness n = some b ∧ c.value = tmod (a * b) n) →
    rangeProve cs x c g h n lo hi t = .ok (π, t') →
    ∀ tv, rangeVerify cs π g h n lo hi tv = .ok (true, tv)

/-- the range proof carries the commitment value it is about. -/
theorem rangeProve_E {cs : Suite} {x : Int} {c : Commitment} {g h n lo hi : Int} {π : RangeProof}
    {t t' : List Draw} (hgen : rangeProve cs x c g h n lo hi t = .ok (π, t')) : π.E = c.value := by
  unfold rangeProve at hgen
  split at hgen
  · cases hgen
  simp only [] at hgen
  bstep hgen with E' t1 h1
  bstep hgen with tol t2 h2
  obtain ⟨rfl, -⟩ := ok_inj hgen
  rfl

/-- the verifier reads only the values of the four commitments. -/
theorem nisp5Verify_strip (π : SignaturePoK) (cpk : CommitmentPK) (pk : PublicKey) (bases rev : List Int)
    (U : List Nat) (n : Nat) :
    nisp5Verify { π with Cx := publicPart π.Cx, Cv := publicPart π.Cv, Cw := publicPart π.Cw,
                         Ce := publicPart π.Ce } cpk pk bases rev U n =
      nisp5Verify π cpk pk bases rev U n := rfl

/-- what `RangeComplete` needs of a commitment with value `can N (x • [g] + r • [h])`. -/
theorem opening_of_can (hA : ArithOK) {N g h : Int} (hN : 1 < N) (hg : IsU N g) (hh : IsU N h)
    (x r : Int) :
    ∃ a b, powMod g x N = some a ∧ powMod h r N = some b ∧
      can N (x • rp N g + r • rp N h) = tmod (a * b) N := by
  refine ⟨_, _, powMod_unit hA hN hg x, powMod_unit hA hN hh r, ?_⟩
  rw [tmod_good hN (good_mul (good_can hN _) (good_can hN _)),
    rp_mul_good (good_can hN _) (good_can hN _), rp_can hN, rp_can hN]

/-- completeness of `nisp2sec` for a commitment `g^m h^r` over invertible bases (any `m`). -/
theorem nisp2sec_complete' (hA : ArithOK) {cs : Suite} {m : Int} {c : Commitment} {g h N : Int}
    (hN : 1 < N) (hg : IsU N g) (hh : IsU N h)
    (hc : c.value = can N (m • rp N g + c.randomness • rp N h))
    {π : NISPSecrets} {t t' : List Draw} (hgen : nisp2secGen cs m c g h N t = .ok (π, t'))
    (tv : List Draw) : nisp2secVerify π c.value g h N tv = .ok (true, tv) := by
  unfold nisp2secGen at hgen
  bstep hgen with r1 t1 h1
  bstep hgen with r2 t2 h2
  simp (maxDischargeDepth := 8) only [pure_bind, pw_unit hA hN hg, pw_unit hA hN hh, tmod_good hN,
    good_mul, good_can hN, rp_mul_good, rp_can hN] at hgen
  obtain ⟨rfl, -⟩ := ok_inj hgen
  unfold nisp2secVerify
  simp (maxDischargeDepth := 8) only [pure_bind, pw_unit hA hN hg, pw_unit hA hN hh, hc,
    pw_can hA hN, tmod_good hN, good_mul, good_can hN, rp_mul_good, rp_can hN, pure_apply]
  refine congrArg (fun z => CRes.ok (z, tv)) ?_
  rw [beq_iff_eq]
  congr 1
  module

/-- the per-attribute proofs generated for the hidden positions verify, in the order of `U`. -/
theorem pokMi_complete (hA : ArithOK) (cs : Suite) (hRange : RangeComplete cs) (cpk : CommitmentPK)
    (msgs : List Int) (hN : 1 < cpk.N) (hg : ∀ g ∈ cpk.gBases, IsU cpk.N g) (hh : IsU cpk.N cpk.h)
    (hm : ∀ m ∈ msgs, 0 ≤ m ∧ m < 2 ^ cs.lm) (π : PoKSignature)
    (U : List Nat) (k : Nat) (ps : List ProofOfValue) (rs : List RangeProof) (t t' : List Draw)
    (hgen : pokMiLoop cs cpk msgs U t = .ok ((ps, rs), t'))
    (hps : π.proofsMi.drop k = ps) (hrs : π.rangeProofsMi.drop k = rs) (tv : List Draw) :
    pokMiVerifyLoop cs cpk π U k tv = .ok (true, tv) := by
  induction U generalizing k ps rs t t' with
  | nil => rfl
  | cons i is ih =>
    unfold pokMiLoop at hgen
    bstep hgen with mi t1 h1
    bstep hgen with gi t2 h2
    bstep hgen with cmi t3 h3
    bstep hgen with pv t4 h4
    bstep hgen with rp' t5 h5
    bstep hgen with pr t6 h6
    obtain ⟨ps', rs'⟩ := pr
    obtain ⟨hgen, -⟩ := ok_inj hgen
    obtain ⟨rfl, rfl⟩ := Prod.mk.inj hgen
    obtain ⟨hmi, -⟩ := idx_ok_iff.mp h1
    obtain ⟨hgi, -⟩ := idx_ok_iff.mp h2
    have hil : i < msgs.length := by
      by_contra hlt; rw [List.getElem?_eq_none (by omega)] at hmi; cases hmi
    have hig : i < cpk.gBases.length := by
      by_contra hlt; rw [List.getElem?_eq_none (by omega)] at hgi; cases hgi
    have hmi' : msgs.getD i 0 = mi := by rw [List.getD_eq_getElem?_getD, hmi]; rfl
    have hgi' : cpk.gBases.getD i 1 = gi := by rw [List.getD_eq_getElem?_getD, hgi]; rfl
    have hgiU : IsU cpk.N gi := hgi' ▸ hg _ (getD_mem hig 1)
    have hmiR := hm mi (List.mem_of_getElem? hmi)
    obtain ⟨hr0, hcv⟩ := commitWithCpk_inv hA hN hg hh (some [i])
      (by intro j hj; simp only [Option.getD_some, List.mem_singleton] at hj; subst hj
          exact ⟨hig, hil⟩) h3
    simp only [Option.getD_some, List.map_cons, List.map_nil, List.sum_cons, List.sum_nil, add_zero,
      hmi', hgi'] at hcv
    obtain ⟨hp1, hp2⟩ := drop_cons_inv hps
    obtain ⟨hr1, hr2⟩ := drop_cons_inv hrs
    unfold pokMiVerifyLoop
    rw [idx_of_getElem? hgi, idx_of_getElem? hp1, idx_of_getElem? hr1]
    simp only [pure_bind]
    show (nisp2secVerify pv cmi.value gi cpk.h cpk.N >>= _) tv = _
    rw [bind_of_ok (nisp2sec_complete' hA hN hgiU hh hcv h4 tv)]
    simp only [Bool.not_true, Bool.false_eq_true, if_false]
    have hrange := hRange mi cmi gi cpk.h cpk.N 0 (2 ^ cs.lm - 1) rp' _ _ hN
      (gcd_of_isU (by omega) hgiU) (gcd_of_isU (by omega) hh) hmiR.1 (by omega) hr0
      (by rw [hcv]; exact can_nonneg _) (by rw [hcv]; exact can_lt hN _)
      (by rw [hcv]; exact opening_of_can hA hN hgiU hh _ _) h5 tv
    rw [bind_of_ok hrange]
    simp only [Bool.not_true, Bool.false_eq_true, if_false]
    exact ih (k + 1) ps' rs' _ _ h6 hp2 hr2

/-- **C15 (completeness of `proof_gen` / `proof_verify`).** Given the completeness of the range
proofs (`hRange`, C16), for every accepted signature and strictly ascending hidden list `U`, the full
proof — nine-response proof, range proof on `e ∈ [2^(le-1)+1, 2^le − 1]` linked through
`C_e.value == rangeProofE.E`, and per hidden attribute a commitment, a `nisp2sec` proof and a range
proof in `[0, 2^lm − 1]` — verifies. -/
theorem proof_complete (hA : ArithOK) (cs : Suite) (hRange : RangeComplete cs) (σ : Signature)
    (cpk : CommitmentPK) (pk : PublicKey) (bases msgs : List Int) (U : List Nat)
    (hp : Params cpk pk bases msgs.length) (hU : U.Pairwise (· < ·))
    (tσ tσ' : List Draw) (hσ : verifyMultiattr cs σ pk bases msgs tσ = .ok (true, tσ'))
    (π : PoKSignature) (t t' : List Draw)
    (hgen : proofGen cs σ cpk pk bases msgs U t = .ok (π, t')) (tv : List Draw) :
    proofVerify cs π cpk pk bases (revealedOf msgs U) U msgs.length tv = .ok (true, tv) := by
  have hN0 : 0 ≤ pk.N := by have := hp.hN; omega
  have ha : ∀ a ∈ bases, IsU pk.N a := fun a h => isU_of_gcd hN0 (hp.ha a h)
  have hb := isU_of_gcd hN0 hp.hb
  have hc := isU_of_gcd hN0 hp.hc
  have hg : ∀ g ∈ cpk.gBases, IsU pk.N g := fun g h => isU_of_gcd hN0 (hp.hg g h)
  have hh := isU_of_gcd hN0 hp.hh
  obtain ⟨hn1, he1, he2, hm, hv, hsig⟩ := verifyMultiattr_true_inv hA hp.hN ha hb hc hσ
  unfold proofGen at hgen
  bstep hgen with spok t1 h1
  bstep hgen with g0 t2 h2
  bstep hgen with rpe t3 h3
  bstep hgen with pr t4 h4
  obtain ⟨ps, rs⟩ := pr
  obtain ⟨rfl, -⟩ := ok_inj hgen
  obtain ⟨hver, hre0, hCe⟩ := spok_complete_core hA cs σ cpk pk bases msgs U hp.hNeq hp.hN
    hg hh ha hb hc hv hsig hn1 hp.hn2 hp.hn0 hU spok t _ h1
  obtain ⟨hg0, -⟩ := idx_ok_iff.mp h2
  have hg0' : cpk.gBases.getD 0 1 = g0 := by rw [List.getD_eq_getElem?_getD, hg0]; rfl
  have hg0U : IsU pk.N g0 := hg0' ▸ hg _ (getD_mem hp.hn0 1)
  rw [hg0'] at hCe
  have hE := rangeProve_E h3
  have hNeq := hp.hNeq
  unfold proofVerify
  simp only [nisp5Verify_strip]
  rw [bind_of_ok (hver tv)]
  simp only [Bool.not_true, Bool.false_eq_true, if_false, publicPart, hE, beq_self_eq_true, if_true]
  rw [idx_of_getElem? hg0]
  simp only [pure_bind]
  rw [hNeq] at h3 ⊢
  have hrange := hRange σ.e spok.Ce g0 cpk.h pk.N (2 ^ (cs.le - 1) + 1) (2 ^ cs.le - 1) rpe _ _ hp.hN
    (gcd_of_isU hN0 hg0U) hp.hh (by omega) (by omega) hre0
    (by rw [hCe]; exact can_nonneg _) (by rw [hCe]; exact can_lt hp.hN _)
    (by rw [hCe]; exact opening_of_can hA hp.hN hg0U hh _ _) h3 tv
  rw [bind_of_ok hrange]
  simp only [if_true]
  rw [← hNeq] at hg hh
  exact pokMi_complete hA cs hRange cpk msgs (hNeq ▸ hp.hN) hg hh hm _ U 0 ps rs _ _ h4 rfl rfl tv

end Zk.C15
