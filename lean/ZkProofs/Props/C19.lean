/-
C19  In every CL03 proof of knowledge each response hides the secret it answers for.

Quantifier proved: for every response `s = r + c·x` of `nisp2sec`, `nispMultiSecrets`, `nisp2`
and `nisp5` (issuance proof and proof of knowledge of a signature), on EVERY tape on which the
prover returns a proof, the blinding `r` is a non-negative integer with exactly the bit length the
code asks `random_bits` for (`Masked`), the challenge is `0 ≤ c < 2^256` (the SHA-256 output length
is proved from the definition, `ClRange.sha256_length`), and therefore
`floor(s / c) − x = floor(r / c) ≥ 2^(bits − 257)`; with the suite relations (`lin ≥ 256`,
`ln ≥ 321`) that is `|floor(s / c) − x| ≥ 2^64` for every response (`*_hidden`).
The secret `x` may have either sign (`mask_floor` holds for all `x`).

`ratio_note`: the quotient of two responses with blindings of equal length is at most 2;
`ratio_perturbation(_resp)`: over ℚ, `s/s'` is `r/r'` up to the relative error `2^m/2^(n-1)`.
`zkpok_masks`, `pok_masks`: the same for every sigma protocol inside the two composite proofs
(`ZKPoK::generate_proof`, `PoKSignature::proof_gen`), including the per-attribute loops.
Not covered (not a for-every-tape fact): the responses inside the Boudot range proofs, whose
blindings are uniform `rand_int` draws from an interval starting at 0 or 1, not `random_bits`.
-/
import ZkProofs.Lemmas.ClRange
import Mathlib.Tactic.FieldSimp
import Mathlib.Algebra.Order.Field.Basic
import Mathlib.Data.Rat.Cast.Order
set_option linter.unusedVariables false
namespace Zk.C19
open Zk.IA Zk.Cl Zk.ClRange

/-! ### 7. the arithmetic -/

/-- **Mask margin.** For `s = r + c·x`, `0 < c < 2^k`, `r ≥ 2^(n-1)`, `k ≤ n − 1`:
`floor(s/c) − x = floor(r/c) ≥ 2^(n−1−k)`; no hypothesis on the sign of `x`. -/
theorem mask_margin {s r c x : Int} {k n : Nat} (hs : s = r + c * x) (hc0 : 0 < c) (hck : c < 2 ^ k)
    (hr : 2 ^ (n - 1) ≤ r) (hkn : k ≤ n - 1) :
    s / c - x = r / c ∧ 2 ^ (n - 1 - k) ≤ r / c :=
  ClRange.mask_margin hs hc0 hck hr hkn

/-- Hence `|floor(s/c) − x| ≥ 2^64` when the blinding is at least 65 bits longer than the challenge. -/
theorem mask_margin_abs {s r c x : Int} {k n : Nat} (hs : s = r + c * x) (hc0 : 0 < c)
    (hck : c < 2 ^ k) (hr : 2 ^ (n - 1) ≤ r) (hkn : k + 65 ≤ n) : 2 ^ 64 ≤ |s / c - x| :=
  ClRange.mask_margin_abs hs hc0 hck hr hkn

/-- Every challenge of the CL03 code is `0 ≤ c < 2^256`. -/
theorem challenge_range (l : List Int) : 0 ≤ hashInts l ∧ hashInts l < 2 ^ 256 :=
  ⟨hashInts_nonneg l, hashInts_lt l⟩

/-- The blinding lengths: `blindLen cs k = k + lin + lin/2 ≥ k + 384` when `lin ≥ 256`. -/
theorem blindLen_ge (cs : Suite) (k : Nat) (hlin : 256 ≤ cs.lin) : k + 384 ≤ blindLen cs k := by
  unfold blindLen; omega

/-! ### 8. the four protocols -/

/-- **nisp2sec** (`s1 = r1 + c·m`, `s2 = r2 + c·r`): both blindings have `ln + lin + lin/2` bits. -/
theorem nisp2sec_masks (cs : Suite) (msg : Int) (c : Commitment) (g1 h1 n1 : Int) (t t' : List Draw)
    (π : NISPSecrets) (h : nisp2secGen cs msg c g1 h1 n1 t = .ok (π, t')) :
    Masked π.s1 (hashInts [g1, h1, c.value, π.t]) msg (blindLen cs cs.ln) ∧
    Masked π.s2 (hashInts [g1, h1, c.value, π.t]) c.randomness (blindLen cs cs.ln) := by
  unfold nisp2secGen at h
  obtain ⟨r1, t1, hr1, h⟩ := bind_ok_inv h
  obtain ⟨r2, t2, hr2, h⟩ := bind_ok_inv h
  obtain ⟨a, t3, ha, h⟩ := bind_ok_inv h
  obtain ⟨b, t4, hb, h⟩ := bind_ok_inv h
  obtain ⟨rfl, rfl⟩ := pure_ok_iff.mp h
  obtain ⟨_, _, _, _, h10, h1b⟩ := randomBits_ok_inv hr1
  obtain ⟨_, _, _, _, h20, h2b⟩ := randomBits_ok_inv hr2
  exact ⟨⟨r1, h10, h1b, rfl⟩, ⟨r2, h20, h2b, rfl⟩⟩

/-- C19 for nisp2sec: dividing either response by the challenge misses the secret by `≥ 2^64`
(indeed by `≥ 2^(ln + 127)`). -/
theorem nisp2sec_hidden (cs : Suite) (hlin : 256 ≤ cs.lin) (msg : Int) (c : Commitment)
    (g1 h1 n1 : Int) (t t' : List Draw) (π : NISPSecrets)
    (h : nisp2secGen cs msg c g1 h1 n1 t = .ok (π, t'))
    (hc : hashInts [g1, h1, c.value, π.t] ≠ 0) :
    2 ^ 64 ≤ |π.s1 / hashInts [g1, h1, c.value, π.t] - msg| ∧
    2 ^ 64 ≤ |π.s2 / hashInts [g1, h1, c.value, π.t] - c.randomness| := by
  obtain ⟨h1, h2⟩ := nisp2sec_masks cs msg c g1 h1 n1 t t' π h
  have hc0 := lt_of_le_of_ne (hashInts_nonneg _) (Ne.symm hc)
  have hb := blindLen_ge cs cs.ln hlin
  exact ⟨h1.hidden hc0 (hashInts_lt _) (by omega), h2.hidden hc0 (hashInts_lt _) (by omega)⟩

/-- the index list the issuance proof runs over -/
def multiIx (msgs : List Int) (unrevealed : Option (List Nat)) : List Nat :=
  if msgs.length = 1 then [0] else unrevealed.getD [0]

/-- **nispMultiSecrets** (`s1[j] = r1[j] + c·m_{ix[j]}`, `s2 = r2 + c·r`): the `r1[j]` have
`lm + lin + lin/2` bits, `r2` has `ln + lin + lin/2` bits; the challenge is a `hashInts`. -/
theorem multi_masks (cs : Suite) (msgs : List Int) (c : Commitment) (pk : PublicKey) (bases : List Int)
    (unrevealed : Option (List Nat)) (t t' : List Draw) (π : NISPMultiSecrets)
    (h : nispMultiSecretsGen cs msgs c pk bases unrevealed t = .ok (π, t')) :
    ∃ as : List Int, (multiIx msgs unrevealed).map (fun i => bases[i]?) = as.map some ∧
      let ch := hashInts (as ++ [pk.b, c.value, π.t])
      π.s1.length = (multiIx msgs unrevealed).length ∧
      (∀ j (hj : j < (multiIx msgs unrevealed).length), ∃ m,
        msgs[(multiIx msgs unrevealed)[j]]? = some m ∧
        ∃ s, π.s1[j]? = some s ∧ Masked s ch m (blindLen cs cs.lm)) ∧
      Masked π.s2 ch c.randomness (blindLen cs cs.ln) := by
  unfold nispMultiSecretsGen at h
  dsimp only at h
  obtain ⟨r1, t1, hr1, h⟩ := bind_ok_inv h
  obtain ⟨r2, t2, hr2, h⟩ := bind_ok_inv h
  obtain ⟨tt, t3, htt, h⟩ := bind_ok_inv h
  obtain ⟨as, t4, has, h⟩ := bind_ok_inv h
  obtain ⟨hr, t5, hhr, h⟩ := bind_ok_inv h
  obtain ⟨s1, t6, hs1, h⟩ := bind_ok_inv h
  obtain ⟨rfl, rfl⟩ := pure_ok_iff.mp h
  obtain ⟨_, _, _, _, h20, h2b⟩ := randomBits_ok_inv hr2
  obtain ⟨hl, hall⟩ := drawBitsList_ok hr1
  obtain ⟨has, -⟩ := (mapM_idx_ok_iff _ _ _ _ _).mp has
  obtain ⟨hsl, hs⟩ := responses_masked hs1 hall
  exact ⟨as, has, hsl, hs, r2, h20, h2b, rfl⟩

theorem multi_hidden (cs : Suite) (hlin : 256 ≤ cs.lin) (msgs : List Int) (c : Commitment)
    (pk : PublicKey) (bases : List Int) (unrevealed : Option (List Nat)) (t t' : List Draw)
    (π : NISPMultiSecrets) (h : nispMultiSecretsGen cs msgs c pk bases unrevealed t = .ok (π, t')) :
    ∃ ch : Int, 0 ≤ ch ∧ ch < 2 ^ 256 ∧ (ch ≠ 0 →
      (∀ j (hj : j < (multiIx msgs unrevealed).length), ∃ m s,
        msgs[(multiIx msgs unrevealed)[j]]? = some m ∧ π.s1[j]? = some s ∧ 2 ^ 64 ≤ |s / ch - m|) ∧
      2 ^ 64 ≤ |π.s2 / ch - c.randomness|) := by
  obtain ⟨as, -, -, h1, h2⟩ := multi_masks cs msgs c pk bases unrevealed t t' π h
  refine ⟨hashInts (as ++ [pk.b, c.value, π.t]), hashInts_nonneg _, hashInts_lt _, fun hc => ?_⟩
  have hc0 := lt_of_le_of_ne (hashInts_nonneg _) (Ne.symm hc)
  have hb := blindLen_ge cs cs.ln hlin
  have hb' := blindLen_ge cs cs.lm hlin
  refine ⟨fun j hj => ?_, h2.hidden hc0 (hashInts_lt _) (by omega)⟩
  obtain ⟨m, hm, s, hs, hM⟩ := h1 j hj
  exact ⟨m, s, hm, hs, hM.hidden hc0 (hashInts_lt _) (by omega)⟩

/-- **nisp2** (`d[j] = ω[j] + c·m_{U[j]}`, `d1 = μ1 + c·r_1`, `d2 = μ2 + c·r_2`); the challenge is
the field `π.challenge`, a `hashInts`. -/
theorem nisp2_masks (cs : Suite) (msgs : List Int) (c1 c2 : Commitment) (pk : PublicKey)
    (bases : List Int) (cpk : CommitmentPK) (U : List Nat) (t t' : List Draw) (π : NISP2Commitments)
    (h : nisp2Gen cs msgs c1 c2 pk bases cpk U t = .ok (π, t')) :
    (0 ≤ π.challenge ∧ π.challenge < 2 ^ 256) ∧
    π.d.length = U.length ∧
    (∀ j (hj : j < U.length), ∃ m, msgs[U[j]]? = some m ∧
      ∃ s, π.d[j]? = some s ∧ Masked s π.challenge m (blindLen cs cs.lm)) ∧
    Masked π.d1 π.challenge c1.randomness (blindLen cs cs.ln) ∧
    Masked π.d2 π.challenge c2.randomness (blindLen cs cs.ln) := by
  unfold nisp2Gen at h
  split at h
  · cases h
  dsimp only at h
  obtain ⟨om, t1, hom, h⟩ := bind_ok_inv h
  obtain ⟨mu1, t2, hmu1, h⟩ := bind_ok_inv h
  obtain ⟨mu2, t3, hmu2, h⟩ := bind_ok_inv h
  obtain ⟨w1, _, -, h⟩ := bind_ok_inv h
  obtain ⟨w2, _, -, h⟩ := bind_ok_inv h
  obtain ⟨h1, _, -, h⟩ := bind_ok_inv h
  obtain ⟨h2, _, -, h⟩ := bind_ok_inv h
  obtain ⟨d, _, hd, h⟩ := bind_ok_inv h
  obtain ⟨rfl, rfl⟩ := pure_ok_iff.mp h
  obtain ⟨_, _, _, _, h10, h1b⟩ := randomBits_ok_inv hmu1
  obtain ⟨_, _, _, _, h20, h2b⟩ := randomBits_ok_inv hmu2
  obtain ⟨hl, hall⟩ := drawBitsList_ok hom
  obtain ⟨hsl, hs⟩ := responses_masked hd hall
  exact ⟨⟨hashInts_nonneg _, hashInts_lt _⟩, hsl, hs, ⟨mu1, h10, h1b, rfl⟩, ⟨mu2, h20, h2b, rfl⟩⟩

theorem nisp2_hidden (cs : Suite) (hlin : 256 ≤ cs.lin) (msgs : List Int) (c1 c2 : Commitment)
    (pk : PublicKey) (bases : List Int) (cpk : CommitmentPK) (U : List Nat) (t t' : List Draw)
    (π : NISP2Commitments) (h : nisp2Gen cs msgs c1 c2 pk bases cpk U t = .ok (π, t'))
    (hc : π.challenge ≠ 0) :
    (∀ j (hj : j < U.length), ∃ m s, msgs[U[j]]? = some m ∧ π.d[j]? = some s ∧
      2 ^ 64 ≤ |s / π.challenge - m|) ∧
    2 ^ 64 ≤ |π.d1 / π.challenge - c1.randomness| ∧
    2 ^ 64 ≤ |π.d2 / π.challenge - c2.randomness| := by
  obtain ⟨⟨h0, hlt⟩, -, h1, h2, h3⟩ := nisp2_masks cs msgs c1 c2 pk bases cpk U t t' π h
  have hc0 := lt_of_le_of_ne h0 (Ne.symm hc)
  have hb := blindLen_ge cs cs.ln hlin
  have hb' := blindLen_ge cs cs.lm hlin
  refine ⟨fun j hj => ?_, h2.hidden hc0 hlt (by omega), h3.hidden hc0 hlt (by omega)⟩
  obtain ⟨m, hm, s, hs, hM⟩ := h1 j hj
  exact ⟨m, s, hm, hs, hM.hidden hc0 hlt (by omega)⟩

/-- **nisp5** (proof of knowledge of a signature): all of `s_1 … s_9` and every `s_5[j]`.
`rw = π.Cw.randomness`, `w = π.Cv.randomness` (the output of `nisp5Gen` still carries the
openings; `proofGen` redacts them). The blindings of `s_4` (for `e`) and `s_5[j]` (for the hidden
attributes) have `ln` bits; the others `blindLen` of the size of their secret. -/
theorem nisp5_masks (cs : Suite) (σ : Signature) (cpk : CommitmentPK) (pk : PublicKey)
    (bases msgs : List Int) (U : List Nat) (t t' : List Draw) (π : SignaturePoK)
    (h : nisp5Gen cs σ cpk pk bases msgs U t = .ok (π, t')) :
    (0 ≤ π.challenge ∧ π.challenge < 2 ^ 256) ∧
    Masked π.s1 π.challenge π.Cw.randomness (blindLen cs cs.ln) ∧
    Masked π.s2 π.challenge (π.Cw.randomness * σ.e) (blindLen cs (cs.ln + cs.le)) ∧
    Masked π.s3 π.challenge π.Cx.randomness (blindLen cs cs.ln) ∧
    Masked π.s4 π.challenge σ.e cs.ln ∧
    (π.s5.length = U.length ∧ ∀ j (hj : j < U.length), ∃ m, msgs[U[j]]? = some m ∧
      ∃ s, π.s5[j]? = some s ∧ Masked s π.challenge m cs.ln) ∧
    Masked π.s6 π.challenge σ.s (blindLen cs (cs.ls + 1)) ∧
    Masked π.s7 π.challenge π.Cv.randomness (blindLen cs cs.ln) ∧
    Masked π.s8 π.challenge (π.Cv.randomness * σ.e) (blindLen cs (cs.ln + cs.le)) ∧
    Masked π.s9 π.challenge π.Ce.randomness (blindLen cs cs.ln) := by
  unfold nisp5Gen at h
  dsimp only at h
  split at h
  · cases h
  obtain ⟨Cx, _, -, h⟩ := bind_ok_inv h
  obtain ⟨Cv, _, -, h⟩ := bind_ok_inv h
  obtain ⟨Cw, _, -, h⟩ := bind_ok_inv h
  obtain ⟨Ce, _, -, h⟩ := bind_ok_inv h
  obtain ⟨r1, _, hr1, h⟩ := bind_ok_inv h
  obtain ⟨r2, _, hr2, h⟩ := bind_ok_inv h
  obtain ⟨r3, _, hr3, h⟩ := bind_ok_inv h
  obtain ⟨r4, _, hr4, h⟩ := bind_ok_inv h
  obtain ⟨r6, _, hr6, h⟩ := bind_ok_inv h
  obtain ⟨r7, _, hr7, h⟩ := bind_ok_inv h
  obtain ⟨r8, _, hr8, h⟩ := bind_ok_inv h
  obtain ⟨r9, _, hr9, h⟩ := bind_ok_inv h
  obtain ⟨r5, _, hr5, h⟩ := bind_ok_inv h
  obtain ⟨_, _, _, _, h10, h1b⟩ := randomBits_ok_inv hr1
  obtain ⟨_, _, _, _, h20, h2b⟩ := randomBits_ok_inv hr2
  obtain ⟨_, _, _, _, h30, h3b⟩ := randomBits_ok_inv hr3
  obtain ⟨_, _, _, _, h40, h4b⟩ := randomBits_ok_inv hr4
  obtain ⟨_, _, _, _, h60, h6b⟩ := randomBits_ok_inv hr6
  obtain ⟨_, _, _, _, h70, h7b⟩ := randomBits_ok_inv hr7
  obtain ⟨_, _, _, _, h80, h8b⟩ := randomBits_ok_inv hr8
  obtain ⟨_, _, _, _, h90, h9b⟩ := randomBits_ok_inv hr9
  clear hr1 hr2 hr3 hr4 hr6 hr7 hr8 hr9
  obtain ⟨tCx, _, -, h⟩ := bind_ok_inv h
  obtain ⟨g0, _, -, h⟩ := bind_ok_inv h
  obtain ⟨a, _, -, h⟩ := bind_ok_inv h
  obtain ⟨itCx, _, -, h⟩ := bind_ok_inv h
  obtain ⟨ib, _, -, h⟩ := bind_ok_inv h
  obtain ⟨ib6, _, -, h⟩ := bind_ok_inv h
  obtain ⟨ig, _, -, h⟩ := bind_ok_inv h
  obtain ⟨ig8, _, -, h⟩ := bind_ok_inv h
  obtain ⟨g7, _, -, h⟩ := bind_ok_inv h
  obtain ⟨h1, _, -, h⟩ := bind_ok_inv h
  obtain ⟨cw4, _, -, h⟩ := bind_ok_inv h
  obtain ⟨ig', _, -, h⟩ := bind_ok_inv h
  obtain ⟨ig8', _, -, h⟩ := bind_ok_inv h
  obtain ⟨ih, _, -, h⟩ := bind_ok_inv h
  obtain ⟨ih2, _, -, h⟩ := bind_ok_inv h
  obtain ⟨t4, _, -, h⟩ := bind_ok_inv h
  obtain ⟨h3, _, -, h⟩ := bind_ok_inv h
  obtain ⟨g4, _, -, h⟩ := bind_ok_inv h
  obtain ⟨h9, _, -, h⟩ := bind_ok_inv h
  obtain ⟨s5, _, hs5, h⟩ := bind_ok_inv h
  obtain ⟨rfl, rfl⟩ := pure_ok_iff.mp h
  dsimp only
  obtain ⟨hl5, h5⟩ := drawR5_ok hr5
  obtain ⟨hsl, hs⟩ := s5_mapM_ok hs5
  refine ⟨⟨hashInts_nonneg _, hashInts_lt _⟩, Masked.comm ⟨r1, h10, h1b, rfl⟩,
    Masked.comm ⟨r2, h20, h2b, rfl⟩, Masked.comm ⟨r3, h30, h3b, rfl⟩,
    Masked.comm ⟨r4, h40, h4b, rfl⟩, ⟨hsl, fun j hj => ?_⟩, Masked.comm ⟨r6, h60, h6b, rfl⟩,
    Masked.comm ⟨r7, h70, h7b, rfl⟩, Masked.comm ⟨r8, h80, h8b, rfl⟩,
    Masked.comm ⟨r9, h90, h9b, rfl⟩⟩
  obtain ⟨r, m, hr, hm, hy⟩ := hs j hj
  have hlt : U[j] < msgs.length := (List.getElem?_eq_some_iff.mp hm).1
  obtain ⟨r', hr', h0, hb⟩ := h5 U[j] hlt (by simp)
  rw [hr] at hr'
  obtain rfl := Option.some.inj hr'
  exact ⟨m, hm, _, hy, Masked.comm ⟨r, h0, hb, rfl⟩⟩

/-- C19 for the proof of knowledge of a signature: dividing any response by the challenge misses
the hidden attribute / `e` / `s` / opening randomness it answers for by at least `2^64`. -/
theorem nisp5_hidden (cs : Suite) (hlin : 256 ≤ cs.lin) (hln : 321 ≤ cs.ln) (σ : Signature)
    (cpk : CommitmentPK) (pk : PublicKey) (bases msgs : List Int) (U : List Nat) (t t' : List Draw)
    (π : SignaturePoK) (h : nisp5Gen cs σ cpk pk bases msgs U t = .ok (π, t'))
    (hc : π.challenge ≠ 0) :
    2 ^ 64 ≤ |π.s1 / π.challenge - π.Cw.randomness| ∧
    2 ^ 64 ≤ |π.s2 / π.challenge - π.Cw.randomness * σ.e| ∧
    2 ^ 64 ≤ |π.s3 / π.challenge - π.Cx.randomness| ∧
    2 ^ 64 ≤ |π.s4 / π.challenge - σ.e| ∧
    (∀ j (hj : j < U.length), ∃ m s, msgs[U[j]]? = some m ∧ π.s5[j]? = some s ∧
      2 ^ 64 ≤ |s / π.challenge - m|) ∧
    2 ^ 64 ≤ |π.s6 / π.challenge - σ.s| ∧
    2 ^ 64 ≤ |π.s7 / π.challenge - π.Cv.randomness| ∧
    2 ^ 64 ≤ |π.s8 / π.challenge - π.Cv.randomness * σ.e| ∧
    2 ^ 64 ≤ |π.s9 / π.challenge - π.Ce.randomness| := by
  obtain ⟨⟨h0, hlt⟩, m1, m2, m3, m4, ⟨-, m5⟩, m6, m7, m8, m9⟩ :=
    nisp5_masks cs σ cpk pk bases msgs U t t' π h
  have hc0 := lt_of_le_of_ne h0 (Ne.symm hc)
  have b1 := blindLen_ge cs cs.ln hlin
  have b2 := blindLen_ge cs (cs.ln + cs.le) hlin
  have b3 := blindLen_ge cs (cs.ls + 1) hlin
  refine ⟨m1.hidden hc0 hlt (by omega), m2.hidden hc0 hlt (by omega), m3.hidden hc0 hlt (by omega),
    m4.hidden hc0 hlt hln, fun j hj => ?_, m6.hidden hc0 hlt (by omega),
    m7.hidden hc0 hlt (by omega), m8.hidden hc0 hlt (by omega), m9.hidden hc0 hlt (by omega)⟩
  obtain ⟨m, hm, s, hs, hM⟩ := m5 j hj
  exact ⟨m, s, hm, hs, hM.hidden hc0 hlt hln⟩


/-! ### 9. dividing one response by another -/

/-- **Quotient of two responses.** For `s = r + c·x`, `s' = r' + c·x'` whose blindings have the
same bit length `n` (and dominate `c·x`, `c·x'`), `floor(s / s') ∈ {0, 1, 2}`: a number that
carries no information about a secret of more than a few bits; in particular it misses any secret
`x ≥ 2^64 + 2` by at least `2^64`. (For blindings of different lengths `n > n'` the quotient is
`≈ 2^(n−n')·r/r'`, again a function of the blindings and the public lengths only.) -/
theorem ratio_note {s s' r r' c x x' : Int} {n : Nat} (hn : 0 < n) (hs : s = r + c * x)
    (hs' : s' = r' + c * x') (hr : 2 ^ (n - 1) ≤ r) (hr2 : r < 2 ^ n) (hr' : 2 ^ (n - 1) ≤ r')
    (h1 : 0 ≤ c * x) (h2 : c * x < 2 ^ (n - 1)) (h3 : 0 ≤ c * x') :
    0 ≤ s / s' ∧ s / s' ≤ 2 ∧ (2 ^ 64 + 2 ≤ x → 2 ^ 64 ≤ |s / s' - x|) := by
  have hp : (0 : Int) < 2 ^ (n - 1) := by positivity
  have h2n : (2 : Int) ^ n = 2 * 2 ^ (n - 1) := by
    rw [← pow_succ']; congr 1; omega
  have hs'pos : 0 < s' := by rw [hs']; linarith
  have hs0 : 0 ≤ s := by rw [hs]; linarith
  have hlt : s / s' < 3 := Int.ediv_lt_of_lt_mul hs'pos (by rw [hs, hs']; nlinarith)
  have h0 : 0 ≤ s / s' := Int.ediv_nonneg hs0 hs'pos.le
  refine ⟨h0, by omega, fun hx => ?_⟩
  rw [abs_of_nonpos (by omega)]
  omega

/-- **Quotient of two responses, exactly.** Over ℚ: if the secret parts `d = c·x`, `d' = c·x'` are
at most a fraction `δ` of the blindings, `s/s'` equals `r/r'` up to the relative error `δ`: the
quotient of two responses is a function of the two blindings up to `δ`. -/
theorem ratio_perturbation {r r' d d' δ : ℚ} (hr : 0 < r) (hr' : 0 < r') (hd : 0 ≤ d) (hd' : 0 ≤ d')
    (hδ : 0 ≤ δ) (h1 : d ≤ δ * r) (h2 : d' ≤ δ * r') :
    |(r + d) / (r' + d') - r / r'| ≤ δ * (r / r') := by
  have hp : 0 < r' + d' := by linarith
  have e : (r + d) / (r' + d') - r / r' = (d * r' - r * d') / ((r' + d') * r') := by
    field_simp; ring
  have e2 : δ * (r / r') = (δ * r * (r' + d')) / ((r' + d') * r') := by
    field_simp
  have hden : 0 < (r' + d') * r' := mul_pos hp hr'
  have k1 := mul_le_mul_of_nonneg_left h2 hr.le
  have k2 := mul_le_mul_of_nonneg_right h1 hr'.le
  have k3 : 0 ≤ δ * r * d' := mul_nonneg (mul_nonneg hδ hr.le) hd'
  have k4 : 0 ≤ d * r' := mul_nonneg hd hr'.le
  have k5 : 0 ≤ r * d' := mul_nonneg hr.le hd'
  rw [e, e2, abs_le, ← neg_div]
  constructor
  · rw [div_le_div_iff_of_pos_right hden]; nlinarith
  · rw [div_le_div_iff_of_pos_right hden]; nlinarith

/-- For two CL03 responses whose blindings have at least `n` bits and whose secret×challenge
products are below `2^m`: `δ = 2^m / 2^(n-1)` (with `blindLen`: `m = k + 256`, `n = k + 384`,
`δ = 2^-127`). -/
theorem ratio_perturbation_resp {s s' r r' c x x' : Int} {n m : Nat} (hs : s = r + c * x)
    (hs' : s' = r' + c * x') (hr : 2 ^ (n - 1) ≤ r) (hr' : 2 ^ (n - 1) ≤ r')
    (h1 : 0 ≤ c * x) (h2 : c * x < 2 ^ m) (h3 : 0 ≤ c * x') (h4 : c * x' < 2 ^ m) :
    |(s : ℚ) / s' - (r : ℚ) / r'| ≤ (2 ^ m / 2 ^ (n - 1)) * ((r : ℚ) / r') := by
  have hp : (0 : ℚ) < 2 ^ (n - 1) := by positivity
  have hrq : (2 : ℚ) ^ (n - 1) ≤ r := by exact_mod_cast hr
  have hrq' : (2 : ℚ) ^ (n - 1) ≤ r' := by exact_mod_cast hr'
  have hd : ((c * x : Int) : ℚ) ≤ 2 ^ m := by exact_mod_cast h2.le
  have hd' : ((c * x' : Int) : ℚ) ≤ 2 ^ m := by exact_mod_cast h4.le
  have hδ : (0 : ℚ) ≤ 2 ^ m / 2 ^ (n - 1) := by positivity
  have key : ∀ y : ℚ, 2 ^ (n - 1) ≤ y → (2 : ℚ) ^ m ≤ 2 ^ m / 2 ^ (n - 1) * y := by
    intro y hy
    rw [div_mul_eq_mul_div, le_div_iff₀ hp]
    exact mul_le_mul_of_nonneg_left hy (by positivity)
  have := ratio_perturbation (r := r) (r' := r') (d := ((c * x : Int) : ℚ))
    (d' := ((c * x' : Int) : ℚ)) (δ := 2 ^ m / 2 ^ (n - 1)) (by linarith) (by linarith)
    (by exact_mod_cast h1) (by exact_mod_cast h3) hδ (hd.trans (key _ hrq)) (hd'.trans (key _ hrq'))
  rw [hs, hs']
  push_cast at this ⊢
  exact this

/-! ### 10. the two composite proofs (`ZKPoK`, `PoKSignature`) -/

/-- Both responses of a `nisp2sec` proof `pv` for the commitment value `cv` under bases `g, h` are
masked: `s1` answers for `m`, `s2` for the opening `rnd`, an `ln`-bit non-negative integer (which
the proof itself no longer carries: `publicPart`). -/
def Sec2Masked (cs : Suite) (pv : NISPSecrets) (g h cv m rnd : Int) : Prop :=
  Masked pv.s1 (hashInts [g, h, cv, pv.t]) m (blindLen cs cs.ln) ∧
  Masked pv.s2 (hashInts [g, h, cv, pv.t]) rnd (blindLen cs cs.ln)

theorem Sec2Masked.hidden {cs : Suite} {pv : NISPSecrets} {g h cv m rnd : Int}
    (hm : Sec2Masked cs pv g h cv m rnd) (hlin : 256 ≤ cs.lin)
    (hc : hashInts [g, h, cv, pv.t] ≠ 0) :
    2 ^ 64 ≤ |pv.s1 / hashInts [g, h, cv, pv.t] - m| ∧
    2 ^ 64 ≤ |pv.s2 / hashInts [g, h, cv, pv.t] - rnd| := by
  have hc0 := lt_of_le_of_ne (hashInts_nonneg _) (Ne.symm hc)
  have hb := blindLen_ge cs cs.ln hlin
  exact ⟨hm.1.hidden hc0 (hashInts_lt _) (by omega), hm.2.hidden hc0 (hashInts_lt _) (by omega)⟩

theorem commitWithPk_randomness {cs : Suite} {msgs : List Int} {pk : PublicKey} {bases : List Int}
    {U : Option (List Nat)} {c : Commitment} {t t' : List Draw}
    (h : commitWithPk cs msgs pk bases U t = .ok (c, t')) :
    0 ≤ c.randomness ∧ bitLen c.randomness = cs.ln := by
  unfold commitWithPk at h
  obtain ⟨r, t1, hr, H1⟩ := bind_ok_inv h
  obtain ⟨cx, t2, hcx, H2⟩ := bind_ok_inv H1
  obtain ⟨hr', t3, hhr, H3⟩ := bind_ok_inv H2
  obtain ⟨rfl, -⟩ := pure_ok_iff.mp H3
  obtain ⟨_, _, _, _, r0, rb⟩ := randomBits_ok_inv hr
  exact ⟨r0, rb⟩

theorem commitWithCpk_randomness {cs : Suite} {msgs : List Int} {cpk : CommitmentPK}
    {U : Option (List Nat)} {c : Commitment} {t t' : List Draw}
    (h : commitWithCpk cs msgs cpk U t = .ok (c, t')) :
    0 ≤ c.randomness ∧ bitLen c.randomness = cs.ln := by
  unfold commitWithCpk at h
  obtain ⟨r, t1, hr, H1⟩ := bind_ok_inv h
  obtain ⟨cx, t2, hcx, H2⟩ := bind_ok_inv H1
  obtain ⟨hr', t3, hhr, H3⟩ := bind_ok_inv H2
  obtain ⟨rfl, -⟩ := pure_ok_iff.mp H3
  obtain ⟨_, _, _, _, r0, rb⟩ := randomBits_ok_inv hr
  exact ⟨r0, rb⟩

/-- the per-attribute proofs of the issuance proof -/
theorem zkMiLoop_masks {cs : Suite} {pk : PublicKey} {bases msgs : List Int} {U : List Nat}
    {ps : List ProofOfValue} {rs : List RangeProof} {t t' : List Draw}
    (h : zkMiLoop cs pk bases msgs U t = .ok ((ps, rs), t')) :
    ps.length = U.length ∧ ∀ k (hk : k < U.length), ∃ pv mi ai rnd, ps[k]? = some pv ∧
      msgs[U[k]]? = some mi ∧ bases[U[k]]? = some ai ∧ 0 ≤ rnd ∧ bitLen rnd = cs.ln ∧
      Sec2Masked cs pv.value ai pk.b pv.commitment.value mi rnd := by
  induction U generalizing ps rs t t' with
  | nil =>
    obtain ⟨h, -⟩ := pure_ok_iff.mp h
    simp only [Prod.mk.injEq] at h
    obtain ⟨rfl, rfl⟩ := h
    simp
  | cons i is ih =>
    unfold zkMiLoop at h
    obtain ⟨mi, t1, hmi, H1⟩ := bind_ok_inv h
    obtain ⟨ai, t2, hai, H2⟩ := bind_ok_inv H1
    obtain ⟨cmi, t3, hcmi, H3⟩ := bind_ok_inv H2
    obtain ⟨pv, t4, hpv, H4⟩ := bind_ok_inv H3
    obtain ⟨rp, t5, hrp, H5⟩ := bind_ok_inv H4
    obtain ⟨p, t6, hp, H6⟩ := bind_ok_inv H5
    obtain ⟨ps', rs'⟩ := p
    obtain ⟨H6, -⟩ := pure_ok_iff.mp H6
    simp only [Prod.mk.injEq] at H6
    obtain ⟨rfl, rfl⟩ := H6
    obtain ⟨hmi, -⟩ := idx_ok_iff.mp hmi
    obtain ⟨hai, -⟩ := idx_ok_iff.mp hai
    obtain ⟨r0, rb⟩ := commitWithPk_randomness hcmi
    have hm := nisp2sec_masks cs mi cmi ai pk.b pk.N _ _ pv hpv
    obtain ⟨hl, hall⟩ := ih hp
    refine ⟨by simp [hl], fun k hk => ?_⟩
    cases k with
    | zero => exact ⟨⟨pv, publicPart cmi⟩, mi, ai, cmi.randomness, by simp, by simpa using hmi,
        by simpa using hai, r0, rb, hm⟩
    | succ k =>
      obtain ⟨pv', mi', ai', rnd', e1, e2, e3, e4⟩ := hall k (by simpa using hk)
      exact ⟨pv', mi', ai', rnd', by simpa using e1, by simpa using e2, by simpa using e3, e4⟩

/-- the per-attribute proofs of the proof of knowledge of a signature -/
theorem pokMiLoop_masks {cs : Suite} {cpk : CommitmentPK} {msgs : List Int} {U : List Nat}
    {ps : List ProofOfValue} {rs : List RangeProof} {t t' : List Draw}
    (h : pokMiLoop cs cpk msgs U t = .ok ((ps, rs), t')) :
    ps.length = U.length ∧ ∀ k (hk : k < U.length), ∃ pv mi gi rnd, ps[k]? = some pv ∧
      msgs[U[k]]? = some mi ∧ cpk.gBases[U[k]]? = some gi ∧ 0 ≤ rnd ∧ bitLen rnd = cs.ln ∧
      Sec2Masked cs pv.value gi cpk.h pv.commitment.value mi rnd := by
  induction U generalizing ps rs t t' with
  | nil =>
    obtain ⟨h, -⟩ := pure_ok_iff.mp h
    simp only [Prod.mk.injEq] at h
    obtain ⟨rfl, rfl⟩ := h
    simp
  | cons i is ih =>
    unfold pokMiLoop at h
    obtain ⟨mi, t1, hmi, H1⟩ := bind_ok_inv h
    obtain ⟨gi, t2, hgi, H2⟩ := bind_ok_inv H1
    obtain ⟨cmi, t3, hcmi, H3⟩ := bind_ok_inv H2
    obtain ⟨pv, t4, hpv, H4⟩ := bind_ok_inv H3
    obtain ⟨rp, t5, hrp, H5⟩ := bind_ok_inv H4
    obtain ⟨p, t6, hp, H6⟩ := bind_ok_inv H5
    obtain ⟨ps', rs'⟩ := p
    obtain ⟨H6, -⟩ := pure_ok_iff.mp H6
    simp only [Prod.mk.injEq] at H6
    obtain ⟨rfl, rfl⟩ := H6
    obtain ⟨hmi, -⟩ := idx_ok_iff.mp hmi
    obtain ⟨hgi, -⟩ := idx_ok_iff.mp hgi
    obtain ⟨r0, rb⟩ := commitWithCpk_randomness hcmi
    have hm := nisp2sec_masks cs mi cmi gi cpk.h cpk.N _ _ pv hpv
    obtain ⟨hl, hall⟩ := ih hp
    refine ⟨by simp [hl], fun k hk => ?_⟩
    cases k with
    | zero => exact ⟨⟨pv, publicPart cmi⟩, mi, gi, cmi.randomness, by simp, by simpa using hmi,
        by simpa using hgi, r0, rb, hm⟩
    | succ k =>
      obtain ⟨pv', mi', gi', rnd', e1, e2, e3, e4⟩ := hall k (by simpa using hk)
      exact ⟨pv', mi', gi', rnd', by simpa using e1, by simpa using e2, by simpa using e3, e4⟩

/-- conclusion of `multi_masks` -/
def MultiMasked (cs : Suite) (msgs : List Int) (c : Commitment) (pk : PublicKey) (bases : List Int)
    (unrevealed : Option (List Nat)) (π : NISPMultiSecrets) : Prop :=
  ∃ as : List Int, (multiIx msgs unrevealed).map (fun i => bases[i]?) = as.map some ∧
    let ch := hashInts (as ++ [pk.b, c.value, π.t])
    π.s1.length = (multiIx msgs unrevealed).length ∧
    (∀ j (hj : j < (multiIx msgs unrevealed).length), ∃ m,
      msgs[(multiIx msgs unrevealed)[j]]? = some m ∧
      ∃ s, π.s1[j]? = some s ∧ Masked s ch m (blindLen cs cs.lm)) ∧
    Masked π.s2 ch c.randomness (blindLen cs cs.ln)

/-- conclusion of `nisp2_masks` -/
def Nisp2Masked (cs : Suite) (msgs : List Int) (c1 c2 : Commitment) (U : List Nat)
    (π : NISP2Commitments) : Prop :=
  (0 ≤ π.challenge ∧ π.challenge < 2 ^ 256) ∧
  π.d.length = U.length ∧
  (∀ j (hj : j < U.length), ∃ m, msgs[U[j]]? = some m ∧
    ∃ s, π.d[j]? = some s ∧ Masked s π.challenge m (blindLen cs cs.lm)) ∧
  Masked π.d1 π.challenge c1.randomness (blindLen cs cs.ln) ∧
  Masked π.d2 π.challenge c2.randomness (blindLen cs cs.ln)

/-- conclusion of `nisp5_masks`, with the four opening randomnesses `rx, w, rw, re` of
`Cx, Cv, Cw, Ce` as parameters (the published proof carries the commitments without them). -/
def SpokMasked (cs : Suite) (σ : Signature) (msgs : List Int) (U : List Nat) (π : SignaturePoK)
    (rx w rw re : Int) : Prop :=
  (0 ≤ π.challenge ∧ π.challenge < 2 ^ 256) ∧
  Masked π.s1 π.challenge rw (blindLen cs cs.ln) ∧
  Masked π.s2 π.challenge (rw * σ.e) (blindLen cs (cs.ln + cs.le)) ∧
  Masked π.s3 π.challenge rx (blindLen cs cs.ln) ∧
  Masked π.s4 π.challenge σ.e cs.ln ∧
  (π.s5.length = U.length ∧ ∀ j (hj : j < U.length), ∃ m, msgs[U[j]]? = some m ∧
    ∃ s, π.s5[j]? = some s ∧ Masked s π.challenge m cs.ln) ∧
  Masked π.s6 π.challenge σ.s (blindLen cs (cs.ls + 1)) ∧
  Masked π.s7 π.challenge w (blindLen cs cs.ln) ∧
  Masked π.s8 π.challenge (w * σ.e) (blindLen cs (cs.ln + cs.le)) ∧
  Masked π.s9 π.challenge re (blindLen cs cs.ln)

theorem MultiMasked.hidden {cs : Suite} {msgs : List Int} {c : Commitment} {pk : PublicKey}
    {bases : List Int} {unrevealed : Option (List Nat)} {π : NISPMultiSecrets}
    (hm : MultiMasked cs msgs c pk bases unrevealed π) (hlin : 256 ≤ cs.lin) :
    ∃ ch : Int, 0 ≤ ch ∧ ch < 2 ^ 256 ∧ (ch ≠ 0 →
      (∀ j (hj : j < (multiIx msgs unrevealed).length), ∃ m s,
        msgs[(multiIx msgs unrevealed)[j]]? = some m ∧ π.s1[j]? = some s ∧ 2 ^ 64 ≤ |s / ch - m|) ∧
      2 ^ 64 ≤ |π.s2 / ch - c.randomness|) := by
  obtain ⟨as, -, -, h1, h2⟩ := hm
  refine ⟨hashInts (as ++ [pk.b, c.value, π.t]), hashInts_nonneg _, hashInts_lt _, fun hc => ?_⟩
  have hc0 := lt_of_le_of_ne (hashInts_nonneg _) (Ne.symm hc)
  have hb := blindLen_ge cs cs.ln hlin
  have hb' := blindLen_ge cs cs.lm hlin
  refine ⟨fun j hj => ?_, h2.hidden hc0 (hashInts_lt _) (by omega)⟩
  obtain ⟨m, hm, s, hs, hM⟩ := h1 j hj
  exact ⟨m, s, hm, hs, hM.hidden hc0 (hashInts_lt _) (by omega)⟩

theorem Nisp2Masked.hidden {cs : Suite} {msgs : List Int} {c1 c2 : Commitment} {U : List Nat}
    {π : NISP2Commitments} (hm : Nisp2Masked cs msgs c1 c2 U π) (hlin : 256 ≤ cs.lin)
    (hc : π.challenge ≠ 0) :
    (∀ j (hj : j < U.length), ∃ m s, msgs[U[j]]? = some m ∧ π.d[j]? = some s ∧
      2 ^ 64 ≤ |s / π.challenge - m|) ∧
    2 ^ 64 ≤ |π.d1 / π.challenge - c1.randomness| ∧
    2 ^ 64 ≤ |π.d2 / π.challenge - c2.randomness| := by
  obtain ⟨⟨h0, hlt⟩, -, h1, h2, h3⟩ := hm
  have hc0 := lt_of_le_of_ne h0 (Ne.symm hc)
  have hb := blindLen_ge cs cs.ln hlin
  have hb' := blindLen_ge cs cs.lm hlin
  refine ⟨fun j hj => ?_, h2.hidden hc0 hlt (by omega), h3.hidden hc0 hlt (by omega)⟩
  obtain ⟨m, hm, s, hs, hM⟩ := h1 j hj
  exact ⟨m, s, hm, hs, hM.hidden hc0 hlt (by omega)⟩

theorem SpokMasked.hidden {cs : Suite} {σ : Signature} {msgs : List Int} {U : List Nat}
    {π : SignaturePoK} {rx w rw re : Int} (hm : SpokMasked cs σ msgs U π rx w rw re)
    (hlin : 256 ≤ cs.lin) (hln : 321 ≤ cs.ln) (hc : π.challenge ≠ 0) :
    2 ^ 64 ≤ |π.s1 / π.challenge - rw| ∧
    2 ^ 64 ≤ |π.s2 / π.challenge - rw * σ.e| ∧
    2 ^ 64 ≤ |π.s3 / π.challenge - rx| ∧
    2 ^ 64 ≤ |π.s4 / π.challenge - σ.e| ∧
    (∀ j (hj : j < U.length), ∃ m s, msgs[U[j]]? = some m ∧ π.s5[j]? = some s ∧
      2 ^ 64 ≤ |s / π.challenge - m|) ∧
    2 ^ 64 ≤ |π.s6 / π.challenge - σ.s| ∧
    2 ^ 64 ≤ |π.s7 / π.challenge - w| ∧
    2 ^ 64 ≤ |π.s8 / π.challenge - w * σ.e| ∧
    2 ^ 64 ≤ |π.s9 / π.challenge - re| := by
  obtain ⟨⟨h0, hlt⟩, m1, m2, m3, m4, ⟨-, m5⟩, m6, m7, m8, m9⟩ := hm
  have hc0 := lt_of_le_of_ne h0 (Ne.symm hc)
  have b1 := blindLen_ge cs cs.ln hlin
  have b2 := blindLen_ge cs (cs.ln + cs.le) hlin
  have b3 := blindLen_ge cs (cs.ls + 1) hlin
  refine ⟨m1.hidden hc0 hlt (by omega), m2.hidden hc0 hlt (by omega), m3.hidden hc0 hlt (by omega),
    m4.hidden hc0 hlt hln, fun j hj => ?_, m6.hidden hc0 hlt (by omega),
    m7.hidden hc0 hlt (by omega), m8.hidden hc0 hlt (by omega), m9.hidden hc0 hlt (by omega)⟩
  obtain ⟨m, hm, s, hs, hM⟩ := m5 j hj
  exact ⟨m, s, hm, hs, hM.hidden hc0 hlt hln⟩

/-- **C19 for the issuance proof** (`ZKPoK::generate_proof`): every response of every sigma
protocol inside it is masked — the optional `nisp2` proof, the `nispMultiSecrets` proof, one
`nisp2sec` proof per hidden attribute, and the `nisp2sec` proof for the opening `r` of `C`. -/
theorem zkpok_masks (cs : Suite) (msgs : List Int) (C : Commitment) (Ct : Option Commitment)
    (pk : PublicKey) (bases : List Int) (cpk : Option CommitmentPK) (U : List Nat)
    (t t' : List Draw) (π : ZKPoK) (h : zkpokGen cs msgs C Ct pk bases cpk U t = .ok (π, t')) :
    (∀ p2, π.proofCCtrusted = some p2 → ∃ ct, Ct = some ct ∧ Nisp2Masked cs msgs C ct U p2) ∧
    MultiMasked cs msgs C pk bases (some U) π.proofMsgs ∧
    (π.proofsMi.length = U.length ∧ ∀ k (hk : k < U.length), ∃ pv mi ai rnd,
      π.proofsMi[k]? = some pv ∧ msgs[U[k]]? = some mi ∧ bases[U[k]]? = some ai ∧
      0 ≤ rnd ∧ bitLen rnd = cs.ln ∧ Sec2Masked cs pv.value ai pk.b pv.commitment.value mi rnd) ∧
    ∃ a0 rnd, bases[0]? = some a0 ∧ 0 ≤ rnd ∧ bitLen rnd = cs.ln ∧
      Sec2Masked cs π.proofR.value a0 pk.b π.proofR.commitment.value C.randomness rnd := by
  unfold zkpokGen at h
  obtain ⟨p2, t1, hp2, H1⟩ := bind_ok_inv h
  obtain ⟨pm, t2, hpm, H2⟩ := bind_ok_inv H1
  obtain ⟨p, t3, hps, H3⟩ := bind_ok_inv H2
  obtain ⟨ps, rs⟩ := p
  simp only [] at H3
  obtain ⟨cr, t4, hcr, H4⟩ := bind_ok_inv H3
  obtain ⟨a0, t5, ha0, H5⟩ := bind_ok_inv H4
  obtain ⟨pr, t6, hpr, H6⟩ := bind_ok_inv H5
  obtain ⟨rpr, t7, hrpr, H7⟩ := bind_ok_inv H6
  obtain ⟨rfl, -⟩ := pure_ok_iff.mp H7
  clear h H1 H2 H3 H4 H5 H6 H7
  refine ⟨?_, multi_masks cs msgs C pk bases (some U) _ _ pm hpm, zkMiLoop_masks hps, ?_⟩
  · intro q hq
    simp only at hq
    subst hq
    cases Ct with
    | none => cases (pure_ok_iff.mp hp2).1
    | some ct =>
      cases cpk with
      | none => cases (pure_ok_iff.mp hp2).1
      | some cpk' =>
        simp only [] at hp2
        obtain ⟨p, t8, hp, K⟩ := bind_ok_inv hp2
        obtain ⟨hK, -⟩ := pure_ok_iff.mp K
        obtain rfl := Option.some.inj hK
        exact ⟨ct, rfl, nisp2_masks cs msgs C ct pk bases cpk' U _ _ p hp⟩
  · obtain ⟨r0, rb⟩ := commitWithPk_randomness hcr
    obtain ⟨ha0, -⟩ := idx_ok_iff.mp ha0
    exact ⟨a0, cr.randomness, ha0, r0, rb, nisp2sec_masks cs _ cr a0 pk.b pk.N _ _ pr hpr⟩

/-- **C19 for the proof of knowledge of a signature** (`PoKSignature::proof_gen`): the `nisp5`
responses (for the openings `rx, w, rw, re` the published proof no longer carries) and one
`nisp2sec` proof per hidden attribute. -/
theorem pok_masks (cs : Suite) (σ : Signature) (cpk : CommitmentPK) (pk : PublicKey)
    (bases msgs : List Int) (U : List Nat) (t t' : List Draw) (π : PoKSignature)
    (h : proofGen cs σ cpk pk bases msgs U t = .ok (π, t')) :
    (∃ rx w rw re, SpokMasked cs σ msgs U π.spok rx w rw re) ∧
    (π.proofsMi.length = U.length ∧ ∀ k (hk : k < U.length), ∃ pv mi gi rnd,
      π.proofsMi[k]? = some pv ∧ msgs[U[k]]? = some mi ∧ cpk.gBases[U[k]]? = some gi ∧
      0 ≤ rnd ∧ bitLen rnd = cs.ln ∧ Sec2Masked cs pv.value gi cpk.h pv.commitment.value mi rnd) := by
  unfold proofGen at h
  obtain ⟨spok, t1, hspok, H1⟩ := bind_ok_inv h
  obtain ⟨g0, t2, hg0, H2⟩ := bind_ok_inv H1
  obtain ⟨rpe, t3, hrpe, H3⟩ := bind_ok_inv H2
  obtain ⟨p, t4, hps, H4⟩ := bind_ok_inv H3
  obtain ⟨ps, rs⟩ := p
  simp only [] at H4
  obtain ⟨rfl, -⟩ := pure_ok_iff.mp H4
  exact ⟨⟨spok.Cx.randomness, spok.Cv.randomness, spok.Cw.randomness, spok.Ce.randomness,
    nisp5_masks cs σ cpk pk bases msgs U _ _ spok hspok⟩, pokMiLoop_masks hps⟩

/-- The suite relations used above hold for the three generated suites. -/
example : ∀ c ∈ [Zk.Generated.cl1024, Zk.Generated.cl2048, Zk.Generated.cl3072],
    256 ≤ (suiteOfConsts c).lin ∧ 321 ≤ (suiteOfConsts c).ln := by decide

end Zk.C19
