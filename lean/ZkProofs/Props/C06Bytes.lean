/-
C06 (byte level, and the signer-message count)

"The signer never issues a blind signature for a commitment whose proof of correctness does not
verify: any single-bit change of the serialized commitment-with-proof, … or a proof truncated or
extended by whole scalars is refused. A … blind proof verifies only with exactly the … signer-
message count it was produced for."

Part 1 joins `Zk.C06.commit_any_change` (decoded objects) with `Zk.C09.commitment_strict` (the
decoder is injective) into statements about the OCTET STRING handed to
`BBSplusCommitment::from_bytes` / `blind_sign`:

* `commit_bytes_tamper`, `commit_bitflip` — for an accepted commitment-with-proof `c` and ANY
  octet string `b' ≠ c.toBytes` (every single-bit flip): `from_bytes b'` fails or yields
  `c' ≠ c`, and acceptance of `c'` over the same generators exhibits a `HashCollision`, a
  different challenge field (`Zk.C06.commit_tamper_challenge`: a `FixedPoint`) or an explicit
  linear relation among the blind generators (`CommitRelation`);
* `commit_resize`, `commit_delete_blocks`, `commit_insert_blocks` — another length with the
  same final challenge block: acceptance, over any generators, exhibits a `HashCollision`;
* `blind_sign_bytes_tamper`, `blind_sign_bitflip`, `blind_sign_resize` — the same at the signer:
  `blind_sign` returning a signature for `b` and for `b' ≠ b`.

Part 2 is the binding of the signer-message count `L` of blind proofs, left open in `Zk.C06`:

* `blind_proof_stmt_binding` — one proof accepted by `blind_proof_verify` for two statements:
  `HashCollision`, or public key, header, presentation header, the combined index list, the
  combined scalar list and the combined generator list `gens(L+1) ++ blindGens(M+1)` coincide;
* `blind_proof_L_binding` — if moreover `L ≠ L'`: `HashCollision ∨ GeneratorCoincidence`, where
  `GeneratorCoincidence` (defined here) says the plain and the `"BLIND_"` generator families of
  the suite share an element. Explicit witness: with `L < L'` the first blind generator for `L`
  equals the plain generator number `L + 1` for `L'` (`blind_proof_L_binding_explicit`).

Every lawful environment, both suites, all lengths and index sets.
-/
import ZkProofs.Props.C06
import ZkProofs.Props.C04
import ZkProofs.Props.C09
import ZkProofs.Props.C04Bytes
set_option linter.unusedSectionVars false
set_option linter.unusedVariables false
set_option linter.unusedSimpArgs false
namespace Zk.C06Bytes
open Zk Res Zk.Sound
open Zk.C04Bytes (flipBit flipBit_ne flipBit_length)

variable {S G1 G2 GT : Type} [Field S] [DecidableEq S]
variable [AddCommGroup G1] [Module S G1] [DecidableEq G1]
variable [AddCommGroup G2] [Module S G2] [DecidableEq G2]
variable [AddCommGroup GT] [Module S GT]
variable {env : Env S G1 G2} {pair : G1 →ₗ[S] G2 →ₗ[S] GT}

/-! ## Part 1. The serialized commitment-with-proof -/

/-- The third alternative of `Zk.C06.commit_any_change`: same `C`, same number of scalars,
different responses, and the difference is a linear relation among the blind generators
`Q2, J_1, …`: `(ŝ'−ŝ)•Q2 + Σ_i (m̂'_i−m̂_i)•J_i = 0`. -/
def CommitRelation (c c' : Commitment S G1) (bg : List G1) : Prop :=
  c'.commitment = c.commitment ∧ c'.proof.mCap.length = c.proof.mCap.length ∧
    (c'.proof.sCap, c'.proof.mCap) ≠ (c.proof.sCap, c.proof.mCap) ∧
    ∃ Q2 Js, bg.take (c.proof.mCap.length + 1) = Q2 :: Js ∧
      (c'.proof.sCap - c.proof.sCap) • Q2 + (linZ Js c'.proof.mCap - linZ Js c.proof.mCap) = 0

/-- What acceptance of a changed commitment-with-proof over the same generators implies (the
conclusion of `Zk.C06.commit_any_change`). -/
def CommitVerdict (env : Env S G1 G2) (cs : Suite G1) (c c' : Commitment S G1) (bg : List G1) :
    Prop :=
  HashCollision env cs ∨ c'.proof.challenge ≠ c.proof.challenge ∨ CommitRelation c c' bg

theorem commit_decode_ne_of_bytes_ne (hl : Lawful env pair) (c c' : Commitment S G1) (b' : Bytes)
    (hne : b' ≠ c.toBytes env) (hd : Commitment.fromBytes env b' = .ok c') : c' ≠ c := by
  rintro rfl
  exact hne (C09.commitment_strict hl b' _ hd).1.symm

/-- Decoded level, on `Commitment` objects. -/
theorem commit_obj_any_change (hl : Lawful env pair) (cs : Suite G1) (c c' : Commitment S G1)
    (bg : List G1) (apiId : Option Bytes)
    (h : coreCommitVerify env cs c.commitment c.proof bg apiId = .ok ())
    (h' : coreCommitVerify env cs c'.commitment c'.proof bg apiId = .ok ())
    (hne : c' ≠ c) : CommitVerdict env cs c c' bg := by
  refine C06.commit_any_change hl cs c.commitment c'.commitment c.proof c'.proof bg apiId h h' ?_
  intro heq
  apply hne
  cases c; cases c'
  simp only [Prod.mk.injEq] at heq
  simp only [Commitment.mk.injEq]
  exact heq

/-- **Any change of the serialized commitment-with-proof.** `c` accepted by
`core_commit_verify`, `b'` ANY octet string other than its encoding: `from_bytes b'` fails, or
returns `c' ≠ c`; and if `c'` is accepted over the same generators then `CommitVerdict`. -/
theorem commit_bytes_tamper (hl : Lawful env pair) (cs : Suite G1) (c : Commitment S G1)
    (bg : List G1) (apiId : Option Bytes)
    (h : coreCommitVerify env cs c.commitment c.proof bg apiId = .ok ())
    (b' : Bytes) (hne : b' ≠ c.toBytes env) :
    Commitment.fromBytes env b' = .err ∨
      ∃ c', Commitment.fromBytes env b' = .ok c' ∧ c' ≠ c ∧
        (coreCommitVerify env cs c'.commitment c'.proof bg apiId = .ok () →
          CommitVerdict env cs c c' bg) := by
  cases hd : Commitment.fromBytes env b' with
  | err => exact Or.inl rfl
  | panic => exact absurd hd (Zk.Total.Commitment.fromBytes_ne_panic env b')
  | ok c' =>
    right
    have hc := commit_decode_ne_of_bytes_ne hl c c' b' hne hd
    exact ⟨c', rfl, hc, fun h' => commit_obj_any_change hl cs c c' bg apiId h h' hc⟩

/-- **Any single-bit flip** of the serialized commitment-with-proof (all `8·(112 + 32·M)`
positions). -/
theorem commit_bitflip (hl : Lawful env pair) (cs : Suite G1) (c : Commitment S G1)
    (bg : List G1) (apiId : Option Bytes)
    (h : coreCommitVerify env cs c.commitment c.proof bg apiId = .ok ())
    (i : Nat) (hi : i < 8 * (112 + 32 * c.proof.mCap.length)) :
    Commitment.fromBytes env (flipBit i (c.toBytes env)) = .err ∨
      ∃ c', Commitment.fromBytes env (flipBit i (c.toBytes env)) = .ok c' ∧ c' ≠ c ∧
        (coreCommitVerify env cs c'.commitment c'.proof bg apiId = .ok () →
          CommitVerdict env cs c c' bg) :=
  commit_bytes_tamper hl cs c bg apiId h _
    (flipBit_ne i _ (by rw [Zk.Codecs.Commitment.toBytes_length hl c]; exact hi))

/-! ### Truncation / extension -/

/-- The last 32 octets of a serialized commitment-with-proof encode the challenge. -/
theorem commit_toBytes_last32 (hl : Lawful env pair) (c : Commitment S G1) :
    (c.toBytes env).drop ((c.toBytes env).length - 32) = env.sEnc c.proof.challenge := by
  have hlen : (env.sEnc c.proof.challenge).length = 32 := hl.sCodec.enc_len _
  unfold Commitment.toBytes ZKPoK.toBytes
  rw [← List.append_assoc, List.length_append, hlen, Nat.add_sub_cancel]
  exact List.drop_left

/-- **Another length, same challenge block.** If `b'` has another length than `c.toBytes` and
the same last 32 octets, then, if it decodes at all, it decodes to a commitment-with-proof with
the same challenge value and another number of scalars; acceptance of that one — for any
commitment point, over ANY generators (same `api_id`) — exhibits a hash collision. -/
theorem commit_resize (hl : Lawful env pair) (cs : Suite G1) (c : Commitment S G1)
    (bg : List G1) (apiId : Option Bytes)
    (h : coreCommitVerify env cs c.commitment c.proof bg apiId = .ok ())
    (b' : Bytes) (hlen : b'.length ≠ (c.toBytes env).length)
    (hlast : b'.drop (b'.length - 32) = (c.toBytes env).drop ((c.toBytes env).length - 32)) :
    Commitment.fromBytes env b' = .err ∨
      ∃ c', Commitment.fromBytes env b' = .ok c' ∧ c'.proof.challenge = c.proof.challenge ∧
        c'.proof.mCap.length ≠ c.proof.mCap.length ∧
        ∀ bg' : List G1, coreCommitVerify env cs c'.commitment c'.proof bg' apiId = .ok () →
          HashCollision env cs := by
  cases hd : Commitment.fromBytes env b' with
  | err => exact Or.inl rfl
  | panic => exact absurd hd (Zk.Total.Commitment.fromBytes_ne_panic env b')
  | ok c' =>
    right
    obtain ⟨hb, hl'⟩ := C09.commitment_strict hl b' c' hd
    have hM : c'.proof.mCap.length ≠ c.proof.mCap.length := by
      intro hM
      apply hlen
      rw [hl', Zk.Codecs.Commitment.toBytes_length hl c, hM]
    have hc : c'.proof.challenge = c.proof.challenge := by
      apply hl.sCodec.enc_injective
      rw [← commit_toBytes_last32 hl c', ← commit_toBytes_last32 hl c, hb, hlast]
    exact ⟨c', rfl, hc, hM, fun bg' h' =>
      C06.commit_tamper_count hl cs c.commitment c'.commitment c.proof c'.proof bg bg' apiId h h'
        hc hM⟩

/-- Remove `n` whole 32-octet blocks starting with the `j`-th block after the 80-octet head
(`C ‖ ŝ`); with `j + n ≤ M` the challenge block is kept. -/
def deleteBlocks (j n : Nat) (b : Bytes) : Bytes :=
  b.take (80 + 32 * j) ++ b.drop (80 + 32 * (j + n))

/-- Insert the octets `blk` before the `j`-th block after the 80-octet head. -/
def insertBlocks (j : Nat) (blk b : Bytes) : Bytes :=
  b.take (80 + 32 * j) ++ blk ++ b.drop (80 + 32 * j)

theorem deleteBlocks_props (b : Bytes) (M j n : Nat) (hN : b.length = 112 + 32 * M)
    (hn : 0 < n) (hjn : j + n ≤ M) :
    (deleteBlocks j n b).length = b.length - 32 * n ∧ (deleteBlocks j n b).length ≠ b.length ∧
      (deleteBlocks j n b).drop ((deleteBlocks j n b).length - 32) = b.drop (b.length - 32) := by
  have hlen' : (deleteBlocks j n b).length = b.length - 32 * n := by
    unfold deleteBlocks
    simp only [List.length_append, List.length_take, List.length_drop]
    omega
  refine ⟨hlen', by omega, ?_⟩
  rw [hlen']
  unfold deleteBlocks
  rw [List.drop_append, List.drop_eq_nil_of_le (by simp only [List.length_take]; omega),
    List.nil_append, List.drop_drop]
  congr 1
  simp only [List.length_take]
  omega

theorem insertBlocks_props (b blk : Bytes) (M j : Nat) (hN : b.length = 112 + 32 * M)
    (hblk : blk ≠ []) (hj : j ≤ M) :
    (insertBlocks j blk b).length = b.length + blk.length ∧
      (insertBlocks j blk b).length ≠ b.length ∧
      (insertBlocks j blk b).drop ((insertBlocks j blk b).length - 32)
        = b.drop (b.length - 32) := by
  have hpos : 0 < blk.length := List.length_pos_iff.mpr hblk
  have hlen' : (insertBlocks j blk b).length = b.length + blk.length := by
    unfold insertBlocks
    simp only [List.length_append, List.length_take, List.length_drop]
    omega
  refine ⟨hlen', by omega, ?_⟩
  rw [hlen']
  unfold insertBlocks
  rw [List.drop_append, List.drop_eq_nil_of_le
    (by simp only [List.length_append, List.length_take]; omega), List.nil_append, List.drop_drop]
  congr 1
  simp only [List.length_append, List.length_take]
  omega

/-- **Truncation by whole scalars**: `n ≥ 1` of the `M` responses `m̂_i` removed. -/
theorem commit_delete_blocks (hl : Lawful env pair) (cs : Suite G1) (c : Commitment S G1)
    (bg : List G1) (apiId : Option Bytes)
    (h : coreCommitVerify env cs c.commitment c.proof bg apiId = .ok ())
    (j n : Nat) (hn : 0 < n) (hjn : j + n ≤ c.proof.mCap.length) :
    Commitment.fromBytes env (deleteBlocks j n (c.toBytes env)) = .err ∨
      ∃ c', Commitment.fromBytes env (deleteBlocks j n (c.toBytes env)) = .ok c' ∧
        c'.proof.challenge = c.proof.challenge ∧
        c'.proof.mCap.length ≠ c.proof.mCap.length ∧
        ∀ bg' : List G1, coreCommitVerify env cs c'.commitment c'.proof bg' apiId = .ok () →
          HashCollision env cs := by
  obtain ⟨_, h1, h2⟩ := deleteBlocks_props (c.toBytes env) c.proof.mCap.length j n
    (Zk.Codecs.Commitment.toBytes_length hl c) hn hjn
  exact commit_resize hl cs c bg apiId h _ h1 h2

/-- **Extension**: any non-empty octet string (in particular whole scalars) inserted before the
`j`-th response, `j ≤ M` (`j = M`: directly before the challenge block). -/
theorem commit_insert_blocks (hl : Lawful env pair) (cs : Suite G1) (c : Commitment S G1)
    (bg : List G1) (apiId : Option Bytes)
    (h : coreCommitVerify env cs c.commitment c.proof bg apiId = .ok ())
    (j : Nat) (blk : Bytes) (hblk : blk ≠ []) (hj : j ≤ c.proof.mCap.length) :
    Commitment.fromBytes env (insertBlocks j blk (c.toBytes env)) = .err ∨
      ∃ c', Commitment.fromBytes env (insertBlocks j blk (c.toBytes env)) = .ok c' ∧
        c'.proof.challenge = c.proof.challenge ∧
        c'.proof.mCap.length ≠ c.proof.mCap.length ∧
        ∀ bg' : List G1, coreCommitVerify env cs c'.commitment c'.proof bg' apiId = .ok () →
          HashCollision env cs := by
  obtain ⟨_, h1, h2⟩ := insertBlocks_props (c.toBytes env) blk c.proof.mCap.length j
    (Zk.Codecs.Commitment.toBytes_length hl c) hblk hj
  exact commit_resize hl cs c bg apiId h _ h1 h2

/-- **`commit_truncate_extend`** (summary of the two previous theorems). -/
theorem commit_truncate_extend (hl : Lawful env pair) (cs : Suite G1) (c : Commitment S G1)
    (bg : List G1) (apiId : Option Bytes)
    (h : coreCommitVerify env cs c.commitment c.proof bg apiId = .ok ())
    (b' : Bytes)
    (hb' : (∃ j n, 0 < n ∧ j + n ≤ c.proof.mCap.length ∧ b' = deleteBlocks j n (c.toBytes env)) ∨
      (∃ j blk, blk ≠ [] ∧ j ≤ c.proof.mCap.length ∧ b' = insertBlocks j blk (c.toBytes env))) :
    Commitment.fromBytes env b' = .err ∨
      ∃ c', Commitment.fromBytes env b' = .ok c' ∧
        c'.proof.challenge = c.proof.challenge ∧
        c'.proof.mCap.length ≠ c.proof.mCap.length ∧
        ∀ bg' : List G1, coreCommitVerify env cs c'.commitment c'.proof bg' apiId = .ok () →
          HashCollision env cs := by
  rcases hb' with ⟨j, n, hn, hjn, rfl⟩ | ⟨j, blk, hblk, hj, rfl⟩
  · exact commit_delete_blocks hl cs c bg apiId h j n hn hjn
  · exact commit_insert_blocks hl cs c bg apiId h j blk hblk hj

/-! ### At the signer (`blind_sign`) -/

/-- **Two different commitment octet strings of the same length, both signed.** If `blind_sign`
returns a signature for `b` and for `b' ≠ b` (non-empty, same length; headers and signer
messages arbitrary), then both decode, to different objects `c ≠ c'`, both proofs are accepted by
`core_commit_verify` over the same blind generators, and `CommitVerdict` holds. In particular
(`blind_sign_bitflip`) for every single-bit flip of a signed commitment-with-proof. -/
theorem blind_sign_bytes_tamper (hl : Lawful env pair) (cs : Suite G1) (sk : S) (pk : G2)
    (b b' : Bytes) (header header' : Option Bytes) (messages messages' : Option (List Bytes))
    (σ σ' : Signature S G1) (hlen : b'.length = b.length) (hb : b ≠ []) (hne : b' ≠ b)
    (h : blindSign env cs sk pk (some b) header messages = .ok σ)
    (h' : blindSign env cs sk pk (some b') header' messages' = .ok σ') :
    ∃ c c' bg, Commitment.fromBytes env b = .ok c ∧ Commitment.fromBytes env b' = .ok c' ∧
      c' ≠ c ∧
      coreCommitVerify env cs c.commitment c.proof bg (some cs.apiIdBlind) = .ok () ∧
      coreCommitVerify env cs c'.commitment c'.proof bg (some cs.apiIdBlind) = .ok () ∧
      CommitVerdict env cs c c' bg := by
  obtain ⟨c, c', bg, hc, hc', hv, hv'⟩ := C06.blind_sign_two_commitments cs sk pk (some b)
    (some b') header header' messages messages' σ σ' hlen hb h h'
  simp only [Option.getD_some] at hc hc'
  have hcc : c' ≠ c := by
    rintro rfl
    exact hne (C09.commitment_decode_injective hl b' b _ hc' hc)
  exact ⟨c, c', bg, hc, hc', hcc, hv, hv', commit_obj_any_change hl cs c c' bg _ hv hv' hcc⟩

/-- Every single-bit flip of a signed commitment-with-proof that is signed as well. -/
theorem blind_sign_bitflip (hl : Lawful env pair) (cs : Suite G1) (sk : S) (pk : G2)
    (b : Bytes) (header header' : Option Bytes) (messages messages' : Option (List Bytes))
    (σ σ' : Signature S G1) (i : Nat) (hi : i < 8 * b.length)
    (h : blindSign env cs sk pk (some b) header messages = .ok σ)
    (h' : blindSign env cs sk pk (some (flipBit i b)) header' messages' = .ok σ') :
    ∃ c c' bg, Commitment.fromBytes env b = .ok c ∧
      Commitment.fromBytes env (flipBit i b) = .ok c' ∧ c' ≠ c ∧
      coreCommitVerify env cs c.commitment c.proof bg (some cs.apiIdBlind) = .ok () ∧
      coreCommitVerify env cs c'.commitment c'.proof bg (some cs.apiIdBlind) = .ok () ∧
      CommitVerdict env cs c c' bg :=
  blind_sign_bytes_tamper hl cs sk pk b (flipBit i b) header header' messages messages' σ σ'
    (flipBit_length i b) (by rintro rfl; simp at hi) (flipBit_ne i b hi) h h'

/-- **Two commitment octet strings of different lengths with the same final challenge block,
both signed** (truncation / extension by whole scalars before the challenge): a hash
collision. -/
theorem blind_sign_resize (hl : Lawful env pair) (cs : Suite G1) (sk : S) (pk : G2)
    (b b' : Bytes) (header header' : Option Bytes) (messages messages' : Option (List Bytes))
    (σ σ' : Signature S G1) (hb : b ≠ []) (hb' : b' ≠ []) (hlen : b'.length ≠ b.length)
    (hlast : b'.drop (b'.length - 32) = b.drop (b.length - 32))
    (h : blindSign env cs sk pk (some b) header messages = .ok σ)
    (h' : blindSign env cs sk pk (some b') header' messages' = .ok σ') :
    HashCollision env cs := by
  obtain ⟨_, _, bg, _, _, _, _, _, _, _, _, _, hor⟩ :=
    C06.blind_sign_requires_valid_commit cs sk pk (some b) header messages σ h
  obtain ⟨_, _, bg', _, _, _, _, _, _, _, _, _, hor'⟩ :=
    C06.blind_sign_requires_valid_commit cs sk pk (some b') header' messages' σ' h'
  simp only [Option.getD_some] at hor hor'
  rcases hor with ⟨h0, _⟩ | ⟨c, hc, _, hv⟩
  · exact absurd h0 hb
  rcases hor' with ⟨h0, _⟩ | ⟨c', hc', _, hv'⟩
  · exact absurd h0 hb'
  have hs := (C09.commitment_strict hl b c hc).1
  rcases commit_resize hl cs c bg.values _ hv b' (by rw [hs]; exact hlen) (by rw [hs]; exact hlast)
    with he | ⟨c'', hd, _, _, hall⟩
  · rw [he] at hc'; cases hc'
  · rw [hd] at hc'; cases hc'
    exact hall bg'.values hv'

/-! ## Part 2. The signer-message count `L` of a blind proof -/

/-- **Named event.** The plain generator family of the blind interface
(`create_generators(·, api_id_blind)`) and its `"BLIND_"`-prefixed family
(`create_generators(·, "BLIND_" ‖ api_id_blind)`) share an element: the `i`-th generator created
for count `n` in the first equals the `j`-th generator created for count `m` in the second.
Both families are outputs of `hash_to_curve` under different DSTs; a coincidence is a collision of
two hash-to-curve computations. (For the generated suites the finite check
`Zk.C11Table.families_disjoint` shows there is none among the first `count` generators.) -/
def GeneratorCoincidence (env : Env S G1 G2) (cs : Suite G1) : Prop :=
  ∃ (n m i j : Nat) (g bg : Generators G1) (x : G1),
    Generators.create env cs n (some cs.apiIdBlind) = .ok g ∧
    Generators.create env cs m (some (Bytes.ofAscii "BLIND_" ++ cs.apiIdBlind)) = .ok bg ∧
    g.values[i]? = some x ∧ bg.values[j]? = some x

/-- A successful `prepare_parameters` without blinding factor, unfolded. -/
theorem prepareParameters_none_inv (cs : Suite G1) (msgs cmsgs : List Bytes) (n k : Nat)
    (apiId : Bytes) (allms : List S) (gens : Generators G1)
    (h : prepareParameters env cs (some msgs) (some cmsgs) n k none (some apiId)
      = .ok (allms, gens)) :
    ∃ ms cms g bg, messagesToScalar env cs msgs apiId = .ok ms ∧
      messagesToScalar env cs cmsgs apiId = .ok cms ∧
      Generators.create env cs n (some apiId) = .ok g ∧
      Generators.create env cs k (some (Bytes.ofAscii "BLIND_" ++ apiId)) = .ok bg ∧
      allms = ms ++ cms ∧ gens = ⟨g.base, g.values ++ bg.values⟩ := by
  unfold prepareParameters at h
  simp only [Option.getD_some] at h
  cases h1 : messagesToScalar env cs msgs apiId with
  | err => rw [h1] at h; cases h
  | panic => rw [h1] at h; cases h
  | ok ms =>
    rw [h1] at h; simp only at h
    cases h2 : messagesToScalar env cs cmsgs apiId with
    | err => rw [h2] at h; cases h
    | panic => rw [h2] at h; cases h
    | ok cms =>
      rw [h2] at h; simp only at h
      cases h3 : Generators.create env cs n (some apiId) with
      | err => rw [h3] at h; cases h
      | panic => rw [h3] at h; cases h
      | ok g =>
        rw [h3] at h; simp only at h
        cases h4 : Generators.create env cs k (some (Bytes.ofAscii "BLIND_" ++ apiId)) with
        | err => rw [h4] at h; cases h
        | panic => rw [h4] at h; cases h
        | ok bg =>
          rw [h4] at h
          simp only [Res.ok.injEq, Prod.mk.injEq, List.nil_append] at h
          exact ⟨ms, cms, g, bg, rfl, rfl, rfl, rfl, h.1.symm, h.2.symm⟩

/-- A successful `blind_proof_verify`, unfolded. `M` is the number of committed messages the
verifier derives: `R₁ + R₂ + U = (L + 1) + M`. -/
theorem blindProofVerify_inv (cs : Suite G1) (π : PoKSignature S G1) (pk : G2)
    (header ph : Option Bytes) (L : Option Nat) (dmsgs dcmsgs : Option (List Bytes))
    (di dci : Option (List Nat))
    (h : blindProofVerify env cs π pk header ph L dmsgs dcmsgs di dci = .ok ()) :
    ∃ M ms cms g bg,
      (sortDedup (di.getD [])).length + (sortDedup (dci.getD [])).length + π.mCap.length
        = L.getD 0 + 1 + M ∧
      messagesToScalar env cs (dmsgs.getD []) cs.apiIdBlind = .ok ms ∧
      messagesToScalar env cs (dcmsgs.getD []) cs.apiIdBlind = .ok cms ∧
      Generators.create env cs (L.getD 0 + 1) (some cs.apiIdBlind) = .ok g ∧
      Generators.create env cs (M + 1) (some (Bytes.ofAscii "BLIND_" ++ cs.apiIdBlind))
        = .ok bg ∧
      coreProofVerify env cs pk π ⟨g.base, g.values ++ bg.values⟩ header ph (ms ++ cms)
        (sortDedup (di.getD []) ++ (sortDedup (dci.getD [])).map (fun j => j + L.getD 0 + 1))
        (some cs.apiIdBlind) = .ok () := by
  unfold blindProofVerify at h
  dsimp only at h
  cases h1 : uAdd? (L.getD 0) 1 with
  | none => rw [h1] at h; cases h
  | some L1 =>
    rw [h1] at h; simp only at h
    have hL1 : L1 = L.getD 0 + 1 := by
      unfold uAdd? at h1
      split at h1
      · exact (Option.some.inj h1).symm
      · cases h1
    subst hL1
    cases h2 : uSub? ((sortDedup (di.getD [])).length + (sortDedup (dci.getD [])).length
        + π.mCap.length) (L.getD 0 + 1) with
    | none => rw [h2] at h; cases h
    | some M =>
      rw [h2] at h; simp only at h
      have hM : (sortDedup (di.getD [])).length + (sortDedup (dci.getD [])).length
          + π.mCap.length = L.getD 0 + 1 + M := by
        unfold uSub? at h2
        split at h2
        · have := Option.some.inj h2; omega
        · cases h2
      split at h
      · cases h
      · cases h3 : prepareParameters env cs (some (dmsgs.getD [])) (some (dcmsgs.getD []))
            (L.getD 0 + 1) (M + 1) none (some cs.apiIdBlind) with
        | err => rw [h3] at h; cases h
        | panic => rw [h3] at h; cases h
        | ok r =>
          obtain ⟨allms, gens⟩ := r
          rw [h3] at h; simp only at h
          obtain ⟨ms, cms, g, bg, e1, e2, e3, e4, rfl, rfl⟩ :=
            prepareParameters_none_inv cs _ _ _ _ _ allms gens h3
          exact ⟨M, ms, cms, g, bg, hM, e1, e2, e3, e4, h⟩

/-- **Statement binding for blind proofs.** One proof accepted by `blind_proof_verify` for two
statements (`U + R + 1 ≤ 2^64` generators each, which `usize` guarantees): a hash collision is
exhibited, or the public keys, headers and presentation headers coincide, and so do the combined
generator lists `gens(L+1) ++ blindGens(M+1)`, the combined disclosed scalars and the combined
disclosed index lists `di ++ (dci + L + 1)`. -/
theorem blind_proof_stmt_binding (hl : Lawful env pair) (cs : Suite G1) (π : PoKSignature S G1)
    (pk pk' : G2) (header header' ph ph' : Option Bytes) (L L' : Option Nat)
    (dmsgs dmsgs' dcmsgs dcmsgs' : Option (List Bytes)) (di di' dci dci' : Option (List Nat))
    (hsz : (sortDedup (di.getD [])).length + (sortDedup (dci.getD [])).length + π.mCap.length + 1
      ≤ 2 ^ 64)
    (hsz' : (sortDedup (di'.getD [])).length + (sortDedup (dci'.getD [])).length + π.mCap.length
      + 1 ≤ 2 ^ 64)
    (h : blindProofVerify env cs π pk header ph L dmsgs dcmsgs di dci = .ok ())
    (h' : blindProofVerify env cs π pk' header' ph' L' dmsgs' dcmsgs' di' dci' = .ok ()) :
    HashCollision env cs ∨
      ∃ M M' ms cms ms' cms' g bg g' bg',
        (sortDedup (di.getD [])).length + (sortDedup (dci.getD [])).length + π.mCap.length
          = L.getD 0 + 1 + M ∧
        (sortDedup (di'.getD [])).length + (sortDedup (dci'.getD [])).length + π.mCap.length
          = L'.getD 0 + 1 + M' ∧
        messagesToScalar env cs (dmsgs.getD []) cs.apiIdBlind = .ok ms ∧
        messagesToScalar env cs (dcmsgs.getD []) cs.apiIdBlind = .ok cms ∧
        messagesToScalar env cs (dmsgs'.getD []) cs.apiIdBlind = .ok ms' ∧
        messagesToScalar env cs (dcmsgs'.getD []) cs.apiIdBlind = .ok cms' ∧
        Generators.create env cs (L.getD 0 + 1) (some cs.apiIdBlind) = .ok g ∧
        Generators.create env cs (M + 1) (some (Bytes.ofAscii "BLIND_" ++ cs.apiIdBlind))
          = .ok bg ∧
        Generators.create env cs (L'.getD 0 + 1) (some cs.apiIdBlind) = .ok g' ∧
        Generators.create env cs (M' + 1) (some (Bytes.ofAscii "BLIND_" ++ cs.apiIdBlind))
          = .ok bg' ∧
        pk' = pk ∧ header'.getD [] = header.getD [] ∧ ph'.getD [] = ph.getD [] ∧
        g'.values ++ bg'.values = g.values ++ bg.values ∧
        ms' ++ cms' = ms ++ cms ∧
        sortDedup (di'.getD []) ++ (sortDedup (dci'.getD [])).map (fun j => j + L'.getD 0 + 1)
          = sortDedup (di.getD []) ++ (sortDedup (dci.getD [])).map (fun j => j + L.getD 0 + 1) := by
  obtain ⟨M, ms, cms, g, bg, hM, e1, e2, e3, e4, hv⟩ :=
    blindProofVerify_inv cs π pk header ph L dmsgs dcmsgs di dci h
  obtain ⟨M', ms', cms', g', bg', hM', e1', e2', e3', e4', hv'⟩ :=
    blindProofVerify_inv cs π pk' header' ph' L' dmsgs' dcmsgs' di' dci' h'
  have l1 := (create_length cs _ _ _ e3).1
  have l2 := (create_length cs _ _ _ e4).1
  have l1' := (create_length cs _ _ _ e3').1
  have l2' := (create_length cs _ _ _ e4').1
  rcases C04.stmt_binding hl cs pk pk' π _ _ header header' ph ph' _ _ _ _ _
    (by simp only [List.length_append]; omega) (by simp only [List.length_append]; omega) hv hv'
    with hcol | ⟨hpk, hg, hh, hph, hdm, hdi⟩
  · exact Or.inl hcol
  · exact Or.inr ⟨M, M', ms, cms, ms', cms', g, bg, g', bg', hM, hM', e1, e2, e1', e2', e3, e4,
      e3', e4', hpk, hh, hph, hg, hdm, hdi⟩

/-- The list fact behind the `L` binding: two generator lists `g ++ bg = g' ++ bg'` with
`|g| < |g'|` and `bg ≠ []`: the first element of `bg` is element number `|g|` of `g'`. -/
theorem append_eq_append_coincidence {α} (g bg g' bg' : List α) (h : g' ++ bg' = g ++ bg)
    (hlt : g.length < g'.length) (hbg : bg ≠ []) :
    ∃ x, g'[g.length]? = some x ∧ bg[0]? = some x := by
  obtain ⟨x, t, rfl⟩ := List.exists_cons_of_ne_nil hbg
  refine ⟨x, ?_, rfl⟩
  have := congrArg (fun l : List α => l[g.length]?) h
  simp only [List.getElem?_append_left hlt, List.getElem?_append_right (Nat.le_refl _),
    Nat.sub_self, List.getElem?_cons_zero] at this
  exact this

/-- **Binding of the signer-message count, explicit form.** One proof accepted by
`blind_proof_verify` with signer-message counts `L < L'`: a hash collision is exhibited, or the
FIRST BLIND GENERATOR `Q2` of the run with `L` equals the PLAIN GENERATOR number `L + 1`
(counting `Q1` as number `0`) of the run with `L'`. -/
theorem blind_proof_L_binding_explicit (hl : Lawful env pair) (cs : Suite G1)
    (π : PoKSignature S G1) (pk pk' : G2) (header header' ph ph' : Option Bytes)
    (L L' : Option Nat) (dmsgs dmsgs' dcmsgs dcmsgs' : Option (List Bytes))
    (di di' dci dci' : Option (List Nat))
    (hsz : (sortDedup (di.getD [])).length + (sortDedup (dci.getD [])).length + π.mCap.length + 1
      ≤ 2 ^ 64)
    (hsz' : (sortDedup (di'.getD [])).length + (sortDedup (dci'.getD [])).length + π.mCap.length
      + 1 ≤ 2 ^ 64)
    (h : blindProofVerify env cs π pk header ph L dmsgs dcmsgs di dci = .ok ())
    (h' : blindProofVerify env cs π pk' header' ph' L' dmsgs' dcmsgs' di' dci' = .ok ())
    (hL : L.getD 0 < L'.getD 0) :
    HashCollision env cs ∨
      ∃ M g' bg x,
        (sortDedup (di.getD [])).length + (sortDedup (dci.getD [])).length + π.mCap.length
          = L.getD 0 + 1 + M ∧
        Generators.create env cs (L'.getD 0 + 1) (some cs.apiIdBlind) = .ok g' ∧
        Generators.create env cs (M + 1) (some (Bytes.ofAscii "BLIND_" ++ cs.apiIdBlind))
          = .ok bg ∧
        g'.values[L.getD 0 + 1]? = some x ∧ bg.values[0]? = some x := by
  rcases blind_proof_stmt_binding hl cs π pk pk' header header' ph ph' L L' dmsgs dmsgs' dcmsgs
    dcmsgs' di di' dci dci' hsz hsz' h h' with hcol |
    ⟨M, M', ms, cms, ms', cms', g, bg, g', bg', hM, hM', _, _, _, _, e3, e4, e3', e4', _, _, _,
      hg, _, _⟩
  · exact Or.inl hcol
  · right
    have l1 := (create_length cs _ _ _ e3).1
    have l2 := (create_length cs _ _ _ e4).1
    have l1' := (create_length cs _ _ _ e3').1
    obtain ⟨x, hx1, hx2⟩ := append_eq_append_coincidence g.values bg.values g'.values bg'.values
      hg (by omega) (by intro h0; rw [h0] at l2; simp at l2)
    rw [l1] at hx1
    exact ⟨M, g', bg, x, hM, e3', e4, hx1, hx2⟩

/-- **Binding of the signer-message count `L`.** One proof accepted by `blind_proof_verify` for
two different signer-message counts (everything else arbitrary): a hash collision is exhibited,
or the plain and the `"BLIND_"` generator families share an element. -/
theorem blind_proof_L_binding (hl : Lawful env pair) (cs : Suite G1) (π : PoKSignature S G1)
    (pk pk' : G2) (header header' ph ph' : Option Bytes) (L L' : Option Nat)
    (dmsgs dmsgs' dcmsgs dcmsgs' : Option (List Bytes)) (di di' dci dci' : Option (List Nat))
    (hsz : (sortDedup (di.getD [])).length + (sortDedup (dci.getD [])).length + π.mCap.length + 1
      ≤ 2 ^ 64)
    (hsz' : (sortDedup (di'.getD [])).length + (sortDedup (dci'.getD [])).length + π.mCap.length
      + 1 ≤ 2 ^ 64)
    (h : blindProofVerify env cs π pk header ph L dmsgs dcmsgs di dci = .ok ())
    (h' : blindProofVerify env cs π pk' header' ph' L' dmsgs' dcmsgs' di' dci' = .ok ())
    (hL : L.getD 0 ≠ L'.getD 0) :
    HashCollision env cs ∨ GeneratorCoincidence env cs := by
  rcases Nat.lt_or_gt_of_ne hL with hlt | hlt
  · rcases blind_proof_L_binding_explicit hl cs π pk pk' header header' ph ph' L L' dmsgs dmsgs'
      dcmsgs dcmsgs' di di' dci dci' hsz hsz' h h' hlt with hcol | ⟨M, g', bg, x, _, e1, e2, a, b⟩
    · exact Or.inl hcol
    · exact Or.inr ⟨_, _, _, _, g', bg, x, e1, e2, a, b⟩
  · rcases blind_proof_L_binding_explicit hl cs π pk' pk header' header ph' ph L' L dmsgs' dmsgs
      dcmsgs' dcmsgs di' di dci' dci hsz' hsz h' h hlt with hcol | ⟨M, g', bg, x, _, e1, e2, a, b⟩
    · exact Or.inl hcol
    · exact Or.inr ⟨_, _, _, _, g', bg, x, e1, e2, a, b⟩

/-- Consequently: in an environment without hash collisions and without generator coincidence, a
blind proof verifies for at most one signer-message count. -/
theorem blind_proof_L_unique (hl : Lawful env pair) (cs : Suite G1) (π : PoKSignature S G1)
    (pk pk' : G2) (header header' ph ph' : Option Bytes) (L L' : Option Nat)
    (dmsgs dmsgs' dcmsgs dcmsgs' : Option (List Bytes)) (di di' dci dci' : Option (List Nat))
    (hsz : (sortDedup (di.getD [])).length + (sortDedup (dci.getD [])).length + π.mCap.length + 1
      ≤ 2 ^ 64)
    (hsz' : (sortDedup (di'.getD [])).length + (sortDedup (dci'.getD [])).length + π.mCap.length
      + 1 ≤ 2 ^ 64)
    (hnc : ¬ HashCollision env cs) (hng : ¬ GeneratorCoincidence env cs)
    (h : blindProofVerify env cs π pk header ph L dmsgs dcmsgs di dci = .ok ())
    (h' : blindProofVerify env cs π pk' header' ph' L' dmsgs' dcmsgs' di' dci' = .ok ()) :
    L.getD 0 = L'.getD 0 := by
  by_contra hL
  rcases blind_proof_L_binding hl cs π pk pk' header header' ph ph' L L' dmsgs dmsgs' dcmsgs
    dcmsgs' di di' dci dci' hsz hsz' h h' hL with x | x
  · exact hnc x
  · exact hng x

end Zk.C06Bytes
