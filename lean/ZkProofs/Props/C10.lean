/-
C10  Conformance with the IETF drafts — laws of the reference model that the property singles
out (the translation validation of the Rust against the model is done by the harness).

* `generators_prefix`, `generators_length` (re-exported from C11).
* `keygen_guards`, `keygen_err_iff`, `keygen_ok_iff`, `keygen_never_panics`: `key_gen` refuses
  exactly when `|key_material| < ikmLen` (32 in both suites), `|key_info| > 65535`,
  `|key_dst| > 255`, or the expander fails; otherwise it is `hash_to_scalar` of
  `key_material ‖ I2OSP(|key_info|, 2) ‖ key_info`; the length prefix is exactly 2 bytes and is
  the big-endian value of `|key_info|`.
* `len_prefix_8B` and the layout theorems: every count / length prefix in the hashed octet
  strings (`domainInput`, `challengeInput`, `blindChallengeInput`) is `I2OSP(·, 8)`: 8 bytes,
  the exact big-endian value for every count `< 2^64` — counts `≥ 256` are not special.

Bare model (core type classes, arbitrary `Env`) wherever no codec law is needed; the layout
lengths only use the fixed widths of the codecs.
-/
import ZkProofs.Props.C11
import ZkProofs.Lemmas.Encoding
set_option linter.unusedSectionVars false
set_option linter.unusedVariables false
namespace Zk.C10
open Zk Res Zk.Upd

section bare
variable {S G1 G2 : Type}
variable [Zero S] [One S] [Add S] [Sub S] [Neg S] [Mul S] [DecidableEq S]
variable [Zero G1] [Add G1] [Sub G1] [Neg G1] [SMul S G1] [DecidableEq G1]
variable [Zero G2] [Add G2] [Neg G2] [SMul S G2] [DecidableEq G2]
variable (env : Env S G1 G2) (cs : Suite G1)

/-! ### generators (re-export of C11) -/

theorem generators_length (n : Nat) (apiId : Option Bytes) (gs : List G1)
    (h : createGenerators env cs n apiId = .ok gs) : gs.length = n :=
  C11.generators_length env cs n apiId gs h

/-- `create_generators(n).take k = create_generators(k)` for all `k ≤ n`. -/
theorem generators_prefix (n k : Nat) (hk : k ≤ n) (apiId : Option Bytes) (gs : List G1)
    (h : createGenerators env cs n apiId = .ok gs) :
    createGenerators env cs k apiId = .ok (gs.take k) :=
  C11.generators_prefix env cs n k hk apiId gs h

/-! ### `hash_to_scalar` outcomes -/

theorem hashToScalar_ok_iff (msg dst : Bytes) (s : S) :
    hashToScalar env cs msg dst = .ok s ↔
      dst.length ≤ 255 ∧ ∃ u, env.expand cs.xof msg dst cs.expandLen = some u ∧
        u.length = 48 ∧ s = env.okm u := by
  unfold hashToScalar
  split
  · rename_i h; constructor
    · intro h'; cases h'
    · rintro ⟨h', _⟩; omega
  · rename_i h
    cases he : env.expand cs.xof msg dst cs.expandLen with
    | none => simp
    | some u =>
      simp only
      split
      · rename_i hu
        constructor
        · intro h'; cases h'
        · rintro ⟨_, u', hu', hl, _⟩; cases hu'; exact absurd hl hu
      · rename_i hu
        constructor
        · intro h'; cases h'; exact ⟨by omega, u, rfl, by simpa using hu, rfl⟩
        · rintro ⟨_, u', hu', _, rfl⟩; cases hu'; rfl

theorem hashToScalar_err_iff (msg dst : Bytes) :
    hashToScalar env cs msg dst = .err ↔
      dst.length > 255 ∨ ∀ u, env.expand cs.xof msg dst cs.expandLen = some u → u.length ≠ 48 := by
  unfold hashToScalar
  split
  · rename_i h; simp [h]
  · rename_i h
    cases he : env.expand cs.xof msg dst cs.expandLen with
    | none => simp
    | some u =>
      simp only
      split
      · rename_i hu
        simp only [true_iff]
        right; intro u' hu'; cases hu'; exact hu
      · rename_i hu
        constructor
        · intro h'; cases h'
        · rintro (h' | h')
          · omega
          · exact absurd (h' u rfl) hu

/-! ### key generation -/

/-- The `key_info` length prefix is exactly two bytes … -/
theorem key_info_prefix_length (x : Nat) : (i2osp 2 x).length = 2 := i2ospAux_length 2 x

/-- … and, for every admissible `key_info` (`≤ 65535` bytes), it is the big-endian value. -/
theorem key_info_prefix_value (x : Nat) (h : x ≤ 65535) : os2ip (i2osp 2 x) = x :=
  os2ip_i2osp (by norm_num; omega)

/-- **Key-generation guards.** `key_gen` returns `Err` whenever the key material is shorter
than `ikmLen`, the key info is longer than 65535 bytes or the DST is longer than 255 bytes
(absent `key_info` = empty, absent `key_dst` = `api_id ‖ "KEYGEN_DST_"`); otherwise it is exactly
`hash_to_scalar(key_material ‖ I2OSP(|key_info|, 2) ‖ key_info, key_dst)`, so the only remaining
failure is the expander's. -/
theorem keygen_guards (ikm : Bytes) (info dst : Option Bytes) :
    (ikm.length < cs.ikmLen ∨ (info.getD []).length > 65535 ∨
        (dst.getD (cs.apiId ++ cs.keygenDst)).length > 255 →
      keyGen env cs ikm info dst = .err) ∧
    (¬(ikm.length < cs.ikmLen ∨ (info.getD []).length > 65535 ∨
        (dst.getD (cs.apiId ++ cs.keygenDst)).length > 255) →
      keyGen env cs ikm info dst =
        hashToScalar env cs (ikm ++ i2osp 2 (info.getD []).length ++ info.getD [])
          (dst.getD (cs.apiId ++ cs.keygenDst))) := by
  unfold keyGen
  dsimp only
  constructor
  · rintro (h | h | h)
    · rw [if_pos h]
    · split <;> rfl
    · split
      · rfl
      · split
        · rfl
        · unfold hashToScalar; rw [if_pos h]
  · intro h
    rw [if_neg (fun h' => h (Or.inl h')), if_neg (fun h' => h (Or.inr (Or.inl h')))]
    rfl

/-- Exactly when `key_gen` refuses. -/
theorem keygen_err_iff (ikm : Bytes) (info dst : Option Bytes) :
    keyGen env cs ikm info dst = .err ↔
      ikm.length < cs.ikmLen ∨ (info.getD []).length > 65535 ∨
      (dst.getD (cs.apiId ++ cs.keygenDst)).length > 255 ∨
      ∀ u, env.expand cs.xof (ikm ++ i2osp 2 (info.getD []).length ++ info.getD [])
        (dst.getD (cs.apiId ++ cs.keygenDst)) cs.expandLen = some u → u.length ≠ 48 := by
  obtain ⟨h1, h2⟩ := keygen_guards env cs ikm info dst
  by_cases hg : ikm.length < cs.ikmLen ∨ (info.getD []).length > 65535 ∨
      (dst.getD (cs.apiId ++ cs.keygenDst)).length > 255
  · simp only [h1 hg, true_iff]
    rcases hg with h | h | h
    · exact Or.inl h
    · exact Or.inr (Or.inl h)
    · exact Or.inr (Or.inr (Or.inl h))
  · rw [h2 hg, hashToScalar_err_iff]
    constructor
    · rintro (h | h)
      · exact Or.inr (Or.inr (Or.inl h))
      · exact Or.inr (Or.inr (Or.inr h))
    · rintro (h | h | h | h)
      · exact absurd (Or.inl h) hg
      · exact absurd (Or.inr (Or.inl h)) hg
      · exact Or.inl h
      · exact Or.inr h

/-- Exactly when `key_gen` succeeds, and with which key. -/
theorem keygen_ok_iff (ikm : Bytes) (info dst : Option Bytes) (sk : S) :
    keyGen env cs ikm info dst = .ok sk ↔
      cs.ikmLen ≤ ikm.length ∧ (info.getD []).length ≤ 65535 ∧
      (dst.getD (cs.apiId ++ cs.keygenDst)).length ≤ 255 ∧
      ∃ u, env.expand cs.xof (ikm ++ i2osp 2 (info.getD []).length ++ info.getD [])
        (dst.getD (cs.apiId ++ cs.keygenDst)) cs.expandLen = some u ∧
        u.length = 48 ∧ sk = env.okm u := by
  obtain ⟨h1, h2⟩ := keygen_guards env cs ikm info dst
  by_cases hg : ikm.length < cs.ikmLen ∨ (info.getD []).length > 65535 ∨
      (dst.getD (cs.apiId ++ cs.keygenDst)).length > 255
  · rw [h1 hg]
    constructor
    · intro h; cases h
    · rintro ⟨a, b, c, _⟩; omega
  · rw [h2 hg, hashToScalar_ok_iff]
    constructor
    · rintro ⟨a, b⟩; exact ⟨by omega, by omega, a, b⟩
    · rintro ⟨_, _, a, b⟩; exact ⟨a, b⟩

/-- `key_gen` never panics. -/
theorem keygen_never_panics (ikm : Bytes) (info dst : Option Bytes) :
    keyGen env cs ikm info dst ≠ .panic := by
  obtain ⟨h1, h2⟩ := keygen_guards env cs ikm info dst
  by_cases hg : ikm.length < cs.ikmLen ∨ (info.getD []).length > 65535 ∨
      (dst.getD (cs.apiId ++ cs.keygenDst)).length > 255
  · rw [h1 hg]; simp
  · rw [h2 hg]; exact hashToScalar_ne_panic env cs _ _

/-- Absent and empty `key_info` are the same input. -/
theorem keygen_info_none_eq_empty (ikm : Bytes) (dst : Option Bytes) :
    keyGen env cs ikm none dst = keyGen env cs ikm (some []) dst := rfl

/-! ### 8-byte count / length prefixes -/

/-- **Every count prefix is 8 bytes and exact.** `I2OSP(x, 8)` has length 8, decodes to `x` and
is injective for all `x < 2^64` (every `usize`), so nothing changes at 256 (or at any other
power of 256 below `2^64`). -/
theorem len_prefix_8B (x : Nat) :
    (i2osp 8 x).length = 8 ∧
    (x < 2 ^ 64 → os2ip (i2osp 8 x) = x) ∧
    (∀ y, x < 2 ^ 64 → y < 2 ^ 64 → i2osp 8 x = i2osp 8 y → x = y) :=
  ⟨i2ospAux_length 8 x, fun h => os2ip_i2osp (by norm_num at h ⊢; exact h),
    fun y hx hy h => i2osp8_injective hx hy h⟩

example : i2osp 8 255 = [0, 0, 0, 0, 0, 0, 0, 255] ∧ i2osp 8 256 = [0, 0, 0, 0, 0, 0, 1, 0] ∧
    i2osp 8 65536 = [0, 0, 0, 0, 0, 1, 0, 0] := by decide

/-- Layout of the domain input: `PK ‖ I2OSP(L, 8) ‖ Q_1 ‖ H_1 … H_L ‖ api_id ‖
I2OSP(|header|, 8) ‖ header`. -/
theorem domainInput_layout (pk : G2) (Q1 : G1) (Hs : List G1) (header apiId : Bytes) :
    domainInput env pk Q1 Hs header apiId
      = env.g2Enc pk ++ (i2osp 8 Hs.length ++ (env.g1Enc Q1 ++ (Hs.flatMap env.g1Enc ++
          (apiId ++ (i2osp 8 header.length ++ header))))) := by
  simp [domainInput, List.append_assoc]

/-- The generator count sits in bytes 96..104 of the domain input, the header length in the
8 bytes before the header; total length `96 + 8 + 48 + 48·L + |api_id| + 8 + |header|`. -/
theorem domainInput_prefixes (c1 : Codec env.g1Enc env.g1Dec 48) (c2 : Codec env.g2Enc env.g2Dec 96)
    (pk : G2) (Q1 : G1) (Hs : List G1) (header apiId : Bytes) :
    ((domainInput env pk Q1 Hs header apiId).drop 96).take 8 = i2osp 8 Hs.length ∧
    ((domainInput env pk Q1 Hs header apiId).drop (96 + 8 + 48 + 48 * Hs.length + apiId.length)).take 8
      = i2osp 8 header.length ∧
    (domainInput env pk Q1 Hs header apiId).drop
        (96 + 8 + 48 + 48 * Hs.length + apiId.length + 8) = header ∧
    (domainInput env pk Q1 Hs header apiId).length
      = 96 + 8 + 48 + 48 * Hs.length + apiId.length + 8 + header.length := by
  have l1 := c2.enc_len pk
  have l2 := c1.enc_len Q1
  have l3 := flatMap_fixed_length c1.enc_len Hs
  have l4 := i2ospAux_length 8 Hs.length
  have l5 := i2ospAux_length 8 header.length
  rw [domainInput_layout]
  refine ⟨?_, ?_, ?_, ?_⟩
  · rw [List.drop_append_of_le_length (by omega), List.drop_of_length_le (by omega),
      List.nil_append, List.take_append_of_le_length (by simp [i2osp, l4]),
      List.take_of_length_le (by simp [i2osp, l4])]
  · have e : 96 + 8 + 48 + 48 * Hs.length + apiId.length
        = (env.g2Enc pk ++ (i2osp 8 Hs.length ++ (env.g1Enc Q1 ++ (Hs.flatMap env.g1Enc ++
            apiId)))).length := by
      simp only [List.length_append, l1, l2, l3, i2osp, l4]; omega
    rw [e]
    have r : env.g2Enc pk ++ (i2osp 8 Hs.length ++ (env.g1Enc Q1 ++ (Hs.flatMap env.g1Enc ++
          (apiId ++ (i2osp 8 header.length ++ header)))))
        = (env.g2Enc pk ++ (i2osp 8 Hs.length ++ (env.g1Enc Q1 ++ (Hs.flatMap env.g1Enc ++
            apiId)))) ++ (i2osp 8 header.length ++ header) := by
      simp [List.append_assoc]
    rw [r, List.drop_left, List.take_append_of_le_length (by simp [i2osp, l5]),
      List.take_of_length_le (by simp [i2osp, l5])]
  · have e : 96 + 8 + 48 + 48 * Hs.length + apiId.length + 8
        = (env.g2Enc pk ++ (i2osp 8 Hs.length ++ (env.g1Enc Q1 ++ (Hs.flatMap env.g1Enc ++
            (apiId ++ i2osp 8 header.length))))).length := by
      simp only [List.length_append, l1, l2, l3, i2osp, l4, l5]; omega
    rw [e]
    have r : env.g2Enc pk ++ (i2osp 8 Hs.length ++ (env.g1Enc Q1 ++ (Hs.flatMap env.g1Enc ++
          (apiId ++ (i2osp 8 header.length ++ header)))))
        = (env.g2Enc pk ++ (i2osp 8 Hs.length ++ (env.g1Enc Q1 ++ (Hs.flatMap env.g1Enc ++
            (apiId ++ i2osp 8 header.length))))) ++ header := by
      simp [List.append_assoc]
    rw [r, List.drop_left]
  · simp only [List.length_append, l1, l2, l3, i2osp, l4, l5]; omega

/-- The challenge input starts with the 8-byte count of disclosed indexes, carries every
disclosed index as 8 bytes, and ends with `I2OSP(|ph|, 8) ‖ ph`. -/
theorem challengeInput_layout (init : ProofInitResult S G1) (di : List Nat) (dm : List S)
    (ph : Bytes) :
    challengeInput env init di dm ph
      = i2osp 8 di.length ++ ((di.zip dm).flatMap (fun im => i2osp 8 im.1 ++ env.sEnc im.2) ++
          (env.g1Enc init.Abar ++ (env.g1Enc init.Bbar ++ (env.g1Enc init.D ++
          (env.g1Enc init.T1 ++ (env.g1Enc init.T2 ++ (env.sEnc init.domain ++
          (i2osp 8 ph.length ++ ph)))))))) := by
  simp [challengeInput, List.append_assoc]

theorem challengeInput_prefixes (c1 : Codec env.g1Enc env.g1Dec 48) (cS : Codec env.sEnc env.sDec 32)
    (init : ProofInitResult S G1) (di : List Nat) (dm : List S) (ph : Bytes) :
    (challengeInput env init di dm ph).take 8 = i2osp 8 di.length ∧
    (challengeInput env init di dm ph).length
      = 8 + 40 * min di.length dm.length + 5 * 48 + 32 + 8 + ph.length := by
  have l0 := i2ospAux_length 8 di.length
  have l5 := i2ospAux_length 8 ph.length
  have lz : ((di.zip dm).flatMap (fun im => i2osp 8 im.1 ++ env.sEnc im.2)).length
      = 40 * (di.zip dm).length :=
    flatMap_fixed_length (fun im => by simp [i2osp, i2ospAux_length, cS.enc_len]) _
  rw [challengeInput_layout]
  constructor
  · rw [List.take_append_of_le_length (by simp [i2osp, l0]),
      List.take_of_length_le (by simp [i2osp, l0])]
  · simp only [List.length_append, lz, c1.enc_len, cS.enc_len, i2osp_length, List.length_zip]
    omega

/-- The blind challenge input starts with the 8-byte value `M = |generators| − 1`. -/
theorem blindChallengeInput_prefixes (c1 : Codec env.g1Enc env.g1Dec 48) (C Cbar : G1)
    (gens : List G1) :
    (blindChallengeInput env C Cbar gens).take 8 = i2osp 8 (gens.length - 1) ∧
    (blindChallengeInput env C Cbar gens).length = 8 + 48 * gens.length + 48 + 48 := by
  have l0 := i2ospAux_length 8 (gens.length - 1)
  have l3 := flatMap_fixed_length c1.enc_len gens
  unfold blindChallengeInput
  constructor
  · rw [List.append_assoc, List.append_assoc, List.take_append_of_le_length (by simp [i2osp, l0]),
      List.take_of_length_le (by simp [i2osp, l0])]
  · simp only [List.length_append, l3, c1.enc_len, i2osp, l0]

end bare
end Zk.C10
