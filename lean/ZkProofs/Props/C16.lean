/-
C16  Boudot range proof (src/cl03/range_proof.rs).

Parameters after the F13 repair (commit 1ef28bc): decomposition points `aa = 2^T·a`, `bb = 2^T·b`,
remainder bound `b₂ = 2·⌊√(2^T·(b−a))⌋` (`tolB2`), responses accepted in `[c·b₂, 2^(t+l)·b₂ − 1]`.

Completeness (every tape on which the prover returns a proof, every `a < b`, every suite):
`scaled_le_iff`, `honest_remainders_within_bound`, `same_secret_complete`, `square_complete`,
`large_interval_complete`, `tolerance_complete`, `range_complete` (+ `range_complete_nonneg` with
plain congruence hypotheses), `prover_in_range`, `honest_out_of_range(_panics)`.
(`tolerance_lt`, `scaled_in_range_iff` are facts about the OLD widened interval, kept as arithmetic.)

Why the repair (section 7, pure arithmetic over `Int`/`Nat`, arbitrary `t l`):
`remainder_bound_lt_pow` (new tolerance `2^(t+l)·b₂ − 1 < 2^T`), `large_interval_extract_bound`,
`range_sound_arith`, `extracted_value_in_range`, `old_parameters_accept_out_of_range` (F13 witness),
`new_parameters_reject_out_of_range`, `at_most_one_challenge`.

What the verifier pins down (characterisations, read off the verifier):
`square_bound` (the F8 fix: the square proofs speak about `Ea1`, `Eb1`, and
`g^aa·Ea1·Ea2 ≡ E' ≡ E^(2^T)`, `E'·Eb1·Eb2 ≡ g^bb`), `determined_fields` (`Eprime`, `Ea2`, `Eb2`,
`squareA.E`, `squareB.E` are functions of the other fields: altering one of them alone is
rejected), `transplant` (the sub-proofs of an accepted proof verify only against commitments with
the same `E^(2^T) mod n`), `range_binding` (acceptance under two bound pairs / two bases forces
`g^bb ≡ g'^bb'`, hence equal `bb` or an `OrderRelation`), `same_secret_binding` (same challenge,
altered responses ⇒ `RepCollision ∨ ConcatAmbiguity ∨ ClHashCollision`), `prover_panics_iff`.

Canonical representatives (Rust dca07f6): the verifier accepts only `0 ≤ E < n` and, in each proof of
square, `0 ≤ F < n`: `rangeVerify_E_reduced`, `verifyOfSquare_F_reduced`, `rangeVerify_squares_F_reduced`,
`rangeVerify_rejects_shifted_E`, `verifyOfSquare_rejects_shifted_F`; completeness therefore asks for a
reduced commitment value (`range_complete`), which every honest commitment is (`commit_reduced`).

"`E` represents `u`" (`Rep n E u`) means `E ≡ u` in `ℤ/n` for a unit `u`; exponents of units are
integers of either sign (the blindings `r_2`, `r_3`, `ν` range over symmetric intervals).
-/
import ZkProofs.Lemmas.ClRange
set_option linter.unusedVariables false
namespace Zk.C16
open Zk.IA Zk.Cl Zk.ClRange

/-! ### 1. the tolerance -/

/-- **θ < 2^T** (arithmetic of the parameters used BEFORE the F13 repair; the model no longer
widens the interval by `θ`). With `T = 2(t+l+1) + bitLen(b−a)` and `θ = 2^(l+t+T/2+1)·⌊√(b−a)⌋`. -/
theorem tolerance_lt (hA : ArithOK) (a b : Int) (t l : Nat) (hab : a ≤ b) :
    (2 : Int) ^ (l + t + (2 * (t + l + 1) + bitLen (b - a)) / 2 + 1) * Int.ofNat (isqrt (b - a).toNat)
      < 2 ^ (2 * (t + l + 1) + bitLen (b - a)) :=
  ClRange.tolerance_lt hA a b t l hab

/-- Hence, for integers, `2^T·x` lies in the widened scaled interval exactly when `x ∈ [a, b]`
(old parameters; with `θ = 0` this is `scaled_le_iff`). -/
theorem scaled_in_range_iff {T : Nat} {θ a b x : Int} (h0 : 0 ≤ θ) (hlt : θ < 2 ^ T) :
    (2 ^ T * a - θ ≤ 2 ^ T * x ↔ a ≤ x) ∧ (2 ^ T * x ≤ 2 ^ T * b + θ ↔ x ≤ b) :=
  ClRange.scaled_in_range_iff h0 hlt

/-- The decomposition points of the model are `2^T·a`, `2^T·b`: `2^T·x` lies between them exactly
when `x ∈ [a, b]`. -/
theorem scaled_le_iff {T : Nat} {a b x : Int} :
    (2 ^ T * a ≤ 2 ^ T * x ↔ a ≤ x) ∧ (2 ^ T * x ≤ 2 ^ T * b ↔ x ≤ b) :=
  ⟨ClRange.scaled_le_iff, ClRange.scaled_le_iff⟩

/-- **Every honest remainder is within the bound.** For `x ∈ [a, b]` both remainders
`xa₂ = xa − ⌊√xa⌋²` (`xa = 2^T·x − 2^T·a`) and `xb₂` (`xb = 2^T·b − 2^T·x`) lie in `[0, b₂]`,
`b₂ = 2·⌊√(2^T·(b−a))⌋`, so Algorithm 5 is run on a secret inside the interval it is made for. -/
theorem honest_remainders_within_bound (hA : ArithOK) {T : Nat} {a b x : Int} (hax : a ≤ x)
    (hxb : x ≤ b) :
    (0 ≤ (2 ^ T * x - 2 ^ T * a) - (Int.ofNat (isqrt (2 ^ T * x - 2 ^ T * a).toNat)) ^ 2 ∧
      (2 ^ T * x - 2 ^ T * a) - (Int.ofNat (isqrt (2 ^ T * x - 2 ^ T * a).toNat)) ^ 2
        ≤ tolB2 T a b) ∧
    (0 ≤ (2 ^ T * b - 2 ^ T * x) - (Int.ofNat (isqrt (2 ^ T * b - 2 ^ T * x).toNat)) ^ 2 ∧
      (2 ^ T * b - 2 ^ T * x) - (Int.ofNat (isqrt (2 ^ T * b - 2 ^ T * x).toNat)) ^ 2
        ≤ tolB2 T a b) := by
  have hp : (0 : Int) < 2 ^ T := by positivity
  have h1 := mul_le_mul_of_nonneg_left hax hp.le
  have h2 := mul_le_mul_of_nonneg_left hxb hp.le
  exact ⟨honest_remainder_le hA (by linarith) (by linarith),
    honest_remainder_le hA (by linarith) (by linarith)⟩

/-! ### 2. sub-protocol completeness -/

/-- **Algorithms 1/2.** If `E ≡ g1^x·h1^r1` and `F ≡ g2^x·h2^r2` (bases units mod `n`), every proof
returned by `proof_same_secret` is accepted by `verify_same_secret`. -/
theorem same_secret_complete (hA : ArithOK) {n : Int} (hn : 1 < n)
    {g1 h1 g2 h2 E F x r1 r2 : Int} {u1 v1 u2 v2 : (ZMod n.toNat)ˣ}
    (hg1 : Rep n g1 u1) (hh1 : Rep n h1 v1) (hg2 : Rep n g2 u2) (hh2 : Rep n h2 v2)
    (hE : Rep n E (u1 ^ x * v1 ^ r1)) (hF : Rep n F (u2 ^ x * v2 ^ r2))
    {l t : Nat} {b : Int} {s1 s2 : Nat} {tp tp' : List Draw} {π : ProofSs}
    (h : proofSameSecret x r1 r2 g1 h1 g2 h2 l t b s1 s2 n tp = .ok (π, tp')) (tq : List Draw) :
    verifySameSecret E F g1 h1 g2 h2 n π tq = .ok (true, tq) :=
  ClRange.same_secret_complete hA hn hg1 hh1 hg2 hh2 hE hF h tq

/-- **Algorithms 3/4.** `E ≡ g^(x²)·h^r1`. -/
theorem square_complete (hA : ArithOK) {n : Int} (hn : 1 < n) {g h E x r1 : Int}
    {u v : (ZMod n.toNat)ˣ} (hg : Rep n g u) (hh : Rep n h v) (hE : Rep n E (u ^ (x ^ 2) * v ^ r1))
    {l t : Nat} {b : Int} {s s1 s2 : Nat} {tp tp' : List Draw} {π : ProofOfS}
    (hp : proofOfSquare x r1 g h E l t b s s1 s2 n tp = .ok (π, tp')) (tq : List Draw) :
    verifyOfSquare π g h n tq = .ok (true, tq) ∧ π.E = E :=
  ClRange.square_complete hA hn hg hh hE hp tq

/-- **Algorithms 5/6.** The rejection loop exits only when `c·b ≤ D1 ≤ 2^(t+l)·b − 1`, which
is the verifier's bound (F11 fixed; after F13 without the factor `2^T`). Algorithms 7/8 call it with
`b = b₂ = 2·⌊√(2^T·(b−a))⌋`. -/
theorem large_interval_complete (hA : ArithOK) {n : Int} (hn : 1 < n) {g h E x r : Int}
    {u v : (ZMod n.toNat)ˣ} (hg : Rep n g u) (hh : Rep n h v) (hE : Rep n E (u ^ x * v ^ r))
    {t l : Nat} {b : Int} {s T : Nat} {tp tp' : List Draw} {π : ProofLi}
    (hp : proofLargeIntervalSpecific x r g h t l b s n T tp = .ok (π, tp')) (tq : List Draw) :
    verifyLargeIntervalSpecific π E g h n t l b tq = .ok (true, tq) :=
  ClRange.large_interval_complete hA hn hg hh hE hp tq

/-- **Algorithms 7/8.** -/
theorem tolerance_complete (hA : ArithOK) {n : Int} (hn : 1 < n) {g h E x r a b : Int}
    {u v : (ZMod n.toNat)ˣ} (hg : Rep n g u) (hh : Rep n h v) (hE : Rep n E (u ^ x * v ^ r))
    (hE0 : 0 ≤ E) {t l s s1 s2 T : Nat} {tp tp' : List Draw} {π : ProofWt}
    (hp : proofOfToleranceSpecific x r g h n a b t l s s1 s2 T tp = .ok (π, tp')) (tq : List Draw) :
    verifyOfToleranceSpecific π g h E n a b t l T tq = .ok (true, tq) :=
  ClRange.tolerance_complete hA hn hg hh hE hE0 hp tq

/-! ### 3. completeness of the whole proof -/

/-- **Range-proof completeness.** Bases units mod `n > 1`, `c.value ≡ g^x·h^r` and `c.value` the
reduced representative `0 ≤ c.value < n` (the verifier accepts no other since dca07f6; every commitment
made by `commit_with_pk` / `commit_with_commitment_pk` / `commit_v` is reduced: `commit_reduced` below):
every proof the prover returns — on any tape, for any bounds and suite — verifies against the same
commitment, bases, modulus and bounds, and carries the commitment it was made for. (That the prover
returns a proof at all forces `a < b` and `a ≤ x ≤ b`: `prover_in_range`.) -/
theorem range_complete (hA : ArithOK) (cs : Suite) {n : Int} (hn : 1 < n) {g h x a b : Int}
    {c : Commitment} {u v : (ZMod n.toNat)ˣ} (hg : Rep n g u) (hh : Rep n h v)
    (hc : Rep n c.value (u ^ x * v ^ c.randomness)) (hcr : 0 ≤ c.value ∧ c.value < n)
    {tp tp' : List Draw} {π : RangeProof}
    (hp : rangeProve cs x c g h n a b tp = .ok (π, tp')) (tq : List Draw) :
    rangeVerify cs π g h n a b tq = .ok (true, tq) ∧ π.E = c.value :=
  ClRange.range_complete hA cs hn hg hh hc hcr hp tq

/-- **Honest commitments are reduced**: the hypothesis `0 ≤ c.value < n` of `range_complete` holds for
every commitment returned by `commit_with_commitment_pk`, `commit_with_pk` (any attributes, any index
list) and by `commit_v` on a non-negative `v` (accepted signatures have `0 < v`). -/
theorem commit_reduced (hA : ArithOK) {cs : Suite} :
    (∀ {msgs : List Int} {cpk : CommitmentPK} {uo : Option (List Nat)} {c : Commitment}
      {t t' : List Draw}, 0 < cpk.N → commitWithCpk cs msgs cpk uo t = .ok (c, t') →
        0 ≤ c.value ∧ c.value < cpk.N) ∧
    (∀ {msgs bases : List Int} {pk : PublicKey} {uo : Option (List Nat)} {c : Commitment}
      {t t' : List Draw}, 0 < pk.N → commitWithPk cs msgs pk bases uo t = .ok (c, t') →
        0 ≤ c.value ∧ c.value < pk.N) ∧
    (∀ {v : Int} {cpk : CommitmentPK} {c : Commitment} {t t' : List Draw}, 0 < cpk.N → 0 ≤ v →
      commitV cs v cpk t = .ok (c, t') → 0 ≤ c.value ∧ c.value < cpk.N) :=
  ⟨fun hN h => commitWithCpk_reduced hA hN h, fun hN h => commitWithPk_reduced hA hN h,
    fun hN hv h => commitV_reduced hA hN hv h⟩

/-- The same with plain hypotheses, for non-negative value and opening (all the library's uses:
attributes, `e`, and `random_bits` openings are non-negative). -/
theorem range_complete_nonneg (hA : ArithOK) (cs : Suite) {n : Int} (hn : 1 < n) {g h x a b : Int}
    {c : Commitment} (hg : Int.gcd g n = 1) (hh : Int.gcd h n = 1) (hx : 0 ≤ x)
    (hr : 0 ≤ c.randomness)
    (hc : c.value % n = g ^ x.toNat * h ^ c.randomness.toNat % n)
    (hcr : 0 ≤ c.value ∧ c.value < n) {tp tp' : List Draw}
    {π : RangeProof} (hp : rangeProve cs x c g h n a b tp = .ok (π, tp')) :
    rangeVerify cs π g h n a b [] = .ok (true, []) ∧ π.E = c.value := by
  obtain ⟨u, hu⟩ := rep_of_gcd hn hg
  obtain ⟨v, hv⟩ := rep_of_gcd hn hh
  refine ClRange.range_complete hA cs hn hu hv ?_ hcr hp []
  rw [zpow_toNat u hx, zpow_toNat v hr]
  exact Rep.of_emod_eq hn ((hu.pow _).mul (hv.pow _)) hc

/-- the hypotheses of `range_complete_nonneg` are satisfiable -/
example : (1 : Int) < 35 ∧ Int.gcd 2 35 = 1 ∧ Int.gcd 3 35 = 1 ∧
    (24 : Int) % 35 = 2 ^ (3 : Int).toNat * 3 ^ (1 : Int).toNat % 35 ∧ (0 : Int) ≤ 24 ∧ (24 : Int) < 35 := by
  decide

/-! ### 4. the honest prover outside the interval -/

/-- If the honest prover returns a proof then `a < b` and the value is in `[a, b]`. -/
theorem prover_in_range (hA : ArithOK) (cs : Suite) {n g h x a b : Int} {c : Commitment}
    {tp tp' : List Draw} {π : RangeProof}
    (hp : rangeProve cs x c g h n a b tp = .ok (π, tp')) : a < b ∧ a ≤ x ∧ x ≤ b :=
  ClRange.prover_in_range hA cs hp

/-- For ANY integer outside `[a, b]` (not just far outside: the decomposition points are exactly
`2^T·a`, `2^T·b`) the honest prover returns no proof, whatever the tape. -/
theorem honest_out_of_range (hA : ArithOK) (cs : Suite) {n g h x a b : Int} {c : Commitment}
    (hx : x < a ∨ b < x) (tp : List Draw) (r : RangeProof × List Draw) :
    rangeProve cs x c g h n a b tp ≠ .ok r :=
  ClRange.honest_out_of_range hA cs hx tp r

/-- Precisely: it panics (`Integer::sqrt` of a negative number) before reading the tape. -/
theorem honest_out_of_range_panics (hA : ArithOK) (cs : Suite) {n g h x a b : Int} {c : Commitment}
    (hn : 0 < n) (hab : a < b) (hx : x < a ∨ b < x) (tp : List Draw) :
    rangeProve cs x c g h n a b tp = .panic :=
  ClRange.honest_out_of_range_panics hA cs hn hab hx tp


/-- For a value inside `[a, b]` the honest prover never panics … -/
theorem prover_in_range_ne_panic (hA : ArithOK) (cs : Suite) {n : Int} (hn : 1 < n) {g h x a b : Int}
    (hg : Int.gcd g n = 1) (hh : Int.gcd h n = 1) (c : Commitment) (hab : a < b)
    (hax : a ≤ x) (hxb : x ≤ b) (tp : List Draw) : rangeProve cs x c g h n a b tp ≠ .panic := by
  obtain ⟨u, hu⟩ := rep_of_gcd hn hg
  obtain ⟨v, hv⟩ := rep_of_gcd hn hh
  exact rangeProve_ne_panic hA cs hn hu hv c hab hax hxb tp

/-- … so, for `a < b` and unit bases, it panics exactly when the value is outside `[a, b]`
(both endpoints are inside; every interval width). -/
theorem prover_panics_iff (hA : ArithOK) (cs : Suite) {n : Int} (hn : 1 < n) {g h x a b : Int}
    (hg : Int.gcd g n = 1) (hh : Int.gcd h n = 1) (c : Commitment) (hab : a < b) (tp : List Draw) :
    rangeProve cs x c g h n a b tp = .panic ↔ (x < a ∨ b < x) := by
  constructor
  · intro hp
    by_contra hc
    exact prover_in_range_ne_panic hA cs hn hg hh c hab (by omega) (by omega) tp hp
  · exact fun hx => honest_out_of_range_panics hA cs (by omega) hab hx tp

/-- Completeness for the commitments the library itself range-proves in `proof_gen`
(`commit_with_commitment_pk` on one attribute, bases `g_i`, `h`). -/
theorem range_complete_commit (hA : ArithOK) (cs : Suite) {cpk : CommitmentPK} (hn : 1 < cpk.N)
    {msgs : List Int} {i : Nat} {mi gi a b : Int} (hgi : cpk.gBases[i]? = some gi)
    (hm : msgs[i]? = some mi) (hg : Int.gcd gi cpk.N = 1) (hh : Int.gcd cpk.h cpk.N = 1)
    {cmi : Commitment} {t0 t1 tp tp' : List Draw}
    (hcm : commitWithCpk cs msgs cpk (some [i]) t0 = .ok (cmi, t1)) {π : RangeProof}
    (hp : rangeProve cs mi cmi gi cpk.h cpk.N a b tp = .ok (π, tp')) :
    rangeVerify cs π gi cpk.h cpk.N a b [] = .ok (true, []) ∧ π.E = cmi.value := by
  obtain ⟨u, hu⟩ := rep_of_gcd hn hg
  obtain ⟨v, hv⟩ := rep_of_gcd hn hh
  obtain ⟨hc, -, -, hc0, hcn⟩ := commitWithCpk_single hA hn rfl hgi hm hu hv hcm
  exact ClRange.range_complete hA cs hn hu hv hc ⟨hc0, hcn⟩ hp []

/-- … and in `ZKPoK::generate_proof` (`commit_with_pk` on one attribute, bases `a_i`, `b`). -/
theorem range_complete_commit_pk (hA : ArithOK) (cs : Suite) {pk : PublicKey} (hn : 1 < pk.N)
    {msgs bases : List Int} {i : Nat} {mi ai a b : Int} (hai : bases[i]? = some ai)
    (hm : msgs[i]? = some mi) (hg : Int.gcd ai pk.N = 1) (hh : Int.gcd pk.b pk.N = 1)
    {cmi : Commitment} {t0 t1 tp tp' : List Draw}
    (hcm : commitWithPk cs msgs pk bases (some [i]) t0 = .ok (cmi, t1)) {π : RangeProof}
    (hp : rangeProve cs mi cmi ai pk.b pk.N a b tp = .ok (π, tp')) :
    rangeVerify cs π ai pk.b pk.N a b [] = .ok (true, []) ∧ π.E = cmi.value := by
  obtain ⟨u, hu⟩ := rep_of_gcd hn hg
  obtain ⟨v, hv⟩ := rep_of_gcd hn hh
  obtain ⟨hc, -, -, hc0, hcn⟩ := commitWithPk_single hA hn rfl hai hm hu hv hcm
  exact ClRange.range_complete hA cs hn hu hv hc ⟨hc0, hcn⟩ hp []

/-! ### 5. what an accepted proof is bound to -/

/-- **The F8 fix, as a statement.** An accepted range proof satisfies: `Eprime = E^(2^T) mod n`;
the two square proofs are about `Ea1` and `Eb1` (`squareA.E = Ea1`, `squareB.E = Eb1`) and verify;
the two interval proofs verify against `Ea2`, `Eb2` with the bound `b₂ = 2·⌊√(2^T·(b−a))⌋`
(`tolB2 T a b`, F13 fixed); and the four commitments decompose the verified commitment:
`g^aa·Ea1·Ea2 ≡ Eprime` and `Eprime·Eb1·Eb2 ≡ g^bb (mod n)` with `aa = 2^T·a`, `bb = 2^T·b`. -/
theorem square_bound (hA : ArithOK) {cs : Suite} {π : RangeProof} {g h n a b : Int} (hn : 1 < n)
    {tq tq' : List Draw} (hv : rangeVerify cs π g h n a b tq = .ok (true, tq')) :
    let T := rangeT cs a b
    a < b ∧ π.Eprime = π.E ^ (2 ^ T) % n ∧
    π.tol.squareA.E = π.tol.Ea1 ∧ π.tol.squareB.E = π.tol.Eb1 ∧
    verifyOfSquare π.tol.squareA g h n tq = .ok (true, tq) ∧
    verifyOfSquare π.tol.squareB g h n tq = .ok (true, tq) ∧
    verifyLargeIntervalSpecific π.tol.largeA π.tol.Ea2 g h n cs.t cs.l (tolB2 T a b) tq
      = .ok (true, tq) ∧
    verifyLargeIntervalSpecific π.tol.largeB π.tol.Eb2 g h n cs.t cs.l (tolB2 T a b) tq
      = .ok (true, tq) ∧
    ∃ gaa gbb : Int,
      powMod g (2 ^ T * a) n = some gaa ∧
      powMod g (2 ^ T * b) n = some gbb ∧
      gaa * π.tol.Ea1 * π.tol.Ea2 ≡ π.Eprime [ZMOD n] ∧
      π.Eprime * π.tol.Eb1 * π.tol.Eb2 ≡ gbb [ZMOD n] := by
  intro T
  obtain ⟨hab, rfl, -, hE', htol⟩ := range_accept_inv hA (by omega) hv
  obtain ⟨-, -, gaa, Ea, gbb, Eb, h1, h2, h3, h4, h5, h6, c3, c4, v1, v2, v3, v4⟩ :=
    tolerance_accept_inv htol
  refine ⟨hab, hE', c3, c4, v1, v2, v3, v4, gaa, gbb, (pw_ok_iff.mp h1).1, (pw_ok_iff.mp h3).1, ?_, ?_⟩
  · have e1 := divm_spec hA hn h2
    have e2 := divm_spec hA hn h5
    calc gaa * π.tol.Ea1 * π.tol.Ea2 = gaa * (π.tol.Ea1 * π.tol.Ea2) := by ring
      _ ≡ gaa * Ea [ZMOD n] := e2.mul_left _
      _ ≡ π.Eprime [ZMOD n] := e1
  · have e1 := divm_spec hA hn h4
    have e2 := divm_spec hA hn h6
    calc π.Eprime * π.tol.Eb1 * π.tol.Eb2 = π.Eprime * (π.tol.Eb1 * π.tol.Eb2) := by ring
      _ ≡ π.Eprime * Eb [ZMOD n] := e2.mul_left _
      _ ≡ gbb [ZMOD n] := e1

/-! ### 5a. canonical representatives: `E` and `F` are reduced -/

/-- **An accepted range proof carries the reduced representative of its commitment**: `0 ≤ E < n`.
No hypotheses. -/
theorem rangeVerify_E_reduced {cs : Suite} {π : RangeProof} {g h n a b : Int} {tq tq' : List Draw}
    (hv : rangeVerify cs π g h n a b tq = .ok (true, tq')) : 0 ≤ π.E ∧ π.E < n := by
  unfold rangeVerify at hv
  split at hv
  · cases hv
  split at hv
  · cases (pure_ok_iff.mp hv).1
  · omega

/-- **An accepted proof of square carries the reduced representative of `F`**: `0 ≤ F < n`. -/
theorem verifyOfSquare_F_reduced {π : ProofOfS} {g h n : Int} {tq tq' : List Draw}
    (hv : verifyOfSquare π g h n tq = .ok (true, tq')) : 0 ≤ π.F ∧ π.F < n :=
  (verifyOfSquare_accept_inv hv).1

/-- … hence both proofs of square inside an accepted range proof do. -/
theorem rangeVerify_squares_F_reduced (hA : ArithOK) {cs : Suite} {π : RangeProof} {g h n a b : Int}
    (hn : 1 < n) {tq tq' : List Draw} (hv : rangeVerify cs π g h n a b tq = .ok (true, tq')) :
    (0 ≤ π.tol.squareA.F ∧ π.tol.squareA.F < n) ∧ (0 ≤ π.tol.squareB.F ∧ π.tol.squareB.F < n) := by
  obtain ⟨-, rfl, -, -, htol⟩ := range_accept_inv hA (by omega) hv
  obtain ⟨-, -, gaa, Ea, gbb, Eb, -, -, -, -, -, -, -, -, v1, v2, -⟩ := tolerance_accept_inv htol
  exact ⟨verifyOfSquare_F_reduced v1, verifyOfSquare_F_reduced v2⟩

/-- **At most one representative of `E` is accepted.** A proof accepted with `E` is not accepted with
`E + k·n`, `k ≠ 0` — under any bases and bounds with the same modulus, on any tape (before the check
`0 ≤ E < n` the proof with `E ± n` verified as well). `0 < n` follows from the acceptance. -/
theorem rangeVerify_rejects_shifted_E {cs : Suite} {π : RangeProof} {g h g' h' n a b a' b' : Int}
    {k : Int} (hk : k ≠ 0) {tq tq' : List Draw}
    (hv : rangeVerify cs π g h n a b tq = .ok (true, tq')) (tw tw' : List Draw) :
    rangeVerify cs { π with E := π.E + k * n } g' h' n a' b' tw ≠ .ok (true, tw') := by
  intro hv'
  have h1 := rangeVerify_E_reduced hv
  have h2 := rangeVerify_E_reduced hv'
  have := shift_not_reduced (N := n) hk h1.1 h1.2
  simp only at h2
  omega

/-- **At most one representative of `F` is accepted** by `verify_of_square`. -/
theorem verifyOfSquare_rejects_shifted_F {π : ProofOfS} {g h g' h' n : Int} {k : Int} (hk : k ≠ 0)
    {tq tq' : List Draw} (hv : verifyOfSquare π g h n tq = .ok (true, tq')) (tw tw' : List Draw) :
    verifyOfSquare { π with F := π.F + k * n } g' h' n tw ≠ .ok (true, tw') := by
  intro hv'
  have h1 := verifyOfSquare_F_reduced hv
  have h2 := verifyOfSquare_F_reduced hv'
  have := shift_not_reduced (N := n) hk h1.1 h1.2
  simp only at h2
  omega

/-- **Altered fields.** Two accepted proofs (same bases, modulus, bounds) that agree on `E`, `Ea1`
and `Eb1` agree on `Eprime`, `Ea2`, `Eb2`, `squareA.E`, `squareB.E`: each of these five fields is a
function of the others, so a proof in which one of them alone was altered is rejected. -/
theorem determined_fields (hA : ArithOK) {cs : Suite} {π π' : RangeProof} {g h n a b : Int}
    (hn : 0 < n) {tq tq' tq'' : List Draw}
    (hv : rangeVerify cs π g h n a b tq = .ok (true, tq'))
    (hv' : rangeVerify cs π' g h n a b tq = .ok (true, tq''))
    (hE : π.E = π'.E) (h1 : π.tol.Ea1 = π'.tol.Ea1) (h2 : π.tol.Eb1 = π'.tol.Eb1) :
    π.Eprime = π'.Eprime ∧ π.tol.Ea2 = π'.tol.Ea2 ∧ π.tol.Eb2 = π'.tol.Eb2 ∧
    π.tol.squareA.E = π'.tol.squareA.E ∧ π.tol.squareB.E = π'.tol.squareB.E := by
  obtain ⟨-, rfl, -, hE1, htol⟩ := range_accept_inv hA hn hv
  obtain ⟨-, rfl, -, hE2, htol'⟩ := range_accept_inv hA hn hv'
  have hEp : π.Eprime = π'.Eprime := by rw [hE1, hE2, hE]
  obtain ⟨-, -, gaa, Ea, gbb, Eb, p1, p2, p3, p4, p5, p6, c3, c4, -⟩ := tolerance_accept_inv htol
  obtain ⟨-, -, gaa', Ea', gbb', Eb', q1, q2, q3, q4, q5, q6, d3, d4, -⟩ :=
    tolerance_accept_inv htol'
  rw [p1] at q1
  obtain rfl : gaa = gaa' := by injection q1 with q1; injection q1
  rw [p3] at q3
  obtain rfl : gbb = gbb' := by injection q3 with q3; injection q3
  rw [← hEp, p2] at q2
  obtain rfl : Ea = Ea' := by injection q2 with q2; injection q2
  rw [← hEp, p4] at q4
  obtain rfl : Eb = Eb' := by injection q4 with q4; injection q4
  rw [← h1, p5] at q5
  rw [← h2, p6] at q6
  refine ⟨hEp, ?_, ?_, by rw [c3, d3, h1], by rw [c4, d4, h2]⟩
  · injection q5 with q5; injection q5
  · injection q6 with q6; injection q6

/-- A proof whose `Eprime` alone was altered is rejected. -/
theorem altered_Eprime_rejected (hA : ArithOK) {cs : Suite} {π : RangeProof} {g h n a b : Int}
    (hn : 0 < n) {tq tq' : List Draw} (hv : rangeVerify cs π g h n a b tq = .ok (true, tq'))
    (e' : Int) (he : e' ≠ π.Eprime) (tq'' : List Draw) :
    rangeVerify cs { π with Eprime := e' } g h n a b tq ≠ .ok (true, tq'') := by
  intro hv'
  exact he (determined_fields hA hn hv hv' rfl rfl rfl).1.symm

/-- **Transplanting.** If the tolerance part (`Ea1 … largeB`) of an accepted proof is also accepted
under another commitment `E₂` (same bases, modulus, bounds), then `E₂^(2^T) ≡ E₁^(2^T) (mod n)`:
the sub-proofs of an honest proof verify only for commitments that agree with the original one up
to an element of order dividing `2^T` — not for a commitment to a different (e.g. out-of-range)
value, unless the forger knows such a relation. -/
theorem transplant (hA : ArithOK) {cs : Suite} {π π' : RangeProof} {g h n a b : Int} (hn : 1 < n)
    {tq tq' tq'' : List Draw}
    (hv : rangeVerify cs π g h n a b tq = .ok (true, tq'))
    (hv' : rangeVerify cs π' g h n a b tq = .ok (true, tq''))
    (htol : π.tol = π'.tol) :
    π.Eprime = π'.Eprime ∧ π.E ^ (2 ^ rangeT cs a b) % n = π'.E ^ (2 ^ rangeT cs a b) % n := by
  obtain ⟨-, h1, -, -, -, -, -, -, gaa, gbb, p1, p2, e1, -⟩ := square_bound hA hn hv
  obtain ⟨-, h1', -, -, -, -, -, -, gaa', gbb', q1, q2, e1', -⟩ := square_bound hA hn hv'
  rw [p1] at q1
  obtain rfl : gaa = gaa' := by injection q1
  rw [← htol] at e1'
  have hmod : π.Eprime ≡ π'.Eprime [ZMOD n] := e1.symm.trans e1'
  have hEq : π.Eprime = π'.Eprime := by
    unfold Int.ModEq at hmod
    rw [h1, h1', Int.emod_emod_of_dvd _ (dvd_refl n), Int.emod_emod_of_dvd _ (dvd_refl n)] at hmod
    rw [h1, h1']; exact hmod
  exact ⟨hEq, by rw [← h1, ← h1', hEq]⟩

/-! ### 6. other bounds / other bases -/

/-- **Binding to bounds and first base.** If the same proof is accepted under `(g, h, a, b)` and
under `(g', h', a', b')` (same modulus), then `g^bb ≡ g'^bb' (mod n)` where
`bb = 2^T·b`, `bb' = 2^T'·b'` are the scaled upper bounds. -/
theorem range_binding (hA : ArithOK) {cs : Suite} {π : RangeProof} {g h g' h' n a b a' b' : Int}
    (hn : 1 < n) {tq tq' tq'' : List Draw}
    (hv : rangeVerify cs π g h n a b tq = .ok (true, tq'))
    (hv' : rangeVerify cs π g' h' n a' b' tq = .ok (true, tq'')) :
    ∃ y : Int,
      powMod g (2 ^ rangeT cs a b * b) n = some y ∧
      powMod g' (2 ^ rangeT cs a' b' * b') n = some y ∧
      π.E ^ (2 ^ rangeT cs a b) % n = π.E ^ (2 ^ rangeT cs a' b') % n := by
  obtain ⟨-, h1, -, -, -, -, -, -, gaa, gbb, p1, p2, -, e2⟩ := square_bound hA hn hv
  obtain ⟨-, h1', -, -, -, -, -, -, gaa', gbb', q1, q2, -, e2'⟩ := square_bound hA hn hv'
  have hmod : gbb ≡ gbb' [ZMOD n] := e2.symm.trans e2'
  have r1 : 0 ≤ gbb ∧ gbb < n := by
    by_cases he : 0 ≤ 2 ^ rangeT cs a b * b
    · rw [hA.powMod_nonneg _ _ _ (by omega) he] at p2
      injection p2 with p2; rw [← p2]
      exact ⟨Int.emod_nonneg _ (by omega), Int.emod_lt_of_pos _ (by omega)⟩
    · rw [hA.powMod_neg _ _ _ (by omega) (by omega)] at p2
      cases hi : invMod g n with
      | none => rw [hi] at p2; cases p2
      | some gi =>
        rw [hi] at p2; injection p2 with p2; rw [← p2]
        exact ⟨Int.emod_nonneg _ (by omega), Int.emod_lt_of_pos _ (by omega)⟩
  have r2 : 0 ≤ gbb' ∧ gbb' < n := by
    by_cases he : 0 ≤ 2 ^ rangeT cs a' b' * b'
    · rw [hA.powMod_nonneg _ _ _ (by omega) he] at q2
      injection q2 with q2; rw [← q2]
      exact ⟨Int.emod_nonneg _ (by omega), Int.emod_lt_of_pos _ (by omega)⟩
    · rw [hA.powMod_neg _ _ _ (by omega) (by omega)] at q2
      cases hi : invMod g' n with
      | none => rw [hi] at q2; cases q2
      | some gi =>
        rw [hi] at q2; injection q2 with q2; rw [← q2]
        exact ⟨Int.emod_nonneg _ (by omega), Int.emod_lt_of_pos _ (by omega)⟩
  have : gbb = gbb' := by
    unfold Int.ModEq at hmod
    rwa [Int.emod_eq_of_lt r1.1 r1.2, Int.emod_eq_of_lt r2.1 r2.2] at hmod
  subst this
  exact ⟨gbb, p2, q2, by rw [← h1, ← h1']⟩

/-- With the same unit base `g`: two bound pairs with different scaled upper bounds `bb ≠ bb'`
under which one proof is accepted yield a multiple of the order of `g` (an `OrderRelation`). -/
theorem range_binding_bounds (hA : ArithOK) {cs : Suite} {π : RangeProof} {g h h' n a b a' b' : Int}
    (hn : 1 < n) (hg : Int.gcd g n = 1) {tq tq' tq'' : List Draw}
    (hv : rangeVerify cs π g h n a b tq = .ok (true, tq'))
    (hv' : rangeVerify cs π g h' n a' b' tq = .ok (true, tq'')) :
    2 ^ rangeT cs a b * b
      = 2 ^ rangeT cs a' b' * b' ∨
    OrderRelation n g := by
  obtain ⟨y, p, q, -⟩ := range_binding hA hn hv hv'
  set bb := 2 ^ rangeT cs a b * b
  set bb' := 2 ^ rangeT cs a' b' * b'
  by_cases hbb : bb = bb'
  · exact Or.inl hbb
  refine Or.inr ?_
  obtain ⟨u, hu⟩ := rep_of_gcd hn hg
  obtain ⟨y1, e1, r1, -⟩ := powMod_rep hA hn hu bb
  obtain ⟨y2, e2, r2, -⟩ := powMod_rep hA hn hu bb'
  rw [p] at e1; rw [q] at e2
  injection e1 with e1; injection e2 with e2
  subst e1; subst e2
  have huu : u ^ bb = u ^ bb' := by
    apply Units.ext
    unfold Rep at r1 r2
    rw [← r1, ← r2]
  have key : ∀ d : Int, 0 < d → u ^ d = 1 → OrderRelation n g := by
    intro d hd h1
    refine ⟨d.toNat, by omega, ?_⟩
    have hr := hu.pow d.toNat
    rw [← zpow_toNat u hd.le, h1] at hr
    unfold Rep at hr
    have := (ZMod.intCast_eq_intCast_iff' (g ^ d.toNat) 1 n.toNat).mp (by simpa using hr)
    rwa [natCast_toNat hn] at this
  rcases lt_or_gt_of_ne hbb with hlt | hgt
  · exact key (bb' - bb) (by omega) (by rw [zpow_sub, huu, mul_inv_cancel])
  · exact key (bb - bb') (by omega) (by rw [zpow_sub, huu, mul_inv_cancel])

/-- **Altered responses of a sub-proof.** Two `proof_same_secret` proofs accepted for the same
statement (unit bases, unit `E`, `F`) and carrying the same challenge are equal, or exhibit a
non-trivial relation between the bases, or a hash event (decimal concatenation ambiguity or a
SHA-256 collision). (A proof with an altered challenge is a different Fiat–Shamir transcript; that
it is rejected is a random-oracle statement, tested, not proven.) -/
theorem same_secret_binding (hA : ArithOK) {n : Int} (hn : 1 < n)
    {g1 h1 g2 h2 E F : Int} (hg1 : Int.gcd g1 n = 1) (hh1 : Int.gcd h1 n = 1)
    (hg2 : Int.gcd g2 n = 1) (hh2 : Int.gcd h2 n = 1) (hE : Int.gcd E n = 1) (hF : Int.gcd F n = 1)
    {π π' : ProofSs} {tq tq' tq'' : List Draw}
    (hv : verifySameSecret E F g1 h1 g2 h2 n π tq = .ok (true, tq'))
    (hv' : verifySameSecret E F g1 h1 g2 h2 n π' tq = .ok (true, tq''))
    (hc : π'.challenge = π.challenge) :
    π' = π ∨ RepCollision n [g1, h1] ∨ RepCollision n [g2, h2] ∨ ConcatAmbiguity ∨
      ClHashCollision := by
  obtain ⟨u1, hu1⟩ := rep_of_gcd hn hg1
  obtain ⟨v1, hv1⟩ := rep_of_gcd hn hh1
  obtain ⟨u2, hu2⟩ := rep_of_gcd hn hg2
  obtain ⟨v2, hv2⟩ := rep_of_gcd hn hh2
  obtain ⟨e, he⟩ := rep_of_gcd hn hE
  obtain ⟨f, hf⟩ := rep_of_gcd hn hF
  exact ClRange.same_secret_binding hA hn hu1 hv1 hu2 hv2 he hf hv hv' hc

/-! ### 7. why the remainder bound `b₂` (finding F13)

Pure arithmetic over `Int`/`Nat`, arbitrary `t l` (no suite constants). `T = tolT t l a b`
`= 2(t+l+1) + bitLen(b−a)` is the model's `rangeT` (`rangeT_eq`), `b₂ = tolB2 T a b`
`= 2·⌊√(2^T·(b−a))⌋` is the third component of the model's `tolBounds` (`tolBounds_ok_iff`). -/

example (T : Nat) (a b : Int) :
    tolB2 T a b = 2 * Int.ofNat (isqrt (2 ^ T * (b - a)).toNat) := rfl
example (t l : Nat) (a b : Int) : tolT t l a b = 2 * (t + l + 1) + bitLen (b - a) := rfl

/-- `2^(t+l+1)·⌊√(2^T·w)⌋ < 2^T` for `w < 2^β`, `T = 2(t+l+1) + β` (naturals). -/
theorem two_pow_mul_isqrt_lt (hA : ArithOK) (k β w : Nat) (hw : w < 2 ^ β) :
    2 ^ k * isqrt (2 ^ (2 * k + β) * w) < 2 ^ (2 * k + β) := by
  have h1 : isqrt (2 ^ (2 * k + β) * w) ^ 2 ≤ 2 ^ (2 * k + β) * w := (hA.isqrt_spec _).1
  refine lt_of_pow_lt_pow_left₀ 2 (Nat.zero_le _) ?_
  calc (2 ^ k * isqrt (2 ^ (2 * k + β) * w)) ^ 2
      = 2 ^ (2 * k) * isqrt (2 ^ (2 * k + β) * w) ^ 2 := by rw [mul_pow, ← pow_mul, mul_comm k 2]
    _ ≤ 2 ^ (2 * k) * (2 ^ (2 * k + β) * w) := Nat.mul_le_mul_left _ h1
    _ < 2 ^ (2 * k) * (2 ^ (2 * k + β) * 2 ^ β) :=
        Nat.mul_lt_mul_of_pos_left (Nat.mul_lt_mul_of_pos_left hw (by positivity)) (by positivity)
    _ = (2 ^ (2 * k + β)) ^ 2 := by ring

/-- **1 (strict form).** `2^(t+l)·b₂ < 2^T` for every interval `a ≤ b`. -/
theorem remainder_bound_lt_pow' (hA : ArithOK) (t l : Nat) (a b : Int) (hab : a ≤ b) :
    2 ^ (t + l) * tolB2 (tolT t l a b) a b < 2 ^ tolT t l a b := by
  unfold tolB2 tolT
  set β := bitLen (b - a) with hβ
  have h2 : ((b - a).toNat : Int) = b - a := Int.toNat_of_nonneg (by omega)
  have hw : (b - a).toNat < 2 ^ β := by
    have := lt_two_pow_bitLen (v := b - a) (by omega)
    rw [← hβ, ← h2] at this
    exact_mod_cast this
  have hN : ((2 : Int) ^ (2 * (t + l + 1) + β) * (b - a)).toNat
      = 2 ^ (2 * (t + l + 1) + β) * (b - a).toNat := by
    have : (2 : Int) ^ (2 * (t + l + 1) + β) * (b - a)
        = ((2 ^ (2 * (t + l + 1) + β) * (b - a).toNat : Nat) : Int) := by push_cast; rw [h2]
    rw [this, Int.toNat_natCast]
  rw [hN]
  have key := two_pow_mul_isqrt_lt hA (t + l + 1) β _ hw
  have key' : (2 : Int) ^ (t + l + 1)
      * ((isqrt (2 ^ (2 * (t + l + 1) + β) * (b - a).toNat) : Nat) : Int)
        < 2 ^ (2 * (t + l + 1) + β) := by exact_mod_cast key
  show (2 : Int) ^ (t + l) * (2 * ((isqrt (2 ^ (2 * (t + l + 1) + β) * (b - a).toNat) : Nat) : Int))
    < 2 ^ (2 * (t + l + 1) + β)
  calc (2 : Int) ^ (t + l) * (2 * ((isqrt (2 ^ (2 * (t + l + 1) + β) * (b - a).toNat) : Nat) : Int))
      = 2 ^ (t + l + 1) * ((isqrt (2 ^ (2 * (t + l + 1) + β) * (b - a).toNat) : Nat) : Int) := by
        rw [pow_succ]; ring
    _ < _ := key'

/-- **1. The new tolerance is below the scaling factor, for EVERY interval width**: with
`T = 2(t+l+1) + bitLen(b−a)` and `b₂ = 2·⌊√(2^T·(b−a))⌋`, the largest accepted response
`2^(t+l)·b₂ − 1` is below `2^T`. -/
theorem remainder_bound_lt_pow (hA : ArithOK) (t l : Nat) (a b : Int) (hab : a ≤ b) :
    2 ^ (t + l) * tolB2 (tolT t l a b) a b - 1 < 2 ^ tolT t l a b := by
  have := remainder_bound_lt_pow' hA t l a b hab
  omega

/-- **2. Special-soundness arithmetic of Algorithm 6.** Two accepted responses `D1`, `D1'` to
distinct challenges `c ≠ c'` (non-negative, as `C mod 2^t` is) for the same secret `x2`
(`D1 − D1' = x2·(c − c')`) bound the secret: `|x2| ≤ 2^(t+l)·b₂ − 1`. -/
theorem large_interval_extract_bound {t l : Nat} {b2 c c' D1 D1' x2 : Int} (hb2 : 0 ≤ b2)
    (hc0 : 0 ≤ c) (hc0' : 0 ≤ c') (hne : c ≠ c')
    (h1 : c * b2 ≤ D1) (h2 : D1 ≤ 2 ^ (t + l) * b2 - 1)
    (h1' : c' * b2 ≤ D1') (h2' : D1' ≤ 2 ^ (t + l) * b2 - 1)
    (hx : D1 - D1' = x2 * (c - c')) : |x2| ≤ 2 ^ (t + l) * b2 - 1 := by
  have hD0 : 0 ≤ D1 := le_trans (mul_nonneg hc0 hb2) h1
  have hD0' : 0 ≤ D1' := le_trans (mul_nonneg hc0' hb2) h1'
  have hd : |D1 - D1'| ≤ 2 ^ (t + l) * b2 - 1 := by rw [abs_le]; constructor <;> linarith
  have hcc : 1 ≤ |c - c'| := Int.one_le_abs (sub_ne_zero.mpr hne)
  rw [hx, abs_mul] at hd
  calc |x2| = |x2| * 1 := (mul_one _).symm
    _ ≤ |x2| * |c - c'| := mul_le_mul_of_nonneg_left hcc (abs_nonneg _)
    _ ≤ _ := hd

/-- **3. Soundness arithmetic of the decomposition.** If both scaled distances are a square plus
a remainder of absolute value below `2^T`, the value is in `[a, b]`. -/
theorem range_sound_arith {T : Nat} {a b x qa qb ρa ρb : Int}
    (ha : 2 ^ T * x - 2 ^ T * a = qa ^ 2 + ρa) (hb : 2 ^ T * b - 2 ^ T * x = qb ^ 2 + ρb)
    (hρa : |ρa| < 2 ^ T) (hρb : |ρb| < 2 ^ T) : a ≤ x ∧ x ≤ b := by
  have hp : (0 : Int) < 2 ^ T := by positivity
  rw [abs_lt] at hρa hρb
  have hqa := sq_nonneg qa
  have hqb := sq_nonneg qb
  constructor
  · by_contra hc
    have : x + 1 ≤ a := by omega
    have := mul_le_mul_of_nonneg_left this hp.le
    nlinarith
  · by_contra hc
    have : b + 1 ≤ x := by omega
    have := mul_le_mul_of_nonneg_left this hp.le
    nlinarith

/-- **1–3 combined.** Remainders bounded by the extractor bound of
`large_interval_extract_bound` with the model's `T` and `b₂` force `a ≤ x ≤ b`: the repaired
parameters leave no slack (expansion rate exactly 1 on integers). -/
theorem extracted_value_in_range (hA : ArithOK) (t l : Nat) {a b x qa qb ρa ρb : Int} (hab : a ≤ b)
    (ha : 2 ^ tolT t l a b * x - 2 ^ tolT t l a b * a = qa ^ 2 + ρa)
    (hb : 2 ^ tolT t l a b * b - 2 ^ tolT t l a b * x = qb ^ 2 + ρb)
    (hρa : |ρa| ≤ 2 ^ (t + l) * tolB2 (tolT t l a b) a b - 1)
    (hρb : |ρb| ≤ 2 ^ (t + l) * tolB2 (tolT t l a b) a b - 1) : a ≤ x ∧ x ≤ b := by
  have h := remainder_bound_lt_pow hA t l a b hab
  exact range_sound_arith ha hb (lt_of_le_of_lt hρa h) (lt_of_le_of_lt hρb h)

/-- The whole chain for two pairs of accepted responses (one pair per remainder). -/
theorem extracted_value_in_range' (hA : ArithOK) (t l : Nat) {a b x qa qb ρa ρb : Int}
    (hab : a ≤ b)
    (ha : 2 ^ tolT t l a b * x - 2 ^ tolT t l a b * a = qa ^ 2 + ρa)
    (hb : 2 ^ tolT t l a b * b - 2 ^ tolT t l a b * x = qb ^ 2 + ρb)
    {ca ca' Da Da' cb cb' Db Db' : Int}
    (hca : 0 ≤ ca) (hca' : 0 ≤ ca') (hnea : ca ≠ ca')
    (a1 : ca * tolB2 (tolT t l a b) a b ≤ Da)
    (a2 : Da ≤ 2 ^ (t + l) * tolB2 (tolT t l a b) a b - 1)
    (a1' : ca' * tolB2 (tolT t l a b) a b ≤ Da')
    (a2' : Da' ≤ 2 ^ (t + l) * tolB2 (tolT t l a b) a b - 1)
    (hxa : Da - Da' = ρa * (ca - ca'))
    (hcb : 0 ≤ cb) (hcb' : 0 ≤ cb') (hneb : cb ≠ cb')
    (b1 : cb * tolB2 (tolT t l a b) a b ≤ Db)
    (b2 : Db ≤ 2 ^ (t + l) * tolB2 (tolT t l a b) a b - 1)
    (b1' : cb' * tolB2 (tolT t l a b) a b ≤ Db')
    (b2' : Db' ≤ 2 ^ (t + l) * tolB2 (tolT t l a b) a b - 1)
    (hxb : Db - Db' = ρb * (cb - cb')) : a ≤ x ∧ x ≤ b :=
  extracted_value_in_range hA t l hab ha hb
    (large_interval_extract_bound (tolB2_nonneg _ _ _) hca hca' hnea a1 a2 a1' a2' hxa)
    (large_interval_extract_bound (tolB2_nonneg _ _ _) hcb hcb' hneb b1 b2 b1' b2' hxb)

/-- the algebra of `old_parameters_accept_out_of_range` with `P = 2^T`, `Q = 2^t`,
`W = 2^(T+t+l−1)` -/
theorem old_accept_aux {P Q W b c x2 : Int} (hP : 1 ≤ P) (hQ : 1 ≤ Q) (hb : 1 ≤ b)
    (hW : P * Q ≤ W) (hcase : 2 * (P * Q) ≤ W ∨ Q ≤ P) (hPW : P ≤ W) (hc0 : 0 ≤ c)
    (hc1 : c ≤ Q - 1) (hx2 : -P ≤ x2) (hx2' : x2 ≤ 0) :
    c * b ≤ W * b + x2 * c ∧ W * b + x2 * c ≤ 2 * W * b - P ∧ W * b ≤ 2 * W * b - 1 := by
  have hxc : -P * c ≤ x2 * c := mul_le_mul_of_nonneg_right hx2 hc0
  have hxc' : x2 * c ≤ 0 := mul_nonpos_of_nonpos_of_nonneg hx2' hc0
  have hWb : 0 ≤ W * (b - 1) := mul_nonneg (by linarith) (by linarith)
  have h1 : c * (b + P) ≤ (Q - 1) * (b + P) := mul_le_mul_of_nonneg_right hc1 (by linarith)
  have hPQb : P * Q * b ≤ W * b := mul_le_mul_of_nonneg_right hW (by linarith)
  have hkey : c * (b + P) ≤ W * b := by
    rcases hcase with h2 | h2
    · have h2b : 2 * (P * Q) * b ≤ W * b := mul_le_mul_of_nonneg_right h2 (by linarith)
      have e1 : 0 ≤ (P - 1) * (Q * b) := mul_nonneg (by linarith) (mul_nonneg (by linarith) (by linarith))
      have e2 : 0 ≤ (P * Q) * (b - 1) := mul_nonneg (mul_nonneg (by linarith) (by linarith)) (by linarith)
      linarith
    · have e1 : 0 ≤ (P - 1) * Q * (b - 1) :=
        mul_nonneg (mul_nonneg (by linarith) (by linarith)) (by linarith)
      linarith
  refine ⟨by linarith, by linarith, by linarith⟩

/-- **4. The F13 witness** (arithmetic of the OLD acceptance test
`c·b ≤ D1 ≤ 2^T·(2^(t+l)·b − 1)`, old bound `b ≥ 1`). For EVERY remainder `x2 ∈ [−2^T, 0]` the one
masking value `w = 2^(T+t+l−1)·b` (inside the old honest range `[0, 2^T·2^(t+l)·b − 1]`) yields an
accepted response `D1 = w + x2·c` for EVERY challenge `0 ≤ c < 2^t`. Side condition: `2 ≤ l`, or
`1 ≤ l` and `t ≤ T` (the model's `T = 2(t+l+1)+bitLen(b−a)` always has `t ≤ T`); for `l = 0`,
`b = 1` no single `w` serves all challenges. -/
theorem old_parameters_accept_out_of_range {T t l : Nat} {b c x2 : Int} (hb : 1 ≤ b)
    (hl : 2 ≤ l ∨ (1 ≤ l ∧ t ≤ T)) (hc0 : 0 ≤ c) (hct : c < 2 ^ t)
    (hx2 : -(2 ^ T) ≤ x2) (hx2' : x2 ≤ 0) :
    let w : Int := 2 ^ (T + t + l - 1) * b
    (0 ≤ w ∧ w ≤ 2 ^ T * 2 ^ (t + l) * b - 1) ∧
      c * b ≤ w + x2 * c ∧ w + x2 * c ≤ 2 ^ T * (2 ^ (t + l) * b - 1) := by
  intro w
  have hW2 : (2 : Int) ^ T * 2 ^ (t + l) = 2 * 2 ^ (T + t + l - 1) := by
    rw [← pow_add, ← pow_succ']; congr 1; omega
  have hW1 : (2 : Int) ^ T * 2 ^ t ≤ 2 ^ (T + t + l - 1) := by
    rw [← pow_add]; exact pow_le_pow_right₀ (by norm_num) (by omega)
  have hPW : (2 : Int) ^ T ≤ 2 ^ (T + t + l - 1) := pow_le_pow_right₀ (by norm_num) (by omega)
  have hcase : 2 * ((2 : Int) ^ T * 2 ^ t) ≤ 2 ^ (T + t + l - 1) ∨ (2 : Int) ^ t ≤ 2 ^ T := by
    rcases hl with hl2 | ⟨-, htT⟩
    · left; rw [← pow_add, ← pow_succ']; exact pow_le_pow_right₀ (by norm_num) (by omega)
    · right; exact pow_le_pow_right₀ (by norm_num) htT
  obtain ⟨k1, k2, k3⟩ := old_accept_aux (one_le_pow₀ (by norm_num)) (one_le_pow₀ (by norm_num)) hb
    hW1 hcase hPW hc0 (by omega) hx2 hx2'
  refine ⟨⟨by positivity, ?_⟩, k1, ?_⟩
  · show 2 ^ (T + t + l - 1) * b ≤ 2 ^ T * 2 ^ (t + l) * b - 1
    rw [hW2]; linarith
  · show 2 ^ (T + t + l - 1) * b + x2 * c ≤ 2 ^ T * (2 ^ (t + l) * b - 1)
    have : (2 : Int) ^ T * (2 ^ (t + l) * b - 1) = 2 * 2 ^ (T + t + l - 1) * b - 2 ^ T := by
      rw [← hW2]; ring
    rw [this]; exact k2

/-- Where such a remainder comes from: with the OLD shifted point `bb = 2^T·b + θ`, `0 ≤ θ ≤ 2^T`
(`tolerance_lt`), the value `x = b + 1` has `bb − 2^T·x = 0² + x2` with `x2 = θ − 2^T ∈ [−2^T, 0]`
(and `x = a − 1` symmetrically). -/
theorem old_out_of_range_remainder {T : Nat} {b θ : Int} (h0 : 0 ≤ θ) (hθ : θ ≤ 2 ^ T) :
    ∃ x2 : Int, (2 ^ T * b + θ) - 2 ^ T * (b + 1) = 0 ^ 2 + x2 ∧ -(2 ^ T) ≤ x2 ∧ x2 ≤ 0 :=
  ⟨θ - 2 ^ T, by ring, by linarith, by linarith⟩

/-- **F13, concretely**: under the OLD parameters (`θ = tolTheta`, `T = tolT`, bound `b ≥ 1` in
Algorithms 5/6, `l ≥ 1`) the out-of-range value `x = b + 1` has an upper distance
`bb − 2^T·x = 0² + x2` whose remainder `x2` is answered acceptably, with ONE fixed masking value `w`
from the old honest range, for EVERY challenge `0 ≤ c < 2^t`. -/
theorem old_parameters_accept_b_plus_one (hA : ArithOK) {t l : Nat} {a b : Int} (hab : a ≤ b)
    (hb : 1 ≤ b) (hl : 1 ≤ l) :
    let T := tolT t l a b
    ∃ x2 w : Int, (2 ^ T * b + tolTheta t l T a b) - 2 ^ T * (b + 1) = 0 ^ 2 + x2 ∧
      0 ≤ w ∧ w ≤ 2 ^ T * 2 ^ (t + l) * b - 1 ∧
      ∀ c : Int, 0 ≤ c → c < 2 ^ t →
        c * b ≤ w + x2 * c ∧ w + x2 * c ≤ 2 ^ T * (2 ^ (t + l) * b - 1) := by
  intro T
  obtain ⟨x2, hd, h1, h2⟩ := old_out_of_range_remainder (T := T) (b := b)
    (tolTheta_nonneg t l T a b) (ClRange.tolerance_lt hA a b t l hab).le
  have htT : t ≤ T := by show t ≤ tolT t l a b; unfold tolT; omega
  refine ⟨x2, 2 ^ (T + t + l - 1) * b, hd, ?_, ?_, fun c hc0 hct => ?_⟩
  · exact (old_parameters_accept_out_of_range hb (Or.inr ⟨hl, htT⟩) (c := 0) le_rfl
      (by positivity) h1 h2).1.1
  · exact (old_parameters_accept_out_of_range hb (Or.inr ⟨hl, htT⟩) (c := 0) le_rfl
      (by positivity) h1 h2).1.2
  · exact (old_parameters_accept_out_of_range hb (Or.inr ⟨hl, htT⟩) hc0 hct h1 h2).2

/-- With the NEW points a value outside `[a, b]` has a scaled distance `≤ −2^T`, so in ANY
decomposition `q² + x2` of it the remainder is `≤ −2^T`. -/
theorem out_of_range_remainder_le {T : Nat} {b x q x2 : Int} (hx : b < x)
    (hd : 2 ^ T * b - 2 ^ T * x = q ^ 2 + x2) : x2 ≤ -(2 ^ T) := by
  have hp : (0 : Int) < 2 ^ T := by positivity
  have : b + 1 ≤ x := by omega
  have := mul_le_mul_of_nonneg_left this hp.le
  have := sq_nonneg q
  nlinarith

theorem out_of_range_remainder_le' {T : Nat} {a x q x2 : Int} (hx : x < a)
    (hd : 2 ^ T * x - 2 ^ T * a = q ^ 2 + x2) : x2 ≤ -(2 ^ T) := by
  have hp : (0 : Int) < 2 ^ T := by positivity
  have : x + 1 ≤ a := by omega
  have := mul_le_mul_of_nonneg_left this hp.le
  have := sq_nonneg q
  nlinarith

/-- **5a.** With the NEW test `c·b₂ ≤ D1 ≤ 2^(t+l)·b₂ − 1`, a response `D1 = w + x2·c` for a
remainder `x2 ≤ −2^T` is accepted only if the masking value was chosen in the window
`c·(b₂ + 2^T) ≤ w ≤ 2^(t+l)·b₂ − 1 + c·(−x2)` around `−x2·c` (the cheater is free to choose `w`,
but must aim at the challenge). -/
theorem new_parameters_reject_out_of_range {T t l : Nat} {b2 c w x2 : Int} (hc0 : 0 ≤ c)
    (hx2 : x2 ≤ -(2 ^ T))
    (h1 : c * b2 ≤ w + x2 * c) (h2 : w + x2 * c ≤ 2 ^ (t + l) * b2 - 1) :
    c * (b2 + 2 ^ T) ≤ w ∧ w ≤ 2 ^ (t + l) * b2 - 1 + c * (-x2) := by
  have := mul_le_mul_of_nonneg_right hx2 hc0
  constructor <;> nlinarith

/-- **5b. At most one challenge per masking value** (any bound `b₂ ≥ 0` whose tolerance
`2^(t+l)·b₂ − 1` is below `2^T`): a remainder `x2 ≤ −2^T` and one masking value `w` cannot pass the
new test for two different challenges `0 ≤ c < c'`. -/
theorem at_most_one_challenge {T t l : Nat} {b2 c c' w x2 : Int} (hb2 : 0 ≤ b2)
    (htol : 2 ^ (t + l) * b2 - 1 < 2 ^ T) (hc0 : 0 ≤ c) (hcc : c < c') (hx2 : x2 ≤ -(2 ^ T))
    (h1 : c * b2 ≤ w + x2 * c) (h2 : w + x2 * c ≤ 2 ^ (t + l) * b2 - 1)
    (h1' : c' * b2 ≤ w + x2 * c') (h2' : w + x2 * c' ≤ 2 ^ (t + l) * b2 - 1) : False := by
  have hd : 1 ≤ c' - c := by omega
  -- `(c' − c)·(−x2) ≤ 2^(t+l)·b₂ − 1 − c'·b₂`
  have hp : (0 : Int) < 2 ^ T := by positivity
  have h3 : (c' - c) * (-x2) ≤ 2 ^ (t + l) * b2 - 1 - c' * b2 := by linarith
  have h4 : (2 : Int) ^ T ≤ (c' - c) * (-x2) := by
    have := mul_le_mul_of_nonneg_right hd (by linarith : (0 : Int) ≤ -x2)
    linarith
  have h5 : 0 ≤ c' * b2 := mul_nonneg (by omega) hb2
  linarith

/-- 5b for the model's parameters: for every interval `a ≤ b` and every `t l`, an out-of-range
remainder (`x2 ≤ −2^T`, see `out_of_range_remainder_le`) can be answered for at most one challenge
value per masking value, i.e. with probability `≤ 2^(−t)` per attempt in the random-oracle reading
(that reading is not formalised). -/
theorem at_most_one_challenge_model (hA : ArithOK) (t l : Nat) {a b c c' w x2 : Int} (hab : a ≤ b)
    (hc0 : 0 ≤ c) (hcc : c < c') (hx2 : x2 ≤ -(2 ^ tolT t l a b))
    (h1 : c * tolB2 (tolT t l a b) a b ≤ w + x2 * c)
    (h2 : w + x2 * c ≤ 2 ^ (t + l) * tolB2 (tolT t l a b) a b - 1)
    (h1' : c' * tolB2 (tolT t l a b) a b ≤ w + x2 * c')
    (h2' : w + x2 * c' ≤ 2 ^ (t + l) * tolB2 (tolT t l a b) a b - 1) : False :=
  at_most_one_challenge (tolB2_nonneg _ _ _) (remainder_bound_lt_pow hA t l a b hab) hc0 hcc hx2
    h1 h2 h1' h2'

/-- cl1024 (`t = 128`, `l = 40`) and the attribute interval `[0, 2^256 − 1]`: `T = 594`, and the
largest accepted response is below `2^594`. -/
example : tolT 128 40 0 (2 ^ 256 - 1) = 594 := by decide
example (hA : ArithOK) :
    2 ^ (128 + 40) * tolB2 (tolT 128 40 0 (2 ^ 256 - 1)) 0 (2 ^ 256 - 1) - 1
      < 2 ^ tolT 128 40 0 (2 ^ 256 - 1) :=
  remainder_bound_lt_pow hA 128 40 _ _ (by norm_num)

end Zk.C16
