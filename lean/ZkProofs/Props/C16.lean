/-
C16  Boudot range proof (src/cl03/range_proof.rs).

Completeness (every tape on which the prover returns a proof, every `a < b`, every suite):
`tolerance_lt`, `scaled_in_range_iff`, `same_secret_complete`, `square_complete`,
`large_interval_complete`, `tolerance_complete`, `range_complete` (+ `range_complete_nonneg` with
plain congruence hypotheses), `prover_in_range`, `honest_out_of_range(_panics)`.

What the verifier pins down (characterisations, read off the verifier):
`square_bound` (the F8 fix: the square proofs speak about `Ea1`, `Eb1`, and
`g^aa·Ea1·Ea2 ≡ E' ≡ E^(2^T)`, `E'·Eb1·Eb2 ≡ g^bb`), `determined_fields` (`Eprime`, `Ea2`, `Eb2`,
`squareA.E`, `squareB.E` are functions of the other fields: altering one of them alone is
rejected), `transplant` (the sub-proofs of an accepted proof verify only against commitments with
the same `E^(2^T) mod n`), `range_binding` (acceptance under two bound pairs / two bases forces
`g^bb ≡ g'^bb'`, hence equal `bb` or an `OrderRelation`), `same_secret_binding` (same challenge,
altered responses ⇒ `RepCollision ∨ ConcatAmbiguity ∨ ClHashCollision`), `prover_panics_iff`.

"`E` represents `u`" (`Rep n E u`) means `E ≡ u` in `ℤ/n` for a unit `u`; exponents of units are
integers of either sign (the blindings `r_2`, `r_3`, `ν` range over symmetric intervals).
-/
import ZkProofs.Lemmas.ClRange
set_option linter.unusedVariables false
namespace Zk.C16
open Zk.IA Zk.Cl Zk.ClRange

/-! ### 1. the tolerance -/

/-- **θ < 2^T.** With `T = 2(t+l+1) + bitLen(b−a)` and `θ = 2^(l+t+T/2+1)·⌊√(b−a)⌋`. -/
theorem tolerance_lt (hA : ArithOK) (a b : Int) (t l : Nat) (hab : a ≤ b) :
    (2 : Int) ^ (l + t + (2 * (t + l + 1) + bitLen (b - a)) / 2 + 1) * Int.ofNat (isqrt (b - a).toNat)
      < 2 ^ (2 * (t + l + 1) + bitLen (b - a)) :=
  ClRange.tolerance_lt hA a b t l hab

/-- Hence, for integers, `2^T·x` lies in the widened scaled interval exactly when `x ∈ [a, b]`. -/
theorem scaled_in_range_iff {T : Nat} {θ a b x : Int} (h0 : 0 ≤ θ) (hlt : θ < 2 ^ T) :
    (2 ^ T * a - θ ≤ 2 ^ T * x ↔ a ≤ x) ∧ (2 ^ T * x ≤ 2 ^ T * b + θ ↔ x ≤ b) :=
  ClRange.scaled_in_range_iff h0 hlt

/-! ### 2. sub-protocol completeness -/

/-- **Algorithms 1/2.** If `E ≡ g1^x·h1^r1` and `F ≡ g2^x·h2^r2` (bases units mod `n`), every proof
returned by `proof_same_secret` is accepted by `verify_same_secret`. -/
theorem same_secret_complete (hA : ArithOK) {n : Int} (hn : 1 < n)
    {g1 h1 g2 h2 E F x r1 r2 : Int} {u1 v1 u2 v2 : (ZMod n.toNat)ˣ}
    (hg1 : Rep n g1 u1) (hh1 : Rep n h1 v1) (hg2 : Rep n g2 u2) (hh2 : Rep n h2 v2)
    (hE : Rep n E (u1 ^ x * v1 ^ r1)) (hF : Rep n F (u2 ^ x * v2 ^ r2))
    {l t : Nat} {b : Int} {s1 s2 : Nat} {tp tp' : List Draw} {π : ProofSs}
    (h : proofSameSecret x r1 r2 g1 h1 g2 h2 l t b s1 s2 n tp = .ok (π, tp')) (tq : List Draw) :
    verifySameSecret E F g1 h1 g2 h2 n π tq = .ok (true, tq) :=
  ClRange.same_secret_complete hA hn hg1 hh1 hg2 hh2 hE hF h tq

/-- **Algorithms 3/4.** `E ≡ g^(x²)·h^r1`. -/
theorem square_complete (hA : ArithOK) {n : Int} (hn : 1 < n) {g h E x r1 : Int}
    {u v : (ZMod n.toNat)ˣ} (hg : Rep n g u) (hh : Rep n h v) (hE : Rep n E (u ^ (x ^ 2) * v ^ r1))
    {l t : Nat} {b : Int} {s s1 s2 : Nat} {tp tp' : List Draw} {π : ProofOfS}
    (hp : proofOfSquare x r1 g h E l t b s s1 s2 n tp = .ok (π, tp')) (tq : List Draw) :
    verifyOfSquare π g h n tq = .ok (true, tq) ∧ π.E = E :=
  ClRange.square_complete hA hn hg hh hE hp tq

/-- **Algorithms 5/6.** The rejection loop exits only when `c·b ≤ D1 ≤ 2^T(2^(t+l)·b − 1)`, which
is the verifier's bound (F11 fixed). -/
theorem large_interval_complete (hA : ArithOK) {n : Int} (hn : 1 < n) {g h E x r : Int}
    {u v : (ZMod n.toNat)ˣ} (hg : Rep n g u) (hh : Rep n h v) (hE : Rep n E (u ^ x * v ^ r))
    {t l : Nat} {b : Int} {s T : Nat} {tp tp' : List Draw} {π : ProofLi}
    (hp : proofLargeIntervalSpecific x r g h t l b s n T tp = .ok (π, tp')) (tq : List Draw) :
    verifyLargeIntervalSpecific π E g h n t l b T tq = .ok (true, tq) :=
  ClRange.large_interval_complete hA hn hg hh hE hp tq

/-- **Algorithms 7/8.** -/
theorem tolerance_complete (hA : ArithOK) {n : Int} (hn : 1 < n) {g h E x r a b : Int}
    {u v : (ZMod n.toNat)ˣ} (hg : Rep n g u) (hh : Rep n h v) (hE : Rep n E (u ^ x * v ^ r))
    (hE0 : 0 ≤ E) {t l s s1 s2 T : Nat} {tp tp' : List Draw} {π : ProofWt}
    (hp : proofOfToleranceSpecific x r g h n a b t l s s1 s2 T tp = .ok (π, tp')) (tq : List Draw) :
    verifyOfToleranceSpecific π g h E n a b t l T tq = .ok (true, tq) :=
  ClRange.tolerance_complete hA hn hg hh hE hE0 hp tq

/-! ### 3. completeness of the whole proof -/

/-- **Range-proof completeness.** Bases units mod `n > 1`, `c.value ≡ g^x·h^r`: every proof the
prover returns — on any tape, for any bounds and suite — verifies against the same commitment,
bases, modulus and bounds, and carries the commitment it was made for. (That the prover returns a
proof at all forces `a < b` and `a ≤ x ≤ b`: `prover_in_range`.) -/
theorem range_complete (hA : ArithOK) (cs : Suite) {n : Int} (hn : 1 < n) {g h x a b : Int}
    {c : Commitment} {u v : (ZMod n.toNat)ˣ} (hg : Rep n g u) (hh : Rep n h v)
    (hc : Rep n c.value (u ^ x * v ^ c.randomness)) {tp tp' : List Draw} {π : RangeProof}
    (hp : rangeProve cs x c g h n a b tp = .ok (π, tp')) (tq : List Draw) :
    rangeVerify cs π g h n a b tq = .ok (true, tq) ∧ π.E = c.value :=
  ClRange.range_complete hA cs hn hg hh hc hp tq

/-- The same with plain hypotheses, for non-negative value and opening (all the library's uses:
attributes, `e`, and `random_bits` openings are non-negative). -/
theorem range_complete_nonneg (hA : ArithOK) (cs : Suite) {n : Int} (hn : 1 < n) {g h x a b : Int}
    {c : Commitment} (hg : Int.gcd g n = 1) (hh : Int.gcd h n = 1) (hx : 0 ≤ x)
    (hr : 0 ≤ c.randomness)
    (hc : c.value % n = g ^ x.toNat * h ^ c.randomness.toNat % n) {tp tp' : List Draw}
    {π : RangeProof} (hp : rangeProve cs x c g h n a b tp = .ok (π, tp')) :
    rangeVerify cs π g h n a b [] = .ok (true, []) ∧ π.E = c.value := by
  obtain ⟨u, hu⟩ := rep_of_gcd hn hg
  obtain ⟨v, hv⟩ := rep_of_gcd hn hh
  refine ClRange.range_complete hA cs hn hu hv ?_ hp []
  rw [zpow_toNat u hx, zpow_toNat v hr]
  exact Rep.of_emod_eq hn ((hu.pow _).mul (hv.pow _)) hc

/-- the hypotheses of `range_complete_nonneg` are satisfiable -/
example : (1 : Int) < 35 ∧ Int.gcd 2 35 = 1 ∧ Int.gcd 3 35 = 1 ∧
    (24 : Int) % 35 = 2 ^ (3 : Int).toNat * 3 ^ (1 : Int).toNat % 35 := by decide

/-! ### 4. the honest prover outside the interval -/

/-- If the honest prover returns a proof then `a < b` and the value is in `[a, b]`. -/
theorem prover_in_range (hA : ArithOK) (cs : Suite) {n g h x a b : Int} {c : Commitment}
    {tp tp' : List Draw} {π : RangeProof}
    (hp : rangeProve cs x c g h n a b tp = .ok (π, tp')) : a < b ∧ a ≤ x ∧ x ≤ b :=
  ClRange.prover_in_range hA cs hp

/-- For ANY integer outside `[a, b]` (not just far outside: the tolerance `θ` is below `2^T`)
the honest prover returns no proof, whatever the tape. -/
theorem honest_out_of_range (hA : ArithOK) (cs : Suite) {n g h x a b : Int} {c : Commitment}
    (hx : x < a ∨ b < x) (tp : List Draw) (r : RangeProof × List Draw) :
    rangeProve cs x c g h n a b tp ≠ .ok r :=
  ClRange.honest_out_of_range hA cs hx tp r

/-- Precisely: it panics (`Integer::sqrt` of a negative number) before reading the tape. -/
theorem honest_out_of_range_panics (hA : ArithOK) (cs : Suite) {n g h x a b : Int} {c : Commitment}
    (hn : 0 < n) (hab : a < b) (hx : x < a ∨ b < x) (tp : List Draw) :
    rangeProve cs x c g h n a b tp = .panic :=
  ClRange.honest_out_of_range_panics hA cs hn hab hx tp


/-- For a value inside `[a, b]` the honest prover never panics … -/
theorem prover_in_range_ne_panic (hA : ArithOK) (cs : Suite) {n : Int} (hn : 1 < n) {g h x a b : Int}
    (hg : Int.gcd g n = 1) (hh : Int.gcd h n = 1) (c : Commitment) (hab : a < b)
    (hax : a ≤ x) (hxb : x ≤ b) (tp : List Draw) : rangeProve cs x c g h n a b tp ≠ .panic := by
  obtain ⟨u, hu⟩ := rep_of_gcd hn hg
  obtain ⟨v, hv⟩ := rep_of_gcd hn hh
  exact rangeProve_ne_panic hA cs hn hu hv c hab hax hxb tp

/-- … so, for `a < b` and unit bases, it panics exactly when the value is outside `[a, b]`
(both endpoints are inside; every interval width). -/
theorem prover_panics_iff (hA : ArithOK) (cs : Suite) {n : Int} (hn : 1 < n) {g h x a b : Int}
    (hg : Int.gcd g n = 1) (hh : Int.gcd h n = 1) (c : Commitment) (hab : a < b) (tp : List Draw) :
    rangeProve cs x c g h n a b tp = .panic ↔ (x < a ∨ b < x) := by
  constructor
  · intro hp
    by_contra hc
    exact prover_in_range_ne_panic hA cs hn hg hh c hab (by omega) (by omega) tp hp
  · exact fun hx => honest_out_of_range_panics hA cs (by omega) hab hx tp

/-- Completeness for the commitments the library itself range-proves in `proof_gen`
(`commit_with_commitment_pk` on one attribute, bases `g_i`, `h`). -/
theorem range_complete_commit (hA : ArithOK) (cs : Suite) {cpk : CommitmentPK} (hn : 1 < cpk.N)
    {msgs : List Int} {i : Nat} {mi gi a b : Int} (hgi : cpk.gBases[i]? = some gi)
    (hm : msgs[i]? = some mi) (hg : Int.gcd gi cpk.N = 1) (hh : Int.gcd cpk.h cpk.N = 1)
    {cmi : Commitment} {t0 t1 tp tp' : List Draw}
    (hcm : commitWithCpk cs msgs cpk (some [i]) t0 = .ok (cmi, t1)) {π : RangeProof}
    (hp : rangeProve cs mi cmi gi cpk.h cpk.N a b tp = .ok (π, tp')) :
    rangeVerify cs π gi cpk.h cpk.N a b [] = .ok (true, []) ∧ π.E = cmi.value := by
  obtain ⟨u, hu⟩ := rep_of_gcd hn hg
  obtain ⟨v, hv⟩ := rep_of_gcd hn hh
  obtain ⟨hc, -, -⟩ := commitWithCpk_single hA hn rfl hgi hm hu hv hcm
  exact ClRange.range_complete hA cs hn hu hv hc hp []

/-- … and in `ZKPoK::generate_proof` (`commit_with_pk` on one attribute, bases `a_i`, `b`). -/
theorem range_complete_commit_pk (hA : ArithOK) (cs : Suite) {pk : PublicKey} (hn : 1 < pk.N)
    {msgs bases : List Int} {i : Nat} {mi ai a b : Int} (hai : bases[i]? = some ai)
    (hm : msgs[i]? = some mi) (hg : Int.gcd ai pk.N = 1) (hh : Int.gcd pk.b pk.N = 1)
    {cmi : Commitment} {t0 t1 tp tp' : List Draw}
    (hcm : commitWithPk cs msgs pk bases (some [i]) t0 = .ok (cmi, t1)) {π : RangeProof}
    (hp : rangeProve cs mi cmi ai pk.b pk.N a b tp = .ok (π, tp')) :
    rangeVerify cs π ai pk.b pk.N a b [] = .ok (true, []) ∧ π.E = cmi.value := by
  obtain ⟨u, hu⟩ := rep_of_gcd hn hg
  obtain ⟨v, hv⟩ := rep_of_gcd hn hh
  obtain ⟨hc, -, -⟩ := commitWithPk_single hA hn rfl hai hm hu hv hcm
  exact ClRange.range_complete hA cs hn hu hv hc hp []

/-! ### 5. what an accepted proof is bound to -/

/-- **The F8 fix, as a statement.** An accepted range proof satisfies: `Eprime = E^(2^T) mod n`;
the two square proofs are about `Ea1` and `Eb1` (`squareA.E = Ea1`, `squareB.E = Eb1`) and verify;
the two interval proofs verify against `Ea2`, `Eb2`; and the four commitments decompose the
verified commitment: `g^aa·Ea1·Ea2 ≡ Eprime` and `Eprime·Eb1·Eb2 ≡ g^bb (mod n)`. -/
theorem square_bound (hA : ArithOK) {cs : Suite} {π : RangeProof} {g h n a b : Int} (hn : 1 < n)
    {tq tq' : List Draw} (hv : rangeVerify cs π g h n a b tq = .ok (true, tq')) :
    let T := rangeT cs a b
    a < b ∧ π.Eprime = π.E ^ (2 ^ T) % n ∧
    π.tol.squareA.E = π.tol.Ea1 ∧ π.tol.squareB.E = π.tol.Eb1 ∧
    verifyOfSquare π.tol.squareA g h n tq = .ok (true, tq) ∧
    verifyOfSquare π.tol.squareB g h n tq = .ok (true, tq) ∧
    verifyLargeIntervalSpecific π.tol.largeA π.tol.Ea2 g h n cs.t cs.l b T tq = .ok (true, tq) ∧
    verifyLargeIntervalSpecific π.tol.largeB π.tol.Eb2 g h n cs.t cs.l b T tq = .ok (true, tq) ∧
    ∃ gaa gbb : Int,
      powMod g (2 ^ T * a - tolTheta cs.t cs.l T a b) n = some gaa ∧
      powMod g (2 ^ T * b + tolTheta cs.t cs.l T a b) n = some gbb ∧
      gaa * π.tol.Ea1 * π.tol.Ea2 ≡ π.Eprime [ZMOD n] ∧
      π.Eprime * π.tol.Eb1 * π.tol.Eb2 ≡ gbb [ZMOD n] := by
  intro T
  obtain ⟨hab, rfl, hE', htol⟩ := range_accept_inv hA (by omega) hv
  obtain ⟨-, -, gaa, Ea, gbb, Eb, h1, h2, h3, h4, h5, h6, c3, c4, v1, v2, v3, v4⟩ :=
    tolerance_accept_inv htol
  refine ⟨hab, hE', c3, c4, v1, v2, v3, v4, gaa, gbb, (pw_ok_iff.mp h1).1, (pw_ok_iff.mp h3).1, ?_, ?_⟩
  · have e1 := divm_spec hA hn h2
    have e2 := divm_spec hA hn h5
    calc gaa * π.tol.Ea1 * π.tol.Ea2 = gaa * (π.tol.Ea1 * π.tol.Ea2) := by ring
      _ ≡ gaa * Ea [ZMOD n] := e2.mul_left _
      _ ≡ π.Eprime [ZMOD n] := e1
  · have e1 := divm_spec hA hn h4
    have e2 := divm_spec hA hn h6
    calc π.Eprime * π.tol.Eb1 * π.tol.Eb2 = π.Eprime * (π.tol.Eb1 * π.tol.Eb2) := by ring
      _ ≡ π.Eprime * Eb [ZMOD n] := e2.mul_left _
      _ ≡ gbb [ZMOD n] := e1

/-- **Altered fields.** Two accepted proofs (same bases, modulus, bounds) that agree on `E`, `Ea1`
and `Eb1` agree on `Eprime`, `Ea2`, `Eb2`, `squareA.E`, `squareB.E`: each of these five fields is a
function of the others, so a proof in which one of them alone was altered is rejected. -/
theorem determined_fields (hA : ArithOK) {cs : Suite} {π π' : RangeProof} {g h n a b : Int}
    (hn : 0 < n) {tq tq' tq'' : List Draw}
    (hv : rangeVerify cs π g h n a b tq = .ok (true, tq'))
    (hv' : rangeVerify cs π' g h n a b tq = .ok (true, tq''))
    (hE : π.E = π'.E) (h1 : π.tol.Ea1 = π'.tol.Ea1) (h2 : π.tol.Eb1 = π'.tol.Eb1) :
    π.Eprime = π'.Eprime ∧ π.tol.Ea2 = π'.tol.Ea2 ∧ π.tol.Eb2 = π'.tol.Eb2 ∧
    π.tol.squareA.E = π'.tol.squareA.E ∧ π.tol.squareB.E = π'.tol.squareB.E := by
  obtain ⟨-, rfl, hE1, htol⟩ := range_accept_inv hA hn hv
  obtain ⟨-, rfl, hE2, htol'⟩ := range_accept_inv hA hn hv'
  have hEp : π.Eprime = π'.Eprime := by rw [hE1, hE2, hE]
  obtain ⟨-, -, gaa, Ea, gbb, Eb, p1, p2, p3, p4, p5, p6, c3, c4, -⟩ := tolerance_accept_inv htol
  obtain ⟨-, -, gaa', Ea', gbb', Eb', q1, q2, q3, q4, q5, q6, d3, d4, -⟩ :=
    tolerance_accept_inv htol'
  rw [p1] at q1
  obtain rfl : gaa = gaa' := by injection q1 with q1; injection q1
  rw [p3] at q3
  obtain rfl : gbb = gbb' := by injection q3 with q3; injection q3
  rw [← hEp, p2] at q2
  obtain rfl : Ea = Ea' := by injection q2 with q2; injection q2
  rw [← hEp, p4] at q4
  obtain rfl : Eb = Eb' := by injection q4 with q4; injection q4
  rw [← h1, p5] at q5
  rw [← h2, p6] at q6
  refine ⟨hEp, ?_, ?_, by rw [c3, d3, h1], by rw [c4, d4, h2]⟩
  · injection q5 with q5; injection q5
  · injection q6 with q6; injection q6

/-- A proof whose `Eprime` alone was altered is rejected. -/
theorem altered_Eprime_rejected (hA : ArithOK) {cs : Suite} {π : RangeProof} {g h n a b : Int}
    (hn : 0 < n) {tq tq' : List Draw} (hv : rangeVerify cs π g h n a b tq = .ok (true, tq'))
    (e' : Int) (he : e' ≠ π.Eprime) (tq'' : List Draw) :
    rangeVerify cs { π with Eprime := e' } g h n a b tq ≠ .ok (true, tq'') := by
  intro hv'
  exact he (determined_fields hA hn hv hv' rfl rfl rfl).1.symm

/-- **Transplanting.** If the tolerance part (`Ea1 … largeB`) of an accepted proof is also accepted
under another commitment `E₂` (same bases, modulus, bounds), then `E₂^(2^T) ≡ E₁^(2^T) (mod n)`:
the sub-proofs of an honest proof verify only for commitments that agree with the original one up
to an element of order dividing `2^T` — not for a commitment to a different (e.g. out-of-range)
value, unless the forger knows such a relation. -/
theorem transplant (hA : ArithOK) {cs : Suite} {π π' : RangeProof} {g h n a b : Int} (hn : 1 < n)
    {tq tq' tq'' : List Draw}
    (hv : rangeVerify cs π g h n a b tq = .ok (true, tq'))
    (hv' : rangeVerify cs π' g h n a b tq = .ok (true, tq''))
    (htol : π.tol = π'.tol) :
    π.Eprime = π'.Eprime ∧ π.E ^ (2 ^ rangeT cs a b) % n = π'.E ^ (2 ^ rangeT cs a b) % n := by
  obtain ⟨-, h1, -, -, -, -, -, -, gaa, gbb, p1, p2, e1, -⟩ := square_bound hA hn hv
  obtain ⟨-, h1', -, -, -, -, -, -, gaa', gbb', q1, q2, e1', -⟩ := square_bound hA hn hv'
  rw [p1] at q1
  obtain rfl : gaa = gaa' := by injection q1
  rw [← htol] at e1'
  have hmod : π.Eprime ≡ π'.Eprime [ZMOD n] := e1.symm.trans e1'
  have hEq : π.Eprime = π'.Eprime := by
    unfold Int.ModEq at hmod
    rw [h1, h1', Int.emod_emod_of_dvd _ (dvd_refl n), Int.emod_emod_of_dvd _ (dvd_refl n)] at hmod
    rw [h1, h1']; exact hmod
  exact ⟨hEq, by rw [← h1, ← h1', hEq]⟩

/-! ### 6. other bounds / other bases -/

/-- **Binding to bounds and first base.** If the same proof is accepted under `(g, h, a, b)` and
under `(g', h', a', b')` (same modulus), then `g^bb ≡ g'^bb' (mod n)` where
`bb = 2^T·b + θ`, `bb' = 2^T'·b' + θ'` are the scaled upper bounds. -/
theorem range_binding (hA : ArithOK) {cs : Suite} {π : RangeProof} {g h g' h' n a b a' b' : Int}
    (hn : 1 < n) {tq tq' tq'' : List Draw}
    (hv : rangeVerify cs π g h n a b tq = .ok (true, tq'))
    (hv' : rangeVerify cs π g' h' n a' b' tq = .ok (true, tq'')) :
    ∃ y : Int,
      powMod g (2 ^ rangeT cs a b * b + tolTheta cs.t cs.l (rangeT cs a b) a b) n = some y ∧
      powMod g' (2 ^ rangeT cs a' b' * b' + tolTheta cs.t cs.l (rangeT cs a' b') a' b') n = some y ∧
      π.E ^ (2 ^ rangeT cs a b) % n = π.E ^ (2 ^ rangeT cs a' b') % n := by
  obtain ⟨-, h1, -, -, -, -, -, -, gaa, gbb, p1, p2, -, e2⟩ := square_bound hA hn hv
  obtain ⟨-, h1', -, -, -, -, -, -, gaa', gbb', q1, q2, -, e2'⟩ := square_bound hA hn hv'
  have hmod : gbb ≡ gbb' [ZMOD n] := e2.symm.trans e2'
  have r1 : 0 ≤ gbb ∧ gbb < n := by
    by_cases he : 0 ≤ 2 ^ rangeT cs a b * b + tolTheta cs.t cs.l (rangeT cs a b) a b
    · rw [hA.powMod_nonneg _ _ _ (by omega) he] at p2
      injection p2 with p2; rw [← p2]
      exact ⟨Int.emod_nonneg _ (by omega), Int.emod_lt_of_pos _ (by omega)⟩
    · rw [hA.powMod_neg _ _ _ (by omega) (by omega)] at p2
      cases hi : invMod g n with
      | none => rw [hi] at p2; cases p2
      | some gi =>
        rw [hi] at p2; injection p2 with p2; rw [← p2]
        exact ⟨Int.emod_nonneg _ (by omega), Int.emod_lt_of_pos _ (by omega)⟩
  have r2 : 0 ≤ gbb' ∧ gbb' < n := by
    by_cases he : 0 ≤ 2 ^ rangeT cs a' b' * b' + tolTheta cs.t cs.l (rangeT cs a' b') a' b'
    · rw [hA.powMod_nonneg _ _ _ (by omega) he] at q2
      injection q2 with q2; rw [← q2]
      exact ⟨Int.emod_nonneg _ (by omega), Int.emod_lt_of_pos _ (by omega)⟩
    · rw [hA.powMod_neg _ _ _ (by omega) (by omega)] at q2
      cases hi : invMod g' n with
      | none => rw [hi] at q2; cases q2
      | some gi =>
        rw [hi] at q2; injection q2 with q2; rw [← q2]
        exact ⟨Int.emod_nonneg _ (by omega), Int.emod_lt_of_pos _ (by omega)⟩
  have : gbb = gbb' := by
    unfold Int.ModEq at hmod
    rwa [Int.emod_eq_of_lt r1.1 r1.2, Int.emod_eq_of_lt r2.1 r2.2] at hmod
  subst this
  exact ⟨gbb, p2, q2, by rw [← h1, ← h1']⟩

/-- With the same unit base `g`: two bound pairs with different scaled upper bounds `bb ≠ bb'`
under which one proof is accepted yield a multiple of the order of `g` (an `OrderRelation`). -/
theorem range_binding_bounds (hA : ArithOK) {cs : Suite} {π : RangeProof} {g h h' n a b a' b' : Int}
    (hn : 1 < n) (hg : Int.gcd g n = 1) {tq tq' tq'' : List Draw}
    (hv : rangeVerify cs π g h n a b tq = .ok (true, tq'))
    (hv' : rangeVerify cs π g h' n a' b' tq = .ok (true, tq'')) :
    2 ^ rangeT cs a b * b + tolTheta cs.t cs.l (rangeT cs a b) a b
      = 2 ^ rangeT cs a' b' * b' + tolTheta cs.t cs.l (rangeT cs a' b') a' b' ∨
    OrderRelation n g := by
  obtain ⟨y, p, q, -⟩ := range_binding hA hn hv hv'
  set bb := 2 ^ rangeT cs a b * b + tolTheta cs.t cs.l (rangeT cs a b) a b
  set bb' := 2 ^ rangeT cs a' b' * b' + tolTheta cs.t cs.l (rangeT cs a' b') a' b'
  by_cases hbb : bb = bb'
  · exact Or.inl hbb
  refine Or.inr ?_
  obtain ⟨u, hu⟩ := rep_of_gcd hn hg
  obtain ⟨y1, e1, r1, -⟩ := powMod_rep hA hn hu bb
  obtain ⟨y2, e2, r2, -⟩ := powMod_rep hA hn hu bb'
  rw [p] at e1; rw [q] at e2
  injection e1 with e1; injection e2 with e2
  subst e1; subst e2
  have huu : u ^ bb = u ^ bb' := by
    apply Units.ext
    unfold Rep at r1 r2
    rw [← r1, ← r2]
  have key : ∀ d : Int, 0 < d → u ^ d = 1 → OrderRelation n g := by
    intro d hd h1
    refine ⟨d.toNat, by omega, ?_⟩
    have hr := hu.pow d.toNat
    rw [← zpow_toNat u hd.le, h1] at hr
    unfold Rep at hr
    have := (ZMod.intCast_eq_intCast_iff' (g ^ d.toNat) 1 n.toNat).mp (by simpa using hr)
    rwa [natCast_toNat hn] at this
  rcases lt_or_gt_of_ne hbb with hlt | hgt
  · exact key (bb' - bb) (by omega) (by rw [zpow_sub, huu, mul_inv_cancel])
  · exact key (bb - bb') (by omega) (by rw [zpow_sub, huu, mul_inv_cancel])

/-- **Altered responses of a sub-proof.** Two `proof_same_secret` proofs accepted for the same
statement (unit bases, unit `E`, `F`) and carrying the same challenge are equal, or exhibit a
non-trivial relation between the bases, or a hash event (decimal concatenation ambiguity or a
SHA-256 collision). (A proof with an altered challenge is a different Fiat–Shamir transcript; that
it is rejected is a random-oracle statement, tested, not proven.) -/
theorem same_secret_binding (hA : ArithOK) {n : Int} (hn : 1 < n)
    {g1 h1 g2 h2 E F : Int} (hg1 : Int.gcd g1 n = 1) (hh1 : Int.gcd h1 n = 1)
    (hg2 : Int.gcd g2 n = 1) (hh2 : Int.gcd h2 n = 1) (hE : Int.gcd E n = 1) (hF : Int.gcd F n = 1)
    {π π' : ProofSs} {tq tq' tq'' : List Draw}
    (hv : verifySameSecret E F g1 h1 g2 h2 n π tq = .ok (true, tq'))
    (hv' : verifySameSecret E F g1 h1 g2 h2 n π' tq = .ok (true, tq''))
    (hc : π'.challenge = π.challenge) :
    π' = π ∨ RepCollision n [g1, h1] ∨ RepCollision n [g2, h2] ∨ ConcatAmbiguity ∨
      ClHashCollision := by
  obtain ⟨u1, hu1⟩ := rep_of_gcd hn hg1
  obtain ⟨v1, hv1⟩ := rep_of_gcd hn hh1
  obtain ⟨u2, hu2⟩ := rep_of_gcd hn hg2
  obtain ⟨v2, hv2⟩ := rep_of_gcd hn hh2
  obtain ⟨e, he⟩ := rep_of_gcd hn hE
  obtain ⟨f, hf⟩ := rep_of_gcd hn hF
  exact ClRange.same_secret_binding hA hn hu1 hv1 hu2 hv2 he hf hv hv' hc

end Zk.C16
