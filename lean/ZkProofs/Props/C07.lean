/-
C07  Fresh blinding — the algebraic part.

"Every proof, commitment, blinding factor … is produced with fresh independent randomness: … no
pair of transcripts allows the standard two-transcript extraction of a hidden message, of the
signature exponent or of the blinding factor."

Whether the production RNG is fresh is a runtime matter (monitored by the harness, record
mode).  What is proved here, about the model functions `proofInit`, `proofFinalize`,
`coreProofGen`, `coreCommit` with the random scalars given as an explicit `tape`:

* `tape_roles_*`: the proof reads exactly the first `5 + U` tape entries, the commitment exactly
  the first `M + 2`, and `proofInit_roles` / `coreCommit_roles` show the single role of each.
* `blindings_recoverable*`: from a transcript and the witness the blindings are
  `ẽ = ê − e·c`, `r̃1 = r̂1 + r1·c`, `r̃3 = r̂3 + r2⁻¹·c`, `m̃_j = m̂_j − m_j·c`,
  `s̃ = ŝ − blind·c` (what the harness recomputes).
* `two_transcript_extraction_*`: two transcripts that REUSE a blinding under different challenges
  reveal the secret behind it (why reuse is fatal).
* `proof_injective_in_tape`, `commit_injective_in_tape`: for fixed inputs, equal outputs force
  equal tapes — a repeated proof/commitment means repeated randomness (coordinate lemmas:
  `D ↔ r2`, `Abar ↔ r1·r2`, `ê ↔ ẽ`, …).
* `commit_hiding`, `commit_witness_indistinguishable`: Pedersen perfect hiding in a cyclic
  group (`J_i = a_i • Q2`): a bijection of the blind (of the whole tape) makes the commitment
  (the whole commitment-with-proof) for any other message vector identical.

Arbitrary field of scalars, arbitrary module `G1`, arbitrary hash functions, all lengths.
-/
import Mathlib.Algebra.BigOperators.Group.List.Basic
import ZkProofs.Lemmas.Sig
set_option linter.unusedSectionVars false
set_option linter.unusedVariables false
set_option linter.unusedSimpArgs false
namespace Zk.C07
open Zk Res

variable {S G1 G2 GT : Type} [Field S] [DecidableEq S]
variable [AddCommGroup G1] [Module S G1] [DecidableEq G1]
variable [AddCommGroup G2] [Module S G2] [DecidableEq G2]
variable [AddCommGroup GT] [Module S GT]
variable {env : Env S G1 G2} {pair : G1 →ₗ[S] G2 →ₗ[S] GT}

/-! ### unfolding the model functions -/

/-- **Roles of the tape in `proof_init`.** A successful `proofInit` read a tape of exactly
`5 + U` scalars `r1, r2, ẽ, r̃1, r̃3, m̃_1 … m̃_U`, each used in exactly one place. -/
theorem proofInit_roles (cs : Suite G1) (pk : G2) (σ : Signature S G1) (gens : Generators G1)
    (rs : List S) (header : Option Bytes) (msgs : List S) (und : List Nat) (apiId : Option Bytes)
    (init : ProofInitResult S G1)
    (h : proofInit env cs pk σ gens rs header msgs und apiId = .ok init) :
    ∃ Q1 Hs r1 r2 eT r1T r3T mT d,
      gens.values = Q1 :: Hs ∧ Hs.length = msgs.length ∧
      rs = r1 :: r2 :: eT :: r1T :: r3T :: mT ∧ mT.length = und.length ∧
      calculateDomain env cs pk Q1 Hs header apiId = .ok d ∧ init.domain = d ∧
      init.D = r2 • calcB gens.base Q1 d Hs msgs ∧
      init.Abar = (r1 * r2) • σ.A ∧
      init.Bbar = r1 • init.D - σ.e • init.Abar ∧
      init.T1 = eT • init.Abar + r1T • init.D ∧
      sumIndexed Hs (r3T • init.D) und mT = .ok init.T2 := by
  unfold proofInit at h
  dsimp only at h
  split at h
  · cases h
  · rename_i hlen
    split at h
    · cases h
    · rename_i hg
      have hlen' : rs.length = 5 + und.length := by simpa using hlen
      rcases rs with _ | ⟨r1, _ | ⟨r2, _ | ⟨eT, _ | ⟨r1T, _ | ⟨r3T, mT⟩⟩⟩⟩⟩
      · simp at hlen'; omega
      · simp at hlen'; omega
      · simp at hlen'; omega
      · simp at hlen'; omega
      · simp at hlen'; omega
      cases hv : gens.values with
      | nil => rw [hv] at hg; simp at hg
      | cons Q1 Hs =>
        rw [hv] at h hg
        simp only at h
        cases hd : calculateDomain env cs pk Q1 Hs header apiId with
        | err => rw [hd] at h; cases h
        | panic => rw [hd] at h; cases h
        | ok d =>
          rw [hd] at h; simp only at h
          cases hs : sumIndexed Hs (r3T • r2 • calcB gens.base Q1 d Hs msgs) und mT with
          | err => rw [hs] at h; cases h
          | panic => rw [hs] at h; cases h
          | ok T2 =>
            rw [hs] at h; cases h
            exact ⟨Q1, Hs, r1, r2, eT, r1T, r3T, mT, d, rfl, by simpa using hg, rfl,
              by simp at hlen'; omega, hd, rfl, rfl, rfl, rfl, rfl, hs⟩

/-- A successful `proofFinalize`, unfolded. -/
theorem proofFinalize_roles (hl : Lawful env pair) (init : ProofInitResult S G1) (c e : S)
    (rs ums : List S) (π : PoKSignature S G1) (h : proofFinalize env init c e rs ums = .ok π) :
    ∃ r1 r2 eT r1T r3T mT, rs = r1 :: r2 :: eT :: r1T :: r3T :: mT ∧ ums.length ≤ mT.length ∧
      r2 ≠ 0 ∧
      π = ⟨init.Abar, init.Bbar, init.D, eT + e * c, r1T - r1 * c, r3T - r2⁻¹ * c,
        (mT.zip ums).map (fun tm => tm.1 + tm.2 * c), c⟩ := by
  unfold proofFinalize at h
  rcases rs with _ | ⟨r1, _ | ⟨r2, _ | ⟨eT, _ | ⟨r1T, _ | ⟨r3T, mT⟩⟩⟩⟩⟩
  · cases h
  · cases h
  · cases h
  · cases h
  · cases h
  simp only at h
  split at h
  · cases h
  · rename_i hlen
    by_cases hr : r2 = 0
    · rw [hr, hl.sInv_zero] at h; cases h
    · rw [hl.sInv_ne _ hr] at h
      cases h
      exact ⟨r1, r2, eT, r1T, r3T, mT, rfl, by omega, hr, rfl⟩

/-- `sumZip` unfolded. -/
theorem sumZip_eq (acc : G1) (Js : List G1) (scal : List S) :
    sumZip acc Js scal = acc + ((Js.zip scal).map fun js => js.2 • js.1).sum := by
  unfold sumZip
  induction Js.zip scal generalizing acc with
  | nil => simp
  | cons a l ih => simp only [List.foldl_cons, List.map_cons, List.sum_cons]; rw [ih, add_assoc]

/-- **Roles of the tape in `core_commit`.** A successful `coreCommit` used exactly the first
`M + 2` tape entries `blind, s̃, m̃_1 … m̃_M`, each in one role. -/
theorem coreCommit_roles (cs : Suite G1) (blindGens : List G1) (cms : List S)
    (apiId : Option Bytes) (tape : List S) (com : Commitment S G1) (blind : S)
    (h : coreCommit env cs blindGens (some cms) apiId tape = .ok (com, blind)) :
    ∃ Q2 Js sT mT c, blindGens = Q2 :: Js ∧ Js.length = cms.length ∧
      tape.take (cms.length + 2) = blind :: sT :: mT ∧ mT.length = cms.length ∧
      com.commitment = sumZip (blind • Q2) Js cms ∧
      calculateBlindChallenge env cs com.commitment (sumZip (sT • Q2) Js mT) blindGens
        (some (apiId.getD [])) = .ok c ∧
      com.proof = ⟨sT + blind * c, (mT.zip cms).map (fun tm => tm.1 + tm.2 * c), c⟩ := by
  unfold coreCommit at h
  simp only [Option.getD_some] at h
  split at h
  · cases h
  · rename_i hlen
    have htl : (tape.take (cms.length + 2)).length ≤ cms.length + 2 := by
      rw [List.length_take]; omega
    cases hb : blindGens with
    | nil => rw [hb] at hlen; simp at hlen
    | cons Q2 Js =>
      rw [hb] at h hlen
      rcases ht : tape.take (cms.length + 2) with _ | ⟨b, _ | ⟨sT, mT⟩⟩
      · rw [ht] at h; cases h
      · rw [ht] at h; cases h
      rw [ht] at h htl
      simp only at h
      split at h
      · cases h
      · rename_i hm
        cases hc : calculateBlindChallenge env cs (sumZip (b • Q2) Js cms)
            (sumZip (sT • Q2) Js mT) (Q2 :: Js) (some (apiId.getD [])) with
        | err => rw [hc] at h; cases h
        | panic => rw [hc] at h; cases h
        | ok c =>
          rw [hc] at h; simp only at h
          cases h
          refine ⟨Q2, Js, sT, mT, c, rfl, by simpa using hlen, rfl, ?_, rfl, hc, rfl⟩
          simp at htl; omega

/-! ### `tape_roles`: how much of the tape is read -/

/-- `core_proof_gen` depends only on the first `5 + U` tape entries
(`U = L − |dedup(disclosed)|`). -/
theorem tape_roles_proof (cs : Suite G1) (pk : G2) (σ : Signature S G1) (gens : Generators G1)
    (msgs : List S) (di : List Nat) (header ph apiId : Option Bytes) (tape tape' : List S)
    (h : tape.take (5 + (msgs.length - (sortDedup di).length))
        = tape'.take (5 + (msgs.length - (sortDedup di).length))) :
    coreProofGen env cs pk σ gens msgs di header ph apiId tape
      = coreProofGen env cs pk σ gens msgs di header ph apiId tape' := by
  unfold coreProofGen
  dsimp only
  rw [h]

/-- `proof_init` refuses any tape whose length is not exactly `5 + U`. -/
theorem tape_roles_proofInit_length (cs : Suite G1) (pk : G2) (σ : Signature S G1)
    (gens : Generators G1) (rs : List S) (header : Option Bytes) (msgs : List S) (und : List Nat)
    (apiId : Option Bytes) (h : rs.length ≠ 5 + und.length) :
    proofInit env cs pk σ gens rs header msgs und apiId = .err := by
  unfold proofInit
  dsimp only
  rw [if_pos h]

/-- `core_commit` depends only on the first `M + 2` tape entries. -/
theorem tape_roles_commit (cs : Suite G1) (blindGens : List G1) (cms : Option (List S))
    (apiId : Option Bytes) (tape tape' : List S)
    (h : tape.take ((cms.getD []).length + 2) = tape'.take ((cms.getD []).length + 2)) :
    coreCommit env cs blindGens cms apiId tape = coreCommit env cs blindGens cms apiId tape' := by
  unfold coreCommit
  dsimp only
  rw [h]

/-- **`tape_roles`** (summary): two tapes that agree on the first `5 + U` entries give the same
proof, and two tapes that agree on the first `M + 2` entries give the same commitment; the role
of each entry is given by `proofInit_roles`, `proofFinalize_roles`, `coreCommit_roles`. -/
theorem tape_roles (cs : Suite G1) :
    (∀ (pk : G2) (σ : Signature S G1) (gens : Generators G1) (msgs : List S) (di : List Nat)
      (header ph apiId : Option Bytes) (tape tape' : List S),
      tape.take (5 + (msgs.length - (sortDedup di).length))
        = tape'.take (5 + (msgs.length - (sortDedup di).length)) →
      coreProofGen env cs pk σ gens msgs di header ph apiId tape
        = coreProofGen env cs pk σ gens msgs di header ph apiId tape') ∧
    (∀ (blindGens : List G1) (cms : Option (List S)) (apiId : Option Bytes) (tape tape' : List S),
      tape.take ((cms.getD []).length + 2) = tape'.take ((cms.getD []).length + 2) →
      coreCommit env cs blindGens cms apiId tape = coreCommit env cs blindGens cms apiId tape') :=
  ⟨fun pk σ gens msgs di header ph apiId tape tape' h =>
      tape_roles_proof cs pk σ gens msgs di header ph apiId tape tape' h,
    fun bg cms apiId tape tape' h => tape_roles_commit cs bg cms apiId tape tape' h⟩

/-! ### `blindings_recoverable` -/

theorem zipmap_length (mT ums : List S) (c : S) (h : ums.length ≤ mT.length) :
    ((mT.zip ums).map (fun tm => tm.1 + tm.2 * c)).length = ums.length := by
  simp only [List.length_map, List.length_zip]; omega

/-- **Proof transcript ⇒ blindings.** With the witness (`e`, `r1`, `r2`, undisclosed messages)
the blindings are recomputed from the responses and the challenge. -/
theorem blindings_recoverable (hl : Lawful env pair) (init : ProofInitResult S G1) (c e : S)
    (r1 r2 eT r1T r3T : S) (mT ums : List S) (π : PoKSignature S G1)
    (h : proofFinalize env init c e (r1 :: r2 :: eT :: r1T :: r3T :: mT) ums = .ok π) :
    π.challenge = c ∧ r2 ≠ 0 ∧
    eT = π.eCap - e * c ∧ r1T = π.r1Cap + r1 * c ∧ r3T = π.r3Cap + r2⁻¹ * c ∧
    π.mCap.length = ums.length ∧
    ∀ j (h1 : j < mT.length) (h2 : j < ums.length) (h3 : j < π.mCap.length),
      mT[j] = π.mCap[j] - ums[j] * c := by
  obtain ⟨r1', r2', eT', r1T', r3T', mT', hrs, hlen, hr2, rfl⟩ :=
    proofFinalize_roles hl init c e _ ums π h
  simp only [List.cons.injEq] at hrs
  obtain ⟨rfl, rfl, rfl, rfl, rfl, rfl⟩ := hrs
  refine ⟨rfl, hr2, by simp, by simp, by simp, zipmap_length _ _ _ hlen, ?_⟩
  intro j h1 h2 h3
  simp

/-- **Commitment transcript ⇒ blindings.** -/
theorem blindings_recoverable_commit (cs : Suite G1) (blindGens : List G1) (cms : List S)
    (apiId : Option Bytes) (tape : List S) (com : Commitment S G1) (blind : S)
    (h : coreCommit env cs blindGens (some cms) apiId tape = .ok (com, blind)) :
    ∃ sT mT, tape.take (cms.length + 2) = blind :: sT :: mT ∧ mT.length = cms.length ∧
      sT = com.proof.sCap - blind * com.proof.challenge ∧
      com.proof.mCap.length = cms.length ∧
      ∀ i (h1 : i < mT.length) (h2 : i < cms.length) (h3 : i < com.proof.mCap.length),
        mT[i] = com.proof.mCap[i] - cms[i] * com.proof.challenge := by
  obtain ⟨Q2, Js, sT, mT, c, _, _, ht, hm, _, _, hp⟩ :=
    coreCommit_roles cs blindGens cms apiId tape com blind h
  refine ⟨sT, mT, ht, hm, by rw [hp]; simp, by rw [hp]; exact zipmap_length _ _ _ (by omega), ?_⟩
  intro i h1 h2 h3
  simp [hp]

/-! ### `two_transcript_extraction` -/

/-- **The extraction identity.** One blinding `x̃` used twice, two different challenges, two
responses `r = x̃ + w·c`, `r' = x̃ + w·c'`: the secret is `w = (r − r')/(c − c')`. The theorems
below instantiate it on the model's transcripts (`e`, a hidden message, `r1`, the commitment
blind, a committed message). -/
theorem two_transcript_extraction (w xT c c' r r' : S) (hc : c ≠ c') (h : r = xT + w * c) (h' : r' = xT + w * c') :
    w = (r - r') / (c - c') := by
  have : c - c' ≠ 0 := sub_ne_zero.mpr hc
  field_simp
  rw [h, h']; ring

/-- Two proofs made with the same `ẽ` under different challenges reveal the exponent `e`. -/
theorem two_transcript_extraction_e (hl : Lawful env pair) (init init' : ProofInitResult S G1)
    (c c' e eT : S) (r1 r2 r1T r3T r1' r2' r1T' r3T' : S) (mT mT' ums ums' : List S)
    (π π' : PoKSignature S G1) (hc : c ≠ c')
    (h : proofFinalize env init c e (r1 :: r2 :: eT :: r1T :: r3T :: mT) ums = .ok π)
    (h' : proofFinalize env init' c' e (r1' :: r2' :: eT :: r1T' :: r3T' :: mT') ums' = .ok π') :
    e = (π.eCap - π'.eCap) / (π.challenge - π'.challenge) := by
  obtain ⟨hc1, _, he, _⟩ := blindings_recoverable hl init c e r1 r2 eT r1T r3T mT ums π h
  obtain ⟨hc2, _, he', _⟩ := blindings_recoverable hl init' c' e r1' r2' eT r1T' r3T' mT' ums' π' h'
  rw [hc1, hc2]
  exact two_transcript_extraction e eT c c' _ _ hc (by rw [he]; ring) (by rw [he']; ring)

/-- Two proofs that hide the same message `m` (at positions `j`, `j'` of their undisclosed
lists) with the same blinding `m̃` under different challenges reveal `m`. -/
theorem two_transcript_extraction_m (hl : Lawful env pair) (init init' : ProofInitResult S G1)
    (c c' e e' : S) (r1 r2 eT r1T r3T r1' r2' eT' r1T' r3T' : S) (mT mT' ums ums' : List S)
    (π π' : PoKSignature S G1) (hc : c ≠ c')
    (h : proofFinalize env init c e (r1 :: r2 :: eT :: r1T :: r3T :: mT) ums = .ok π)
    (h' : proofFinalize env init' c' e' (r1' :: r2' :: eT' :: r1T' :: r3T' :: mT') ums' = .ok π')
    (j j' : Nat) (hj : j < ums.length) (hj' : j' < ums'.length)
    (hjT : j < mT.length) (hjT' : j' < mT'.length) (hjc : j < π.mCap.length)
    (hjc' : j' < π'.mCap.length)
    (hm : ums[j] = ums'[j']) (hmT : mT[j] = mT'[j']) :
    ums[j] = (π.mCap[j] - π'.mCap[j']) / (π.challenge - π'.challenge) := by
  obtain ⟨hc1, _, _, _, _, _, hmj⟩ := blindings_recoverable hl init c e r1 r2 eT r1T r3T mT ums π h
  obtain ⟨hc2, _, _, _, _, _, hmj'⟩ :=
    blindings_recoverable hl init' c' e' r1' r2' eT' r1T' r3T' mT' ums' π' h'
  rw [hc1, hc2]
  have a := hmj j hjT hj hjc
  have b := hmj' j' hjT' hj' hjc'
  exact two_transcript_extraction ums[j] mT[j] c c' _ _ hc (by rw [a]; ring) (by rw [hmT, b, hm]; ring)

/-- Two proofs made with the same `r1` and the same `r̃1` reveal `r1`; with the same `r2` and
`r̃3` reveal `r2⁻¹` — and then `A = (r1·r2)⁻¹ • Abar`. -/
theorem two_transcript_extraction_r1 (hl : Lawful env pair) (init init' : ProofInitResult S G1)
    (c c' e e' : S) (r1 r1T : S) (r2 eT r3T r2' eT' r3T' : S) (mT mT' ums ums' : List S)
    (π π' : PoKSignature S G1) (hc : c ≠ c')
    (h : proofFinalize env init c e (r1 :: r2 :: eT :: r1T :: r3T :: mT) ums = .ok π)
    (h' : proofFinalize env init' c' e' (r1 :: r2' :: eT' :: r1T :: r3T' :: mT') ums' = .ok π') :
    r1 = (π'.r1Cap - π.r1Cap) / (π.challenge - π'.challenge) := by
  obtain ⟨hc1, _, _, hr, _⟩ := blindings_recoverable hl init c e r1 r2 eT r1T r3T mT ums π h
  obtain ⟨hc2, _, _, hr', _⟩ :=
    blindings_recoverable hl init' c' e' r1 r2' eT' r1T r3T' mT' ums' π' h'
  rw [hc1, hc2]
  have : c - c' ≠ 0 := sub_ne_zero.mpr hc
  field_simp
  linear_combination hr' - hr

/-- Two commitments made with the same `s̃` (and the same secret `blind`) under different
challenges reveal `blind`. -/
theorem two_transcript_extraction_blind (cs : Suite G1) (bg bg' : List G1) (cms cms' : List S)
    (apiId apiId' : Option Bytes) (tape tape' : List S) (com com' : Commitment S G1) (blind : S)
    (h : coreCommit env cs bg (some cms) apiId tape = .ok (com, blind))
    (h' : coreCommit env cs bg' (some cms') apiId' tape' = .ok (com', blind))
    (hs : tape[1]? = tape'[1]?) (hc : com.proof.challenge ≠ com'.proof.challenge) :
    blind = (com.proof.sCap - com'.proof.sCap) / (com.proof.challenge - com'.proof.challenge) := by
  obtain ⟨sT, mT, ht, _, hsT, _⟩ := blindings_recoverable_commit cs bg cms apiId tape com blind h
  obtain ⟨sT', mT', ht', _, hsT', _⟩ :=
    blindings_recoverable_commit cs bg' cms' apiId' tape' com' blind h'
  have e1 : tape[1]? = some sT := by
    have := congrArg (fun l => l[1]?) ht
    simpa [List.getElem?_take] using this
  have e2 : tape'[1]? = some sT' := by
    have := congrArg (fun l => l[1]?) ht'
    simpa [List.getElem?_take] using this
  have hss : sT = sT' := by rw [e1, e2] at hs; exact Option.some.inj hs
  exact two_transcript_extraction blind sT _ _ _ _ hc (by rw [hsT]; ring) (by rw [hss, hsT']; ring)

/-- Two commitments that commit the same message `m` (positions `i`, `i'`) with the same
blinding `m̃` under different challenges reveal `m`. -/
theorem two_transcript_extraction_commit_m (cs : Suite G1) (bg bg' : List G1) (cms cms' : List S)
    (apiId apiId' : Option Bytes) (tape tape' : List S) (com com' : Commitment S G1)
    (blind blind' : S)
    (h : coreCommit env cs bg (some cms) apiId tape = .ok (com, blind))
    (h' : coreCommit env cs bg' (some cms') apiId' tape' = .ok (com', blind'))
    (i i' : Nat) (hi : i < cms.length) (hi' : i' < cms'.length)
    (hic : i < com.proof.mCap.length) (hic' : i' < com'.proof.mCap.length)
    (hm : cms[i] = cms'[i']) (hmT : tape[i + 2]? = tape'[i' + 2]?)
    (hc : com.proof.challenge ≠ com'.proof.challenge) :
    cms[i] = (com.proof.mCap[i] - com'.proof.mCap[i'])
      / (com.proof.challenge - com'.proof.challenge) := by
  obtain ⟨sT, mT, ht, hl1, _, _, hmi⟩ :=
    blindings_recoverable_commit cs bg cms apiId tape com blind h
  obtain ⟨sT', mT', ht', hl2, _, _, hmi'⟩ :=
    blindings_recoverable_commit cs bg' cms' apiId' tape' com' blind' h'
  have e1 : tape[i + 2]? = some (mT[i]'(by omega)) := by
    have := congrArg (fun l => l[i + 2]?) ht
    simp only [List.getElem?_take, List.getElem?_cons_succ] at this
    rw [if_pos (by omega)] at this
    rw [this, List.getElem?_eq_getElem (by omega)]
  have e2 : tape'[i' + 2]? = some (mT'[i']'(by omega)) := by
    have := congrArg (fun l => l[i' + 2]?) ht'
    simp only [List.getElem?_take, List.getElem?_cons_succ] at this
    rw [if_pos (by omega)] at this
    rw [this, List.getElem?_eq_getElem (by omega)]
  have hmm : mT[i]'(by omega) = mT'[i']'(by omega) := by
    rw [e1, e2] at hmT; exact Option.some.inj hmT
  have a := hmi i (by omega) hi hic
  have b := hmi' i' (by omega) hi' hic'
  exact two_transcript_extraction cms[i] (mT[i]'(by omega)) _ _ _ _ hc (by rw [a]; ring) (by rw [hmm, b, hm]; ring)

/-! ### `proof_injective_in_tape` -/

/-- `D ↔ r2`: for `B ≠ 0`, equal `D = r2 • B` means equal `r2`. -/
theorem D_inj (B : G1) (r2 r2' : S) (hB : B ≠ 0) (h : r2 • B = r2' • B) : r2 = r2' := by
  have h0 : (r2 - r2') • B = 0 := by rw [sub_smul, h, sub_self]
  rcases smul_eq_zero_field h0 with h1 | h1
  · exact sub_eq_zero.mp h1
  · exact absurd h1 hB

/-- `Abar ↔ r1·r2`: for `A ≠ 0`, equal `Abar = (r1·r2) • A` means equal products, hence (same
non-zero `r2`) equal `r1`. -/
theorem Abar_inj (A : G1) (r1 r2 r1' : S) (hA : A ≠ 0) (hr2 : r2 ≠ 0)
    (h : (r1 * r2) • A = (r1' * r2) • A) : r1 = r1' :=
  mul_right_cancel₀ hr2 (D_inj A _ _ hA h)

/-- Equal response vectors over the same messages and challenge mean equal blinding vectors. -/
theorem zipmap_inj (c : S) : ∀ (mT mT' ums : List S), mT.length = ums.length →
    mT'.length = ums.length →
    (mT.zip ums).map (fun tm => tm.1 + tm.2 * c) = (mT'.zip ums).map (fun tm => tm.1 + tm.2 * c) →
    mT = mT' := by
  intro mT
  induction mT with
  | nil => intro mT' ums h h' _; cases ums with
    | nil => symm; simpa using h'
    | cons => simp at h
  | cons a mT ih =>
    intro mT' ums h h' heq
    cases ums with
    | nil => simp at h
    | cons u ums =>
      cases mT' with
      | nil => simp at h'
      | cons a' mT' =>
        simp only [List.zip_cons_cons, List.map_cons, List.cons.injEq] at heq
        obtain ⟨h1, h2⟩ := heq
        rw [add_right_cancel h1, ih mT' ums (by simpa using h) (by simpa using h') h2]

/-- **Equal proofs ⇒ equal tapes.** Fix all inputs of the prover (key, signature with `A ≠ 0`,
generators, header, messages, undisclosed set, api id) with `B ≠ 0`. If two runs of
`proofInit`/`proofFinalize` on tapes `rs`, `rs'` (each of length `5 + U`, as `proofInit`
enforces) return the same proof, the tapes are equal. So a repeated proof means repeated
randomness. (`r2 ≠ 0` is enforced by `proofFinalize`; `r1` needs no hypothesis.) -/
theorem proof_injective_in_tape (hl : Lawful env pair) (cs : Suite G1) (pk : G2)
    (σ : Signature S G1) (gens : Generators G1) (header : Option Bytes) (msgs : List S)
    (und : List Nat) (apiId : Option Bytes) (ums : List S) (rs rs' : List S)
    (init init' : ProofInitResult S G1) (c c' : S) (π : PoKSignature S G1)
    (hA : σ.A ≠ 0)
    (hB : ∀ Q1 Hs d, gens.values = Q1 :: Hs →
      calculateDomain env cs pk Q1 Hs header apiId = .ok d → calcB gens.base Q1 d Hs msgs ≠ 0)
    (hums : ums.length = und.length)
    (hi : proofInit env cs pk σ gens rs header msgs und apiId = .ok init)
    (hi' : proofInit env cs pk σ gens rs' header msgs und apiId = .ok init')
    (hf : proofFinalize env init c σ.e rs ums = .ok π)
    (hf' : proofFinalize env init' c' σ.e rs' ums = .ok π) : rs = rs' := by
  obtain ⟨Q1, Hs, r1, r2, eT, r1T, r3T, mT, d, hv, _, hrs, hmT, hd, _, hD, hAb, _⟩ :=
    proofInit_roles cs pk σ gens rs header msgs und apiId init hi
  obtain ⟨Q1', Hs', r1', r2', eT', r1T', r3T', mT', d', hv', _, hrs', hmT', hd', _, hD', hAb', _⟩ :=
    proofInit_roles cs pk σ gens rs' header msgs und apiId init' hi'
  rw [hv] at hv'; cases hv'
  rw [hd] at hd'; cases hd'
  subst hrs; subst hrs'
  obtain ⟨_, _, _, _, _, _, hrs, _, hr2, hπ⟩ := proofFinalize_roles hl init c σ.e _ ums π hf
  obtain ⟨_, _, _, _, _, _, hrs', _, hr2', hπ'⟩ := proofFinalize_roles hl init' c' σ.e _ ums π hf'
  simp only [List.cons.injEq] at hrs hrs'
  obtain ⟨rfl, rfl, rfl, rfl, rfl, rfl⟩ := hrs
  obtain ⟨rfl, rfl, rfl, rfl, rfl, rfl⟩ := hrs'
  rw [hπ] at hπ'
  simp only [PoKSignature.mk.injEq] at hπ'
  obtain ⟨eAb, _, eD, eE, eR1, eR3, eM, rfl⟩ := hπ'
  have hBne := hB Q1 Hs d hv hd
  rw [hD, hD'] at eD
  have e2 : r2 = r2' := D_inj _ _ _ hBne eD
  subst e2
  rw [hAb, hAb'] at eAb
  have e1 : r1 = r1' := Abar_inj σ.A r1 r2 r1' hA hr2 eAb
  subst e1
  have e3 : eT = eT' := add_right_cancel eE
  have e4 : r1T = r1T' := by linear_combination eR1
  have e5 : r3T = r3T' := by linear_combination eR3
  have e6 : mT = mT' := zipmap_inj c mT mT' ums (by omega) (by omega) eM
  rw [e3, e4, e5, e6]

/-- **Equal commitments ⇒ equal tapes** (on the `M + 2` entries read), for fixed committed
messages and generators with `Q2 ≠ 0`. -/
theorem commit_injective_in_tape (cs : Suite G1) (bg : List G1) (cms : List S)
    (apiId : Option Bytes) (tape tape' : List S) (com : Commitment S G1) (blind blind' : S)
    (hQ : ∀ Q2 Js, bg = Q2 :: Js → Q2 ≠ 0)
    (h : coreCommit env cs bg (some cms) apiId tape = .ok (com, blind))
    (h' : coreCommit env cs bg (some cms) apiId tape' = .ok (com, blind')) :
    tape.take (cms.length + 2) = tape'.take (cms.length + 2) := by
  obtain ⟨Q2, Js, sT, mT, c, hb, _, ht, hm, hC, _, hp⟩ :=
    coreCommit_roles cs bg cms apiId tape com blind h
  obtain ⟨Q2', Js', sT', mT', c', hb', _, ht', hm', hC', _, hp'⟩ :=
    coreCommit_roles cs bg cms apiId tape' com blind' h'
  rw [hb] at hb'; cases hb'
  have hQ2 := hQ Q2 Js hb
  rw [hC, sumZip_eq, sumZip_eq] at hC'
  have e1 : blind = blind' := D_inj Q2 _ _ hQ2 (add_right_cancel hC')
  subst e1
  rw [hp] at hp'
  simp only [ZKPoK.mk.injEq] at hp'
  obtain ⟨eS, eM, rfl⟩ := hp'
  have e2 : sT = sT' := add_right_cancel eS
  have e3 : mT = mT' := zipmap_inj c mT mT' cms hm hm' eM
  rw [ht, ht', e2, e3]

/-! ### `commit_hiding` (Pedersen) -/

/-- `Σ aᵢ·mᵢ` over the common prefix. -/
def dot (as ms : List S) : S := ((as.zip ms).map fun p => p.1 * p.2).sum

/-- With `J_i = a_i • Q2`, the commitment is `(blind + Σ aᵢ mᵢ) • Q2`. -/
theorem sumZip_cyclic (Q2 : G1) (b : S) : ∀ (as ms : List S),
    sumZip (b • Q2) (as.map (· • Q2)) ms = (b + dot as ms) • Q2 := by
  intro as ms
  rw [sumZip_eq]
  have : ∀ (as ms : List S), (((as.map (· • Q2)).zip ms).map fun js => js.2 • js.1).sum
      = dot as ms • Q2 := by
    intro as
    induction as with
    | nil => intro ms; simp [dot]
    | cons a as ih =>
      intro ms
      cases ms with
      | nil => simp [dot]
      | cons m ms =>
        have := ih ms
        simp only [dot, List.map_cons, List.zip_cons_cons, List.sum_cons] at this ⊢
        rw [this]; module
  rw [this, add_smul]

/-- **Perfect hiding of the commitment point.** In a cyclic group (every `J_i = a_i • Q2`; true
in a prime-order group with `Q2 ≠ 0`), for any two message vectors the map
`blind ↦ blind + Σ aᵢ mᵢ − Σ aᵢ m'ᵢ` is a bijection of the blind scalar under which the
commitment to `ms` with `blind` equals the commitment to `ms'` with the image: the commitment
point carries no information about the messages. -/
theorem commit_hiding (Q2 : G1) (as ms ms' : List S) :
    ∃ f : S → S, Function.Bijective f ∧ (∀ b, f b = b + (dot as ms - dot as ms')) ∧
      ∀ b, sumZip (b • Q2) (as.map (· • Q2)) ms = sumZip (f b • Q2) (as.map (· • Q2)) ms' := by
  refine ⟨fun b => b + (dot as ms - dot as ms'), ?_, fun _ => rfl, ?_⟩
  · constructor
    · intro x y h; exact add_right_cancel h
    · intro y; exact ⟨y - (dot as ms - dot as ms'), by simp⟩
  · intro b
    rw [sumZip_cyclic, sumZip_cyclic]
    congr 1; ring

/-- For vectors of the same length the shift is `Σ aᵢ (mᵢ − m'ᵢ)`. -/
theorem dot_sub (as : List S) : ∀ (ms ms' : List S), ms.length = ms'.length →
    dot as ms - dot as ms' = dot as (List.zipWith (· - ·) ms ms') := by
  induction as with
  | nil => intro ms ms' _; simp [dot]
  | cons a as ih =>
    intro ms ms' h
    cases ms with
    | nil => cases ms' with
      | nil => simp [dot]
      | cons => simp at h
    | cons m ms =>
      cases ms' with
      | nil => simp at h
      | cons m' ms' =>
        have := ih ms ms' (by simpa using h)
        simp only [dot, List.zip_cons_cons, List.map_cons, List.sum_cons,
          List.zipWith_cons_cons] at this ⊢
        rw [← this]; ring

/-! ### the whole commitment-with-proof hides the messages -/

/-- `coreCommit` computed forwards. -/
theorem coreCommit_forward (cs : Suite G1) (Q2 : G1) (Js : List G1) (cms : List S)
    (apiId : Option Bytes) (tape : List S) (blind sT : S) (mT : List S) (c : S)
    (hJ : Js.length = cms.length) (ht : tape.take (cms.length + 2) = blind :: sT :: mT)
    (hm : cms.length ≤ mT.length)
    (hc : calculateBlindChallenge env cs (sumZip (blind • Q2) Js cms) (sumZip (sT • Q2) Js mT)
      (Q2 :: Js) (some (apiId.getD [])) = .ok c) :
    coreCommit env cs (Q2 :: Js) (some cms) apiId tape
      = .ok (⟨sumZip (blind • Q2) Js cms,
          ⟨sT + blind * c, (mT.zip cms).map (fun tm => tm.1 + tm.2 * c), c⟩⟩, blind) := by
  unfold coreCommit
  simp only [Option.getD_some]
  rw [if_neg (by simp [hJ]), ht]
  simp only
  rw [if_neg (by omega), hc]

/-- The tape transformation that turns a commitment run on `cms` into the identical run on
`cms'` (challenge `c`): `blind ↦ blind + δ`, `s̃ ↦ s̃ − δ·c`, `m̃ᵢ ↦ m̃ᵢ + (mᵢ − m'ᵢ)·c`, with
`δ = Σ aᵢ mᵢ − Σ aᵢ m'ᵢ`. -/
def reblind (as cms cms' : List S) (c : S) : List S → List S
  | blind :: sT :: mT =>
    (blind + (dot as cms - dot as cms')) :: (sT - (dot as cms - dot as cms') * c) ::
      List.zipWith (fun t d => t + d * c) mT (List.zipWith (· - ·) cms cms')
  | t => t

theorem dot_zipWith_add (c : S) (as : List S) : ∀ (mT ds : List S), mT.length = ds.length →
    dot as (List.zipWith (fun t d => t + d * c) mT ds) = dot as mT + dot as ds * c := by
  induction as with
  | nil => intro mT ds _; simp [dot]
  | cons a as ih =>
    intro mT ds h
    cases mT with
    | nil => cases ds with
      | nil => simp [dot]
      | cons => simp at h
    | cons t mT =>
      cases ds with
      | nil => simp at h
      | cons d ds =>
        have := ih mT ds (by simpa using h)
        simp only [dot, List.zip_cons_cons, List.map_cons, List.sum_cons,
          List.zipWith_cons_cons] at this ⊢
        rw [this]; ring

theorem resp_reblind (c : S) : ∀ (mT cms cms' : List S), mT.length = cms.length →
    cms.length = cms'.length →
    ((List.zipWith (fun t d => t + d * c) mT (List.zipWith (· - ·) cms cms')).zip cms').map
        (fun tm => tm.1 + tm.2 * c)
      = (mT.zip cms).map (fun tm => tm.1 + tm.2 * c) := by
  intro mT
  induction mT with
  | nil => intro cms cms' _ _; simp
  | cons t mT ih =>
    intro cms cms' h h'
    cases cms with
    | nil => simp at h
    | cons m cms =>
      cases cms' with
      | nil => simp at h'
      | cons m' cms' =>
        simp only [List.zipWith_cons_cons, List.zip_cons_cons, List.map_cons, List.cons.injEq]
        exact ⟨by ring, ih cms cms' (by simpa using h) (by simpa using h')⟩

/-- `reblind` back and forth is the identity (so it is a bijection between the tapes that
produce a given output from `cms` and those that produce it from `cms'`). -/
theorem reblind_involutive (as cms cms' : List S) (c blind sT : S) (mT : List S)
    (h : mT.length = cms.length) (h' : cms.length = cms'.length) :
    reblind as cms' cms c (reblind as cms cms' c (blind :: sT :: mT)) = blind :: sT :: mT := by
  simp only [reblind, List.cons.injEq]
  refine ⟨by ring, by ring, ?_⟩
  clear blind sT
  induction mT generalizing cms cms' with
  | nil => simp
  | cons t mT ih =>
    cases cms with
    | nil => simp at h
    | cons m cms =>
      cases cms' with
      | nil => simp at h'
      | cons m' cms' =>
        simp only [List.zipWith_cons_cons, List.cons.injEq]
        exact ⟨by ring, ih cms cms' (by simpa using h) (by simpa using h')⟩

/-- **Perfect hiding of the whole commitment-with-proof.** In a cyclic group
(`J_i = a_i • Q2`), if the commitment to `cms` on `tape` is `com`, then the commitment to ANY
other vector `cms'` of the same length on the tape `reblind …` is the SAME `com` (point,
responses and challenge), with secret blind `blind + δ`. Since `reblind` is a bijection
(`reblind_involutive`), under a uniform tape the output distribution does not depend on the
committed messages. Nothing is assumed about the hash. -/
theorem commit_witness_indistinguishable (cs : Suite G1) (Q2 : G1) (as cms cms' : List S)
    (apiId : Option Bytes) (tape : List S) (com : Commitment S G1) (blind : S)
    (hlen : cms.length = cms'.length)
    (h : coreCommit env cs (Q2 :: as.map (· • Q2)) (some cms) apiId tape = .ok (com, blind)) :
    coreCommit env cs (Q2 :: as.map (· • Q2)) (some cms') apiId
        (reblind as cms cms' com.proof.challenge (tape.take (cms.length + 2)))
      = .ok (com, blind + (dot as cms - dot as cms')) := by
  obtain ⟨Q2', Js, sT, mT, c, hb, hJ, ht, hm, hC, hc, hp⟩ :=
    coreCommit_roles cs _ cms apiId tape com blind h
  obtain ⟨rfl, rfl⟩ := List.cons.inj hb
  have hJ' : as.length = cms.length := by simpa using hJ
  have hcc : com.proof.challenge = c := by rw [hp]
  rw [ht, hcc]
  simp only [reblind]
  have hzl : (List.zipWith (fun t d => t + d * c) mT (List.zipWith (· - ·) cms cms')).length
      = cms'.length := by
    simp only [List.length_zipWith]; omega
  have hC' : sumZip ((blind + (dot as cms - dot as cms')) • Q2) (as.map (· • Q2)) cms'
      = com.commitment := by
    rw [hC, sumZip_cyclic, sumZip_cyclic]; congr 1; ring
  have hCbar : sumZip ((sT - (dot as cms - dot as cms') * c) • Q2) (as.map (· • Q2))
        (List.zipWith (fun t d => t + d * c) mT (List.zipWith (· - ·) cms cms'))
      = sumZip (sT • Q2) (as.map (· • Q2)) mT := by
    rw [sumZip_cyclic, sumZip_cyclic,
      dot_zipWith_add c as mT _ (by simp only [List.length_zipWith]; omega),
      ← dot_sub as cms cms' hlen]
    congr 1; ring
  rw [coreCommit_forward cs Q2 (as.map (· • Q2)) cms' apiId _ _ _ _ c (by simp; omega)
    (by rw [List.take_of_length_le]; simp only [List.length_cons, hzl]; omega) (by omega)
    (by rw [hC', hCbar]; exact hc)]
  rw [hC', resp_reblind c mT cms cms' hm hlen]
  have : sT - (dot as cms - dot as cms') * c + (blind + (dot as cms - dot as cms')) * c
      = sT + blind * c := by ring
  rw [this]
  cases com with
  | mk C z => simp only at hp hC' ⊢; rw [hp]

end Zk.C07
