/-
C14  CL03 blind issuance works for every hidden-attribute set and is gated.

All theorems are about the L1 model `ZkModel/L1/Cl.lean` (concrete over `Int`, random draws read from a
tape). Arithmetic facts about the L0 primitives enter only through `(hA : ArithOK)`; the completeness of
the Boudot range proofs embedded in the issuance proof of knowledge enters only through the named
hypothesis `(hR : RangeComplete cs)` (property C16).  `cs : Suite` is arbitrary.

Sigma-protocol completeness (`nisp2sec_complete`, `nispMultiSecrets_complete`, `nisp2_complete`) and the
supporting lemmas are in `ZkProofs/Lemmas/ClSigma.lean` and re-exported here.
-/
import ZkProofs.Lemmas.ClSigma
import ZkProofs.Lemmas.ClRange
set_option linter.unusedSectionVars false
set_option linter.unusedVariables false
namespace Zk.C14
open Zk.Cl Zk.IA Zk.ClSigma

/-! ### 1. Sigma-protocol completeness (see `Lemmas/ClSigma.lean` for the proofs) -/

/-- `nisp2sec`: knowledge of `(m, r)` with `C = g^m h^r (mod n)`; accepted for every tape on which the
prover returns. -/
theorem nisp2sec_complete (hA : ArithOK) (cs : Suite) (m : Int) (c : Commitment) (g h n : Int)
    (t t' : List Draw) (π : NISPSecrets) (hm : 0 ≤ m) (hr : 0 ≤ c.randomness)
    (hC : c.value ≡ g ^ m.toNat * h ^ c.randomness.toNat [ZMOD n])
    (hgen : nisp2secGen cs m c g h n t = .ok (π, t')) :
    nisp2secVerify π c.value g h n [] = .ok (true, []) :=
  ClSigma.nisp2sec_complete hA cs m c g h n t t' π hm hr hC hgen []

/-- `nispMultiSecrets` for every hidden index list `U` (any positions). -/
theorem nispMultiSecrets_complete (hA : ArithOK) (cs : Suite) (msgs : List Int) (c : Commitment)
    (pk : PublicKey) (bases : List Int) (U : List Nat) (t t' : List Draw) (π : NISPMultiSecrets)
    (hU : msgs.length ≠ 1 ∨ U = [0]) (hm : ∀ i ∈ U, 0 ≤ msgs.getD i 0) (hr : 0 ≤ c.randomness)
    (hC : c.value ≡ rep bases msgs U * pk.b ^ c.randomness.toNat [ZMOD pk.N])
    (hgen : nispMultiSecretsGen cs msgs c pk bases (some U) t = .ok (π, t')) :
    nispMultiSecretsVerify π c.value pk bases (some U) [] = .ok (true, []) :=
  ClSigma.nispMultiSecrets_complete hA cs msgs c pk bases (some U) t t' π (by simpa using hU)
    (by simpa using hm) hr (by simpa using hC) hgen []

/-- `nisp2`: the same hidden attributes under two commitments (two moduli). -/
theorem nisp2_complete (hA : ArithOK) (cs : Suite) (msgs : List Int) (c1 c2 : Commitment)
    (pk : PublicKey) (bases : List Int) (cpk : CommitmentPK) (U : List Nat) (t t' : List Draw)
    (π : NISP2Commitments) (hN1 : 1 < pk.N) (hN2 : 1 < cpk.N)
    (hm : ∀ i ∈ U, 0 ≤ msgs.getD i 0) (hr1 : 0 ≤ c1.randomness) (hr2 : 0 ≤ c2.randomness)
    (hC1 : c1.value ≡ rep bases msgs U * pk.b ^ c1.randomness.toNat [ZMOD pk.N])
    (hC2 : c2.value ≡ rep cpk.gBases msgs U * cpk.h ^ c2.randomness.toNat [ZMOD cpk.N])
    (hu1 : Int.gcd c1.value pk.N = 1) (hu2 : Int.gcd c2.value cpk.N = 1)
    (hgen : nisp2Gen cs msgs c1 c2 pk bases cpk U t = .ok (π, t')) :
    nisp2Verify π c1.value c2.value pk bases cpk U [] = .ok (true, []) :=
  ClSigma.nisp2_complete hA cs msgs c1 c2 pk bases cpk U t t' π hN1 hN2 hm hr1 hr2 hC1 hC2 hu1 hu2 hgen []

/-! ### 4. The issuer is gated by the proof of knowledge -/

/-- **Gate.** For all inputs and all tapes: if `blind_sign` returns, the proof of knowledge verified
against exactly the commitment value, trusted commitment value, key, bases, commitment key and hidden
positions that the issuer was given. -/
theorem issuer_gated (cs : Suite) (pk : PublicKey) (sk : SecretKey) (bases : List Int) (π : ZKPoK)
    (revealed : Option (List Int)) (C : Commitment) (Ctv : Option Int) (cpk : Option CommitmentPK)
    (U : List Nat) (revIdx : Option (List Nat)) (β : BlindSignature) (t t' : List Draw)
    (h : blindSign cs pk sk bases π revealed C Ctv cpk U revIdx t = .ok (β, t')) :
    zkpokVerify cs π C.value Ctv pk bases cpk U [] = .ok (true, []) :=
  (zkpokVerify_tapeFree _ _ _ _ _ _ _ _).ok_any (blindSign_elim h).1 []

/-- **Refusal.** If the proof does not verify (returns `false` or panics) for the given commitment,
bases, hidden positions and trusted commitment, `blind_sign` panics on every tape: nothing is signed. -/
theorem issuer_refuses (cs : Suite) (pk : PublicKey) (sk : SecretKey) (bases : List Int) (π : ZKPoK)
    (revealed : Option (List Int)) (C : Commitment) (Ctv : Option Int) (cpk : Option CommitmentPK)
    (U : List Nat) (revIdx : Option (List Nat))
    (h : zkpokVerify cs π C.value Ctv pk bases cpk U [] ≠ .ok (true, [])) (t : List Draw) :
    blindSign cs pk sk bases π revealed C Ctv cpk U revIdx t = .panic := by
  rw [blindSign_eq]
  rcases zkpokVerify_tapeFree cs π C.value Ctv pk bases cpk U with ⟨b, hb⟩ | hp
  · cases b with
    | true => exact absurd (hb []) h
    | false => rw [ClSigma.bind_of_ok (hb t)]; rfl
  · rw [ClSigma.bind_run, hp t]

/-! ### 3. Issuance completeness -/

theorem getD_inRange {cs : Suite} {msgs : List Int} (hm : ∀ m ∈ msgs, 0 ≤ m ∧ m < 2 ^ cs.lm) (i : Nat) :
    0 ≤ msgs.getD i 0 ∧ msgs.getD i 0 < 2 ^ cs.lm := by
  rw [List.getD_eq_getElem?_getD]
  cases h : msgs[i]? with
  | none => exact ⟨le_refl 0, by positivity⟩
  | some a => exact hm a (List.mem_of_getElem? h)

theorem pick_nonneg {cs : Suite} {msgs : List Int} (hm : ∀ m ∈ msgs, 0 ≤ m ∧ m < 2 ^ cs.lm)
    (R : List Nat) : ∀ m ∈ pick msgs R, 0 ≤ m := by
  intro m h
  simp only [pick, List.mem_map] at h
  obtain ⟨i, -, rfl⟩ := h
  exact (getD_inRange hm i).1

/-- With one message and a partition `U ++ R` of `[0]`, a non-empty `U` is `[0]`. -/
theorem hidden_single {n : Nat} {U R : List Nat} (hperm : (U ++ R).Perm (List.range n))
    (hU : n = 1 → U ≠ []) : n ≠ 1 ∨ U = [0] := by
  by_cases h1 : n = 1
  · right
    subst h1
    have h := List.perm_singleton.1 (by simpa using hperm)
    cases U with
    | nil => exact absurd rfl (hU rfl)
    | cons a U' =>
      simp only [List.cons_append, List.cons.injEq, List.append_eq_nil_iff] at h
      rw [h.1, h.2.1]
  · exact Or.inl h1

/-- A trusted-party commitment to the same hidden attributes under a well-formed commitment key. -/
structure TrustedOK (cs : Suite) (msgs : List Int) (U : List Nat) (ct : Commitment) (k : CommitmentPK) :
    Prop where
  hN : 1 < k.N
  hh : Int.gcd k.h k.N = 1
  hg : ∀ g ∈ k.gBases, Int.gcd g k.N = 1
  hcommit : ∃ t t', commitWithCpk cs msgs k (some U) t = .ok (ct, t')

/-- **Blind issuance is complete for every hidden set.**

`msgs` are `n` attributes in `[0, 2^lm)`; `U` (hidden) and `R` (revealed) are ANY two index lists that
together enumerate `0..n-1` (`(U ++ R).Perm (List.range n)`: any positions, any order; in particular `U`
strictly ascending and `R` its complement); keys are well formed. If the holder's `commit_with_pk` and
`ZKPoK::generate_proof` return (whatever the random draws), with or without a trusted-party commitment,
then
  (a) the issuer's check `verify_proof` accepts,
  (b) `blind_sign` does not panic on any tape (it can only report a tape-contract error), and
  (c) whenever it returns `β`, the unblinded signature verifies on the FULL attribute vector.
The per-attribute sub-proofs use the base `a_i` of the hidden position `i` on both sides. -/
theorem issuance_complete (hA : ArithOK) (cs : Suite) (hR : RangeComplete cs) (pk : PublicKey)
    (sk : SecretKey) (bases msgs : List Int) (U R : List Nat) (hk : KeysOK pk sk)
    (hau : ∀ a ∈ bases, Int.gcd a pk.N = 1) (hlen : msgs.length ≤ bases.length)
    (hm : ∀ m ∈ msgs, 0 ≤ m ∧ m < 2 ^ cs.lm)
    (hperm : (U ++ R).Perm (List.range msgs.length)) (hU : msgs.length = 1 → U ≠ [])
    (C : Commitment) (t₁ t₁' : List Draw)
    (hcommit : commitWithPk cs msgs pk bases (some U) t₁ = .ok (C, t₁'))
    (Ct : Option Commitment) (cpk : Option CommitmentPK)
    (hT : ∀ ct k, Ct = some ct → cpk = some k → TrustedOK cs msgs U ct k)
    (π : ZKPoK) (t₂ t₂' : List Draw)
    (hgen : zkpokGen cs msgs C Ct pk bases cpk U t₂ = .ok (π, t₂')) :
    zkpokVerify cs π C.value (Ct.map Commitment.value) pk bases cpk U [] = .ok (true, []) ∧
    (∀ t₃, blindSign cs pk sk bases π (some (pick msgs R)) C (Ct.map Commitment.value) cpk U (some R) t₃
        ≠ .panic) ∧
    (∀ t₃ β t₃', blindSign cs pk sk bases π (some (pick msgs R)) C (Ct.map Commitment.value) cpk U
        (some R) t₃ = .ok (β, t₃') →
      verifyMultiattr cs (unblindSign β C) pk bases msgs [] = .ok (true, [])) := by
  have hN1 := hk.one_lt_N
  have hN : 0 < pk.N := by omega
  have hmem : ∀ i, i ∈ U ∨ i ∈ R → i < msgs.length := by
    intro i hi
    have : i ∈ U ++ R := List.mem_append.2 hi
    simpa using (hperm.mem_iff).1 this
  obtain ⟨hr0, hrl, -, -, hCe, -, -⟩ := commitWithPk_elim (uo := some U) hA
    (fun i _ => (getD_inRange hm i).1) hcommit
  simp only [Option.getD_some] at hCe
  -- (a)
  have hzk : zkpokVerify cs π C.value (Ct.map Commitment.value) pk bases cpk U [] = .ok (true, []) := by
    refine zkpok_complete hA hR hN1 hk.hb hau (hidden_single hperm hU) (fun i _ => getD_inRange hm i) hr0
      (bitLen_lt hr0 hrl) hCe ?_ hgen
    intro ct k h1 h2
    obtain ⟨kN, kh, kg, tc, tc', hc⟩ := hT ct k h1 h2
    obtain ⟨hcr0, -, -, -, hce, -, -⟩ := commitWithCpk_elim (uo := some U) hA
      (fun i _ => (getD_inRange hm i).1) hc
    simp only [Option.getD_some] at hce
    exact ⟨kN, hcr0, cop_iff.2 (cop_of_modEq hce ((cop_rep kg msgs U).mul_left (cop_iff.1 kh).pow_left)),
      hce⟩
  -- the extended commitment commits to the whole vector
  have hfull : ∀ ext : Commitment, ext.value ≡ C.value * repZip bases R (pick msgs R) [ZMOD pk.N] →
      ext.value ≡ rep bases msgs (List.range msgs.length) * pk.b ^ C.randomness.toNat [ZMOD pk.N] := by
    intro ext he
    rw [repZip_pick] at he
    refine he.trans ((hCe.mul_right _).trans ?_)
    rw [← rep_perm bases msgs hperm, rep_append]
    have : rep bases msgs U * pk.b ^ C.randomness.toNat * rep bases msgs R =
        rep bases msgs U * rep bases msgs R * pk.b ^ C.randomness.toNat := by ring
    rw [this]
  refine ⟨hzk, ?_, ?_⟩
  · -- (b)
    intro t₃ hp
    have hzk₃ := (zkpokVerify_tapeFree _ _ _ _ _ _ _ _).ok_any hzk t₃
    obtain ⟨ext, hext⟩ := extend_run hA C (revealed := pick msgs R) (pk := pk) (bases := bases) (R := R) hN
      (pick_nonneg hm R) (by simp [pick])
      (fun i hi => lt_of_lt_of_le (hmem i (Or.inr hi)) hlen) t₃
    have hext' : extOf C (some (pick msgs R)) pk bases (some R) t₃ = .ok (ext, t₃) := hext
    rw [blindSign_eq, ClSigma.bind_of_ok hzk₃, not_true_if, ClSigma.bind_of_ok hext'] at hp
    simp only [ClSigma.bind_panic_iff] at hp
    rcases hp with h | ⟨k, t1, hk', h | ⟨e, t2, he, h | ⟨r', t3, hr', h | ⟨d, t4, hd, h | ⟨bs, t5, hbs,
      h | ⟨v, t6, hv, h⟩⟩⟩⟩⟩⟩
    · simp [remaining] at h
    · exact drawE_ne_panic _ _ h
    · exact randomBits_ne_panic _ _ h
    · obtain ⟨-, -, hg⟩ := drawE_elim _ _ _ _ he
      obtain ⟨x, hx, -⟩ := invMod_of_gcd hA (phi_gt_one hk.hp hk.hq hk.hpq) hg
      rw [ClSigma.ofOpt_run hx] at h; cases h
    · rw [pw_run_nonneg hA hN (randomBits_elim hr').1] at h; cases h
    · obtain ⟨hd', -⟩ := (ClSigma.ofOpt_ok_iff _ _ _ _).1 hd
      obtain ⟨hd0, -, -⟩ := hA.invMod_some _ _ _ (phi_gt_one hk.hp hk.hq hk.hpq) hd'
      rw [pw_run_nonneg hA hN hd0] at h; cases h
    · cases h
  · -- (c)
    intro t₃ β t₃' hβ
    obtain ⟨-, ext, d, bs, hext, ⟨he1, he2, -⟩, ⟨hrp, -⟩, hd, hbs, hv⟩ := blindSign_elim hβ
    have hext' : extendCommitmentWithPk C (pick msgs R) pk bases (some R) t₃ = .ok (ext, t₃) := hext
    obtain ⟨-, -, -, -, hee⟩ := extend_elim hA (pick_nonneg hm R) hext'
    exact blind_verify_core hA cs hk hau hlen hm hr0 (hfull ext hee) ⟨he1, he2⟩ hrp hd hbs hv []

/-- "Strictly ascending hidden positions, revealed = the complement" is an instance of the partition
hypothesis of `issuance_complete`. -/
theorem perm_complement {n : Nat} {U : List Nat} (hs : U.Pairwise (· < ·)) (hU : ∀ i ∈ U, i < n) :
    (U ++ (List.range n).filter (fun i => !U.contains i)).Perm (List.range n) := by
  have hnd : U.Nodup := hs.imp (fun h => ne_of_lt h)
  have h1 : ((List.range n).filter (fun i => U.contains i)).Perm U := by
    refine (List.perm_ext_iff_of_nodup (List.nodup_range.filter _) hnd).2 ?_
    intro a
    simp only [List.mem_filter, List.mem_range, List.contains_iff_mem]
    constructor
    · exact fun h => h.2
    · exact fun h => ⟨hU a h, h⟩
  exact (h1.symm.append_right _).trans (List.filter_append_perm _ _)

/-- `issuance_complete` in the form "strictly ascending `U ⊆ [0,n)`, non-empty, `R` = its complement". -/
theorem issuance_complete_sorted (hA : ArithOK) (cs : Suite) (hR : RangeComplete cs) (pk : PublicKey)
    (sk : SecretKey) (bases msgs : List Int) (U : List Nat) (hk : KeysOK pk sk)
    (hau : ∀ a ∈ bases, Int.gcd a pk.N = 1) (hlen : msgs.length ≤ bases.length)
    (hm : ∀ m ∈ msgs, 0 ≤ m ∧ m < 2 ^ cs.lm)
    (hs : U.Pairwise (· < ·)) (hUn : ∀ i ∈ U, i < msgs.length) (hU : U ≠ [])
    (C : Commitment) (t₁ t₁' : List Draw)
    (hcommit : commitWithPk cs msgs pk bases (some U) t₁ = .ok (C, t₁'))
    (Ct : Option Commitment) (cpk : Option CommitmentPK)
    (hT : ∀ ct k, Ct = some ct → cpk = some k → TrustedOK cs msgs U ct k)
    (π : ZKPoK) (t₂ t₂' : List Draw)
    (hgen : zkpokGen cs msgs C Ct pk bases cpk U t₂ = .ok (π, t₂')) :
    let R := (List.range msgs.length).filter (fun i => !U.contains i)
    zkpokVerify cs π C.value (Ct.map Commitment.value) pk bases cpk U [] = .ok (true, []) ∧
    (∀ t₃, blindSign cs pk sk bases π (some (pick msgs R)) C (Ct.map Commitment.value) cpk U (some R) t₃
        ≠ .panic) ∧
    (∀ t₃ β t₃', blindSign cs pk sk bases π (some (pick msgs R)) C (Ct.map Commitment.value) cpk U
        (some R) t₃ = .ok (β, t₃') →
      verifyMultiattr cs (unblindSign β C) pk bases msgs [] = .ok (true, [])) :=
  issuance_complete hA cs hR pk sk bases msgs U _ hk hau hlen hm (perm_complement hs hUn) (fun _ => hU)
    C t₁ t₁' hcommit Ct cpk hT π t₂ t₂' hgen

/-- With nothing revealed, passing `None`/`None` or `Some([])`/`Some([])` to `blind_sign` is the same. -/
theorem blindSign_none_eq_nil (cs : Suite) (pk : PublicKey) (sk : SecretKey) (bases : List Int)
    (π : ZKPoK) (C : Commitment) (Ctv : Option Int) (cpk : Option CommitmentPK) (U : List Nat) :
    blindSign cs pk sk bases π none C Ctv cpk U none =
      blindSign cs pk sk bases π (some []) C Ctv cpk U (some []) := rfl

/-- the hypotheses on the keys and on the index lists are satisfiable (toy sizes) -/
example : KeysOK ⟨15, 4, 4⟩ ⟨3, 5⟩ :=
  ⟨Nat.prime_three, Nat.prime_five, by decide, by norm_num, by decide,
    by decide, by decide⟩
example : ([1] ++ [0, 2]).Perm (List.range [(7 : Int), 8, 9].length) := by decide
example : ([2, 0] ++ [1]).Perm (List.range 3) := by decide

/-! ### 5. Re-issuing after changing revealed attributes -/

/-- **`update_signature` is complete.** `msgs'` is the UPDATED vector (it agrees with the committed one
on the hidden positions `U`, which is what `hC` says); `β` is any blind signature with a usable `e`
(`blind_sign` outputs are, see `update_after_issuance`). The call returns (on every tape, consuming
nothing), keeps `e`, `r'`, and its unblinding verifies on the updated vector. -/
theorem update_complete (hA : ArithOK) (cs : Suite) (pk : PublicKey) (sk : SecretKey)
    (bases msgs' : List Int) (U R : List Nat) (hk : KeysOK pk sk)
    (hau : ∀ a ∈ bases, Int.gcd a pk.N = 1) (hlen : msgs'.length ≤ bases.length)
    (hm : ∀ m ∈ msgs', 0 ≤ m ∧ m < 2 ^ cs.lm)
    (hperm : (U ++ R).Perm (List.range msgs'.length))
    (C : Commitment) (hr0 : 0 ≤ C.randomness)
    (hC : C.value ≡ rep bases msgs' U * pk.b ^ C.randomness.toNat [ZMOD pk.N])
    (β : BlindSignature) (he : 2 ^ (cs.le - 1) < β.e ∧ β.e < 2 ^ cs.le)
    (hg : Int.gcd β.e ((sk.p - 1) * (sk.q - 1)) = 1) (hrp : 0 ≤ β.rprime) (t : List Draw) :
    ∃ β', updateSignature β (some (pick msgs' R)) C sk pk bases (some R) t = .ok (β', t) ∧
      β'.e = β.e ∧ β'.rprime = β.rprime ∧
      verifyMultiattr cs (unblindSign β' C) pk bases msgs' [] = .ok (true, []) := by
  have hN1 := hk.one_lt_N
  have hN : 0 < pk.N := by omega
  have hmem : ∀ i ∈ R, i < msgs'.length := by
    intro i hi
    have : i ∈ U ++ R := List.mem_append.2 (Or.inr hi)
    simpa using (hperm.mem_iff).1 this
  obtain ⟨ext, hext⟩ := extend_run hA C (revealed := pick msgs' R) (pk := pk) (bases := bases) (R := R) hN
    (pick_nonneg hm R) (by simp [pick]) (fun i hi => lt_of_lt_of_le (hmem i hi) hlen) t
  obtain ⟨-, -, -, -, hee⟩ := extend_elim hA (pick_nonneg hm R) hext
  obtain ⟨d, hd, hd0, -, -⟩ := invMod_of_gcd hA (phi_gt_one hk.hp hk.hq hk.hpq) hg
  have hext' : extOf C (some (pick msgs' R)) pk bases (some R) t = .ok (ext, t) := hext
  refine ⟨⟨β.e, β.rprime, (ext.value * (pk.b ^ β.rprime.toNat % pk.N) * pk.c) ^ d.toNat % pk.N⟩,
    ?_, rfl, rfl, ?_⟩
  · rw [updateSignature_eq, ClSigma.bind_of_ok hext', ClSigma.bind_of_ok (ClSigma.ofOpt_run hd t),
      ClSigma.bind_of_ok (pw_run_nonneg hA hN hrp t), ClSigma.bind_of_ok (pw_run_nonneg hA hN hd0 t)]
    rfl
  · have hfull : ext.value ≡ rep bases msgs' (List.range msgs'.length) * pk.b ^ C.randomness.toNat
        [ZMOD pk.N] := by
      rw [repZip_pick] at hee
      refine hee.trans ((hC.mul_right _).trans ?_)
      rw [← rep_perm bases msgs' hperm, rep_append]
      have : rep bases msgs' U * pk.b ^ C.randomness.toNat * rep bases msgs' R =
          rep bases msgs' U * rep bases msgs' R * pk.b ^ C.randomness.toNat := by ring
      rw [this]
    exact blind_verify_core hA cs hk hau hlen hm
      (β := ⟨β.e, β.rprime, (ext.value * (pk.b ^ β.rprime.toNat % pk.N) * pk.c) ^ d.toNat % pk.N⟩)
      hr0 hfull he hrp hd (hA.powMod_nonneg _ _ _ hN hrp) (hA.powMod_nonneg _ _ _ hN hd0) []

/-- **Issue, then re-issue with other revealed attributes.** After a successful issuance on `msgs`
(commitment `C` to the hidden positions `U`, blind signature `β`), `update_signature` with the revealed
attributes of any vector `msgs'` that agrees with `msgs` on the hidden positions returns a blind signature
whose unblinding verifies on `msgs'`. -/
theorem update_after_issuance (hA : ArithOK) (cs : Suite) (pk : PublicKey) (sk : SecretKey)
    (bases msgs msgs' : List Int) (U R : List Nat) (hk : KeysOK pk sk)
    (hau : ∀ a ∈ bases, Int.gcd a pk.N = 1) (hlen : msgs'.length ≤ bases.length)
    (hm : ∀ m ∈ msgs, 0 ≤ m ∧ m < 2 ^ cs.lm) (hm' : ∀ m ∈ msgs', 0 ≤ m ∧ m < 2 ^ cs.lm)
    (hperm : (U ++ R).Perm (List.range msgs'.length))
    (hsame : ∀ i ∈ U, msgs'.getD i 0 = msgs.getD i 0)
    (C : Commitment) (t₁ t₁' : List Draw)
    (hcommit : commitWithPk cs msgs pk bases (some U) t₁ = .ok (C, t₁'))
    (π : ZKPoK) (rev : Option (List Int)) (Ctv : Option Int) (cpk : Option CommitmentPK)
    (ri : Option (List Nat)) (β : BlindSignature) (t₃ t₃' : List Draw)
    (hβ : blindSign cs pk sk bases π rev C Ctv cpk U ri t₃ = .ok (β, t₃')) (t : List Draw) :
    ∃ β', updateSignature β (some (pick msgs' R)) C sk pk bases (some R) t = .ok (β', t) ∧
      verifyMultiattr cs (unblindSign β' C) pk bases msgs' [] = .ok (true, []) := by
  obtain ⟨hr0, -, -, -, hCe, -, -⟩ := commitWithPk_elim (uo := some U) hA
    (fun i _ => (getD_inRange hm i).1) hcommit
  simp only [Option.getD_some] at hCe
  rw [← rep_congr bases hsame] at hCe
  obtain ⟨-, -, -, -, -, ⟨he1, he2, hg⟩, ⟨hrp, -⟩, -⟩ := blindSign_elim hβ
  obtain ⟨β', h1, -, -, h2⟩ := update_complete hA cs pk sk bases msgs' U R hk hau hlen hm' hperm C hr0 hCe β
    ⟨he1, he2⟩ hg hrp t
  exact ⟨β', h1, h2⟩

/-- **Valid for the updated vector only.** If one signature `σ` (for instance the unblinded updated
signature) is accepted both for `msgs'` and for a vector `msgs` of the same length that differs from it
exactly at position `j` (a changed revealed attribute), then `a_j^{m_j} ≡ a_j^{m'_j} (mod N)`, i.e. a
non-zero multiple `|m_j - m'_j| < 2^lm` of the order of `a_j` is known: the event `OrderRelation N a_j`.
For all `σ`, all tapes. -/
theorem update_valid_only (hA : ArithOK) {cs : Suite} {σ : Signature} {pk : PublicKey}
    {bases msgs msgs' : List Int} (hN : 1 < pk.N) (hbu : Int.gcd pk.b pk.N = 1)
    (hcu : Int.gcd pk.c pk.N = 1) (hau : ∀ a ∈ bases, Int.gcd a pk.N = 1)
    (hlen : msgs.length = msgs'.length) (j : Nat) (hj : j < msgs.length)
    (hagree : ∀ i, i ≠ j → msgs.getD i 0 = msgs'.getD i 0) (hne : msgs.getD j 0 ≠ msgs'.getD j 0)
    {t₁ t₁' t₂ t₂' : List Draw}
    (h₁ : verifyMultiattr cs σ pk bases msgs' t₁ = .ok (true, t₁'))
    (h₂ : verifyMultiattr cs σ pk bases msgs t₂ = .ok (true, t₂')) :
    bases.getD j 1 ^ (msgs.getD j 0).toNat ≡ bases.getD j 1 ^ (msgs'.getD j 0).toNat [ZMOD pk.N] ∧
      OrderRelation pk.N (bases.getD j 1) := by
  have h := verify_two_vectors hA hN hbu hcu h₂ h₁
  obtain ⟨-, hm, -⟩ := verifyMultiattr_true_elim hA h₂
  obtain ⟨-, hm', -⟩ := verifyMultiattr_true_elim hA h₁
  rw [← hlen] at h
  have hp : (List.range msgs.length).Perm (j :: (List.range msgs.length).erase j) :=
    List.perm_cons_erase (List.mem_range.2 hj)
  have hnj : j ∉ (List.range msgs.length).erase j := List.Nodup.not_mem_erase List.nodup_range
  rw [rep_perm bases msgs hp, rep_perm bases msgs' hp, rep_cons, rep_cons,
    rep_congr bases (m₁ := msgs) (m₂ := msgs') (fun i hi => hagree i (fun e => by subst e; exact hnj hi))] at h
  have hcong := modEq_cancel_right (cop_rep hau msgs' _) h
  exact ⟨hcong, order_of_pow_eq (cop_getD hau j) (getD_inRange hm j).1 (getD_inRange hm' j).1 hne hcong⟩

/-! ### 2. Special soundness (statements; proofs in `Lemmas/ClSigma.lean`)

`ClSigma.Nisp2secAccepts g h n C π c` is the verifier's equation with an explicit challenge `c`
(`nisp2secVerify_true_iff`: the verifier uses `c = hashInts [g, h, C, t]`).
* `ClSigma.nisp2sec_special_sound`: two accepting transcripts `(t, s1, s2, c)`, `(t, s1', s2', c')` give
  `G^{s1-s1'} · H^{s2-s2'} = C^{c-c'}` in `(ℤ/n)ˣ`.
* `ClSigma.nisp2sec_extract`: `C = G^m H^r ∨ SmallOrderUnit n (c-c') ∨ ChallengeNotDividing (c-c') Δs1 Δs2`
  (the last is the strong-RSA event: in an RSA group one cannot divide exponents by `c - c'`).
* `ClSigma.nispMulti_special_sound`: the same for `nispMultiSecrets`, with `Π_j A_{U_j}^{Δs1_j} · B^{Δs2}`.
They are restated here in `ℤ` for non-negative responses. -/

/-- Special soundness of `nisp2sec` read in `ℤ`, for non-negative responses and challenges (no division,
no inverse): `g^{s1} h^{s2} C^{c'} ≡ g^{s1'} h^{s2'} C^{c} (mod n)`, i.e. `g^{s1-s1'} h^{s2-s2'} ≡ C^{c-c'}`. -/
theorem nisp2sec_special_sound_int (hA : ArithOK) {g h n cv c c' : Int} {π π' : NISPSecrets}
    (hn : 1 < n) (hg : Int.gcd g n = 1) (hh : Int.gcd h n = 1) (hc : Int.gcd cv n = 1)
    (ht : π.t = π'.t) (h1 : 0 ≤ π.s1) (h2 : 0 ≤ π.s2) (h1' : 0 ≤ π'.s1) (h2' : 0 ≤ π'.s2)
    (hc0 : 0 ≤ c) (hc0' : 0 ≤ c')
    (hacc : Nisp2secAccepts g h n cv π c) (hacc' : Nisp2secAccepts g h n cv π' c') :
    g ^ π.s1.toNat * h ^ π.s2.toNat * cv ^ c'.toNat ≡
      g ^ π'.s1.toNat * h ^ π'.s2.toNat * cv ^ c.toNat [ZMOD n] := by
  have hn0 : 0 < n := by omega
  obtain ⟨a, b, cc, ha, hb, hcc, heq⟩ := hacc
  obtain ⟨a', b', cc', ha', hb', hcc', heq'⟩ := hacc'
  rw [hA.powMod_nonneg _ _ _ hn0 h1] at ha
  rw [hA.powMod_nonneg _ _ _ hn0 h2] at hb
  rw [hA.powMod_nonneg _ _ _ hn0 hc0] at hcc
  rw [hA.powMod_nonneg _ _ _ hn0 h1'] at ha'
  rw [hA.powMod_nonneg _ _ _ hn0 h2'] at hb'
  rw [hA.powMod_nonneg _ _ _ hn0 hc0'] at hcc'
  obtain rfl := Option.some.inj ha
  obtain rfl := Option.some.inj hb
  obtain rfl := Option.some.inj hcc
  obtain rfl := Option.some.inj ha'
  obtain rfl := Option.some.inj hb'
  obtain rfl := Option.some.inj hcc'
  -- `G·H ≡ t·C^c`, `G'·H' ≡ t·C^{c'}`
  have e : g ^ π.s1.toNat * h ^ π.s2.toNat ≡ π.t * cv ^ c.toNat [ZMOD n] := by
    have l := (tmod_modEq (g ^ π.s1.toNat % n * (h ^ π.s2.toNat % n)) n).symm
    rw [heq] at l
    exact (((Int.mod_modEq _ _).mul (Int.mod_modEq _ _)).symm.trans l).trans
      ((tmod_modEq _ _).trans ((Int.mod_modEq _ _).mul_left _))
  have e' : g ^ π'.s1.toNat * h ^ π'.s2.toNat ≡ π.t * cv ^ c'.toNat [ZMOD n] := by
    have l := (tmod_modEq (g ^ π'.s1.toNat % n * (h ^ π'.s2.toNat % n)) n).symm
    rw [heq', ← ht] at l
    exact (((Int.mod_modEq _ _).mul (Int.mod_modEq _ _)).symm.trans l).trans
      ((tmod_modEq _ _).trans ((Int.mod_modEq _ _).mul_left _))
  calc g ^ π.s1.toNat * h ^ π.s2.toNat * cv ^ c'.toNat
      ≡ π.t * cv ^ c.toNat * cv ^ c'.toNat [ZMOD n] := e.mul_right _
    _ = π.t * cv ^ c'.toNat * cv ^ c.toNat := by ring
    _ ≡ g ^ π'.s1.toNat * h ^ π'.s2.toNat * cv ^ c.toNat [ZMOD n] := (e'.symm).mul_right _

/-! ### 6. The proof is bound to the commitment, the bases and the hidden positions -/

/-- The challenge of the multi-secret proof is the hash of `(a_U, b, C, t)`: two different statements
(bases at the hidden positions, `b`, commitment value) with the same first message `t` get different
challenges, unless `ConcatAmbiguity ∨ ClHashCollision`. (The decimal strings are concatenated without
separators, so `ConcatAmbiguity` is a real possibility, e.g. `[12, 3]` vs `[1, 23]`.) -/
theorem challenge_binds_statement {as as' : List Int} {b b' C C' t : Int}
    (hne : ¬ (as = as' ∧ b = b' ∧ C = C'))
    (h : hashInts (as ++ [b, C, t]) = hashInts (as' ++ [b', C', t])) :
    ConcatAmbiguity ∨ ClHashCollision := by
  refine hashInts_collision ?_ h
  intro he
  apply hne
  have := List.append_inj' he (by simp)
  obtain ⟨h1, h2⟩ := this
  simp only [List.cons.injEq, and_true] at h2
  exact ⟨h1, h2.1, h2.2⟩

/-- **Mismatching commitment.** If the same multi-secret proof `π` is accepted against two commitment
values `C` and `C'` (same key, bases, hidden positions; all units), then with the two challenges
`c = H(a_U, b, C, t)`, `c' = H(a_U, b, C', t)`: `C^c ≡ C'^{c'} (mod N)`. Moreover if `C ≠ C'` the two
challenges are different unless `ConcatAmbiguity ∨ ClHashCollision`. So accepting `π` for another
commitment requires a commitment value `C'` whose `H(.., C', ..)`-th power hits the fixed element `C^c`
(for `c' = c` this forces `(C/C')^c = 1`).  Nothing stronger holds unconditionally. -/
theorem zkpok_mismatch_commitment (hA : ArithOK) {pk : PublicKey} {bases : List Int} {U : List Nat}
    {π : NISPMultiSecrets} {C C' : Int} (hN : 1 < pk.N) (hbu : Int.gcd pk.b pk.N = 1)
    (hau : ∀ a ∈ bases, Int.gcd a pk.N = 1) (hCu : Int.gcd C pk.N = 1)
    {s s₁ s' s₁' : List Draw}
    (h : nispMultiSecretsVerify π C pk bases (some U) s = .ok (true, s₁))
    (h' : nispMultiSecretsVerify π C' pk bases (some U) s' = .ok (true, s₁')) :
    C ^ (hashInts (U.map (fun i => bases.getD i 1) ++ [pk.b, C, π.t])).toNat ≡
        C' ^ (hashInts (U.map (fun i => bases.getD i 1) ++ [pk.b, C', π.t])).toNat [ZMOD pk.N] ∧
      (C ≠ C' →
        hashInts (U.map (fun i => bases.getD i 1) ++ [pk.b, C, π.t]) =
          hashInts (U.map (fun i => bases.getD i 1) ++ [pk.b, C', π.t]) →
        ConcatAmbiguity ∨ ClHashCollision) := by
  have hN0 : 0 < pk.N := by omega
  obtain ⟨-, -, -, x, hs, cc, hx, hhs, hcc, heq⟩ := (nispMultiSecretsVerify_true_iff _ _ _ _ _ _ _).1 h
  obtain ⟨-, -, -, x', hs', cc', hx', hhs', hcc', heq'⟩ :=
    (nispMultiSecretsVerify_true_iff _ _ _ _ _ _ _).1 h'
  rw [hx] at hx'
  simp only [CRes.ok.injEq, Prod.mk.injEq, and_true] at hx'
  subst hx'
  rw [hhs] at hhs'
  obtain rfl := Option.some.inj hhs'
  rw [hA.powMod_nonneg _ _ _ hN0 (hashInts_nonneg _)] at hcc hcc'
  obtain rfl := Option.some.inj hcc
  obtain rfl := Option.some.inj hcc'
  refine ⟨?_, fun hne hc => challenge_binds_statement (by tauto) hc⟩
  -- `t · C^c ≡ x·hs ≡ t · C'^{c'}` and `t` is a unit
  have rx := prodPowZip_isRep hA hN hau U π.s1 1 x [] [] 1 (by unfold IsRep; simp) hx
  have rb := powMod_isRep hA hN hbu (unitOf_spec hN hbu) hhs
  have hxu : IsCoprime (x * hs) pk.N := ((rx.mul rb)).cop hN
  have e1 : π.t * (C ^ (hashInts (U.map (fun i => bases.getD i 1) ++ [pk.b, C, π.t])).toNat % pk.N) ≡
      x * hs [ZMOD pk.N] := by
    have l := tmod_modEq (x * hs) pk.N
    rw [heq] at l
    exact (tmod_modEq _ _).symm.trans l
  have e2 : π.t * (C' ^ (hashInts (U.map (fun i => bases.getD i 1) ++ [pk.b, C', π.t])).toNat % pk.N) ≡
      x * hs [ZMOD pk.N] := by
    have l := tmod_modEq (x * hs) pk.N
    rw [heq'] at l
    exact (tmod_modEq _ _).symm.trans l
  have htu : IsCoprime π.t pk.N := IsCoprime.of_mul_left_left (cop_of_modEq e1 hxu)
  have e3 := modEq_cancel_left htu (e1.trans e2.symm)
  exact (Int.mod_modEq _ _).symm.trans (e3.trans (Int.mod_modEq _ _))

/-- The same at the level of `ZKPoK::verify_proof` (what `blind_sign` checks): one `ZKPoK` accepted for two
commitment values. -/
theorem zkpok_mismatch (hA : ArithOK) {cs : Suite} {π : ZKPoK} {C C' : Int} {Ctv Ctv' : Option Int}
    {pk : PublicKey} {bases : List Int} {cpk cpk' : Option CommitmentPK} {U : List Nat}
    (hN : 1 < pk.N) (hbu : Int.gcd pk.b pk.N = 1) (hau : ∀ a ∈ bases, Int.gcd a pk.N = 1)
    (hCu : Int.gcd C pk.N = 1) {s s₁ s' s₁' : List Draw}
    (h : zkpokVerify cs π C Ctv pk bases cpk U s = .ok (true, s₁))
    (h' : zkpokVerify cs π C' Ctv' pk bases cpk' U s' = .ok (true, s₁')) :
    C ^ (hashInts (U.map (fun i => bases.getD i 1) ++ [pk.b, C, π.proofMsgs.t])).toNat ≡
        C' ^ (hashInts (U.map (fun i => bases.getD i 1) ++ [pk.b, C', π.proofMsgs.t])).toNat
          [ZMOD pk.N] ∧
      (C ≠ C' →
        hashInts (U.map (fun i => bases.getD i 1) ++ [pk.b, C, π.proofMsgs.t]) =
          hashInts (U.map (fun i => bases.getD i 1) ++ [pk.b, C', π.proofMsgs.t]) →
        ConcatAmbiguity ∨ ClHashCollision) :=
  zkpok_mismatch_commitment hA hN hbu hau hCu (zkpokVerify_true_elim h).1 (zkpokVerify_true_elim h').1

/-- **Limit of the gate (finding).** `ZKPoK::verify_proof` is a conjunction of independent checks
(`ClSigma.zkpokVerify_true_iff`): the per-attribute proofs of knowledge, their range proofs and the
proof / range proof for the randomness are verified against commitments carried INSIDE the proof, and
nothing ties those commitments (nor `range_proof.E`) to the commitment `C` being signed. Formally: the
per-attribute / range / randomness parts of ANY accepted proof `π'` (for another commitment `C'`, i.e. for
other attribute values and another randomness, same bases and positions) can be transplanted into a proof
`π` accepted for `C`, and the hybrid is accepted for `C`. Hence what gates the issuer with respect to `C`
is `proof_commited_msgs` (and `proof_C_Ctrusted`) only; the range statements `0 ≤ m_i < 2^lm`,
`0 ≤ r < 2^ln` are proved about unrelated values. -/
theorem zkpok_parts_unbound {cs : Suite} {π π' : ZKPoK} {C C' : Int} {Ctv Ctv' : Option Int}
    {pk : PublicKey} {bases : List Int} {cpk cpk' : Option CommitmentPK} {U : List Nat}
    {t t₁ t' t₁' : List Draw}
    (h : zkpokVerify cs π C Ctv pk bases cpk U t = .ok (true, t₁))
    (h' : zkpokVerify cs π' C' Ctv' pk bases cpk' U t' = .ok (true, t₁')) :
    zkpokVerify cs ⟨π.proofCCtrusted, π.proofMsgs, π'.proofsMi, π'.rangeProofsMi, π'.proofR,
      π'.rangeProofR⟩ C Ctv pk bases cpk U [] = .ok (true, []) := by
  obtain ⟨-, hT, h1, -, -⟩ := zkpokVerify_true_iff.1 h
  obtain ⟨-, -, -, h2', h3'⟩ := zkpokVerify_true_iff.1 h'
  refine zkpokVerify_true_iff.2 ⟨rfl, hT, h1, ?_, h3'⟩
  have e := zkMiVerifyLoop_congr cs pk bases
    (π := ⟨π.proofCCtrusted, π.proofMsgs, π'.proofsMi, π'.rangeProofsMi, π'.proofR, π'.rangeProofR⟩)
    (π' := π') rfl rfl U 0
  rw [e]
  exact h2'

/-! ### 7. Discharging the range-proof hypothesis (C16) and the generated suites -/

/-- `RangeComplete` follows from the C16 completeness theorem `Zk.ClRange.range_complete`. -/
theorem rangeComplete (hA : ArithOK) (cs : Suite) : RangeComplete cs := by
  intro x c g h n lo hi t t' π hn hg hh hx hr _ hC hc0 hcn _ _ hp
  obtain ⟨u, hu⟩ := Zk.ClRange.rep_of_gcd hn hg
  obtain ⟨v, hv⟩ := Zk.ClRange.rep_of_gcd hn hh
  have hc : Zk.ClRange.Rep n c.value (u ^ x * v ^ c.randomness) := by
    have h1 := (hu.pow x.toNat).mul (hv.pow c.randomness.toNat)
    have hx' : u ^ x = u ^ x.toNat := by
      conv_lhs => rw [← Int.toNat_of_nonneg hx]
      exact zpow_natCast u _
    have hr' : v ^ c.randomness = v ^ c.randomness.toNat := by
      conv_lhs => rw [← Int.toNat_of_nonneg hr]
      exact zpow_natCast v _
    rw [hx', hr']
    unfold Zk.ClRange.Rep at *
    rw [← h1]
    exact (ZMod.intCast_eq_intCast_iff _ _ _).2 (by rw [Zk.ClRange.natCast_toNat hn]; exact hC)
  exact (Zk.ClRange.range_complete hA cs hn hu hv hc ⟨hc0, hcn⟩ hp []).1

/-! ### canonical representatives: issued and updated signatures carry the reduced `v` -/

/-- Whatever `verify_multiattr` accepts has `0 < v < N` (the check added to the verifier). -/
theorem accepted_v_reduced (hA : ArithOK) {cs : Suite} {σ : Signature} {pk : PublicKey}
    {bases msgs : List Int} {t t' : List Draw}
    (h : verifyMultiattr cs σ pk bases msgs t = .ok (true, t')) : 0 < σ.v ∧ σ.v < pk.N :=
  (verifyMultiattr_true_elim hA h).2.2.2.1

/-- **`blind_sign` outputs are reduced**: under the hypotheses of `issuance_complete`, every blind
signature returned by the issuer has `0 < v < N` (it is a `pow_mod` result of a unit), and so has its
unblinding (`unblind_sign` keeps `v`). -/
theorem blindSign_v_reduced (hA : ArithOK) (cs : Suite) (pk : PublicKey)
    (sk : SecretKey) (bases msgs : List Int) (U R : List Nat) (hk : KeysOK pk sk)
    (hau : ∀ a ∈ bases, Int.gcd a pk.N = 1) (hlen : msgs.length ≤ bases.length)
    (hm : ∀ m ∈ msgs, 0 ≤ m ∧ m < 2 ^ cs.lm)
    (hperm : (U ++ R).Perm (List.range msgs.length)) (hU : msgs.length = 1 → U ≠ [])
    (C : Commitment) (t₁ t₁' : List Draw)
    (hcommit : commitWithPk cs msgs pk bases (some U) t₁ = .ok (C, t₁'))
    (Ct : Option Commitment) (cpk : Option CommitmentPK)
    (hT : ∀ ct k, Ct = some ct → cpk = some k → TrustedOK cs msgs U ct k)
    (π : ZKPoK) (t₂ t₂' : List Draw)
    (hgen : zkpokGen cs msgs C Ct pk bases cpk U t₂ = .ok (π, t₂'))
    (t₃ : List Draw) (β : BlindSignature) (t₃' : List Draw)
    (hβ : blindSign cs pk sk bases π (some (pick msgs R)) C (Ct.map Commitment.value) cpk U (some R) t₃
      = .ok (β, t₃')) :
    (0 < β.v ∧ β.v < pk.N) ∧ (unblindSign β C).v = β.v :=
  ⟨accepted_v_reduced hA ((issuance_complete hA cs (rangeComplete hA cs) pk sk bases msgs U R hk hau hlen
    hm hperm hU C t₁ t₁' hcommit Ct cpk hT π t₂ t₂' hgen).2.2 t₃ β t₃' hβ), rfl⟩

/-- **`update_signature` outputs are reduced**: under the hypotheses of `update_complete`, whatever
`update_signature` returns has `0 < v < N`. -/
theorem updateSignature_v_reduced (hA : ArithOK) (cs : Suite) (pk : PublicKey) (sk : SecretKey)
    (bases msgs' : List Int) (U R : List Nat) (hk : KeysOK pk sk)
    (hau : ∀ a ∈ bases, Int.gcd a pk.N = 1) (hlen : msgs'.length ≤ bases.length)
    (hm : ∀ m ∈ msgs', 0 ≤ m ∧ m < 2 ^ cs.lm)
    (hperm : (U ++ R).Perm (List.range msgs'.length))
    (C : Commitment) (hr0 : 0 ≤ C.randomness)
    (hC : C.value ≡ rep bases msgs' U * pk.b ^ C.randomness.toNat [ZMOD pk.N])
    (β : BlindSignature) (he : 2 ^ (cs.le - 1) < β.e ∧ β.e < 2 ^ cs.le)
    (hg : Int.gcd β.e ((sk.p - 1) * (sk.q - 1)) = 1) (hrp : 0 ≤ β.rprime) (t t' : List Draw)
    (β' : BlindSignature)
    (hβ' : updateSignature β (some (pick msgs' R)) C sk pk bases (some R) t = .ok (β', t')) :
    0 < β'.v ∧ β'.v < pk.N := by
  obtain ⟨β'', h1, -, -, h2⟩ := update_complete hA cs pk sk bases msgs' U R hk hau hlen hm hperm C hr0 hC β
    he hg hrp t
  rw [h1] at hβ'
  simp only [CRes.ok.injEq, Prod.mk.injEq] at hβ'
  obtain ⟨rfl, -⟩ := hβ'
  exact accepted_v_reduced hA h2

/-- **Blind issuance is complete for every hidden set** — `issuance_complete` with the range-proof
hypothesis discharged: it only assumes `ArithOK`. -/
theorem issuance_complete' (hA : ArithOK) (cs : Suite) (pk : PublicKey)
    (sk : SecretKey) (bases msgs : List Int) (U R : List Nat) (hk : KeysOK pk sk)
    (hau : ∀ a ∈ bases, Int.gcd a pk.N = 1) (hlen : msgs.length ≤ bases.length)
    (hm : ∀ m ∈ msgs, 0 ≤ m ∧ m < 2 ^ cs.lm)
    (hperm : (U ++ R).Perm (List.range msgs.length)) (hU : msgs.length = 1 → U ≠ [])
    (C : Commitment) (t₁ t₁' : List Draw)
    (hcommit : commitWithPk cs msgs pk bases (some U) t₁ = .ok (C, t₁'))
    (Ct : Option Commitment) (cpk : Option CommitmentPK)
    (hT : ∀ ct k, Ct = some ct → cpk = some k → TrustedOK cs msgs U ct k)
    (π : ZKPoK) (t₂ t₂' : List Draw)
    (hgen : zkpokGen cs msgs C Ct pk bases cpk U t₂ = .ok (π, t₂')) :
    zkpokVerify cs π C.value (Ct.map Commitment.value) pk bases cpk U [] = .ok (true, []) ∧
    (∀ t₃, blindSign cs pk sk bases π (some (pick msgs R)) C (Ct.map Commitment.value) cpk U (some R) t₃
        ≠ .panic) ∧
    (∀ t₃ β t₃', blindSign cs pk sk bases π (some (pick msgs R)) C (Ct.map Commitment.value) cpk U
        (some R) t₃ = .ok (β, t₃') →
      verifyMultiattr cs (unblindSign β C) pk bases msgs [] = .ok (true, [])) :=
  issuance_complete hA cs (rangeComplete hA cs) pk sk bases msgs U R hk hau hlen hm hperm hU C t₁ t₁'
    hcommit Ct cpk hT π t₂ t₂' hgen

end Zk.C14
