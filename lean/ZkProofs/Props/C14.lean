/-
C14  CL03 blind issuance works for every hidden-attribute set and is gated.

All theorems are about the L1 model `ZkModel/L1/Cl.lean` (concrete over `Int`, random draws read from a
tape). Arithmetic facts about the L0 primitives enter only through `(hA : ArithOK)`; the completeness of
the Boudot range proofs embedded in the issuance proof of knowledge enters only through the named
hypothesis `(hR : RangeComplete cs)` (property C16).  `cs : Suite` is arbitrary.

Sigma-protocol completeness (`nisp2sec_complete`, `nispMultiSecrets_complete`, `nisp2_complete`) and the
supporting lemmas are in `ZkProofs/Lemmas/ClSigma.lean` and re-exported here.
-/
import ZkProofs.Lemmas.ClSigma
set_option linter.unusedSectionVars false
set_option linter.unusedVariables false
namespace Zk.C14
open Zk.Cl Zk.IA Zk.ClSigma

/-! ### 1. Sigma-protocol completeness (see `Lemmas/ClSigma.lean` for the proofs) -/

/-- `nisp2sec`: knowledge of `(m, r)` with `C = g^m h^r (mod n)`; accepted for every tape on which the
prover returns. -/
theorem nisp2sec_complete (hA : ArithOK) (cs : Suite) (m : Int) (c : Commitment) (g h n : Int)
    (t t' : List Draw) (π : NISPSecrets) (hm : 0 ≤ m) (hr : 0 ≤ c.randomness)
    (hC : c.value ≡ g ^ m.toNat * h ^ c.randomness.toNat [ZMOD n])
    (hgen : nisp2secGen cs m c g h n t = .ok (π, t')) :
    nisp2secVerify π c.value g h n [] = .ok (true, []) :=
  ClSigma.nisp2sec_complete hA cs m c g h n t t' π hm hr hC hgen []

/-- `nispMultiSecrets` for every hidden index list `U` (any positions). -/
theorem nispMultiSecrets_complete (hA : ArithOK) (cs : Suite) (msgs : List Int) (c : Commitment)
    (pk : PublicKey) (bases : List Int) (U : List Nat) (t t' : List Draw) (π : NISPMultiSecrets)
    (hU : msgs.length ≠ 1 ∨ U = [0]) (hm : ∀ i ∈ U, 0 ≤ msgs.getD i 0) (hr : 0 ≤ c.randomness)
    (hC : c.value ≡ rep bases msgs U * pk.b ^ c.randomness.toNat [ZMOD pk.N])
    (hgen : nispMultiSecretsGen cs msgs c pk bases (some U) t = .ok (π, t')) :
    nispMultiSecretsVerify π c.value pk bases (some U) [] = .ok (true, []) :=
  ClSigma.nispMultiSecrets_complete hA cs msgs c pk bases (some U) t t' π (by simpa using hU)
    (by simpa using hm) hr (by simpa using hC) hgen []

/-- `nisp2`: the same hidden attributes under two commitments (two moduli). -/
theorem nisp2_complete (hA : ArithOK) (cs : Suite) (msgs : List Int) (c1 c2 : Commitment)
    (pk : PublicKey) (bases : List Int) (cpk : CommitmentPK) (U : List Nat) (t t' : List Draw)
    (π : NISP2Commitments) (hN1 : 1 < pk.N) (hN2 : 1 < cpk.N)
    (hm : ∀ i ∈ U, 0 ≤ msgs.getD i 0) (hr1 : 0 ≤ c1.randomness) (hr2 : 0 ≤ c2.randomness)
    (hC1 : c1.value ≡ rep bases msgs U * pk.b ^ c1.randomness.toNat [ZMOD pk.N])
    (hC2 : c2.value ≡ rep cpk.gBases msgs U * cpk.h ^ c2.randomness.toNat [ZMOD cpk.N])
    (hu1 : Int.gcd c1.value pk.N = 1) (hu2 : Int.gcd c2.value cpk.N = 1)
    (hgen : nisp2Gen cs msgs c1 c2 pk bases cpk U t = .ok (π, t')) :
    nisp2Verify π c1.value c2.value pk bases cpk U [] = .ok (true, []) :=
  ClSigma.nisp2_complete hA cs msgs c1 c2 pk bases cpk U t t' π hN1 hN2 hm hr1 hr2 hC1 hC2 hu1 hu2 hgen []

/-! ### 4. The issuer is gated by the proof of knowledge -/

/-- **Gate.** For all inputs and all tapes: if `blind_sign` returns, the proof of knowledge verified
against exactly the commitment value, trusted commitment value, key, bases, commitment key and hidden
positions that the issuer was given. -/
theorem issuer_gated (cs : Suite) (pk : PublicKey) (sk : SecretKey) (bases : List Int) (π : ZKPoK)
    (revealed : Option (List Int)) (C : Commitment) (Ctv : Option Int) (cpk : Option CommitmentPK)
    (U : List Nat) (revIdx : Option (List Nat)) (β : BlindSignature) (t t' : List Draw)
    (h : blindSign cs pk sk bases π revealed C Ctv cpk U revIdx t = .ok (β, t')) :
    zkpokVerify cs π C.value Ctv pk bases cpk U [] = .ok (true, []) :=
  (zkpokVerify_tapeFree _ _ _ _ _ _ _ _).ok_any (blindSign_elim h).1 []

/-- **Refusal.** If the proof does not verify (returns `false` or panics) for the given commitment,
bases, hidden positions and trusted commitment, `blind_sign` panics on every tape: nothing is signed. -/
theorem issuer_refuses (cs : Suite) (pk : PublicKey) (sk : SecretKey) (bases : List Int) (π : ZKPoK)
    (revealed : Option (List Int)) (C : Commitment) (Ctv : Option Int) (cpk : Option CommitmentPK)
    (U : List Nat) (revIdx : Option (List Nat))
    (h : zkpokVerify cs π C.value Ctv pk bases cpk U [] ≠ .ok (true, [])) (t : List Draw) :
    blindSign cs pk sk bases π revealed C Ctv cpk U revIdx t = .panic := by
  rw [blindSign_eq]
  rcases zkpokVerify_tapeFree cs π C.value Ctv pk bases cpk U with ⟨b, hb⟩ | hp
  · cases b with
    | true => exact absurd (hb []) h
    | false => rw [bind_of_ok (hb t)]; rfl
  · rw [bind_run, hp t]

/-! ### 3. Issuance completeness -/

theorem getD_inRange {cs : Suite} {msgs : List Int} (hm : ∀ m ∈ msgs, 0 ≤ m ∧ m < 2 ^ cs.lm) (i : Nat) :
    0 ≤ msgs.getD i 0 ∧ msgs.getD i 0 < 2 ^ cs.lm := by
  rw [List.getD_eq_getElem?_getD]
  cases h : msgs[i]? with
  | none => exact ⟨le_refl 0, by positivity⟩
  | some a => exact hm a (List.mem_of_getElem? h)

theorem pick_nonneg {cs : Suite} {msgs : List Int} (hm : ∀ m ∈ msgs, 0 ≤ m ∧ m < 2 ^ cs.lm)
    (R : List Nat) : ∀ m ∈ pick msgs R, 0 ≤ m := by
  intro m h
  simp only [pick, List.mem_map] at h
  obtain ⟨i, -, rfl⟩ := h
  exact (getD_inRange hm i).1

/-- With one message and a partition `U ++ R` of `[0]`, a non-empty `U` is `[0]`. -/
theorem hidden_single {n : Nat} {U R : List Nat} (hperm : (U ++ R).Perm (List.range n))
    (hU : n = 1 → U ≠ []) : n ≠ 1 ∨ U = [0] := by
  by_cases h1 : n = 1
  · right
    subst h1
    have h := List.perm_singleton.1 (by simpa using hperm)
    cases U with
    | nil => exact absurd rfl (hU rfl)
    | cons a U' =>
      simp only [List.cons_append, List.cons.injEq, List.append_eq_nil_iff] at h
      rw [h.1, h.2.1]
  · exact Or.inl h1

/-- A trusted-party commitment to the same hidden attributes under a well-formed commitment key. -/
structure TrustedOK (cs : Suite) (msgs : List Int) (U : List Nat) (ct : Commitment) (k : CommitmentPK) :
    Prop where
  hN : 1 < k.N
  hh : Int.gcd k.h k.N = 1
  hg : ∀ g ∈ k.gBases, Int.gcd g k.N = 1
  hcommit : ∃ t t', commitWithCpk cs msgs k (some U) t = .ok (ct, t')

/-- **Blind issuance is complete for every hidden set.**

`msgs` are `n` attributes in `[0, 2^lm)`; `U` (hidden) and `R` (revealed) are ANY two index lists that
together enumerate `0..n-1` (`(U ++ R).Perm (List.range n)`: any positions, any order; in particular `U`
strictly ascending and `R` its complement); keys are well formed. If the holder's `commit_with_pk` and
`ZKPoK::generate_proof` return (whatever the random draws), with or without a trusted-party commitment,
then
  (a) the issuer's check `verify_proof` accepts,
  (b) `blind_sign` does not panic on any tape (it can only report a tape-contract error), and
  (c) whenever it returns `β`, the unblinded signature verifies on the FULL attribute vector.
The per-attribute sub-proofs use the base `a_i` of the hidden position `i` on both sides. -/
theorem issuance_complete (hA : ArithOK) (cs : Suite) (hR : RangeComplete cs) (pk : PublicKey)
    (sk : SecretKey) (bases msgs : List Int) (U R : List Nat) (hk : KeysOK pk sk)
    (hau : ∀ a ∈ bases, Int.gcd a pk.N = 1) (hlen : msgs.length ≤ bases.length)
    (hm : ∀ m ∈ msgs, 0 ≤ m ∧ m < 2 ^ cs.lm)
    (hperm : (U ++ R).Perm (List.range msgs.length)) (hU : msgs.length = 1 → U ≠ [])
    (C : Commitment) (t₁ t₁' : List Draw)
    (hcommit : commitWithPk cs msgs pk bases (some U) t₁ = .ok (C, t₁'))
    (Ct : Option Commitment) (cpk : Option CommitmentPK)
    (hT : ∀ ct k, Ct = some ct → cpk = some k → TrustedOK cs msgs U ct k)
    (π : ZKPoK) (t₂ t₂' : List Draw)
    (hgen : zkpokGen cs msgs C Ct pk bases cpk U t₂ = .ok (π, t₂')) :
    zkpokVerify cs π C.value (Ct.map Commitment.value) pk bases cpk U [] = .ok (true, []) ∧
    (∀ t₃, blindSign cs pk sk bases π (some (pick msgs R)) C (Ct.map Commitment.value) cpk U (some R) t₃
        ≠ .panic) ∧
    (∀ t₃ β t₃', blindSign cs pk sk bases π (some (pick msgs R)) C (Ct.map Commitment.value) cpk U
        (some R) t₃ = .ok (β, t₃') →
      verifyMultiattr cs (unblindSign β C) pk bases msgs [] = .ok (true, [])) := by
  have hN1 := hk.one_lt_N
  have hN : 0 < pk.N := by omega
  have hmem : ∀ i, i ∈ U ∨ i ∈ R → i < msgs.length := by
    intro i hi
    have : i ∈ U ++ R := List.mem_append.2 hi
    simpa using (hperm.mem_iff).1 this
  obtain ⟨hr0, hrl, -, -, hCe, -, -⟩ := commitWithPk_elim (uo := some U) hA
    (fun i _ => (getD_inRange hm i).1) hcommit
  simp only [Option.getD_some] at hCe
  -- (a)
  have hzk : zkpokVerify cs π C.value (Ct.map Commitment.value) pk bases cpk U [] = .ok (true, []) := by
    refine zkpok_complete hA hR hN1 hk.hb hau (hidden_single hperm hU) (fun i _ => getD_inRange hm i) hr0
      (bitLen_lt hr0 hrl) hCe ?_ hgen
    intro ct k h1 h2
    obtain ⟨kN, kh, kg, tc, tc', hc⟩ := hT ct k h1 h2
    obtain ⟨hcr0, -, -, -, hce, -, -⟩ := commitWithCpk_elim (uo := some U) hA
      (fun i _ => (getD_inRange hm i).1) hc
    simp only [Option.getD_some] at hce
    exact ⟨kN, hcr0, cop_iff.2 (cop_of_modEq hce ((cop_rep kg msgs U).mul_left (cop_iff.1 kh).pow_left)),
      hce⟩
  -- the extended commitment commits to the whole vector
  have hfull : ∀ ext : Commitment, ext.value ≡ C.value * repZip bases R (pick msgs R) [ZMOD pk.N] →
      ext.value ≡ rep bases msgs (List.range msgs.length) * pk.b ^ C.randomness.toNat [ZMOD pk.N] := by
    intro ext he
    rw [repZip_pick] at he
    refine he.trans ((hCe.mul_right _).trans ?_)
    rw [← rep_perm bases msgs hperm, rep_append]
    have : rep bases msgs U * pk.b ^ C.randomness.toNat * rep bases msgs R =
        rep bases msgs U * rep bases msgs R * pk.b ^ C.randomness.toNat := by ring
    rw [this]
  refine ⟨hzk, ?_, ?_⟩
  · -- (b)
    intro t₃ hp
    have hzk₃ := (zkpokVerify_tapeFree _ _ _ _ _ _ _ _).ok_any hzk t₃
    obtain ⟨ext, hext⟩ := extend_run hA C (revealed := pick msgs R) (pk := pk) (bases := bases) (R := R) hN
      (pick_nonneg hm R) (by simp [pick])
      (fun i hi => lt_of_lt_of_le (hmem i (Or.inr hi)) hlen) t₃
    have hext' : extOf C (some (pick msgs R)) pk bases (some R) t₃ = .ok (ext, t₃) := hext
    rw [blindSign_eq, bind_of_ok hzk₃, not_true_if, bind_of_ok hext'] at hp
    simp only [bind_panic_iff] at hp
    rcases hp with h | ⟨k, t1, hk', h | ⟨e, t2, he, h | ⟨r', t3, hr', h | ⟨d, t4, hd, h | ⟨bs, t5, hbs,
      h | ⟨v, t6, hv, h⟩⟩⟩⟩⟩⟩
    · simp [remaining] at h
    · exact drawE_ne_panic _ _ h
    · exact randomBits_ne_panic _ _ h
    · obtain ⟨-, -, hg⟩ := drawE_elim _ _ _ _ he
      obtain ⟨x, hx, -⟩ := invMod_of_gcd hA (phi_gt_one hk.hp hk.hq hk.hpq) hg
      rw [ofOpt_run hx] at h; cases h
    · rw [pw_run_nonneg hA hN (randomBits_elim hr').1] at h; cases h
    · obtain ⟨hd', -⟩ := (ofOpt_ok_iff _ _ _ _).1 hd
      obtain ⟨hd0, -, -⟩ := hA.invMod_some _ _ _ (phi_gt_one hk.hp hk.hq hk.hpq) hd'
      rw [pw_run_nonneg hA hN hd0] at h; cases h
    · cases h
  · -- (c)
    intro t₃ β t₃' hβ
    obtain ⟨-, ext, d, bs, hext, ⟨he1, he2, -⟩, ⟨hrp, -⟩, hd, hbs, hv⟩ := blindSign_elim hβ
    have hext' : extendCommitmentWithPk C (pick msgs R) pk bases (some R) t₃ = .ok (ext, t₃) := hext
    obtain ⟨-, -, -, -, hee⟩ := extend_elim hA (pick_nonneg hm R) hext'
    exact blind_verify_core hA cs hk hau hlen hm hr0 (hfull ext hee) ⟨he1, he2⟩ hrp hd hbs hv []

end Zk.C14
