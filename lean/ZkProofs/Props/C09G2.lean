/-
C09, concrete G2 codecs: the EXECUTABLE zcash codecs of BLS12-381 G2 (`ZkModel/L0/G2.lean`:
`G2.toCompressed` / `G2.fromCompressed`, 96 bytes, used for public keys on the wire, and
`G2.toUncompressed` / `G2.fromUncompressed`, 192 bytes, used for public-key coordinates; the
functions the correspondence check runs against `bls12_381_plus`) are CANONICAL. These are the
concrete counterparts of the abstract `Codec` laws of `ZkProofs/Lawful.lean`, for both codecs:

* `enc_len`  — `g2_enc_len`, `g2u_enc_len`;
* `strict`   — `g2_strict`, `g2u_strict`: an accepted byte string IS the encoding of the point
  returned (so two strings never decode to the same point: `g2_decode_unique`, `g2u_decode_unique`);
* `dec_enc`  — `g2_dec_enc`, `g2u_dec_enc`: every point of E2 in the order-`R` subgroup, in normal
  form (`G2Codec.Reduced`: coordinates `< P`, identity `= G2Pt.zero`), decodes from its encoding.

All statements are for ALL inputs; nothing is partial. `G2.onCurve` does NOT imply the normal form
(`reduced_is_needed`), so `Reduced p` is an explicit hypothesis of the `dec_enc` laws; every decoded
point satisfies it (`g2_decode_reduced`, `g2u_decode_reduced`).

Arithmetic facts used (all proved in `ZkProofs/Lemmas/G2Codec.lean`):
* `no_two_torsion`: `x³ + 4(1+u) ≠ 0` for every `x ∈ Fp2` (E2 has no point with `y = 0`), via norms:
  `N(x)³ = 32` in `Fp`, and `32^((P−1)/3) ≠ 1` by kernel evaluation. Without it the sort flag of an
  encoding would not be determined by the point (the model's remark in `fromCompressedUnchecked`).
* `Fp2.sqrt?` is sound (the model checks its candidate) and complete (it answers `±y` on `y²`).
-/
import ZkProofs.Lemmas.G2Codec
import ZkProofs.Props.C09Concrete
namespace Zk.C09G2
open Zk Zk.G1Codec Zk.G2Codec Zk.Codecs.ScalarCodec

/-! ## A. the uncompressed codec (192 bytes) -/

/-- The encoding of any point flagged as the identity: `0x40` then 191 zero bytes. -/
theorem toUncompressed_inf (x0 x1 y0 y1 : Nat) :
    G2.toUncompressed ⟨x0, x1, y0, y1, true⟩ = 0x40 :: List.replicate 191 0 := by
  unfold G2.toUncompressed
  simp only [if_true, Fp2.zero, fpBytes_zero]
  decide +kernel

/-- The encoding of a finite point: the four limbs `x.c1 ‖ x.c0 ‖ y.c1 ‖ y.c0`, no flag. -/
theorem toUncompressed_point (x0 x1 y0 y1 : Nat) :
    G2.toUncompressed ⟨x0, x1, y0, y1, false⟩ =
      G2.setFlags (G2.fpBytes x1 ++ G2.fpBytes x0 ++ G2.fpBytes y1 ++ G2.fpBytes y0) 0 := by
  unfold G2.toUncompressed
  simp [G2Pt.x, G2Pt.y]

/-- Strictness of `from_uncompressed_unchecked` (192 bytes): it accepts only the canonical encoding
of the point it returns. -/
theorem g2u_unchecked_strict {h : UInt8} {t : Bytes} {p : G2Pt} (hl : t.length = 191)
    (hd : G2.fromUncompressedUnchecked (h :: t) = some p) : G2.toUncompressed p = h :: t := by
  unfold G2.fromUncompressedUnchecked at hd
  rw [if_neg (by simp [hl])] at hd
  simp only [G2.splitFlags] at hd
  have hm : ((h &&& 31) :: t).length = 192 := by simp [hl]
  have hsplit := split192 (l := (h &&& 31) :: t)
  generalize hmdef : (h &&& 31) :: t = m at hd hm hsplit
  split at hd
  · rename_i xc1 xc0 yc1 yc0 h1 h2 h3 h4
    obtain ⟨e1, l1⟩ := fpBytes_of_some (by simp [hm]) h1
    obtain ⟨e2, l2⟩ := fpBytes_of_some (by simp [hm]) h2
    obtain ⟨e3, l3⟩ := fpBytes_of_some (by simp [hm]) h3
    obtain ⟨e4, l4⟩ := fpBytes_of_some (by simp [hm]) h4
    by_cases hc : ((!h >>> 6 &&& 1 == 1 || { c0 := xc0, c1 := xc1 : Fp2 }.isZero && { c0 := yc0, c1 := yc1 : Fp2}.isZero) &&
              !h >>> 7 &&& 1 == 1 && !h >>> 5 &&& 1 == 1) = true
    · simp only [hc, if_true] at hd
      simp only [Bool.and_eq_true, Bool.or_eq_true, Bool.not_eq_true'] at hc
      obtain ⟨⟨hi, hcf⟩, hsf⟩ := hc
      cases hif : (h >>> 6 &&& 1 == 1)
      · simp only [hif, Bool.false_eq_true, if_false] at hd
        cases hd
        rw [G2Pt.ofXY, toUncompressed_point, e1, e2, e3, e4, ← hsplit, ← hmdef]
        have := byte_recombine h _ _ _ hcf hif hsf
        simpa [G2.setFlags] using this
      · rw [hif] at hi
        simp only [hif, if_true] at hd
        cases hd
        simp only [Bool.true_eq_false, false_or, Fp2.isZero, Bool.and_eq_true, beq_iff_eq] at hi
        obtain ⟨⟨hx0, hx1⟩, hy0, hy1⟩ := hi
        subst hx0 hx1 hy0 hy1
        rw [fpBytes_zero] at e1 e2 e3 e4
        rw [← e1, ← e2, ← e3, ← e4] at hsplit
        rw [G2Pt.zero, toUncompressed_inf]
        have hb := byte_recombine h _ _ _ hcf hif hsf
        rw [← hmdef] at hsplit
        have hsplit' : (h &&& 31) :: t = 0 :: List.replicate 191 0 := by rw [hsplit]; decide +kernel
        injection hsplit' with h0 ht
        rw [ht]
        have h0' : h &&& 0x1f = 0 := h0
        rw [h0'] at hb
        have h40 : h = 0x40 := by rw [← hb]; decide
        rw [h40]
    · simp only [hc, Bool.false_eq_true, if_false] at hd; cases hd
  · cases hd

/-- The decoded point is what the unchecked decoder returns: the curve / subgroup tests only filter. -/
theorem g2u_decode_unchecked {b : Bytes} {p : G2Pt} (h : G2.fromUncompressed b = some p) :
    G2.fromUncompressedUnchecked b = some p := by
  unfold G2.fromUncompressed at h
  split at h
  · rename_i pt hu
    split at h
    · cases h; exact hu
    · cases h
  · cases h

/-- **`strict` (uncompressed)**: `G2Affine::from_uncompressed` accepts only the canonical encoding of
the point it returns: `from_uncompressed b = Some p → to_uncompressed p = b`, for every `b`. -/
theorem g2u_strict {b : Bytes} {p : G2Pt} (h : G2.fromUncompressed b = some p) :
    G2.toUncompressed p = b := by
  have hlen := C09Concrete.g2_decode_uncompressed_length h
  cases b with
  | nil => simp at hlen
  | cons b0 rest => exact g2u_unchecked_strict (by simpa using hlen) (g2u_decode_unchecked h)

/-- **`enc_len` (uncompressed)**: `G2Affine::to_uncompressed` always produces 192 bytes (for every
`G2Pt`, in normal form or not). -/
theorem g2u_enc_len (p : G2Pt) : (G2.toUncompressed p).length = 192 := by
  unfold G2.toUncompressed
  simp only []
  generalize (if p.inf = true then Fp2.zero else p.x) = x
  generalize (if p.inf = true then Fp2.zero else p.y) = y
  generalize (if p.inf = true then (0x40 : UInt8) else 0) = fl
  have hl : (G2.fpBytes x.c1 ++ G2.fpBytes x.c0 ++ G2.fpBytes y.c1 ++ G2.fpBytes y.c0).length = 192 := by
    simp [fpBytes_length]
  generalize G2.fpBytes x.c1 ++ G2.fpBytes x.c0 ++ G2.fpBytes y.c1 ++ G2.fpBytes y.c0 = l at hl
  cases l with
  | nil => simp at hl
  | cons a l => simpa [G2.setFlags] using hl

/-- Everything `from_uncompressed_unchecked` returns is in normal form (`Reduced`). -/
theorem g2u_unchecked_reduced {b : Bytes} {p : G2Pt}
    (hd : G2.fromUncompressedUnchecked b = some p) : Reduced p := by
  unfold G2.fromUncompressedUnchecked at hd
  split at hd
  · cases hd
  · simp only [] at hd
    split at hd
    · rename_i xc1 xc0 yc1 yc0 h1 h2 h3 h4
      have l1 := (fpOfBytes_some h1).2
      have l2 := (fpOfBytes_some h2).2
      have l3 := (fpOfBytes_some h3).2
      have l4 := (fpOfBytes_some h4).2
      split at hd
      · cases hd
        split
        · exact reduced_zero
        · exact ⟨⟨l2, l1, l4, l3⟩, fun h => by simp [G2Pt.ofXY] at h⟩
      · cases hd
    · cases hd

/-- Round trip through the unchecked decoder for EVERY point in normal form (on the curve or not:
the uncompressed codec involves no curve arithmetic). -/
theorem g2u_unchecked_dec_enc {p : G2Pt} (hr : Reduced p) :
    G2.fromUncompressedUnchecked (G2.toUncompressed p) = some p := by
  obtain ⟨x0, x1, y0, y1, inf⟩ := p
  cases inf with
  | true =>
    have := hr.2 rfl
    rw [this]
    decide +kernel
  | false =>
    obtain ⟨⟨hx0, hx1, hy0, hy1⟩, -⟩ := hr
    simp only at hx0 hx1 hy0 hy1
    rw [toUncompressed_point]
    obtain ⟨a0, ra, ha, hla, hlt⟩ := fpBytes_canonical hx1
    obtain ⟨hcf, hif, hsf, hmk⟩ := byte_flags a0 false false false hlt
    have hA := fpBytes_length x1
    have hB := fpBytes_length x0
    have hC := fpBytes_length y1
    obtain ⟨t1, t2, t3, t4⟩ := take_drop_4 (D := G2.fpBytes y0) hA hB hC
    have hbytes : G2.setFlags (G2.fpBytes x1 ++ G2.fpBytes x0 ++ G2.fpBytes y1 ++ G2.fpBytes y0) 0 =
        (a0 ||| 0) :: (ra ++ G2.fpBytes x0 ++ G2.fpBytes y1 ++ G2.fpBytes y0) := by
      rw [ha]; rfl
    have hmasked : ((a0 ||| 0) &&& 0x1f) :: (ra ++ G2.fpBytes x0 ++ G2.fpBytes y1 ++ G2.fpBytes y0) =
        G2.fpBytes x1 ++ G2.fpBytes x0 ++ G2.fpBytes y1 ++ G2.fpBytes y0 := by
      rw [ha]
      have : (a0 ||| 0) &&& 0x1f = a0 := by simpa using hmk
      rw [this]; rfl
    rw [hbytes]
    unfold G2.fromUncompressedUnchecked
    rw [if_neg (by simp [hla, fpBytes_length])]
    simp only [G2.splitFlags]
    have c7 : ((a0 ||| 0) >>> 7 &&& 1 == 1) = false := by simpa using hcf
    have c6 : ((a0 ||| 0) >>> 6 &&& 1 == 1) = false := by simpa using hif
    have c5 : ((a0 ||| 0) >>> 5 &&& 1 == 1) = false := by simpa using hsf
    simp only [c7, c6, c5]
    have hmasked' : ((a0 ||| 0) &&& 31) :: (ra ++ G2.fpBytes x0 ++ G2.fpBytes y1 ++ G2.fpBytes y0) =
        G2.fpBytes x1 ++ G2.fpBytes x0 ++ G2.fpBytes y1 ++ G2.fpBytes y0 := hmasked
    rw [hmasked', t1, t2, t3, t4, fpOfBytes_fpBytes hx1, fpOfBytes_fpBytes hx0, fpOfBytes_fpBytes hy1,
      fpOfBytes_fpBytes hy0]
    simp [G2Pt.ofXY]

/-! ## B. the compressed codec (96 bytes) -/

/-- The encoding of any point flagged as the identity: `0xc0` then 95 zero bytes. -/
theorem toCompressed_inf (x0 x1 y0 y1 : Nat) :
    G2.toCompressed ⟨x0, x1, y0, y1, true⟩ = 0xc0 :: List.replicate 95 0 := by
  unfold G2.toCompressed
  simp only [if_true, Fp2.zero, fpBytes_zero, Bool.not_true, Bool.false_and, Bool.false_eq_true,
    if_false]
  decide +kernel

/-- The encoding of a finite point: `x.c1 ‖ x.c0` with the compression flag and the sort flag of `y`. -/
theorem toCompressed_point (x0 x1 y0 y1 : Nat) :
    G2.toCompressed ⟨x0, x1, y0, y1, false⟩ =
      G2.setFlags (G2.fpBytes x1 ++ G2.fpBytes x0)
        (0x80 ||| 0 ||| (if Fp2.lexLargest ⟨y0, y1⟩ then 0x20 else 0)) := by
  unfold G2.toCompressed
  simp [G2Pt.x, G2Pt.y]

/-- **`enc_len` (compressed)**: `G2Affine::to_compressed` always produces 96 bytes. -/
theorem g2_enc_len (p : G2Pt) : (G2.toCompressed p).length = 96 := by
  unfold G2.toCompressed
  simp only []
  generalize (if p.inf = true then Fp2.zero else p.x) = x
  generalize ((0x80 : UInt8) ||| (if p.inf = true then 0x40 else 0) |||
    (if (!p.inf && Fp2.lexLargest p.y) = true then 0x20 else 0)) = fl
  have hl : (G2.fpBytes x.c1 ++ G2.fpBytes x.c0).length = 96 := by simp [fpBytes_length]
  generalize G2.fpBytes x.c1 ++ G2.fpBytes x.c0 = l at hl
  cases l with
  | nil => simp at hl
  | cons a l => simpa [G2.setFlags] using hl

/-- The decoded point is what the unchecked decoder returns: the subgroup test only filters. -/
theorem g2_decode_unchecked {b : Bytes} {p : G2Pt} (h : G2.fromCompressed b = some p) :
    G2.fromCompressedUnchecked b = some p := by
  unfold G2.fromCompressed at h
  split at h
  · rename_i pt hu
    split at h
    · rw [← Option.some.inj h]; exact hu
    · exact absurd h (by simp)
  · exact absurd h (by simp)

theorem sq_zero : Fp2.sq ⟨0, 0⟩ = ⟨0, 0⟩ := by decide

theorem onCurve_zero : G2.onCurve G2Pt.zero = true := rfl

/-- `G2.onCurve` on a finite point is the curve equation `y² = x³ + 4(1+u)` (as an equation between
reduced pairs; `==` on `Fp2` is `=`). -/
theorem onCurve_point {x y : Fp2} : G2.onCurve (G2Pt.ofXY x y) = true ↔ Fp2.sq y = rhs x := by
  unfold G2.onCurve
  show (false || Fp2.sq y == rhs x) = true ↔ _
  rw [Bool.false_or, beq_iff]

/-- The sort flag of the ordinate selected by the decoder is the requested one. -/
theorem select_flag {y0 : Fp2} (hr : Red y0) (h0 : y0 ≠ ⟨0, 0⟩) (s : Bool) :
    Fp2.lexLargest (if (Fp2.lexLargest y0 != s) = true then Fp2.neg y0 else y0) = s := by
  cases s <;> cases hl : Fp2.lexLargest y0 <;> simp [hl, lexLargest_neg2 hr h0]

/-- Kernel-safe form of `g2_unchecked_strict`: `Fp2.sqrt?` is abstracted to a variable `sq2` before the
case analysis (a `match Fp2.sqrt? … with` stuck on a symbolic argument must not reach a definitional
equality check in the kernel, which would unfold the exponentiation loops). -/
theorem g2_unchecked_strict_aux (sq2 : Fp2 → Option Fp2) (hsq2 : sq2 = Fp2.sqrt?)
    {h : UInt8} {t : Bytes} {p : G2Pt} (hl : t.length = 95)
    (hd : G2.fromCompressedUnchecked (h :: t) = some p) : G2.toCompressed p = h :: t := by
  have Hs : ∀ a r, sq2 a = some r → Fp2.sq r = a ∧ Red r := by
    intro a r h; rw [hsq2] at h; exact sqrt_some2 h
  unfold G2.fromCompressedUnchecked at hd
  rw [← hsq2] at hd
  clear hsq2
  rw [if_neg (by simp [hl])] at hd
  dsimp only [G2.splitFlags] at hd
  have hm : ((h &&& 31) :: t).length = 96 := by simp [hl]
  have hsplit := split96 (l := (h &&& 31) :: t)
  generalize hmdef : (h &&& 31) :: t = m at hd hm hsplit
  split at hd
  · rename_i xc1 xc0 h1 h2
    obtain ⟨e1, l1⟩ := fpBytes_of_some (by simp [hm]) h1
    obtain ⟨e2, l2⟩ := fpBytes_of_some (by simp [hm]) h2
    by_cases hid : (h >>> 6 &&& 1 == 1 && h >>> 7 &&& 1 == 1 && !h >>> 5 &&& 1 == 1 &&
        ({ c0 := xc0, c1 := xc1 } : Fp2).isZero) = true
    · simp only [hid, if_true] at hd
      have hp := Option.some.inj hd
      subst hp
      simp only [Bool.and_eq_true, Bool.not_eq_true', Fp2.isZero] at hid
      obtain ⟨⟨⟨hif, hcf⟩, hsf⟩, hx0, hx1⟩ := hid
      rw [beq_iff_eq] at hx0 hx1
      subst hx0 hx1
      rw [fpBytes_zero] at e1 e2
      rw [← e1, ← e2, ← hmdef] at hsplit
      have hsplit' : (h &&& 31) :: t = 0 :: List.replicate 95 0 := by rw [hsplit]; decide +kernel
      injection hsplit' with h0 ht
      have hb := byte_recombine h _ _ _ hcf hif hsf
      have h0' : h &&& 0x1f = 0 := h0
      rw [h0'] at hb
      have hc0 : h = 0xc0 := by rw [← hb]; decide
      rw [G2Pt.zero, toCompressed_inf, ht, hc0]
    · simp only [hid, Bool.false_eq_true, if_false] at hd
      cases hsq : sq2 (({ c0 := xc0, c1 := xc1 } : Fp2).sq.mul { c0 := xc0, c1 := xc1 } |>.add G2.b) with
      | none => rw [hsq] at hd; exact absurd hd (by simp)
      | some y0 =>
        rw [hsq] at hd
        dsimp only at hd
        by_cases hc2 : (!h >>> 6 &&& 1 == 1 && h >>> 7 &&& 1 == 1) = true
        · simp only [hc2, if_true] at hd
          have hp := Option.some.inj hd
          subst hp
          simp only [Bool.and_eq_true, Bool.not_eq_true'] at hc2
          obtain ⟨hif, hcf⟩ := hc2
          obtain ⟨hroot, hred⟩ := Hs _ _ hsq
          have hy0 : y0 ≠ ⟨0, 0⟩ := by
            intro h0
            rw [h0, sq_zero] at hroot
            exact rhs_ne_zero' ⟨xc0, xc1⟩ hroot.symm
          rw [G2Pt.ofXY, toCompressed_point, e1, e2, ← hsplit, ← hmdef]
          have hsel := select_flag hred hy0 (h >>> 5 &&& 1 == 1)
          have hsel' : Fp2.lexLargest ⟨(if (y0.lexLargest != (h >>> 5 &&& 1 == 1)) = true then y0.neg else y0).c0,
              (if (y0.lexLargest != (h >>> 5 &&& 1 == 1)) = true then y0.neg else y0).c1⟩ =
              (h >>> 5 &&& 1 == 1) := hsel
          rw [hsel']
          have hb := byte_recombine h _ _ _ hcf hif rfl
          simpa [G2.setFlags] using hb
        · simp only [hc2, Bool.false_eq_true, if_false] at hd
          exact absurd hd (by simp)
  · exact absurd hd (by simp)

/-- Strictness of the unchecked decoder (`from_compressed_unchecked`, 96 bytes): it accepts only the
canonical encoding of the point it returns. The `y = 0` corner of the model's remark (either sort flag
accepted when `x³ + B = 0`) never occurs: `no_two_torsion`. -/
theorem g2_unchecked_strict {h : UInt8} {t : Bytes} {p : G2Pt} (hl : t.length = 95)
    (hd : G2.fromCompressedUnchecked (h :: t) = some p) : G2.toCompressed p = h :: t :=
  g2_unchecked_strict_aux _ rfl hl hd

/-- Everything `from_compressed_unchecked` returns is on the curve and in normal form (kernel-safe
form, `Fp2.sqrt?` abstracted). -/
theorem g2_unchecked_onCurve_aux (sq2 : Fp2 → Option Fp2) (hsq2 : sq2 = Fp2.sqrt?)
    {b : Bytes} {p : G2Pt} (hd : G2.fromCompressedUnchecked b = some p) :
    G2.onCurve p = true ∧ Reduced p := by
  have Hs : ∀ a r, sq2 a = some r → Fp2.sq r = a ∧ Red r := by
    intro a r h; rw [hsq2] at h; exact sqrt_some2 h
  unfold G2.fromCompressedUnchecked at hd
  rw [← hsq2] at hd
  clear hsq2
  split at hd
  · exact absurd hd (by simp)
  · dsimp only at hd
    split at hd
    · rename_i xc1 xc0 h1 h2
      have l1 := (fpOfBytes_some h1).2
      have l2 := (fpOfBytes_some h2).2
      split at hd
      · rw [← Option.some.inj hd]; exact ⟨onCurve_zero, reduced_zero⟩
      · cases hsq : sq2 (({ c0 := xc0, c1 := xc1 } : Fp2).sq.mul { c0 := xc0, c1 := xc1 } |>.add G2.b) with
        | none => rw [hsq] at hd; exact absurd hd (by simp)
        | some y0 =>
          rw [hsq] at hd
          dsimp only at hd
          split at hd
          · rw [← Option.some.inj hd]
            obtain ⟨hroot, hred⟩ := Hs _ _ hsq
            constructor
            · rw [onCurve_point]
              split
              · rw [sq_neg]; exact hroot
              · exact hroot
            · refine ⟨⟨l2, l1, ?_, ?_⟩, fun h => by simp [G2Pt.ofXY] at h⟩
              · show (if _ then Fp2.neg y0 else y0).c0 < P
                split
                · exact (neg_red _).1
                · exact hred.1
              · show (if _ then Fp2.neg y0 else y0).c1 < P
                split
                · exact (neg_red _).2
                · exact hred.2
          · exact absurd hd (by simp)
    · exact absurd hd (by simp)

/-- Round trip through the unchecked decoder for every point of the curve in normal form, subgroup or
not (kernel-safe form, `Fp2.sqrt?` abstracted). Uses the completeness of `Fp2.sqrt?`
(`G2Codec.sqrt_complete`) and `y ≠ 0` (`rhs_ne_zero'`). -/
theorem g2_unchecked_dec_enc_aux (sq2 : Fp2 → Option Fp2) (hsq2 : sq2 = Fp2.sqrt?)
    {p : G2Pt} (hc : G2.onCurve p = true) (hr : Reduced p) :
    G2.fromCompressedUnchecked (G2.toCompressed p) = some p := by
  have Hc : ∀ y, Red y → ∃ r, sq2 (Fp2.sq y) = some r ∧ (r = y ∨ r = Fp2.neg y) := by
    intro y hy; rw [hsq2]; exact sqrt_complete hy
  obtain ⟨x0, x1, y0, y1, inf⟩ := p
  cases inf with
  | true =>
    have := hr.2 rfl
    rw [this]
    decide +kernel
  | false =>
    obtain ⟨⟨hx0, hx1, hy0, hy1⟩, -⟩ := hr
    simp only at hx0 hx1 hy0 hy1
    have hcurve : Fp2.sq ⟨y0, y1⟩ = rhs ⟨x0, x1⟩ := onCurve_point.mp hc
    have hyred : Red ⟨y0, y1⟩ := ⟨hy0, hy1⟩
    have hyne : (⟨y0, y1⟩ : Fp2) ≠ ⟨0, 0⟩ := by
      intro h0
      rw [h0, sq_zero] at hcurve
      exact rhs_ne_zero' _ hcurve.symm
    obtain ⟨r, hsr, hrr⟩ := Hc _ hyred
    rw [hcurve] at hsr
    have hsel : (if (Fp2.lexLargest r != Fp2.lexLargest ⟨y0, y1⟩) = true then Fp2.neg r else r) =
        ⟨y0, y1⟩ := by
      rcases hrr with hrr | hrr
      · subst hrr; simp
      · subst hrr
        rw [lexLargest_neg2 hyred hyne, neg_neg' hyred]
        cases Fp2.lexLargest ⟨y0, y1⟩ <;> simp
    rw [toCompressed_point]
    obtain ⟨a0, ra, ha, hla, hlt⟩ := fpBytes_canonical hx1
    obtain ⟨hcf, hif, hsf, hmk⟩ := byte_flags a0 true false (Fp2.lexLargest ⟨y0, y1⟩) hlt
    have hA := fpBytes_length x1
    obtain ⟨t1, t2⟩ := take_drop_2 (B := G2.fpBytes x0) hA
    have hfl : ((if true = true then (0x80 : UInt8) else 0) ||| (if false = true then 0x40 else 0) |||
        (if Fp2.lexLargest ⟨y0, y1⟩ = true then 0x20 else 0)) =
        (0x80 ||| 0 ||| (if Fp2.lexLargest ⟨y0, y1⟩ = true then 0x20 else 0)) := by simp
    rw [hfl] at hcf hif hsf hmk
    generalize (0x80 ||| 0 ||| (if Fp2.lexLargest ⟨y0, y1⟩ = true then (0x20 : UInt8) else 0)) = fl
      at hcf hif hsf hmk ⊢
    have hbytes : G2.setFlags (G2.fpBytes x1 ++ G2.fpBytes x0) fl =
        (a0 ||| fl) :: (ra ++ G2.fpBytes x0) := by
      rw [ha]; rfl
    have hmasked : ((a0 ||| fl) &&& 31) :: (ra ++ G2.fpBytes x0) =
        G2.fpBytes x1 ++ G2.fpBytes x0 := by
      have : (a0 ||| fl) &&& 31 = a0 := hmk
      rw [ha, this]; rfl
    rw [hbytes]
    unfold G2.fromCompressedUnchecked
    rw [← hsq2]
    clear hsq2
    rw [if_neg (by simp [hla, fpBytes_length])]
    dsimp only [G2.splitFlags]
    rw [hmasked, t1, t2, fpOfBytes_fpBytes hx1, fpOfBytes_fpBytes hx0]
    dsimp only
    simp only [hcf, hif, hsf, Bool.false_and, Bool.false_eq_true, if_false]
    have hrhs : (({ c0 := x0, c1 := x1 } : Fp2).sq.mul { c0 := x0, c1 := x1 } |>.add G2.b) =
        rhs ⟨x0, x1⟩ := rfl
    rw [hrhs, hsr]
    dsimp only
    rw [hsel]
    simp [G2Pt.ofXY]

/-! ## property theorems -/

/-- **E2 has no point of order 2**: `x³ + 4(1+u) ≠ 0` for EVERY `x ∈ Fp2` (reduced or not), in the
model's own terms. Via the norm `N(a+bu) = a² + b²`: `N(x)³ = N(−4(1+u)) = 32`, and `32` is not a
cube in `Fp` (`32^((P−1)/3) ≠ 1`, kernel evaluation). So no point of the curve has `y = 0`. -/
theorem no_two_torsion (x : Fp2) : Fp2.add (Fp2.mul (Fp2.sq x) x) G2.b ≠ Fp2.zero :=
  rhs_ne_zero' x

/-- No finite point accepted by `onCurve` has `y = 0`. -/
theorem onCurve_y_ne_zero {x y : Fp2} (hc : G2.onCurve (G2Pt.ofXY x y) = true) : y ≠ Fp2.zero := by
  intro hy
  have h := onCurve_point.mp hc
  rw [hy, Fp2.zero, sq_zero] at h
  exact rhs_ne_zero' x h.symm

/-! ### uncompressed -/

/-- Two byte strings that decode to the same point are equal (no malleability of encodings). -/
theorem g2u_decode_unique {b b' : Bytes} {p : G2Pt} (h : G2.fromUncompressed b = some p)
    (h' : G2.fromUncompressed b' = some p) : b = b' := by
  rw [← g2u_strict h, ← g2u_strict h']

/-- Every point returned by `from_uncompressed` is in normal form. -/
theorem g2u_decode_reduced {b : Bytes} {p : G2Pt} (h : G2.fromUncompressed b = some p) :
    Reduced p := g2u_unchecked_reduced (g2u_decode_unchecked h)

/-- **`dec_enc` (uncompressed)**: every point of E2 in the order-`R` subgroup, in normal form,
decodes from its 192-byte encoding. -/
theorem g2u_dec_enc {p : G2Pt} (hc : G2.onCurve p = true) (hs : G2.inSubgroup p = true)
    (hr : Reduced p) : G2.fromUncompressed (G2.toUncompressed p) = some p := by
  unfold G2.fromUncompressed
  rw [g2u_unchecked_dec_enc hr]
  dsimp only
  rw [hc, hs]
  rfl

/-- The normal form is a necessary hypothesis: `G2.onCurve` and `G2.inSubgroup` accept the
unreduced identity `(P, 0, 0, 0, inf)`, whose encoding decodes to `G2Pt.zero`, a different triple. -/
theorem reduced_is_needed : ∃ p : G2Pt, G2.onCurve p = true ∧ G2.inSubgroup p = true ∧
    G2.fromUncompressed (G2.toUncompressed p) ≠ some p :=
  ⟨⟨P, 0, 0, 0, true⟩, rfl, rfl, by decide +kernel⟩

/-! ### compressed -/

/-- **`strict` (compressed)**: `G2Affine::from_compressed` accepts only the canonical encoding of
the point it returns: `from_compressed b = Some p → to_compressed p = b`, for every byte string. -/
theorem g2_strict {b : Bytes} {p : G2Pt} (h : G2.fromCompressed b = some p) :
    G2.toCompressed p = b := by
  have hlen := C09Concrete.g2_decode_length h
  cases b with
  | nil => simp at hlen
  | cons b0 rest => exact g2_unchecked_strict (by simpa using hlen) (g2_decode_unchecked h)

/-- Two byte strings that decode to the same point are equal (no malleability of encodings). -/
theorem g2_decode_unique {b b' : Bytes} {p : G2Pt} (h : G2.fromCompressed b = some p)
    (h' : G2.fromCompressed b' = some p) : b = b' := by
  rw [← g2_strict h, ← g2_strict h']

/-- Every point returned by `from_compressed` is on the curve (the crate's "on-curve holds by
construction"; in the model because `Fp2.sqrt?` checks its candidate). -/
theorem g2_decode_onCurve {b : Bytes} {p : G2Pt} (h : G2.fromCompressed b = some p) :
    G2.onCurve p = true := (g2_unchecked_onCurve_aux _ rfl (g2_decode_unchecked h)).1

/-- Every point returned by `from_compressed` is in normal form. -/
theorem g2_decode_reduced {b : Bytes} {p : G2Pt} (h : G2.fromCompressed b = some p) :
    Reduced p := (g2_unchecked_onCurve_aux _ rfl (g2_decode_unchecked h)).2

/-- **`dec_enc` (compressed)**: every point of E2 in the order-`R` subgroup, in normal form, decodes
from its 96-byte encoding. (Needs the completeness of `Fp2.sqrt?`, the uniqueness of square roots up
to sign in `Fp2`, and `y ≠ 0`.) -/
theorem g2_dec_enc {p : G2Pt} (hc : G2.onCurve p = true) (hs : G2.inSubgroup p = true)
    (hr : Reduced p) : G2.fromCompressed (G2.toCompressed p) = some p := by
  unfold G2.fromCompressed
  rw [g2_unchecked_dec_enc_aux _ rfl hc hr]
  dsimp only
  rw [hs]
  rfl

/-- The encoders are injective on the points of the curve in the subgroup, in normal form. -/
theorem g2_enc_injective_on_curve {p q : G2Pt} (hp : G2.onCurve p = true)
    (hps : G2.inSubgroup p = true) (hpr : Reduced p) (hq : G2.onCurve q = true)
    (hqs : G2.inSubgroup q = true) (hqr : Reduced q)
    (h : G2.toCompressed p = G2.toCompressed q) : p = q := by
  have h1 := g2_dec_enc hp hps hpr
  rw [h, g2_dec_enc hq hqs hqr] at h1
  exact (Option.some.inj h1).symm

theorem g2u_enc_injective_on_curve {p q : G2Pt} (hp : G2.onCurve p = true)
    (hps : G2.inSubgroup p = true) (hpr : Reduced p) (hq : G2.onCurve q = true)
    (hqs : G2.inSubgroup q = true) (hqr : Reduced q)
    (h : G2.toUncompressed p = G2.toUncompressed q) : p = q := by
  have h1 := g2u_dec_enc hp hps hpr
  rw [h, g2u_dec_enc hq hqs hqr] at h1
  exact (Option.some.inj h1).symm

/-- Decoding then encoding then decoding is decoding. -/
theorem g2_decode_roundtrip {b : Bytes} {p : G2Pt} (h : G2.fromCompressed b = some p) :
    G2.fromCompressed (G2.toCompressed p) = some p :=
  g2_dec_enc (g2_decode_onCurve h) (C09Concrete.g2_decode_inSubgroup h) (g2_decode_reduced h)

/-- The two codecs agree: a point decoded from 96 bytes re-encodes to 192 bytes that decode to the
same point, and conversely. -/
theorem g2_compressed_to_uncompressed {b : Bytes} {p : G2Pt} (h : G2.fromCompressed b = some p) :
    G2.fromUncompressed (G2.toUncompressed p) = some p :=
  g2u_dec_enc (g2_decode_onCurve h) (C09Concrete.g2_decode_inSubgroup h) (g2_decode_reduced h)

theorem g2_uncompressed_to_compressed {b : Bytes} {p : G2Pt} (h : G2.fromUncompressed b = some p) :
    G2.fromCompressed (G2.toCompressed p) = some p :=
  g2_dec_enc (C09Concrete.g2_decode_uncompressed_checked h).1
    (C09Concrete.g2_decode_uncompressed_checked h).2 (g2u_decode_reduced h)

/-! ### the hypotheses are satisfiable: the identity and the standard generator -/

theorem inSubgroup_zero : G2.inSubgroup G2Pt.zero = true := rfl
theorem onCurve_gen : G2.onCurve G2.gen = true := by decide +kernel
theorem inSubgroup_gen : G2.inSubgroup G2.gen = true := by decide +kernel
theorem reduced_gen : Reduced G2.gen := ⟨by decide, fun h => by simp [G2.gen] at h⟩

example : G2.fromCompressed (G2.toCompressed G2Pt.zero) = some G2Pt.zero :=
  g2_dec_enc onCurve_zero inSubgroup_zero reduced_zero
example : G2.fromCompressed (G2.toCompressed G2.gen) = some G2.gen :=
  g2_dec_enc onCurve_gen inSubgroup_gen reduced_gen
example : G2.fromUncompressed (G2.toUncompressed G2.gen) = some G2.gen :=
  g2u_dec_enc onCurve_gen inSubgroup_gen reduced_gen

/-! ### the abstract `Codec` laws, literally -/

/-- The points the codecs are about: E2, order-`R` subgroup, in normal form. -/
abbrev G2Sub := { p : G2Pt // G2.onCurve p = true ∧ G2.inSubgroup p = true ∧ Reduced p }

/-- `G2.fromCompressed` with the three facts about its result attached. -/
def decSub (b : Bytes) : Option G2Sub :=
  match h : G2.fromCompressed b with
  | none => none
  | some p => some ⟨p, g2_decode_onCurve h, C09Concrete.g2_decode_inSubgroup h, g2_decode_reduced h⟩

theorem decSub_val (b : Bytes) : (decSub b).map Subtype.val = G2.fromCompressed b := by
  unfold decSub
  split <;> simp_all

/-- `G2.fromUncompressed` with the three facts about its result attached. -/
def decUSub (b : Bytes) : Option G2Sub :=
  match h : G2.fromUncompressed b with
  | none => none
  | some p => some ⟨p, (C09Concrete.g2_decode_uncompressed_checked h).1,
      (C09Concrete.g2_decode_uncompressed_checked h).2, g2u_decode_reduced h⟩

theorem decUSub_val (b : Bytes) : (decUSub b).map Subtype.val = G2.fromUncompressed b := by
  unfold decUSub
  split <;> simp_all

/-- **The executable compressed G2 codec satisfies the `Codec` laws assumed of `env.g2Enc` /
`env.g2Dec` in `Lawful`** (`dec_enc`, `enc_len`, `strict`), on the subgroup points in normal form. -/
theorem g2Codec : Codec (fun p : G2Sub => G2.toCompressed p.1) decSub 96 where
  dec_enc := fun p => by
    have h := g2_dec_enc p.2.1 p.2.2.1 p.2.2.2
    have hv := decSub_val (G2.toCompressed p.1)
    rw [h] at hv
    cases hd : decSub (G2.toCompressed p.1) with
    | none => rw [hd] at hv; exact absurd hv (by simp)
    | some t =>
      rw [hd, Option.map_some] at hv
      exact congrArg some (Subtype.ext (Option.some.inj hv))
  enc_len := fun p => g2_enc_len p.1
  strict := fun b p h => by
    have hv := decSub_val b
    rw [h] at hv
    exact g2_strict hv.symm

/-- **The executable uncompressed G2 codec satisfies the `Codec` laws** (192 bytes). -/
theorem g2UCodec : Codec (fun p : G2Sub => G2.toUncompressed p.1) decUSub 192 where
  dec_enc := fun p => by
    have h := g2u_dec_enc p.2.1 p.2.2.1 p.2.2.2
    have hv := decUSub_val (G2.toUncompressed p.1)
    rw [h] at hv
    cases hd : decUSub (G2.toUncompressed p.1) with
    | none => rw [hd] at hv; exact absurd hv (by simp)
    | some t =>
      rw [hd, Option.map_some] at hv
      exact congrArg some (Subtype.ext (Option.some.inj hv))
  enc_len := fun p => g2u_enc_len p.1
  strict := fun b p h => by
    have hv := decUSub_val b
    rw [h] at hv
    exact g2u_strict hv.symm

end Zk.C09G2
