/-
C19, negative part (finding F12 / DESIGN O6): the responses of the Boudot "proof of same secret"
(used by the proof of square inside every range proof, hence inside both CL03 proofs of
knowledge) do NOT mask their secret. The blinding `omega` is drawn below `2^(l+t)·b` while the
challenge is a full hash value, so `floor(d / c) − x = floor(omega / c)`, which is tiny whenever
`c` is not much smaller than `2^(l+t)·b`: the quotient of the response by its (public) challenge
is the secret up to `2^(l+t)·b / c`.
This is a theorem about the MODEL (`ZkModel/L1/Cl.lean`), which mirrors the implementation; the
implementation-side oracle `C19.boudot_square_response` recovers hidden attributes exactly.
-/
import ZkProofs.Lemmas.ClMonad
import Mathlib.Tactic.Ring
import Mathlib.Tactic.Linarith

namespace Zk.C19Leak
open Zk.Cl Zk.IA

/-- pure arithmetic: `(ω + c·x) / c − x = ω / c` for `c > 0`. -/
theorem quotient_reveals (ω c x : Int) (hc : 0 < c) : (ω + c * x) / c - x = ω / c := by
  have : (ω + c * x) / c = ω / c + x := by
    rw [Int.add_mul_ediv_left _ _ (ne_of_gt hc)]
  omega

/-- **The proof-of-same-secret response reveals its secret.** For every tape on which
`proofSameSecret` returns, its response `d` satisfies `d / c − x = ω / c` where `ω` is the first
draw, `1 ≤ ω ≤ 2^(l+t)·b − 1`; hence `0 ≤ d / c − x ≤ (2^(l+t)·b − 1) / c`. -/
theorem same_secret_response_leak {x r1 r2 g1 h1 g2 h2 : Int} {l t : Nat} {b : Int} {s1 s2 : Nat}
    {n : Int} {tape rest : List Draw} {π : ProofSs}
    (h : proofSameSecret x r1 r2 g1 h1 g2 h2 l t b s1 s2 n tape = .ok (π, rest))
    (hc : 0 < π.challenge) :
    ∃ ω : Int, 1 ≤ ω ∧ ω ≤ 2 ^ (l + t) * b - 1 ∧ π.d = ω + π.challenge * x ∧
      π.d / π.challenge - x = ω / π.challenge ∧
      0 ≤ π.d / π.challenge - x ∧ π.d / π.challenge - x ≤ (2 ^ (l + t) * b - 1) / π.challenge := by
  unfold proofSameSecret at h
  obtain ⟨ω, t1, hω, h⟩ := bind_ok_inv h
  obtain ⟨mu1, t2, _, h⟩ := bind_ok_inv h
  obtain ⟨mu2, t3, _, h⟩ := bind_ok_inv h
  obtain ⟨a, t4, _, h⟩ := bind_ok_inv h
  obtain ⟨b1, t5, _, h⟩ := bind_ok_inv h
  obtain ⟨a2, t6, _, h⟩ := bind_ok_inv h
  obtain ⟨b2, t7, _, h⟩ := bind_ok_inv h
  have hπ := (pure_ok_iff.mp h).1
  obtain ⟨_, _, _, _, hlo, hhi⟩ := randInt_ok_inv hω
  have hd : π.d = ω + π.challenge * x := by rw [← hπ]
  have hq := quotient_reveals ω π.challenge x hc
  refine ⟨ω, hlo, hhi, hd, ?_, ?_, ?_⟩
  · rw [hd]; exact hq
  · rw [hd, hq]; exact Int.ediv_nonneg (by omega) (le_of_lt hc)
  · rw [hd, hq]; exact Int.ediv_le_ediv hc hhi

/-- Concretely: with the generated parameters (`l + t = 168`) and a secret bound `b < 2^257`
(every `rmax` the library passes), a challenge of at least 255 bits pins the secret down to
`2^170`: the quotient `d / c` and the secret `x` differ by less than `2^170`, although secrets
answered for here (`x_1 ≈ sqrt(2^T·x)`) have more than 400 bits. -/
theorem same_secret_response_leak_bound {x r1 r2 g1 h1 g2 h2 : Int} {b : Int} {s1 s2 : Nat}
    {n : Int} {tape rest : List Draw} {π : ProofSs}
    (h : proofSameSecret x r1 r2 g1 h1 g2 h2 40 128 b s1 s2 n tape = .ok (π, rest))
    (hb : b ≤ 2 ^ 257) (hc : 2 ^ 255 ≤ π.challenge) :
    0 ≤ π.d / π.challenge - x ∧ π.d / π.challenge - x < 2 ^ 170 := by
  have hc0 : 0 < π.challenge := lt_of_lt_of_le (by positivity) hc
  obtain ⟨ω, _, hhi, _, _, h0, h1⟩ := same_secret_response_leak h hc0
  refine ⟨h0, lt_of_le_of_lt h1 ?_⟩
  have hnum : (2 : Int) ^ (40 + 128) * b - 1 < 2 ^ 170 * π.challenge := by
    have e1 : (2 : Int) ^ (40 + 128) * 2 ^ 257 = 2 ^ 170 * 2 ^ 255 := by
      rw [← pow_add, ← pow_add]
    calc (2 : Int) ^ (40 + 128) * b - 1 < 2 ^ (40 + 128) * b := sub_one_lt _
      _ ≤ 2 ^ (40 + 128) * 2 ^ 257 := mul_le_mul_of_nonneg_left hb (by positivity)
      _ = 2 ^ 170 * 2 ^ 255 := e1
      _ ≤ 2 ^ 170 * π.challenge := mul_le_mul_of_nonneg_left hc (by positivity)
  exact Int.ediv_lt_of_lt_mul hc0 hnum

end Zk.C19Leak
