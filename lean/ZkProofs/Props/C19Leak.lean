/-
C19, the Boudot "proof of same secret" (used by the proof of square inside every range proof, hence
inside both CL03 proofs of knowledge): how well the response `d = ω + c·x` masks its secret.

History (DESIGN finding F12, repaired by /repo commit c2c34ea): the blinding `ω` used to be drawn
below `2^(l+t)·rmax` while the challenge `c` is a full hash value (`2t` bits) and the secret a square
root of more than 400 bits, so `⌊d / c⌋ − x = ⌊ω / c⌋` was tiny and the quotient of the response by
its public challenge was the secret (`old_range_leak_bound`). Since the repair `ω` is drawn below
`2^(l+2t)·b₁` with `b₁` a bound of the secret:
* `same_secret_response` — the model's response is `ω + c·x` with `ω` the first draw, in the new range;
* `response_shift`, `shift_in_range`, `masked_fraction` — for two secrets `x, x' ∈ [0, b]` and a
  challenge below `2^(2t)` the blinding `ω' = ω + c·(x − x')` gives the other secret the SAME
  response, and `ω'` is again a legal draw for all `ω` except at most `2·2^(2t)·b` of the
  `2^(l+2t)·b − 1` possible ones (a fraction below `2^(1−l)`): the response distribution of two
  secrets differs by at most `2^(1−l)` in statistical distance.
These are theorems about the MODEL (`ZkModel/L1/Cl.lean`), tied to the implementation by the
correspondence check (tape contract: the draw must lie in the stated range) and by the
implementation-side oracle `C19.boudot_square_response`.
-/
import ZkProofs.Lemmas.ClMonad
import Mathlib.Tactic.Ring
import Mathlib.Tactic.Linarith
import Mathlib.Tactic.Positivity

namespace Zk.C19Leak
open Zk.Cl Zk.IA

/-- pure arithmetic: `(ω + c·x) / c − x = ω / c` for `c > 0`. -/
theorem quotient_reveals (ω c x : Int) (hc : 0 < c) : (ω + c * x) / c - x = ω / c := by
  have : (ω + c * x) / c = ω / c + x := by
    rw [Int.add_mul_ediv_left _ _ (ne_of_gt hc)]
  omega

/-- **Shape of the response.** For every tape on which `proofSameSecret` returns, its response `d`
is `ω + c·x` where `ω` is the first draw, `1 ≤ ω ≤ 2^(l+2t)·b − 1`; hence
`⌊d / c⌋ − x = ⌊ω / c⌋`. -/
theorem same_secret_response {x r1 r2 g1 h1 g2 h2 : Int} {l t : Nat} {b : Int} {s1 s2 : Nat}
    {n : Int} {tape rest : List Draw} {π : ProofSs}
    (h : proofSameSecret x r1 r2 g1 h1 g2 h2 l t b s1 s2 n tape = .ok (π, rest))
    (hc : 0 < π.challenge) :
    ∃ ω : Int, 1 ≤ ω ∧ ω ≤ 2 ^ (l + 2 * t) * b - 1 ∧ π.d = ω + π.challenge * x ∧
      π.d / π.challenge - x = ω / π.challenge := by
  unfold proofSameSecret at h
  obtain ⟨ω, t1, hω, h⟩ := bind_ok_inv h
  obtain ⟨mu1, t2, _, h⟩ := bind_ok_inv h
  obtain ⟨mu2, t3, _, h⟩ := bind_ok_inv h
  obtain ⟨a, t4, _, h⟩ := bind_ok_inv h
  obtain ⟨b1, t5, _, h⟩ := bind_ok_inv h
  obtain ⟨a2, t6, _, h⟩ := bind_ok_inv h
  obtain ⟨b2, t7, _, h⟩ := bind_ok_inv h
  have hπ := (pure_ok_iff.mp h).1
  obtain ⟨_, _, _, _, hlo, hhi⟩ := randInt_ok_inv hω
  have hd : π.d = ω + π.challenge * x := by rw [← hπ]
  refine ⟨ω, hlo, hhi, hd, ?_⟩
  rw [hd]; exact quotient_reveals ω π.challenge x hc

/-- The first draw of `proofSameSecret` is the blinding, with the range the tape contract enforces
(a draw outside `[1, 2^(l+2t)·b − 1]` is a tape disagreement, never an accepted run). -/
theorem same_secret_first_draw_range {x r1 r2 g1 h1 g2 h2 : Int} {l t : Nat} {b : Int} {s1 s2 : Nat}
    {n : Int} {tape rest : List Draw} {π : ProofSs}
    (h : proofSameSecret x r1 r2 g1 h1 g2 h2 l t b s1 s2 n tape = .ok (π, rest)) :
    ∃ ω : Int, 1 ≤ ω ∧ ω ≤ 2 ^ (l + 2 * t) * b - 1 ∧ π.d = ω + π.challenge * x := by
  unfold proofSameSecret at h
  obtain ⟨ω, t1, hω, h⟩ := bind_ok_inv h
  obtain ⟨mu1, t2, _, h⟩ := bind_ok_inv h
  obtain ⟨mu2, t3, _, h⟩ := bind_ok_inv h
  obtain ⟨a, t4, _, h⟩ := bind_ok_inv h
  obtain ⟨b1, t5, _, h⟩ := bind_ok_inv h
  obtain ⟨a2, t6, _, h⟩ := bind_ok_inv h
  obtain ⟨b2, t7, _, h⟩ := bind_ok_inv h
  have hπ := (pure_ok_iff.mp h).1
  obtain ⟨_, _, _, _, hlo, hhi⟩ := randInt_ok_inv hω
  exact ⟨ω, hlo, hhi, by rw [← hπ]⟩

/-- Two secrets give the same response under blindings that differ by `c·(x − x')`. -/
theorem response_shift (ω c x x' : Int) : ω + c * x = (ω + c * (x - x')) + c * x' := by ring

/-- **The shifted blinding is a legal draw** whenever `ω` keeps a margin `2^(2t)·b` from both ends of
its range: for secrets `0 ≤ x, x' ≤ b` and a challenge `0 ≤ c < 2^(2t)`. -/
theorem shift_in_range {ω c x x' b : Int} {l t : Nat} (hx : 0 ≤ x) (hxb : x ≤ b) (hx' : 0 ≤ x')
    (hxb' : x' ≤ b) (hc0 : 0 ≤ c) (hc : c < 2 ^ (2 * t))
    (hlo : 1 + 2 ^ (2 * t) * b ≤ ω) (hhi : ω ≤ 2 ^ (l + 2 * t) * b - 1 - 2 ^ (2 * t) * b) :
    1 ≤ ω + c * (x - x') ∧ ω + c * (x - x') ≤ 2 ^ (l + 2 * t) * b - 1 := by
  have hb : 0 ≤ b := le_trans hx hxb
  have hP : (0 : Int) < 2 ^ (2 * t) := by positivity
  have h1 : c * (x - x') ≤ 2 ^ (2 * t) * b := by
    have : c * (x - x') ≤ c * b := mul_le_mul_of_nonneg_left (by omega) hc0
    have : c * b ≤ 2 ^ (2 * t) * b := mul_le_mul_of_nonneg_right (le_of_lt hc) hb
    linarith
  have h2 : -(2 ^ (2 * t) * b) ≤ c * (x - x') := by
    have : c * (x' - x) ≤ c * b := mul_le_mul_of_nonneg_left (by omega) hc0
    have : c * b ≤ 2 ^ (2 * t) * b := mul_le_mul_of_nonneg_right (le_of_lt hc) hb
    have e : c * (x - x') = -(c * (x' - x)) := by ring
    linarith
  constructor <;> linarith

/-- **How many blindings are not covered**: the blindings excluded by `shift_in_range` number
`2·2^(2t)·b`, and `2^l` times that is at most twice the size `2^(l+2t)·b` of the whole range — the
responses of two secrets differ by a fraction of at most `2^(1−l)` of the draws. -/
theorem masked_fraction (b : Int) (l t : Nat) (_hb : 0 ≤ b) :
    2 ^ l * (2 * (2 ^ (2 * t) * b)) = 2 * (2 ^ (l + 2 * t) * b) := by
  rw [pow_add]; ring

/-- The excluded blindings really are a sub-range: with `1 ≤ b` and `2 ≤ l` the interval of
`shift_in_range` is non-empty (so the statement is not vacuous). -/
theorem covered_range_nonempty {b : Int} {l t : Nat} (hb : 1 ≤ b) (hl : 2 ≤ l) :
    1 + 2 ^ (2 * t) * b ≤ 2 ^ (l + 2 * t) * b - 1 - 2 ^ (2 * t) * b := by
  have hP : (1 : Int) ≤ 2 ^ (2 * t) := one_le_pow₀ (by norm_num)
  have h4 : (4 : Int) ≤ 2 ^ l := by
    calc (4 : Int) = 2 ^ 2 := by norm_num
      _ ≤ 2 ^ l := pow_le_pow_right₀ (by norm_num) hl
  have hPb : 1 ≤ 2 ^ (2 * t) * b := by nlinarith
  have : 4 * (2 ^ (2 * t) * b) ≤ 2 ^ (l + 2 * t) * b := by
    rw [pow_add]
    have : 4 * (2 ^ (2 * t) * b) ≤ 2 ^ l * (2 ^ (2 * t) * b) :=
      mul_le_mul_of_nonneg_right h4 (by linarith)
    linarith [mul_assoc ((2 : Int) ^ l) (2 ^ (2 * t)) b]
  linarith

/-- **F12, as it was** (pure arithmetic about the range used before the repair): with `l + t = 168`,
a secret bound `b ≤ 2^257` (every `rmax` the library passes) and a challenge of at least 255 bits,
every blinding `ω ≤ 2^(l+t)·b − 1` has `⌊ω / c⌋ < 2^170`, so `⌊d / c⌋` was the secret up to `2^170`
although the secrets answered for (`x₁ ≈ √(2^T·x)`) have more than 400 bits. -/
theorem old_range_leak_bound {ω c b : Int} (hω : ω ≤ 2 ^ (40 + 128) * b - 1) (hb : b ≤ 2 ^ 257)
    (hc : 2 ^ 255 ≤ c) : ω / c < 2 ^ 170 := by
  have hc0 : 0 < c := lt_of_lt_of_le (by positivity) hc
  have hnum : ω < 2 ^ 170 * c := by
    have e1 : (2 : Int) ^ (40 + 128) * 2 ^ 257 = 2 ^ 170 * 2 ^ 255 := by
      rw [← pow_add, ← pow_add]
    calc ω ≤ 2 ^ (40 + 128) * b - 1 := hω
      _ < 2 ^ (40 + 128) * b := sub_one_lt _
      _ ≤ 2 ^ (40 + 128) * 2 ^ 257 := mul_le_mul_of_nonneg_left hb (by positivity)
      _ = 2 ^ 170 * 2 ^ 255 := e1
      _ ≤ 2 ^ 170 * c := mul_le_mul_of_nonneg_left hc (by positivity)
  exact Int.ediv_lt_of_lt_mul hc0 hnum

/-! ### the larger-interval (CFT) sub-proof: the accepted response is independent of the secret -/

/-- **Perfect masking by rejection sampling (Algorithm 5).** For a secret remainder `x ∈ [0, b₂]` and
any challenge `c ≥ 0`, every response value `D` of the accepted interval `[c·b₂, U]` (`U` the upper
end of the masking range `[0, U]`) is produced by exactly one legal masking value, `w = D − x·c`, and
that `w` lies in `[0, U]`. Hence the set of accepted `(w, D)` pairs is in bijection with
`[c·b₂, U]` for EVERY `x`: conditioned on acceptance the response `D₁` is uniform on the same interval
whatever the secret is. -/
theorem large_interval_response_uniform {x c b2 U D : Int} (hx0 : 0 ≤ x) (hx : x ≤ b2) (hc : 0 ≤ c)
    (hD : c * b2 ≤ D) (hDU : D ≤ U) :
    (0 ≤ D - x * c ∧ D - x * c ≤ U) ∧ ((D - x * c) + x * c = D) ∧
      ∀ w : Int, w + x * c = D → w = D - x * c := by
  have h1 : x * c ≤ c * b2 := by
    have := mul_le_mul_of_nonneg_left hx hc
    linarith [mul_comm x c]
  have h2 : 0 ≤ x * c := mul_nonneg hx0 hc
  refine ⟨⟨by linarith, by linarith⟩, by ring, fun w hw => by linarith⟩

/-- The number of accepted masking values does not depend on the secret: `w` is accepted for `x` iff
`w + x·c` lies in `[c·b₂, U]` and `w ∈ [0, U]`; by `large_interval_response_uniform` these `w` are
exactly `{D − x·c | D ∈ [c·b₂, U]}`. Stated as: the accepted masking values for `x` are the accepted
masking values for `0` shifted by `−x·c`. -/
theorem large_interval_accept_shift {x c b2 U w : Int} (hx0 : 0 ≤ x) (hx : x ≤ b2) (hc : 0 ≤ c) :
    (0 ≤ w ∧ w ≤ U ∧ c * b2 ≤ w + x * c ∧ w + x * c ≤ U) ↔
      (0 ≤ w + x * c ∧ w + x * c ≤ U ∧ c * b2 ≤ (w + x * c) + 0 * c ∧ (w + x * c) + 0 * c ≤ U) := by
  have h1 : x * c ≤ c * b2 := by
    have := mul_le_mul_of_nonneg_left hx hc
    linarith [mul_comm x c]
  have h2 : 0 ≤ x * c := mul_nonneg hx0 hc
  constructor
  · rintro ⟨a, b, c1, d⟩; exact ⟨by linarith, d, by linarith, by linarith⟩
  · rintro ⟨a, b, c1, d⟩; exact ⟨by linarith, by linarith, by linarith, by linarith⟩

end Zk.C19Leak
