/-
C06  Blind BBS soundness — the commitment part, and what `verify_blind_sign` decides.

"The signer never issues a blind signature for a commitment whose proof of correctness does not
verify: any single-bit change of the serialized commitment-with-proof, a proof made for other
committed messages, for another ciphersuite, or a proof truncated or extended by whole scalars
is refused. A blind signature or blind proof verifies only with exactly the committed messages,
signer messages, blinding factor, header, presentation header, public key and signer-message
count it was produced for."

No deterministic theorem can say "a forger fails" (the hash functions are arbitrary). Proved
here, for every environment / every lawful environment, both suites, all lengths:

* `blind_sign_requires_valid_commit`, `blind_sign_refuses` — `blind_sign` returns a signature
  only for an empty commitment or one that decodes and passes `core_commit_verify`;
* `coreCommitVerify_ok_iff` — exactly what `core_commit_verify` decides (explicit `Cbar`);
* `commit_special_soundness` — explicit extractor of an opening `(s*, m*_i)` of `C`;
* `commit_binding`, `commit_tamper_*` — a changed `C`, `ŝ`, `m̂_i` or number of scalars that is
  still accepted exhibits a `HashCollision` (or an identity generator); a changed challenge a
  `FixedPoint`;
* `verifyBlindSign_iff` — `verify_blind_sign` decides `(sk+e)•A = B(ms ++ blind :: cms)` over
  the generator list `gens(L+1) ++ blindGens(M+1)`.
-/
import ZkProofs.Lemmas.Sound
set_option linter.unusedSectionVars false
set_option linter.unusedVariables false
set_option linter.unusedSimpArgs false
namespace Zk.C06
open Zk Res Zk.Sound

variable {S G1 G2 GT : Type} [Field S] [DecidableEq S]
variable [AddCommGroup G1] [Module S G1] [DecidableEq G1]
variable [AddCommGroup G2] [Module S G2] [DecidableEq G2]
variable [AddCommGroup GT] [Module S GT]
variable {env env' : Env S G1 G2} {pair : G1 →ₗ[S] G2 →ₗ[S] GT}

/-! ### 6. The signer only signs verified commitments -/

/-- `deserialize_and_validate_commit` returns a commitment only if the input is empty (then the
identity) or it decodes and its proof passes `core_commit_verify` over the given generators. -/
theorem deserializeAndValidateCommit_ok (cs : Suite G1) (cwp : Option Bytes)
    (bgens : Generators G1) (apiId : Option Bytes) (C : G1)
    (h : deserializeAndValidateCommit env cs cwp bgens apiId = .ok C) :
    (cwp.getD [] = [] ∧ C = 0) ∨
      ∃ c, Commitment.fromBytes env (cwp.getD []) = .ok c ∧ C = c.commitment ∧
        c.proof.mCap.length + 1 ≤ bgens.values.length ∧
        coreCommitVerify env cs c.commitment c.proof bgens.values (some (apiId.getD [])) = .ok () := by
  unfold deserializeAndValidateCommit at h
  dsimp only at h
  split at h
  · rename_i h0
    left
    exact ⟨List.length_eq_zero_iff.mp h0, by cases h; rfl⟩
  · right
    cases hc : Commitment.fromBytes env (cwp.getD []) with
    | err => rw [hc] at h; cases h
    | panic => rw [hc] at h; cases h
    | ok c =>
      rw [hc] at h; simp only at h
      split at h
      · cases h
      · rename_i hlen
        cases hv : coreCommitVerify env cs c.commitment c.proof bgens.values
            (some (apiId.getD [])) with
        | err => rw [hv] at h; cases h
        | panic => rw [hv] at h; cases h
        | ok u =>
          rw [hv] at h; simp only [Res.ok.injEq] at h
          exact ⟨c, rfl, h.symm, by omega, by rw [hv]⟩

/-- **The signer never signs an unverified commitment.** If `blind_sign` returns a signature,
then either the commitment-with-proof is absent/empty, or it decodes to `(C, proof)` and
`core_commit_verify` accepts the proof over the signer's own blind generators
`create_generators(M + 1, "BLIND_" ‖ api_id)` with the signer's own `api_id`; and the signature
is computed from exactly that `C`. Purely structural: holds in every environment. -/
theorem blind_sign_requires_valid_commit (cs : Suite G1) (sk : S) (pk : G2)
    (cwp header : Option Bytes) (messages : Option (List Bytes)) (σ : Signature S G1)
    (h : blindSign env cs sk pk cwp header messages = .ok σ) :
    ∃ M gens bgens ms C B,
      blindSignM (cwp.getD []).length = some M ∧
      Generators.create env cs ((messages.getD []).length + 1) (some cs.apiIdBlind) = .ok gens ∧
      Generators.create env cs (M + 1) (some (Bytes.ofAscii "BLIND_" ++ cs.apiIdBlind))
        = .ok bgens ∧
      messagesToScalar env cs (messages.getD []) cs.apiIdBlind = .ok ms ∧
      calculateB gens (some C) ms = .ok B ∧
      finalizeBlindSign env cs sk pk B gens bgens header (some cs.apiIdBlind) = .ok σ ∧
      ((cwp.getD [] = [] ∧ C = 0) ∨
        ∃ c, Commitment.fromBytes env (cwp.getD []) = .ok c ∧ C = c.commitment ∧
          coreCommitVerify env cs c.commitment c.proof bgens.values (some cs.apiIdBlind)
            = .ok ()) := by
  unfold blindSign at h
  dsimp only at h
  cases hM : blindSignM (cwp.getD []).length with
  | none => rw [hM] at h; cases h
  | some M =>
    rw [hM] at h; simp only at h
    cases hg : Generators.create env cs ((messages.getD []).length + 1) (some cs.apiIdBlind) with
    | err => rw [hg] at h; cases h
    | panic => rw [hg] at h; cases h
    | ok gens =>
      rw [hg] at h; simp only at h
      cases hbg : Generators.create env cs (M + 1)
          (some (Bytes.ofAscii "BLIND_" ++ cs.apiIdBlind)) with
      | err => rw [hbg] at h; cases h
      | panic => rw [hbg] at h; cases h
      | ok bgens =>
        rw [hbg] at h; simp only at h
        cases hd : deserializeAndValidateCommit env cs (some (cwp.getD [])) bgens
            (some cs.apiIdBlind) with
        | err => rw [hd] at h; cases h
        | panic => rw [hd] at h; cases h
        | ok C =>
          rw [hd] at h; simp only at h
          cases hm : messagesToScalar env cs (messages.getD []) cs.apiIdBlind with
          | err => rw [hm] at h; cases h
          | panic => rw [hm] at h; cases h
          | ok ms =>
            rw [hm] at h; simp only at h
            cases hB : calculateB gens (some C) ms with
            | err => rw [hB] at h; cases h
            | panic => rw [hB] at h; cases h
            | ok B =>
              rw [hB] at h; simp only at h
              refine ⟨M, gens, bgens, ms, C, B, rfl, rfl, hbg, rfl, hB, h, ?_⟩
              rcases deserializeAndValidateCommit_ok cs _ bgens _ C hd with h0 | ⟨c, h1, h2, _, h3⟩
              · exact Or.inl h0
              · exact Or.inr ⟨c, h1, h2, h3⟩

/-- Refusal form: a non-empty commitment-with-proof that does not decode, or whose proof is not
accepted by `core_commit_verify` over the signer's generators, never yields a signature. -/
theorem blind_sign_refuses (cs : Suite G1) (sk : S) (pk : G2) (cwp header : Option Bytes)
    (messages : Option (List Bytes)) (hne : cwp.getD [] ≠ [])
    (hbad : ∀ c M bgens, Commitment.fromBytes env (cwp.getD []) = .ok c →
      blindSignM (cwp.getD []).length = some M →
      Generators.create env cs (M + 1) (some (Bytes.ofAscii "BLIND_" ++ cs.apiIdBlind))
        = .ok bgens →
      coreCommitVerify env cs c.commitment c.proof bgens.values (some cs.apiIdBlind) ≠ .ok ())
    (σ : Signature S G1) : blindSign env cs sk pk cwp header messages ≠ .ok σ := by
  intro h
  obtain ⟨M, gens, bgens, ms, C, B, hM, _, hbg, _, _, _, hor⟩ :=
    blind_sign_requires_valid_commit cs sk pk cwp header messages σ h
  rcases hor with ⟨h0, _⟩ | ⟨c, hc, _, hv⟩
  · exact hne h0
  · exact hbad c M bgens hc hM hbg hv

/-- Two commitments-with-proof of the same (non-zero) length both signed by `blind_sign`: both
decode, and both proofs are accepted over the same blind generators — the premises of
`commit_any_change`, `commit_tamper_*`. -/
theorem blind_sign_two_commitments (cs : Suite G1) (sk : S) (pk : G2)
    (cwp cwp' header header' : Option Bytes) (messages messages' : Option (List Bytes))
    (σ σ' : Signature S G1) (hlen : (cwp'.getD []).length = (cwp.getD []).length)
    (hne : cwp.getD [] ≠ [])
    (h : blindSign env cs sk pk cwp header messages = .ok σ)
    (h' : blindSign env cs sk pk cwp' header' messages' = .ok σ') :
    ∃ c c' bgens, Commitment.fromBytes env (cwp.getD []) = .ok c ∧
      Commitment.fromBytes env (cwp'.getD []) = .ok c' ∧
      coreCommitVerify env cs c.commitment c.proof bgens (some cs.apiIdBlind) = .ok () ∧
      coreCommitVerify env cs c'.commitment c'.proof bgens (some cs.apiIdBlind) = .ok () := by
  obtain ⟨M, _, bgens, _, _, _, hM, _, hbg, _, _, _, hor⟩ :=
    blind_sign_requires_valid_commit cs sk pk cwp header messages σ h
  obtain ⟨M', _, bgens', _, _, _, hM', _, hbg', _, _, _, hor'⟩ :=
    blind_sign_requires_valid_commit cs sk pk cwp' header' messages' σ' h'
  rw [hlen, hM] at hM'
  cases hM'
  rw [hbg] at hbg'
  cases hbg'
  have hne' : cwp'.getD [] ≠ [] := by
    intro h0
    rw [h0] at hlen
    exact hne (List.length_eq_zero_iff.mp hlen.symm)
  rcases hor with ⟨h0, _⟩ | ⟨c, hc, _, hv⟩
  · exact absurd h0 hne
  rcases hor' with ⟨h0, _⟩ | ⟨c', hc', _, hv'⟩
  · exact absurd h0 hne'
  exact ⟨c, c', bgens.values, hc, hc', hv, hv'⟩

/-! ### 7. What `core_commit_verify` decides -/

/-- **Characterisation of `core_commit_verify`** (every environment). With `M = |m̂|`, the proof
`(ŝ, m̂, c)` for `C` is accepted iff there are at least `M + 1` blind generators, the first
`M + 1` being `Q2, J_1, …, J_M`, and `hash_to_scalar` of the challenge input rebuilt from
`Cbar = ŝ•Q2 + Σ_i m̂_i•J_i − c•C` is `c`. (`Sound.linZ Js ss = Σ_i ss_i • Js_i`.) -/
theorem coreCommitVerify_ok_iff (cs : Suite G1) (C : G1) (z : ZKPoK S) (blindGens : List G1)
    (apiId : Option Bytes) :
    coreCommitVerify env cs C z blindGens apiId = .ok () ↔
      ∃ Q2 Js, blindGens.take (z.mCap.length + 1) = Q2 :: Js ∧ Js.length = z.mCap.length ∧
        hashToScalar env cs
          (blindChallengeInput env C (z.sCap • Q2 + linZ Js z.mCap - z.challenge • C) (Q2 :: Js))
          (apiId.getD [] ++ cs.h2s) = .ok z.challenge :=
  Sound.coreCommitVerify_ok_iff cs C z blindGens apiId

/-! ### 8. Special soundness of the commitment proof -/

/-- Under one environment the challenge is a function of the hashed data: two accepted proofs
for the same `C` over the same generators with the same recomputed `Cbar` carry the same
challenge. Hence `commit_special_soundness` lets the second transcript live in another
environment (re-programmed random oracle). -/
theorem commit_same_cbar_same_challenge (cs : Suite G1) (C : G1) (z z' : ZKPoK S)
    (bg : List G1) (apiId : Option Bytes)
    (h : coreCommitVerify env cs C z bg apiId = .ok ())
    (h' : coreCommitVerify env cs C z' bg apiId = .ok ())
    (hlen : z'.mCap.length = z.mCap.length)
    (hCbar : ∀ Q2 Js, Cbar C z' Q2 Js = Cbar C z Q2 Js) : z'.challenge = z.challenge := by
  obtain ⟨Q2, Js, ht, _, hh⟩ := (Sound.coreCommitVerify_ok_iff cs C z bg apiId).mp h
  obtain ⟨Q2', Js', ht', _, hh'⟩ := (Sound.coreCommitVerify_ok_iff cs C z' bg apiId).mp h'
  rw [hlen, ht] at ht'
  obtain ⟨rfl, rfl⟩ := List.cons.inj ht'
  rw [hCbar, hh] at hh'
  exact (Res.ok.inj hh').symm

/-- **Special soundness, explicit extractor.** Let `(ŝ, m̂, c)` be accepted for `C`, and let
`(ŝ', m̂', c')` be a second transcript with as many scalars, the same recomputed `Cbar` over the
same generators, and `c ≠ c'`. Then the publicly computable
`s* = Δ(ŝ − ŝ')`, `m*_i = Δ(m̂_i − m̂'_i)`, `Δ = (c − c')⁻¹` (`Sound.extractOpening`) open the
commitment: `C = s*•Q2 + Σ_i m*_i•J_i`. -/
theorem commit_special_soundness (cs : Suite G1) (C : G1) (z z' : ZKPoK S) (bg : List G1)
    (apiId : Option Bytes)
    (h : coreCommitVerify env cs C z bg apiId = .ok ())
    (hlen : z'.mCap.length = z.mCap.length)
    (hCbar : ∀ Q2 Js, bg.take (z.mCap.length + 1) = Q2 :: Js →
      Cbar C z' Q2 Js = Cbar C z Q2 Js)
    (hc : z.challenge ≠ z'.challenge) :
    ∃ Q2 Js, bg.take (z.mCap.length + 1) = Q2 :: Js ∧ Js.length = z.mCap.length ∧
      (extractOpening z z').2.length = z.mCap.length ∧
      C = (extractOpening z z').1 • Q2 + linZ Js (extractOpening z z').2 := by
  obtain ⟨Q2, Js, ht, hl, _⟩ := (Sound.coreCommitVerify_ok_iff cs C z bg apiId).mp h
  refine ⟨Q2, Js, ht, hl, by simp [extractOpening, hlen], ?_⟩
  exact extractOpening_opens C z z' Q2 Js hlen.symm hc (hCbar Q2 Js ht).symm

/-! ### 9. Tampering with an accepted commitment proof -/

/-- **Binding.** Two accepted commitment proofs carrying the same challenge value (same
`api_id`): unless a hash collision is exhibited, the number of scalars, the generators used,
the commitment and the recomputed `Cbar` coincide. -/
theorem commit_binding (hl : Lawful env pair) (cs : Suite G1) (C C' : G1) (z z' : ZKPoK S)
    (bg bg' : List G1) (apiId : Option Bytes)
    (h : coreCommitVerify env cs C z bg apiId = .ok ())
    (h' : coreCommitVerify env cs C' z' bg' apiId = .ok ())
    (hc : z.challenge = z'.challenge) :
    HashCollision env cs ∨
      (z'.mCap.length = z.mCap.length ∧ C' = C ∧
        ∃ Q2 Js, bg.take (z.mCap.length + 1) = Q2 :: Js ∧
          bg'.take (z.mCap.length + 1) = Q2 :: Js ∧ Js.length = z.mCap.length ∧
          Cbar C z' Q2 Js = Cbar C z Q2 Js) :=
  Sound.commit_binding hl cs C C' z z' bg bg' apiId h h' hc

/-- A proof made for another commitment (other committed messages or blinding factor), or any
change of the encoded point `C`: acceptance with the same proof exhibits a hash collision. -/
theorem commit_tamper_C (hl : Lawful env pair) (cs : Suite G1) (C C' : G1) (z : ZKPoK S)
    (bg : List G1) (apiId : Option Bytes)
    (h : coreCommitVerify env cs C z bg apiId = .ok ())
    (h' : coreCommitVerify env cs C' z bg apiId = .ok ()) (hne : C' ≠ C) :
    HashCollision env cs := by
  rcases Sound.commit_binding hl cs C C' z z bg bg apiId h h' rfl with hcol | ⟨_, hC, _⟩
  · exact hcol
  · exact absurd hC hne

/-- Changing `ŝ`: acceptance exhibits a hash collision, or the first blind generator is the
identity. -/
theorem commit_tamper_sCap (hl : Lawful env pair) (cs : Suite G1) (C : G1) (z : ZKPoK S)
    (bg : List G1) (apiId : Option Bytes) (s' : S)
    (h : coreCommitVerify env cs C z bg apiId = .ok ())
    (h' : coreCommitVerify env cs C { z with sCap := s' } bg apiId = .ok ())
    (hne : s' ≠ z.sCap) : HashCollision env cs ∨ (0 : G1) ∈ bg := by
  rcases Sound.commit_binding hl cs C C z _ bg bg apiId h h' rfl with
    hcol | ⟨_, _, Q2, Js, ht, _, _, hCb⟩
  · exact Or.inl hcol
  · right
    simp only [Cbar] at hCb
    have : (s' - z.sCap) • Q2 = 0 := by linear_combination (norm := module) hCb
    rcases smul_eq_zero_field this with x | x
    · exact absurd (sub_eq_zero.mp x) hne
    · have : Q2 ∈ bg.take (z.mCap.length + 1) := by rw [ht]; exact List.mem_cons_self
      rw [← x]; exact List.mem_of_mem_take this

/-- Changing one `m̂_i`: acceptance exhibits a hash collision, or a blind generator is the
identity. -/
theorem commit_tamper_mCap (hl : Lawful env pair) (cs : Suite G1) (C : G1) (z : ZKPoK S)
    (bg : List G1) (apiId : Option Bytes) (j : Nat) (m' : S) (hj : j < z.mCap.length)
    (h : coreCommitVerify env cs C z bg apiId = .ok ())
    (h' : coreCommitVerify env cs C { z with mCap := z.mCap.set j m' } bg apiId = .ok ())
    (hne : m' ≠ z.mCap[j]) : HashCollision env cs ∨ (0 : G1) ∈ bg := by
  rcases Sound.commit_binding hl cs C C z _ bg bg apiId h h' rfl with
    hcol | ⟨_, _, Q2, Js, ht, _, hl', hCb⟩
  · exact Or.inl hcol
  · right
    simp only [Cbar] at hCb
    have hjJ : j < Js.length := by omega
    rw [linZ_set _ _ _ _ hjJ hj] at hCb
    have : (m' - z.mCap[j]) • Js[j] = 0 := by linear_combination (norm := module) hCb
    rcases smul_eq_zero_field this with x | x
    · exact absurd (sub_eq_zero.mp x) hne
    · have : Js[j] ∈ bg.take (z.mCap.length + 1) := by
        rw [ht]; exact List.mem_cons_of_mem _ (List.getElem_mem hjJ)
      rw [← x]; exact List.mem_of_mem_take this

/-- A proof with a different number of scalars (truncated or extended by whole scalars) that
carries the same challenge value: acceptance — for any commitment, over any generators —
exhibits a hash collision. -/
theorem commit_tamper_count (hl : Lawful env pair) (cs : Suite G1) (C C' : G1) (z z' : ZKPoK S)
    (bg bg' : List G1) (apiId : Option Bytes)
    (h : coreCommitVerify env cs C z bg apiId = .ok ())
    (h' : coreCommitVerify env cs C' z' bg' apiId = .ok ())
    (hc : z'.challenge = z.challenge) (hne : z'.mCap.length ≠ z.mCap.length) :
    HashCollision env cs := by
  rcases Sound.commit_binding hl cs C C' z z' bg bg' apiId h h' hc.symm with hcol | ⟨hM, _⟩
  · exact hcol
  · exact absurd hM hne

/-- Changing the challenge field: acceptance means the new challenge is a fixed point of
"rebuild `Cbar` from `c`, hash" — `FixedPoint`, with the map spelled out. -/
theorem commit_tamper_challenge (cs : Suite G1) (C : G1) (z : ZKPoK S) (bg : List G1)
    (apiId : Option Bytes) (c' : S)
    (h' : coreCommitVerify env cs C { z with challenge := c' } bg apiId = .ok ())
    (hne : c' ≠ z.challenge) :
    ∃ Q2 Js, bg.take (z.mCap.length + 1) = Q2 :: Js ∧
      FixedPoint env cs
        (fun c => blindChallengeInput env C (Cbar C { z with challenge := c } Q2 Js) (Q2 :: Js))
        (apiId.getD [] ++ cs.h2s) z.challenge := by
  obtain ⟨Q2, Js, ht, _, hh⟩ := (Sound.coreCommitVerify_ok_iff cs C _ bg apiId).mp h'
  exact ⟨Q2, Js, ht, c', hne, hh⟩

/-- **Any change whatsoever** (in particular any single-bit change of the serialized
commitment-with-proof: the decoder is injective, see C09 `commitment_strict`). If
`(C', z') ≠ (C, z)` are both accepted over the same generators, then a hash collision is
exhibited, or the challenge field differs (then `commit_tamper_challenge` applies), or they
share `C` and the number of scalars, differ in their responses, and the difference is a linear
relation among the blind generators: `(ŝ'−ŝ)•Q2 + Σ_i (m̂'_i−m̂_i)•J_i = 0`. -/
theorem commit_any_change (hl : Lawful env pair) (cs : Suite G1) (C C' : G1) (z z' : ZKPoK S)
    (bg : List G1) (apiId : Option Bytes)
    (h : coreCommitVerify env cs C z bg apiId = .ok ())
    (h' : coreCommitVerify env cs C' z' bg apiId = .ok ())
    (hne : (C', z') ≠ (C, z)) :
    HashCollision env cs ∨ z'.challenge ≠ z.challenge ∨
      (C' = C ∧ z'.mCap.length = z.mCap.length ∧ (z'.sCap, z'.mCap) ≠ (z.sCap, z.mCap) ∧
        ∃ Q2 Js, bg.take (z.mCap.length + 1) = Q2 :: Js ∧
          (z'.sCap - z.sCap) • Q2 + (linZ Js z'.mCap - linZ Js z.mCap) = 0) := by
  by_cases hc : z'.challenge = z.challenge
  swap
  · exact Or.inr (Or.inl hc)
  rcases Sound.commit_binding hl cs C C' z z' bg bg apiId h h' hc.symm with
    hcol | ⟨hM, hC, Q2, Js, ht, _, _, hCb⟩
  · exact Or.inl hcol
  · right; right
    refine ⟨hC, hM, ?_, Q2, Js, ht, ?_⟩
    · intro heq
      simp only [Prod.mk.injEq] at heq
      apply hne
      cases z; cases z'
      simp only [Prod.mk.injEq, ZKPoK.mk.injEq]
      simp only at hc heq
      exact ⟨hC, heq.1, heq.2, hc⟩
    · simp only [Cbar] at hCb
      rw [hc] at hCb
      linear_combination (norm := module) hCb

/-! ### 10. What `verify_blind_sign` decides -/

/-- **Characterisation of `verify_blind_sign`** for `pk = sk • BP2` in a lawful environment:
accepted iff the signer messages and committed messages map to scalars `ms`, `cms`, the
generators `Q1 :: Hs = create(L + 1, api_id)` and `Q2 :: Js = create(M + 1, "BLIND_" ‖ api_id)`
exist, the domain over `Hs ++ Q2 :: Js` can be computed, and
`(sk + e) • A = P1 + domain•Q1 + Σ (ms ++ blind :: cms)_i • (Hs ++ Q2 :: Js)_i`
(`blind = 0` when absent). -/
theorem verifyBlindSign_iff (hl : Lawful env pair) (cs : Suite G1) (sk : S) (σ : Signature S G1)
    (header : Option Bytes) (messages committed : Option (List Bytes)) (blind : Option S) :
    verifyBlindSign env cs σ (sk • env.bp2) header messages committed blind = .ok () ↔
      ∃ ms cms gens bgens Q1 Hs Q2 Js domain,
        messagesToScalar env cs (messages.getD []) cs.apiIdBlind = .ok ms ∧
        messagesToScalar env cs (committed.getD []) cs.apiIdBlind = .ok cms ∧
        Generators.create env cs ((messages.getD []).length + 1) (some cs.apiIdBlind) = .ok gens ∧
        gens.values = Q1 :: Hs ∧
        Generators.create env cs ((committed.getD []).length + 1)
          (some (Bytes.ofAscii "BLIND_" ++ cs.apiIdBlind)) = .ok bgens ∧
        bgens.values = Q2 :: Js ∧
        calculateDomain env cs (sk • env.bp2) Q1 (Hs ++ Q2 :: Js) header (some cs.apiIdBlind)
          = .ok domain ∧
        (sk + σ.e) • σ.A
          = calcB cs.p1 Q1 domain (Hs ++ Q2 :: Js) (ms ++ blind.getD 0 :: cms) := by
  unfold verifyBlindSign prepareParameters
  dsimp only
  simp only [Option.getD_some]
  cases hm : messagesToScalar env cs (messages.getD []) cs.apiIdBlind with
  | err => simp
  | panic => simp
  | ok ms =>
    simp only
    cases hcm : messagesToScalar env cs (committed.getD []) cs.apiIdBlind with
    | err => simp
    | panic => simp
    | ok cms =>
      simp only
      cases hg : Generators.create env cs ((messages.getD []).length + 1)
          (some cs.apiIdBlind) with
      | err => simp
      | panic => simp
      | ok gens =>
        simp only
        cases hbg : Generators.create env cs ((committed.getD []).length + 1)
            (some (Bytes.ofAscii "BLIND_" ++ cs.apiIdBlind)) with
        | err => simp
        | panic => simp
        | ok bgens =>
          simp only
          obtain ⟨hgl, hgb⟩ := create_length cs _ _ _ hg
          obtain ⟨hbgl, _⟩ := create_length cs _ _ _ hbg
          have hml := messagesToScalar_length cs _ _ _ hm
          have hcml := messagesToScalar_length cs _ _ _ hcm
          cases hgv : gens.values with
          | nil => rw [hgv] at hgl; simp at hgl
          | cons Q1 Hs =>
            cases hbgv : bgens.values with
            | nil => rw [hbgv] at hbgl; simp at hbgl
            | cons Q2 Js =>
              rw [coreVerify_ok_iff hl]
              simp only [hgv, hbgv, List.cons_append, hgb]
              constructor
              · rintro ⟨Q1', Hs', d, hcons, _, hd, heq⟩
                obtain ⟨rfl, rfl⟩ := List.cons.inj hcons
                exact ⟨ms, cms, gens, bgens, _, _, Q2, Js, d, rfl, rfl, rfl, hgv, rfl, hbgv,
                  hd, by simpa using heq⟩
              · rintro ⟨ms', cms', gens', bgens', Q1', Hs', Q2', Js', d, h1, h2, h3, h4, h5, h6,
                  hd, heq⟩
                cases h1; cases h2; cases h3; cases h5
                rw [hgv] at h4; rw [hbgv] at h6
                obtain ⟨rfl, rfl⟩ := List.cons.inj h4
                obtain ⟨rfl, rfl⟩ := List.cons.inj h6
                refine ⟨Q1, Hs ++ Q2 :: Js, d, rfl, ?_, hd, by simpa using heq⟩
                rw [hgv] at hgl; rw [hbgv] at hbgl
                simp only [List.length_cons, List.length_append, List.length_nil] at hgl hbgl ⊢
                omega

end Zk.C06
