/-
Facts about the CONCRETE executable instance `Zk.Concrete.env` (BLS12-381 built from L0) that
discharge hypotheses the abstract BBS theorems take as assumptions.

* `noHashPanic_concrete`: `Zk.Total.NoHashPanic Concrete.env cs` for every suite requesting 48
  bytes from the expander, in particular the two generated suites (`noHashPanic_sha`,
  `noHashPanic_shake`). Hence the C08 totality theorems hold outright for the concrete
  environment: `verify_total_concrete`, `proofVerify_total_concrete`,
  `blindProofVerify_total_concrete`, `decode_total_concrete`, … (no hypothesis left).
* `hashTotal_concrete`: `HashTotal Concrete.env cs dst` for every `dst` of at most 255 bytes;
  instantiated for all DSTs the API builds from the generated constants (`hashTotal_sha`,
  `hashTotal_shake`).

* `R_prime`, `P_prime`: the two BLS12-381 moduli are prime (Pratt certificates checked by the
  kernel, `ZkProofs/Lemmas/Primes.lean`).
* `scalar_field`: the concrete scalar operations are those of the field `ZMod R`
  (`toZ` is a homomorphism, injective on reduced scalars, results are reduced, `sInv` is the
  field inverse), and `lawful_scalar_part`: on the reduced scalars `FrR` the concrete `sInv`
  and scalar codec satisfy the `sInv_zero`, `sInv_ne`, `sCodec` fields of `Lawful` literally.
* `shaSuite_isSome`, `shakeSuite_isSome`: the generated `P1` constants decode, so the two
  concrete suites exist (kernel evaluation of `G1.fromCompressed`).

Proved from the definitions of SHA-256 / SHAKE-256 / `expand_message` (lengths only); no
cryptographic assumption. See `ZkProofs/Lemmas/ConcreteHash.lean`.

NOT covered (remaining `Lawful` hypotheses for the concrete environment): the group laws of
`G1Pt`/`G2Pt` as `ZMod R`-modules, the point codecs, bilinearity / non-degeneracy of
`pairingProductIsOne`. These are exercised by the differential tests only.
-/
import ZkProofs.Lemmas.ConcreteHash
import ZkProofs.Lemmas.ConcreteScalar
import ZkProofs.Props.C08
import ZkProofs.Props.C09
set_option linter.unusedVariables false
namespace Zk.ConcreteFacts
open Zk Zk.Total Zk.ConcreteHash

/-! ### The generated suites -/

/-- `cs` carries the constants of the generated SHA-256 suite (`p1` arbitrary). -/
structure IsSha (cs : Suite G1Pt) : Prop where
  xof : cs.xof = Generated.Sha.xof
  apiId : cs.apiId = Generated.Sha.apiId
  apiIdBlind : cs.apiIdBlind = Generated.Sha.apiIdBlind
  keygenDst : cs.keygenDst = Generated.Sha.keygenDst
  generatorSeed : cs.generatorSeed = Generated.Sha.generatorSeed
  generatorSeedDst : cs.generatorSeedDst = Generated.Sha.generatorSeedDst
  generatorDst : cs.generatorDst = Generated.Sha.generatorDst
  mapMsgScalar : cs.mapMsgScalar = Generated.Sha.mapMsgScalar
  h2s : cs.h2s = Generated.Sha.h2s
  expandLen : cs.expandLen = Generated.Sha.expandLen
  ikmLen : cs.ikmLen = Generated.Sha.ikmLen

/-- `cs` carries the constants of the generated SHAKE-256 suite (`p1` arbitrary). -/
structure IsShake (cs : Suite G1Pt) : Prop where
  xof : cs.xof = Generated.Shake.xof
  apiId : cs.apiId = Generated.Shake.apiId
  apiIdBlind : cs.apiIdBlind = Generated.Shake.apiIdBlind
  keygenDst : cs.keygenDst = Generated.Shake.keygenDst
  generatorSeed : cs.generatorSeed = Generated.Shake.generatorSeed
  generatorSeedDst : cs.generatorSeedDst = Generated.Shake.generatorSeedDst
  generatorDst : cs.generatorDst = Generated.Shake.generatorDst
  mapMsgScalar : cs.mapMsgScalar = Generated.Shake.mapMsgScalar
  h2s : cs.h2s = Generated.Shake.h2s
  expandLen : cs.expandLen = Generated.Shake.expandLen
  ikmLen : cs.ikmLen = Generated.Shake.ikmLen

/-- The suite the driver runs (if `P1` decodes) is a SHA suite. -/
theorem isSha_of_shaSuite (cs : Suite G1Pt) (h : Concrete.shaSuite? = some cs) : IsSha cs := by
  unfold Concrete.shaSuite? at h
  cases hp : G1.fromCompressed Generated.Sha.p1 with
  | none => rw [hp] at h; cases h
  | some p1 => rw [hp] at h; cases h; constructor <;> rfl

theorem isShake_of_shakeSuite (cs : Suite G1Pt) (h : Concrete.shakeSuite? = some cs) :
    IsShake cs := by
  unfold Concrete.shakeSuite? at h
  cases hp : G1.fromCompressed Generated.Shake.p1 with
  | none => rw [hp] at h; cases h
  | some p1 => rw [hp] at h; cases h; constructor <;> rfl

/-! ### `NoHashPanic` -/

/-- **Generator creation never panics in the concrete environment**: the expander answers
every 48-byte request and `hash_to_curve` every request (its only failure source is the
expander asked for 128 bytes). -/
theorem noHashPanic_concrete (cs : Suite G1Pt) (hlen : cs.expandLen = 48) :
    NoHashPanic Concrete.env cs := ConcreteHash.noHashPanic_concrete cs hlen

theorem noHashPanic_sha (cs : Suite G1Pt) (h : IsSha cs) : NoHashPanic Concrete.env cs :=
  noHashPanic_concrete cs (by rw [h.expandLen]; rfl)

theorem noHashPanic_shake (cs : Suite G1Pt) (h : IsShake cs) : NoHashPanic Concrete.env cs :=
  noHashPanic_concrete cs (by rw [h.expandLen]; rfl)

theorem noHashPanic_shaSuite (cs : Suite G1Pt) (h : Concrete.shaSuite? = some cs) :
    NoHashPanic Concrete.env cs := noHashPanic_sha cs (isSha_of_shaSuite cs h)

theorem noHashPanic_shakeSuite (cs : Suite G1Pt) (h : Concrete.shakeSuite? = some cs) :
    NoHashPanic Concrete.env cs := noHashPanic_shake cs (isShake_of_shakeSuite cs h)

/-! ### `HashTotal` -/

/-- **`hash_to_scalar` is total in the concrete environment** for every DST of at most 255
bytes (and fails for every longer one, `hashToScalar_concrete_ok_iff`). -/
theorem hashTotal_concrete (cs : Suite G1Pt) (dst : Bytes) (hdst : dst.length ≤ 255)
    (hlen : cs.expandLen = 48) : HashTotal Concrete.env cs dst :=
  hashTotal_concrete_of_length cs dst hdst hlen

/-- The condition is sharp: a DST longer than 255 bytes makes `hash_to_scalar` fail. -/
theorem hashTotal_concrete_iff (cs : Suite G1Pt) (dst : Bytes) (hlen : cs.expandLen = 48) :
    HashTotal Concrete.env cs dst ↔ dst.length ≤ 255 :=
  ⟨fun h => (hashToScalar_concrete_ok_iff cs [] dst hlen).mp (h []),
   fun h => hashTotal_concrete cs dst h hlen⟩

/-- All DSTs the API derives from the constants of the SHA suite: `api_id ‖ "H2S_"`,
`api_id ‖ "MAP_MSG_TO_SCALAR_AS_HASH_"` for the plain and the blind `api_id`, and the default
key-generation DST. -/
theorem hashTotal_sha (cs : Suite G1Pt) (h : IsSha cs) :
    HashTotal Concrete.env cs (cs.apiId ++ cs.h2s) ∧
    HashTotal Concrete.env cs (cs.apiIdBlind ++ cs.h2s) ∧
    HashTotal Concrete.env cs (cs.apiId ++ cs.mapMsgScalar) ∧
    HashTotal Concrete.env cs (cs.apiIdBlind ++ cs.mapMsgScalar) ∧
    HashTotal Concrete.env cs (cs.apiId ++ cs.keygenDst) := by
  have hl : cs.expandLen = 48 := by rw [h.expandLen]; rfl
  refine ⟨?_, ?_, ?_, ?_, ?_⟩ <;> refine hashTotal_concrete cs _ ?_ hl
  · rw [h.apiId, h.h2s]; decide
  · rw [h.apiIdBlind, h.h2s]; decide
  · rw [h.apiId, h.mapMsgScalar]; decide
  · rw [h.apiIdBlind, h.mapMsgScalar]; decide
  · rw [h.apiId, h.keygenDst]; decide

theorem hashTotal_shake (cs : Suite G1Pt) (h : IsShake cs) :
    HashTotal Concrete.env cs (cs.apiId ++ cs.h2s) ∧
    HashTotal Concrete.env cs (cs.apiIdBlind ++ cs.h2s) ∧
    HashTotal Concrete.env cs (cs.apiId ++ cs.mapMsgScalar) ∧
    HashTotal Concrete.env cs (cs.apiIdBlind ++ cs.mapMsgScalar) ∧
    HashTotal Concrete.env cs (cs.apiId ++ cs.keygenDst) := by
  have hl : cs.expandLen = 48 := by rw [h.expandLen]; rfl
  refine ⟨?_, ?_, ?_, ?_, ?_⟩ <;> refine hashTotal_concrete cs _ ?_ hl
  · rw [h.apiId, h.h2s]; decide
  · rw [h.apiIdBlind, h.h2s]; decide
  · rw [h.apiId, h.mapMsgScalar]; decide
  · rw [h.apiIdBlind, h.mapMsgScalar]; decide
  · rw [h.apiId, h.keygenDst]; decide

/-- The form used by the `apiId : Option Bytes` arguments of the core functions. -/
theorem hashTotal_sha_getD (cs : Suite G1Pt) (h : IsSha cs) :
    HashTotal Concrete.env cs ((some cs.apiId).getD [] ++ cs.h2s) ∧
    HashTotal Concrete.env cs ((some cs.apiIdBlind).getD [] ++ cs.h2s) :=
  ⟨(hashTotal_sha cs h).1, (hashTotal_sha cs h).2.1⟩

theorem hashTotal_shake_getD (cs : Suite G1Pt) (h : IsShake cs) :
    HashTotal Concrete.env cs ((some cs.apiId).getD [] ++ cs.h2s) ∧
    HashTotal Concrete.env cs ((some cs.apiIdBlind).getD [] ++ cs.h2s) :=
  ⟨(hashTotal_shake cs h).1, (hashTotal_shake cs h).2.1⟩

/-! ### C08 specialised: no hypothesis left for the concrete environment -/

section
variable (cs : Suite G1Pt) (hlen : cs.expandLen = 48)
include hlen

theorem verify_total_concrete (σ : Signature Fr G1Pt) (pk : G2Pt)
    (messages : Option (List Bytes)) (header : Option Bytes) :
    verify Concrete.env cs σ pk messages header ≠ .panic :=
  C08.verify_total (noHashPanic_concrete cs hlen) σ pk messages header

theorem proofVerify_total_concrete (π : PoKSignature Fr G1Pt) (pk : G2Pt)
    (disclosedMessages : Option (List Bytes)) (disclosedIndexes : Option (List Nat))
    (header ph : Option Bytes) :
    proofVerify Concrete.env cs π pk disclosedMessages disclosedIndexes header ph ≠ .panic :=
  C08.proofVerify_total (noHashPanic_concrete cs hlen) π pk disclosedMessages disclosedIndexes
    header ph

theorem blindProofVerify_total_concrete (π : PoKSignature Fr G1Pt) (pk : G2Pt)
    (header ph : Option Bytes) (L : Option Nat)
    (disclosedMessages disclosedCommitted : Option (List Bytes))
    (disclosedIndexes disclosedCommitmentIndexes : Option (List Nat)) :
    blindProofVerify Concrete.env cs π pk header ph L disclosedMessages disclosedCommitted
      disclosedIndexes disclosedCommitmentIndexes ≠ .panic :=
  C08.blindProofVerify_total (noHashPanic_concrete cs hlen) π pk header ph L disclosedMessages
    disclosedCommitted disclosedIndexes disclosedCommitmentIndexes

theorem verifyBlindSign_total_concrete (σ : Signature Fr G1Pt) (pk : G2Pt)
    (header : Option Bytes) (messages committed : Option (List Bytes))
    (secretProverBlind : Option Fr) :
    verifyBlindSign Concrete.env cs σ pk header messages committed secretProverBlind ≠ .panic :=
  C08.verifyBlindSign_total (noHashPanic_concrete cs hlen) σ pk header messages committed
    secretProverBlind

theorem blindSign_total_concrete (sk : Fr) (pk : G2Pt) (cwp : Option Bytes)
    (header : Option Bytes) (messages : Option (List Bytes)) :
    blindSign Concrete.env cs sk pk cwp header messages ≠ .panic :=
  C08.blindSign_total (noHashPanic_concrete cs hlen) sk pk cwp header messages

theorem updateSignature_total_concrete (σ : Signature Fr G1Pt) (sk : Fr)
    (oldMessage newMessage : Bytes) (updateIndex n : Nat) :
    updateSignature Concrete.env cs σ sk oldMessage newMessage updateIndex n ≠ .panic :=
  C08.updateSignature_total (noHashPanic_concrete cs hlen) σ sk oldMessage newMessage
    updateIndex n

theorem proofGen_total_concrete (pk : G2Pt) (signature : Bytes)
    (header ph : Option Bytes) (messages : Option (List Bytes))
    (disclosedIndexes : Option (List Nat)) (tape : List Fr) :
    proofGen Concrete.env cs pk signature header ph messages disclosedIndexes tape ≠ .panic :=
  C08.proofGen_total (noHashPanic_concrete cs hlen) pk signature header ph messages
    disclosedIndexes tape

theorem blindProofGen_total_concrete (pk : G2Pt) (signature : Bytes)
    (header ph : Option Bytes) (messages committed : Option (List Bytes))
    (disclosedIndexes disclosedCommitmentIndexes : Option (List Nat))
    (secretProverBlind : Option Fr) (tape : List Fr) :
    blindProofGen Concrete.env cs pk signature header ph messages committed disclosedIndexes
      disclosedCommitmentIndexes secretProverBlind tape ≠ .panic :=
  C08.blindProofGen_total (noHashPanic_concrete cs hlen) pk signature header ph messages
    committed disclosedIndexes disclosedCommitmentIndexes secretProverBlind tape

theorem commit_total_concrete (committedMessages : Option (List Bytes))
    (tape : List Fr) (ht : (committedMessages.getD []).length + 2 ≤ tape.length) :
    commit Concrete.env cs committedMessages tape ≠ .panic :=
  C08.commit_total (noHashPanic_concrete cs hlen) committedMessages tape ht

/-- In the concrete environment `sign` panics only when `sk + e` has the representative `0`
(`Concrete.env.sInv s = none ↔ s.v = 0`). -/
theorem sign_panic_concrete (messages : Option (List Bytes)) (sk : Fr) (pk : G2Pt)
    (header : Option Bytes) (h : sign Concrete.env cs messages sk pk header = .panic) :
    ∃ ms Q1 Hs domain e,
      messagesToScalar Concrete.env cs (messages.getD []) cs.apiId = .ok ms ∧
      Generators.create Concrete.env cs ((messages.getD []).length + 1) (some cs.apiId)
        = .ok ⟨cs.p1, Q1 :: Hs⟩ ∧
      calculateDomain Concrete.env cs pk Q1 Hs header (some cs.apiId) = .ok domain ∧
      hashToScalar Concrete.env cs (serializeScalars Concrete.env (sk :: ms ++ [domain]))
        (cs.apiId ++ cs.h2s) = .ok e ∧
      (sk + e).v = 0 := by
  obtain ⟨ms, Q1, Hs, domain, e, h1, h2, h3, h4, h5⟩ :=
    C08.sign_panic (noHashPanic_concrete cs hlen) messages sk pk header h
  refine ⟨ms, Q1, Hs, domain, e, h1, h2, h3, h4, ?_⟩
  have : (if (sk + e).v = 0 then none else some (⟨Fr.inv (sk + e).v⟩ : Fr)) = none := h5
  by_contra hne
  rw [if_neg hne] at this
  cases this

end

/-- Decoding is total in the concrete environment (unconditional). -/
theorem decode_total_concrete (b : Bytes) :
    pkFromBytes Concrete.env b ≠ .panic ∧ skFromBytes Concrete.env b ≠ .panic ∧
    Signature.fromBytes Concrete.env b ≠ .panic ∧ PoKSignature.fromBytes Concrete.env b ≠ .panic ∧
    ZKPoK.fromBytes Concrete.env b ≠ .panic ∧ Commitment.fromBytes Concrete.env b ≠ .panic :=
  C08.decode_total Concrete.env b

theorem keyGen_total_concrete (cs : Suite G1Pt) (km : Bytes) (ki kd : Option Bytes) :
    keyGen Concrete.env cs km ki kd ≠ .panic := C08.keyGen_total Concrete.env cs km ki kd

/-- The two generated suites satisfy the hypothesis `cs.expandLen = 48`. -/
example (cs : Suite G1Pt) (h : Concrete.shaSuite? = some cs) (σ : Signature Fr G1Pt) (pk : G2Pt)
    (m : Option (List Bytes)) (hd : Option Bytes) : verify Concrete.env cs σ pk m hd ≠ .panic :=
  verify_total_concrete cs (by rw [(isSha_of_shaSuite cs h).expandLen]; rfl) σ pk m hd

example (cs : Suite G1Pt) (h : Concrete.shakeSuite? = some cs) (σ : Signature Fr G1Pt) (pk : G2Pt)
    (m : Option (List Bytes)) (hd : Option Bytes) : verify Concrete.env cs σ pk m hd ≠ .panic :=
  verify_total_concrete cs (by rw [(isShake_of_shakeSuite cs h).expandLen]; rfl) σ pk m hd

/-! ### The moduli are prime; the scalars are the field `ZMod R` -/

/-- The BLS12-381 subgroup order `r` is prime. -/
theorem R_prime : Nat.Prime R := Zk.R_prime

/-- The BLS12-381 base-field modulus `p` is prime. -/
theorem P_prime : Nat.Prime P := Zk.P_prime

/-- `φ s = (s.v : ZMod R)`, the class of the representative (`ConcreteScalar.toZ`). -/
local notation "φ" => Zk.ConcreteScalar.toZ

open Zk.ConcreteScalar in
/-- **The concrete scalar arithmetic is that of the field `ZMod R`.** `φ s = (s.v : ZMod R)`
commutes with all operations (for arbitrary representatives), is injective on reduced scalars,
all operations (and `okm`, `sDec`, `sInv`) return reduced scalars, and `sInv` is inversion. -/
theorem scalar_field :
    (φ 0 = 0 ∧ φ 1 = 1) ∧
    (∀ a b : Fr, φ (a + b) = φ a + φ b ∧ φ (a * b) = φ a * φ b ∧
      φ (a - b) = φ a - φ b ∧ φ (-a) = - φ a) ∧
    (∀ a b : Fr, Reduced a → Reduced b → φ a = φ b → a = b) ∧
    (∀ a b : Fr, Reduced (a + b) ∧ Reduced (a * b) ∧ Reduced (a - b) ∧ Reduced (-a)) ∧
    (∀ b, Reduced (Concrete.env.okm b)) ∧
    (∀ b s, Concrete.env.sDec b = some s → Reduced s) ∧
    (∀ s t : Fr, Concrete.env.sInv s = some t → Reduced t ∧ φ t = (φ s)⁻¹) ∧
    (∀ s : Fr, Reduced s → (Concrete.env.sInv s = none ↔ φ s = 0)) :=
  ⟨⟨toZ_zero, toZ_one⟩,
   fun a b => ⟨toZ_add a b, toZ_mul a b, toZ_sub a b, toZ_neg a⟩,
   fun _ _ ha hb h => toZ_injective ha hb h,
   fun a b => ⟨reduced_add a b, reduced_mul a b, reduced_sub a b, reduced_neg a⟩,
   reduced_okm, reduced_sDec,
   fun s t h => ⟨reduced_sInv s t h, sInv_some s t h⟩,
   fun _ hs => sInv_none_iff hs⟩

open Zk.ConcreteScalar Zk.Codecs.ScalarCodec in
/-- **The scalar part of `Lawful` holds for the concrete environment**, on the field `FrR` of
reduced scalars (whose `+, *, -, 0, 1` are the model's: `ConcreteScalar.coe_add` …):
`sInv_zero`, `sInv_ne` and `sCodec` (`C09.scalar_codec_canonical`). -/
theorem lawful_scalar_part :
    sInvR 0 = none ∧ (∀ s : FrR, s ≠ 0 → sInvR s = some s⁻¹) ∧
    Codec (fun s : FrR => Concrete.env.sEnc s.1) sDecR 32 ∧
    (∀ a b : FrR, (a + b).1 = a.1 + b.1 ∧ (a * b).1 = a.1 * b.1 ∧ (a - b).1 = a.1 - b.1 ∧
      (-a).1 = -a.1) ∧ (0 : FrR).1 = 0 ∧ (1 : FrR).1 = 1 ∧
    (∀ s : FrR, (sInvR s).map Subtype.val = Concrete.env.sInv s.1) :=
  ⟨sInvR_zero, sInvR_ne, C09.scalar_codec_canonical,
   fun a b => ⟨coe_add a b, coe_mul a b, coe_sub a b, coe_neg a⟩, coe_zero, coe_one, sInvR_val⟩

/-! ### The two concrete suites exist -/

/-- The generated `P1` of the SHA-256 suite decodes to a point: the suite exists. -/
theorem shaSuite_isSome : Concrete.shaSuite?.isSome = true := by decide +kernel

/-- The generated `P1` of the SHAKE-256 suite decodes to a point: the suite exists. -/
theorem shakeSuite_isSome : Concrete.shakeSuite?.isSome = true := by decide +kernel

/-- Both generated suites exist and satisfy `NoHashPanic` and `HashTotal` for the API's DSTs. -/
theorem concrete_suites :
    (∃ cs, Concrete.shaSuite? = some cs ∧ IsSha cs ∧ NoHashPanic Concrete.env cs ∧
      HashTotal Concrete.env cs (cs.apiId ++ cs.h2s) ∧
      HashTotal Concrete.env cs (cs.apiIdBlind ++ cs.h2s)) ∧
    (∃ cs, Concrete.shakeSuite? = some cs ∧ IsShake cs ∧ NoHashPanic Concrete.env cs ∧
      HashTotal Concrete.env cs (cs.apiId ++ cs.h2s) ∧
      HashTotal Concrete.env cs (cs.apiIdBlind ++ cs.h2s)) := by
  constructor
  · obtain ⟨cs, h⟩ := Option.isSome_iff_exists.mp shaSuite_isSome
    have hs := isSha_of_shaSuite cs h
    exact ⟨cs, h, hs, noHashPanic_sha cs hs, (hashTotal_sha cs hs).1, (hashTotal_sha cs hs).2.1⟩
  · obtain ⟨cs, h⟩ := Option.isSome_iff_exists.mp shakeSuite_isSome
    have hs := isShake_of_shakeSuite cs h
    exact ⟨cs, h, hs, noHashPanic_shake cs hs, (hashTotal_shake cs hs).1,
      (hashTotal_shake cs hs).2.1⟩

end Zk.ConcreteFacts
