/-
C04 (byte level)  "… verification fails if … any single bit of the encoded proof differs."

`Zk.C04.any_change` speaks about decoded proof objects; `Zk.C09.proof_strict` says the decoder is
injective.  This file joins the two: statements about the OCTET STRING that is handed to
`BBSplusPoKSignature::from_bytes`.

For an accepted proof `π` (core level: `coreProofVerify … = ok`, API level: `proofVerify … = ok`)
and ANY octet string `b' ≠ π.toBytes`:

* `proof_bytes_tamper` / `proofVerify_bytes_tamper` — `from_bytes b'` is `Err`, or it is a proof
  object `π' ≠ π`; and if that `π'` is accepted for the same statement then a `HashCollision` is
  exhibited, or the challenge field differs (`Zk.C04.tamper_challenge`: a `FixedPoint`), or the
  responses differ by an explicit linear relation among `Abar, D` and the hidden-position
  generators (`ResponseRelation`);
* `proof_bitflip` / `proofVerify_bitflip` — the instance `b' = flipBit i (π.toBytes)`, for every
  bit position `i < 8·|π.toBytes|` (`flipBit_ne`: a bit flip changes the string);
* `proof_resize` / `proofVerify_resize` — an octet string of another length that keeps the last
  32 octets (the challenge block): it decodes, if at all, to a proof with the same challenge and
  another number of hidden-message responses, and acceptance — for ANY statement — exhibits a
  `HashCollision`; instances `proof_delete_blocks`, `proof_insert_blocks` (whole 32-octet blocks
  removed / inserted before the challenge block).

Every lawful environment, both suites, all lengths and index sets.
-/
import ZkProofs.Props.C04
import ZkProofs.Props.C09
import Mathlib.Tactic.IntervalCases
set_option linter.unusedSectionVars false
set_option linter.unusedVariables false
set_option linter.unusedSimpArgs false
namespace Zk.C04Bytes
open Zk Res Zk.Sound

/-! ### Bit flips on octet strings -/

/-- The mask of bit `k` of an octet (`k % 8 = 0` is the most significant bit). -/
def bitMask (k : Nat) : UInt8 := UInt8.ofNat (2 ^ (7 - k % 8))

/-- Flip bit `i` of an octet string (bit `0` = most significant bit of the first octet); the
string is unchanged when `i ≥ 8·|b|`. -/
def flipBit (i : Nat) (b : Bytes) : Bytes := b.modify (i / 8) (· ^^^ bitMask i)

theorem bitMask_ne_zero (k : Nat) : bitMask k ≠ 0 := by
  have h : k % 8 < 8 := Nat.mod_lt k (by decide)
  unfold bitMask
  generalize k % 8 = j at h
  interval_cases j <;> decide

theorem xor_ne_self (x m : UInt8) (hm : m ≠ 0) : x ^^^ m ≠ x := by
  intro h
  apply hm
  have : x ^^^ (x ^^^ m) = x ^^^ x := by rw [h]
  rwa [← UInt8.xor_assoc, UInt8.xor_self, UInt8.zero_xor] at this

@[simp] theorem flipBit_length (i : Nat) (b : Bytes) : (flipBit i b).length = b.length := by
  unfold flipBit; exact List.length_modify _ _ _

/-- Exactly the addressed octet changes, by the mask of the addressed bit. -/
theorem flipBit_getElem? (i : Nat) (b : Bytes) (j : Nat) :
    (flipBit i b)[j]? = (fun a => if i / 8 = j then a ^^^ bitMask i else a) <$> b[j]? := by
  unfold flipBit; exact List.getElem?_modify _ _ _ _

/-- **A bit flip changes the string.** -/
theorem flipBit_ne (i : Nat) (b : Bytes) (hi : i < 8 * b.length) : flipBit i b ≠ b := by
  intro h
  have hj : i / 8 < b.length := by omega
  have := congrArg (fun l : Bytes => l[i / 8]?) h
  simp only [flipBit_getElem?, List.getElem?_eq_getElem hj, Option.map_eq_map, Option.map_some,
    if_true, Option.some.injEq] at this
  exact xor_ne_self _ _ (bitMask_ne_zero i) this

/-- Flipping the same bit twice restores the string. -/
theorem flipBit_flipBit (i : Nat) (b : Bytes) : flipBit i (flipBit i b) = b := by
  apply List.ext_getElem?
  intro j
  rw [flipBit_getElem?, flipBit_getElem?]
  cases b[j]? with
  | none => rfl
  | some a =>
    simp only [Option.map_eq_map, Option.map_some, Option.some.injEq]
    split
    · rw [UInt8.xor_assoc, UInt8.xor_self, UInt8.xor_zero]
    · rfl

section
variable {S G1 G2 GT : Type} [Field S] [DecidableEq S]
variable [AddCommGroup G1] [Module S G1] [DecidableEq G1]
variable [AddCommGroup G2] [Module S G2] [DecidableEq G2]
variable [AddCommGroup GT] [Module S GT]
variable {env : Env S G1 G2} {pair : G1 →ₗ[S] G2 →ₗ[S] GT}

/-! ### The third alternative of `Zk.C04.any_change`, named -/

/-- `π'` and `π` share `Abar, Bbar, D` and the number of hidden messages, differ in their
responses, and the differences are a linear relation among `Abar, D` and among `D` and the
generators of the hidden positions:
`(ê'−ê)•Abar + (r̂1'−r̂1)•D = 0` and `(r̂3'−r̂3)•D + Σ_j (m̂'_j−m̂_j)•H_{u_j} = 0`
(`u = get_remaining_indexes(U + R, di)`, `Sound.lin Hs is ss = Σ_j ss_j • Hs[is_j]`). -/
def ResponseRelation (π π' : PoKSignature S G1) (gens : Generators G1) (di : List Nat) : Prop :=
  π'.Abar = π.Abar ∧ π'.Bbar = π.Bbar ∧ π'.D = π.D ∧ π'.mCap.length = π.mCap.length ∧
    (π'.eCap, π'.r1Cap, π'.r3Cap, π'.mCap) ≠ (π.eCap, π.r1Cap, π.r3Cap, π.mCap) ∧
    ∃ Q1 Hs, gens.values = Q1 :: Hs ∧
      (π'.eCap - π.eCap) • π.Abar + (π'.r1Cap - π.r1Cap) • π.D = 0 ∧
      (π'.r3Cap - π.r3Cap) • π.D
        + (lin Hs (getRemainingIndexes (π.mCap.length + di.length) di) π'.mCap
          - lin Hs (getRemainingIndexes (π.mCap.length + di.length) di) π.mCap) = 0

/-- What acceptance of a changed proof for the same statement implies (the conclusion of
`Zk.C04.any_change`). -/
def ChangeVerdict (env : Env S G1 G2) (cs : Suite G1) (π π' : PoKSignature S G1)
    (gens : Generators G1) (di : List Nat) : Prop :=
  HashCollision env cs ∨ π'.challenge ≠ π.challenge ∨ ResponseRelation π π' gens di

/-! ### 1. Any change of the octet string (core level) -/

/-- Two different octet strings never decode to the same proof; in particular a string
different from `π.toBytes` never decodes to `π`. -/
theorem decode_ne_of_bytes_ne (hl : Lawful env pair) (π π' : PoKSignature S G1) (b' : Bytes)
    (hne : b' ≠ π.toBytes env) (hd : PoKSignature.fromBytes env b' = .ok π') : π' ≠ π := by
  rintro rfl
  exact hne (C09.proof_strict hl b' _ hd).1.symm

/-- **Any change of the encoded proof.** Let `π` be accepted by `core_proof_verify` and let `b'`
be ANY octet string other than the encoding of `π`. Then `from_bytes b'` fails, or returns a
proof object `π' ≠ π`; and if `π'` is accepted for the same statement, then a hash collision is
exhibited, or the challenge field differs, or `ResponseRelation π π'` holds. -/
theorem proof_bytes_tamper (hl : Lawful env pair) (cs : Suite G1) (pk : G2)
    (π : PoKSignature S G1) (gens : Generators G1) (header ph : Option Bytes) (dm : List S)
    (di : List Nat) (apiId : Option Bytes) (hsz : gens.values.length ≤ 2 ^ 64)
    (h : coreProofVerify env cs pk π gens header ph dm di apiId = .ok ())
    (b' : Bytes) (hne : b' ≠ π.toBytes env) :
    PoKSignature.fromBytes env b' = .err ∨
      ∃ π', PoKSignature.fromBytes env b' = .ok π' ∧ π' ≠ π ∧
        (coreProofVerify env cs pk π' gens header ph dm di apiId = .ok () →
          ChangeVerdict env cs π π' gens di) := by
  cases hd : PoKSignature.fromBytes env b' with
  | err => exact Or.inl rfl
  | panic => exact absurd hd (Zk.Total.PoKSignature.fromBytes_ne_panic env b')
  | ok π' =>
    right
    have hπ := decode_ne_of_bytes_ne hl π π' b' hne hd
    exact ⟨π', rfl, hπ, fun h' =>
      C04.any_change hl cs pk π π' gens header ph dm di apiId hsz h h' hπ⟩

/-- **Any single-bit flip of the encoded proof** (all `8·(272 + 32·U)` positions). -/
theorem proof_bitflip (hl : Lawful env pair) (cs : Suite G1) (pk : G2)
    (π : PoKSignature S G1) (gens : Generators G1) (header ph : Option Bytes) (dm : List S)
    (di : List Nat) (apiId : Option Bytes) (hsz : gens.values.length ≤ 2 ^ 64)
    (h : coreProofVerify env cs pk π gens header ph dm di apiId = .ok ())
    (i : Nat) (hi : i < 8 * (272 + 32 * π.mCap.length)) :
    PoKSignature.fromBytes env (flipBit i (π.toBytes env)) = .err ∨
      ∃ π', PoKSignature.fromBytes env (flipBit i (π.toBytes env)) = .ok π' ∧ π' ≠ π ∧
        (coreProofVerify env cs pk π' gens header ph dm di apiId = .ok () →
          ChangeVerdict env cs π π' gens di) :=
  proof_bytes_tamper hl cs pk π gens header ph dm di apiId hsz h _
    (flipBit_ne i _ (by rw [Zk.Codecs.PoKSignature.toBytes_length hl π]; exact hi))

/-! ### 2. Truncation / extension by whole blocks (core level) -/

/-- The last 32 octets of an encoded proof are the encoding of its challenge. -/
theorem toBytes_last32 (hl : Lawful env pair) (π : PoKSignature S G1) :
    (π.toBytes env).drop ((π.toBytes env).length - 32) = env.sEnc π.challenge := by
  have hlen : (env.sEnc π.challenge).length = 32 := hl.sCodec.enc_len _
  unfold PoKSignature.toBytes
  rw [List.length_append, hlen, Nat.add_sub_cancel]
  exact List.drop_left

/-- **Another length, same challenge block.** Let `π` be accepted and let `b'` be an octet string
of a different length whose last 32 octets are those of `π.toBytes`. If `b'` decodes at all, it
decodes to a proof with the same challenge value and a different number of hidden-message
responses; and acceptance of that proof — for ANY statement (key, generators, headers, disclosed
data) under the same `api_id` — exhibits a hash collision. -/
theorem proof_resize (hl : Lawful env pair) (cs : Suite G1) (pk : G2)
    (π : PoKSignature S G1) (gens : Generators G1) (header ph : Option Bytes) (dm : List S)
    (di : List Nat) (apiId : Option Bytes) (hsz : gens.values.length ≤ 2 ^ 64)
    (h : coreProofVerify env cs pk π gens header ph dm di apiId = .ok ())
    (b' : Bytes) (hlen : b'.length ≠ (π.toBytes env).length)
    (hlast : b'.drop (b'.length - 32) = (π.toBytes env).drop ((π.toBytes env).length - 32)) :
    PoKSignature.fromBytes env b' = .err ∨
      ∃ π', PoKSignature.fromBytes env b' = .ok π' ∧ π'.challenge = π.challenge ∧
        π'.mCap.length ≠ π.mCap.length ∧
        ∀ (pk' : G2) (gens' : Generators G1) (header' ph' : Option Bytes) (dm' : List S)
          (di' : List Nat), gens'.values.length ≤ 2 ^ 64 →
          coreProofVerify env cs pk' π' gens' header' ph' dm' di' apiId = .ok () →
          HashCollision env cs := by
  cases hd : PoKSignature.fromBytes env b' with
  | err => exact Or.inl rfl
  | panic => exact absurd hd (Zk.Total.PoKSignature.fromBytes_ne_panic env b')
  | ok π' =>
    right
    obtain ⟨hb, hl'⟩ := C09.proof_strict hl b' π' hd
    have hU : π'.mCap.length ≠ π.mCap.length := by
      intro hU
      apply hlen
      rw [hl', Zk.Codecs.PoKSignature.toBytes_length hl π, hU]
    have hc : π'.challenge = π.challenge := by
      apply hl.sCodec.enc_injective
      rw [← toBytes_last32 hl π', ← toBytes_last32 hl π, hb, hlast]
    exact ⟨π', rfl, hc, hU, fun pk' gens' header' ph' dm' di' hsz' h' =>
      C04.tamper_hidden_count hl cs pk pk' π π' gens gens' header header' ph ph' dm dm' di di'
        apiId hsz hsz' h h' hc hU⟩

/-- Remove `n` whole 32-octet blocks starting with the `j`-th block after the 240-octet head
(`Abar ‖ Bbar ‖ D ‖ ê ‖ r̂1 ‖ r̂3`); with `j + n ≤ U` the challenge block is kept. -/
def deleteBlocks (j n : Nat) (b : Bytes) : Bytes :=
  b.take (240 + 32 * j) ++ b.drop (240 + 32 * (j + n))

/-- Insert the octets `blk` before the `j`-th block after the 240-octet head. -/
def insertBlocks (j : Nat) (blk b : Bytes) : Bytes :=
  b.take (240 + 32 * j) ++ blk ++ b.drop (240 + 32 * j)

theorem deleteBlocks_props (b : Bytes) (U j n : Nat) (hN : b.length = 272 + 32 * U)
    (hn : 0 < n) (hjn : j + n ≤ U) :
    (deleteBlocks j n b).length ≠ b.length ∧
      (deleteBlocks j n b).drop ((deleteBlocks j n b).length - 32) = b.drop (b.length - 32) := by
  have hlen' : (deleteBlocks j n b).length = b.length - 32 * n := by
    unfold deleteBlocks
    simp only [List.length_append, List.length_take, List.length_drop]
    omega
  refine ⟨by omega, ?_⟩
  rw [hlen']
  unfold deleteBlocks
  rw [List.drop_append, List.drop_eq_nil_of_le (by simp only [List.length_take]; omega),
    List.nil_append, List.drop_drop]
  congr 1
  simp only [List.length_take]
  omega

theorem insertBlocks_props (b blk : Bytes) (U j : Nat) (hN : b.length = 272 + 32 * U)
    (hblk : blk ≠ []) (hj : j ≤ U) :
    (insertBlocks j blk b).length ≠ b.length ∧
      (insertBlocks j blk b).drop ((insertBlocks j blk b).length - 32)
        = b.drop (b.length - 32) := by
  have hpos : 0 < blk.length := List.length_pos_iff.mpr hblk
  have hlen' : (insertBlocks j blk b).length = b.length + blk.length := by
    unfold insertBlocks
    simp only [List.length_append, List.length_take, List.length_drop]
    omega
  refine ⟨by omega, ?_⟩
  rw [hlen']
  unfold insertBlocks
  rw [List.drop_append, List.drop_eq_nil_of_le
    (by simp only [List.length_append, List.length_take]; omega), List.nil_append, List.drop_drop]
  congr 1
  simp only [List.length_append, List.length_take]
  omega

/-- **Truncation by whole scalars**: `n ≥ 1` of the `U` hidden-message responses removed from
the encoding (any position; the challenge block is kept). -/
theorem proof_delete_blocks (hl : Lawful env pair) (cs : Suite G1) (pk : G2)
    (π : PoKSignature S G1) (gens : Generators G1) (header ph : Option Bytes) (dm : List S)
    (di : List Nat) (apiId : Option Bytes) (hsz : gens.values.length ≤ 2 ^ 64)
    (h : coreProofVerify env cs pk π gens header ph dm di apiId = .ok ())
    (j n : Nat) (hn : 0 < n) (hjn : j + n ≤ π.mCap.length) :
    PoKSignature.fromBytes env (deleteBlocks j n (π.toBytes env)) = .err ∨
      ∃ π', PoKSignature.fromBytes env (deleteBlocks j n (π.toBytes env)) = .ok π' ∧
        π'.challenge = π.challenge ∧ π'.mCap.length ≠ π.mCap.length ∧
        ∀ (pk' : G2) (gens' : Generators G1) (header' ph' : Option Bytes) (dm' : List S)
          (di' : List Nat), gens'.values.length ≤ 2 ^ 64 →
          coreProofVerify env cs pk' π' gens' header' ph' dm' di' apiId = .ok () →
          HashCollision env cs := by
  obtain ⟨h1, h2⟩ := deleteBlocks_props (π.toBytes env) π.mCap.length j n
    (Zk.Codecs.PoKSignature.toBytes_length hl π) hn hjn
  exact proof_resize hl cs pk π gens header ph dm di apiId hsz h _ h1 h2

/-- **Extension**: any non-empty octet string (in particular whole scalars) inserted before the
`j`-th hidden-message response, `j ≤ U` (`j = U`: directly before the challenge block). -/
theorem proof_insert_blocks (hl : Lawful env pair) (cs : Suite G1) (pk : G2)
    (π : PoKSignature S G1) (gens : Generators G1) (header ph : Option Bytes) (dm : List S)
    (di : List Nat) (apiId : Option Bytes) (hsz : gens.values.length ≤ 2 ^ 64)
    (h : coreProofVerify env cs pk π gens header ph dm di apiId = .ok ())
    (j : Nat) (blk : Bytes) (hblk : blk ≠ []) (hj : j ≤ π.mCap.length) :
    PoKSignature.fromBytes env (insertBlocks j blk (π.toBytes env)) = .err ∨
      ∃ π', PoKSignature.fromBytes env (insertBlocks j blk (π.toBytes env)) = .ok π' ∧
        π'.challenge = π.challenge ∧ π'.mCap.length ≠ π.mCap.length ∧
        ∀ (pk' : G2) (gens' : Generators G1) (header' ph' : Option Bytes) (dm' : List S)
          (di' : List Nat), gens'.values.length ≤ 2 ^ 64 →
          coreProofVerify env cs pk' π' gens' header' ph' dm' di' apiId = .ok () →
          HashCollision env cs := by
  obtain ⟨h1, h2⟩ := insertBlocks_props (π.toBytes env) blk π.mCap.length j
    (Zk.Codecs.PoKSignature.toBytes_length hl π) hblk hj
  exact proof_resize hl cs pk π gens header ph dm di apiId hsz h _ h1 h2

/-- **`proof_truncate_extend`** (summary of the two previous theorems): deleting `n ≥ 1` whole
32-octet blocks, or inserting any non-empty octet string (e.g. whole blocks), before the final
challenge block of the encoding of an accepted proof gives a string that decodes, if at all, to a
proof with the same challenge and another `mCap.length`; its acceptance for any statement
exhibits a hash collision. -/
theorem proof_truncate_extend (hl : Lawful env pair) (cs : Suite G1) (pk : G2)
    (π : PoKSignature S G1) (gens : Generators G1) (header ph : Option Bytes) (dm : List S)
    (di : List Nat) (apiId : Option Bytes) (hsz : gens.values.length ≤ 2 ^ 64)
    (h : coreProofVerify env cs pk π gens header ph dm di apiId = .ok ())
    (b' : Bytes)
    (hb' : (∃ j n, 0 < n ∧ j + n ≤ π.mCap.length ∧ b' = deleteBlocks j n (π.toBytes env)) ∨
      (∃ j blk, blk ≠ [] ∧ j ≤ π.mCap.length ∧ b' = insertBlocks j blk (π.toBytes env))) :
    PoKSignature.fromBytes env b' = .err ∨
      ∃ π', PoKSignature.fromBytes env b' = .ok π' ∧
        π'.challenge = π.challenge ∧ π'.mCap.length ≠ π.mCap.length ∧
        ∀ (pk' : G2) (gens' : Generators G1) (header' ph' : Option Bytes) (dm' : List S)
          (di' : List Nat), gens'.values.length ≤ 2 ^ 64 →
          coreProofVerify env cs pk' π' gens' header' ph' dm' di' apiId = .ok () →
          HashCollision env cs := by
  rcases hb' with ⟨j, n, hn, hjn, rfl⟩ | ⟨j, blk, hblk, hj, rfl⟩
  · exact proof_delete_blocks hl cs pk π gens header ph dm di apiId hsz h j n hn hjn
  · exact proof_insert_blocks hl cs pk π gens header ph dm di apiId hsz h j blk hblk hj

/-! ### 3. The same at API level (`proof_verify`) -/

/-- A successful `proof_verify`, unfolded: the disclosed messages map to scalars, the
`U + R + 1` generators exist, and `core_proof_verify` accepts. -/
theorem proofVerify_inv (cs : Suite G1) (π : PoKSignature S G1) (pk : G2)
    (dmsgs : Option (List Bytes)) (di : Option (List Nat)) (header ph : Option Bytes)
    (h : proofVerify env cs π pk dmsgs di header ph = .ok ()) :
    ∃ dm gens, messagesToScalar env cs (dmsgs.getD []) cs.apiId = .ok dm ∧
      Generators.create env cs (π.mCap.length + (sortDedup (di.getD [])).length + 1)
        (some cs.apiId) = .ok gens ∧
      coreProofVerify env cs pk π gens header ph dm (sortDedup (di.getD [])) (some cs.apiId)
        = .ok () := by
  unfold proofVerify at h
  dsimp only at h
  cases hm : messagesToScalar env cs (dmsgs.getD []) cs.apiId with
  | err => rw [hm] at h; cases h
  | panic => rw [hm] at h; cases h
  | ok dm =>
    rw [hm] at h; simp only at h
    cases hg : Generators.create env cs
        (π.mCap.length + (sortDedup (di.getD [])).length + 1) (some cs.apiId) with
    | err => rw [hg] at h; cases h
    | panic => rw [hg] at h; cases h
    | ok gens =>
      rw [hg] at h; simp only at h
      exact ⟨dm, gens, rfl, rfl, h⟩

/-- What acceptance of a changed proof by `proof_verify` for the same statement implies: as
`ChangeVerdict`, over the generators `create_generators(U + R + 1, api_id)` the verifier itself
derives. -/
def ApiChangeVerdict (env : Env S G1 G2) (cs : Suite G1) (π π' : PoKSignature S G1)
    (di : Option (List Nat)) : Prop :=
  HashCollision env cs ∨ π'.challenge ≠ π.challenge ∨
    ∃ gens, Generators.create env cs (π.mCap.length + (sortDedup (di.getD [])).length + 1)
        (some cs.apiId) = .ok gens ∧
      ResponseRelation π π' gens (sortDedup (di.getD []))

/-- Two proofs accepted by `proof_verify` for the same statement (decoded level). The number of
generators depends on the proof (`U + R + 1`), so a different number of hidden responses means
different generator lists; that case ends in a hash collision or a different challenge. -/
theorem proofVerify_any_change (hl : Lawful env pair) (cs : Suite G1) (π π' : PoKSignature S G1)
    (pk : G2) (dmsgs : Option (List Bytes)) (di : Option (List Nat)) (header ph : Option Bytes)
    (hsz : π.mCap.length + (sortDedup (di.getD [])).length + 1 ≤ 2 ^ 64)
    (hsz' : π'.mCap.length + (sortDedup (di.getD [])).length + 1 ≤ 2 ^ 64)
    (h : proofVerify env cs π pk dmsgs di header ph = .ok ())
    (h' : proofVerify env cs π' pk dmsgs di header ph = .ok ())
    (hne : π' ≠ π) : ApiChangeVerdict env cs π π' di := by
  obtain ⟨dm, gens, hm, hg, hv⟩ := proofVerify_inv cs π pk dmsgs di header ph h
  obtain ⟨dm', gens', hm', hg', hv'⟩ := proofVerify_inv cs π' pk dmsgs di header ph h'
  rw [hm] at hm'; cases hm'
  have hl1 := (create_length cs _ _ _ hg).1
  have hl2 := (create_length cs _ _ _ hg').1
  by_cases hc : π'.challenge = π.challenge
  swap
  · exact Or.inr (Or.inl hc)
  by_cases hU : π'.mCap.length = π.mCap.length
  · rw [hU, hg] at hg'; cases hg'
    rcases C04.any_change hl cs pk π π' gens header ph dm _ _ (by omega) hv hv' hne with
      x | x | x
    · exact Or.inl x
    · exact Or.inr (Or.inl x)
    · exact Or.inr (Or.inr ⟨gens, hg, x⟩)
  · exact Or.inl (C04.tamper_hidden_count hl cs pk pk π π' gens gens' header header ph ph dm dm
      _ _ _ (by omega) (by omega) hv hv' hc hU)

/-- **Any change of the encoded proof, API level.** `π` accepted by `proof_verify`, `b'` any
other octet string (with at most `2^64 − R` 32-octet blocks after the 240-octet head, i.e.
`U' + R + 1 ≤ 2^64`, as for `π`): `from_bytes b'` fails, or yields
`π' ≠ π`, and acceptance of `π'` by `proof_verify` for the same statement implies
`ApiChangeVerdict`. -/
theorem proofVerify_bytes_tamper (hl : Lawful env pair) (cs : Suite G1) (π : PoKSignature S G1)
    (pk : G2) (dmsgs : Option (List Bytes)) (di : Option (List Nat)) (header ph : Option Bytes)
    (hsz : π.mCap.length + (sortDedup (di.getD [])).length + 1 ≤ 2 ^ 64)
    (h : proofVerify env cs π pk dmsgs di header ph = .ok ())
    (b' : Bytes) (hne : b' ≠ π.toBytes env)
    (hsz' : (b'.length - 240) / 32 + (sortDedup (di.getD [])).length ≤ 2 ^ 64) :
    PoKSignature.fromBytes env b' = .err ∨
      ∃ π', PoKSignature.fromBytes env b' = .ok π' ∧ π' ≠ π ∧
        (proofVerify env cs π' pk dmsgs di header ph = .ok () →
          ApiChangeVerdict env cs π π' di) := by
  cases hd : PoKSignature.fromBytes env b' with
  | err => exact Or.inl rfl
  | panic => exact absurd hd (Zk.Total.PoKSignature.fromBytes_ne_panic env b')
  | ok π' =>
    right
    have hπ := decode_ne_of_bytes_ne hl π π' b' hne hd
    have hl' := (C09.proof_strict hl b' π' hd).2
    exact ⟨π', rfl, hπ, fun h' =>
      proofVerify_any_change hl cs π π' pk dmsgs di header ph hsz (by omega) h h' hπ⟩

/-- **Any single-bit flip of the encoded proof, API level.** -/
theorem proofVerify_bitflip (hl : Lawful env pair) (cs : Suite G1) (π : PoKSignature S G1)
    (pk : G2) (dmsgs : Option (List Bytes)) (di : Option (List Nat)) (header ph : Option Bytes)
    (hsz : π.mCap.length + (sortDedup (di.getD [])).length + 1 ≤ 2 ^ 64)
    (h : proofVerify env cs π pk dmsgs di header ph = .ok ())
    (i : Nat) (hi : i < 8 * (272 + 32 * π.mCap.length)) :
    PoKSignature.fromBytes env (flipBit i (π.toBytes env)) = .err ∨
      ∃ π', PoKSignature.fromBytes env (flipBit i (π.toBytes env)) = .ok π' ∧ π' ≠ π ∧
        (proofVerify env cs π' pk dmsgs di header ph = .ok () →
          ApiChangeVerdict env cs π π' di) := by
  have hN := Zk.Codecs.PoKSignature.toBytes_length hl π
  exact proofVerify_bytes_tamper hl cs π pk dmsgs di header ph hsz h _
    (flipBit_ne i _ (by rw [hN]; exact hi)) (by rw [flipBit_length, hN]; omega)

/-- **Another length, same challenge block, API level**: acceptance by `proof_verify` — for ANY
statement — exhibits a hash collision. -/
theorem proofVerify_resize (hl : Lawful env pair) (cs : Suite G1) (π : PoKSignature S G1)
    (pk : G2) (dmsgs : Option (List Bytes)) (di : Option (List Nat)) (header ph : Option Bytes)
    (hsz : π.mCap.length + (sortDedup (di.getD [])).length + 1 ≤ 2 ^ 64)
    (h : proofVerify env cs π pk dmsgs di header ph = .ok ())
    (b' : Bytes) (hlen : b'.length ≠ (π.toBytes env).length)
    (hlast : b'.drop (b'.length - 32) = (π.toBytes env).drop ((π.toBytes env).length - 32)) :
    PoKSignature.fromBytes env b' = .err ∨
      ∃ π', PoKSignature.fromBytes env b' = .ok π' ∧ π'.challenge = π.challenge ∧
        π'.mCap.length ≠ π.mCap.length ∧
        ∀ (pk' : G2) (dmsgs' : Option (List Bytes)) (di' : Option (List Nat))
          (header' ph' : Option Bytes),
          π'.mCap.length + (sortDedup (di'.getD [])).length + 1 ≤ 2 ^ 64 →
          proofVerify env cs π' pk' dmsgs' di' header' ph' = .ok () → HashCollision env cs := by
  obtain ⟨dm, gens, hm, hg, hv⟩ := proofVerify_inv cs π pk dmsgs di header ph h
  have hl1 := (create_length cs _ _ _ hg).1
  rcases proof_resize hl cs pk π gens header ph dm _ _ (by omega) hv b' hlen hlast with
    he | ⟨π', hd, hc, hU, hall⟩
  · exact Or.inl he
  · refine Or.inr ⟨π', hd, hc, hU, fun pk' dmsgs' di' header' ph' hsz' h' => ?_⟩
    obtain ⟨dm', gens', _, hg', hv'⟩ := proofVerify_inv cs π' pk' dmsgs' di' header' ph' h'
    have hl2 := (create_length cs _ _ _ hg').1
    exact hall pk' gens' header' ph' dm' _ (by omega) hv'

/-- Truncation by whole scalars, API level. -/
theorem proofVerify_delete_blocks (hl : Lawful env pair) (cs : Suite G1) (π : PoKSignature S G1)
    (pk : G2) (dmsgs : Option (List Bytes)) (di : Option (List Nat)) (header ph : Option Bytes)
    (hsz : π.mCap.length + (sortDedup (di.getD [])).length + 1 ≤ 2 ^ 64)
    (h : proofVerify env cs π pk dmsgs di header ph = .ok ())
    (j n : Nat) (hn : 0 < n) (hjn : j + n ≤ π.mCap.length) :
    PoKSignature.fromBytes env (deleteBlocks j n (π.toBytes env)) = .err ∨
      ∃ π', PoKSignature.fromBytes env (deleteBlocks j n (π.toBytes env)) = .ok π' ∧
        π'.challenge = π.challenge ∧ π'.mCap.length ≠ π.mCap.length ∧
        ∀ (pk' : G2) (dmsgs' : Option (List Bytes)) (di' : Option (List Nat))
          (header' ph' : Option Bytes),
          π'.mCap.length + (sortDedup (di'.getD [])).length + 1 ≤ 2 ^ 64 →
          proofVerify env cs π' pk' dmsgs' di' header' ph' = .ok () → HashCollision env cs := by
  obtain ⟨h1, h2⟩ := deleteBlocks_props (π.toBytes env) π.mCap.length j n
    (Zk.Codecs.PoKSignature.toBytes_length hl π) hn hjn
  exact proofVerify_resize hl cs π pk dmsgs di header ph hsz h _ h1 h2

/-- Extension by any non-empty octet string before the challenge block, API level. -/
theorem proofVerify_insert_blocks (hl : Lawful env pair) (cs : Suite G1) (π : PoKSignature S G1)
    (pk : G2) (dmsgs : Option (List Bytes)) (di : Option (List Nat)) (header ph : Option Bytes)
    (hsz : π.mCap.length + (sortDedup (di.getD [])).length + 1 ≤ 2 ^ 64)
    (h : proofVerify env cs π pk dmsgs di header ph = .ok ())
    (j : Nat) (blk : Bytes) (hblk : blk ≠ []) (hj : j ≤ π.mCap.length) :
    PoKSignature.fromBytes env (insertBlocks j blk (π.toBytes env)) = .err ∨
      ∃ π', PoKSignature.fromBytes env (insertBlocks j blk (π.toBytes env)) = .ok π' ∧
        π'.challenge = π.challenge ∧ π'.mCap.length ≠ π.mCap.length ∧
        ∀ (pk' : G2) (dmsgs' : Option (List Bytes)) (di' : Option (List Nat))
          (header' ph' : Option Bytes),
          π'.mCap.length + (sortDedup (di'.getD [])).length + 1 ≤ 2 ^ 64 →
          proofVerify env cs π' pk' dmsgs' di' header' ph' = .ok () → HashCollision env cs := by
  obtain ⟨h1, h2⟩ := insertBlocks_props (π.toBytes env) blk π.mCap.length j
    (Zk.Codecs.PoKSignature.toBytes_length hl π) hblk hj
  exact proofVerify_resize hl cs π pk dmsgs di header ph hsz h _ h1 h2

/-! ### The hypotheses are satisfiable / the operations do what they say (toy checks) -/

example : flipBit 0 [0x00, 0xff] = [0x80, 0xff] := by decide
example : flipBit 15 [0x00, 0xff] = [0x00, 0xfe] := by decide
example : flipBit 16 [0x00, 0xff] = [0x00, 0xff] := by decide

end
end Zk.C04Bytes
